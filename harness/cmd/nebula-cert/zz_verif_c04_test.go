//go:build !windows

package main

// C04 through the nebula-cert command functions: a sample of every class of TLC's (TBS certificate, CA) vectors
// (spec/CertTrust.tla, the same vectors.ndjson the package-level harness consumes) is created with `ca` and `sign`
// on real files.  A vector is expressible through the CLI when the certificate is a host certificate of the CA's
// curve that does not start before its CA (sign always starts "now"); its validity-window class is kept by the
// duration (one hour inside a CA of 100 hours, 200 hours for "ends after the CA").

import (
	"bytes"
	"encoding/json"
	"fmt"
	"net/netip"
	"os"
	"path/filepath"
	"sort"
	"strings"
	"testing"
	"time"

	"github.com/slackhq/nebula/cert"
	"github.com/slackhq/nebula/cert/p256"
)

type c04cliPrefix struct{ F, A, B int }

type c04cliCA struct {
	Id     string         `json:"id"`
	Ver    int            `json:"ver"`
	Curve  string         `json:"curve"`
	Nb     int            `json:"nb"`
	Na     int            `json:"na"`
	Groups []string       `json:"groups"`
	Nets   []c04cliPrefix `json:"nets"`
	Unsafe []c04cliPrefix `json:"unsafe"`
}

type c04cliVec struct {
	In struct {
		C struct {
			Ver    int            `json:"ver"`
			Curve  string         `json:"curve"`
			IsCA   bool           `json:"isCA"`
			Nb     int            `json:"nb"`
			Na     int            `json:"na"`
			Groups []string       `json:"groups"`
			Nets   []c04cliPrefix `json:"nets"`
			Unsafe []c04cliPrefix `json:"unsafe"`
			Issuer c04cliCA       `json:"issuer"`
		} `json:"c"`
	} `json:"in"`
	Exp struct {
		Ok  bool   `json:"ok"`
		Why string `json:"why"`
	} `json:"exp"`
}

// order-preserving embedding of the 3-bit abstract universe (same idea as in the package-level harness)
func c04cliNet(p c04cliPrefix) string {
	l4 := []int{8, 16, 24, 32}
	l6 := []int{16, 48, 64, 128}
	set := func(b []byte, l []int) {
		for i := 1; i <= 3; i++ {
			if p.A>>(3-i)&1 == 1 {
				pos := l[i] - 1
				b[pos/8] |= 0x80 >> (pos % 8)
			}
		}
	}
	if p.F == 4 {
		b := [4]byte{10}
		set(b[:], l4)
		return netip.PrefixFrom(netip.AddrFrom4(b), l4[p.B]).String()
	}
	b := [16]byte{0xfd, 0x17}
	set(b[:], l6)
	return netip.PrefixFrom(netip.AddrFrom16(b), l6[p.B]).String()
}

func c04cliNets(ps []c04cliPrefix) string {
	var out []string
	for _, p := range ps {
		out = append(out, c04cliNet(p))
	}
	return strings.Join(out, ",")
}

func TestVerif_C04(t *testing.T) {
	res := vNewResult()
	defer res.Write(t)
	dir, err := os.MkdirTemp(os.Getenv("VERIF_OUT"), "cli")
	if err != nil {
		t.Fatal(err)
	}
	defer os.RemoveAll(dir)
	nopw := &StubPasswordReader{}
	perClass := 12
	if !vQuick() {
		perClass = 150
	}
	rnd := vRand()

	// pick the expressible vectors, a bounded number per class, seeded
	byClass := map[string][]*c04cliVec{}
	vReadNDJSON(t, "vectors.ndjson", func(line []byte) {
		v := new(c04cliVec)
		if err := json.Unmarshal(line, v); err != nil {
			t.Fatalf("vector: %v", err)
		}
		c := v.In.C
		if c.Issuer.Id == "none" || c.IsCA || c.Curve != c.Issuer.Curve || c.Nb < c.Issuer.Nb || c.Nb > c.Na || c.Issuer.Nb > c.Issuer.Na {
			return
		}
		if c.Ver == 1 && len(c.Nets) != 1 {
			return // `sign -version 1` takes exactly one network
		}
		cls := fmt.Sprintf("%s/v%d/ca-v%d/%s", v.Exp.Why, c.Ver, c.Issuer.Ver, c.Curve)
		byClass[cls] = append(byClass[cls], v)
	})
	caDirs := map[string]string{}
	n := 0
	var classes []string
	for cls := range byClass {
		classes = append(classes, cls)
	}
	sort.Strings(classes)
	for _, cls := range classes {
		vs := byClass[cls]
		rnd.Shuffle(len(vs), func(i, j int) { vs[i], vs[j] = vs[j], vs[i] })
		if len(vs) > perClass {
			vs = vs[:perClass]
		}
		for _, v := range vs {
			n++
			c := v.In.C
			iss := c.Issuer
			caKey := fmt.Sprintf("%+v", iss)
			cad := caDirs[caKey]
			if cad == "" {
				cad = filepath.Join(dir, fmt.Sprintf("ca%d", len(caDirs)))
				if err := os.Mkdir(cad, 0o700); err != nil {
					t.Fatal(err)
				}
				args := []string{"-version", fmt.Sprint(iss.Ver), "-name", "verif-ca", "-duration", "100h",
					"-curve", map[string]string{"x25519": "25519", "p256": "P256"}[iss.Curve],
					"-out-crt", filepath.Join(cad, "ca.crt"), "-out-key", filepath.Join(cad, "ca.key")}
				if len(iss.Groups) > 0 {
					args = append(args, "-groups", strings.Join(iss.Groups, ","))
				}
				if len(iss.Nets) > 0 {
					args = append(args, "-networks", c04cliNets(iss.Nets))
				}
				if len(iss.Unsafe) > 0 {
					args = append(args, "-unsafe-networks", c04cliNets(iss.Unsafe))
				}
				ob, eb := &bytes.Buffer{}, &bytes.Buffer{}
				if err := ca(args, ob, eb, nopw); err != nil {
					t.Fatalf("nebula-cert ca %v: %v", args, err)
				}
				res.Hit("cli:ca")
				// self-signing succeeds only for CA certificates, and what it issues is usable as a trust root
				pemb, _ := os.ReadFile(filepath.Join(cad, "ca.crt"))
				cc, _, err := cert.UnmarshalCertificateFromPEM(pemb)
				if err != nil || !cc.IsCA() || cert.NewCAPool().AddCA(cc) != nil {
					res.Mismatch("cli:ca:unusable", fmt.Sprintf("certificate written by `nebula-cert ca %v` is not a usable CA (%v)", args, err),
						map[string]any{"args": args, "pem": string(pemb)})
				}
				caDirs[caKey] = cad
			}
			dur := "1h"
			if c.Na > iss.Na {
				dur = "200h"
			}
			out := filepath.Join(dir, fmt.Sprintf("h%d", n))
			args := []string{"-version", fmt.Sprint(c.Ver), "-ca-crt", filepath.Join(cad, "ca.crt"), "-ca-key", filepath.Join(cad, "ca.key"),
				"-name", fmt.Sprintf("host%d", n), "-duration", dur, "-networks", c04cliNets(c.Nets),
				"-out-crt", out + ".crt", "-out-key", out + ".key"}
			if len(c.Groups) > 0 {
				args = append(args, "-groups", strings.Join(c.Groups, ","))
			}
			if len(c.Unsafe) > 0 {
				args = append(args, "-unsafe-networks", c04cliNets(c.Unsafe))
			}
			ob, eb := &bytes.Buffer{}, &bytes.Buffer{}
			err := signCert(args, ob, eb, nopw)
			res.Case(cls + "/" + fmt.Sprint(n))
			res.Hit("cli:class:" + v.Exp.Why)
			caPEM, _ := os.ReadFile(filepath.Join(cad, "ca.crt"))
			det := map[string]any{"args": args, "abstract": v.In.C, "specification": v.Exp.Why, "error": fmt.Sprint(err), "ca_pem": string(caPEM)}
			switch {
			case err == nil && !v.Exp.Ok:
				res.Hit("cli:sign:exceeds")
				res.Mismatch(fmt.Sprintf("cli:sign:succeeds:%s:v%d", v.Exp.Why, c.Ver),
					fmt.Sprintf("`nebula-cert sign` succeeds although the certificate violates its CA (%s): %v", v.Exp.Why, args), det)
				continue
			case err != nil && v.Exp.Ok:
				res.Hit("cli:sign:refused-within")
				res.mu.Lock()
				k, _ := res.Extra["refused_within_constraints"].(int)
				res.Extra["refused_within_constraints"] = k + 1
				if k < 3 {
					res.Extra[fmt.Sprintf("refused_within_%d", k)] = det
				}
				res.mu.Unlock()
				continue
			case err != nil:
				res.Hit("cli:sign:refused")
				res.Hit("cli:sign:refused:" + v.Exp.Why)
				continue
			}
			res.Hit("cli:sign:ok")
			pemb, _ := os.ReadFile(out + ".crt")
			det["issued_pem"] = string(pemb)
			hc, _, err := cert.UnmarshalCertificateFromPEM(pemb)
			if err != nil {
				res.Mismatch("cli:issued:undecodable", fmt.Sprintf("certificate written by `nebula-cert sign` does not decode: %v", err), det)
				continue
			}
			pool, err := cert.NewCAPoolFromPEM(caPEM)
			if err != nil {
				t.Fatalf("CA pool: %v", err)
			}
			if _, err := pool.VerifyCertificate(time.Now(), hc); err != nil {
				res.Mismatch("cli:issued:rejected", fmt.Sprintf("certificate issued by `nebula-cert sign` does not verify against its CA: %v", err), det)
			}
			if hc.Curve() == cert.Curve_P256 {
				res.Hit("cli:lowS")
				if low, err := p256.IsNormalized(hc.Signature()); err != nil || !low {
					res.Mismatch("cli:issued:high-S", fmt.Sprintf("P-256 signature written by `nebula-cert sign` is not low-S (%v)", err), det)
				}
			}
		}
	}
	res.Traces = n
}
