package nebula

// Shared binding of spec/Firewall.tla to the real firewall (C16, C17, C22): the universe of the specification
// (this node in three configurations, CAs, peers, packet shapes) is concretised into real certificates, a real
// CA pool, real HostInfo objects (buildNetworks) and real Firewall objects.

import (
	"crypto/ed25519"
	"encoding/json"
	"fmt"
	"log/slog"
	"math/rand"
	"net/netip"
	"runtime"
	"sort"
	"strings"
	"sync"
	"testing"
	"time"

	"github.com/gaissmai/bart"
	"github.com/slackhq/nebula/cert"
	"github.com/slackhq/nebula/firewall"
)

type fwNet struct {
	A []int `json:"a"`
	N int   `json:"n"`
}

type fwCidr struct {
	K string `json:"k"`
	A []int  `json:"a"`
	N int    `json:"n"`
}

type fwRule struct {
	Dir    string   `json:"dir"`
	Proto  string   `json:"proto"`
	Lo     int      `json:"lo"`
	Hi     int      `json:"hi"`
	Groups []string `json:"groups"`
	Host   string   `json:"host"`
	Cidr   fwCidr   `json:"cidr"`
	LCidr  fwCidr   `json:"lcidr"`
	CAName string   `json:"caName"`
	CASha  string   `json:"caSha"`
}

type fwPkt struct {
	Proto string `json:"proto"`
	Lp    int    `json:"lp"`
	Rp    int    `json:"rp"`
	Frag  bool   `json:"frag"`
	L     string `json:"l"`
	R     string `json:"r"`
	La    []int  `json:"la"`
	Ra    []int  `json:"ra"`
}

type fwPeer struct {
	Name   string   `json:"name"`
	Groups []string `json:"groups"`
	CA     string   `json:"ca"`
	Nets   []fwNet  `json:"nets"`
	Unsafe []fwNet  `json:"unsafe"`
}

type fwEnv struct {
	Nets       []fwNet `json:"nets"`
	Unsafe     []fwNet `json:"unsafe"`
	DefaultAny bool    `json:"defaultAny"`
}

type fwUniverse struct {
	Pkts    []fwPkt           `json:"pkts"`
	PeerIds []string          `json:"peerIds"`
	Peers   map[string]fwPeer `json:"peers"`
	CAs     map[string]struct {
		Name string `json:"name"`
		Sha  string `json:"sha"`
	} `json:"cas"`
	Envs    map[string]fwEnv    `json:"envs"`
	EnvIds  []string            `json:"envIds"`
	LAddr   map[string][]int    `json:"laddr"`
	RAddr   []map[string][]int  `json:"raddr"`
	Pairs   map[string][]int    `json:"pairs"`
	Rules17 map[string][]fwRule `json:"rules17"`
	// the port dimension (C16, vectors of kind "prules"): packet shapes around every port specification, with their own pair ids
	PPkts  []fwPkt          `json:"ppkts"`
	PPairs map[string][]int `json:"ppairs"`
}

type fwVecHead struct {
	In struct {
		Kind string `json:"kind"`
	} `json:"in"`
}

// fwWorld = the universe with real objects.
type fwWorld struct {
	u       fwUniverse
	l       *slog.Logger
	pool    *cert.CAPool
	shas    map[string]string               // sha symbol -> real fingerprint
	myCert  map[string]cert.Certificate     // env -> this node's certificate
	myNets  map[string]*bart.Lite           // env -> myVpnNetworksTable
	peers   map[string]map[string]*HostInfo // env -> peer id -> hostinfo
	peerIdx map[string]int
}

type fwSeededReader struct{ r *rand.Rand }

func (s fwSeededReader) Read(p []byte) (int, error) { return s.r.Read(p) }

func fwAddr(b []int) netip.Addr {
	raw := make([]byte, len(b))
	for i, v := range b {
		raw[i] = byte(v)
	}
	a, ok := netip.AddrFromSlice(raw)
	if !ok {
		panic(fmt.Sprintf("verif: bad address %v", b))
	}
	return a
}

func fwPrefix(n fwNet) netip.Prefix { return netip.PrefixFrom(fwAddr(n.A), n.N) }

func fwPrefixes(ns []fwNet) []netip.Prefix {
	var out []netip.Prefix
	for _, n := range ns {
		out = append(out, fwPrefix(n))
	}
	return out
}

func (c fwCidr) String() string {
	switch c.K {
	case "none":
		return ""
	case "any":
		return "any"
	}
	return netip.PrefixFrom(fwAddr(c.A), c.N).String()
}

func fwProto(p string) uint8 {
	switch p {
	case "any":
		return firewall.ProtoAny
	case "tcp":
		return firewall.ProtoTCP
	case "udp":
		return firewall.ProtoUDP
	case "icmp":
		return firewall.ProtoICMP
	case "icmp6":
		return firewall.ProtoICMPv6
	case "other":
		return 132 // SCTP: a protocol the firewall has no table for
	}
	panic("verif: unknown protocol " + p)
}

// fwLoadUniverse builds the real world from the universe vector (the first line of vectors.ndjson).
func fwLoadUniverse(t testing.TB, line []byte) *fwWorld {
	var v struct {
		Exp fwUniverse `json:"exp"`
	}
	if err := json.Unmarshal(line, &v); err != nil {
		t.Fatalf("verif: universe: %v", err)
	}
	w := &fwWorld{u: v.Exp, l: slog.New(slog.DiscardHandler), pool: cert.NewCAPool(), shas: map[string]string{},
		myCert: map[string]cert.Certificate{}, myNets: map[string]*bart.Lite{}, peers: map[string]map[string]*HostInfo{},
		peerIdx: map[string]int{}}
	rnd := fwSeededReader{vRand()}
	now := time.Now()
	before, after := now.Add(-time.Hour), now.Add(24*time.Hour)

	type ca struct {
		c    cert.Certificate
		priv []byte
	}
	cas := map[string]ca{}
	caIds := make([]string, 0, len(w.u.CAs))
	for id := range w.u.CAs {
		caIds = append(caIds, id)
	}
	sort.Strings(caIds)
	for _, id := range caIds {
		pub, priv, err := ed25519.GenerateKey(rnd)
		if err != nil {
			t.Fatal(err)
		}
		tbs := &cert.TBSCertificate{Version: cert.Version2, Curve: cert.Curve_CURVE25519, Name: w.u.CAs[id].Name,
			NotBefore: before, NotAfter: after, PublicKey: pub, IsCA: true}
		c, err := tbs.Sign(nil, cert.Curve_CURVE25519, priv)
		if err != nil {
			t.Fatalf("verif: sign CA %s: %v", id, err)
		}
		if err := w.pool.AddCA(c); err != nil {
			t.Fatalf("verif: add CA %s: %v", id, err)
		}
		fp, err := c.Fingerprint()
		if err != nil {
			t.Fatal(err)
		}
		w.shas[w.u.CAs[id].Sha] = fp
		cas[id] = ca{c, priv}
	}
	w.shas["shax"] = strings.Repeat("0f", 32)

	leaf := func(caId, name string, groups []string, nets, unsafe []netip.Prefix) cert.Certificate {
		pub := make([]byte, 32)
		rnd.Read(pub)
		tbs := &cert.TBSCertificate{Version: cert.Version2, Curve: cert.Curve_CURVE25519, Name: name, Networks: nets,
			UnsafeNetworks: unsafe, Groups: groups, NotBefore: before, NotAfter: after.Add(-time.Minute), PublicKey: pub}
		c, err := tbs.Sign(cas[caId].c, cert.Curve_CURVE25519, cas[caId].priv)
		if err != nil {
			t.Fatalf("verif: sign %s: %v", name, err)
		}
		return c
	}

	for i, id := range w.u.PeerIds {
		w.peerIdx[id] = i
	}
	for _, envId := range w.u.EnvIds {
		env := w.u.Envs[envId]
		mine := leaf("ca1", "me", []string{"self"}, fwPrefixes(env.Nets), fwPrefixes(env.Unsafe))
		w.myCert[envId] = mine
		// as pki.go does for CertState.myVpnNetworksTable
		tbl := new(bart.Lite)
		for _, n := range mine.Networks() {
			tbl.Insert(n)
		}
		w.myNets[envId] = tbl
		w.peers[envId] = map[string]*HostInfo{}
	}
	for _, id := range w.u.PeerIds {
		p := w.u.Peers[id]
		c := leaf(p.CA, p.Name, p.Groups, fwPrefixes(p.Nets), fwPrefixes(p.Unsafe))
		// the real CachedCertificate, as the handshake obtains it
		cc, err := w.pool.VerifyCertificate(now, c)
		if err != nil {
			t.Fatalf("verif: verify %s: %v", id, err)
		}
		for _, envId := range w.u.EnvIds {
			// as HandshakeManager.validatePeerCert / beginHandshake do
			var vpnAddrs []netip.Addr
			for _, n := range cc.Certificate.Networks() {
				vpnAddrs = append(vpnAddrs, n.Addr())
			}
			h := &HostInfo{ConnectionState: &ConnectionState{peerCert: cc}, vpnAddrs: vpnAddrs}
			h.buildNetworks(w.myNets[envId], cc.Certificate)
			w.peers[envId][id] = h
		}
	}
	return w
}

// newFirewall: a fresh real Firewall of this node in environment env (no rules).
func (w *fwWorld) newFirewall(env string) *Firewall {
	fw := NewFirewall(w.l, 24*time.Hour, 24*time.Hour, 24*time.Hour, w.myCert[env])
	fw.defaultLocalCIDRAny = w.u.Envs[env].DefaultAny
	return fw
}

func (w *fwWorld) sha(sym string) string {
	if sym == "" {
		return ""
	}
	s, ok := w.shas[sym]
	if !ok {
		panic("verif: unknown sha symbol " + sym)
	}
	return s
}

func (w *fwWorld) addRule(fw *Firewall, r fwRule) error {
	return fw.AddRule(r.Dir == "in", fwProto(r.Proto), int32(r.Lo), int32(r.Hi), r.Groups, r.Host, r.Cidr.String(),
		r.LCidr.String(), r.CAName, w.sha(r.CASha))
}

// packet concretises pair id = 10*k + j (packet shape k, peer j; both 1-based) in environment env.
func (w *fwWorld) packet(id int) (firewall.Packet, string) {
	k, j := id/10, id%10
	s := w.u.Pkts[k-1]
	return firewall.Packet{LocalAddr: fwAddr(w.u.LAddr[s.L]), RemoteAddr: fwAddr(w.u.RAddr[j-1][s.R]),
		LocalPort: uint16(s.Lp), RemotePort: uint16(s.Rp), Protocol: fwProto(s.Proto), Fragment: s.Frag}, w.u.PeerIds[j-1]
}

// ppacket concretises pair id = 10*k + j of the port shapes (universe.ppkts).
func (w *fwWorld) ppacket(id int) (firewall.Packet, string) {
	k, j := id/10, id%10
	s := w.u.PPkts[k-1]
	return firewall.Packet{LocalAddr: fwAddr(w.u.LAddr[s.L]), RemoteAddr: fwAddr(w.u.RAddr[j-1][s.R]),
		LocalPort: uint16(s.Lp), RemotePort: uint16(s.Rp), Protocol: fwProto(s.Proto), Fragment: s.Frag}, w.u.PeerIds[j-1]
}

// fwPortClass names a port specification of a rule by its place in the port space.
func fwPortClass(lo, hi int) string {
	const max = 65535
	switch {
	case lo == 0 && hi == 0:
		return "any"
	case lo == -1:
		return "fragment"
	case lo == 0:
		return "zero-range"
	case lo == 1 && hi == max:
		return "full-range"
	case lo == hi && lo == 1:
		return "single-lowest"
	case lo == hi && lo == max:
		return "single-highest"
	case lo == hi:
		return "single"
	case lo == 1:
		return "range-from-1"
	case hi == max:
		return "range-to-max"
	}
	return "range"
}

// fwPktClass names a packet shape by what it presents to a port table on the side a rule of direction dir looks at.
func fwPktClass(s fwPkt, dir string) string {
	port := s.Rp
	if dir == "in" {
		port = s.Lp
	}
	switch {
	case s.Proto == "icmp" || s.Proto == "icmp6":
		return s.Proto
	case s.Frag:
		return s.Proto + "/frag"
	case port == 0:
		return s.Proto + "/port0"
	}
	return s.Proto
}

func fwConcretePkt(p fwPkt) firewall.Packet {
	return firewall.Packet{LocalAddr: fwAddr(p.La), RemoteAddr: fwAddr(p.Ra), LocalPort: uint16(p.Lp), RemotePort: uint16(p.Rp),
		Protocol: fwProto(p.Proto), Fragment: p.Frag}
}

func fwResetConntrack(fw *Firewall) {
	fw.Conntrack.Lock()
	fw.Conntrack.Conns = make(map[firewall.Packet]*conn)
	fw.Conntrack.Unlock()
}

func fwSet(ids []int) map[int]bool {
	m := make(map[int]bool, len(ids))
	for _, i := range ids {
		m[i] = true
	}
	return m
}

func fwPortKind(lo, hi int) string {
	switch {
	case lo == 0:
		return "any"
	case lo == -1:
		return "fragment"
	case lo == hi:
		return "single"
	}
	return "range"
}

// fwDrop calls the real Firewall.Drop and turns a panic into an error string.
func fwDrop(fw *Firewall, p firewall.Packet, incoming bool, h *HostInfo, pool *cert.CAPool, cache firewall.ConntrackCache) (allowed bool, reason string) {
	defer func() {
		if r := recover(); r != nil {
			allowed, reason = false, fmt.Sprintf("panic: %v", r)
		}
	}()
	err := fw.Drop(p, incoming, h, pool, cache)
	if err == nil {
		return true, ""
	}
	return false, err.Error()
}

type fwVerdicts struct {
	AllowIn   []int `json:"allowIn"`
	EitherIn  []int `json:"eitherIn"`
	AllowOut  []int `json:"allowOut"`
	EitherOut []int `json:"eitherOut"`
}

// checkVerdicts runs every (packet shape, peer) pair of env through the real Drop in both directions, each on a fresh
// conntrack, compares with the expected sets and checks the "then tracked" effect with the reverse direction.
// key(dir, want, pktId) names the mismatch class. Returns the number of Drop evaluations.
func (w *fwWorld) checkVerdicts(res *vResult, fw *Firewall, env string, exp fwVerdicts, dirs []string,
	key func(what, dir, want string, id int) string, detail any) int {
	return w.checkVerdictsOn(res, fw, w.u.Pairs[env], w.packet, env, exp, dirs, key, detail)
}

// checkVerdictsOn: the same over an explicit pair set (pairs = the ids, packet = their concretisation).
func (w *fwWorld) checkVerdictsOn(res *vResult, fw *Firewall, pairs []int, packet func(id int) (firewall.Packet, string), env string,
	exp fwVerdicts, dirs []string, key func(what, dir, want string, id int) string, detail any) int {
	n := 0
	allow := map[string]map[int]bool{"in": fwSet(exp.AllowIn), "out": fwSet(exp.AllowOut)}
	either := map[string]map[int]bool{"in": fwSet(exp.EitherIn), "out": fwSet(exp.EitherOut)}
	for _, dir := range dirs {
		other := "out"
		if dir == "out" {
			other = "in"
		}
		for _, id := range pairs {
			pkt, peer := packet(id)
			h := w.peers[env][peer]
			fwResetConntrack(fw)
			got, reason := fwDrop(fw, pkt, dir == "in", h, w.pool, nil)
			n++
			switch {
			case strings.HasPrefix(reason, "panic"):
				res.Mismatch(key("panic", dir, "", id), fmt.Sprintf("Drop panicked: %s", reason), detail)
				continue
			case either[dir][id]:
				res.Hit("verdict-undecided")
			case got != allow[dir][id]:
				want := "deny"
				if allow[dir][id] {
					want = "allow"
				}
				res.Mismatch(key("verdict", dir, want, id),
					fmt.Sprintf("Drop(%s, %+v, peer %s, env %s) allowed=%v (%s), specification: %s", dir, pkt, peer, env, got, reason, want),
					detail)
				continue
			case got:
				res.Hit("allow")
			default:
				res.Hit("deny")
			}
			// allowed packets are then tracked: the same tuple now passes in the other direction whatever the rules say;
			// a refused packet leaves nothing behind: the other direction is decided by its own rules
			got2, reason2 := fwDrop(fw, pkt, dir != "in", h, w.pool, nil)
			n++
			if got {
				res.Hit("tracked")
				if !got2 {
					res.Mismatch(key("tracked", dir, "allow", id),
						fmt.Sprintf("Drop(%s) allowed %+v (peer %s) but the flow is not tracked: Drop(%s) says %s", dir, pkt, peer, other, reason2), detail)
				}
			} else if got2 && !either[other][id] && !allow[other][id] {
				res.Mismatch(key("untracked", dir, "deny", id),
					fmt.Sprintf("after a refused Drop(%s) of %+v (peer %s) Drop(%s) lets it pass, specification: deny", dir, pkt, peer, other), detail)
			}
		}
	}
	return n
}

// fwForEachVector reads vectors.ndjson: the universe (first line) builds the world, every other line is handed to fn
// by a pool of workers (the world is read-only; every vector builds its own Firewall). idx = 1-based line number.
func fwForEachVector(t *testing.T, res *vResult, fn func(w *fwWorld, idx int, line []byte)) int {
	var w *fwWorld
	type job struct {
		idx  int
		line []byte
	}
	workers := runtime.GOMAXPROCS(0)
	if workers > 8 {
		workers = 8
	}
	jobs := make(chan job, 256)
	var wg sync.WaitGroup
	start := func() {
		for i := 0; i < workers; i++ {
			wg.Add(1)
			go func() {
				defer wg.Done()
				for j := range jobs {
					fn(w, j.idx, j.line)
				}
			}()
		}
	}
	n := 0
	vReadNDJSON(t, "vectors.ndjson", func(line []byte) {
		if w == nil {
			var head fwVecHead
			if err := json.Unmarshal(line, &head); err != nil || head.In.Kind != "universe" {
				t.Fatalf("the universe vector must come first: %v", err)
			}
			w = fwLoadUniverse(t, line)
			res.Hit("universe")
			start()
			return
		}
		n++
		jobs <- job{n, append([]byte(nil), line...)}
	})
	close(jobs)
	wg.Wait()
	return n
}
