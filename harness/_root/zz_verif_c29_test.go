package nebula

// C29 — local tunnel indexes are unique and never zero, released only by their owner.  Binding of
// spec/Hostmap.tla (see zz_verif_hm_test.go): the plan uses index spaces small enough for collisions,
// re-use and exhaustion; every draw of generateIndex (allocateIndex, the responder's draw, AddRelay) is
// imposed through a scripted crypto/rand.Reader, including draws of 0, forced collisions, a success on
// the 32nd attempt and 32 consecutive collisions.

import "testing"

func TestVerif_C29(t *testing.T) { hmMain(t, "c29") }
