package nebula

// C19 — tracked flows are revalidated after a rule reload.  Binding of spec/Conntrack.tla to firewall.go (inConns'
// rulesVersion check) and interface.go (Interface.reloadFirewall: version increment, wrap).
//
//  R: every edge of TLC's state graph (design: revalidation in the flow's original direction, a version wrap keeps
//     the table and marks every flow stale) is replayed on a real Interface/Firewall: Reload = a real YAML string
//     through config.ReloadConfigString + Interface.reloadFirewall, Pkt = Firewall.Drop, Sleep = virtual clock.
//     The model's 2-bit version wrap is mapped onto the real 16-bit wrap by presetting the counter in-package.
//     First sentence: a packet may pass only if the reference permits it.  Second sentence: at every reload that
//     leaves the rules unchanged the code is compared with itself: whatever passed just before must pass just after.
//  T: seeded random histories with reloads (no-op, same rules, changed rules, at the 16-bit wrap) validated by TLC
//     against the reference layer.
//  (shared code: zz_verif_ct_test.go)

import (
	"testing"
	"testing/synctest"
)

func TestVerif_C19(t *testing.T) {
	res := vNewResult()
	defer res.Write(t)
	var plan ctPlan
	vReadJSON(t, "c19_plan.json", &plan)
	synctest.Test(t, func(t *testing.T) {
		for _, g := range plan.Graphs {
			ctReplayGraph(t, res, g, true)
		}
		ctTraces(t, res, plan, "C19")
	})
}
