package nebula

// C12 — a data packet is delivered at most once (spec/DataPlaneRx.tla).
//
// R: every complete interleaving of the gate-grain model is imposed on a real ConnectionState:
// one goroutine per arriving copy calls Decrypt (data/control/lighthouse/test packets) or
// VerifyRelay (relayed packets); the dpGate wrapper parks it inside the AEAD call, i.e. between the
// window pre-check and the window update. Packets are real ciphertexts produced by the peer's key.

import (
	"encoding/json"
	"errors"
	"fmt"
	"testing"
	"time"

	"github.com/slackhq/nebula/cert"
	"github.com/slackhq/nebula/header"
	"github.com/slackhq/nebula/test"
)

type c12Plan struct {
	File   string `json:"file"`
	W      int    `json:"W"`
	HsMsgs int    `json:"hsMsgs"`
}

func TestVerif_C12(t *testing.T) {
	res := vNewResult()
	defer res.Write(t)
	var plan c12Plan
	vReadJSON(t, "c12_plan.json", &plan)
	var gr vGraph
	vReadJSON(t, plan.File, &gr)
	initR, respR := dpHandshake(t, cert.Curve_CURVE25519, false)
	l := test.NewLogger()

	for pi, path := range gr.Tours {
		if len(path) == 0 {
			continue
		}
		for vi, scaled := range []bool{false, true, pi%2 == 1} {
			// third variant (every 8th tour): each step is started while another goroutine is inside the window's
			// critical section (the harness holds ConnectionState.decryptLock, as a reader routine that is checking
			// an unrelated counter of the same tunnel does); the step has to wait for it, not to be skipped.
			occupied := vi == 2
			if occupied && pi%8 > 1 {
				continue
			}
			if occupied {
				res.Hit("schedule:critical-section-occupied")
			}
			// receiver: the initiator's state; sender: the responder's encryption key
			ci, err := newConnectionStateFromResult(initR)
			if err != nil {
				t.Fatal(err)
			}
			peer, err := newConnectionStateFromResult(respR)
			if err != nil {
				t.Fatal(err)
			}
			k := uint64(1)
			if scaled {
				// production window: model counters c >= HsMsgs are spread so that W model slots = 8192 real slots
				k = ReplayWindow / uint64(plan.W)
			} else {
				ci.window = NewBits(uint64(plan.W))
				for i := uint64(1); i <= initR.MessageIndex; i++ {
					ci.window.Update(nil, i)
				}
			}
			real := func(c int) uint64 {
				if c <= plan.HsMsgs {
					return uint64(c)
				}
				return uint64(plan.HsMsgs) + uint64(c-plan.HsMsgs)*k
			}
			gate := dpNewGate(ci.dKey)
			ci.dKey = gate
			init := gr.States[gr.Edges[path[0]].Src]
			var ctr map[string]int
			var genuine map[string]bool
			_ = json.Unmarshal(init["ctr"], &ctr)
			_ = json.Unmarshal(init["genuine"], &genuine)

			type rcv struct {
				done    chan struct{}
				arrival *dpArrival
				err     error
				out     []byte
				relay   bool
			}
			rcvs := map[string]*rcv{}
			deliveredReal := map[uint64]int{}
			bad := false
			fail := func(key, what string, si int) {
				var acts []string
				for _, ei := range path {
					acts = append(acts, fmt.Sprintf("%s(%s)", gr.Edges[ei].Act, vStr(gr.Edges[ei].Args[0])))
				}
				res.Mismatch(key, what, map[string]any{"path": pi, "step": si, "copies": init, "interleaving": acts, "production_window": scaled, "critical_section_occupied_at_each_step": occupied})
				bad = true
			}
			for si, ei := range path {
				e := gr.Edges[ei]
				g := vStr(e.Args[0])
				var pcAfter map[string]string
				_ = json.Unmarshal(gr.States[e.Dst]["pc"], &pcAfter)
				res.Hit(e.Act)
				switch e.Act {
				case "Check":
					r := &rcv{done: make(chan struct{}), relay: (pi+int(g[len(g)-1]))%2 == 1}
					rcvs[g] = r
					c := real(ctr[g])
					payload := []byte("payload-of-" + g)
					nb := make([]byte, 12)
					pkt := make([]byte, 0, 256)
					if r.relay {
						pkt = header.Encode(pkt[:header.Len], header.Version, header.Message, header.MessageRelay, 1000, c)
						pkt = append(pkt, payload...)
						pkt, err = peer.eKey.EncryptDanger(pkt, pkt, nil, c, nb)
					} else {
						pkt = header.Encode(pkt[:header.Len], header.Version, header.Message, 0, 1000, c)
						pkt, err = peer.eKey.EncryptDanger(pkt, pkt, payload, c, nb)
					}
					if err != nil {
						t.Fatalf("verif: encrypt: %v", err)
					}
					if !genuine[g] {
						pkt[len(pkt)-1] ^= 0x40
					}
					if occupied {
						ci.decryptLock.Lock()
					}
					go func() {
						defer close(r.done)
						nb := make([]byte, 12)
						if r.relay {
							r.err = ci.VerifyRelay(l, c, pkt, nb)
						} else {
							r.out, r.err = ci.Decrypt(l, c, pkt, nb)
						}
					}()
					if occupied {
						// give the goroutine the time to reach the lock (or, if it does not wait, to run past it)
						select {
						case a := <-gate.arrive:
							res.Hit("occupied:progressed-while-occupied")
							ci.decryptLock.Unlock()
							r.arrival = a
						case <-r.done:
							res.Hit("occupied:progressed-while-occupied")
							ci.decryptLock.Unlock()
						case <-time.After(time.Millisecond):
							ci.decryptLock.Unlock()
							r.arrival = dpAwait(gate, r.done)
						}
					} else {
						r.arrival = dpAwait(gate, r.done)
					}
					switch {
					case r.arrival == nil && pcAfter[g] == "checked":
						// the pre-check refused a copy the specification lets through: no delivery, not a C12 matter
						res.Hit("drift:precheck-stricter")
					case r.arrival != nil && pcAfter[g] == "replay":
						// pre-check more lenient than the model: only the final outcome matters (below)
						res.Hit("drift:precheck-laxer")
					}
				case "Finish":
					r := rcvs[g]
					if r.arrival != nil {
						if occupied {
							ci.decryptLock.Lock()
						}
						close(r.arrival.release)
						r.arrival = nil
						if occupied {
							select {
							case <-r.done:
								res.Hit("occupied:finished-while-occupied")
							case <-time.After(time.Millisecond):
							}
							ci.decryptLock.Unlock()
						}
						<-r.done
					}
					got := "delivered"
					if errors.Is(r.err, ErrAlreadySeen) {
						got = "replay"
					} else if r.err != nil {
						got = "forged"
					}
					if got == "delivered" {
						deliveredReal[real(ctr[g])]++
						if !r.relay && string(r.out) != "payload-of-"+g {
							fail("payload", fmt.Sprintf("copy %s was delivered with altered plaintext %q", g, r.out), si)
						}
					}
					want := pcAfter[g]
					if got == "delivered" && want != "delivered" {
						fail(fmt.Sprintf("delivered-but-%s", want),
							fmt.Sprintf("copy %s (counter %d, relay=%v, genuine=%v) was delivered; the specification says %s", g, real(ctr[g]), r.relay, genuine[g], want), si)
					} else if got != want {
						res.Hit("drift:" + want + "->" + got)
					}
				default:
					t.Fatalf("verif: unexpected action %s", e.Act)
				}
				if bad {
					break
				}
			}
			for _, r := range rcvs {
				if r.arrival != nil {
					close(r.arrival.release)
					<-r.done
				}
			}
			for c, n := range deliveredReal {
				if n > 1 {
					fail("delivered-twice", fmt.Sprintf("counter %d was acted upon %d times", c, n), len(path))
				}
			}
			res.Case(fmt.Sprintf("%d/%v/%v", pi, scaled, occupied))
			res.Traces++
		}
	}
	if len(gr.Tours) > 0 {
		p := gr.Tours[len(gr.Tours)/2]
		var acts []string
		for _, ei := range p {
			acts = append(acts, fmt.Sprintf("%s(%s)", gr.Edges[ei].Act, vStr(gr.Edges[ei].Args[0])))
		}
		res.Sample(map[string]any{"copies": gr.States[gr.Edges[p[0]].Src], "interleaving": acts})
	}
}
