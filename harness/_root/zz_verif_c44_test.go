package nebula

// C44 — the DNS responder answers only from authenticated data.
// Binding of spec/Dns.tla to dns_server.go / hostmap.go.
//
//  R (records): every edge of the model's state graph (Handshake(name, addresses)) is replayed on a real dnsServer fed
//     through HostMap.unlockedAddHostInfo with real peer certificates; after each step the records are read back through the
//     request handler (A / AAAA for every host, TXT for every address from loopback) and compared with the model state.
//  R (answers): every vector = (history, question list, client address); the history is replayed, the query goes through
//     handleDnsRequest with a fake ResponseWriter, answers and response code are compared with what the statement permits.

import (
	"context"
	"encoding/json"
	"fmt"
	"io"
	"log/slog"
	"net"
	"net/netip"
	"sort"
	"strings"
	"testing"
	"time"

	"github.com/miekg/dns"
	"github.com/slackhq/nebula/cert"
	"github.com/slackhq/nebula/cert_test"
	"github.com/slackhq/nebula/config"
)

var c44Addr = map[string]netip.Addr{
	"o4": netip.MustParseAddr("10.44.0.1"), "o6": netip.MustParseAddr("fd44::1"),
	"p1": netip.MustParseAddr("10.44.0.11"), "p2": netip.MustParseAddr("10.44.0.12"),
	"s1": netip.MustParseAddr("fd44::11"), "s2": netip.MustParseAddr("fd44::12"),
	"x9": netip.MustParseAddr("10.44.0.99"),
}
var c44Client = map[string]string{
	"loopback": "127.0.0.1:5353", "self4": "10.44.0.1:5353", "self6": "[fd44::1]:5353", "peer": "10.44.0.11:5353", "outside": "203.0.113.9:5353",
}
var c44Type = map[string]uint16{"A": dns.TypeA, "AAAA": dns.TypeAAAA, "TXT": dns.TypeTXT, "MX": dns.TypeMX, "CNAME": dns.TypeCNAME, "ANY": dns.TypeANY}

type c44Writer struct {
	remote net.Addr
	msg    *dns.Msg
}

func (w *c44Writer) LocalAddr() net.Addr         { return &net.UDPAddr{IP: net.ParseIP("127.0.0.1"), Port: 53} }
func (w *c44Writer) RemoteAddr() net.Addr        { return w.remote }
func (w *c44Writer) WriteMsg(m *dns.Msg) error   { w.msg = m; return nil }
func (w *c44Writer) Write(b []byte) (int, error) { return len(b), nil }
func (w *c44Writer) Close() error                { return nil }
func (w *c44Writer) TsigStatus() error           { return nil }
func (w *c44Writer) TsigTimersOnly(bool)         {}
func (w *c44Writer) Hijack()                     {}

type c44World struct {
	t      testing.TB
	ca     cert.Certificate
	caKey  []byte
	pool   *cert.CAPool
	pki    *PKI
	hm     *HostMap
	ifce   *Interface
	ds     *dnsServer
	fpName map[string]string // certificate fingerprint -> certificate name
	selfFp string
	idx    uint32
	my     cert.Certificate
}

func c44Prefix(a netip.Addr) netip.Prefix {
	if a.Is4() {
		return netip.PrefixFrom(a, 24)
	}
	return netip.PrefixFrom(a, 64)
}

type c44Shared struct {
	ca    cert.Certificate
	caKey []byte
	cs    *CertState
	my    cert.Certificate
	peers map[string]*cert.CachedCertificate
	pool  *cert.CAPool
}

func c44NewShared(t testing.TB) *c44Shared {
	before, after := time.Now().Add(-time.Hour), time.Now().Add(24*time.Hour)
	sh := &c44Shared{peers: map[string]*cert.CachedCertificate{}}
	sh.ca, _, sh.caKey, _ = cert_test.NewTestCaCert(cert.Version2, cert.Curve_CURVE25519, before, after, nil, nil, nil)
	my, _, privPEM, _ := cert_test.NewTestCert(cert.Version2, cert.Curve_CURVE25519, sh.ca, sh.caKey, "LH", before, after,
		[]netip.Prefix{c44Prefix(c44Addr["o4"]), c44Prefix(c44Addr["o6"])}, nil, nil)
	raw, _, curve, err := cert.UnmarshalPrivateKeyFromPEM(privPEM)
	if err != nil {
		t.Fatalf("c44: %v", err)
	}
	sh.cs, err = newCertState(cert.Version2, nil, my, false, curve, raw, "aes")
	if err != nil {
		t.Fatalf("c44: newCertState: %v", err)
	}
	sh.my = my
	sh.pool = cert.NewCAPool()
	if err := sh.pool.AddCA(sh.ca); err != nil {
		t.Fatalf("c44: %v", err)
	}
	return sh
}

// peer returns the (cached, verified) certificate a peer named `name` with these overlay addresses would present.
func (sh *c44Shared) peer(t testing.TB, name string, addrs []string) *cert.CachedCertificate {
	k := name + "|" + strings.Join(addrs, ",")
	if c, ok := sh.peers[k]; ok {
		return c
	}
	var nets []netip.Prefix
	for _, a := range addrs {
		nets = append(nets, c44Prefix(c44Addr[a]))
	}
	c, _, _, _ := cert_test.NewTestCert(cert.Version2, cert.Curve_CURVE25519, sh.ca, sh.caKey, name, time.Now().Add(-time.Minute), time.Now().Add(time.Hour), nets, nil, nil)
	cc, err := sh.pool.VerifyCertificate(time.Now(), c)
	if err != nil {
		t.Fatalf("c44: peer certificate: %v", err)
	}
	sh.peers[k] = cc
	return cc
}

func c44NewWorld(t testing.TB, sh *c44Shared) *c44World {
	l := slog.New(slog.NewTextHandler(io.Discard, nil))
	w := &c44World{t: t, fpName: map[string]string{}}
	w.pki = &PKI{l: l}
	w.pki.cs.Store(sh.cs)
	w.pki.caPool.Store(sh.pool)
	fp, _ := sh.my.Fingerprint()
	w.fpName[fp] = "LH"
	w.hm = newHostMap(l)
	c := config.NewC(l)
	c.Settings["lighthouse"] = map[string]any{"am_lighthouse": true, "serve_dns": true, "dns": map[string]any{"host": "127.0.0.1", "port": 0}}
	ds, err := newDnsServerFromConfig(context.Background(), l, w.pki, w.hm, c)
	if err != nil {
		t.Fatalf("c44: newDnsServerFromConfig: %v", err)
	}
	w.ds = ds
	w.ifce = &Interface{hostMap: w.hm, pki: w.pki, dnsServer: ds, l: l, lightHouse: newTestLighthouse()}
	w.my = sh.my
	return w
}

// handshake completes a tunnel with a peer: the hostmap-add path of handshake completion.
func (w *c44World) handshake(sh *c44Shared, name string, addrs []string) {
	pc := sh.peer(w.t, name, addrs)
	w.fpName[pc.Fingerprint] = name
	w.idx++
	var vpn []netip.Addr
	for _, a := range addrs {
		vpn = append(vpn, c44Addr[a])
	}
	hi := &HostInfo{vpnAddrs: vpn, localIndexId: 100 + w.idx, remoteIndexId: 9000 + w.idx,
		ConnectionState: &ConnectionState{myCert: w.my, peerCert: pc}}
	w.hm.Lock()
	w.hm.unlockedAddHostInfo(hi, w.ifce)
	w.hm.Unlock()
}

type c44Q struct {
	Name string `json:"name"`
	Type string `json:"type"`
}
type c44RR struct {
	N string `json:"n"`
	T string `json:"t"`
	V string `json:"v"`
}

func (r c44RR) String() string { return r.N + "/" + r.T + "/" + r.V }

func c44WireName(n string) string {
	if a, ok := c44Addr[n]; ok {
		return a.String() + "."
	}
	return n + "."
}

// query sends one message through the request handler; returns the abstract answers and the response code.
func (w *c44World) query(ql []c44Q, client string) (ans []c44RR, rc string, problems []string) {
	r := new(dns.Msg)
	r.Id = 4242
	r.RecursionDesired = true
	wire := map[string]string{}
	for _, q := range ql {
		wn := c44WireName(q.Name)
		wire[wn] = q.Name
		r.Question = append(r.Question, dns.Question{Name: wn, Qtype: c44Type[q.Type], Qclass: dns.ClassINET})
	}
	ua, err := net.ResolveUDPAddr("udp", c44Client[client])
	if err != nil {
		w.t.Fatalf("c44: client %q: %v", client, err)
	}
	wr := &c44Writer{remote: ua}
	func() {
		defer func() {
			if p := recover(); p != nil {
				problems = append(problems, fmt.Sprintf("panic: %v", p))
			}
		}()
		w.ds.handleDnsRequest(wr, r)
	}()
	if wr.msg == nil {
		return nil, "none", append(problems, "no response written")
	}
	if wr.msg.Id != r.Id || !wr.msg.Response {
		problems = append(problems, "response does not answer the request")
	}
	rc = dns.RcodeToString[wr.msg.Rcode]
	abs := func(a netip.Addr) string {
		for k, v := range c44Addr {
			if v == a {
				return k
			}
		}
		return a.String()
	}
	for _, rr := range wr.msg.Answer {
		name, ok := wire[rr.Header().Name]
		if !ok {
			name = rr.Header().Name
		}
		switch x := rr.(type) {
		case *dns.A:
			a, _ := netip.AddrFromSlice(x.A.To4())
			ans = append(ans, c44RR{name, "A", abs(a)})
		case *dns.AAAA:
			a, _ := netip.AddrFromSlice(x.AAAA)
			ans = append(ans, c44RR{name, "AAAA", abs(a)})
		case *dns.TXT:
			txt := strings.Join(x.Txt, "")
			who := "?"
			for fp, n := range w.fpName {
				if strings.Contains(txt, fp) {
					who = n
				}
			}
			ans = append(ans, c44RR{name, "TXT", who})
		default:
			ans = append(ans, c44RR{name, dns.TypeToString[rr.Header().Rrtype], rr.String()})
		}
	}
	if len(wr.msg.Ns) > 0 || len(wr.msg.Extra) > 0 {
		problems = append(problems, "authority/additional sections are not empty")
	}
	return ans, rc, problems
}

func c44Set(rrs []c44RR) map[string]bool {
	m := map[string]bool{}
	for _, r := range rrs {
		m[r.String()] = true
	}
	return m
}

type c44Step struct {
	Name  string   `json:"name"`
	Addrs []string `json:"addrs"`
}
type c44Vec struct {
	Hist []c44Step `json:"hist"`
	Vec  struct {
		Ql     []c44Q   `json:"ql"`
		Client string   `json:"client"`
		Must   []c44RR  `json:"must"`
		May    []c44RR  `json:"may"`
		Rc     []string `json:"rc"`
	} `json:"vec"`
}

// c44QClass names the class of question for the mismatch key
func c44QClass(w *c44World, q c44Q) string {
	if _, ip := c44Addr[q.Name]; ip {
		return q.Type + ":ip-literal"
	}
	_, known := w.ds.Query(dns.TypeMX, c44WireName(q.Name))
	if known {
		return q.Type + ":known-name"
	}
	return q.Type + ":unknown-name"
}

func TestVerif_C44(t *testing.T) {
	res := vNewResult()
	defer res.Write(t)
	sh := c44NewShared(t)

	// ------------------------------------------------------------------ records along the state graph
	var gr vGraph
	vReadJSON(t, "c44_graph.json", &gr)
	hosts := []string{"alpha", "beta", "lh"}
	addrs := []string{"p1", "p2", "s1", "s2"}
	project := func(w *c44World) (m4, m6, own map[string]string, problems []string) {
		m4, m6, own = map[string]string{}, map[string]string{}, map[string]string{}
		for _, h := range hosts {
			for fam, m := range map[string]map[string]string{"A": m4, "AAAA": m6} {
				ans, rc, pr := w.query([]c44Q{{h, fam}}, "outside")
				problems = append(problems, pr...)
				m[h] = "none"
				if len(ans) == 1 && ans[0].T == fam {
					m[h] = ans[0].V
				} else if len(ans) != 0 {
					problems = append(problems, fmt.Sprintf("%s %s answered %v", fam, h, ans))
				}
				_ = rc
			}
		}
		for _, a := range addrs {
			ans, _, pr := w.query([]c44Q{{a, "TXT"}}, "loopback")
			problems = append(problems, pr...)
			own[a] = "none"
			if len(ans) == 1 && ans[0].T == "TXT" {
				own[a] = ans[0].V
			} else if len(ans) != 0 {
				problems = append(problems, fmt.Sprintf("TXT %s answered %v", a, ans))
			}
		}
		return
	}
	for ti, tour := range gr.Tours {
		w := c44NewWorld(t, sh)
		var path []string
		for _, ei := range tour {
			e := gr.Edges[ei]
			name, as := vStr(e.Args[0]), vStrs(e.Args[1])
			w.handshake(sh, name, as)
			path = append(path, name+"@"+strings.Join(as, ","))
			res.Hit("Handshake")
			var want4, want6, wantOwn map[string]string
			json.Unmarshal(gr.States[e.Dst]["m4"], &want4)
			json.Unmarshal(gr.States[e.Dst]["m6"], &want6)
			json.Unmarshal(gr.States[e.Dst]["own"], &wantOwn)
			m4, m6, own, problems := project(w)
			res.Case(fmt.Sprintf("edge%d", ei))
			bad := len(problems) > 0
			for _, h := range hosts {
				bad = bad || m4[h] != want4[h] || m6[h] != want6[h]
			}
			for _, a := range addrs {
				bad = bad || own[a] != wantOwn[a]
			}
			if bad {
				fams := ""
				for _, a := range as {
					if c44Addr[a].Is4() && !strings.Contains(fams, "4") {
						fams += "4"
					} else if c44Addr[a].Is6() && !strings.Contains(fams, "6") {
						fams += "6"
					}
				}
				lower := "lowercase-name"
				if strings.ToLower(name) != name {
					lower = "mixedcase-name"
				}
				res.Mismatch("records:"+lower+":v"+fams, fmt.Sprintf("after handshakes %v the responder serves A=%v AAAA=%v certs=%v, specification A=%v AAAA=%v certs=%v %v",
					path, m4, m6, own, want4, want6, wantOwn, problems), map[string]any{"path": path})
				break
			}
		}
		res.mu.Lock()
		res.Traces++
		res.mu.Unlock()
		if ti%100 == 0 {
			res.Sample(map[string]any{"tour": path})
		}
	}

	// ------------------------------------------------------------------ answers
	nv := 0
	var cur *c44World
	curHist := "\x00"
	vReadNDJSON(t, "c44_vectors.ndjson", func(line []byte) {
		var v c44Vec
		if err := json.Unmarshal(line, &v); err != nil {
			t.Fatalf("vector: %v: %s", err, line)
		}
		nv++
		hs, _ := json.Marshal(v.Hist)
		if string(hs) != curHist { // vectors are grouped by history: build the world once per history
			cur = c44NewWorld(t, sh)
			for _, h := range v.Hist {
				cur.handshake(sh, h.Name, h.Addrs)
			}
			curHist = string(hs)
		}
		res.Case(string(line))
		if nv%1000 == 1 {
			res.Sample(json.RawMessage(append([]byte(nil), line...)))
		}
		ans, rc, problems := cur.query(v.Vec.Ql, v.Vec.Client)
		res.Hit("Query")
		res.Hit("rc:" + rc)
		got, must, may := c44Set(ans), c44Set(v.Vec.Must), c44Set(v.Vec.May)
		var classes []string
		for _, q := range v.Vec.Ql {
			classes = append(classes, c44QClass(cur, q))
		}
		trusted := "untrusted-client"
		if v.Vec.Client == "loopback" || strings.HasPrefix(v.Vec.Client, "self") {
			trusted = "trusted-client"
		}
		// only the first question decides (see the specification); the client matters for TXT only
		cls := classes[0]
		if v.Vec.Ql[0].Type == "TXT" {
			cls += ":" + trusted
		}
		detail := map[string]any{"history": v.Hist, "questions": v.Vec.Ql, "client": v.Vec.Client, "answers": ans, "rcode": rc,
			"must": v.Vec.Must, "may": v.Vec.May, "rcAllowed": v.Vec.Rc}
		for _, p := range problems {
			res.Mismatch("answer:"+cls+":malformed", p, detail)
		}
		for k := range must {
			if !got[k] {
				res.Mismatch("answer:"+cls+":missing", fmt.Sprintf("questions %v from %s: record %s is missing from the answer %v", v.Vec.Ql, v.Vec.Client, k, ans), detail)
			}
		}
		var extra []string
		for k := range got {
			if !may[k] {
				extra = append(extra, k)
			}
		}
		sort.Strings(extra)
		if len(extra) > 0 || len(got) != len(ans) {
			res.Mismatch("answer:"+cls+":unauthorised", fmt.Sprintf("questions %v from %s: answer %v contains records the specification does not permit (%v)", v.Vec.Ql, v.Vec.Client, ans, extra), detail)
		}
		okrc := false
		for _, a := range v.Vec.Rc {
			okrc = okrc || a == rc
		}
		if !okrc {
			res.Mismatch("rcode:"+cls+":"+rc, fmt.Sprintf("questions %v from %s answered %s with %d records; the specification permits %v", v.Vec.Ql, v.Vec.Client, rc, len(ans), v.Vec.Rc), detail)
		}
		if len(ans) > 0 {
			res.Hit("answered")
		}
		for _, a := range ans {
			res.Hit("ans:" + a.T)
		}
	})
	res.Extra["vectors"] = nv
}
