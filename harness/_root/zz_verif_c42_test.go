package nebula

// C42 — certificate reload never changes a node's identity.
// Binding of spec/PkiReload.tla to pki.go (PKI.reload / reloadCerts / newCertState / reloadCAPool).
//
//  R: the state graph of PkiReload.tla (states = certificates in use, key, trust store; edges = Reload(configuration)) is
//     the oracle. A real PKI is built with NewPKIFromConfig from inline-PEM YAML for every initial configuration; every
//     sequence of <= depth reloads over the configuration table is applied with config.C.ReloadConfigString; after every
//     reload the real PKI is projected (networks, curve, versions present, key, certificate identity, CA fingerprints,
//     blocklist) and must equal the target of one of the model's Reload edges for that configuration.

import (
	"bytes"
	"encoding/json"
	"fmt"
	"io"
	"log/slog"
	"net/netip"
	"os"
	"sort"
	"strings"
	"testing"
	"time"

	"github.com/slackhq/nebula/cert"
	"github.com/slackhq/nebula/cert_test"
	"github.com/slackhq/nebula/config"
)

type c42Crt struct {
	St   string   `json:"st"`
	Nets []string `json:"nets"`
	Key  string   `json:"key"`
	Ser  int      `json:"ser"`
}
type c42Cfg struct {
	Id  string   `json:"id"`
	V1  c42Crt   `json:"v1"`
	V2  c42Crt   `json:"v2"`
	Key string   `json:"key"`
	Exp string   `json:"exp"`
	Ca  string   `json:"ca"`
	Bl  []string `json:"bl"`
}
type c42Pool struct {
	Cas     []string `json:"cas"`
	Blocked []string `json:"blocked"`
}
type c42St struct {
	V1   c42Crt  `json:"v1"`
	V2   c42Crt  `json:"v2"`
	Key  string  `json:"key"`
	Pool c42Pool `json:"pool"`
}
type c42Plan struct {
	Cfgs      []c42Cfg `json:"cfgs"`
	Depth     int      `json:"depth"`
	DeepInits []string `json:"deepInits"` // configurations whose initial state is explored to the full depth (others depth-1)
}

func (c c42Crt) sig() string {
	if c.St != "cert" {
		return "-"
	}
	return fmt.Sprintf("%s/%s/%d", strings.Join(c.Nets, "+"), c.Key, c.Ser)
}
func (s c42St) sig() string {
	cas := append([]string(nil), s.Pool.Cas...)
	sort.Strings(cas)
	bl := append([]string(nil), s.Pool.Blocked...)
	sort.Strings(bl)
	return fmt.Sprintf("v1=%s v2=%s key=%s cas=%s bl=%s", s.V1.sig(), s.V2.sig(), s.Key, strings.Join(cas, ","), strings.Join(bl, ","))
}

// shape is the part of a state the mismatch key names: versions present and their networks / curve
func (s c42St) shape() string {
	out := ""
	if s.V1.St == "cert" {
		out += "v1[" + strings.Join(s.V1.Nets, "+") + "]"
	}
	if s.V2.St == "cert" {
		out += "v2[" + strings.Join(s.V2.Nets, "+") + "]"
	}
	if s.Key == "kp" {
		return out + "/P256"
	}
	return out + "/X25519"
}

type c42Mat struct {
	t        testing.TB
	caPEM    map[string][]byte // ca1, ca2, caX
	caFp     map[string]string // fingerprint -> id
	signer   map[cert.Curve]cert.Certificate
	signKey  map[cert.Curve][]byte
	pub      map[string][]byte
	priv     map[string][]byte
	keyPEM   map[string][]byte
	curve    map[string]cert.Curve
	certPEM  map[string][]byte // version|nets|key|ser|expired -> PEM
	certByFp map[string]c42Crt
	verByFp  map[string]cert.Version
	nets     map[string]netip.Prefix
	peerFp   string
}

var (
	c42Before = time.Date(2000, 1, 1, 0, 0, 0, 0, time.UTC)
	c42Far    = time.Date(2100, 1, 1, 0, 0, 0, 0, time.UTC)
	c42Past   = time.Date(2001, 1, 1, 0, 0, 0, 0, time.UTC)
)

func c42NewMat(t testing.TB) *c42Mat {
	m := &c42Mat{t: t, caPEM: map[string][]byte{}, caFp: map[string]string{}, signer: map[cert.Curve]cert.Certificate{}, signKey: map[cert.Curve][]byte{},
		pub: map[string][]byte{}, priv: map[string][]byte{}, keyPEM: map[string][]byte{}, curve: map[string]cert.Curve{},
		certPEM: map[string][]byte{}, certByFp: map[string]c42Crt{}, verByFp: map[string]cert.Version{}, nets: map[string]netip.Prefix{}}
	for id, after := range map[string]time.Time{"ca1": c42Far, "ca2": c42Far, "caX": c42Past} {
		c, _, key, pem := cert_test.NewTestCaCert(cert.Version2, cert.Curve_CURVE25519, c42Before, after, nil, nil, nil)
		fp, _ := c.Fingerprint()
		m.caPEM[id], m.caFp[fp] = pem, id
		if id == "ca1" {
			m.signer[cert.Curve_CURVE25519], m.signKey[cert.Curve_CURVE25519] = c, key
		}
	}
	cp, _, kp, _ := cert_test.NewTestCaCert(cert.Version2, cert.Curve_P256, c42Before, c42Far, nil, nil, nil)
	m.signer[cert.Curve_P256], m.signKey[cert.Curve_P256] = cp, kp
	for _, k := range []string{"k1", "k2"} {
		m.pub[k], m.priv[k] = cert_test.X25519Keypair()
		m.curve[k] = cert.Curve_CURVE25519
	}
	m.pub["kp"], m.priv["kp"] = cert_test.P256Keypair()
	m.curve["kp"] = cert.Curve_P256
	for k := range m.pub {
		m.keyPEM[k] = cert.MarshalPrivateKeyToPEM(m.curve[k], m.priv[k])
	}
	m.nets["n1"] = netip.MustParsePrefix("10.42.0.1/24")
	m.nets["n2"] = netip.MustParsePrefix("10.43.0.1/24")
	m.nets["n3"] = netip.MustParsePrefix("192.168.42.1/24")
	m.peerFp = strings.Repeat("ab", 32)
	return m
}

// crtPEM returns (building it on first use) the real certificate of an abstract one.
func (m *c42Mat) crtPEM(v cert.Version, c c42Crt, expired bool) []byte {
	k := fmt.Sprintf("%d|%s|%v", v, c.sig(), expired)
	if p, ok := m.certPEM[k]; ok {
		return p
	}
	var nets []netip.Prefix
	for _, n := range c.Nets {
		nets = append(nets, m.nets[n])
	}
	after := c42Far.Add(-time.Duration(c.Ser) * time.Hour) // re-issued certificates differ in validity, hence in signature
	if expired {
		after = c42Past
	}
	curve := m.curve[c.Key]
	tbs := &cert.TBSCertificate{Version: v, Curve: curve, Name: "node", Networks: nets, NotBefore: c42Before, NotAfter: after, PublicKey: m.pub[c.Key]}
	crt, err := tbs.Sign(m.signer[curve], curve, m.signKey[curve])
	if err != nil {
		m.t.Fatalf("c42: sign %s: %v", k, err)
	}
	p, err := crt.MarshalPEM()
	if err != nil {
		m.t.Fatalf("c42: %v", err)
	}
	fp, _ := crt.Fingerprint()
	m.certByFp[fp], m.verByFp[fp] = c, v
	m.certPEM[k] = p
	return p
}

func c42Indent(b []byte) string {
	var sb strings.Builder
	for _, ln := range strings.Split(strings.TrimRight(string(b), "\n"), "\n") {
		sb.WriteString("    " + ln + "\n")
	}
	return sb.String()
}

func (m *c42Mat) yaml(cf c42Cfg) string {
	var crt []byte
	if cf.V1.St == "cert" {
		crt = append(crt, m.crtPEM(cert.Version1, cf.V1, cf.Exp == "v1")...)
	}
	if cf.V2.St == "cert" {
		crt = append(crt, m.crtPEM(cert.Version2, cf.V2, cf.Exp == "v2")...)
	}
	var sb strings.Builder
	sb.WriteString("pki:\n  cert: |\n" + c42Indent(crt) + "  key: |\n" + c42Indent(m.keyPEM[cf.Key]))
	switch cf.Ca {
	case "ok1":
		sb.WriteString("  ca: |\n" + c42Indent(m.caPEM["ca1"]))
	case "ok2":
		sb.WriteString("  ca: |\n" + c42Indent(append(append([]byte(nil), m.caPEM["ca1"]...), m.caPEM["ca2"]...)))
	case "allexpired":
		sb.WriteString("  ca: |\n" + c42Indent(m.caPEM["caX"]))
	case "missing":
		sb.WriteString("  ca: /nonexistent/verif-c42/ca.crt\n")
	case "garbage":
		sb.WriteString("  ca: |\n" + c42Indent([]byte("-----BEGIN NEBULA CERTIFICATE-----\nZ2FyYmFnZWdhcmJhZ2U=\n-----END NEBULA CERTIFICATE-----\n")))
	default:
		m.t.Fatalf("c42: ca shape %q", cf.Ca)
	}
	if len(cf.Bl) > 0 {
		sb.WriteString("  blocklist:\n    - " + m.peerFp + "\n")
	}
	return sb.String()
}

// project maps the real PKI onto the specification's state.
func (m *c42Mat) project(p *PKI) (st c42St, problems []string) {
	cs := p.getCertState()
	none := c42Crt{St: "none", Nets: []string{}}
	st.V1, st.V2 = none, none
	one := func(c cert.Certificate, v cert.Version) c42Crt {
		fp, _ := c.Fingerprint()
		a, ok := m.certByFp[fp]
		if !ok || m.verByFp[fp] != v || c.Version() != v {
			problems = append(problems, fmt.Sprintf("unknown certificate in slot v%d", v))
			return c42Crt{St: "cert", Nets: []string{"?"}, Key: "?"}
		}
		return a
	}
	if cs.v1Cert != nil {
		st.V1 = one(cs.v1Cert, cert.Version1)
	}
	if cs.v2Cert != nil {
		st.V2 = one(cs.v2Cert, cert.Version2)
	}
	st.Key = "?"
	for k, priv := range m.priv {
		if bytes.Equal(cs.privateKey, priv) {
			st.Key = k
		}
	}
	// the identity actually used at run time must be the one of the certificates in use
	eff := st.V1
	if st.V2.St == "cert" {
		eff = st.V2
	}
	var effNets []string
	for _, n := range cs.myVpnNetworks {
		name := "?"
		for k, p := range m.nets {
			if p == n {
				name = k
			}
		}
		effNets = append(effNets, name)
	}
	if strings.Join(effNets, "+") != strings.Join(eff.Nets, "+") {
		problems = append(problems, fmt.Sprintf("myVpnNetworks=%v but certificate in force has %v", effNets, eff.Nets))
	}
	for v, c := range map[cert.Version]cert.Certificate{cert.Version1: cs.v1Cert, cert.Version2: cs.v2Cert} {
		if (c != nil) != (cs.GetCredential(v) != nil) {
			problems = append(problems, fmt.Sprintf("credential/certificate presence differs for version %d", v))
		}
		if c != nil && c.Curve() != m.curve[st.Key] {
			problems = append(problems, fmt.Sprintf("certificate v%d curve %v differs from key curve", v, c.Curve()))
		}
	}
	pool := p.GetCAPool()
	st.Pool.Cas, st.Pool.Blocked = []string{}, []string{}
	for _, fp := range pool.GetFingerprints() {
		id, ok := m.caFp[fp]
		if !ok {
			id = "?"
		}
		st.Pool.Cas = append(st.Pool.Cas, id)
	}
	sort.Strings(st.Pool.Cas)
	if pool.IsBlocklisted(m.peerFp) {
		st.Pool.Blocked = []string{"peer"}
	}
	return st, problems
}

func c42Versions(v1, v2 c42Crt) string {
	switch {
	case v1.St == "cert" && v2.St == "cert":
		return "v1+v2"
	case v2.St == "cert":
		return "v2-only"
	default:
		return "v1-only"
	}
}

// c42Key names the class of reload: which versions are replaced by which, and what it would change.
func c42Key(cur c42St, cf c42Cfg, what, outcome string) string {
	eff := func(v1, v2 c42Crt) string {
		if v2.St == "cert" {
			return strings.Join(v2.Nets, "+")
		}
		return strings.Join(v1.Nets, "+")
	}
	var ch []string
	if eff(cur.V1, cur.V2) != eff(cf.V1, cf.V2) {
		ch = append(ch, "networks")
	}
	if (cur.Key == "kp") != (cf.Key == "kp") {
		ch = append(ch, "curve")
	}
	change := "same-identity"
	if len(ch) > 0 {
		change = strings.Join(ch, "+") + "-changed"
	}
	if what == "trust-store" {
		return fmt.Sprintf("reload:trust-store:ca-%s:%s", cf.Ca, outcome)
	}
	return fmt.Sprintf("reload:%s->%s:%s:%s", c42Versions(cur.V1, cur.V2), c42Versions(cf.V1, cf.V2), change, outcome)
}

func TestVerif_C42(t *testing.T) {
	res := vNewResult()
	defer res.Write(t)
	var plan c42Plan
	set := os.Getenv("C42_SET")
	vReadJSON(t, "c42_plan"+set+".json", &plan)
	var gr vGraph
	vReadJSON(t, "c42_graph"+set+".json", &gr)
	m := c42NewMat(t)
	l := slog.New(slog.NewTextHandler(io.Discard, nil))

	// model states by signature; outgoing edges by (state, configuration)
	states := make([]c42St, len(gr.States))
	bySig := map[string]int{}
	for i, s := range gr.States {
		if err := json.Unmarshal(s["st"], &states[i]); err != nil {
			t.Fatalf("state %d: %v", i, err)
		}
		bySig[states[i].sig()] = i
	}
	succ := map[string][]int{}
	for _, e := range gr.Edges {
		k := fmt.Sprintf("%d|%s", e.Src, vStr(e.Args[0]))
		succ[k] = append(succ[k], e.Dst)
	}
	isInit := map[int]bool{}
	for _, i := range gr.Init {
		isInit[i] = true
	}
	yamls := map[string]string{}
	cfgByID := map[string]c42Cfg{}
	for _, cf := range plan.Cfgs {
		yamls[cf.Id] = m.yaml(cf)
		cfgByID[cf.Id] = cf
	}
	deep := map[string]bool{}
	for _, id := range plan.DeepInits {
		deep[id] = true
	}

	var walk func(p *PKI, c *config.C, cur int, depth int, path []string)
	walk = func(p *PKI, c *config.C, cur int, depth int, path []string) {
		if depth == 0 {
			res.Case(strings.Join(path, ">"))
			res.mu.Lock()
			res.Traces++
			res.mu.Unlock()
			return
		}
		savedCs, savedPool := p.cs.Load(), p.caPool.Load()
		for _, cf := range plan.Cfgs {
			if err := c.ReloadConfigString(yamls[cf.Id]); err != nil {
				t.Fatalf("c42: ReloadConfigString(%s): %v", cf.Id, err)
			}
			got, problems := m.project(p)
			res.Hit("Reload")
			next := -1
			for _, d := range succ[fmt.Sprintf("%d|%s", cur, cf.Id)] {
				if states[d].sig() == got.sig() {
					next = d
				}
			}
			took := p.cs.Load() != savedCs
			if took {
				res.Hit("accepted")
			} else {
				res.Hit("refused")
			}
			if p.caPool.Load() != savedPool {
				res.Hit("pool-replaced")
			} else {
				res.Hit("pool-kept")
			}
			outcome := "refused"
			if took {
				outcome = "accepted"
			}
			detail := map[string]any{"path": append(append([]string(nil), path...), cf.Id), "before": states[cur].sig(), "observed": got.sig(), "problems": problems}
			var want []string
			for _, d := range succ[fmt.Sprintf("%d|%s", cur, cf.Id)] {
				want = append(want, states[d].sig())
			}
			detail["specification"] = want
			if len(problems) > 0 {
				res.Mismatch("inconsistent:"+states[cur].shape()+":"+cf.Id, "certificate state after reload is inconsistent: "+strings.Join(problems, "; "), detail)
			} else if next < 0 {
				what := "certificates"
				if len(want) > 0 {
					var w c42St = states[bySig[want[0]]]
					if w.V1.sig() == got.V1.sig() && w.V2.sig() == got.V2.sig() && w.Key == got.Key {
						what = "trust-store"
					}
				}
				res.Mismatch(c42Key(states[cur], cf, what, outcome),
					fmt.Sprintf("reload of configuration %s in state {%s} was %s and left {%s}; the specification requires %v", cf.Id, states[cur].sig(), outcome, got.sig(), want), detail)
			} else {
				walk(p, c, next, depth-1, append(path, cf.Id))
			}
			// back to this node of the trie
			p.cs.Store(savedCs)
			p.caPool.Store(savedPool)
		}
	}

	initSeen := map[int]bool{}
	for _, cf := range plan.Cfgs {
		// initial load: must succeed exactly for the loadable configurations with a usable CA bundle
		c := config.NewC(l)
		if err := c.LoadString(yamls[cf.Id]); err != nil {
			t.Fatalf("c42: LoadString(%s): %v", cf.Id, err)
		}
		p, err := NewPKIFromConfig(l, c)
		if err != nil {
			res.Hit("initial-refused")
			continue
		}
		got, problems := m.project(p)
		i, ok := bySig[got.sig()]
		if !ok || !isInit[i] || len(problems) > 0 {
			res.Mismatch("initial:"+cf.Id, fmt.Sprintf("initial load of %s gave {%s} %v, which is not an initial state of the specification", cf.Id, got.sig(), problems), nil)
			continue
		}
		initSeen[i] = true
		res.Hit("initial")
		d := plan.Depth
		if !deep[cf.Id] {
			d--
		}
		walk(p, c, i, d, []string{cf.Id})
		res.Sample(map[string]any{"init": cf.Id, "state": got.sig(), "depth": d})
	}
	if len(initSeen) != len(gr.Init) {
		res.Mismatch("initial:count", fmt.Sprintf("%d distinct states are reached by initial loads, the specification has %d initial states", len(initSeen), len(gr.Init)), nil)
	}
}
