package nebula

// C38 — binding of spec/AllowList.tla to NewRemoteAllowListFromConfig / NewLocalAllowListFromConfig and the
// Allow / AllowAll / AllowUnknownVpnAddr / AllowName methods.
//
// V: every TLC vector (lists over W-bit abstract addresses, remote lists with per-range lists, name-rule sets) is
// concretised under several profiles (abstract bit i |-> a run of top bits of a real IPv4 / IPv6 prefix; the host bits of
// queried addresses are filled with zeros, ones and a pattern), written as YAML (IPv4 keys marked "mapped" as
// ::ffff:a.b.c.d/(96+n)), parsed by the real constructors and queried.
// T: seeded random full-width lists judged by TLC (Trace_AllowList) from obs.ndjson.

import (
	"encoding/json"
	"fmt"
	"net/netip"
	"os"
	"sort"
	"strings"
	"testing"

	"github.com/slackhq/nebula/config"
	"github.com/slackhq/nebula/test"
)

type c38Entry struct {
	Fam  string `json:"fam"`
	P    []int  `json:"p"`
	Val  bool   `json:"val"`
	Form string `json:"form"`
}
type c38Addr struct {
	Fam  string `json:"fam"`
	Bits []int  `json:"bits"`
}
type c38Range struct {
	Fam  string     `json:"fam"`
	P    []int      `json:"p"`
	Form string     `json:"form"`
	List []c38Entry `json:"list"`
}
type c38Rule struct {
	Pre  []string `json:"pre"`
	Wild bool     `json:"wild"`
	Val  bool     `json:"val"`
}
type c38Vec struct {
	Q struct {
		Kind string `json:"kind"`
	} `json:"q"`
	In struct {
		List []c38Entry `json:"list"`
		G    struct {
			Present bool       `json:"present"`
			List    []c38Entry `json:"list"`
		} `json:"g"`
		Rs    []c38Range `json:"rs"`
		Vpns  []c38Addr  `json:"vpns"`
		Rules []c38Rule  `json:"rules"`
		Names [][]string `json:"names"`
	} `json:"in"`
	Exp struct {
		Refused bool            `json:"refused"`
		Res     json.RawMessage `json:"res"`
	} `json:"exp"`
}
type c38RangeRes struct {
	Unknown string   `json:"unknown"`
	Each    []string `json:"each"`
	All     string   `json:"all"`
}

// a profile gives, per family, the run of real bits per abstract bit
type c38Profile struct{ v4, v6 []int }

func c38Profiles(w int) []c38Profile {
	if w == 2 {
		return []c38Profile{{[]int{8, 8}, []int{16, 16}}, {[]int{1, 1}, []int{1, 1}}, {[]int{12, 12}, []int{33, 31}}, {[]int{16, 16}, []int{64, 64}}}
	}
	return []c38Profile{{[]int{8, 8, 8}, []int{16, 16, 16}}, {[]int{1, 1, 1}, []int{1, 1, 1}}, {[]int{12, 6, 6}, []int{33, 31, 32}}, {[]int{16, 8, 8}, []int{64, 32, 32}}}
}

func (p c38Profile) of(fam string) []int {
	if fam == "v4" {
		return p.v4
	}
	return p.v6
}

// c38Addr builds the real address whose top bits are the stretched abstract bits; the rest is filled (0: zeros, 1: ones, 2: 0101..).
func c38MkAddr(fam string, bits []int, prof []int, fill int) (netip.Addr, int) {
	n := 4
	if fam == "v6" {
		n = 16
	}
	b := make([]byte, n)
	pos := 0
	set := func(v int) {
		if v != 0 {
			b[pos/8] |= 0x80 >> (pos % 8)
		}
		pos++
	}
	for i, v := range bits {
		run := 1
		if prof != nil {
			run = prof[i]
		}
		for j := 0; j < run; j++ {
			set(v)
		}
	}
	plen := pos
	for pos < n*8 {
		switch fill {
		case 0:
			set(0)
		case 1:
			set(1)
		default:
			set(pos & 1)
		}
	}
	a, _ := netip.AddrFromSlice(b)
	return a, plen
}

// c38Key writes a prefix as a configuration key (canonical: host bits zero); mapped: ::ffff:a.b.c.d/(96+n)
func c38Key(fam string, p []int, form string, prof []int) string {
	a, plen := c38MkAddr(fam, p, prof, 0)
	if fam == "v4" && form == "mapped" {
		return fmt.Sprintf("::ffff:%s/%d", a, 96+plen)
	}
	return fmt.Sprintf("%s/%d", a, plen)
}

func c38Bool(v bool, alt bool) string {
	if alt {
		if v {
			return "yes"
		}
		return "no"
	}
	if v {
		return "true"
	}
	return "false"
}

func c38ListYAML(sb *strings.Builder, indent string, list []c38Entry, pr c38Profile) {
	if len(list) == 0 {
		return
	}
	for i, e := range list {
		fmt.Fprintf(sb, "%s%q: %s\n", indent, c38Key(e.Fam, e.P, e.Form, pr.of(e.Fam)), c38Bool(e.Val, (i+len(e.P))%3 == 2))
	}
}

func c38HasMapped(lists ...[]c38Entry) bool {
	for _, l := range lists {
		for _, e := range l {
			if e.Form == "mapped" {
				return true
			}
		}
	}
	return false
}

func c38IsPrefix(p, b []int) bool {
	if len(p) > len(b) {
		return false
	}
	for i := range p {
		if p[i] != b[i] {
			return false
		}
	}
	return true
}

// class of an address with respect to a list (for the mismatch key only)
func c38Class(list []c38Entry, a c38Addr) string {
	for _, e := range list {
		if e.Fam == a.Fam && c38IsPrefix(e.P, a.Bits) {
			return "explicit-match"
		}
	}
	return "implicit-default"
}

func c38AddrSeq(w int) []c38Addr {
	var out []c38Addr
	for _, fam := range []string{"v4", "v6"} {
		for x := 0; x < 1<<w; x++ {
			bits := make([]int, w)
			for i := 0; i < w; i++ {
				bits[i] = (x >> (w - 1 - i)) & 1
			}
			out = append(out, c38Addr{fam, bits})
		}
	}
	return out
}

func c38Load(yaml string) *config.C {
	c := config.NewC(test.NewLogger())
	if err := c.LoadString(yaml); err != nil {
		panic(fmt.Sprintf("c38: yaml: %v\n%s", err, yaml))
	}
	return c
}

func c38B(v bool) string {
	if v {
		return "allow"
	}
	return "deny"
}

func TestVerif_C38(t *testing.T) {
	res := vNewResult()
	defer res.Write(t)
	w := 2
	if !vQuick() {
		w = 3
	}
	profiles := c38Profiles(w)
	if vQuick() {
		profiles = profiles[1:]
	}
	addrs := c38AddrSeq(w)
	n := 0
	vReadNDJSON(t, "vectors.ndjson", func(line []byte) {
		var v c38Vec
		if err := json.Unmarshal(line, &v); err != nil {
			t.Fatalf("vector: %v: %s", err, line)
		}
		n++
		if n%4000 == 1 {
			res.Sample(json.RawMessage(append([]byte(nil), line...)))
		}
		raw := json.RawMessage(append([]byte(nil), line...))
		for pk, pr := range profiles {
			res.Case(fmt.Sprintf("%d/%s", pk, line))
			switch v.Q.Kind {
			case "list":
				c38DoList(res, &v, pr, addrs, raw)
			case "ranges":
				c38DoRanges(res, &v, pr, addrs, raw)
			case "names":
				if pk == 0 {
					c38DoNames(res, &v, pr, raw)
				}
			default:
				t.Fatalf("unknown kind %q", v.Q.Kind)
			}
		}
	})

	// observation (not a verdict): what does a list answer for an IPv4-mapped *query* address?
	{
		c := c38Load("l:\n  \"0.0.0.0/0\": false\n  \"::/0\": true\n")
		al, err := newAllowListFromConfig(c, "l", nil)
		if err == nil {
			res.Extra["observation_mapped_query_address"] = fmt.Sprintf(
				"list {0.0.0.0/0: deny, ::/0: allow}: Allow(10.1.1.1)=%v Allow(::ffff:10.1.1.1)=%v (callers unmap before calling)",
				al.Allow(netip.MustParseAddr("10.1.1.1")), al.Allow(netip.MustParseAddr("::ffff:10.1.1.1")))
		}
	}

	c38Random(t, res)
}

func c38DoList(res *vResult, v *c38Vec, pr c38Profile, addrs []c38Addr, raw json.RawMessage) {
	list := v.In.List
	pfx := ""
	if c38HasMapped(list) {
		pfx = "mapped-key:"
	}
	var sb strings.Builder
	body := func(indent string) string {
		var b strings.Builder
		c38ListYAML(&b, indent, list, pr)
		return b.String()
	}
	// the same list as global remote list, as local list, and as the list of an overlay range (no global list)
	vpnIn, _ := c38MkAddr("v4", []int{1, 0}, []int{8, 8}, 2)
	vpnOut, _ := c38MkAddr("v4", []int{0, 1}, []int{8, 8}, 2)
	empty := ""
	if len(list) == 0 {
		empty = " {}"
	}
	fmt.Fprintf(&sb, "g:%s\n%sl:%s\n%sr:\n  \"128.0.0.0/1\":%s\n%s", empty, body("  "), empty, body("  "), empty, body("    "))
	yaml := sb.String()
	c := c38Load(yaml)
	detail := map[string]any{"yaml": yaml, "vector": raw}

	ralG, errG := NewRemoteAllowListFromConfig(c, "g", "nokey")
	lal, errL := NewLocalAllowListFromConfig(c, "l")
	ralR, errR := NewRemoteAllowListFromConfig(c, "nokey", "r")
	if v.Exp.Refused {
		res.Hit("list:refused")
		if errG == nil || errL == nil || errR == nil {
			res.Mismatch(pfx+"refusal:accepts-mixed-without-default", fmt.Sprintf("list mixing allow and deny without a default is accepted (remote=%v local=%v range=%v):\n%s", errG, errL, errR, yaml), detail)
		}
		return
	}
	if errG != nil || errL != nil || errR != nil {
		res.Mismatch(pfx+"refusal:refuses-valid", fmt.Sprintf("valid list refused (remote=%v local=%v range=%v):\n%s", errG, errL, errR, yaml), detail)
		return
	}
	var want []string
	if err := json.Unmarshal(v.Exp.Res, &want); err != nil || len(want) != len(addrs) {
		panic(fmt.Sprintf("c38: res: %v %s", err, v.Exp.Res))
	}
	for i, a := range addrs {
		if want[i] == "any" {
			res.Hit("list:unconstrained")
			continue
		}
		class := c38Class(list, a)
		res.Hit("list:" + class)
		for fill := 0; fill < 3; fill++ {
			udp, _ := c38MkAddr(a.Fam, a.Bits, pr.of(a.Fam), fill)
			chk := func(usage string, got bool) {
				if c38B(got) != want[i] {
					res.Mismatch(pfx+"list:"+usage+":"+class+":"+a.Fam,
						fmt.Sprintf("%s list answers %s for %s, specification %s; list:\n%s", usage, c38B(got), udp, want[i], body("  ")), detail)
				}
			}
			chk("remote", ralG.AllowUnknownVpnAddr(udp))
			chk("remote", ralG.Allow(vpnIn, udp))
			chk("remote", ralG.AllowAll(nil, udp))
			chk("remote", ralG.AllowAll([]netip.Addr{vpnIn, vpnOut}, udp))
			chk("local", lal.Allow(udp))
			chk("range", ralR.Allow(vpnIn, udp))
			chk("range", ralR.AllowAll([]netip.Addr{vpnOut, vpnIn}, udp))
			if !ralR.Allow(vpnOut, udp) || !ralR.AllowUnknownVpnAddr(udp) {
				res.Mismatch("ranges:applies-outside-its-range", fmt.Sprintf("the list of range 128.0.0.0/1 restricts %s for peer %s / an unknown peer", udp, vpnOut), detail)
			}
		}
	}
}

func c38DoRanges(res *vResult, v *c38Vec, pr c38Profile, addrs []c38Addr, raw json.RawMessage) {
	lists := [][]c38Entry{v.In.G.List}
	mappedRange := false
	for _, r := range v.In.Rs {
		lists = append(lists, r.List)
		if r.Form == "mapped" {
			mappedRange = true
		}
	}
	pfx := ""
	if c38HasMapped(lists...) || mappedRange {
		pfx = "mapped-key:"
	}
	var sb strings.Builder
	if v.In.G.Present {
		sb.WriteString("g:\n")
		c38ListYAML(&sb, "  ", v.In.G.List, pr)
	}
	if len(v.In.Rs) > 0 {
		sb.WriteString("r:\n")
		for _, r := range v.In.Rs {
			fmt.Fprintf(&sb, "  %q:\n", c38Key(r.Fam, r.P, r.Form, pr.of(r.Fam)))
			c38ListYAML(&sb, "    ", r.List, pr)
		}
	}
	if sb.Len() == 0 {
		sb.WriteString("x: 1\n")
	}
	yaml := sb.String()
	c := c38Load(yaml)
	detail := map[string]any{"yaml": yaml, "vector": raw}
	ral, err := NewRemoteAllowListFromConfig(c, "g", "r")
	if v.Exp.Refused {
		res.Hit("ranges:refused")
		if err == nil {
			res.Mismatch(pfx+"refusal:accepts-mixed-without-default", fmt.Sprintf("remote allow list with a refused (range) list is accepted:\n%s", yaml), detail)
		}
		return
	}
	if err != nil {
		res.Mismatch(pfx+"refusal:refuses-valid", fmt.Sprintf("valid remote allow list refused: %v\n%s", err, yaml), detail)
		return
	}
	var want []c38RangeRes
	if err := json.Unmarshal(v.Exp.Res, &want); err != nil || len(want) != len(addrs) {
		panic(fmt.Sprintf("c38: res: %v %s", err, v.Exp.Res))
	}
	for i, a := range addrs {
		for fill := 0; fill < 3; fill += 2 {
			udp, _ := c38MkAddr(a.Fam, a.Bits, pr.of(a.Fam), fill)
			var vpns []netip.Addr
			for _, x := range v.In.Vpns {
				va, _ := c38MkAddr(x.Fam, x.Bits, pr.of(x.Fam), 2-fill)
				vpns = append(vpns, va)
			}
			cmp := func(method, w string, got bool) {
				if w == "any" {
					return
				}
				res.Hit("ranges:" + method)
				if c38B(got) != w {
					res.Mismatch(pfx+"ranges:"+method, fmt.Sprintf("%s(%v, %s) = %s, specification %s; config:\n%s", method, vpns, udp, c38B(got), w, yaml), detail)
				}
			}
			cmp("AllowUnknownVpnAddr", want[i].Unknown, ral.AllowUnknownVpnAddr(udp))
			for k := range vpns {
				cmp("Allow", want[i].Each[k], ral.Allow(vpns[k], udp))
			}
			cmp("AllowAll", want[i].All, ral.AllowAll(vpns, udp))
		}
	}
}

func c38DoNames(res *vResult, v *c38Vec, pr c38Profile, raw json.RawMessage) {
	var sb strings.Builder
	sb.WriteString("l:\n")
	if len(v.In.Rules) > 0 {
		sb.WriteString("  interfaces:\n")
		for i, r := range v.In.Rules {
			pat := strings.Join(r.Pre, "")
			if r.Wild {
				pat += ".*"
			}
			fmt.Fprintf(&sb, "    %q: %s\n", pat, c38Bool(r.Val, i == 1))
		}
	}
	c38ListYAML(&sb, "  ", v.In.List, pr)
	yaml := sb.String()
	detail := map[string]any{"yaml": yaml, "vector": raw}
	lal, err := NewLocalAllowListFromConfig(c38Load(yaml), "l")
	if v.Exp.Refused {
		res.Hit("names:refused")
		if err == nil {
			res.Mismatch("names:accepts-mixed-values", fmt.Sprintf("interface rules with different values accepted:\n%s", yaml), detail)
		}
		return
	}
	if err != nil {
		res.Mismatch("names:refuses-valid", fmt.Sprintf("valid interface rules refused: %v\n%s", err, yaml), detail)
		return
	}
	var want []string
	if err := json.Unmarshal(v.Exp.Res, &want); err != nil || len(want) != len(v.In.Names) {
		panic(fmt.Sprintf("c38: res: %v %s", err, v.Exp.Res))
	}
	for i, nm := range v.In.Names {
		if want[i] == "any" {
			continue
		}
		name := strings.Join(nm, "")
		got := lal.AllowName(name)
		matched := false
		for _, r := range v.In.Rules {
			pre := strings.Join(r.Pre, "")
			if (r.Wild && strings.HasPrefix(name, pre)) || (!r.Wild && name == pre) {
				matched = true
			}
		}
		class := "default"
		if matched {
			class = "match"
		}
		res.Hit("names:" + class)
		if c38B(got) != want[i] {
			res.Mismatch("names:"+class, fmt.Sprintf("AllowName(%q) = %s, specification %s; rules:\n%s", name, c38B(got), want[i], yaml), detail)
		}
	}
	// the CIDR part of the same list is unaffected by the name rules: all but v4 11.. is allowed
	a11, _ := c38MkAddr("v4", []int{1, 1}, pr.v4[:2], 2)
	a01, _ := c38MkAddr("v4", []int{0, 1}, pr.v4[:2], 2)
	if lal.Allow(a11) || !lal.Allow(a01) {
		res.Mismatch("names:cidr-part", fmt.Sprintf("CIDR rules next to interface rules: Allow(%s)=%v Allow(%s)=%v", a11, lal.Allow(a11), a01, lal.Allow(a01)), detail)
	}
}

// ---- T: seeded random full-width lists; projected to bit strings and judged by Trace_AllowList
func c38Random(t *testing.T, res *vResult) {
	rnd := vRand()
	f, err := os.Create(vOut("obs.ndjson"))
	if err != nil {
		t.Fatal(err)
	}
	defer f.Close()
	enc := json.NewEncoder(f)
	N := 250
	if !vQuick() {
		N = 1200
	}
	bitsOf := func(a netip.Addr, n int) []int {
		b := a.AsSlice()
		out := make([]int, n)
		for i := 0; i < n; i++ {
			out[i] = int(b[i/8]>>(7-i%8)) & 1
		}
		return out
	}
	for k := 0; k < N; k++ {
		var list []c38Entry
		var keys []string
		seen := map[string]bool{}
		var pool []netip.Prefix
		nEntries := rnd.Intn(6)
		uniform := rnd.Intn(3) == 0
		uval := rnd.Intn(2) == 0
		for j := 0; j < nEntries; j++ {
			fam := []string{"v4", "v4", "v6"}[rnd.Intn(3)]
			total := 32
			if fam == "v6" {
				total = 128
			}
			var p netip.Prefix
			// extend an earlier prefix of the family (nesting), or a fresh one, or the default
			var same []netip.Prefix
			for _, q := range pool {
				if (q.Addr().Is4() && fam == "v4") || (q.Addr().Is6() && fam == "v6") {
					same = append(same, q)
				}
			}
			switch {
			case rnd.Intn(5) == 0:
				a, _ := c38MkAddr(fam, nil, nil, 0)
				p = netip.PrefixFrom(a, 0)
			case len(same) > 0 && rnd.Intn(2) == 0:
				base := same[rnd.Intn(len(same))]
				nl := base.Bits() + rnd.Intn(total-base.Bits()+1)
				b := base.Addr().AsSlice()
				for i := base.Bits(); i < nl; i++ {
					if rnd.Intn(2) == 0 {
						b[i/8] |= 0x80 >> (i % 8)
					}
				}
				a, _ := netip.AddrFromSlice(b)
				p = netip.PrefixFrom(a, nl)
			default:
				b := make([]byte, total/8)
				rnd.Read(b)
				a, _ := netip.AddrFromSlice(b)
				p = netip.PrefixFrom(a, rnd.Intn(total+1)).Masked()
			}
			if seen[p.String()] {
				continue
			}
			seen[p.String()] = true
			pool = append(pool, p)
			val := rnd.Intn(2) == 0
			if uniform {
				val = uval
			}
			form := "plain"
			key := p.String()
			if fam == "v4" && rnd.Intn(4) == 0 {
				form = "mapped"
				key = fmt.Sprintf("::ffff:%s/%d", p.Addr(), 96+p.Bits())
			}
			list = append(list, c38Entry{fam, bitsOf(p.Addr(), p.Bits()), val, form})
			keys = append(keys, fmt.Sprintf("  %q: %v\n", key, val))
		}
		sort.Strings(keys)
		yaml := "l: {}\n"
		if len(keys) > 0 {
			yaml = "l:\n" + strings.Join(keys, "")
		}
		c := c38Load(yaml)
		usage := []string{"remote", "local"}[rnd.Intn(2)]
		var allow func(netip.Addr) bool
		var cerr error
		if usage == "remote" {
			ral, err := NewRemoteAllowListFromConfig(c, "l", "nokey")
			cerr = err
			if err == nil {
				allow = ral.AllowUnknownVpnAddr
			}
		} else {
			lal, err := NewLocalAllowListFromConfig(c, "l")
			cerr = err
			if err == nil {
				allow = lal.Allow
			}
		}
		var qs []c38Addr
		var got, qstr []string
		for j := 0; j < 8; j++ {
			var a netip.Addr
			if len(pool) > 0 && rnd.Intn(3) != 0 {
				// inside (or just outside) a configured prefix
				p := pool[rnd.Intn(len(pool))]
				b := p.Addr().AsSlice()
				for i := p.Bits(); i < len(b)*8; i++ {
					if rnd.Intn(2) == 0 {
						b[i/8] |= 0x80 >> (i % 8)
					}
				}
				if p.Bits() > 0 && rnd.Intn(4) == 0 {
					i := p.Bits() - 1
					b[i/8] ^= 0x80 >> (i % 8)
				}
				a, _ = netip.AddrFromSlice(b)
			} else {
				b := make([]byte, []int{4, 16}[rnd.Intn(2)])
				rnd.Read(b)
				a, _ = netip.AddrFromSlice(b)
			}
			fam := "v4"
			if a.Is6() {
				fam = "v6"
			}
			qs = append(qs, c38Addr{fam, bitsOf(a, a.BitLen())})
			qstr = append(qstr, a.String())
			if allow != nil {
				got = append(got, c38B(allow(a)))
			}
		}
		res.Hit("T:" + usage)
		res.Case(fmt.Sprintf("T/%d/%s", k, yaml))
		if got == nil {
			got = []string{}
		}
		if list == nil {
			list = []c38Entry{}
		}
		if err := enc.Encode(map[string]any{"k": k, "list": list, "qs": qs, "refused": cerr != nil, "got": got,
			"yaml": yaml, "usage": usage, "queries": qstr}); err != nil {
			t.Fatal(err)
		}
	}
}
