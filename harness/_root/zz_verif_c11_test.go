package nebula

// C11 — replay window.  Binding of spec/Window.tla to bits.go.
//
//  R: every edge of TLC's state graph of the small models is replayed on a real Bits, unscaled
//     (NewBits(W)) and scaled i -> k*i-off on NewBits(k*W) so that the model's B-bit word
//     boundaries fall on the real 64-bit word boundaries.
//  T: seeded drivers on NewBits(8192)/NewBits(64)/NewBits(128) record traces that TLC validates
//     against the reference layer (Trace_Window.tla).

import (
	"encoding/json"
	"fmt"
	"io"
	"log/slog"
	"testing"
)

type c11Plan struct {
	Graphs []struct {
		File string `json:"file"`
		W    int    `json:"W"`
		B    int    `json:"B"`
	} `json:"graphs"`
	TraceW  []int `json:"traceW"`
	Traces  int   `json:"traces"`
	Events  int   `json:"events"`
	HighOff int   `json:"highBase"` // model value at which the high region starts
}

func c11Logger() *slog.Logger { return slog.New(slog.NewTextHandler(io.Discard, nil)) }

type c11Map struct {
	k, off uint64
	name   string
}

func (m c11Map) real(i int) uint64 {
	if i == 0 {
		return 0
	}
	return m.k*uint64(i) - m.off
}

func TestVerif_C11(t *testing.T) {
	res := vNewResult()
	defer res.Write(t)
	var plan c11Plan
	vReadJSON(t, "c11_plan.json", &plan)
	l := c11Logger()

	// ---------------------------------------------------------------- R
	for _, g := range plan.Graphs {
		var gr vGraph
		vReadJSON(t, g.File, &gr)
		maps := []c11Map{{1, 0, "unscaled"}}
		if 64%g.B == 0 {
			k := uint64(64 / g.B)
			maps = append(maps, c11Map{k, 0, fmt.Sprintf("x%d", k)}, c11Map{k, k - 1, fmt.Sprintf("x%d-%d", k, k-1)},
				c11Map{k, k / 2, fmt.Sprintf("x%d-%d", k, k/2)})
		}
		for _, m := range maps {
			realW := m.k * uint64(g.W)
			for ti, tour := range gr.Tours {
				b := NewBits(realW)
				for si, ei := range tour {
					e := gr.Edges[ei]
					i := vInt(e.Args[0])
					post := gr.States[e.Dst]
					want := vBool(post["res"])
					ri := m.real(i)
					var got bool
					switch e.Act {
					case "Update":
						got = b.Update(l, ri)
					case "Check":
						got = b.Check(l, ri)
					default:
						t.Fatalf("unknown action %s", e.Act)
					}
					res.Hit(e.Act)
					res.Case(fmt.Sprintf("%s/%s/%d", g.File, m.name, ei))
					if got != want {
						res.Mismatch(fmt.Sprintf("replay:%s:W%d", e.Act, g.W),
							fmt.Sprintf("%s(%d) returned %v, specification says %v", e.Act, ri, got, want),
							map[string]any{"graph": g.File, "map": m.name, "tour": ti, "step": si, "model_counter": i,
								"real_counter": ri, "window": realW, "tour_edges": tour})
						break
					}
					// projection of the reference variables: max and the acceptability of every model counter
					wantMax := m.real(vInt(post["max"]))
					if b.current != wantMax {
						res.Mismatch(fmt.Sprintf("replay:max:W%d", g.W), fmt.Sprintf("highest accepted %d, specification %d", b.current, wantMax),
							map[string]any{"graph": g.File, "map": m.name, "tour": ti, "step": si})
						break
					}
					seen := map[int]bool{}
					for _, s := range vInts(post["seen"]) {
						seen[s] = true
					}
					pm := vInt(post["max"])
					bad := false
					for c := 0; c <= pm+g.W+1; c++ {
						exp := !seen[c] && (c > pm || c+g.W > pm)
						if b.Check(l, m.real(c)) != exp {
							res.Mismatch(fmt.Sprintf("replay:checkband:W%d", g.W),
								fmt.Sprintf("after %s(%d): Check(%d)=%v, specification %v", e.Act, ri, m.real(c), !exp, exp),
								map[string]any{"graph": g.File, "map": m.name, "tour": ti, "step": si, "tour_edges": tour})
							bad = true
							break
						}
					}
					if bad {
						break
					}
				}
			}
		}
		if len(gr.Tours) > 0 {
			res.Sample(map[string]any{"graph": g.File, "tour_as_edges": gr.Tours[len(gr.Tours)/2]})
		}
	}

	// ---------------------------------------------------------------- T
	rnd := vRand()
	for _, W := range plan.TraceW {
		tr := vNewTracer(t, fmt.Sprintf("trace_W%d.ndjson", W))
		uw := uint64(W)
		hb := plan.HighOff
		toReal := func(i int) uint64 {
			if i >= hb {
				return uint64(i-hb) + (0 - 4*uw)
			}
			return uint64(i)
		}
		for n := 0; n < plan.Traces; n++ {
			b := NewBits(uw)
			tr.Event(map[string]any{"ev": "reset"})
			mode := rnd.Intn(6)
			cur := 0 // model value of the highest counter offered so far
			high := false
			goHigh := -1
			if n%3 == 2 {
				goHigh = rnd.Intn(plan.Events)
			}
			for s := 0; s < plan.Events; s++ {
				var i int
				if s == goHigh && !high {
					high = true
					i = hb + rnd.Intn(W)
				} else {
					switch r := rnd.Intn(100); {
					case r < 35 || (mode == 0 && r < 80): // next in order
						i = cur + 1
					case r < 55: // small jump forward, lands on every bit position over time
						i = cur + 1 + rnd.Intn(130)
					case r < 60: // jump around a full window
						i = cur + W - 2 + rnd.Intn(5)
					case r < 63: // beyond the window
						i = cur + W + rnd.Intn(3*W)
					case r < 85: // recent counter (duplicate or back-fill)
						i = cur - rnd.Intn(min(cur+1, 70))
					case r < 93: // somewhere in the window
						i = cur - rnd.Intn(min(cur+1, W))
					case r < 97: // around the trailing edge
						i = cur - W + 2 - rnd.Intn(5)
					default:
						i = rnd.Intn(cur + 2)
					}
				}
				if high {
					if i < hb {
						i = hb + rnd.Intn(8)
					}
					if i > hb+4*W-1 {
						i = hb + 4*W - 1 - rnd.Intn(3)
					}
				} else {
					if i < 0 {
						i = 0
					}
					if i >= hb-8*W {
						i = cur
					}
				}
				ri := toReal(i)
				chk := b.Check(l, ri)
				tr.Event(map[string]any{"ev": "Check", "i": i, "res": chk})
				got := b.Update(l, ri)
				// projected reference variable: highest accepted counter, back in model coordinates
				mx := b.current
				var mmax int
				if mx >= (0 - 4*uw) {
					mmax = int(mx-(0-4*uw)) + hb
				} else {
					mmax = int(mx)
				}
				tr.Event(map[string]any{"ev": "Update", "i": i, "res": got, "max": mmax})
				res.Hit("T:Update")
				if i > cur {
					cur = i
				}
			}
			res.Traces++
			res.Case(fmt.Sprintf("trace/%d/%d", W, n))
		}
		tr.Close()
	}
	_ = json.Marshal
}
