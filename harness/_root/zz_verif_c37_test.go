package nebula

// C37 — remote address lists are de-duplicated and deterministically ordered.
// Binding of spec/RemoteList.tla to remote_list.go.
//
//  V: every vector of RemoteList.tla (a population, a rebuild, a change, a rebuild) is executed on a real RemoteList;
//     CopyAddrs / ForEach / Len / relays are projected back to the abstract ids and compared with the reference lists.
//     Histories of kind "static" run on the RemoteList of a static host inside a real LightHouse: the op "static" is a
//     (re)load of the configuration file with a new static_host_map entry (LightHouse.reload -> ResetForOwner ->
//     addStaticRemotes), everything else is applied to that list directly.
//  T: seeded random call sequences on real RemoteLists over random concrete addresses; the harness computes the
//     attribute table of those addresses itself (family, RFC1918, byte order, preferred-range membership) and TLC
//     validates every recorded list against the reference (Trace_RemoteList.tla).

import (
	"bytes"
	"context"
	"encoding/json"
	"fmt"
	"io"
	"log/slog"
	"math/rand"
	"net/netip"
	"reflect"
	"sort"
	"testing"

	"github.com/gaissmai/bart"
	"github.com/slackhq/nebula/config"
	"go.yaml.in/yaml/v3"
)

type c37Tab struct {
	Fam   []int   `json:"fam"`
	Wire  []int   `json:"wire"`
	Priv  []bool  `json:"priv"`
	Rank  []int   `json:"rank"`
	Canon []int   `json:"canon"`
	Pref  [][]int `json:"pref"`
	Rfam  []int   `json:"rfam"`
	Rrank []int   `json:"rrank"`
}

type c37Obs struct {
	Addrs  []int    `json:"addrs"`
	Relays []int    `json:"relays"`
	Lag    bool     `json:"lag"`
	Resets []string `json:"resets"` // shapes (RemoteList.tla, Shape) of the owners reset since the previous rebuild
}

type c37Vec struct {
	In struct {
		Kind string              `json:"kind"`
		Ops  [][]json.RawMessage `json:"ops"`
	} `json:"in"`
	Exp json.RawMessage `json:"exp"`
}

// c37World is a concretisation of the abstract ids: ids are 1-based.
type c37World struct {
	addrs  []netip.Addr // [0] unused
	relays []netip.Addr // [0] unused
	prefs  [][]netip.Prefix
	owners []netip.Addr // [0] unused
	peer   netip.Addr
	back   map[netip.Addr]int // canonical address -> id
	rback  map[netip.Addr]int
}

const c37PortBase = 4241

func c37StdWorld() *c37World {
	p := netip.MustParseAddr
	w := &c37World{
		addrs: []netip.Addr{{}, p("2001:db8::1"), p("fd00:1::2"), p("8.8.8.8"), p("100.64.0.9"), p("10.1.2.3"), p("192.168.1.7"),
			p("172.20.0.5"), p("2001:db8::ffff"), p("::ffff:8.8.8.8")},
		relays: []netip.Addr{{}, p("10.128.0.9"), p("10.128.0.20"), p("fd00:aa::3")},
		prefs: [][]netip.Prefix{{}, {netip.MustParsePrefix("192.168.0.0/16")},
			{netip.MustParsePrefix("10.0.0.0/8"), netip.MustParsePrefix("fd00::/8")}, {netip.MustParsePrefix("0.0.0.0/0")}},
	}
	w.finish()
	return w
}

func (w *c37World) finish() {
	w.owners = []netip.Addr{{}, netip.MustParseAddr("10.128.0.2"), netip.MustParseAddr("10.128.0.3")}
	w.peer = netip.MustParseAddr("10.128.0.99")
	w.back = map[netip.Addr]int{}
	for i := 1; i < len(w.addrs); i++ {
		if !w.addrs[i].Is4In6() {
			w.back[w.addrs[i]] = i
		}
	}
	w.rback = map[netip.Addr]int{}
	for i := 1; i < len(w.relays); i++ {
		w.rback[w.relays[i]] = i
	}
}

// the harness' own reading of the attributes (not the code's helper functions)
func c37Private(a netip.Addr) bool {
	if a.Is4() {
		b := a.As4()
		return b[0] == 10 || (b[0] == 172 && b[1]&0xf0 == 16) || (b[0] == 192 && b[1] == 168)
	}
	b := a.As16()
	return b[0]&0xfe == 0xfc
}

func c37Bytes(a netip.Addr) []byte {
	if a.Is4() {
		b := a.As4()
		return b[:]
	}
	b := a.As16()
	return b[:]
}

func c37Ranks(as []netip.Addr) []int { // rank of every address among the addresses of its family (1-based, [0] unused)
	out := make([]int, len(as))
	for i := 1; i < len(as); i++ {
		r := 1
		for j := 1; j < len(as); j++ {
			if as[j].Is4() == as[i].Is4() && bytes.Compare(c37Bytes(as[j]), c37Bytes(as[i])) < 0 {
				r++
			}
		}
		out[i] = r
	}
	return out
}

func (w *c37World) table() c37Tab {
	n := len(w.addrs) - 1
	t := c37Tab{Fam: make([]int, n), Wire: make([]int, n), Priv: make([]bool, n), Rank: make([]int, n), Canon: make([]int, n)}
	canon := make([]netip.Addr, len(w.addrs))
	for i := 1; i <= n; i++ {
		canon[i] = w.addrs[i].Unmap()
	}
	for i := 1; i <= n; i++ {
		t.Fam[i-1], t.Wire[i-1] = 6, 6
		if canon[i].Is4() {
			t.Fam[i-1] = 4
		}
		if w.addrs[i].Is4() {
			t.Wire[i-1] = 4
		}
		t.Priv[i-1] = c37Private(canon[i])
		t.Canon[i-1] = w.back[canon[i]]
	}
	// ranks among the canonical spellings; an alias has the rank of its canonical address
	cs := []netip.Addr{{}}
	idx := []int{0}
	for i := 1; i <= n; i++ {
		if t.Canon[i-1] == i {
			cs = append(cs, canon[i])
			idx = append(idx, i)
		}
	}
	cr := c37Ranks(cs)
	for k := 1; k < len(cs); k++ {
		t.Rank[idx[k]-1] = cr[k]
	}
	for i := 1; i <= n; i++ {
		t.Rank[i-1] = t.Rank[t.Canon[i-1]-1]
	}
	for _, ps := range w.prefs {
		ids := []int{}
		for i := 1; i <= n; i++ {
			if t.Canon[i-1] != i {
				continue
			}
			for _, p := range ps {
				if p.Contains(canon[i]) {
					ids = append(ids, i)
					break
				}
			}
		}
		t.Pref = append(t.Pref, ids)
	}
	rr := c37Ranks(w.relays)
	for i := 1; i < len(w.relays); i++ {
		f := 6
		if w.relays[i].Is4() {
			f = 4
		}
		t.Rfam = append(t.Rfam, f)
		t.Rrank = append(t.Rrank, rr[i])
	}
	return t
}

func (w *c37World) ap(x int) netip.AddrPort {
	return netip.AddrPortFrom(w.addrs[x/10], uint16(c37PortBase+x%10))
}

func (w *c37World) project(a netip.AddrPort) int {
	id, ok := w.back[a.Addr()]
	p := int(a.Port()) - c37PortBase
	if !ok || p < 1 || p > 9 {
		return -1
	}
	return id*10 + p
}

type c37List struct {
	w     *c37World
	rl    *RemoteList
	hr    *hostnamesResults
	flip  bool
	extra func(what string, detail any) // API-consistency problems (ForEach/Len vs CopyAddrs)
	// static-host mode: the list lives in a LightHouse, ourselves = owner 1, the host = w.peer
	lh     *LightHouse
	cfg    *config.C
	cancel context.CancelFunc
}

func (c *c37List) close() {
	if c.cancel != nil {
		c.cancel()
	}
}

// c37StaticYAML is the configuration file of the node with the given static_host_map literals for the host w.peer.
func c37StaticYAML(w *c37World, ids []int) string {
	shm := map[string]any{}
	if len(ids) > 0 {
		var l []any
		for _, x := range ids {
			l = append(l, w.ap(x).String())
		}
		shm[w.peer.String()] = l
	}
	b, err := yaml.Marshal(map[string]any{
		"lighthouse":      map[string]any{"am_lighthouse": true},
		"listen":          map[string]any{"port": 4242},
		"static_host_map": shm,
	})
	if err != nil {
		panic(err)
	}
	return string(b)
}

// c37NewStaticList builds a LightHouse (ourselves = owner 1) from a configuration whose static_host_map holds the host.
func c37NewStaticList(w *c37World, ids []int) *c37List {
	l := slog.New(slog.NewTextHandler(io.Discard, nil))
	cfg := config.NewC(l)
	if err := cfg.LoadString(c37StaticYAML(w, ids)); err != nil {
		panic(fmt.Sprintf("verif: configuration: %v", err))
	}
	net := netip.PrefixFrom(w.owners[1], 24)
	nt := new(bart.Lite)
	nt.Insert(net.Masked())
	cs := &CertState{myVpnNetworks: []netip.Prefix{net}, myVpnNetworksTable: nt}
	ctx, cancel := context.WithCancel(context.Background())
	lh, err := NewLightHouseFromConfig(ctx, l, cfg, cs, nil, nil)
	if err != nil {
		panic(fmt.Sprintf("verif: NewLightHouseFromConfig: %v", err))
	}
	c := &c37List{w: w, lh: lh, cfg: cfg, cancel: cancel}
	c.fetch()
	if c.rl == nil {
		panic("verif: the static host has no RemoteList")
	}
	return c
}

// fetch looks the host's list up the way LightHouse.Query does
func (c *c37List) fetch() {
	c.lh.RLock()
	if rl := c.lh.addrMap[c.w.peer]; rl != nil {
		c.rl = rl
	}
	c.lh.RUnlock()
}

func c37NewList(w *c37World) *c37List {
	rl := NewRemoteList([]netip.Addr{w.peer}, nil)
	hr := &hostnamesResults{}
	m := map[netip.AddrPort]struct{}{}
	hr.ips.Store(&m)
	rl.Lock()
	rl.unlockedSetHostnamesResults(hr)
	rl.Unlock()
	return &c37List{w: w, rl: rl, hr: hr}
}

func c37Ints(m json.RawMessage) []int {
	var s []int
	if err := json.Unmarshal(m, &s); err != nil {
		panic(fmt.Sprintf("verif: not an int list: %s", m))
	}
	return s
}

func c37True4(netip.Addr, *V4AddrPort) bool { return true }
func c37True6(netip.Addr, *V6AddrPort) bool { return true }

// apply performs one operation of RemoteList.tla's Apply on the real list.
func (c *c37List) apply(name string, args []json.RawMessage) {
	w, rl := c.w, c.rl
	switch name {
	case "rep":
		o := w.owners[vInt(args[0])]
		var v4 []*V4AddrPort
		var v6 []*V6AddrPort
		for _, x := range c37Ints(args[1]) {
			a := w.ap(x)
			if a.Addr().Is4() {
				v4 = append(v4, netAddrToProtoV4AddrPort(a.Addr(), a.Port()))
			} else {
				v6 = append(v6, netAddrToProtoV6AddrPort(a.Addr(), a.Port()))
			}
		}
		rl.Lock()
		rl.unlockedSetV4(o, w.peer, v4, c37True4)
		rl.unlockedSetV6(o, w.peer, v6, c37True6)
		rl.Unlock()
	case "learn":
		rl.LearnRemote(w.owners[vInt(args[0])], w.ap(vInt(args[1])))
	case "relay":
		var rs []netip.Addr
		for _, x := range c37Ints(args[1]) {
			rs = append(rs, w.relays[x])
		}
		rl.Lock()
		rl.unlockedSetRelay(w.owners[vInt(args[0])], rs)
		rl.Unlock()
	case "prepend":
		a := w.ap(vInt(args[1]))
		rl.Lock()
		if a.Addr().Is4() {
			rl.unlockedPrependV4(w.owners[vInt(args[0])], netAddrToProtoV4AddrPort(a.Addr(), a.Port()))
		} else {
			rl.unlockedPrependV6(w.owners[vInt(args[0])], netAddrToProtoV6AddrPort(a.Addr(), a.Port()))
		}
		rl.Unlock()
	case "reset":
		rl.ResetForOwner(w.owners[vInt(args[0])])
	case "static":
		// SIGHUP with an edited static_host_map
		if vInt(args[0]) != 1 || c.lh == nil {
			panic("verif: static op outside a static-host history")
		}
		if err := c.cfg.ReloadConfigString(c37StaticYAML(w, c37Ints(args[1]))); err != nil {
			panic(fmt.Sprintf("verif: reload: %v", err))
		}
		c.fetch()
	case "dns":
		m := map[netip.AddrPort]struct{}{}
		for _, x := range c37Ints(args[0]) {
			m[w.ap(x)] = struct{}{}
		}
		c.hr.ips.Store(&m)
		// what the resolver's onUpdate callback installed by addStaticRemotes does
		rl.Lock()
		rl.shouldRebuild = true
		rl.Unlock()
	case "block":
		rl.BlockRemote(ViaSender{UdpAddr: w.ap(vInt(args[0]))})
	case "unblock":
		c.flip = !c.flip
		if c.flip {
			rl.RefreshFromHandshake([]netip.Addr{w.peer})
		} else {
			rl.ResetBlockedRemotes()
		}
	default:
		panic("verif: unknown op " + name)
	}
}

// rebuild observes the list the way its users do.
func (c *c37List) rebuild(p int) (addrs []int, relays []int) {
	w, rl := c.w, c.rl
	got := rl.CopyAddrs(w.prefs[p])
	addrs = make([]int, len(got))
	for i, a := range got {
		addrs[i] = w.project(a)
	}
	if n := rl.Len(w.prefs[p]); n != len(got) {
		c.extra("api:len", map[string]any{"len": n, "copy": len(got)})
	}
	i := 0
	rl.ForEach(w.prefs[p], func(a netip.AddrPort, preferred bool) {
		if i >= len(got) || got[i] != a {
			c.extra("api:foreach", map[string]any{"at": i, "addr": a.String()})
		}
		want := false
		for _, pr := range w.prefs[p] {
			want = want || pr.Contains(a.Addr())
		}
		if preferred != want {
			c.extra("api:foreach-preferred", map[string]any{"addr": a.String(), "preferred": preferred})
		}
		i++
	})
	rl.RLock()
	relays = make([]int, len(rl.relays))
	for i, r := range rl.relays {
		id, ok := w.rback[r]
		if !ok {
			id = -1
		}
		relays[i] = id
	}
	rl.RUnlock()
	return addrs, relays
}

func c37SameSet(a, b []int) (missing, extra []int) {
	ma, mb := map[int]bool{}, map[int]bool{}
	for _, x := range a {
		ma[x] = true
	}
	for _, x := range b {
		mb[x] = true
	}
	for x := range mb {
		if !ma[x] {
			missing = append(missing, x)
		}
	}
	for x := range ma {
		if !mb[x] {
			extra = append(extra, x)
		}
	}
	sort.Ints(missing)
	sort.Ints(extra)
	return
}

func c37HasDup(a []int) bool {
	m := map[int]bool{}
	for _, x := range a {
		if m[x] {
			return true
		}
		m[x] = true
	}
	return false
}

// c37Class names the way got differs from want ("" = equal).
func c37Class(got, want []int, lag bool) (string, any) {
	if reflect.DeepEqual(got, want) || (len(got) == 0 && len(want) == 0) {
		return "", nil
	}
	for _, x := range got {
		if x < 0 {
			return "unknown-address", nil
		}
	}
	if c37HasDup(got) {
		return "duplicate", nil
	}
	missing, extra := c37SameSet(got, want)
	switch {
	case len(missing)+len(extra) > 0 && lag:
		return "stale-after-unblock", map[string]any{"missing": missing, "extra": extra}
	case len(extra) > 0:
		return "extra", extra
	case len(missing) > 0:
		return "missing", missing
	}
	return "order", nil
}

type c37RelayOrder struct{ seen map[string]bool }

// relays: exact set, no duplicates, ascending inside a family; the arrangement of the families must be stable
func (ro *c37RelayOrder) check(got, want []int, tab *c37Tab) string {
	for _, x := range got {
		if x < 0 {
			return "unknown-address"
		}
	}
	if c37HasDup(got) {
		return "duplicate"
	}
	if m, e := c37SameSet(got, want); len(m)+len(e) > 0 {
		return "set"
	}
	pat := ""
	for i, x := range got {
		for _, y := range got[i+1:] {
			if tab.Rfam[x-1] == tab.Rfam[y-1] && tab.Rrank[x-1] >= tab.Rrank[y-1] {
				return "order"
			}
		}
		f := fmt.Sprint(tab.Rfam[x-1])
		if len(pat) == 0 || pat[len(pat)-1:] != f {
			pat += f
		}
	}
	if len(pat) >= 2 {
		ro.seen[pat] = true
		if len(ro.seen) > 1 {
			return "family-arrangement-unstable"
		}
	}
	return ""
}

func TestVerif_C37(t *testing.T) {
	res := vNewResult()
	defer res.Write(t)
	ro := &c37RelayOrder{seen: map[string]bool{}}

	// ---------------------------------------------------------------- V
	w := c37StdWorld()
	tab := w.table()
	sawTable := false
	n := 0
	vReadNDJSON(t, "vectors.ndjson", func(line []byte) {
		var v c37Vec
		if err := json.Unmarshal(line, &v); err != nil {
			t.Fatalf("vector: %v: %s", err, line)
		}
		if v.In.Kind == "table" {
			var st c37Tab
			if err := json.Unmarshal(v.Exp, &st); err != nil {
				t.Fatalf("table: %v", err)
			}
			if !reflect.DeepEqual(st, tab) {
				t.Fatalf("verif: the harness' concrete addresses do not have the attributes of RemoteList.tla's StdTab:\n spec %+v\n mine %+v", st, tab)
			}
			sawTable = true
			return
		}
		var exp []c37Obs
		if err := json.Unmarshal(v.Exp, &exp); err != nil {
			t.Fatalf("exp: %v: %s", err, v.Exp)
		}
		n++
		res.Case(string(line))
		if n%1500 == 1 {
			res.Sample(json.RawMessage(append([]byte(nil), line...)))
		}
		var c *c37List
		ops := v.In.Ops
		if v.In.Kind == "static" {
			// the first op is the initial load of the configuration
			c = c37NewStaticList(w, c37Ints(ops[0][2]))
			res.Hit("static")
			ops = ops[1:]
		} else {
			c = c37NewList(w)
		}
		defer c.close()
		c.extra = func(what string, detail any) {
			res.Mismatch("vec:"+what, "ForEach/Len disagree with CopyAddrs", map[string]any{"ops": v.In.Ops, "detail": detail})
		}
		k := 0
		for si, op := range ops {
			name := vStr(op[0])
			if name != "rebuild" {
				c.apply(name, op[1:])
				res.Hit(name)
				continue
			}
			res.Hit("rebuild")
			p := vInt(op[1])
			addrs, relays := c.rebuild(p)
			e := exp[k]
			k++
			if e.Lag {
				res.Hit("rebuild-after-unblock")
			}
			// the class of the history: which kind of owner was reset since the previous rebuild
			after := ""
			for _, sh := range e.Resets {
				res.Hit("reset:" + sh)
				after = ":after-reset:" + sh
			}
			if v.In.Kind == "static" {
				after = ":static-host" + after
			}
			if cls, d := c37Class(addrs, e.Addrs, e.Lag); cls != "" {
				if cls != "extra" && cls != "missing" {
					// arrangement problems are not attributed to the history class: they may depend on the iteration order of
					// the owner map, and a key must reproduce on re-execution
					after = ""
				}
				res.Mismatch("vec:addrs:"+cls+after, fmt.Sprintf("CopyAddrs = %v, specification %v (ids 10*address+port) at step %d", addrs, e.Addrs, si),
					map[string]any{"ops": v.In.Ops, "step": si, "got": addrs, "want": e.Addrs, "diff": d, "pref": p, "kind": v.In.Kind})
				break
			}
			if cls := ro.check(relays, e.Relays, &tab); cls != "" {
				res.Mismatch("vec:relays:"+cls, fmt.Sprintf("relays = %v, specification %v at step %d", relays, e.Relays, si),
					map[string]any{"ops": v.In.Ops, "step": si, "got": relays, "want": e.Relays})
				break
			}
		}
	})
	if !sawTable {
		t.Fatalf("verif: no table vector")
	}

	// ---------------------------------------------------------------- T
	rnd := vRand()
	traces, events := 40, 60
	if !vQuick() {
		traces, events = 300, 90
	}
	for _, file := range []string{"trace_a.ndjson", "trace_b.ndjson"} {
		withUnblock := file == "trace_b.ndjson"
		tr := vNewTracer(t, file)
		nt := traces
		if withUnblock {
			nt = traces / 4
		}
		for i := 0; i < nt; i++ {
			c37RandomTrace(rnd, tr, events, withUnblock, res, ro)
			res.Traces++
			res.Case(fmt.Sprintf("%s/%d", file, i))
		}
		tr.Close()
	}
}

func c37RandAddr(rnd *rand.Rand, kind int) netip.Addr {
	b4 := func(a, b byte) netip.Addr {
		return netip.AddrFrom4([4]byte{a, b, byte(rnd.Intn(256)), byte(1 + rnd.Intn(254))})
	}
	switch kind {
	case 0: // public v4
		first := []byte{1, 8, 9, 11, 63, 100, 128, 171, 173, 191, 193, 203, 223}
		return b4(first[rnd.Intn(len(first))], byte(rnd.Intn(256)))
	case 1:
		return b4(10, byte(rnd.Intn(256)))
	case 2:
		return b4(172, byte(16+rnd.Intn(16)))
	case 3:
		return b4(192, 168)
	case 4: // just outside the private ranges
		e := [][2]byte{{172, 15}, {172, 32}, {192, 167}, {192, 169}, {11, 0}, {9, 255}, {100, 64}}
		x := e[rnd.Intn(len(e))]
		return b4(x[0], x[1])
	case 5: // global v6
		var b [16]byte
		rnd.Read(b[:])
		b[0] = 0x20 | byte(rnd.Intn(16))
		return netip.AddrFrom16(b)
	default: // ULA / link-local v6
		var b [16]byte
		rnd.Read(b[:])
		b[0] = []byte{0xfc, 0xfd, 0xfe}[rnd.Intn(3)]
		if b[0] == 0xfe {
			b[1] = 0x80
		}
		return netip.AddrFrom16(b)
	}
}

func c37RandomTrace(rnd *rand.Rand, tr *vTracer, events int, withUnblock bool, res *vResult, ro *c37RelayOrder) {
	// a fresh world of concrete addresses
	w := &c37World{addrs: []netip.Addr{{}}, relays: []netip.Addr{{}}}
	seen := map[netip.Addr]bool{}
	nAddr := 9 + rnd.Intn(4)
	for len(w.addrs) <= nAddr {
		a := c37RandAddr(rnd, rnd.Intn(7))
		if rnd.Intn(4) == 0 && len(w.addrs) > 1 { // a neighbour of an earlier address: same prefix, differs in the last byte
			b := w.addrs[1+rnd.Intn(len(w.addrs)-1)].Unmap()
			bs := c37Bytes(b)
			bs[len(bs)-1] ^= byte(1 + rnd.Intn(255))
			a, _ = netip.AddrFromSlice(bs)
		}
		if !a.IsValid() || seen[a] {
			continue
		}
		seen[a] = true
		w.addrs = append(w.addrs, a)
	}
	// one 4-in-6 spelling of an IPv4 address of the pool
	for i := 1; i < len(w.addrs); i++ {
		if w.addrs[i].Is4() {
			w.addrs = append(w.addrs, netip.AddrFrom16(w.addrs[i].As16()))
			break
		}
	}
	for len(w.relays) < 5 {
		var a netip.Addr
		if rnd.Intn(2) == 0 {
			a = netip.AddrFrom4([4]byte{10, 128, byte(rnd.Intn(4)), byte(1 + rnd.Intn(250))})
		} else {
			a = netip.MustParseAddr(fmt.Sprintf("fd00:aa::%x", 1+rnd.Intn(4000)))
		}
		if seen[a] {
			continue
		}
		seen[a] = true
		w.relays = append(w.relays, a)
	}
	w.prefs = [][]netip.Prefix{{}}
	for p := 1; p <= 3; p++ {
		var ps []netip.Prefix
		for k := 0; k <= rnd.Intn(2); k++ {
			switch rnd.Intn(6) {
			case 0:
				ps = append(ps, netip.MustParsePrefix("0.0.0.0/0"))
			case 1:
				ps = append(ps, netip.MustParsePrefix("::/0"))
			default:
				a := w.addrs[1+rnd.Intn(len(w.addrs)-1)].Unmap()
				bits := []int{8, 12, 16, 24, 32}[rnd.Intn(5)]
				if !a.Is4() {
					bits = []int{7, 16, 64, 128}[rnd.Intn(4)]
				}
				pf, _ := a.Prefix(bits)
				ps = append(ps, pf)
			}
		}
		w.prefs = append(w.prefs, ps)
	}
	w.finish()
	tab := w.table()
	tr.Event(map[string]any{"ev": "reset", "tab": tab})

	c := c37NewList(w)
	c.extra = func(what string, detail any) {
		res.Mismatch("trace:"+what, "ForEach/Len disagree with CopyAddrs", detail)
	}
	nA := len(w.addrs) - 1
	randAP := func() int { return (1+rnd.Intn(nA))*10 + 1 + rnd.Intn(2) }
	canonAP := func() int { x := randAP(); return tab.Canon[x/10-1]*10 + x%10 }
	randList := func(max int) []int {
		l := make([]int, rnd.Intn(max+1))
		for i := range l {
			if i > 0 && rnd.Intn(5) == 0 {
				l[i] = l[rnd.Intn(i)]
			} else {
				l[i] = randAP()
			}
		}
		return l
	}
	emit := func(op ...any) {
		b, _ := json.Marshal(op)
		var raw []json.RawMessage
		json.Unmarshal(b, &raw)
		c.apply(op[0].(string), raw[1:])
		tr.Event(map[string]any{"ev": "op", "op": op})
		res.Hit("T:" + op[0].(string))
	}
	// every third history is about static-host style owners: their caches are built by prepends and learned addresses
	// (only the family that is needed), seldom by lighthouse messages, and they are reset more often
	staticStyle := rnd.Intn(3) == 0
	for s := 0; s < events; s++ {
		r := rnd.Intn(100)
		if staticStyle && r < 22 && rnd.Intn(8) > 0 {
			r = []int{42, 42, 48}[rnd.Intn(3)] // prepend, prepend, reset
		}
		switch {
		case r < 22:
			emit("rep", 1+rnd.Intn(2), randList(map[bool]int{true: 13, false: 6}[rnd.Intn(4) == 0]))
		case r < 34:
			emit("learn", 1+rnd.Intn(2), randAP())
		case r < 42:
			l := make([]int, rnd.Intn(map[bool]int{true: 13, false: 5}[rnd.Intn(5) == 0]))
			for i := range l {
				l[i] = 1 + rnd.Intn(len(w.relays)-1)
			}
			emit("relay", 1+rnd.Intn(2), l)
		case r < 48:
			emit("prepend", 1+rnd.Intn(2), randAP())
		case r < 52:
			emit("reset", 1+rnd.Intn(2))
		case r < 60:
			l := make([]int, rnd.Intn(4))
			for i := range l {
				l[i] = canonAP()
			}
			emit("dns", l)
		case r < 70:
			emit("block", canonAP())
		case r < 76 && withUnblock:
			emit("unblock")
		default:
			p := rnd.Intn(4)
			addrs, relays := c.rebuild(p)
			tr.Event(map[string]any{"ev": "rebuild", "p": p, "addrs": addrs, "relays": relays})
			res.Hit("T:rebuild")
			// the family arrangement of relays is compared across all runs here (the trace spec accepts either)
			if cls := ro.check(relays, relays, &tab); cls == "family-arrangement-unstable" {
				res.Mismatch("trace:relays:"+cls, fmt.Sprintf("relays %v", relays), nil)
			}
		}
	}
	p := rnd.Intn(4)
	addrs, relays := c.rebuild(p)
	tr.Event(map[string]any{"ev": "rebuild", "p": p, "addrs": addrs, "relays": relays})
}
