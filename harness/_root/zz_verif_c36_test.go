package nebula

// C36 — unusable underlay addresses are never used.
// Binding of spec/Lighthouse.tla (mode C36R) to a real LightHouse / RemoteList / RemoteAllowList / Punchy / HostInfo.
//
//  R: c36r.ndjson — histories of four events: every source (lighthouse answers of two lighthouses, host updates,
//     lighthouse punch requests, addresses learned from a handshake and from roaming, resolver results, calculated
//     remotes; static_host_map at start-up) offering every class of address (allowed, inside my overlay networks v4/v6,
//     denied globally, denied for the peer's range, marked bad, more than ten), a second source, a block / delete, a third
//     source.  After every event the destinations are observed: CopyAddrs / ForEach / keep-alive punches to all remotes
//     (handshake, probe), the tunnel's current remote (data), the datagrams written by the punch scheduler (punch).
//     Encoding: the IPv4 classes are offered once more spelled as IPv4-mapped entries of V6AddrPorts (ids > 100, lhUnder);
//     an address is judged by what it is, destinations are compared after unmapping (at the socket ::ffff:a.b.c.d IS
//     a.b.c.d).  A second node configuration (in.sm) spells static_host_map literals as IPv4-mapped addresses.
//  T: seeded random event sequences of length 12, checked against the statement only (classes computed by the harness
//     from the node's configuration with its own prefix arithmetic).

import (
	"encoding/json"
	"fmt"
	"net/netip"
	"reflect"
	"sort"
	"testing"
)

type c36Dest struct {
	Hs    []int `json:"hs"`
	Probe []int `json:"probe"`
	Data  int   `json:"data"`
}

type c36Step struct {
	Punches []int          `json:"punches"`
	Dest    lhMap[c36Dest] `json:"dest"`
	View    lhView         `json:"view"`
	Ok      bool           `json:"ok"`
}

type c36Vec struct {
	In struct {
		Am  bool                `json:"am"`
		Sm  bool                `json:"sm"` // static_host_map with IPv4-mapped literals
		Evs [][]json.RawMessage `json:"evs"`
	} `json:"in"`
	Exp []c36Step `json:"exp"`
}

var c36Peers = []string{"P1", "P2", "P3"}
var c36Statics = map[string][]int{"L1": {31}, "L2": {32}, "P2": {33, 4, 6, 7, 3, 44}, "P3": {34, 7, 5, 8, 44, 46}}
var c36StaticsM = map[string][]int{"L1": {31}, "L2": {32}, "P2": {33, 4, 6, 7, 3, 44, 140, 141, 142}, "P3": {34, 7, 5, 8, 44, 46, 139, 143}}

type c36World struct {
	t       *testing.T
	n       *lhNode
	f       *Interface
	hi      map[string]*HostInfo
	blocked map[string]map[int]bool
	pref    []netip.Prefix
	statics map[string][]int
	// per peer: addresses (unmapped ids) that some source offered in the plain / in the IPv4-mapped spelling
	plain, mapped map[string]map[int]bool
}

func c36NewWorld(t *testing.T, am bool, sm bool) *c36World {
	st := c36Statics
	if sm {
		st = c36StaticsM
	}
	n := lhNewNode(t, lhNodeCfg{Am: am, Lhs: []string{"L1", "L2"}, Statics: st, C36: true})
	w := &c36World{t: t, n: n, f: &Interface{lightHouse: n.lh, l: n.l}, hi: map[string]*HostInfo{}, blocked: map[string]map[int]bool{},
		pref: n.hm.GetPreferredRanges(), statics: st, plain: map[string]map[int]bool{}, mapped: map[string]map[int]bool{}}
	for p, ids := range st {
		w.offered(p, ids)
	}
	return w
}

func (w *c36World) offered(p string, ids []int) {
	for _, x := range ids {
		m := w.plain
		if x > lhMappedBase {
			m, x = w.mapped, x-lhMappedBase
		}
		if m[p] == nil {
			m[p] = map[int]bool{}
		}
		m[p][x] = true
	}
}

func (w *c36World) hostinfo(p string) *HostInfo {
	if h, ok := w.hi[p]; ok {
		return h
	}
	a := lhOverlay[p]
	h := &HostInfo{vpnAddrs: []netip.Addr{a}, remotes: w.n.lh.QueryCache([]netip.Addr{a})}
	w.hi[p] = h
	return h
}

func c36Split(ids []int) (v4, v6 []int) {
	v4, v6 = []int{}, []int{}
	for _, x := range ids {
		if lhUnder(x).Addr().Is4() {
			v4 = append(v4, x)
		} else {
			v6 = append(v6, x)
		}
	}
	return
}

// do performs one event on the real objects.
func (w *c36World) do(ev []json.RawMessage) {
	n := w.n
	kind := vStr(ev[0])
	switch kind {
	case "reply", "punch":
		w.offered(vStr(ev[2]), vInts(ev[3]))
		v4, v6 := c36Split(vInts(ev[3]))
		n.handle(&lhMsg{From: []string{vStr(ev[1])}, T: map[string]string{"reply": "QueryReply", "punch": "Punch"}[kind], Cl: vStr(ev[2]), Enc: 2, V4: v4, V6: v6})
	case "update":
		w.offered(vStr(ev[1]), vInts(ev[2]))
		v4, v6 := c36Split(vInts(ev[2]))
		n.handle(&lhMsg{From: []string{vStr(ev[1])}, T: "Update", Cl: vStr(ev[1]), Enc: 2, V4: v4, V6: v6})
	case "learn":
		// what the handshake code does with the address a completed handshake came from (handshake_manager.go):
		// remote allow list over all of the peer's addresses, then HostInfo.SetRemote
		h := w.hostinfo(vStr(ev[1]))
		x := lhUnder(vInt(ev[2]))
		w.offered(vStr(ev[1]), []int{vInt(ev[2])})
		if n.lh.GetRemoteAllowList().AllowAll(h.vpnAddrs, x.Addr()) {
			h.SetRemote(x)
		}
	case "roam":
		w.offered(vStr(ev[1]), []int{vInt(ev[2])})
		w.f.handleHostRoaming(w.hostinfo(vStr(ev[1])), ViaSender{UdpAddr: lhUnder(vInt(ev[2]))})
	case "calc":
		n.lh.addCalculatedRemotes(lhOverlay[vStr(ev[1])])
	case "dns":
		rl := n.lh.QueryCache([]netip.Addr{lhOverlay[vStr(ev[1])]})
		w.offered(vStr(ev[1]), vInts(ev[2]))
		m := map[netip.AddrPort]struct{}{}
		for _, x := range vInts(ev[2]) {
			m[lhUnder(x)] = struct{}{}
		}
		rl.Lock()
		if rl.hr == nil {
			rl.Unlock()
			w.t.Fatalf("verif: dns event for a host without resolver results")
		}
		rl.hr.ips.Store(&m)
		rl.shouldRebuild = true // the resolver's onUpdate callback
		rl.Unlock()
	case "block":
		p := vStr(ev[1])
		w.hostinfo(p).remotes.BlockRemote(ViaSender{UdpAddr: lhUnder(vInt(ev[2]))})
		if w.blocked[p] == nil {
			w.blocked[p] = map[int]bool{}
		}
		w.blocked[p][vInt(ev[2])] = true
	case "delete":
		p := vStr(ev[1])
		n.lh.DeleteVpnAddrs([]netip.Addr{lhOverlay[p]})
		if _, static := c36Statics[p]; !static {
			delete(w.hi, p) // the tunnel is gone; a new one starts from a fresh QueryCache
			delete(w.blocked, p)
		}
	case "none", "static": // "static": the state after start-up is observed
	default:
		w.t.Fatalf("verif: unknown event %s", kind)
	}
}

type c36Obs struct {
	// destinations (per peer; "" = the punch socket) that were observed in the IPv4-mapped spelling
	spelled   map[string]map[int]bool
	punches   []int
	dest      map[string]c36Dest
	keepalive map[string][]int
	foreach   map[string][]int
}

func c36SortedSet(ids []int) []int {
	m := map[int]bool{}
	out := []int{}
	for _, x := range ids {
		if !m[x] {
			m[x] = true
			out = append(out, x)
		}
	}
	sort.Ints(out)
	return out
}

func (w *c36World) observe() c36Obs {
	n := w.n
	e := n.settle()
	o := c36Obs{punches: e.Punches, dest: map[string]c36Dest{}, keepalive: map[string][]int{}, foreach: map[string][]int{},
		spelled: map[string]map[int]bool{"": e.PunchMapped}}
	for _, p := range c36Peers {
		d := c36Dest{Hs: []int{}, Probe: []int{}}
		sp := map[int]bool{}
		o.spelled[p] = sp
		back := func(a netip.AddrPort) int {
			id := lhUnderBack(a)
			if a.Addr().Is4In6() {
				sp[id] = true
			}
			return id
		}
		n.lh.RLock()
		rl := n.lh.addrMap[lhOverlay[p]]
		n.lh.RUnlock()
		if rl != nil {
			for _, a := range rl.CopyAddrs(w.pref) {
				d.Hs = append(d.Hs, back(a))
			}
			fe := []int{}
			rl.ForEach(w.pref, func(a netip.AddrPort, preferred bool) {
				fe = append(fe, back(a))
				if preferred {
					d.Probe = append(d.Probe, back(a))
				}
			})
			o.foreach[p] = c36SortedSet(fe)
		}
		if h, ok := w.hi[p]; ok {
			if r := h.GetRemote(); r.IsValid() {
				d.Data = back(r)
			}
			// keep-alive punches go to every remote of the tunnel (punchy.target_all_remotes)
			n.punchy.SendPunch(h)
			n.conn.mu.Lock()
			ka := []int{}
			for _, a := range n.conn.writes {
				ka = append(ka, back(a))
			}
			n.conn.writes = nil
			n.conn.mu.Unlock()
			o.keepalive[p] = c36SortedSet(ka)
		}
		d.Hs, d.Probe = c36SortedSet(d.Hs), c36SortedSet(d.Probe)
		o.dest[p] = d
	}
	return o
}

func c36Eq(a, b []int) bool {
	if len(a) != len(b) {
		return false
	}
	for i := range a {
		if a[i] != b[i] {
			return false
		}
	}
	return true
}

func c36DropEmpty(v lhView) lhView {
	out := lhView{}
	for k, cells := range lhNormView(v) {
		if len(cells) > 0 {
			out[k] = cells
		}
	}
	return out
}

// judge applies the statement to what was observed; returns true when a violation was recorded.
func (w *c36World) judge(res *vResult, o c36Obs, evKind string, evPeer string, detail map[string]any) bool {
	bad := false
	use := func(dest, p string, ids []int) {
		for _, x := range ids {
			cls := "ok"
			if x < 0 {
				cls = "unknown-address"
			} else {
				cls = lhClass(lhOverlay[p], lhUnder(x).Addr())
				if cls == "ok" && dest != "punch" && dest != "data" && w.blocked[p][x] {
					cls = "blockedBad"
				}
			}
			if cls != "ok" {
				// the spelling the address travelled in names the input class
				how := ""
				sock := p
				if dest == "punch" {
					sock = ""
				}
				if x > 0 && (o.spelled[sock][x] || (w.mapped[p][x] && !w.plain[p][x])) {
					cls += "-v4mapped"
					how = ", offered spelled as the IPv4-mapped IPv6 address ::ffff:" + lhUnder(x).Addr().String()
				}
				res.Mismatch(fmt.Sprintf("dest:%s:%s:via-%s", dest, cls, evKind),
					fmt.Sprintf("underlay address %s (%s for %s%s) is used as a %s destination after a %q event", lhUnder(max(x, 1)), cls, p, how, dest, evKind), detail)
				bad = true
			}
		}
	}
	for _, p := range c36Peers {
		d := o.dest[p]
		use("handshake", p, d.Hs)
		use("handshake", p, o.foreach[p])
		use("probe", p, d.Probe)
		use("keepalive-punch", p, o.keepalive[p])
		if d.Data != 0 {
			use("data", p, []int{d.Data})
		}
	}
	if len(o.punches) > 0 {
		use("punch", evPeer, o.punches)
	}
	// at most ten reported entries per owner and family
	view, _ := w.n.view()
	for k, cells := range view {
		for owner, c := range cells {
			if len(c.V4) > MaxRemotes || len(c.V6) > MaxRemotes || len(c.Rel) > MaxRemotes {
				res.Mismatch("cap:via-"+evKind, fmt.Sprintf("%d/%d reported v4/v6 entries for %s owned by %s", len(c.V4), len(c.V6), k, owner), detail)
				bad = true
			}
		}
	}
	// static hosts keep their (usable) configured addresses
	for _, p := range c36Peers {
		for _, x := range w.statics[p] {
			if x > lhMappedBase {
				x -= lhMappedBase // the configured address is the one the literal spells
			}
			if lhClass(lhOverlay[p], lhUnder(x).Addr()) != "ok" || w.blocked[p][x] {
				continue
			}
			found := false
			for _, y := range o.dest[p].Hs {
				found = found || y == x
			}
			if !found {
				res.Mismatch("static-lost:via-"+evKind, fmt.Sprintf("configured address %s of static host %s is no longer a candidate after a %q event", lhUnder(x), p, evKind), detail)
				bad = true
			}
		}
	}
	return bad
}

// c36HitClasses counts the (source, class) pairs offered in the IPv4-mapped spelling.
func c36HitClasses(res *vResult, ev []json.RawMessage) {
	kind := vStr(ev[0])
	var p string
	var ids []int
	switch kind {
	case "reply", "punch":
		p, ids = vStr(ev[2]), vInts(ev[3])
	case "update":
		p, ids = vStr(ev[1]), vInts(ev[2])
	default:
		return
	}
	for _, x := range ids {
		if x > lhMappedBase {
			res.Hit("mapped:" + kind + ":" + lhClass(lhOverlay[p], lhUnder(x).Addr()))
		}
	}
}

func c36EvPeer(ev []json.RawMessage) string {
	switch vStr(ev[0]) {
	case "reply", "punch":
		return vStr(ev[2])
	case "none", "static":
		return ""
	}
	return vStr(ev[1])
}

func TestVerif_C36(t *testing.T) {
	res := vNewResult()
	defer res.Write(t)
	drift := []any{}

	// ---------------------------------------------------------------- R
	nv := 0
	vReadNDJSON(t, "c36r.ndjson", func(line []byte) {
		var v c36Vec
		if err := json.Unmarshal(line, &v); err != nil {
			t.Fatalf("vector: %v: %s", err, line)
		}
		nv++
		res.Case(string(line))
		if nv%700 == 1 {
			res.Sample(json.RawMessage(append([]byte(nil), line...)))
		}
		lhBubble(t, func(t *testing.T) {
			w := c36NewWorld(t, v.In.Am, v.In.Sm)
			defer w.n.close()
			if v.In.Sm {
				res.Hit("static:v4mapped-literals")
			}
			for si, ev := range v.In.Evs {
				kind := vStr(ev[0])
				w.do(ev)
				o := w.observe()
				res.Hit("ev:" + kind)
				view, _ := w.n.view()
				c36HitClasses(res, ev)
				detail := map[string]any{"am_lighthouse": v.In.Am, "static_host_map_v4mapped_literals": v.In.Sm, "events": v.In.Evs[:si+1], "step": si, "observed_destinations": o.dest,
					"observed_punches": o.punches, "observed_keepalive_punches": o.keepalive, "specified_destinations": v.Exp[si].Dest,
					"specified_punches": v.Exp[si].Punches}
				if w.judge(res, o, kind, c36EvPeer(ev), detail) {
					return
				}
				// the machine
				same := c36Eq(c36SortedSet(o.punches), c36SortedSet(v.Exp[si].Punches)) &&
					reflect.DeepEqual(c36DropEmpty(view), c36DropEmpty(v.Exp[si].View))
				for _, p := range c36Peers {
					e := v.Exp[si].Dest[p]
					d := o.dest[p]
					same = same && c36Eq(d.Hs, c36SortedSet(e.Hs)) && c36Eq(d.Probe, c36SortedSet(e.Probe)) && d.Data == e.Data &&
						c36Eq(o.foreach[p], d.Hs)
					if ka, ok := o.keepalive[p]; ok {
						same = same && c36Eq(ka, d.Hs)
					}
					if len(d.Hs) > 0 {
						res.Hit("dest:handshake")
					}
					if len(d.Probe) > 0 {
						res.Hit("dest:probe")
					}
					if d.Data != 0 {
						res.Hit("dest:data")
					}
				}
				if len(o.punches) > 0 {
					res.Hit("dest:punch")
				}
				if !same {
					detail["observed_cache"] = c36DropEmpty(view)
					detail["specified_cache"] = c36DropEmpty(v.Exp[si].View)
					if len(drift) < 5 {
						drift = append(drift, detail)
					}
					res.Hit("drift")
					return
				}
			}
		})
	})

	// ---------------------------------------------------------------- T (statement only)
	rnd := vRand()
	traces := 60
	if !vQuick() {
		traces = 600
	}
	srcs := []string{"reply", "reply", "update", "punch", "learn", "roam", "dns", "calc", "block", "delete"}
	pool := []int{1, 2, 3, 4, 5, 6, 7, 8, 9, 40, 41, 42, 43, 44, 44, 45, 46, 7, 11, 12, 13, 14, 15, 16, 17, 18, 19, 20, 21, 22}
	// IPv4 addresses of every class spelled as IPv4-mapped entries of V6AddrPorts (lighthouse messages only)
	mpool := []int{101, 102, 104, 106, 107, 109, 140, 141, 142, 143, 145}
	for i := 0; i < traces; i++ {
		am := rnd.Intn(2) == 0
		lhBubble(t, func(t *testing.T) {
			w := c36NewWorld(t, am, false)
			defer w.n.close()
			var evs [][]json.RawMessage
			for s := 0; s < 12; s++ {
				kind := srcs[rnd.Intn(len(srcs))]
				p := c36Peers[rnd.Intn(3)]
				list := make([]int, rnd.Intn(14))
				for k := range list {
					list[k] = pool[rnd.Intn(len(pool))]
				}
				one := pool[rnd.Intn(len(pool))]
				if kind == "reply" || kind == "punch" || kind == "update" {
					for k := range list {
						if rnd.Intn(4) == 0 {
							list[k] = mpool[rnd.Intn(len(mpool))]
						}
					}
				}
				var ev []any
				switch kind {
				case "reply", "punch":
					ev = []any{kind, []string{"L1", "L2", "P2"}[rnd.Intn(3)], p, list}
				case "update":
					ev = []any{kind, p, list}
				case "learn", "roam":
					// a datagram whose source lies inside my overlay networks never reaches a tunnel (outside.go)
					for lhClass(netip.Addr{}, lhUnder(one).Addr()) == "inOverlay" {
						one = pool[rnd.Intn(len(pool))]
					}
					ev = []any{kind, p, one}
				case "dns":
					if p == "P1" {
						p = "P2"
					}
					ev = []any{kind, p, list}
				case "calc":
					ev = []any{kind, "P1"}
				case "block":
					ev = []any{kind, p, one}
				case "delete":
					ev = []any{kind, p}
				}
				b, _ := json.Marshal(ev)
				var raw []json.RawMessage
				json.Unmarshal(b, &raw)
				evs = append(evs, raw)
				w.do(raw)
				o := w.observe()
				res.Hit("T:" + kind)
				detail := map[string]any{"am_lighthouse": am, "events": evs, "observed_destinations": o.dest, "observed_punches": o.punches,
					"observed_keepalive_punches": o.keepalive}
				if w.judge(res, o, kind, c36EvPeer(raw), detail) {
					return
				}
			}
			res.Traces++
			res.Case(fmt.Sprintf("T/%d", i))
		})
	}
	res.Extra["drift"] = drift
}
