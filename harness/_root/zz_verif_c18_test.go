package nebula

// C18 — tracked flows are per tuple and expire when idle.  Binding of spec/Conntrack.tla to firewall.go.
//
//  R: every edge of TLC's state graph (design with the expiry check, no reloads) is replayed on a real Firewall
//     inside a testing/synctest bubble (Sleep = time.Sleep on the virtual clock, Pkt = Firewall.Drop), under
//     tuple maps in which the model's flows differ in exactly one component of the key.  Verdict rule:
//     a packet may pass only if the reference permits it (`may`); a tour is left when the code refuses a
//     packet the model's machine would have passed (permitted by the statement).
//  T: seeded random timed histories (several flows and peers, idle gaps around every timeout and of "1 h",
//     with and without unrelated churn) are recorded and validated by TLC against the reference layer.

import (
	"testing"
	"testing/synctest"
)

func TestVerif_C18(t *testing.T) {
	res := vNewResult()
	defer res.Write(t)
	var plan ctPlan
	vReadJSON(t, "c18_plan.json", &plan)
	synctest.Test(t, func(t *testing.T) {
		for _, g := range plan.Graphs {
			ctReplayGraph(t, res, g, false)
		}
		ctTraces(t, res, plan, "C18")
	})
}
