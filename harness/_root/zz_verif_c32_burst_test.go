//go:build linux && !android

package nebula

// C32 (queue bound, release on completion) at OBJECT level when a tun read is a TSO/USO superpacket.
// Binding of spec/HsManager.tla's TunSend / TunSendBurst / RecvHs2 through the vectors of spec/Vec_HsBurst.tla.
//
// Per vector (pat, fill, k, ok; q = the queue HsManager.tla holds after the burst, released = how many packets its
// RecvHs2 emits) and per kind of read (plain datagram, TSO superpacket, USO superpacket):
//   a real Interface + HandshakeManager + Firewall (outbound: only destination port 80 allowed) + PKI;
//   `fill` single datagrams and then ONE read of k segments go through the real consumeInsidePacket (which cuts the
//   superpacket with the real tio.SegmentSuperpacket); every inside packet carries a serial number in its payload.
//   Observed 1: the pending handshake's packet store (length, serial numbers in order).
//   Then the handshake is completed by the REAL path: handleOutbound builds stage 0, a real responder machine (peer
//   certificate of the same CA) answers it, continueHandshake processes the answer, completes the tunnel and releases
//   the store through sendMessageNow (outbound firewall) to a recording udp.Conn.
//   Observed 2: the datagrams written, opened with the responder's keys: serial numbers in order.
// Both are compared with the model: store = q (at most MaxQueue packets, first come first kept); released = the
// queued packets the firewall allows, each once, in order.

import (
	"context"
	"encoding/binary"
	"encoding/json"
	"fmt"
	"io"
	"log/slog"
	"net/netip"
	"testing"
	"time"

	"github.com/gaissmai/bart"
	"github.com/rcrowley/go-metrics"
	"github.com/slackhq/nebula/cert"
	"github.com/slackhq/nebula/cert_test"
	"github.com/slackhq/nebula/config"
	"github.com/slackhq/nebula/firewall"
	"github.com/slackhq/nebula/handshake"
	"github.com/slackhq/nebula/header"
	"github.com/slackhq/nebula/noiseutil"
	"github.com/slackhq/nebula/overlay/tio"
	"github.com/slackhq/nebula/udp"
)

type c32bVec struct {
	Pat      string `json:"pat"`
	Fill     int    `json:"fill"`
	K        int    `json:"k"`
	Ok       bool   `json:"ok"`
	Q        []bool `json:"q"`
	Released int    `json:"released"`
	MaxQueue int    `json:"maxqueue"`
}

var (
	c32bMe      = netip.MustParseAddr("10.1.1.1")
	c32bPeer    = netip.MustParseAddr("10.1.1.2")
	c32bPeerUDP = netip.MustParseAddrPort("192.0.2.2:4242")
)

const (
	c32bAllowPort = 80
	c32bDenyPort  = 81
	c32bSeg       = 100 // payload bytes per segment
)

type c32bShared struct {
	l      *slog.Logger
	pool   *cert.CAPool
	myCS   *CertState
	peerCS *CertState
	myCert cert.Certificate
}

func c32bNewShared(t testing.TB) *c32bShared {
	before, after := time.Now().Add(-time.Hour), time.Now().Add(24*time.Hour)
	sh := &c32bShared{l: slog.New(slog.NewTextHandler(io.Discard, nil))}
	ca, _, caKey, _ := cert_test.NewTestCaCert(cert.Version2, cert.Curve_CURVE25519, before, after, nil, nil, nil)
	mk := func(name string, a netip.Addr) (*CertState, cert.Certificate) {
		c, _, privPEM, _ := cert_test.NewTestCert(cert.Version2, cert.Curve_CURVE25519, ca, caKey, name, before, after,
			[]netip.Prefix{netip.PrefixFrom(a, 24)}, nil, nil)
		raw, _, curve, err := cert.UnmarshalPrivateKeyFromPEM(privPEM)
		if err != nil {
			t.Fatalf("c32b: key: %v", err)
		}
		cs, err := newCertState(cert.Version2, nil, c, false, curve, raw, "aes")
		if err != nil {
			t.Fatalf("c32b: newCertState: %v", err)
		}
		return cs, c
	}
	sh.myCS, sh.myCert = mk("me", c32bMe)
	sh.peerCS, _ = mk("peer", c32bPeer)
	sh.pool = cert.NewCAPool()
	if err := sh.pool.AddCA(ca); err != nil {
		t.Fatalf("c32b: %v", err)
	}
	return sh
}

// c32bConn records what is written to the underlay.
type c32bConn struct {
	udp.NoopConn
	writes [][]byte
	to     []netip.AddrPort
}

func (c *c32bConn) WriteTo(b []byte, addr netip.AddrPort) error {
	c.writes = append(c.writes, append([]byte(nil), b...))
	c.to = append(c.to, addr)
	return nil
}

type c32bWorld struct {
	f    *Interface
	hm   *HandshakeManager
	conn *c32bConn
	fw   *firewall.ParsedPacket
	nb   []byte
	rej  []byte
}

func c32bNewWorld(t testing.TB, sh *c32bShared) *c32bWorld {
	l := sh.l
	mainHM := newHostMap(l)
	pr := []netip.Prefix{}
	mainHM.preferredRanges.Store(&pr)
	lh := newTestLighthouse()
	lh.l = l
	lh.remoteAllowList.Store(&RemoteAllowList{})
	conn := &c32bConn{}
	hm := NewHandshakeManager(l, mainHM, lh, conn, defaultHandshakeConfig)

	myAddrs := new(bart.Lite)
	myAddrs.Insert(netip.PrefixFrom(c32bMe, 32))
	myNetworks := new(bart.Lite)
	myNetworks.Insert(netip.MustParsePrefix("10.1.1.0/24"))

	fw := NewFirewall(l, time.Minute, time.Minute, time.Minute, sh.myCert)
	if err := fw.AddRule(false, firewall.ProtoAny, c32bAllowPort, c32bAllowPort, nil, "any", "", "", "", ""); err != nil {
		t.Fatalf("c32b: AddRule: %v", err)
	}
	pki := &PKI{l: l}
	pki.cs.Store(sh.myCS)
	pki.caPool.Store(sh.pool)

	f := &Interface{
		l:                     l,
		handshakeManager:      hm,
		hostMap:               mainHM,
		lightHouse:            lh,
		pki:                   pki,
		firewall:              fw,
		outside:               conn,
		writers:               []udp.Conn{conn},
		myVpnAddrsTable:       myAddrs,
		myVpnNetworksTable:    myNetworks,
		myBroadcastAddrsTable: new(bart.Lite),
		messageMetrics:        newMessageMetrics(),
		metricHandshakes:      metrics.NewHistogram(metrics.NewUniformSample(16)),
		relayManager:          NewRelayManager(context.Background(), l, mainHM, config.NewC(l)),
		cachedPacketMetrics:   &cachedPacketMetrics{sent: metrics.NewCounter(), dropped: metrics.NewCounter()},
	}
	hm.f = f
	return &c32bWorld{f: f, hm: hm, conn: conn, fw: &firewall.ParsedPacket{}, nb: make([]byte, 12), rej: make([]byte, mtu)}
}

// c32bPacket builds an IPv4 TCP or UDP datagram me -> peer whose payload consists of len(serials) chunks of c32bSeg
// bytes (the last one `tail` bytes), each starting with its serial number.
func c32bPacket(tcp bool, dport uint16, serials []uint32, tail int) []byte {
	l4 := 8
	if tcp {
		l4 = 20
	}
	payLen := (len(serials)-1)*c32bSeg + tail
	pkt := make([]byte, 20+l4+payLen)
	pkt[0] = 0x45
	binary.BigEndian.PutUint16(pkt[2:4], uint16(len(pkt)))
	binary.BigEndian.PutUint16(pkt[4:6], 0x4242)
	pkt[8] = 64
	s, d := c32bMe.As4(), c32bPeer.As4()
	copy(pkt[12:16], s[:])
	copy(pkt[16:20], d[:])
	binary.BigEndian.PutUint16(pkt[20:22], 12345)
	binary.BigEndian.PutUint16(pkt[22:24], dport)
	if tcp {
		pkt[9] = 6
		binary.BigEndian.PutUint32(pkt[24:28], 10000)
		binary.BigEndian.PutUint32(pkt[28:32], 20000)
		pkt[32] = 0x50
		pkt[33] = 0x18
		binary.BigEndian.PutUint16(pkt[34:36], 65535)
	} else {
		pkt[9] = 17
		binary.BigEndian.PutUint16(pkt[24:26], uint16(8+payLen))
	}
	pay := pkt[20+l4:]
	for i := range pay {
		pay[i] = byte(i)
	}
	for i, sn := range serials {
		binary.BigEndian.PutUint32(pay[i*c32bSeg:], sn)
	}
	return pkt
}

// c32bSerial reads the serial number and the destination port back from an inside packet.
func c32bSerial(b []byte) (serial uint32, dport uint16, ok bool) {
	if len(b) < 20 || b[0]>>4 != 4 {
		return 0, 0, false
	}
	ihl := int(b[0]&0xf) * 4
	l4 := 8
	if b[9] == 6 {
		if len(b) < ihl+20 {
			return 0, 0, false
		}
		l4 = int(b[ihl+12]>>4) * 4
	}
	if len(b) < ihl+l4+4 || int(binary.BigEndian.Uint16(b[2:4])) != len(b) {
		return 0, 0, false
	}
	return binary.BigEndian.Uint32(b[ihl+l4:]), binary.BigEndian.Uint16(b[ihl+2:]), true
}

func c32bFlag(pat string, j int) bool {
	switch pat {
	case "allow":
		return true
	case "deny":
		return false
	default:
		return j%2 == 1
	}
}

func c32bPort(ok bool) uint16 {
	if ok {
		return c32bAllowPort
	}
	return c32bDenyPort
}

func c32bSeq(from, n int) []uint32 {
	out := make([]uint32, n)
	for i := range out {
		out[i] = uint32(from + i)
	}
	return out
}

func c32bEq(a, b []uint32) bool {
	if len(a) != len(b) {
		return false
	}
	for i := range a {
		if a[i] != b[i] {
			return false
		}
	}
	return true
}

func c32bShort(x []uint32) any {
	if len(x) > 12 {
		return fmt.Sprintf("%v ... %v (%d)", x[:6], x[len(x)-4:], len(x))
	}
	return x
}

func TestVerif_C32Burst(t *testing.T) {
	res := vNewResult()
	defer res.Write(t)
	sh := c32bNewShared(t)
	verifier := func(c cert.Certificate) (*cert.CachedCertificate, error) { return sh.pool.VerifyCertificate(time.Now(), c) }

	vReadNDJSON(t, "burst_vectors.ndjson", func(line []byte) {
		var v c32bVec
		if err := json.Unmarshal(line, &v); err != nil {
			t.Fatalf("vector: %v: %s", err, line)
		}
		if v.MaxQueue != maxCachedPackets {
			t.Fatalf("verif: Vec_HsBurst.cfg has MaxQueue = %d, the code's maxCachedPackets is %d", v.MaxQueue, maxCachedPackets)
		}
		kinds := []string{"tso", "uso"}
		if v.K == 1 {
			kinds = []string{"plain", "tso", "uso"}
		}
		cls := "room"
		switch {
		case v.Fill >= v.MaxQueue:
			cls = "full"
		case v.Fill+v.K > v.MaxQueue:
			cls = "crossing"
		}
		// the model's expectation in serial numbers: packets are numbered 1.. in the order they were read
		wantStore := c32bSeq(1, len(v.Q))
		var wantSent []uint32
		for j, ok := range v.Q {
			if ok {
				wantSent = append(wantSent, uint32(j+1))
			}
		}
		if len(wantSent) != v.Released {
			t.Fatalf("verif: vector inconsistent: %s", line)
		}
		for _, kind := range kinds {
			tcp := kind == "tso"
			res.Case(fmt.Sprintf("%s/%s", kind, line))
			res.Hit("burst")
			res.Hit("burst:" + kind)
			res.Hit("burst:" + cls)
			res.Hit(fmt.Sprintf("burst:k%d", v.K))
			if v.Ok {
				res.Hit("burst:firewall-allows-burst")
			} else {
				res.Hit("burst:firewall-denies-burst")
			}
			detail := map[string]any{"vector": json.RawMessage(append([]byte(nil), line...)), "kind": kind}
			w := c32bNewWorld(t, sh)
			started := false
			read := func(p tio.Packet) {
				w.f.consumeInsidePacket(p, w.fw, w.nb, nil, w.rej, 0, nil)
				if !started {
					started = true
					w.hm.handleOutbound(c32bPeer, false) // first attempt: stage 0 is built
				}
			}
			for j := 1; j <= v.Fill; j++ {
				read(tio.Packet{Bytes: c32bPacket(tcp, c32bPort(c32bFlag(v.Pat, j)), []uint32{uint32(j)}, c32bSeg)})
			}
			tail := c32bSeg
			if v.K > 1 {
				tail = 40
			}
			burst := tio.Packet{Bytes: c32bPacket(tcp, c32bPort(v.Ok), c32bSeq(v.Fill+1, v.K), tail)}
			switch kind {
			case "tso":
				burst.GSO = tio.GSOInfo{Size: c32bSeg, HdrLen: 40, CsumStart: 20, Proto: tio.GSOProtoTCP}
			case "uso":
				burst.GSO = tio.GSOInfo{Size: c32bSeg, HdrLen: 28, CsumStart: 20, Proto: tio.GSOProtoUDP}
			}
			read(burst)

			// ---- observed 1: the packet store of the pending handshake
			hh := w.hm.queryVpnIp(c32bPeer)
			if hh == nil || hh.machine == nil {
				t.Fatalf("verif: no pending handshake with a stage-0 packet after the reads: %s", line)
			}
			var store []uint32
			bad := ""
			for i, cp := range hh.packetStore {
				sn, _, ok := c32bSerial(cp.packet)
				if !ok {
					bad = fmt.Sprintf("queued packet %d is not a well-formed inside packet", i+1)
				}
				store = append(store, sn)
			}
			detail["queued"], detail["specification_queue_length"] = len(store), len(wantStore)
			switch {
			case len(store) > v.MaxQueue:
				res.Mismatch(fmt.Sprintf("burst:queue-over-bound:%s:%s", cls, kind),
					fmt.Sprintf("after %d single packets and one %s read of %d segments the pending handshake holds %d queued packets, the bound is %d (specification: %d)",
						v.Fill, kind, v.K, len(store), v.MaxQueue, len(wantStore)), detail)
			case len(store) != len(wantStore):
				res.Mismatch(fmt.Sprintf("burst:queue-length:%s:%s", cls, kind),
					fmt.Sprintf("after %d single packets and one %s read of %d segments the pending handshake holds %d queued packets, specification %d",
						v.Fill, kind, v.K, len(store), len(wantStore)), detail)
			case bad != "" || !c32bEq(store, wantStore):
				res.Mismatch(fmt.Sprintf("burst:queue-content:%s:%s", cls, kind),
					fmt.Sprintf("queued packets are %v, specification %v %s", c32bShort(store), c32bShort(wantStore), bad), detail)
			}

			// ---- complete the handshake through the real continueHandshake
			msg1 := hh.hostinfo.HandshakePacket[handshakePacketStage0]
			respM, err := handshake.NewMachine(cert.Version2, sh.peerCS.GetCredential, verifier,
				func() (uint32, error) { return 4242, nil }, false, header.HandshakeIXPSK0)
			if err != nil {
				t.Fatalf("verif: responder machine: %v", err)
			}
			resp, respR, err := respM.ProcessPacket(nil, msg1)
			if err != nil || respR == nil {
				t.Fatalf("verif: responder: %v", err)
			}
			w.conn.writes, w.conn.to = nil, nil
			w.hm.continueHandshake(ViaSender{UdpAddr: c32bPeerUDP}, hh, resp)
			if w.hm.queryVpnIp(c32bPeer) != nil || w.f.hostMap.QueryVpnAddr(c32bPeer) == nil {
				t.Fatalf("verif: the handshake did not complete: %s", line)
			}
			res.Hit("burst:completed")

			// ---- observed 2: what was released, opened with the responder's keys
			dk := noiseutil.NewCipherState(respR.DKey, respR.Cipher)
			var sent []uint32
			bad = ""
			var lastCtr uint64
			for i, b := range w.conn.writes {
				var h header.H
				if err := h.Parse(b); err != nil || h.Type != header.Message || h.RemoteIndex != 4242 {
					bad = fmt.Sprintf("datagram %d is not a data message for the new tunnel", i+1)
					break
				}
				if w.conn.to[i] != c32bPeerUDP {
					bad = fmt.Sprintf("datagram %d sent to %v", i+1, w.conn.to[i])
				}
				if h.MessageCounter <= lastCtr {
					bad = fmt.Sprintf("datagram %d has counter %d after %d", i+1, h.MessageCounter, lastCtr)
				}
				lastCtr = h.MessageCounter
				pt, err := dk.DecryptDanger(nil, b[:header.Len], b[header.Len:], h.MessageCounter, make([]byte, 12))
				if err != nil {
					bad = fmt.Sprintf("datagram %d does not open under the tunnel keys: %v", i+1, err)
					break
				}
				sn, dport, ok := c32bSerial(pt)
				if !ok {
					bad = fmt.Sprintf("datagram %d does not carry a well-formed inside packet", i+1)
					break
				}
				if dport != c32bAllowPort {
					bad = fmt.Sprintf("datagram %d carries a packet the outbound firewall denies (port %d)", i+1, dport)
				}
				sent = append(sent, sn)
			}
			detail["released"], detail["specification_released"] = len(sent), len(wantSent)
			if len(sent) > 0 {
				res.Hit("burst:released")
			}
			if len(wantSent) < len(v.Q) {
				res.Hit("burst:release-filtered-by-firewall")
			}
			// what the specification releases GIVEN what was really queued cannot be told apart from a queue fault;
			// report release faults only when the queue agreed
			queueAgreed := c32bEq(store, wantStore)
			switch {
			case len(sent) > v.MaxQueue:
				res.Mismatch(fmt.Sprintf("burst:released-over-bound:%s:%s", cls, kind),
					fmt.Sprintf("completion released %d queued packets, the bound is %d", len(sent), v.MaxQueue), detail)
			case !queueAgreed:
			case bad != "":
				res.Mismatch(fmt.Sprintf("burst:release:%s", kind), "completion: "+bad, detail)
			case !c32bEq(sent, wantSent):
				res.Mismatch(fmt.Sprintf("burst:release-order-or-set:%s:%s", cls, kind),
					fmt.Sprintf("completion released packets %v, specification %v", c32bShort(sent), c32bShort(wantSent)), detail)
			}
		}
	})
}
