package nebula

// C45, call sites — the debug commands that write a file (start-cpu-profile, save-heap-profile, save-mutex-profile) are
// run with real directories: the process works in one directory, the sandbox is another one; whatever path the command
// is given (relative, absolute inside, escaping, absolute outside), every file that exists afterwards lies strictly
// inside the sandbox.  The expected verdicts (accept / refuse) are those of SshPath.tla for the same pairs.

import (
	"io"
	"io/fs"
	"os"
	"path/filepath"
	"runtime/pprof"
	"strings"
	"testing"

	"github.com/slackhq/nebula/sshd"
)

type c45W struct{ lines []string }

func (w *c45W) WriteLine(s string) error  { w.lines = append(w.lines, s); return nil }
func (w *c45W) Write(s string) error      { w.lines = append(w.lines, s); return nil }
func (w *c45W) WriteBytes(b []byte) error { w.lines = append(w.lines, string(b)); return nil }
func (w *c45W) GetWriter() io.Writer      { return io.Discard }

func TestVerif_C45Cmd(t *testing.T) {
	res := vNewResult()
	defer res.Write(t)
	root, err := filepath.EvalSymlinks(t.TempDir())
	if err != nil {
		t.Fatal(err)
	}
	sb, cwd := filepath.Join(root, "sandbox"), filepath.Join(root, "work")
	for _, d := range []string{sb, cwd, filepath.Join(sb, "sub")} {
		if err := os.MkdirAll(d, 0o755); err != nil {
			t.Fatal(err)
		}
	}
	old, _ := os.Getwd()
	if err := os.Chdir(cwd); err != nil {
		t.Fatal(err)
	}
	defer os.Chdir(old)
	cmds := map[string]func(string, any, []string, sshd.StringWriter) error{
		"start-cpu-profile":  sshStartCpuProfile,
		"save-heap-profile":  sshGetHeapProfile,
		"save-mutex-profile": sshGetMutexProfile,
	}
	paths := []struct {
		name, arg string
		inside    bool // SshPath.tla: resolves strictly inside the sandbox
	}{
		{"relative", "out.prof", true},
		{"relative-sub", "sub/out.prof", true},
		{"relative-dotdot-inside", "sub/../out2.prof", true},
		{"absolute-inside", filepath.Join(sb, "abs.prof"), true},
		{"relative-escape", "../esc.prof", false},
		{"relative-escape-deep", "sub/../../esc2.prof", false},
		{"absolute-outside", filepath.Join(cwd, "outside.prof"), false},
		{"absolute-sibling", sb + "x.prof", false},
	}
	listing := func() map[string]bool {
		out := map[string]bool{}
		_ = filepath.WalkDir(root, func(p string, d fs.DirEntry, err error) error {
			if err == nil && !d.IsDir() {
				out[p] = true
			}
			return nil
		})
		return out
	}
	for cname, cmd := range cmds {
		for _, p := range paths {
			before := listing()
			w := &c45W{}
			_ = cmd(sb, nil, []string{p.arg}, w)
			pprof.StopCPUProfile()
			res.Case(cname + "\x00" + p.name)
			res.Hit("cmd:" + cname)
			res.Hit("path:" + p.name)
			created := []string{}
			for f := range listing() {
				if !before[f] {
					created = append(created, f)
				}
			}
			detail := map[string]any{"command": cname, "argument": p.arg, "sandbox": sb, "working_directory": cwd, "created": created, "answer": w.lines}
			for _, f := range created {
				if !strings.HasPrefix(f, sb+string(filepath.Separator)) {
					res.Mismatch("command-writes-outside-sandbox:"+cname+":"+p.name, cname+" "+p.arg+" (sandbox "+sb+", working directory "+cwd+") created "+f+", which is not inside the sandbox", detail)
				} else {
					res.Hit("created-inside")
				}
			}
			if p.inside && len(created) == 0 {
				// not demanded by the statement (it speaks about the paths that ARE accepted): recorded only
				res.Hit("observation:command-creates-nothing-for-a-path-inside")
				res.Extra["observation:"+cname+":"+p.name] = detail
			}
			if !p.inside && len(created) == 0 {
				res.Hit("refused-outside")
			}
			for _, f := range created {
				_ = os.Remove(f)
			}
		}
	}
}
