package nebula

// C33 — timer wheel fires each item once, on time.  Binding of spec/TimerWheel.tla to timeout.go.
//
//  R: every edge of TLC's state graph of the small models is replayed on a real TimerWheel and a real
//     LockingTimerWheel with explicit `now`, under several concretisations of the model's time unit.
//     After every step the reference-level projection (items returnable now = the expired list, items
//     outstanding but not yet returnable = the slots) is compared as sets; Purge results are compared
//     as "some returnable item" (order of equal elements is mechanism).
//     The recycled-item cache (bounded freelist, timerCacheMax) is bound by SCALING: in the graph "cache" one model item
//     stands for a batch of timerCacheMax/CacheMax real items (Add = that many Adds of distinct values, Purge = that
//     many Purges), so that the model's cache count times the batch size IS the real itemsCached and both bounds of the
//     freelist (empty: new TimeoutItems; full: TimeoutItems dropped) are reached by the real wheel on the model's edges.
//  T: seeded random add/advance/purge histories on real wheels of several geometries (incl. gaps of
//     more than a revolution and the item cache at its limit) are recorded; TLC validates them against
//     the reference layer only (Trace_TimerWheel.tla).  Every fourth history contains an unrecorded burst of about
//     timerCacheMax items (large burst beyond the cache, drain, then single adds): the burst's own items are checked
//     for exactly-once by the harness, the recorded items around it by TLC.

import (
	"encoding/json"
	"fmt"
	"sort"
	"testing"
	"time"
)

type c33Plan struct {
	Graphs []struct {
		File     string `json:"file"`
		Name     string `json:"name"`
		Tick     int    `json:"tick"`
		Span     int    `json:"span"`
		CacheMax int    `json:"cacheMax"` // > 0: scaled binding of the item cache, one model item = timerCacheMax/CacheMax real items
		Units    int    `json:"units"`    // number of time units to replay under (0 = all)
	} `json:"graphs"`
	Groups []struct {
		File string `json:"file"`
		Tick int    `json:"tick"`
		Span int    `json:"span"`
	} `json:"groups"`
	Traces  int `json:"traces"`
	Events  int `json:"events"`
	MaxItem int `json:"maxItem"`
}

// the API under test
type c33Wheel interface {
	Add(v int, timeout time.Duration) *TimeoutItem[int]
	Advance(now time.Time)
	Purge() (int, bool)
}

func c33Inner(w c33Wheel) *TimerWheel[int] {
	switch x := w.(type) {
	case *TimerWheel[int]:
		return x
	case *LockingTimerWheel[int]:
		return x.t
	}
	return nil
}

// projection: items in the expired list, items in the slots (nil, nil, false when a list is corrupt)
func c33Project(w c33Wheel) (expired, pending []int, ok bool) {
	tw := c33Inner(w)
	walk := func(l *TimeoutList[int]) ([]int, bool) {
		var out []int
		n := 0
		for it := l.Head; it != nil; it = it.Next {
			out = append(out, it.Item)
			if n++; n > 1<<20 {
				return nil, false
			}
		}
		return out, true
	}
	expired, ok = walk(tw.expired)
	if !ok {
		return nil, nil, false
	}
	for _, s := range tw.wheel {
		p, ok2 := walk(s)
		if !ok2 {
			return nil, nil, false
		}
		pending = append(pending, p...)
	}
	sort.Ints(expired)
	sort.Ints(pending)
	return expired, pending, true
}

// projection of a wheel whose values are batches (value = model item + 8*j, j < m): the model items in the expired list and
// in the slots; bad != "" when a batch is split over both or is not complete (items lost or duplicated)
func c33ProjectBatch(w c33Wheel, m int) (expired, pending []int, ok bool, bad string) {
	tw := c33Inner(w)
	var ce, cp [8]int
	walk := func(l *TimeoutList[int], c *[8]int) bool {
		n := 0
		for it := l.Head; it != nil; it = it.Next {
			c[it.Item&7]++
			if n++; n > 1<<22 {
				return false
			}
		}
		return true
	}
	if !walk(tw.expired, &ce) {
		return nil, nil, false, ""
	}
	for _, s := range tw.wheel {
		if !walk(s, &cp) {
			return nil, nil, false, ""
		}
	}
	for i := 0; i < 8; i++ {
		if ce[i] > 0 {
			expired = append(expired, i)
		}
		if cp[i] > 0 {
			pending = append(pending, i)
		}
		if ce[i]+cp[i] != 0 && (ce[i]+cp[i] != m || (ce[i] != 0 && cp[i] != 0)) {
			bad = fmt.Sprintf("of the %d values of model item %d, %d are returnable and %d outstanding", m, i, ce[i], cp[i])
		}
	}
	return expired, pending, true, bad
}

func c33Unmarshal(m json.RawMessage, into any) {
	if err := json.Unmarshal(m, into); err != nil {
		panic(fmt.Sprintf("verif: cannot decode %s: %v", m, err))
	}
}

func c33Same(a, b []int) bool {
	if len(a) != len(b) {
		return false
	}
	for i := range a {
		if a[i] != b[i] {
			return false
		}
	}
	return true
}

type c33ModelW struct {
	Exp   []int            `json:"exp"`
	Slots map[string][]int `json:"slots"`
}

func (m c33ModelW) sets() (expired, pending []int) {
	expired = append([]int{}, m.Exp...)
	for _, s := range m.Slots {
		pending = append(pending, s...)
	}
	sort.Ints(expired)
	sort.Ints(pending)
	return
}

type c33Res struct {
	Has bool `json:"has"`
	V   int  `json:"v"`
}

// values of the unrecorded burst items of T histories (recorded items are 1..MaxItem)
const c33BurstBase = 1 << 20

func TestVerif_C33(t *testing.T) {
	res := vNewResult()
	defer res.Write(t)
	var plan c33Plan
	vReadJSON(t, "c33_plan.json", &plan)
	base := time.Date(2021, 3, 4, 5, 6, 7, 890, time.UTC)

	// ---------------------------------------------------------------- R
	type unit struct {
		d       time.Duration
		name    string
		locking bool
	}
	units := []unit{{1, "1ns", false}, {time.Millisecond, "1ms", true}, {time.Second + 7, "1s+7ns", false}}
	for _, g := range plan.Graphs {
		var gr vGraph
		vReadJSON(t, g.File, &gr)
		// decode the model wheels once
		mw := make([]c33ModelW, len(gr.States))
		mres := make([]c33Res, len(gr.States))
		for i, s := range gr.States {
			c33Unmarshal(s["w"], &mw[i])
			c33Unmarshal(s["res"], &mres[i])
		}
		// scaled binding of the item cache: m real items per model item
		m := 1
		if g.CacheMax > 0 {
			m = (timerCacheMax + g.CacheMax - 1) / g.CacheMax
		}
		gname := fmt.Sprintf("%d_%d", g.Tick, g.Span)
		if g.Name != "" {
			gname = g.Name
		}
		gunits := units
		if g.Units > 0 && g.Units < len(units) {
			gunits = units[:g.Units]
		}
		var outst [8][]bool // outst[i][j]: value i+8*j was added and not yet returned
		for i := range outst {
			outst[i] = make([]bool, m)
		}
		for _, u := range gunits {
			for ti, tour := range gr.Tours {
				var w c33Wheel
				if u.locking {
					w = NewLockingTimerWheel[int](time.Duration(g.Tick)*u.d, time.Duration(g.Span)*u.d)
				} else {
					w = NewTimerWheel[int](time.Duration(g.Tick)*u.d, time.Duration(g.Span)*u.d)
				}
				for i := range outst {
					clear(outst[i])
				}
				clock := 0
				class := "" // which path of the item cache the history has been through (from the model's action labels)
			steps:
				for si, ei := range tour {
					e := gr.Edges[ei]
					res.Hit(e.Act)
					res.Case(fmt.Sprintf("%s/%s/%d", g.File, u.name, ei))
					det := map[string]any{"graph": g.File, "unit": u.name, "tour": ti, "step": si, "edge": ei, "tour_edges": tour[:si+1],
						"tick": g.Tick, "span": g.Span, "clock": clock, "values_per_model_item": m}
					act := e.Act
					switch e.Act {
					case "Tick":
						clock += vInt(e.Args[0])
					case "Advance":
						w.Advance(base.Add(time.Duration(clock) * u.d))
					case "AddNew", "AddRecycled":
						act = "Add"
						if g.CacheMax > 0 {
							if c33Inner(w).itemsCached >= m {
								res.Hit("R:add-recycled-batch")
							} else if c33Inner(w).itemsCached == 0 {
								res.Hit("R:add-new-batch")
							}
						}
						i, to := vInt(e.Args[0]), time.Duration(vInt(e.Args[1]))*u.d
						for j := 0; j < m; j++ {
							w.Add(i+8*j, to)
							outst[i][j] = true
						}
					case "PurgeEmpty", "PurgeCache", "PurgeDrop":
						act = "Purge"
						want := mres[e.Dst]
						preExp, _ := mw[e.Src].sets()
						if g.CacheMax > 0 && c33Inner(w).itemsCached >= timerCacheMax {
							res.Hit("R:purge-cache-full")
							if len(preExp) == 1 {
								res.Hit("R:purge-cache-full-last")
							}
						}
						if e.Act == "PurgeDrop" && g.CacheMax > 0 {
							class = ":after-purge-with-full-cache"
						}
						det["cache_path"] = e.Act
						differs := false
						for j := 0; j < m; j++ {
							v, has := w.Purge()
							if has != want.Has {
								res.Mismatch(fmt.Sprintf("replay:Purge:has:%s%s", gname, class),
									fmt.Sprintf("Purge call %d of %d for one model Purge returned has=%v (value %d), specification has=%v (returnable items %v)",
										j+1, m, has, v, want.Has, preExp), det)
								break steps
							}
							if !has {
								break
							}
							it, k := v&7, v>>3
							in := false
							for _, x := range preExp {
								in = in || x == it
							}
							if !in || k >= m || !outst[it][k] {
								res.Mismatch(fmt.Sprintf("replay:Purge:item:%s%s", gname, class),
									fmt.Sprintf("Purge returned value %d (model item %d) which is not returnable or was returned before (returnable items %v)", v, it, preExp), det)
								break steps
							}
							outst[it][k] = false
							differs = differs || it != want.V
						}
						if differs {
							// another returnable item than the model's head: permitted, but the tour cannot be followed further
							res.Hit("R:purge-order-differs")
							break steps
						}
					default:
						t.Fatalf("unknown action %s", e.Act)
					}
					var gotE, gotP []int
					var ok bool
					bad := ""
					if m == 1 {
						gotE, gotP, ok = c33Project(w)
					} else {
						gotE, gotP, ok, bad = c33ProjectBatch(w, m)
					}
					wantE, wantP := mw[e.Dst].sets()
					if !ok {
						res.Mismatch(fmt.Sprintf("replay:corrupt-list:%s%s", gname, class), "a list of the wheel is cyclic after "+e.Act, det)
						break
					}
					if !c33Same(gotE, wantE) || !c33Same(gotP, wantP) || bad != "" {
						what := "early"
						if len(gotE) < len(wantE) {
							what = "late"
						}
						if len(gotE)+len(gotP) != len(wantE)+len(wantP) || bad != "" {
							what = "count"
						}
						res.Mismatch(fmt.Sprintf("replay:%s:%s:%s%s", act, what, gname, class),
							fmt.Sprintf("after %s at clock %d units: returnable %v outstanding %v, specification returnable %v outstanding %v %s",
								e.Act, clock, gotE, gotP, wantE, wantP, bad), det)
						break
					}
				}
			}
		}
		if len(gr.Tours) > 0 {
			res.Sample(map[string]any{"graph": g.File, "tour_as_edges": gr.Tours[len(gr.Tours)/2]})
		}
	}

	// ---------------------------------------------------------------- T
	rnd := vRand()
	tunits := []time.Duration{1, time.Microsecond, time.Millisecond, time.Second, 7919 * time.Microsecond}
	for gi, g := range plan.Groups {
		tr := vNewTracer(t, g.File)
		for n := 0; n < plan.Traces; n++ {
			u := tunits[rnd.Intn(len(tunits))]
			var w c33Wheel
			if rnd.Intn(2) == 0 {
				w = NewLockingTimerWheel[int](time.Duration(g.Tick)*u, time.Duration(g.Span)*u)
			} else {
				w = NewTimerWheel[int](time.Duration(g.Tick)*u, time.Duration(g.Span)*u)
			}
			tw := c33Inner(w)
			// item cache next to its limit: the cache is topped up to (just below) timerCacheMax now and then, as if a burst
			// elsewhere had returned its TimeoutItems, so that Purge meets a full cache while recorded items are outstanding
			cacheLimit := n%4 == 3
			topUp := func() {
				k := timerCacheMax - rnd.Intn(3)
				for tw.itemsCached < k {
					tw.itemCache = &TimeoutItem[int]{Next: tw.itemCache}
					tw.itemsCached++
				}
			}
			if cacheLimit {
				topUp()
				res.Hit("T:cache-limit")
			}
			// large burst beyond the cache: at step burstAt about timerCacheMax unrecorded items (values >= c33BurstBase) are added
			// in one go; from then on every purge drains the expired list; only what concerns recorded items is written to the trace
			burstAt, burstN := -1, 0
			var burstOut []bool
			burstLeft := 0
			if n%4 == 1 {
				burstAt = rnd.Intn(plan.Events/2 + 1)
			}
			tr.Event(map[string]any{"ev": "reset"})
			clock := 0
			next := 1
			L := g.Span/g.Tick + 2
			advanced := false
			mode := rnd.Intn(4)
			bad, notedFull := false, false
			// one Purge; false when nothing came out.  Burst items are accounted here, recorded items by TLC.
			purge := func() bool {
				full := tw.itemsCached >= timerCacheMax
				last := tw.expired.Head != nil && tw.expired.Head.Next == nil
				v, has := w.Purge()
				if has && full {
					if !notedFull {
						tr.Event(map[string]any{"ev": "Note", "what": "purge-with-full-cache"})
						notedFull = true
					}
					res.Hit("T:purge-cache-full")
					if last {
						res.Hit("T:purge-cache-full-last")
					}
				}
				if has && v >= c33BurstBase {
					k := v - c33BurstBase
					if k >= burstN || !burstOut[k] {
						if !bad {
							res.Mismatch(fmt.Sprintf("burst:returned-twice-or-unknown:%d_%d", g.Tick, g.Span),
								fmt.Sprintf("Purge returned burst item %d of %d which is not outstanding", k, burstN),
								map[string]any{"tick": g.Tick, "span": g.Span, "trace": n, "clock": clock})
						}
						bad = true
						return true
					}
					burstOut[k] = false
					burstLeft--
					return true
				}
				tr.Event(map[string]any{"ev": "Purge", "now": clock, "has": has, "v": v})
				res.Hit("T:Purge")
				return has
			}
			for s := 0; s < plan.Events; s++ {
				// the clock moves
				switch r := rnd.Intn(100); {
				case r < 30:
				case r < 70:
					clock += rnd.Intn(g.Tick + 1)
				case r < 90:
					clock += rnd.Intn(3*g.Tick + 1)
				case r < 97:
					clock += rnd.Intn((L + 2) * g.Tick)
				default:
					clock += L*g.Tick + rnd.Intn(2*L*g.Tick+1) // more than a revolution
					res.Hit("T:revolution")
				}
				if cacheLimit && rnd.Intn(6) == 0 {
					topUp()
				}
				if s == burstAt {
					w.Advance(base.Add(time.Duration(clock) * u))
					tr.Event(map[string]any{"ev": "Advance", "now": clock})
					advanced = true
					burstN = timerCacheMax - 2 + rnd.Intn(6)
					burstOut = make([]bool, burstN)
					for k := 0; k < burstN; k++ {
						w.Add(c33BurstBase+k, time.Duration(rnd.Intn(g.Span+g.Tick+1))*u)
						burstOut[k] = true
					}
					burstLeft = burstN
					tr.Event(map[string]any{"ev": "Note", "what": "burst"})
					res.Hit("T:burst")
				}
				switch r := rnd.Intn(100); {
				case r < 35 || !advanced:
					w.Advance(base.Add(time.Duration(clock) * u))
					tr.Event(map[string]any{"ev": "Advance", "now": clock})
					advanced = true
					res.Hit("T:Advance")
				case r < 65 && next <= plan.MaxItem:
					if mode != 0 || rnd.Intn(4) > 0 {
						// the documented use: advance to the current time, then add
						w.Advance(base.Add(time.Duration(clock) * u))
						tr.Event(map[string]any{"ev": "Advance", "now": clock})
					} else {
						res.Hit("T:stale-add")
					}
					var to int
					switch q := rnd.Intn(10); {
					case q < 2:
						to = rnd.Intn(g.Tick + 1)
					case q < 8:
						to = rnd.Intn(g.Span + 1)
					case q < 9:
						to = g.Span + rnd.Intn(2*g.Tick+2)
					default:
						to = (1 + rnd.Intn(L)) * g.Tick
					}
					w.Add(next, time.Duration(to)*u)
					tr.Event(map[string]any{"ev": "Add", "now": clock, "i": next, "to": to})
					next++
					res.Hit("T:Add")
				default:
					k := 1 + rnd.Intn(3)
					if burstN > 0 {
						k = burstN + plan.MaxItem + 2 // after the burst: drain
					}
					for j := 0; j < k; j++ {
						if !purge() {
							break
						}
					}
				}
			}
			// everything outstanding must come out after a sufficiently late Advance
			clock += g.Span + 3*g.Tick + rnd.Intn(4*L*g.Tick)
			w.Advance(base.Add(time.Duration(clock) * u))
			tr.Event(map[string]any{"ev": "Advance", "now": clock})
			for j := 0; j <= burstN+plan.MaxItem+1; j++ {
				if !purge() {
					break
				}
			}
			if burstLeft != 0 && !bad {
				res.Mismatch(fmt.Sprintf("burst:lost:%d_%d", g.Tick, g.Span),
					fmt.Sprintf("%d of %d items of a burst were never returned although the wheel was advanced by more than its span and drained", burstLeft, burstN),
					map[string]any{"tick": g.Tick, "span": g.Span, "trace": n, "clock": clock})
			}
			res.Traces++
			res.Case(fmt.Sprintf("trace/%d/%d", gi, n))
		}
		tr.Close()
	}
}
