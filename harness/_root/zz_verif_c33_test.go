package nebula

// C33 — timer wheel fires each item once, on time.  Binding of spec/TimerWheel.tla to timeout.go.
//
//  R: every edge of TLC's state graph of the small models is replayed on a real TimerWheel and a real
//     LockingTimerWheel with explicit `now`, under several concretisations of the model's time unit.
//     After every step the reference-level projection (items returnable now = the expired list, items
//     outstanding but not yet returnable = the slots) is compared as sets; Purge results are compared
//     as "some returnable item" (order of equal elements is mechanism).
//  T: seeded random add/advance/purge histories on real wheels of several geometries (incl. gaps of
//     more than a revolution and the item cache at its limit) are recorded; TLC validates them against
//     the reference layer only (Trace_TimerWheel.tla).

import (
	"encoding/json"
	"fmt"
	"sort"
	"testing"
	"time"
)

type c33Plan struct {
	Graphs []struct {
		File string `json:"file"`
		Tick int    `json:"tick"`
		Span int    `json:"span"`
	} `json:"graphs"`
	Groups []struct {
		File string `json:"file"`
		Tick int    `json:"tick"`
		Span int    `json:"span"`
	} `json:"groups"`
	Traces  int `json:"traces"`
	Events  int `json:"events"`
	MaxItem int `json:"maxItem"`
}

// the API under test
type c33Wheel interface {
	Add(v int, timeout time.Duration) *TimeoutItem[int]
	Advance(now time.Time)
	Purge() (int, bool)
}

func c33Inner(w c33Wheel) *TimerWheel[int] {
	switch x := w.(type) {
	case *TimerWheel[int]:
		return x
	case *LockingTimerWheel[int]:
		return x.t
	}
	return nil
}

// projection: items in the expired list, items in the slots (nil, nil, false when a list is corrupt)
func c33Project(w c33Wheel) (expired, pending []int, ok bool) {
	tw := c33Inner(w)
	walk := func(l *TimeoutList[int]) ([]int, bool) {
		var out []int
		n := 0
		for it := l.Head; it != nil; it = it.Next {
			out = append(out, it.Item)
			if n++; n > 1<<20 {
				return nil, false
			}
		}
		return out, true
	}
	expired, ok = walk(tw.expired)
	if !ok {
		return nil, nil, false
	}
	for _, s := range tw.wheel {
		p, ok2 := walk(s)
		if !ok2 {
			return nil, nil, false
		}
		pending = append(pending, p...)
	}
	sort.Ints(expired)
	sort.Ints(pending)
	return expired, pending, true
}

func c33Unmarshal(m json.RawMessage, into any) {
	if err := json.Unmarshal(m, into); err != nil {
		panic(fmt.Sprintf("verif: cannot decode %s: %v", m, err))
	}
}

func c33Same(a, b []int) bool {
	if len(a) != len(b) {
		return false
	}
	for i := range a {
		if a[i] != b[i] {
			return false
		}
	}
	return true
}

type c33ModelW struct {
	Exp   []int            `json:"exp"`
	Slots map[string][]int `json:"slots"`
}

func (m c33ModelW) sets() (expired, pending []int) {
	expired = append([]int{}, m.Exp...)
	for _, s := range m.Slots {
		pending = append(pending, s...)
	}
	sort.Ints(expired)
	sort.Ints(pending)
	return
}

type c33Res struct {
	Has bool `json:"has"`
	V   int  `json:"v"`
}

func TestVerif_C33(t *testing.T) {
	res := vNewResult()
	defer res.Write(t)
	var plan c33Plan
	vReadJSON(t, "c33_plan.json", &plan)
	base := time.Date(2021, 3, 4, 5, 6, 7, 890, time.UTC)

	// ---------------------------------------------------------------- R
	type unit struct {
		d       time.Duration
		name    string
		locking bool
	}
	units := []unit{{1, "1ns", false}, {time.Millisecond, "1ms", true}, {time.Second + 7, "1s+7ns", false}}
	for _, g := range plan.Graphs {
		var gr vGraph
		vReadJSON(t, g.File, &gr)
		// decode the model wheels once
		mw := make([]c33ModelW, len(gr.States))
		mres := make([]c33Res, len(gr.States))
		for i, s := range gr.States {
			c33Unmarshal(s["w"], &mw[i])
			c33Unmarshal(s["res"], &mres[i])
		}
		for _, u := range units {
			for ti, tour := range gr.Tours {
				var w c33Wheel
				if u.locking {
					w = NewLockingTimerWheel[int](time.Duration(g.Tick)*u.d, time.Duration(g.Span)*u.d)
				} else {
					w = NewTimerWheel[int](time.Duration(g.Tick)*u.d, time.Duration(g.Span)*u.d)
				}
				clock := 0
			steps:
				for si, ei := range tour {
					e := gr.Edges[ei]
					res.Hit(e.Act)
					res.Case(fmt.Sprintf("%s/%s/%d", g.File, u.name, ei))
					det := map[string]any{"graph": g.File, "unit": u.name, "tour": ti, "step": si, "edge": ei, "tour_edges": tour[:si+1],
						"tick": g.Tick, "span": g.Span, "clock": clock}
					switch e.Act {
					case "Tick":
						clock += vInt(e.Args[0])
					case "Advance":
						w.Advance(base.Add(time.Duration(clock) * u.d))
					case "Add":
						w.Add(vInt(e.Args[0]), time.Duration(vInt(e.Args[1]))*u.d)
					case "Purge":
						v, has := w.Purge()
						want := mres[e.Dst]
						preExp, _ := mw[e.Src].sets()
						if has != want.Has {
							res.Mismatch(fmt.Sprintf("replay:Purge:has:%d_%d", g.Tick, g.Span),
								fmt.Sprintf("Purge returned has=%v (item %d), specification has=%v (returnable items %v)", has, v, want.Has, preExp), det)
							break steps
						}
						if has {
							in := false
							for _, x := range preExp {
								in = in || x == v
							}
							if !in {
								res.Mismatch(fmt.Sprintf("replay:Purge:item:%d_%d", g.Tick, g.Span),
									fmt.Sprintf("Purge returned item %d which is not returnable (returnable items %v)", v, preExp), det)
								break steps
							}
							if v != want.V {
								// another returnable item than the model's head: permitted, but the tour cannot be followed further
								res.Hit("R:purge-order-differs")
								break steps
							}
						}
					default:
						t.Fatalf("unknown action %s", e.Act)
					}
					gotE, gotP, ok := c33Project(w)
					wantE, wantP := mw[e.Dst].sets()
					if !ok {
						res.Mismatch(fmt.Sprintf("replay:corrupt-list:%d_%d", g.Tick, g.Span), "a list of the wheel is cyclic after "+e.Act, det)
						break
					}
					if !c33Same(gotE, wantE) || !c33Same(gotP, wantP) {
						what := "early"
						if len(gotE) < len(wantE) {
							what = "late"
						}
						if len(gotE)+len(gotP) != len(wantE)+len(wantP) {
							what = "count"
						}
						res.Mismatch(fmt.Sprintf("replay:%s:%s:%d_%d", e.Act, what, g.Tick, g.Span),
							fmt.Sprintf("after %s at clock %d units: returnable %v outstanding %v, specification returnable %v outstanding %v",
								e.Act, clock, gotE, gotP, wantE, wantP), det)
						break
					}
				}
			}
		}
		if len(gr.Tours) > 0 {
			res.Sample(map[string]any{"graph": g.File, "tour_as_edges": gr.Tours[len(gr.Tours)/2]})
		}
	}

	// ---------------------------------------------------------------- T
	rnd := vRand()
	tunits := []time.Duration{1, time.Microsecond, time.Millisecond, time.Second, 7919 * time.Microsecond}
	for gi, g := range plan.Groups {
		tr := vNewTracer(t, g.File)
		for n := 0; n < plan.Traces; n++ {
			u := tunits[rnd.Intn(len(tunits))]
			var w c33Wheel
			if rnd.Intn(2) == 0 {
				w = NewLockingTimerWheel[int](time.Duration(g.Tick)*u, time.Duration(g.Span)*u)
			} else {
				w = NewTimerWheel[int](time.Duration(g.Tick)*u, time.Duration(g.Span)*u)
			}
			if n%4 == 3 {
				// item cache next to its limit: the next purges fill it and then drop items
				tw := c33Inner(w)
				k := timerCacheMax - rnd.Intn(3)
				for j := 0; j < k; j++ {
					tw.itemCache = &TimeoutItem[int]{Next: tw.itemCache}
				}
				tw.itemsCached = k
				res.Hit("T:cache-limit")
			}
			tr.Event(map[string]any{"ev": "reset"})
			clock := 0
			next := 1
			L := g.Span/g.Tick + 2
			advanced := false
			mode := rnd.Intn(4)
			for s := 0; s < plan.Events; s++ {
				// the clock moves
				switch r := rnd.Intn(100); {
				case r < 30:
				case r < 70:
					clock += rnd.Intn(g.Tick + 1)
				case r < 90:
					clock += rnd.Intn(3*g.Tick + 1)
				case r < 97:
					clock += rnd.Intn((L + 2) * g.Tick)
				default:
					clock += L*g.Tick + rnd.Intn(2*L*g.Tick+1) // more than a revolution
					res.Hit("T:revolution")
				}
				switch r := rnd.Intn(100); {
				case r < 35 || !advanced:
					w.Advance(base.Add(time.Duration(clock) * u))
					tr.Event(map[string]any{"ev": "Advance", "now": clock})
					advanced = true
					res.Hit("T:Advance")
				case r < 65 && next <= plan.MaxItem:
					if mode != 0 || rnd.Intn(4) > 0 {
						// the documented use: advance to the current time, then add
						w.Advance(base.Add(time.Duration(clock) * u))
						tr.Event(map[string]any{"ev": "Advance", "now": clock})
					} else {
						res.Hit("T:stale-add")
					}
					var to int
					switch q := rnd.Intn(10); {
					case q < 2:
						to = rnd.Intn(g.Tick + 1)
					case q < 8:
						to = rnd.Intn(g.Span + 1)
					case q < 9:
						to = g.Span + rnd.Intn(2*g.Tick+2)
					default:
						to = (1 + rnd.Intn(L)) * g.Tick
					}
					w.Add(next, time.Duration(to)*u)
					tr.Event(map[string]any{"ev": "Add", "now": clock, "i": next, "to": to})
					next++
					res.Hit("T:Add")
				default:
					k := 1 + rnd.Intn(3)
					for j := 0; j < k; j++ {
						v, has := w.Purge()
						tr.Event(map[string]any{"ev": "Purge", "now": clock, "has": has, "v": v})
						res.Hit("T:Purge")
						if !has {
							break
						}
					}
				}
			}
			// everything outstanding must come out after a sufficiently late Advance
			clock += g.Span + 3*g.Tick + rnd.Intn(4*L*g.Tick)
			w.Advance(base.Add(time.Duration(clock) * u))
			tr.Event(map[string]any{"ev": "Advance", "now": clock})
			for j := 0; j <= plan.MaxItem+1; j++ {
				v, has := w.Purge()
				tr.Event(map[string]any{"ev": "Purge", "now": clock, "has": has, "v": v})
				if !has {
					break
				}
			}
			res.Traces++
			res.Case(fmt.Sprintf("trace/%d/%d", gi, n))
		}
		tr.Close()
	}
}
