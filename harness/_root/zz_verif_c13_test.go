package nebula

// C13 — nonces are never reused and the counter ceiling is enforced (spec/DataPlaneTx.tla).
//
// R: every complete behaviour (interleaving) of the gate-grain model is imposed on a real
// ConnectionState through a real Interface's send paths: goroutines are parked inside the AEAD
// call by the dpGate cipher wrapper, so "reserve" happens when a goroutine is started and "seal"
// when it is released. Compared after every step: the message counter; per sender: refused or the
// nonce it sealed with; at the end: the order in which nonces reached the AEAD.

import (
	"context"
	"encoding/json"
	"fmt"
	"log/slog"
	"net/netip"
	"os"
	"sync"
	"testing"
	"time"

	"github.com/slackhq/nebula/cert"
	"github.com/slackhq/nebula/header"
	"github.com/slackhq/nebula/noiseutil"
	"github.com/slackhq/nebula/test"
	"github.com/slackhq/nebula/udp"
)

type c13Plan struct {
	Graphs []struct {
		File       string `json:"file"`
		LockNeeded bool   `json:"lockNeeded"`
		Ceiling    int    `json:"ceiling"`
		HsMsgs     int    `json:"hsMsgs"`
	} `json:"graphs"`
}

type c13Writer struct {
	udp.NoopConn
	mu   sync.Mutex
	pkts [][]byte
}

func (w *c13Writer) WriteTo(b []byte, addr netip.AddrPort) error {
	w.mu.Lock()
	w.pkts = append(w.pkts, append([]byte(nil), b...))
	w.mu.Unlock()
	return nil
}

// model counter -> real counter: the model's ceiling is mapped onto RejectAfterMessages, counters of
// a fresh tunnel (<= hsMsgs+3) stay where they are.
var c13Fresh bool // behaviour starts on a fresh tunnel: counters are used as they are

func c13Real(c, ceiling int) uint64 {
	if c13Fresh {
		return uint64(c)
	}
	return RejectAfterMessages - uint64(ceiling) + uint64(c)
}

func TestVerif_C13(t *testing.T) {
	res := vNewResult()
	defer res.Write(t)
	var plan c13Plan
	vReadJSON(t, "c13_plan.json", &plan)
	fips := os.Getenv("VERIF_FIPS") == "1"
	curve, aes := cert.Curve_CURVE25519, false
	if fips {
		curve, aes = cert.Curve_P256, true
	}
	initR, _ := dpHandshake(t, curve, aes)
	newCS := func() *ConnectionState {
		r := initR
		if fips {
			// the FIPS AEAD remembers the last nonce of its key: every behaviour needs its own key
			r, _ = dpHandshake(t, curve, aes)
		}
		ci, err := newConnectionStateFromResult(r)
		if err != nil {
			t.Fatalf("verif: %v", err)
		}
		return ci
	}
	savedLock := noiseutil.EncryptLockNeeded
	defer func() { noiseutil.EncryptLockNeeded = savedLock }()
	res.Extra["fips140"] = fips
	res.Extra["encryptLockNeededAtStart"] = savedLock

	for _, g := range plan.Graphs {
		if fips && !g.LockNeeded {
			continue // FIPS mode always needs the lock
		}
		var gr vGraph
		vReadJSON(t, g.File, &gr)
		noiseutil.EncryptLockNeeded = g.LockNeeded
		for pi, path := range gr.Tours {
			c13Replay(t, res, &gr, g.File, pi, path, g.Ceiling, g.LockNeeded, initR.MessageIndex, newCS)
		}
		if g.LockNeeded {
			for _, fast := range []bool{true, false} {
				c13LockProbe(t, res, fast, initR.MessageIndex, newCS)
			}
		}
		c13Stress(t, res, g.LockNeeded, fips, newCS)
		if len(gr.Tours) > 0 {
			p := gr.Tours[len(gr.Tours)/3]
			var acts []string
			for _, ei := range p {
				acts = append(acts, fmt.Sprintf("%s(%s)", gr.Edges[ei].Act, vStr(gr.Edges[ei].Args[0])))
			}
			res.Sample(map[string]any{"graph": g.File, "init": gr.States[gr.Edges[p[0]].Src], "interleaving": acts})
		}
	}
}

// c13LogGate is the logger of the Interface under test: a sender that gives up a relayed send because the out buffer is too
// small reports that through the logger; the handler parks it there (announced on the cipher gate's arrival channel) so that
// the harness can let other senders run between the reservation of the counter and the end of the abandoned send.
type c13LogGate struct {
	gate *dpGate
}

func (h *c13LogGate) Enabled(context.Context, slog.Level) bool { return true }
func (h *c13LogGate) WithAttrs([]slog.Attr) slog.Handler       { return h }
func (h *c13LogGate) WithGroup(string) slog.Handler            { return h }
func (h *c13LogGate) Handle(_ context.Context, r slog.Record) error {
	if r.Message == "SendVia out buffer not large enough for relay" && h.gate != nil {
		a := &dpArrival{release: make(chan struct{}), n: ^uint64(0)}
		h.gate.arrive <- a
		<-a.release
	}
	return nil
}

type c13Sender struct {
	done    chan struct{}
	arrival *dpArrival
	started bool
}

func c13Replay(t *testing.T, res *vResult, gr *vGraph, file string, pi int, path []int, ceiling int, lockNeeded bool,
	hsMsgs uint64, newCS func() *ConnectionState) {
	if len(path) == 0 {
		return
	}
	init := gr.States[gr.Edges[path[0]].Src]
	ci := newCS()
	gate := dpNewGate(ci.eKey)
	ci.eKey = gate
	start := vInt(init["ctr"])
	c13Fresh = start <= int(hsMsgs)
	ci.messageCounter.Store(c13Real(start, ceiling))
	var paths map[string]string
	_ = json.Unmarshal(init["path"], &paths)

	w := &c13Writer{}
	f := &Interface{l: slog.New(&c13LogGate{gate: gate}), messageMetrics: newMessageMetrics(), writers: []udp.Conn{w}}
	f.connectionManager = &connectionManager{relayUsed: map[uint32]struct{}{}, relayUsedLock: &sync.RWMutex{}, l: f.l}
	hostinfo := &HostInfo{vpnAddrs: []netip.Addr{netip.MustParseAddr("10.0.0.2")}, ConnectionState: ci, remoteIndexId: 2000}
	remote := netip.MustParseAddrPort("192.0.2.1:4242")
	hostinfo.remote.Store(&remote)
	relay := &Relay{Type: ForwardingType, State: Established, LocalIndex: 7, RemoteIndex: 9, PeerAddr: netip.MustParseAddr("10.0.0.3")}

	senders := map[string]*c13Sender{}
	launch := func(g string) *c13Sender {
		s := &c13Sender{done: make(chan struct{}), started: true}
		senders[g] = s
		variant := (pi + int(g[len(g)-1])) % 3
		go func() {
			defer close(s.done)
			nb := make([]byte, 12)
			out := make([]byte, mtu)
			if paths[g] == "fast" {
				f.sendInsideEncrypt(hostinfo, ci, []byte("payload-"+g), out, nb)
				return
			}
			if paths[g] == "drop" {
				// a relayed payload that does not fit the out buffer: the counter is reserved, then the send is given up
				f.SendVia(hostinfo, relay, make([]byte, 200), nb, make([]byte, 0, 64), false, 0)
				return
			}
			switch variant {
			case 0:
				f.sendNoMetrics(header.Message, 0, ci, hostinfo, remote, []byte("payload-"+g), nb, out, 0)
			case 1:
				f.sendNoMetrics(header.Test, header.TestRequest, ci, hostinfo, remote, []byte(""), nb, out, 0)
			default:
				// relayed traffic: this tunnel is the hop towards the relay
				f.SendVia(hostinfo, relay, []byte("inner-header-and-ciphertext-"+g), nb, out[:0], false, 0)
			}
		}()
		s.arrival = dpAwait(gate, s.done)
		return s
	}
	fail := func(key, what string, si int) {
		var acts []string
		for _, ei := range path {
			acts = append(acts, fmt.Sprintf("%s(%s)", gr.Edges[ei].Act, vStr(gr.Edges[ei].Args[0])))
		}
		res.Mismatch(key, what, map[string]any{"graph": file, "path": pi, "step": si, "init": init, "interleaving": acts,
			"lockNeeded": lockNeeded, "start_counter": c13Real(start, ceiling)})
	}

	drifted := ""
	drift := func(what string) {
		if drifted == "" {
			drifted = what
		}
	}
	for si, ei := range path {
		e := gr.Edges[ei]
		g := vStr(e.Args[0])
		post := gr.States[e.Dst]
		res.Hit(e.Act)
		switch e.Act {
		case "Lock":
			launch(g) // takes the write lock and reserves at once; the model's Reserve step follows
			continue
		case "ReserveFast", "ReserveSafeAdd", "ReserveSafeRefuse":
			if !lockNeeded {
				launch(g)
			}
		case "Seal":
			s := senders[g]
			if s == nil {
				t.Fatalf("verif: Seal of unknown sender")
			}
			if s.arrival == nil {
				drift(fmt.Sprintf("step %d: sender %s finished without reaching the AEAD, the specification refuses at the cipher", si, g))
				continue
			}
			close(s.arrival.release)
			s.arrival = nil
			<-s.done
		case "Abandon":
			s := senders[g]
			if s == nil {
				t.Fatalf("verif: Abandon of unknown sender")
			}
			if s.arrival == nil {
				drift(fmt.Sprintf("step %d: sender %s finished without announcing that it gives the send up", si, g))
				continue
			}
			if s.arrival.n != ^uint64(0) {
				drift(fmt.Sprintf("step %d: sender %s reached the AEAD with counter %d, the specification gives the send up", si, g, s.arrival.n))
			}
			close(s.arrival.release)
			s.arrival = nil
			<-s.done
		case "Pin":
			t.Fatalf("verif: fine-grain action in a gate-grain graph")
		}
		// mechanism-level comparison (counter value, reserved nonce): a difference is drift between
		// model and code, not a verdict; the verdict below is taken on the observed nonces only.
		wantCtr := c13Real(vInt(post["ctr"]), ceiling)
		if got := ci.messageCounter.Load(); got != wantCtr {
			drift(fmt.Sprintf("step %d: after %s(%s) the message counter is %d, specification %d", si, e.Act, g, got, wantCtr))
		}
		if s := senders[g]; s != nil && s.arrival != nil {
			var mine map[string]int
			_ = json.Unmarshal(post["mine"], &mine)
			if want := c13Real(mine[g], ceiling); s.arrival.n != want && s.arrival.n != ^uint64(0) {
				drift(fmt.Sprintf("step %d: sender %s reached the AEAD with counter %d, specification reserved %d", si, g, s.arrival.n, want))
			}
			if e.Act == "ReserveSafeRefuse" {
				// no Seal step will follow for this sender in the model: let it go now
				drift(fmt.Sprintf("step %d: sender %s reached the AEAD with counter %d, the specification refuses before the cipher", si, g, s.arrival.n))
				close(s.arrival.release)
				s.arrival = nil
				<-s.done
			}
		}
	}
	// let everything that is still parked finish
	for _, s := range senders {
		if s.arrival != nil {
			close(s.arrival.release)
			s.arrival = nil
		}
	}
	for _, s := range senders {
		for {
			select {
			case a := <-gate.arrive:
				close(a.release)
				continue
			case <-s.done:
			}
			break
		}
	}
	// ---- verdict: the statement of C13 evaluated on the nonces that really reached the AEAD
	gate.mu.Lock()
	gotOrder := append([]uint64(nil), gate.order...)
	gate.mu.Unlock()
	seen := map[uint64]bool{}
	for _, n := range gotOrder {
		if seen[n] {
			fail("nonce-reuse", fmt.Sprintf("nonce %d used twice under one key (nonces at the AEAD: %v)", n, gotOrder), len(path))
			return
		}
		seen[n] = true
		if n <= hsMsgs {
			fail("nonce-range:handshake", fmt.Sprintf("nonce %d is not above the %d counters consumed by the handshake", n, hsMsgs), len(path))
			return
		}
		if n >= RejectAfterMessages {
			fail("nonce-range:ceiling", fmt.Sprintf("nonce %d is at or beyond the ceiling %d", n, RejectAfterMessages), len(path))
			return
		}
	}
	if lockNeeded {
		for i := 1; i < len(gotOrder); i++ {
			if gotOrder[i] <= gotOrder[i-1] {
				fail("order:not-increasing", fmt.Sprintf("with EncryptLockNeeded nonces reached the AEAD out of order: %v", gotOrder), len(path))
				return
			}
		}
	}
	if drifted == "" {
		last := gr.States[gr.Edges[path[len(path)-1]].Dst]
		wantOrder := vInts(last["order"])
		ok := len(gotOrder) == len(wantOrder)
		for i := 0; ok && i < len(wantOrder); i++ {
			ok = gotOrder[i] == c13Real(wantOrder[i], ceiling)
		}
		if !ok {
			drift(fmt.Sprintf("nonces reached the AEAD as %v, specification %v (model values)", gotOrder, wantOrder))
		}
	}
	if drifted != "" {
		res.Hit("drift")
		res.mu.Lock()
		if _, ok := res.Extra["drift_example"]; !ok {
			res.Extra["drift_example"] = fmt.Sprintf("%s path %d: %s", file, pi, drifted)
		}
		res.mu.Unlock()
	}
	res.Case(fmt.Sprintf("%s/%d", file, pi))
	res.Traces++
}

// c13LockProbe checks the enabling condition of the model's Lock action on the real code: while one
// sender is between reserve and seal under EncryptLockNeeded, no other sender may reserve.
func c13LockProbe(t *testing.T, res *vResult, firstFast bool, hsMsgs uint64, newCS func() *ConnectionState) {
	ci := newCS()
	gate := dpNewGate(ci.eKey)
	ci.eKey = gate
	w := &c13Writer{}
	f := &Interface{l: test.NewLogger(), messageMetrics: newMessageMetrics(), writers: []udp.Conn{w}}
	f.connectionManager = &connectionManager{relayUsed: map[uint32]struct{}{}, relayUsedLock: &sync.RWMutex{}, l: f.l}
	hostinfo := &HostInfo{vpnAddrs: []netip.Addr{netip.MustParseAddr("10.0.0.2")}, ConnectionState: ci, remoteIndexId: 2000}
	remote := netip.MustParseAddrPort("192.0.2.1:4242")
	hostinfo.remote.Store(&remote)
	send := func(fast bool, done chan struct{}) {
		defer close(done)
		if fast {
			f.sendInsideEncrypt(hostinfo, ci, []byte("x"), make([]byte, mtu), make([]byte, 12))
		} else {
			f.sendNoMetrics(header.Message, 0, ci, hostinfo, remote, []byte("x"), make([]byte, 12), make([]byte, mtu), 0)
		}
	}
	for _, secondFast := range []bool{true, false} {
		res.Hit("LockProbe")
		d1, d2 := make(chan struct{}), make(chan struct{})
		go send(firstFast, d1)
		a1 := dpAwait(gate, d1)
		if a1 == nil {
			t.Fatalf("verif: first sender did not reach the AEAD")
		}
		go send(secondFast, d2)
		var a2 *dpArrival
		select {
		case a2 = <-gate.arrive:
		case <-time.After(40 * time.Millisecond):
		}
		if a2 != nil {
			close(a2.release)
			<-d2
			close(a1.release)
			<-d1
			res.Mismatch("lock:second-sender-inside-critical-section",
				fmt.Sprintf("with EncryptLockNeeded a second sender (fast=%v) reserved counter %d and reached the AEAD while counter %d (fast=%v) was reserved but not sealed; nonces reached the cipher in order %v",
					secondFast, a2.n, a1.n, firstFast, gate.order), nil)
			return
		}
		close(a1.release)
		<-d1
		a2 = dpAwait(gate, d2)
		if a2 != nil {
			close(a2.release)
			<-d2
		}
	}
	for i := 1; i < len(gate.order); i++ {
		if gate.order[i] <= gate.order[i-1] {
			res.Mismatch("order:not-increasing", fmt.Sprintf("nonces reached the AEAD out of order: %v", gate.order), nil)
		}
	}
}

// c13Stress: T direction. Real goroutines, no gates: senders race freely on one tunnel near the
// ceiling and on a fresh tunnel; the cipher wrapper records, in the order the calls reach the AEAD,
// every nonce that was sealed. The recorded trace is validated by TLC (Trace_DataPlaneTx.tla).
type c13Recorder struct {
	inner noiseutil.CipherState
	mu    sync.Mutex
	order []uint64
}

func (g *c13Recorder) EncryptDanger(out, ad, plaintext []byte, n uint64, nb []byte) (o []byte, err error) {
	g.mu.Lock()
	defer g.mu.Unlock()
	defer func() {
		// the FIPS AEAD panics when nonces do not increase: the nonce did reach the cipher, record it
		if r := recover(); r != nil {
			g.order = append(g.order, n)
			err = fmt.Errorf("AEAD panic: %v", r)
		}
	}()
	o, err = g.inner.EncryptDanger(out, ad, plaintext, n, nb)
	if err == nil {
		g.order = append(g.order, n)
	}
	return o, err
}
func (g *c13Recorder) DecryptDanger(out, ad, ciphertext []byte, n uint64, nb []byte) ([]byte, error) {
	return g.inner.DecryptDanger(out, ad, ciphertext, n, nb)
}
func (g *c13Recorder) Overhead() int { return g.inner.Overhead() }

var c13Tracer *vTracer

func c13Stress(t *testing.T, res *vResult, lockNeeded, fips bool, newCS func() *ConnectionState) {
	if c13Tracer == nil {
		c13Tracer = vNewTracer(t, "trace_tx.ndjson")
		t.Cleanup(func() { c13Tracer.Close() })
	}
	rounds := 12
	if !vQuick() {
		rounds = 60
	}
	for r := 0; r < rounds; r++ {
		ci := newCS()
		rec := &c13Recorder{inner: ci.eKey}
		ci.eKey = rec
		nearCeiling := r%2 == 0
		base := uint64(2)
		if nearCeiling {
			base = RejectAfterMessages - 600
			ci.messageCounter.Store(base)
		}
		w := &c13Writer{}
		f := &Interface{l: slog.New(&c13LogGate{}), messageMetrics: newMessageMetrics(), writers: []udp.Conn{w}}
		f.connectionManager = &connectionManager{relayUsed: map[uint32]struct{}{}, relayUsedLock: &sync.RWMutex{}, l: f.l}
		hostinfo := &HostInfo{vpnAddrs: []netip.Addr{netip.MustParseAddr("10.0.0.2")}, ConnectionState: ci, remoteIndexId: 2000}
		remote := netip.MustParseAddrPort("192.0.2.1:4242")
		hostinfo.remote.Store(&remote)
		relay := &Relay{Type: ForwardingType, State: Established, LocalIndex: 7, RemoteIndex: 9, PeerAddr: netip.MustParseAddr("10.0.0.3")}
		var wg sync.WaitGroup
		startc := make(chan struct{})
		for g := 0; g < 8; g++ {
			wg.Add(1)
			go func(g int) {
				defer wg.Done()
				nb := make([]byte, 12)
				out := make([]byte, mtu)
				<-startc
				for k := 0; k < 120; k++ {
					if (g+k)%16 == 7 {
						// a relayed payload too large for its buffer: reserved counter, abandoned send
						f.SendVia(hostinfo, relay, make([]byte, 200), nb, make([]byte, 0, 64), false, 0)
						continue
					}
					switch (g + k) % 4 {
					case 0, 1:
						f.sendInsideEncrypt(hostinfo, ci, []byte("p"), out, nb)
					case 2:
						f.sendNoMetrics(header.Message, 0, ci, hostinfo, remote, []byte("p"), nb, out, 0)
					default:
						f.SendVia(hostinfo, relay, []byte("inner"), nb, out[:0], false, 0)
					}
				}
			}(g)
		}
		close(startc)
		wg.Wait()
		c13Tracer.Event(map[string]any{"ev": "reset", "lock": lockNeeded, "hs": 2, "ceil": int(RejectAfterMessages - base), "near": nearCeiling})
		for _, n := range rec.order {
			// nonces are logged relative to the start counter (TLC integers are 32-bit)
			c13Tracer.Event(map[string]any{"ev": "Seal", "n": int(int64(n - base))})
		}
		c13Tracer.Event(map[string]any{"ev": "End", "ctr_at_or_above_ceiling": ci.messageCounter.Load() >= RejectAfterMessages})
		res.Hit("T:round")
	}
}
