package nebula

// C35 — lighthouse information is accepted only from authorised senders.
// Binding of spec/Lighthouse.tla (gate table + histories) to LightHouseHandler.HandleRequest on a real LightHouse built
// from configuration, with a recording EncWriter, a recording punch socket and the handshake trigger channel.
//
//  V: c35v.ndjson — every row of the gate table (node role x sender's relation to the configured lighthouses x kind of
//     sender x message type x claimed address x encoding x payload) after a legitimate warm-up.
//  R: c35r.ndjson — histories of up to three steps (messages and configuration reloads).
// A step of type "Reload" reloads the node's real configuration object (lighthouse.hosts, lighthouse.am_lighthouse,
// static_host_map entries of new lighthouses) through config.C.ReloadConfigString, i.e. through the callback
// NewLightHouseFromConfig registered; the LightHouseHandler object created at start-up keeps being used, as in a reader
// routine.  The gate table holds every row once more after a reload that adds / removes the sender.
// After every message the effects (messages sent, punches, punch-back, handshake trigger) and the address cache are
// projected and compared: against the statement (Permitted: a violation) and against the specification's machine
// (a difference that the statement permits is reported as drift of the machinery, never as a violation).

import (
	"hash/crc32"
	"encoding/json"
	"fmt"
	"reflect"
	"sort"
	"testing"
)

type c35Perm struct {
	Kinds  []string `json:"kinds"`
	Keys   []string `json:"keys"`
	Owners []string `json:"owners"`
}

type c35Step struct {
	Eff  lhEff   `json:"eff"`
	View lhView  `json:"view"`
	Perm c35Perm `json:"perm"`
	Ok   bool    `json:"ok"`
}

type c35Vec struct {
	In struct {
		Am   bool     `json:"am"`
		Lhs  []string `json:"lhs"`
		Msgs []lhMsg  `json:"msgs"`
	} `json:"in"`
	Exp []c35Step `json:"exp"`
}

var c35StaticOf = map[string]int{"L0": 31, "S1": 32, "S2": 33, "S6": 34, "O1": 35}

func c35Has(s []string, x string) bool {
	for _, y := range s {
		if y == x {
			return true
		}
	}
	return false
}

func c35Claim(m *lhMsg) string {
	switch {
	case m.Cl == "":
		return "unset"
	case m.Cl == m.From[0]:
		return "primary"
	case c35Has(m.From, m.Cl):
		return "secondary"
	}
	return "other"
}

func c35NormEff(e lhEff) lhEff {
	out := lhEff{Punches: append([]int{}, e.Punches...), Back: append([]string{}, e.Back...), Trig: append([]string{}, e.Trig...)}
	sort.Ints(out.Punches)
	ss := make([]lhSend, len(e.Sends))
	for i, s := range e.Sends {
		if s.V4 == nil {
			s.V4 = []int{}
		}
		if s.V6 == nil {
			s.V6 = []int{}
		}
		if s.Rel == nil {
			s.Rel = []string{}
		}
		ss[i] = s
	}
	sort.Slice(ss, func(i, j int) bool { return lhJSON(ss[i]) < lhJSON(ss[j]) })
	out.Sends = ss
	return out
}

func c35Kinds(e lhEff) []string {
	k := map[string]bool{}
	for _, s := range e.Sends {
		switch s.T {
		case "QueryReply", "Punch":
			k["answer"] = true
		case "UpdateAck":
			k["ack"] = true
		default:
			k["send:"+s.T] = true
		}
	}
	if len(e.Punches) > 0 || len(e.Back) > 0 {
		k["punch"] = true
	}
	if len(e.Trig) > 0 {
		k["trigger"] = true
	}
	out := []string{}
	for x := range k {
		out = append(out, x)
	}
	sort.Strings(out)
	return out
}

func c35Subset(a, b []string) bool {
	for _, x := range a {
		if !c35Has(b, x) {
			return false
		}
	}
	return true
}

func c35Run(t *testing.T, res *vResult, file string, line []byte, drift *[]any) {
	var v c35Vec
	if err := json.Unmarshal(line, &v); err != nil {
		t.Fatalf("vector: %v: %s", err, line)
	}
	res.Case(file + string(line))
	lhBubble(t, func(t *testing.T) {
		statics := map[string][]int{}
		for _, h := range v.In.Lhs {
			statics[h] = []int{c35StaticOf[h]}
		}
		lhLogChoice = int(crc32.ChecksumIEEE(line) % 2)
		res.Hit(fmt.Sprintf("log-level:%d", lhLogChoice))
		n := lhNewNode(t, lhNodeCfg{Am: v.In.Am, Lhs: v.In.Lhs, Statics: statics})
		defer n.close()
		role := map[bool]string{true: "lighthouse", false: "client"}[v.In.Am]
		lhs := v.In.Lhs // lighthouse.hosts now
		everLh := map[string]bool{}
		for _, h := range lhs {
			everLh[h] = true
		}
		reloaded, flipped := false, false
		for si := range v.In.Msgs {
			m := &v.In.Msgs[si]
			e := v.Exp[si]
			before := n.cells()
			if m.T == "Reload" {
				statics := map[string][]int{}
				for _, h := range m.Lhs {
					statics[h] = []int{c35StaticOf[h]}
					everLh[h] = true
				}
				n.reload(m.Lhs, v.In.Am != m.Flip, statics)
				lhs, reloaded, flipped = m.Lhs, true, m.Flip
			} else {
				n.handle(m)
			}
			eff := c35NormEff(n.settle())
			view, keys := n.view()
			after := n.cells()
			res.Hit("type:" + m.T)

			// the sender's relation to lighthouse.hosts: now, and before the reloads
			sender := "peer"
			for _, f := range m.From {
				if everLh[f] {
					sender = "removed-lighthouse"
				}
			}
			for _, f := range m.From {
				if c35Has(lhs, f) {
					sender = "lighthouse"
					if !c35Has(v.In.Lhs, f) {
						sender = "added-lighthouse"
					}
				}
			}
			if reloaded && m.T != "Reload" {
				res.Hit("after-reload:from-" + sender)
				if flipped {
					res.Hit("after-reload:am_lighthouse-flipped-in-file")
				}
			}
			class := fmt.Sprintf("%s:from-%s:%s:claims-%s:v%d", role, sender, m.T, c35Claim(m), m.Enc)
			if flipped {
				class = "am_lighthouse-flipped-in-file:" + class
			}
			detail := map[string]any{"am_lighthouse": v.In.Am, "lighthouses_at_start": v.In.Lhs, "lighthouses_now": lhs, "history": v.In.Msgs[:si+1], "step": si,
				"observed_effects": eff, "observed_cache": view, "specified_effects": e.Eff, "specified_cache": e.View, "permitted": e.Perm}
			bad := false
			if m.T == "Reload" {
				// machine level: the reload took (lighthouse.hosts) resp. did not take (the role); the cache gains my own
				// static entries only; nothing is sent, punched or triggered
				got := []string{}
				for _, a := range n.lh.GetLighthouses() {
					got = append(got, lhName(a))
				}
				if !reflect.DeepEqual(lhSortedStrs(got), lhSortedStrs(m.Lhs)) || n.lh.amLighthouse != v.In.Am ||
					!reflect.DeepEqual(eff, c35NormEff(e.Eff)) || !reflect.DeepEqual(view, lhNormView(e.View)) {
					detail["observed_lighthouses"], detail["observed_role"] = got, n.lh.amLighthouse
					if len(*drift) < 5 {
						*drift = append(*drift, detail)
					}
					res.Hit("drift")
					// (noted, and the history goes on: what the node does with the next messages is judged by the
					// statement, and a violation there is the verdict)
				}
				continue
			}
			// ---- the statement: only permitted kinds of effect
			kinds := c35Kinds(eff)
			for _, k := range kinds {
				res.Hit("effect:" + k)
				if !c35Has(e.Perm.Kinds, k) {
					res.Mismatch("gate:"+class+":"+k, fmt.Sprintf("%s node: %s from a %s (claimed address: %s) had the effect %q, which the statement does not permit",
						role, m.T, sender, c35Claim(m), k), detail)
					bad = true
				}
			}
			// ---- the statement: what is recorded, under which addresses, owned by whom
			for rl, cells := range after {
				for o, c := range cells {
					old, had := before[rl][o]
					if had && reflect.DeepEqual(old, c) {
						continue
					}
					res.Hit("effect:store")
					ks := keys[rl]
					okKeys := true
					switch m.T {
					case "Update":
						okKeys = c35Subset(ks, e.Perm.Keys)
					case "QueryReply":
						okKeys = c35Subset(e.Perm.Keys, ks)
					}
					if !c35Has(e.Perm.Kinds, "store") || !c35Has(e.Perm.Owners, o) || !okKeys {
						res.Mismatch("gate:"+class+":store", fmt.Sprintf("%s node: %s from %v (claimed address: %s) wrote cache entries owned by %s under %v",
							role, m.T, m.From, c35Claim(m), o, lhSortedStrs(ks)), detail)
						bad = true
					}
				}
			}
			if bad {
				return
			}
			// ---- the machine: same effects, same cache
			want := c35NormEff(e.Eff)
			if !reflect.DeepEqual(eff, want) || !reflect.DeepEqual(view, lhNormView(e.View)) {
				if len(*drift) < 5 {
					*drift = append(*drift, detail)
				}
				res.Hit("drift")
				return
			}
			for _, k := range c35Kinds(want) {
				res.Hit("spec-effect:" + k)
			}
			if reloaded && (m.T == "QueryReply" || m.T == "Punch") && m.Cl != "" {
				// the gate decision after a reload, by the sender's relation to the old and the new lighthouse.hosts
				verdict := "refused"
				if len(kinds) > 0 {
					verdict = "honoured"
				}
				res.Hit("after-reload:" + verdict + ":" + m.T + ":from-" + sender)
			}
		}
	})
}

func TestVerif_C35(t *testing.T) {
	res := vNewResult()
	defer res.Write(t)
	drift := []any{}
	for _, file := range []string{"c35v.ndjson", "c35r.ndjson"} {
		n := 0
		vReadNDJSON(t, file, func(line []byte) {
			n++
			if n%2000 == 1 {
				res.Sample(json.RawMessage(append([]byte(nil), line...)))
			}
			c35Run(t, res, file, line, &drift)
		})
		res.Hit("file:" + file)
	}
	// bytes that are not a lighthouse message: nothing happens
	rnd := vRand()
	for _, am := range []bool{false, true} {
		lhBubble(t, func(t *testing.T) {
			n := lhNewNode(t, lhNodeCfg{Am: am, Lhs: []string{"L0"}, Statics: map[string][]int{"L0": {31}}})
			defer n.close()
			v0, _ := n.view()
			for i := 0; i < 300; i++ {
				b := make([]byte, 1+rnd.Intn(40))
				rnd.Read(b)
				if (&NebulaMeta{}).Unmarshal(b) == nil {
					continue
				}
				n.lhh.HandleRequest(lhUnder(1), lhAddrs([]string{"L0"}), b, n.w)
				res.Hit("garbage")
				res.Case(fmt.Sprintf("garbage/%v/%x", am, b))
			}
			eff := n.settle()
			v1, _ := n.view()
			if len(c35Kinds(eff)) > 0 || !reflect.DeepEqual(v0, v1) {
				res.Mismatch("gate:undecodable", "bytes that do not decode as a lighthouse message had an effect", map[string]any{"effects": eff})
			}
		})
	}
	res.Extra["drift"] = drift
}
