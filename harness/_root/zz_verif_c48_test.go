package nebula

// C48 — binding of spec/CalcRemote.tla to newCalculatedRemote / ApplyV4 / ApplyV6 /
// NewCalculatedRemotesFromConfig / LightHouse.addCalculatedRemotes.
//
// V: every TLC vector (abstract 8-bit addresses) is concretised under three stretch profiles per family (abstract bit i
// becomes a run of real bits, so abstract prefix lengths 0..8 land on /0../32 and /0../128 at byte and non-byte
// boundaries, next to and across the 64-bit word boundary of ApplyV6), written as YAML, parsed by the real config code
// and applied through the real lighthouse; the result (remote list of the peer) is compared with the stretched expectation.
// T: seeded random full-width configurations/addresses are run the same way and written, projected to bit strings of
// length 32/128, to obs.ndjson for Trace_CalcRemote.

import (
	"encoding/binary"
	"encoding/json"
	"fmt"
	"net/netip"
	"os"
	"sort"
	"strings"
	"testing"

	"github.com/gaissmai/bart"
	"github.com/slackhq/nebula/config"
	"github.com/slackhq/nebula/test"
)

type c48Entry struct {
	Rfam  string `json:"rfam"`
	Rbits []int  `json:"rbits"`
	Rlen  int    `json:"rlen"`
	Mfam  string `json:"mfam"`
	Mbits []int  `json:"mbits"`
	Mlen  int    `json:"mlen"`
	Port  int    `json:"port"`
}
type c48Addr struct {
	Fam  string `json:"fam"`
	Bits []int  `json:"bits"`
}
type c48Out struct {
	Fam  string `json:"fam"`
	Bits []int  `json:"bits"`
	Port int    `json:"port"`
}
type c48Vec struct {
	Q struct {
		Pf string `json:"pf"`
	} `json:"q"`
	In struct {
		Es []c48Entry `json:"es"`
		A  c48Addr    `json:"a"`
	} `json:"in"`
	Exp struct {
		Err    bool     `json:"err"`
		Out    []c48Out `json:"out"`
		Direct []struct {
			Use  bool  `json:"use"`
			Bits []int `json:"bits"`
			Port int   `json:"port"`
		} `json:"direct"`
	} `json:"exp"`
}

// stretch profiles: run length of real bits per abstract bit (sum 32 / 128)
var c48Prof4 = [][]int{{4, 4, 4, 4, 4, 4, 4, 4}, {1, 7, 3, 5, 2, 6, 4, 4}, {3, 5, 8, 8, 1, 2, 4, 1}}
var c48Prof6 = [][]int{{16, 16, 16, 16, 16, 16, 16, 16}, {1, 63, 1, 7, 24, 8, 23, 1}, {8, 8, 16, 31, 2, 31, 16, 16}}

func c48Profile(fam string, k int) []int {
	if fam == "v4" {
		return c48Prof4[k]
	}
	return c48Prof6[k]
}

// c48Stretch turns abstract bits into a real address under a profile (nil profile: bits are already full width).
func c48Stretch(fam string, bits []int, prof []int) netip.Addr {
	n := 4
	if fam == "v6" {
		n = 16
	}
	b := make([]byte, n)
	pos := 0
	for i, v := range bits {
		run := 1
		if prof != nil {
			run = prof[i]
		}
		for j := 0; j < run; j++ {
			if v != 0 {
				b[pos/8] |= 0x80 >> (pos % 8)
			}
			pos++
		}
	}
	if pos != n*8 {
		panic(fmt.Sprintf("c48: %d bits for %s", pos, fam))
	}
	a, _ := netip.AddrFromSlice(b)
	return a
}

func c48Len(l int, prof []int) int {
	if prof == nil {
		return l
	}
	s := 0
	for i := 0; i < l; i++ {
		s += prof[i]
	}
	return s
}

func c48BitsOf(a netip.Addr) []int {
	b := a.AsSlice()
	out := make([]int, 0, len(b)*8)
	for _, x := range b {
		for k := 7; k >= 0; k-- {
			out = append(out, int(x>>k)&1)
		}
	}
	return out
}

func c48Fam(a netip.Addr) string {
	if a.Is4() {
		return "v4"
	}
	return "v6"
}

type c48Concrete struct {
	rng, mask netip.Prefix
	port      int
}

func c48YAML(es []c48Concrete, pform string) string {
	var sb strings.Builder
	sb.WriteString("lighthouse:\n  calculated_remotes:\n")
	last := ""
	for _, e := range es {
		// entries of one range are the items of that range's list
		if r := e.rng.String(); r != last {
			fmt.Fprintf(&sb, "    %q:\n", r)
			last = r
		}
		fmt.Fprintf(&sb, "      - mask: %q\n", e.mask.String())
		if pform == "str" {
			fmt.Fprintf(&sb, "        port: \"%d\"\n", e.port)
		} else {
			fmt.Fprintf(&sb, "        port: %d\n", e.port)
		}
	}
	return sb.String()
}

var c48Own = netip.MustParsePrefix("5555:5555:5555:5555:5555:5555:5555:5555/128")

// c48Run parses the configuration with the real code and asks the real lighthouse for the calculated remotes of addr.
func c48Run(yaml string, addr netip.Addr) (cfgErr error, ret bool, got []netip.AddrPort) {
	l := test.NewLogger()
	c := config.NewC(l)
	if err := c.LoadString(yaml); err != nil {
		panic(fmt.Sprintf("c48: yaml: %v\n%s", err, yaml))
	}
	table, err := NewCalculatedRemotesFromConfig(c, "lighthouse.calculated_remotes")
	if err != nil {
		return err, false, nil
	}
	lh := &LightHouse{l: l, addrMap: map[netip.Addr]*RemoteList{}, queryChan: make(chan netip.Addr, 10)}
	lh.myVpnNetworks = []netip.Prefix{c48Own}
	lh.myVpnNetworksTable = new(bart.Lite)
	lh.myVpnNetworksTable.Insert(c48Own)
	lh.remoteAllowList.Store(&RemoteAllowList{})
	lh.calculatedRemotes.Store(table)
	ret = lh.addCalculatedRemotes(addr)
	if rl := lh.addrMap[addr]; rl != nil {
		got = rl.CopyAddrs(nil)
	}
	return nil, ret, got
}

// c48SetString renders a set of remotes; an IPv4-mapped IPv6 result (::ffff:a.b.c.d, which the lighthouse hands out
// unmapped) and its unmapped form are the same address.
func c48SetString(aps []netip.AddrPort) string {
	s := make([]string, len(aps))
	for i, a := range aps {
		s[i] = netip.AddrPortFrom(a.Addr().Unmap(), a.Port()).String()
	}
	sort.Strings(s)
	return strings.Join(s, " ")
}

func TestVerif_C48(t *testing.T) {
	res := vNewResult()
	defer res.Write(t)
	n := 0
	vReadNDJSON(t, "vectors.ndjson", func(line []byte) {
		var v c48Vec
		if err := json.Unmarshal(line, &v); err != nil {
			t.Fatalf("vector: %v: %s", err, line)
		}
		n++
		if n%2500 == 1 {
			res.Sample(json.RawMessage(append([]byte(nil), line...)))
		}
		afam := v.In.A.Fam
		for k := 0; k < 3; k++ {
			res.Case(fmt.Sprintf("%d/%s", k, line))
			addr := c48Stretch(afam, v.In.A.Bits, c48Profile(afam, k))
			var ces []c48Concrete
			for _, e := range v.In.Es {
				ces = append(ces, c48Concrete{
					rng:  netip.PrefixFrom(c48Stretch(e.Rfam, e.Rbits, c48Profile(e.Rfam, k)), c48Len(e.Rlen, c48Profile(e.Rfam, k))),
					mask: netip.PrefixFrom(c48Stretch(e.Mfam, e.Mbits, c48Profile(e.Mfam, k)), c48Len(e.Mlen, c48Profile(e.Mfam, k))),
					port: e.Port,
				})
			}
			yaml := c48YAML(ces, v.Q.Pf)
			detail := map[string]any{"yaml": yaml, "addr": addr.String(), "vector": json.RawMessage(append([]byte(nil), line...))}

			// ---- configuration path
			cfgErr, ret, got := c48Run(yaml, addr)
			if v.Exp.Err {
				res.Hit("refused-config")
				if cfgErr == nil {
					res.Mismatch("config:accepts-invalid", fmt.Sprintf("configuration accepted although the specification refuses it (family mix or port): %s", yaml), detail)
				}
			} else if cfgErr != nil {
				res.Mismatch("config:refuses-valid", fmt.Sprintf("valid configuration refused: %v", cfgErr), detail)
			} else {
				var want []netip.AddrPort
				for _, o := range v.Exp.Out {
					want = append(want, netip.AddrPortFrom(c48Stretch(o.Fam, o.Bits, c48Profile(o.Fam, k)), uint16(o.Port)))
				}
				if len(want) > 0 {
					res.Hit("produced:" + afam)
					if len(want) > 1 {
						res.Hit("produced:several-entries-of-one-range")
					}
				} else {
					res.Hit("not-produced:" + afam)
				}
				if ret != (len(want) > 0) {
					res.Mismatch("produce:"+afam+":return", fmt.Sprintf("addCalculatedRemotes(%s) returned %v, specification produces %d remotes", addr, ret, len(want)), detail)
				}
				if c48SetString(got) != c48SetString(want) {
					key := "apply:" + afam + ":address"
					switch {
					case len(want) == 0:
						key = "produce:" + afam + ":outside-range-or-family"
					case len(got) == 0:
						key = "produce:" + afam + ":inside-range-missing"
					case len(got) == len(want) && len(got) == 1 && got[0].Addr().Unmap() == want[0].Addr().Unmap():
						key = "apply:" + afam + ":port"
					}
					res.Mismatch(key, fmt.Sprintf("calculated remotes of %s are {%s}, specification {%s}; config:\n%s", addr, c48SetString(got), c48SetString(want), yaml), detail)
				}
			}

			// ---- ApplyV4 / ApplyV6 called directly (pure splice, whatever the range)
			for j, d := range v.Exp.Direct {
				if !d.Use {
					continue
				}
				cr, err := newCalculatedRemote(ces[j].rng, ces[j].mask, ces[j].port)
				if err != nil {
					res.Mismatch("config:refuses-valid", fmt.Sprintf("newCalculatedRemote(%s,%s,%d): %v", ces[j].rng, ces[j].mask, ces[j].port, err), detail)
					continue
				}
				want := netip.AddrPortFrom(c48Stretch(afam, d.Bits, c48Profile(afam, k)), uint16(d.Port))
				var gotAP netip.AddrPort
				var rawPort uint32
				if afam == "v4" {
					r := cr.ApplyV4(addr)
					gotAP, rawPort = protoV4AddrPortToNetAddrPort(r), r.Port
					res.Hit("ApplyV4")
				} else {
					r := cr.ApplyV6(addr)
					var raw [16]byte
					binary.BigEndian.PutUint64(raw[:8], r.Hi)
					binary.BigEndian.PutUint64(raw[8:], r.Lo)
					gotAP, rawPort = netip.AddrPortFrom(netip.AddrFrom16(raw), uint16(r.Port)), r.Port
					res.Hit("ApplyV6")
				}
				if gotAP.Addr() != want.Addr() {
					res.Mismatch("apply:"+afam+":address", fmt.Sprintf("Apply(mask %s, %s) = %s, specification %s", ces[j].mask, addr, gotAP.Addr(), want.Addr()), detail)
				}
				if int(rawPort) != d.Port {
					res.Mismatch("apply:"+afam+":port", fmt.Sprintf("Apply(mask %s port %d, %s) has port %d", ces[j].mask, d.Port, addr, rawPort), detail)
				}
			}
		}
	})

	// ---- T: seeded random full-width cases through the configuration path, judged by Trace_CalcRemote
	rnd := vRand()
	f, err := os.Create(vOut("obs.ndjson"))
	if err != nil {
		t.Fatal(err)
	}
	defer f.Close()
	enc := json.NewEncoder(f)
	N := 1000
	if !vQuick() {
		N = 5000
	}
	randAddr := func(fam string) netip.Addr {
		n := 4
		if fam == "v6" {
			n = 16
		}
		b := make([]byte, n)
		for i := range b {
			switch rnd.Intn(4) {
			case 0:
				b[i] = 0
			case 1:
				b[i] = 0xff
			default:
				b[i] = byte(rnd.Intn(256))
			}
		}
		a, _ := netip.AddrFromSlice(b)
		return a
	}
	for i := 0; i < N; i++ {
		fam := []string{"v4", "v6"}[rnd.Intn(2)]
		L := 32
		if fam == "v6" {
			L = 128
		}
		addr := randAddr(fam)
		nEntries := 1 + rnd.Intn(2)
		var ces []c48Concrete
		var oes []c48Entry
		for j := 0; j < nEntries; j++ {
			efam := fam
			if j == 1 { // a second entry is always of the other family (ranges of one family would nest)
				efam = map[string]string{"v4": "v6", "v6": "v4"}[fam]
			}
			eL := 32
			if efam == "v6" {
				eL = 128
			}
			rlen := rnd.Intn(eL + 1)
			if rnd.Intn(3) == 0 {
				rlen = []int{0, 1, eL / 2, eL/2 + 1, eL - 1, eL}[rnd.Intn(6)]
			}
			raddr := randAddr(efam)
			if efam == fam && rnd.Intn(4) != 0 {
				// mostly: the address' own prefix, sometimes with the last prefix bit flipped
				raddr = addr
				if rlen > 0 && rnd.Intn(3) == 0 {
					b := raddr.AsSlice()
					b[(rlen-1)/8] ^= 0x80 >> ((rlen - 1) % 8)
					raddr, _ = netip.AddrFromSlice(b)
				}
			}
			mlen := rnd.Intn(eL + 1)
			if rnd.Intn(3) == 0 {
				mlen = []int{0, 1, eL/2 - 1, eL / 2, eL/2 + 1, eL - 1, eL}[rnd.Intn(7)]
			}
			maddr := randAddr(efam)
			port := []int{0, 1, 4242, 65535, rnd.Intn(65536)}[rnd.Intn(5)]
			ces = append(ces, c48Concrete{netip.PrefixFrom(raddr, rlen), netip.PrefixFrom(maddr, mlen), port})
			oes = append(oes, c48Entry{efam, c48BitsOf(raddr), rlen, efam, c48BitsOf(maddr), mlen, port})
		}
		_ = L
		yaml := c48YAML(ces, []string{"int", "str"}[rnd.Intn(2)])
		cfgErr, ret, got := c48Run(yaml, addr)
		outs := []c48Out{}
		for _, g := range got {
			ga := g.Addr()
			if ga.Is4() && fam == "v6" { // a mapped result comes back unmapped: same address
				ga = netip.AddrFrom16(ga.As16())
			}
			outs = append(outs, c48Out{c48Fam(ga), c48BitsOf(ga), int(g.Port())})
		}
		res.Hit("T:" + fam)
		res.Case(fmt.Sprintf("T/%d/%s/%s", i, yaml, addr))
		if err := enc.Encode(map[string]any{"k": i, "es": oes, "a": c48Addr{fam, c48BitsOf(addr)}, "err": cfgErr != nil,
			"ret": ret, "got": outs, "yaml": yaml, "addr": addr.String()}); err != nil {
			t.Fatal(err)
		}
	}
}
