package nebula

// Shared by the data-plane harnesses (C12, C13): a real handshake producing real keys, and a
// CipherState wrapper that parks goroutines inside the AEAD call so that the harness can impose the
// interleaving of the critical sections that TLC enumerates.

import (
	"fmt"
	"net/netip"
	"sync"
	"testing"
	"time"

	"github.com/flynn/noise"
	"github.com/slackhq/nebula/cert"
	ct "github.com/slackhq/nebula/cert_test"
	"github.com/slackhq/nebula/handshake"
	"github.com/slackhq/nebula/header"
	"github.com/slackhq/nebula/noiseutil"
)

// dpHandshake runs a real IX handshake and returns both results.
func dpHandshake(t testing.TB, curve cert.Curve, aes bool) (initR, respR *handshake.Result) {
	t.Helper()
	ca, _, caKey, _ := ct.NewTestCaCert(cert.Version2, curve, time.Time{}, time.Time{}, nil, nil, nil)
	caPool := ct.NewTestCAPool(ca)
	dh := noise.DH25519
	if curve == cert.Curve_P256 {
		dh = noiseutil.DHP256
	}
	cipher := noise.CipherChaChaPoly
	if aes {
		cipher = noiseutil.CipherAESGCM
	}
	makeCreds := func(name string, networks []netip.Prefix) handshake.GetCredentialFunc {
		c, _, rawKey, _ := ct.NewTestCert(cert.Version2, curve, ca, caKey, name, ca.NotBefore(), ca.NotAfter(), networks, nil, nil)
		priv, _, _, err := cert.UnmarshalPrivateKeyFromPEM(rawKey)
		if err != nil {
			t.Fatalf("verif: key: %v", err)
		}
		hsBytes, err := c.MarshalForHandshakes()
		if err != nil {
			t.Fatalf("verif: marshal: %v", err)
		}
		cred := handshake.NewCredential(c, hsBytes, priv, noise.NewCipherSuite(dh, cipher, noise.HashSHA256))
		return func(v cert.Version) *handshake.Credential {
			if v == cert.Version2 {
				return cred
			}
			return nil
		}
	}
	verifier := func(c cert.Certificate) (*cert.CachedCertificate, error) {
		return caPool.VerifyCertificate(time.Now(), c)
	}
	initM, err := handshake.NewMachine(cert.Version2, makeCreds("initiator", []netip.Prefix{netip.MustParsePrefix("10.0.0.1/24")}), verifier,
		func() (uint32, error) { return 1000, nil }, true, header.HandshakeIXPSK0)
	if err != nil {
		t.Fatalf("verif: machine: %v", err)
	}
	respM, err := handshake.NewMachine(cert.Version2, makeCreds("responder", []netip.Prefix{netip.MustParsePrefix("10.0.0.2/24")}), verifier,
		func() (uint32, error) { return 2000, nil }, false, header.HandshakeIXPSK0)
	if err != nil {
		t.Fatalf("verif: machine: %v", err)
	}
	msg1, err := initM.Initiate(nil)
	if err != nil {
		t.Fatalf("verif: initiate: %v", err)
	}
	resp, respR, err := respM.ProcessPacket(nil, msg1)
	if err != nil || respR == nil {
		t.Fatalf("verif: stage1: %v", err)
	}
	_, initR, err = initM.ProcessPacket(nil, resp)
	if err != nil || initR == nil {
		t.Fatalf("verif: stage2: %v", err)
	}
	return initR, respR
}

// dpArrival is one goroutine parked inside an AEAD call.
type dpArrival struct {
	enc     bool
	n       uint64
	release chan struct{}
}

// dpGate wraps a real CipherState. Every call announces itself on arrive and waits for release;
// the real AEAD runs after the release, and successful encryptions are recorded in order.
type dpGate struct {
	inner  noiseutil.CipherState
	arrive chan *dpArrival
	mu     sync.Mutex
	order  []uint64 // nonces of successful EncryptDanger calls, in the order they reached the AEAD
	decs   []uint64 // nonces of successful DecryptDanger calls
}

func dpNewGate(inner noiseutil.CipherState) *dpGate {
	return &dpGate{inner: inner, arrive: make(chan *dpArrival, 64)}
}

func (g *dpGate) EncryptDanger(out, ad, plaintext []byte, n uint64, nb []byte) (o []byte, err error) {
	a := &dpArrival{enc: true, n: n, release: make(chan struct{})}
	g.arrive <- a
	<-a.release
	g.mu.Lock()
	defer g.mu.Unlock()
	defer func() {
		// the FIPS AEAD panics when nonces do not increase: the nonce did reach the cipher, record it
		if r := recover(); r != nil {
			g.order = append(g.order, n)
			err = fmt.Errorf("AEAD panic: %v", r)
		}
	}()
	o, err = g.inner.EncryptDanger(out, ad, plaintext, n, nb)
	if err == nil {
		g.order = append(g.order, n)
	}
	return o, err
}

func (g *dpGate) DecryptDanger(out, ad, ciphertext []byte, n uint64, nb []byte) ([]byte, error) {
	a := &dpArrival{n: n, release: make(chan struct{})}
	g.arrive <- a
	<-a.release
	o, err := g.inner.DecryptDanger(out, ad, ciphertext, n, nb)
	if err == nil {
		g.mu.Lock()
		g.decs = append(g.decs, n)
		g.mu.Unlock()
	}
	return o, err
}

func (g *dpGate) Overhead() int { return g.inner.Overhead() }

// dpAwait waits until the goroutine whose completion is signalled on done either parks at the gate
// (returns the arrival) or finishes (returns nil).
func dpAwait(g *dpGate, done <-chan struct{}) *dpArrival {
	select {
	case a := <-g.arrive:
		return a
	case <-done:
		// it may have arrived and been... no: a parked goroutine cannot finish. Drain nothing.
		return nil
	case <-time.After(20 * time.Second):
		panic(fmt.Sprintf("verif: goroutine neither reached the AEAD nor finished"))
	}
}
