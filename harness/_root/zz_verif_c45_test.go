package nebula

// C45 — binding of spec/SshPath.tla to sshSanitizeFilePath.
//
// V: every TLC vector (sandbox, path; components over {"..", ".", "", a, b}) is written out as strings under several
// spellings of the two names (s / sx: similar-prefix siblings in both directions; s / t; a longer realistic name) and run
// through the real function; acceptance is compared with the required verdict and the returned path must clean to the
// resolved location.
// T: seeded random concrete sandboxes and paths (longer, odd names) are run, split into components and written to
// obs.ndjson for Trace_SshPath.

import (
	"encoding/json"
	"fmt"
	"os"
	"path/filepath"
	"strings"
	"testing"
)

type c45Path struct {
	Abs   bool     `json:"abs"`
	Comps []string `json:"comps"`
}
type c45Vec struct {
	Sb  c45Path `json:"sb"`
	P   c45Path `json:"p"`
	Exp struct {
		Loc struct {
			Abs   bool     `json:"abs"`
			Stack []string `json:"stack"`
		} `json:"loc"`
		Must string `json:"must"`
	} `json:"exp"`
}

var c45Spellings = [][2]string{{"s", "sx"}, {"sx", "s"}, {"s", "t"}, {"nebula-debug", "nebula-debug.old"}}

func c45Spell(c string, sp [2]string) string {
	switch c {
	case "a":
		return sp[0]
	case "b":
		return sp[1]
	}
	return c
}

func c45String(p c45Path, sp [2]string) string {
	cs := make([]string, len(p.Comps))
	for i, c := range p.Comps {
		cs[i] = c45Spell(c, sp)
	}
	s := strings.Join(cs, "/")
	if p.Abs {
		return "/" + s
	}
	return s
}

func c45Split(s string) c45Path {
	p := c45Path{Comps: []string{}}
	if strings.HasPrefix(s, "/") {
		p.Abs = true
		s = s[1:]
	}
	if s != "" {
		p.Comps = strings.Split(s, "/")
	}
	return p
}

// class of a sandbox by its cleaned form (for the mismatch key)
func c45Class(sandbox string) string {
	c := filepath.Clean(sandbox)
	switch {
	case c == "/":
		return "root-sandbox"
	case c == ".":
		return "dot-sandbox"
	case c == ".." || strings.HasSuffix(c, "/.."):
		return "dotdot-sandbox"
	case strings.HasPrefix(c, "/"):
		return "absolute-sandbox"
	}
	return "relative-sandbox"
}

func TestVerif_C45(t *testing.T) {
	if filepath.Separator != '/' {
		t.Skip("lexical model is written for '/' separators")
	}
	res := vNewResult()
	defer res.Write(t)
	n := 0
	free := map[string]int{}
	vReadNDJSON(t, "vectors.ndjson", func(line []byte) {
		var v c45Vec
		if err := json.Unmarshal(line, &v); err != nil {
			t.Fatalf("vector: %v: %s", err, line)
		}
		n++
		if n%6000 == 1 {
			res.Sample(json.RawMessage(append([]byte(nil), line...)))
		}
		for si, sp := range c45Spellings {
			if vQuick() && si == 3 {
				break
			}
			sandbox, path := c45String(v.Sb, sp), c45String(v.P, sp)
			if sandbox == "" {
				t.Fatalf("empty sandbox in vector %s", line)
			}
			res.Case(sandbox + "\x00" + path)
			got, err := sshSanitizeFilePath(sandbox, path)
			class := c45Class(sandbox)
			detail := map[string]any{"sandbox": sandbox, "path": path, "returned": got, "error": fmt.Sprint(err), "vector": json.RawMessage(append([]byte(nil), line...))}
			wantLoc := c45String(c45Path{v.Exp.Loc.Abs, v.Exp.Loc.Stack}, sp)
			if !v.Exp.Loc.Abs && len(v.Exp.Loc.Stack) == 0 {
				wantLoc = "."
			}
			res.Hit(v.Exp.Must + ":" + class)
			switch v.Exp.Must {
			case "refuse":
				if err == nil {
					res.Mismatch("unsafe-accept:"+class, fmt.Sprintf("sshSanitizeFilePath(%q, %q) accepted as %q: resolves to %q, not strictly inside the sandbox", sandbox, path, got, wantLoc), detail)
				}
			case "accept":
				if err != nil {
					res.Mismatch("refuses-inside:"+class, fmt.Sprintf("sshSanitizeFilePath(%q, %q) refused (%v) although it resolves to %q inside the sandbox", sandbox, path, err, wantLoc), detail)
				}
			case "free":
				if err != nil {
					free[class]++
					if free[class] == 1 {
						res.Extra["observation_refuses_inside_"+class] = fmt.Sprintf("sshSanitizeFilePath(%q, %q) refused although %q is inside (nameless sandbox: not required)", sandbox, path, wantLoc)
					}
				}
			}
			if err == nil && v.Exp.Must != "refuse" && filepath.Clean(got) != wantLoc {
				res.Mismatch("wrong-location:"+class, fmt.Sprintf("sshSanitizeFilePath(%q, %q) = %q, which is not the location %q", sandbox, path, got, wantLoc), detail)
			}
		}
	})
	for k, c := range free {
		res.Extra["observation_refuses_inside_count_"+k] = c
	}
	// an unset sandbox keeps the path as it is (documented compatibility behaviour, outside the statement)
	if got, err := sshSanitizeFilePath("", "../x"); err != nil || got != "../x" {
		res.Extra["observation_no_sandbox"] = fmt.Sprintf("sshSanitizeFilePath(\"\", \"../x\") = %q, %v", got, err)
	}

	// ---- T: random concrete strings
	rnd := vRand()
	f, err := os.Create(vOut("obs.ndjson"))
	if err != nil {
		t.Fatal(err)
	}
	defer f.Close()
	enc := json.NewEncoder(f)
	N := 3000
	if !vQuick() {
		N = 20000
	}
	names := []string{"s", "sx", "s.", ".s", "...", "s x", "S", "nebula-debug", "nebula-debug2", "tmp", "..s", "s..", "x"}
	comp := func() string {
		switch rnd.Intn(10) {
		case 0, 1:
			return ".."
		case 2:
			return "."
		case 3:
			return ""
		}
		return names[rnd.Intn(len(names))]
	}
	sandboxes := []string{"/s", "/s/", "/s/sx", "/sx", "/tmp/nebula-debug", "/tmp/nebula-debug/", "/tmp//nebula-debug/.", "/s/../sx", "s", "s/", "./s", "s/sx/..", "../s", "/", ".", "..", "/...", "/s x/"}
	for k := 0; k < N; k++ {
		sandbox := sandboxes[rnd.Intn(len(sandboxes))]
		var cs []string
		nc := rnd.Intn(9)
		// often start inside the sandbox spelled out
		abs := rnd.Intn(2) == 0
		if abs && rnd.Intn(3) != 0 {
			for _, c := range strings.Split(strings.Trim(filepath.Clean(sandbox), "/"), "/") {
				if c != "" {
					cs = append(cs, c)
				}
			}
			if rnd.Intn(4) == 0 && len(cs) > 0 {
				cs[len(cs)-1] += []string{"x", ".", "2", " "}[rnd.Intn(4)] // a sibling with a similar prefix
			}
		}
		for i := 0; i < nc; i++ {
			cs = append(cs, comp())
		}
		path := strings.Join(cs, "/")
		if abs && strings.HasPrefix(filepath.Clean(sandbox), "/") || abs && rnd.Intn(2) == 0 {
			path = "/" + path
		}
		got, err := sshSanitizeFilePath(sandbox, path)
		res.Hit("T:" + c45Class(sandbox))
		res.Case("T/" + sandbox + "\x00" + path)
		o := map[string]any{"k": k, "sb": c45Split(sandbox), "p": c45Split(path), "accepted": err == nil, "ret": c45Split(got),
			"sandbox": sandbox, "path": path, "returned": got, "class": c45Class(sandbox)}
		if err := enc.Encode(o); err != nil {
			t.Fatal(err)
		}
	}
}
