package nebula

// Shared by the C35 / C36 harnesses: concretisation of spec/Lighthouse.tla's abstract world, a real LightHouse built
// from configuration with a recording EncWriter / udp.Conn, and the projection of its state back onto the
// specification's vocabulary.  Nodes live inside a testing/synctest bubble so that the punch scheduler's timers are
// virtual: after a step the harness sleeps past every delay and waits for quiescence.

import (
	"bytes"
	"context"
	"encoding/binary"
	"encoding/json"
	"fmt"
	"io"
	"log/slog"
	"net/netip"
	"sort"
	"sync"
	"testing"
	"testing/synctest"
	"time"

	"github.com/gaissmai/bart"
	"github.com/slackhq/nebula/cert"
	"github.com/slackhq/nebula/config"
	"github.com/slackhq/nebula/header"
	"github.com/slackhq/nebula/udp"
	"go.yaml.in/yaml/v3"
)

var lhOverlay = map[string]netip.Addr{}
var lhOverlayBack = map[netip.Addr]string{}
var lhUnderTab = map[int]netip.Addr{}
var lhUnderBackTab = map[netip.Addr]int{}

const lhPort = 4242

func init() {
	for k, v := range map[string]string{
		"M1": "10.128.0.1", "M6": "fd00:80::1", "S1": "10.128.0.2", "S2": "10.128.0.3", "S6": "fd00:80::2",
		"T1": "10.128.0.4", "T6": "fd00:80::3", "O1": "10.128.0.50", "U1": "10.128.0.77",
		"L0": "10.128.0.100", "L1": "10.128.0.101", "L2": "10.128.0.102",
		"P1": "10.128.1.5", "P2": "10.128.2.5", "P3": "10.128.1.6",
		"R1": "10.128.0.9", "R2": "10.128.0.20", "R6": "fd00:80::9",
	} {
		a := netip.MustParseAddr(v)
		lhOverlay[k] = a
		lhOverlayBack[a] = k
	}
	u := map[int]string{1: "192.0.2.1", 2: "192.0.2.2", 3: "2001:db8:1::3", 4: "10.128.7.7", 5: "fd00:80::77", 6: "203.0.113.9",
		7: "198.51.100.9", 8: "2001:db8:dead::8", 9: "192.0.2.66", 40: "192.0.2.5", 41: "10.128.7.5", 42: "203.0.113.5", 43: "198.51.100.5",
		44: "2001:db8:beef::9", 45: "192.0.2.200", 46: "2001:db8:cafe::9", 47: "2001:db8:1::47", 48: "2001:db8:1::48"}
	for i := 11; i <= 22; i++ {
		u[i] = fmt.Sprintf("192.0.2.%d", 100+i)
	}
	for i := 31; i <= 39; i++ {
		u[i] = fmt.Sprintf("192.0.2.%d", i)
	}
	for k, v := range u {
		a := netip.MustParseAddr(v)
		lhUnderTab[k] = a
		lhUnderBackTab[a] = k
	}
}

// the harness' own classification of underlay addresses (prefix arithmetic, not the code's allow list)
var lhMyNets = []netip.Prefix{netip.MustParsePrefix("10.128.0.0/16"), netip.MustParsePrefix("fd00:80::/64")}
var lhDeniedGlobal = []netip.Prefix{netip.MustParsePrefix("203.0.113.0/24"), netip.MustParsePrefix("2001:db8:dead::/48")}

// remote_allow_ranges: overlay range -> underlay prefixes denied for peers inside it.  The lighthouses sit in the second
// range, the peers P1/P3 in the first: the sender of a message and the peer it is about fall under different lists.
var lhDeniedRanges = []struct {
	inside netip.Prefix
	denied []netip.Prefix
}{
	{netip.MustParsePrefix("10.128.1.0/24"), []netip.Prefix{netip.MustParsePrefix("198.51.100.0/24"), netip.MustParsePrefix("2001:db8:beef::/48")}},
	{netip.MustParsePrefix("10.128.0.0/24"), []netip.Prefix{netip.MustParsePrefix("192.0.2.200/32"), netip.MustParsePrefix("2001:db8:cafe::/48")}},
}

// An address is classified by what it is: an IPv4-mapped IPv6 spelling is the IPv4 address.
func lhClass(peer netip.Addr, a netip.Addr) string {
	a = a.Unmap()
	for _, p := range lhMyNets {
		if p.Contains(a) {
			return "inOverlay"
		}
	}
	for _, p := range lhDeniedGlobal {
		if p.Contains(a) {
			return "deniedGlobal"
		}
	}
	for _, r := range lhDeniedRanges {
		if peer.IsValid() && r.inside.Contains(peer) {
			for _, d := range r.denied {
				if d.Contains(a) {
					return "deniedPeer"
				}
			}
		}
	}
	return "ok"
}

// lhMappedBase: id + lhMappedBase is the IPv4 address id spelled as an IPv4-mapped IPv6 address (::ffff:a.b.c.d).
const lhMappedBase = 100

func lhUnder(id int) netip.AddrPort {
	if id > lhMappedBase {
		a, ok := lhUnderTab[id-lhMappedBase]
		if !ok || !a.Is4() {
			panic(fmt.Sprintf("verif: underlay id %d has no IPv4-mapped spelling", id))
		}
		return netip.AddrPortFrom(netip.AddrFrom16(a.As16()), lhPort)
	}
	a, ok := lhUnderTab[id]
	if !ok {
		panic(fmt.Sprintf("verif: unknown underlay id %d", id))
	}
	return netip.AddrPortFrom(a, lhPort)
}

// lhUnderBack names the address a destination IS (a destination spelled ::ffff:a.b.c.d is a.b.c.d at the socket).
func lhUnderBack(a netip.AddrPort) int {
	id, ok := lhUnderBackTab[a.Addr().Unmap()]
	if !ok || a.Port() != lhPort {
		return -1
	}
	return id
}

// lhUnderBackSpelled keeps the spelling (cache entries, messages): the mapped spelling of id is id + lhMappedBase.
func lhUnderBackSpelled(a netip.AddrPort) int {
	id := lhUnderBack(a)
	if id > 0 && a.Addr().Is4In6() {
		return id + lhMappedBase
	}
	return id
}

// lhV6 is the harness' own reading of a V6AddrPort: the sixteen bytes as they are.
func lhV6(ap *V6AddrPort) netip.AddrPort {
	var b [16]byte
	binary.BigEndian.PutUint64(b[:8], ap.Hi)
	binary.BigEndian.PutUint64(b[8:], ap.Lo)
	return netip.AddrPortFrom(netip.AddrFrom16(b), uint16(ap.Port))
}

func lhName(a netip.Addr) string {
	if !a.IsValid() {
		return ""
	}
	if n, ok := lhOverlayBack[a]; ok {
		return n
	}
	return "?" + a.String()
}

func lhAddrs(names []string) []netip.Addr {
	out := make([]netip.Addr, len(names))
	for i, n := range names {
		out[i] = lhOverlay[n]
	}
	return out
}

// lhMap is a TLA+ function with string keys; TLC prints the empty one as <<>>.
type lhMap[T any] map[string]T

func (m *lhMap[T]) UnmarshalJSON(b []byte) error {
	b = bytes.TrimSpace(b)
	if len(b) > 0 && b[0] == '[' {
		*m = lhMap[T]{}
		return nil
	}
	var x map[string]T
	if err := json.Unmarshal(b, &x); err != nil {
		return err
	}
	*m = x
	return nil
}

type lhMsg struct {
	From []string `json:"from"`
	T    string   `json:"t"`
	Cl   string   `json:"cl"`
	Enc  int      `json:"enc"`
	V4   []int    `json:"v4"`
	V6   []int    `json:"v6"`
	Rel  []string `json:"rel"`
	Nd   bool     `json:"nd"`
	// t = "Reload": the configuration is reloaded with lighthouse.hosts = Lhs; Flip: lighthouse.am_lighthouse in the file is
	// the opposite of the role the node started with
	Lhs  []string `json:"lhs"`
	Flip bool     `json:"flip"`
}

type lhSend struct {
	To  string   `json:"to"`
	T   string   `json:"t"`
	Cl  string   `json:"cl"`
	Enc int      `json:"enc"`
	V4  []int    `json:"v4"`
	V6  []int    `json:"v6"`
	Rel []string `json:"rel"`
}

type lhEff struct {
	Sends   []lhSend `json:"sends"`
	Punches []int    `json:"punches"`
	Back    []string `json:"back"`
	Trig    []string `json:"trig"`
	// punch destinations that were written in the IPv4-mapped spelling (they are the IPv4 address at the socket)
	PunchMapped map[int]bool `json:"-"`
}

type lhCell struct {
	V4  []int    `json:"v4"`
	V6  []int    `json:"v6"`
	Rel []string `json:"rel"`
	L4  int      `json:"l4"`
	L6  int      `json:"l6"`
}

type lhView = lhMap[lhMap[lhCell]]

var lhTypes = map[string]NebulaMeta_MessageType{"Query": NebulaMeta_HostQuery, "QueryReply": NebulaMeta_HostQueryReply,
	"Update": NebulaMeta_HostUpdateNotification, "UpdateAck": NebulaMeta_HostUpdateNotificationAck,
	"Moved": NebulaMeta_HostMovedNotification, "Punch": NebulaMeta_HostPunchNotification, "Unknown": NebulaMeta_MessageType(99)}

func lhTypeName(t NebulaMeta_MessageType) string {
	for k, v := range lhTypes {
		if v == t {
			return k
		}
	}
	return fmt.Sprintf("type%d", t)
}

// lhEncode builds the wire form of an abstract message.
func lhEncode(m *lhMsg) []byte {
	n := &NebulaMeta{Type: lhTypes[m.T]}
	if !m.Nd {
		d := &NebulaMetaDetails{}
		if m.Cl != "" {
			a := lhOverlay[m.Cl]
			if m.Enc == 1 {
				b := a.As4()
				d.OldVpnAddr = binary.BigEndian.Uint32(b[:])
			} else {
				d.VpnAddr = netAddrToProtoAddr(a)
			}
		}
		for _, x := range m.V4 {
			ap := lhUnder(x)
			d.V4AddrPorts = append(d.V4AddrPorts, netAddrToProtoV4AddrPort(ap.Addr(), ap.Port()))
		}
		for _, x := range m.V6 {
			ap := lhUnder(x)
			b := ap.Addr().As16() // (an IPv4-mapped spelling stays one)
			d.V6AddrPorts = append(d.V6AddrPorts, &V6AddrPort{Hi: binary.BigEndian.Uint64(b[:8]), Lo: binary.BigEndian.Uint64(b[8:]), Port: uint32(ap.Port())})
		}
		for _, r := range m.Rel {
			a := lhOverlay[r]
			if m.Enc == 1 {
				if a.Is4() {
					b := a.As4()
					d.OldRelayVpnAddrs = append(d.OldRelayVpnAddrs, binary.BigEndian.Uint32(b[:]))
				}
			} else {
				d.RelayVpnAddrs = append(d.RelayVpnAddrs, netAddrToProtoAddr(a))
			}
		}
		n.Details = d
	}
	b, err := n.Marshal()
	if err != nil {
		panic(err)
	}
	return b
}

// lhDecode projects a lighthouse message the node sent.
func lhDecode(to netip.Addr, p []byte) lhSend {
	n := &NebulaMeta{}
	if err := n.Unmarshal(p); err != nil {
		return lhSend{To: lhName(to), T: "undecodable"}
	}
	s := lhSend{To: lhName(to), T: lhTypeName(n.Type), V4: []int{}, V6: []int{}, Rel: []string{}}
	d := n.Details
	if d == nil {
		return s
	}
	if d.OldVpnAddr != 0 {
		var b [4]byte
		binary.BigEndian.PutUint32(b[:], d.OldVpnAddr)
		s.Cl, s.Enc = lhName(netip.AddrFrom4(b)), 1
	} else if d.VpnAddr != nil {
		s.Cl, s.Enc = lhName(protoAddrToNetAddr(d.VpnAddr)), 2
	}
	for _, a := range d.V4AddrPorts {
		s.V4 = append(s.V4, lhUnderBack(protoV4AddrPortToNetAddrPort(a)))
	}
	for _, a := range d.V6AddrPorts {
		s.V6 = append(s.V6, lhUnderBackSpelled(lhV6(a)))
	}
	for _, r := range d.OldRelayVpnAddrs {
		var b [4]byte
		binary.BigEndian.PutUint32(b[:], r)
		s.Rel = append(s.Rel, lhName(netip.AddrFrom4(b)))
	}
	for _, r := range d.RelayVpnAddrs {
		s.Rel = append(s.Rel, lhName(protoAddrToNetAddr(r)))
	}
	return s
}

// recording EncWriter
type lhWriter struct {
	mu    sync.Mutex
	sends []lhSend
	back  []string
}

func (w *lhWriter) SendVia(via *HostInfo, relay *Relay, ad, nb, out []byte, nocopy bool, q int) {}
func (w *lhWriter) Handshake(vpnAddr netip.Addr)                                                {}
func (w *lhWriter) GetHostInfo(vpnAddr netip.Addr) *HostInfo                                    { return nil }
func (w *lhWriter) GetCertState() *CertState                                                    { return &CertState{initiatingVersion: cert.Version2} }
func (w *lhWriter) SendMessageToHostInfo(t header.MessageType, st header.MessageSubType, hi *HostInfo, p, nb, out []byte) {
	w.SendMessageToVpnAddr(t, st, hi.vpnAddrs[0], p, nb, out)
}
func (w *lhWriter) SendMessageToVpnAddr(t header.MessageType, st header.MessageSubType, vpnAddr netip.Addr, p, nb, out []byte) {
	w.mu.Lock()
	defer w.mu.Unlock()
	switch t {
	case header.LightHouse:
		w.sends = append(w.sends, lhDecode(vpnAddr, append([]byte(nil), p...)))
	case header.Test:
		w.back = append(w.back, lhName(vpnAddr))
	default:
		w.sends = append(w.sends, lhSend{To: lhName(vpnAddr), T: fmt.Sprintf("header%d", t)})
	}
}

// recording udp.Conn: every datagram the node writes outside a tunnel (punches)
type lhConn struct {
	udp.NoopConn
	mu     sync.Mutex
	writes []netip.AddrPort
}

func (c *lhConn) WriteTo(b []byte, addr netip.AddrPort) error {
	c.mu.Lock()
	c.writes = append(c.writes, addr)
	c.mu.Unlock()
	return nil
}

type lhNodeCfg struct {
	Am      bool
	Lhs     []string
	Statics map[string][]int
	C36     bool // allow lists, calculated remotes, preferred ranges of the C36 world
}

type lhNode struct {
	t      testing.TB
	l      *slog.Logger
	cfg    lhNodeCfg
	c      *config.C
	lh     *LightHouse
	lhh    *LightHouseHandler
	w      *lhWriter
	conn   *lhConn
	punchy *Punchy
	hm     *HostMap
	trig   chan netip.Addr
	cancel context.CancelFunc
}

// lhSettings is the configuration file of a node.
func lhSettings(cfg lhNodeCfg) map[string]any {
	hosts := []any{}
	for _, h := range cfg.Lhs {
		hosts = append(hosts, lhOverlay[h].String())
	}
	lhc := map[string]any{"am_lighthouse": cfg.Am, "hosts": hosts,
		"remote_allow_list": map[string]any{"203.0.113.0/24": false, "2001:db8:dead::/48": false},
		"remote_allow_ranges": map[string]any{
			"10.128.1.0/24": map[string]any{"198.51.100.0/24": false, "2001:db8:beef::/48": false},
			"10.128.0.0/24": map[string]any{"192.0.2.200/32": false, "2001:db8:cafe::/48": false}},
	}
	if cfg.C36 {
		lhc["calculated_remotes"] = map[string]any{"10.128.1.0/24": []any{
			map[string]any{"mask": "192.0.2.0/24", "port": lhPort}, map[string]any{"mask": "10.128.7.0/24", "port": lhPort},
			map[string]any{"mask": "203.0.113.0/24", "port": lhPort}, map[string]any{"mask": "198.51.100.0/24", "port": lhPort}}}
	}
	shm := map[string]any{}
	for k, ids := range cfg.Statics {
		var l []any
		for _, id := range ids {
			l = append(l, lhUnder(id).String())
		}
		shm[lhOverlay[k].String()] = l
	}
	return map[string]any{
		"lighthouse":       lhc,
		"listen":           map[string]any{"port": lhPort},
		"punchy":           map[string]any{"punch": true, "respond": true, "delay": "1s", "respond_delay": "5s", "target_all_remotes": true},
		"preferred_ranges": []any{"192.0.2.2/32", "fd00:80::/64"},
		"static_host_map":  shm,
	}
}

func lhYAML(t testing.TB, cfg lhNodeCfg) string {
	b, err := yaml.Marshal(lhSettings(cfg))
	if err != nil {
		t.Fatalf("verif: yaml: %v", err)
	}
	return string(b)
}

// lhNewNode must be called inside a synctest bubble.  The configuration is loaded from its YAML text, as nebula does,
// so that a later reload (lhNode.reload) compares like with like.
// lhLogFlip alternates the log level of the nodes: behaviour must not depend on whether debug logging is on
// (handlers that return only inside an `if debug` block have been seen)
var lhLogFlip int

// lhLogChoice, when >= 0, decides the level of the next node (0 info, 1 debug): harnesses that build one node per vector
// derive it from the vector so that the level does not correlate with the enumeration order
var lhLogChoice = -1

func lhNewNode(t testing.TB, cfg lhNodeCfg) *lhNode {
	lhLogFlip++
	lvl := slog.LevelInfo
	if (lhLogChoice < 0 && lhLogFlip%2 == 0) || lhLogChoice == 1 {
		lvl = slog.LevelDebug
	}
	lhLogChoice = -1
	l := slog.New(slog.NewTextHandler(io.Discard, &slog.HandlerOptions{Level: lvl}))
	nets := []netip.Prefix{netip.MustParsePrefix("10.128.0.1/16"), netip.MustParsePrefix("fd00:80::1/64")}
	nt := new(bart.Lite)
	for _, p := range nets {
		nt.Insert(p.Masked())
	}
	cs := &CertState{myVpnNetworks: nets, myVpnNetworksTable: nt, initiatingVersion: cert.Version2}
	c := config.NewC(l)
	if err := c.LoadString(lhYAML(t, cfg)); err != nil {
		t.Fatalf("verif: configuration: %v", err)
	}

	ctx, cancel := context.WithCancel(context.Background())
	n := &lhNode{t: t, l: l, cfg: cfg, c: c, w: &lhWriter{}, conn: &lhConn{}, trig: make(chan netip.Addr, 64), cancel: cancel}
	n.punchy = NewPunchyFromConfig(l, c, n.conn)
	lh, err := NewLightHouseFromConfig(ctx, l, c, cs, nil, n.punchy)
	if err != nil {
		cancel()
		t.Fatalf("verif: NewLightHouseFromConfig: %v", err)
	}
	lh.ifce = n.w
	lh.handshakeTrigger = n.trig
	lh.localAddrsFn = func(*LocalAllowList) []netip.Addr { return nil }
	n.lh = lh
	n.lhh = lh.NewRequestHandler()
	n.hm = NewHostMapFromConfig(l, c)
	n.punchy.Start(ctx, n.w, n.hm, lh)
	return n
}

// reload is SIGHUP with an edited file (config.C.ReloadConfigString runs the callbacks the objects registered, among them
// LightHouse.reload): lighthouse.hosts := lhs, lighthouse.am_lighthouse := am, static_host_map gains the entries of
// `statics` (a lighthouse needs one).  Everything else in the file is unchanged and every object of the node is kept --
// in particular the LightHouseHandler, which a reader routine creates once for its whole life.
func (n *lhNode) reload(lhs []string, am bool, statics map[string][]int) {
	cfg := n.cfg
	cfg.Lhs, cfg.Am = append([]string{}, lhs...), am
	cfg.Statics = map[string][]int{}
	for k, v := range n.cfg.Statics {
		cfg.Statics[k] = v
	}
	for k, v := range statics {
		if _, ok := cfg.Statics[k]; !ok {
			cfg.Statics[k] = v
		}
	}
	if err := n.c.ReloadConfigString(lhYAML(n.t, cfg)); err != nil {
		n.t.Fatalf("verif: reload: %v", err)
	}
	n.cfg = cfg
}

func (n *lhNode) close() {
	n.cancel()
	synctest.Wait()
}

// settle lets every scheduled punch / punch-back fire and returns what the node did since the last call.
func (n *lhNode) settle() lhEff {
	time.Sleep(10 * time.Second)
	synctest.Wait()
	e := lhEff{Sends: []lhSend{}, Punches: []int{}, Back: []string{}, Trig: []string{}}
	n.w.mu.Lock()
	e.Sends = append(e.Sends, n.w.sends...)
	e.Back = append(e.Back, n.w.back...)
	n.w.sends, n.w.back = nil, nil
	n.w.mu.Unlock()
	n.conn.mu.Lock()
	seen := map[int]bool{}
	for _, a := range n.conn.writes {
		id := lhUnderBack(a)
		if a.Addr().Is4In6() {
			if e.PunchMapped == nil {
				e.PunchMapped = map[int]bool{}
			}
			e.PunchMapped[id] = true
		}
		if !seen[id] {
			seen[id] = true
			e.Punches = append(e.Punches, id)
		}
	}
	n.conn.writes = nil
	n.conn.mu.Unlock()
	sort.Ints(e.Punches)
	for {
		select {
		case a := <-n.trig:
			e.Trig = append(e.Trig, lhName(a))
			continue
		default:
		}
		break
	}
	return e
}

func (n *lhNode) handle(m *lhMsg) {
	from := lhAddrs(m.From)
	n.lhh.HandleRequest(netip.MustParseAddrPort("192.0.2.250:4242"), from, lhEncode(m), n.w)
}

func lhCellOf(c *cache) lhCell {
	out := lhCell{V4: []int{}, V6: []int{}, Rel: []string{}}
	if c.v4 != nil {
		if c.v4.learned != nil {
			out.L4 = lhUnderBack(protoV4AddrPortToNetAddrPort(c.v4.learned))
		}
		for _, a := range c.v4.reported {
			out.V4 = append(out.V4, lhUnderBack(protoV4AddrPortToNetAddrPort(a)))
		}
	}
	if c.v6 != nil {
		if c.v6.learned != nil {
			out.L6 = lhUnderBackSpelled(lhV6(c.v6.learned))
		}
		for _, a := range c.v6.reported {
			out.V6 = append(out.V6, lhUnderBackSpelled(lhV6(a)))
		}
	}
	if c.relay != nil {
		for _, r := range c.relay.relay {
			out.Rel = append(out.Rel, lhName(r))
		}
	}
	return out
}

// view projects addrMap: for every key, the cells (per owner) of the list it maps to.  Cells owned by me come from
// configuration in map order: they are compared as sets.
func (n *lhNode) view() (lhView, map[*RemoteList][]string) {
	v := lhView{}
	keys := map[*RemoteList][]string{}
	n.lh.RLock()
	defer n.lh.RUnlock()
	for k, rl := range n.lh.addrMap {
		rl.RLock()
		cells := lhMap[lhCell]{}
		for o, c := range rl.cache {
			cells[lhName(o)] = lhNormCell(lhName(o), lhCellOf(c))
		}
		rl.RUnlock()
		v[lhName(k)] = cells
		keys[rl] = append(keys[rl], lhName(k))
	}
	return v, keys
}

func lhNormCell(owner string, c lhCell) lhCell {
	if c.V4 == nil {
		c.V4 = []int{}
	}
	if c.V6 == nil {
		c.V6 = []int{}
	}
	if c.Rel == nil {
		c.Rel = []string{}
	}
	if owner == "M1" {
		c.V4 = append([]int(nil), c.V4...)
		c.V6 = append([]int(nil), c.V6...)
		sort.Ints(c.V4)
		sort.Ints(c.V6)
	}
	return c
}

func lhNormView(v lhView) lhView {
	out := lhView{}
	for k, cells := range v {
		m := lhMap[lhCell]{}
		for o, c := range cells {
			m[o] = lhNormCell(o, c)
		}
		out[k] = m
	}
	return out
}

// cells is a snapshot per RemoteList, used to find the cells a step wrote.
func (n *lhNode) cells() map[*RemoteList]map[string]lhCell {
	out := map[*RemoteList]map[string]lhCell{}
	n.lh.RLock()
	defer n.lh.RUnlock()
	for _, rl := range n.lh.addrMap {
		if _, ok := out[rl]; ok {
			continue
		}
		rl.RLock()
		m := map[string]lhCell{}
		for o, c := range rl.cache {
			m[lhName(o)] = lhNormCell(lhName(o), lhCellOf(c))
		}
		rl.RUnlock()
		out[rl] = m
	}
	return out
}

func lhJSON(v any) string {
	b, _ := json.Marshal(v)
	return string(b)
}

func lhSortedStrs(s []string) []string {
	out := append([]string{}, s...)
	sort.Strings(out)
	return out
}

// lhBubble runs fn inside a synctest bubble.
func lhBubble(t *testing.T, fn func(t *testing.T)) {
	synctest.Test(t, fn)
}
