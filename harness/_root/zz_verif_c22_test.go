package nebula

// C22 — the firewall configuration parses exactly (spec/Firewall.tla, vector mode).
// Every vector is a list of rule maps whose fields are tokens (missing / string / int / bool / null / list). The harness
// renders real YAML, loads it with config.C and NewFirewallFromConfig (AddFirewallRulesFromConfig / convertRule /
// parsePort), compares load/refuse with Loads(cfg) and, when it loaded, the verdicts of the real Drop with
// Allowed(RulesOf(cfg)).

import (
	"encoding/json"
	"fmt"
	"sort"
	"strings"
	"sync/atomic"
	"testing"

	"github.com/slackhq/nebula/config"
)

type c22Elem struct {
	K string `json:"k"`
	S string `json:"s"`
}

type c22Tok struct {
	K string    `json:"k"`
	S string    `json:"s"`
	C []string  `json:"c"` // port and code texts, character by character
	L []c22Elem `json:"l"`
}

func (t c22Tok) text() string {
	if len(t.C) > 0 {
		return strings.Join(t.C, "")
	}
	return t.S
}

type c22Vec struct {
	In struct {
		Kind string              `json:"kind"`
		Env  string              `json:"env"`
		Dir  string              `json:"dir"`
		Cfg  []map[string]c22Tok `json:"cfg"`
		PP   bool                `json:"pp"` // a vector that varies the port text: also evaluated on the port pairs
	} `json:"in"`
	Exp struct {
		Loads     string `json:"loads"`
		Allow     []int  `json:"allow"`
		Either    []int  `json:"either"`
		PAllow    []int  `json:"pallow"`
		PEither   []int  `json:"peither"`
		NReadings int    `json:"nreadings"`
	} `json:"exp"`
}

func c22Quote(s string) string {
	b, _ := json.Marshal(s) // a JSON string is a YAML double-quoted scalar
	return string(b)
}

func (w *fwWorld) c22Scalar(field, k, text string) string {
	switch k {
	case "str":
		if field == "ca_sha" && text != "" {
			text = w.sha(text)
		}
		return c22Quote(text)
	case "int", "bool":
		return text
	case "null":
		return "null"
	}
	panic("verif: unknown token kind " + k)
}

func (w *fwWorld) c22Yaml(field string, t c22Tok) string {
	if t.K != "list" {
		return w.c22Scalar(field, t.K, t.text())
	}
	var el []string
	for _, e := range t.L {
		el = append(el, w.c22Scalar(field, e.K, e.S))
	}
	return "[" + strings.Join(el, ", ") + "]"
}

// c22Describe names what is unusual about a rule list (for mismatch keys).
func c22Describe(cfg []map[string]c22Tok) string {
	var odd []string
	for _, m := range cfg {
		for f, t := range m {
			d := ""
			switch {
			case t.K == "missing":
				if f == "port" || f == "proto" {
					d = f + "=missing"
				}
			case f == "port" || f == "code":
				d = fmt.Sprintf("%s=%s'%s'", f, t.K, t.text())
				if t.K == "list" {
					d = f + "=list"
				}
			case t.K == "list":
				var ks []string
				for _, e := range t.L {
					ks = append(ks, e.K)
				}
				d = fmt.Sprintf("%s=list[%s]", f, strings.Join(ks, ","))
			case t.K != "str":
				d = f + "=" + t.K
			case t.text() == "":
				d = f + "=''"
			case f == "proto" || f == "cidr" || f == "local_cidr":
				d = fmt.Sprintf("%s='%s'", f, t.text())
			}
			if d != "" {
				odd = append(odd, d)
			}
		}
	}
	sort.Strings(odd)
	if len(odd) > 3 {
		odd = odd[:3]
	}
	return fmt.Sprintf("rules=%d:%s", len(cfg), strings.Join(odd, "+"))
}

func c22PanicClass(msg string) string {
	switch {
	case strings.Contains(msg, "interface conversion"):
		return "interface-conversion"
	case strings.Contains(msg, "index out of range"):
		return "index-out-of-range"
	case strings.Contains(msg, "nil pointer"):
		return "nil-pointer"
	}
	return "other"
}

func TestVerif_C22(t *testing.T) {
	res := vNewResult()
	defer res.Write(t)
	var drops atomic.Int64
	n := fwForEachVector(t, res, func(w *fwWorld, idx int, line []byte) {
		var v c22Vec
		if err := json.Unmarshal(line, &v); err != nil {
			t.Errorf("vector: %v: %s", err, line)
			return
		}
		res.Case(string(line))
		// real configuration text
		var rules []string
		for _, m := range v.In.Cfg {
			fields := make([]string, 0, len(m))
			for f := range m {
				fields = append(fields, f)
			}
			sort.Strings(fields)
			var kv []string
			for _, f := range fields {
				if m[f].K == "missing" {
					continue
				}
				kv = append(kv, f+": "+w.c22Yaml(f, m[f]))
			}
			rules = append(rules, "    - {"+strings.Join(kv, ", ")+"}")
		}
		table := "inbound"
		if v.In.Dir == "out" {
			table = "outbound"
		}
		yaml := fmt.Sprintf("firewall:\n  default_local_cidr_any: %v\n  %s:\n%s\n", w.u.Envs[v.In.Env].DefaultAny, table, strings.Join(rules, "\n"))
		if idx%3000 == 1 {
			res.Sample(map[string]any{"yaml": yaml, "expected": v.Exp})
		}
		desc := c22Describe(v.In.Cfg)
		detail := map[string]any{"yaml": yaml, "env": v.In.Env, "expected_loads": v.Exp.Loads}

		c := config.NewC(w.l)
		if err := c.LoadString(yaml); err != nil {
			t.Errorf("verif: the harness wrote YAML that does not parse: %v\n%s", err, yaml)
			return
		}
		var fw *Firewall
		var err error
		panicked := ""
		func() {
			defer func() {
				if r := recover(); r != nil {
					panicked = fmt.Sprint(r)
				}
			}()
			fw, err = NewFirewallFromConfig(w.l, &CertState{v2Cert: w.myCert[v.In.Env]}, c)
		}()
		switch {
		case panicked != "":
			// neither loaded nor refused
			res.Hit("panic")
			res.Mismatch("panic:"+c22PanicClass(panicked), fmt.Sprintf("loading the rule list panicked (%s) instead of loading or refusing it: %s", panicked, desc), detail)
			return
		case err != nil:
			res.Hit("refused")
			if v.Exp.Loads == "yes" {
				res.Mismatch("refused-but-must-load:"+desc, fmt.Sprintf("a rule list the grammar accepts was refused: %v", err), detail)
			} else if v.Exp.Loads == "either" {
				res.Hit("undecided-refused")
			}
			return
		}
		res.Hit("loaded")
		if v.Exp.Loads == "no" {
			res.Mismatch("loaded-but-must-refuse:"+desc, "a rule list the grammar refuses was loaded", detail)
			return
		}
		if v.Exp.Loads == "either" {
			res.Hit("undecided-loaded")
		}
		// the loaded table admits exactly what the configuration text describes
		exp := fwVerdicts{}
		if v.In.Dir == "in" {
			exp.AllowIn, exp.EitherIn = v.Exp.Allow, v.Exp.Either
		} else {
			exp.AllowOut, exp.EitherOut = v.Exp.Allow, v.Exp.Either
		}
		key := func(what, dir, want string, id int) string {
			return fmt.Sprintf("%s:%s:%s:pkt=%s", what, want, desc, w.u.Pkts[id/10-1].Proto)
		}
		drops.Add(int64(w.checkVerdicts(res, fw, v.In.Env, exp, []string{v.In.Dir}, key, detail)))
		if v.In.PP {
			// the port text against the port pairs: ports inside, on the edges and just outside the ranges of the lattice,
			// port 0, packets without ports (fragments), tcp / udp / icmp / another protocol
			pexp := fwVerdicts{}
			if v.In.Dir == "in" {
				pexp.AllowIn, pexp.EitherIn = v.Exp.PAllow, v.Exp.PEither
			} else {
				pexp.AllowOut, pexp.EitherOut = v.Exp.PAllow, v.Exp.PEither
			}
			pkey := func(what, dir, want string, id int) string {
				return fmt.Sprintf("%s:%s:%s:pkt=%s", what, want, desc, fwPktClass(w.u.PPkts[id/10-1], dir))
			}
			res.Hit("port-pairs")
			if pt := strings.TrimSpace(v.In.Cfg[0]["port"].text()); strings.Contains(pt, "6553") {
				res.Hit("port-pairs:" + strings.ReplaceAll(pt, " ", "")) // the texts at the top of the port space
			}
			drops.Add(int64(w.checkVerdictsOn(res, fw, w.u.PPairs[v.In.Env], w.ppacket, v.In.Env, pexp, []string{v.In.Dir}, pkey, detail)))
		}
	})
	res.Extra["drops"] = drops.Load()
	res.Extra["vectors"] = n
}
