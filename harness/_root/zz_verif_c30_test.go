package nebula

// C30 — tunnel teardown decisions follow the liveness policy.
// Binding of spec/ConnMgr.tla to connection_manager.go (makeTrafficDecision / doTrafficCheck).
//
//  V: every abstract state of the lattice is concretised on a real connectionManager (real hostmap, real CA pool with
//     real expiry / blocklist, counters on a real ConnectionState, real timer wheel), one check is executed with an
//     explicit `now` under two time scales (1 s and 1 ns per model unit, so that the inactivity boundary is tight),
//     and the outcome is compared with the set of outcomes the statement allows (last.ok) and with the machine outcome.
//  R: histories produced by TLC (environment actions and checks over an explicit clock) are replayed step by step.

import (
	"encoding/json"
	"fmt"
	"io"
	"log/slog"
	"net/netip"
	"os"
	"strings"
	"testing"
	"time"

	"github.com/slackhq/nebula/cert"
	"github.com/slackhq/nebula/cert_test"
	"github.com/slackhq/nebula/config"
	"github.com/slackhq/nebula/header"
	"github.com/slackhq/nebula/overlay/overlaytest"
	"github.com/slackhq/nebula/udp"
)

const c30Never = -1000

type c30State struct {
	Alive     bool   `json:"alive"`
	In        bool   `json:"in"`
	Out       bool   `json:"out"`
	Pd        bool   `json:"pd"`
	LastUsed  int    `json:"lastUsed"`
	Primary   bool   `json:"primary"`
	PeerLower bool   `json:"peerLower"`
	Cc        string `json:"cc"`
	Bl        bool   `json:"bl"`
	Trusted   bool   `json:"trusted"`
	Expired   bool   `json:"expired"`
	Caexp     bool   `json:"caexp"`
	Mycur     bool   `json:"mycur"`
	Vc        string `json:"vc"`
	Hs        bool   `json:"hs"`
}
type c30Cfg struct {
	Di      bool `json:"di"`
	Drop    bool `json:"drop"`
	Timeout int  `json:"timeout"`
}
type c30Out struct {
	Dec      string `json:"dec"`
	Fate     string `json:"fate"`
	Probe    bool   `json:"probe"`
	Notify   bool   `json:"notify"`
	Hs       bool   `json:"hs"`
	Pd       bool   `json:"pd"`
	Rearm    string `json:"rearm"`
	In       bool   `json:"in"`
	Out      bool   `json:"out"`
	LastUsed int    `json:"lastUsed"`
	Primary  bool   `json:"primary"`
}
type c30Last struct {
	Act string   `json:"act"`
	Arg string   `json:"arg"`
	Now int      `json:"now"`
	O   c30Out   `json:"o"`
	Tup string   `json:"tup"`
	Ok  []string `json:"ok"`
}
type c30Step struct {
	T     c30State `json:"t"`
	Cfg   c30Cfg   `json:"cfg"`
	Clock int      `json:"clock"`
	Last  c30Last  `json:"last"`
}
type c30Plan struct {
	CheckI int `json:"checkI"`
	PendI  int `json:"pendI"`
	ExpAt  int `json:"expAt"`
}

// c30Cipher is a transparent AEAD: the checks only need packets to leave, not to be confidential.
type c30Cipher struct{}

func (c30Cipher) EncryptDanger(out, ad, plaintext []byte, n uint64, nb []byte) ([]byte, error) {
	return append(out, plaintext...), nil
}
func (c30Cipher) DecryptDanger(out, ad, ciphertext []byte, n uint64, nb []byte) ([]byte, error) {
	return append(out, ciphertext...), nil
}
func (c30Cipher) Overhead() int { return 0 }

type c30Conn struct {
	udp.NoopConn
	pkts [][]byte
}

func (c *c30Conn) WriteTo(b []byte, _ netip.AddrPort) error {
	c.pkts = append(c.pkts, append([]byte(nil), b...))
	return nil
}

var (
	c30Base     = time.Date(2050, 1, 1, 0, 0, 0, 0, time.UTC)
	c30PeerAddr = netip.MustParseAddr("10.77.0.5")
	c30MyLow    = netip.MustParseAddr("10.77.0.1") // below the peer: shouldSwapPrimary may proceed
	c30MyHigh   = netip.MustParseAddr("10.77.0.9") // above the peer: never swap
)

// c30PKI holds the real certificates all worlds share.
type c30PKI struct {
	ca1, caX, ca2      cert.Certificate // trusted CA, CA that is expired at check time, unrelated CA
	ca1Key, caXKey     []byte
	myV1a, myV1b, myV2 cert.Certificate
	peers              map[string]*cert.CachedCertificate
	expAt              int
	t                  testing.TB
}

func c30NewPKI(t testing.TB, expAt int) *c30PKI {
	p := &c30PKI{peers: map[string]*cert.CachedCertificate{}, expAt: expAt, t: t}
	before := time.Date(2000, 1, 1, 0, 0, 0, 0, time.UTC)
	far := time.Date(2100, 1, 1, 0, 0, 0, 0, time.UTC)
	p.ca1, _, p.ca1Key, _ = cert_test.NewTestCaCert(cert.Version2, cert.Curve_CURVE25519, before, far, nil, nil, nil)
	p.caX, _, p.caXKey, _ = cert_test.NewTestCaCert(cert.Version2, cert.Curve_CURVE25519, before, c30Base.Add(-time.Hour), nil, nil, nil)
	p.ca2, _, _, _ = cert_test.NewTestCaCert(cert.Version2, cert.Curve_CURVE25519, before, far, nil, nil, nil)
	mine := []netip.Prefix{netip.MustParsePrefix("10.77.0.1/16")}
	p.myV1a, _, _, _ = cert_test.NewTestCert(cert.Version1, cert.Curve_CURVE25519, p.ca1, p.ca1Key, "me", before, far, mine, nil, nil)
	// the same identity re-issued (different validity, hence a different signature)
	p.myV1b, _, _, _ = cert_test.NewTestCert(cert.Version1, cert.Curve_CURVE25519, p.ca1, p.ca1Key, "me", before, far.Add(-time.Hour), mine, nil, nil)
	p.myV2, _, _, _ = cert_test.NewTestCert(cert.Version2, cert.Curve_CURVE25519, p.ca1, p.ca1Key, "me", before, far, mine, nil, nil)
	return p
}

// peer returns a peer certificate as the handshake left it: verified (and cached) at a time when it was valid.
//
//	v: certificate version; caexp: signed by the CA that is expired at check time; notAfter: end of validity
func (p *c30PKI) peer(v cert.Version, caexp bool, notAfter time.Time) *cert.CachedCertificate {
	k := fmt.Sprintf("%d/%v/%d", v, caexp, notAfter.UnixNano())
	if c, ok := p.peers[k]; ok {
		return c
	}
	ca, key := p.ca1, p.ca1Key
	if caexp {
		ca, key = p.caX, p.caXKey
	}
	before := time.Date(2000, 1, 1, 0, 0, 0, 0, time.UTC)
	if notAfter.After(ca.NotAfter()) {
		notAfter = ca.NotAfter()
	}
	c, _, _, _ := cert_test.NewTestCert(v, cert.Curve_CURVE25519, ca, key, "peer", before, notAfter, []netip.Prefix{netip.MustParsePrefix("10.77.0.5/16")}, nil, nil)
	pool := cert.NewCAPool()
	_ = pool.AddCA(ca)
	cc, err := pool.VerifyCertificate(before.Add(time.Hour), c)
	if err != nil {
		p.t.Fatalf("c30: peer certificate does not verify at handshake time: %v", err)
	}
	p.peers[k] = cc
	return cc
}

func (p *c30PKI) pool(bl, trusted, caexp bool, peer *cert.CachedCertificate) *cert.CAPool {
	pool := cert.NewCAPool()
	if trusted {
		if caexp {
			_ = pool.AddCA(p.caX)
		} else {
			_ = pool.AddCA(p.ca1)
		}
	}
	_ = pool.AddCA(p.ca2)
	if bl {
		pool.BlocklistFingerprint(peer.Fingerprint)
	}
	return pool
}

func (p *c30PKI) certState(vc string, mycur bool) *CertState {
	v1 := p.myV1a
	if !mycur {
		v1 = p.myV1b
	}
	switch vc {
	case "same", "peerHigherNoCert":
		return &CertState{v1Cert: v1, initiatingVersion: cert.Version1}
	case "removed":
		return &CertState{v2Cert: p.myV2, initiatingVersion: cert.Version2}
	case "peerHigher":
		return &CertState{v1Cert: v1, v2Cert: p.myV2, initiatingVersion: cert.Version1}
	case "belowInit":
		return &CertState{v1Cert: v1, v2Cert: p.myV2, initiatingVersion: cert.Version2}
	}
	p.t.Fatalf("c30: unknown version class %q", vc)
	return nil
}

func c30Counter(cc string) uint64 {
	switch cc {
	case "lt_rekey":
		return RehandshakeAfterMessages - 1
	case "ge_rekey":
		return RehandshakeAfterMessages
	case "ge_reject":
		return RejectAfterMessages
	}
	panic("c30: counter class " + cc)
}

type c30World struct {
	pki      *c30PKI
	plan     c30Plan
	unit     time.Duration
	hm       *HostMap
	ifce     *Interface
	cm       *connectionManager
	conn     *c30Conn
	hi       *HostInfo
	other    *HostInfo
	peerCert *cert.CachedCertificate
	nextIdx  uint32
}

func (w *c30World) now(clock int) time.Time { return c30Base.Add(time.Duration(clock) * w.unit) }

func (w *c30World) toUnits(tm time.Time) int {
	if tm.IsZero() {
		return c30Never
	}
	d := tm.Sub(c30Base)
	if d%w.unit != 0 {
		return -999 // not on the grid: never equal to an expected value
	}
	return int(d / w.unit)
}

func (w *c30World) newHostInfo(peer *cert.CachedCertificate) *HostInfo {
	w.nextIdx++
	hi := &HostInfo{vpnAddrs: []netip.Addr{c30PeerAddr}, localIndexId: 1000 + w.nextIdx, remoteIndexId: 9000 + w.nextIdx}
	hi.ConnectionState = &ConnectionState{myCert: w.pki.myV1a, peerCert: peer, eKey: c30Cipher{}, dKey: c30Cipher{}, window: NewBits(ReplayWindow)}
	ap := netip.MustParseAddrPort("192.0.2.7:4242")
	hi.remote.Store(&ap)
	return hi
}

// c30NewWorld concretises an abstract state.
func c30NewWorld(t testing.TB, pki *c30PKI, plan c30Plan, unit time.Duration, s c30State, c c30Cfg, clock int, history bool) *c30World {
	w := &c30World{pki: pki, plan: plan, unit: unit, conn: &c30Conn{}}
	l := slog.New(slog.NewTextHandler(io.Discard, nil))
	w.hm = newHostMap(l)
	pr := []netip.Prefix{}
	w.hm.preferredRanges.Store(&pr)
	lh := newTestLighthouse()
	my := c30MyLow
	if s.PeerLower {
		my = c30MyHigh
	}
	w.ifce = &Interface{
		hostMap: w.hm, inside: &overlaytest.NoopTun{}, outside: w.conn, writers: []udp.Conn{w.conn}, firewall: &Firewall{},
		lightHouse: lh, pki: &PKI{}, myVpnAddrs: []netip.Addr{my}, messageMetrics: newMessageMetrics(),
		handshakeManager: NewHandshakeManager(l, w.hm, lh, w.conn, defaultHandshakeConfig), l: l,
	}
	conf := config.NewC(l)
	conf.Settings["timers"] = map[string]any{"connection_alive_interval": plan.CheckI, "pending_deletion_interval": plan.PendI}
	w.cm = newConnectionManagerFromConfig(l, conf, w.hm, NewPunchyFromConfig(l, conf, nil))
	w.cm.intf = w.ifce
	w.ifce.connectionManager = w.cm

	// peer certificate
	pv := cert.Version1
	if s.Vc == "peerHigher" || s.Vc == "peerHigherNoCert" {
		pv = cert.Version2
	}
	notAfter := time.Date(2100, 1, 1, 0, 0, 0, 0, time.UTC)
	if history {
		// expired from clock >= ExpAt on (a certificate is expired strictly after NotAfter)
		notAfter = c30Base.Add(time.Duration(pki.expAt-1) * time.Second)
	} else if s.Expired {
		notAfter = c30Base.Add(-time.Hour)
	}
	w.peerCert = pki.peer(pv, s.Caexp, notAfter)
	w.hi = w.newHostInfo(w.peerCert)
	w.hm.Lock()
	w.hm.unlockedAddHostInfo(w.hi, w.ifce)
	w.hm.Unlock()
	if !s.Primary {
		w.demote()
	}
	w.apply(s, c)
	w.hi.in.Store(s.In)
	w.hi.out.Store(s.Out)
	w.hi.pendingDeletion.Store(s.Pd)
	if s.LastUsed == c30Never {
		w.hi.lastUsed = time.Time{}
	} else {
		w.hi.lastUsed = w.now(s.LastUsed)
	}
	if s.Hs {
		w.ifce.handshakeManager.StartHandshake(c30PeerAddr, nil)
	}
	_ = clock
	return w
}

// apply installs the environment part of the state: trust store, own certificates, counter, configuration.
func (w *c30World) apply(s c30State, c c30Cfg) {
	w.ifce.pki.caPool.Store(w.pki.pool(s.Bl, s.Trusted, s.Caexp, w.peerCert))
	w.ifce.pki.cs.Store(w.pki.certState(s.Vc, s.Mycur))
	w.hi.ConnectionState.messageCounter.Store(c30Counter(s.Cc))
	w.ifce.disconnectInvalid.Store(c.Di)
	w.cm.dropInactive.Store(c.Drop)
	w.cm.inactivityTimeout.Store(int64(time.Duration(c.Timeout) * w.unit))
}

func (w *c30World) demote() {
	if w.other == nil || w.hm.QueryIndex(w.other.localIndexId) == nil {
		w.other = w.newHostInfo(w.peerCert)
		w.hm.Lock()
		w.hm.unlockedAddHostInfo(w.other, w.ifce)
		w.hm.Unlock()
		return
	}
	w.hm.MakePrimary(w.other)
}

type c30Obs struct {
	tup                    string
	fate, rearm            string
	probe, notify, hs, pd  bool
	in, out, primary       bool
	lastUsed               int
	closeAttempt, panicked bool
	panicMsg               string
}

func c30Bit(b bool) string {
	if b {
		return "1"
	}
	return "0"
}

// wheelSlots counts the items per slot of the traffic timer (the wheel is never advanced by the harness, so the slot an
// item lands in identifies the interval it was re-armed with).
func (w *c30World) wheelSlots() []int {
	tw := w.cm.trafficTimer.t
	out := make([]int, len(tw.wheel))
	for i, sl := range tw.wheel {
		for it := sl.Head; it != nil; it = it.Next {
			if it.Item == w.hi.localIndexId {
				out[i]++
			}
		}
	}
	return out
}

// check runs one periodic check of our tunnel at model time `clock` and projects the result.
func (w *c30World) check(clock int, pre c30State) (o c30Obs) {
	mm := w.ifce.messageMetrics
	closeBefore := mm.tx[header.CloseTunnel][0].Count()
	testBefore := mm.tx[header.Test][header.TestRequest].Count()
	before := w.wheelSlots()
	tw := w.cm.trafficTimer.t
	slotCheck, slotPend := tw.findWheel(w.cm.checkInterval), tw.findWheel(w.cm.pendingDeletionInterval)
	w.conn.pkts = nil
	func() {
		defer func() {
			if r := recover(); r != nil {
				o.panicked, o.panicMsg = true, fmt.Sprint(r)
			}
		}()
		w.cm.doTrafficCheck(w.hi.localIndexId, []byte(""), make([]byte, 12, 12), make([]byte, mtu), w.now(clock))
	}()
	after := w.wheelSlots()
	alive := w.hm.QueryIndex(w.hi.localIndexId) == w.hi
	o.closeAttempt = mm.tx[header.CloseTunnel][0].Count() > closeBefore
	o.probe = mm.tx[header.Test][header.TestRequest].Count() > testBefore
	for _, p := range w.conn.pkts {
		var h header.H
		if h.Parse(p) == nil && h.Type == header.CloseTunnel && h.RemoteIndex == w.hi.remoteIndexId {
			o.notify = true
		}
	}
	o.hs = w.ifce.handshakeManager.QueryVpnAddr(c30PeerAddr) != nil
	o.pd = w.hi.pendingDeletion.Load()
	o.in, o.out = w.hi.in.Load(), w.hi.out.Load()
	o.lastUsed = w.toUnits(w.hi.lastUsed)
	o.primary = w.hm.QueryVpnAddr(c30PeerAddr) == w.hi
	o.rearm = "none"
	grown := 0
	for i := range after {
		if after[i] > before[i] {
			grown += after[i] - before[i]
			switch i {
			case slotCheck:
				o.rearm = "check"
			case slotPend:
				o.rearm = "pending"
			default:
				o.rearm = fmt.Sprintf("slot%d", i)
			}
		}
	}
	if grown > 1 {
		o.rearm = "twice"
	}
	switch {
	case alive:
		o.fate = "keep"
		o.tup = "k" + c30Bit(o.probe) + c30Bit(o.hs) + c30Bit(o.pd) + o.rearm[:1]
		if len(o.rearm) > 7 || o.rearm == "twice" {
			o.tup = "k" + c30Bit(o.probe) + c30Bit(o.hs) + c30Bit(o.pd) + "?"
		}
	case o.closeAttempt:
		o.fate = "close"
	default:
		o.fate = "drop"
	}
	if !alive {
		// normal form of a removed tunnel (spec: Tuple)
		o.tup = o.fate[:1] + "0" + c30Bit(pre.Hs) + c30Bit(pre.Pd) + "n"
		if o.probe || o.rearm != "none" {
			o.tup += "!" // probed or re-armed a tunnel it removed
		}
	}
	return o
}

func c30DecClass(d trafficDecision) string {
	switch d {
	case closeTunnel:
		return "close"
	case deleteTunnel:
		return "drop"
	case sendTestPacket:
		return "probe"
	default:
		return "other"
	}
}
func c30DecName(d trafficDecision) string {
	return [...]string{"doNothing", "deleteTunnel", "closeTunnel", "swapPrimary", "migrateRelays", "tryRehandshake", "sendTestPacket"}[d]
}
func c30SpecDecClass(d string) string {
	switch d {
	case "closeTunnel":
		return "close"
	case "deleteTunnel":
		return "drop"
	case "sendTestPacket":
		return "probe"
	}
	return "other"
}

func c30Contains(set []string, x string) bool {
	for _, s := range set {
		if s == x {
			return true
		}
	}
	return false
}

func c30CertStatus(s c30State) string {
	if s.Bl {
		return "blocklisted"
	}
	if !s.Trusted || s.Expired || s.Caexp {
		return "invalid"
	}
	return "ok"
}

// c30Key names the clause of the policy a check fell under (what known_findings would match on).
func c30Key(mode string, s c30State, c c30Cfg, now int) string {
	st := c30CertStatus(s)
	bad := st == "blocklisted" || (st == "invalid" && c.Di)
	branch := ""
	switch {
	case bad && s.Cc == "ge_reject":
		branch = "cert-" + st + "+exhausted"
	case bad:
		branch = "cert-" + st
	case s.Cc == "ge_reject":
		branch = "exhausted"
	case s.In:
		branch = "inbound"
		if s.Pd {
			branch = "inbound-while-marked"
		}
	case s.Pd:
		branch = "silent-since-mark"
	case s.Primary && !s.Out:
		idle := "gt"
		switch {
		case s.LastUsed == c30Never:
			idle = "never"
		case now-s.LastUsed < c.Timeout:
			idle = "lt"
		case now-s.LastUsed == c.Timeout:
			idle = "eq"
		}
		branch = "idle-" + idle + "-drop" + c30Bit(c.Drop)
	case s.Primary:
		branch = "sending-not-receiving"
	default:
		branch = "nonprimary-silent"
	}
	pr := "primary"
	if !s.Primary {
		pr = "nonprimary"
	}
	return mode + ":" + branch + ":" + pr
}

// compare checks one observed outcome against the allowed set and the machine outcome. Returns false when the rest of
// a history can no longer be followed.
func c30Compare(res *vResult, mode string, w *c30World, pre c30State, c c30Cfg, now int, last c30Last, o c30Obs) bool {
	key := c30Key(mode, pre, c, now)
	detail := map[string]any{"state": pre, "cfg": c, "now": now, "unit": w.unit.String(), "allowed": last.Ok, "machine": last.O, "observed": fmt.Sprintf("%+v", o)}
	if o.panicked {
		res.Mismatch(key+":panic", "doTrafficCheck panicked: "+o.panicMsg, detail)
		return false
	}
	if !c30Contains(last.Ok, o.tup) {
		res.Mismatch(key+":"+o.tup, fmt.Sprintf("check produced outcome %s (fate,probe,rehandshake,pendingDeletion,re-arm); the policy allows %v", o.tup, last.Ok), detail)
		return false
	}
	if o.tup != last.Tup {
		res.Hit("allowed-deviation")
		return false
	}
	if o.fate != "keep" {
		if o.notify != last.O.Notify {
			res.Hit("deviation:notify")
		}
		return true
	}
	// the traffic flags are consumed by the check, lastUsed is the time of the last check that saw traffic
	if o.in != last.O.In || (!o.probe && o.out != last.O.Out) {
		res.Mismatch(key+":flags", fmt.Sprintf("traffic flags after the check: in=%v out=%v, specification in=%v out=%v", o.in, o.out, last.O.In, last.O.Out), detail)
		return false
	}
	if o.lastUsed != last.O.LastUsed {
		res.Mismatch(key+":lastUsed", fmt.Sprintf("lastUsed after the check = %d, specification %d (model units, %d = never)", o.lastUsed, last.O.LastUsed, c30Never), detail)
		return false
	}
	if o.primary != last.O.Primary {
		res.Hit("deviation:primary") // which tunnel is primary is not C30's business
		return false
	}
	if o.out != last.O.Out {
		res.Hit("deviation:out")
		return false
	}
	return true
}

func TestVerif_C30(t *testing.T) {
	res := vNewResult()
	defer res.Write(t)
	var plan c30Plan
	vReadJSON(t, "c30_plan.json", &plan)
	pki := c30NewPKI(t, plan.ExpAt)

	// ------------------------------------------------------------------ V
	nvec := 0
	vReadNDJSON(t, "c30_vectors.ndjson", func(line []byte) {
		var v c30Step
		if err := json.Unmarshal(line, &v); err != nil {
			t.Fatalf("vector: %v: %s", err, line)
		}
		nvec++
		if nvec%500 == 1 {
			res.Sample(json.RawMessage(append([]byte(nil), line...)))
		}
		res.Case(string(line))
		now := v.Last.Now
		for _, unit := range []time.Duration{time.Second, time.Nanosecond} {
			// the decision, from makeTrafficDecision on a world of its own
			wd := c30NewWorld(t, pki, plan, unit, v.T, v.Cfg, now, false)
			dec, _, _ := wd.cm.makeTrafficDecision(wd.hi.localIndexId, wd.now(now))
			if c30DecClass(dec) != c30SpecDecClass(v.Last.O.Dec) {
				res.Mismatch(c30Key("vec", v.T, v.Cfg, now)+":decision:"+c30DecName(dec),
					fmt.Sprintf("makeTrafficDecision returned %s, specification %s", c30DecName(dec), v.Last.O.Dec),
					map[string]any{"state": v.T, "cfg": v.Cfg, "now": now, "unit": unit.String()})
			} else if c30DecName(dec) != v.Last.O.Dec {
				res.Hit("deviation:decision")
			}
			// decision + execution
			w := c30NewWorld(t, pki, plan, unit, v.T, v.Cfg, now, false)
			o := w.check(now, v.T)
			c30Compare(res, "vec", w, v.T, v.Cfg, now, v.Last, o)
			res.Hit("Vec")
			res.Hit("dec:" + v.Last.O.Dec)
			res.Hit("fate:" + v.Last.O.Fate)
		}
	})

	// ------------------------------------------------------------------ R
	var hist [][]c30Step
	if _, err := os.Stat(vIn("c30_histories.json")); err == nil {
		vReadJSON(t, "c30_histories.json", &hist)
	}
	for hi, h := range hist {
		if len(h) == 0 {
			continue
		}
		w := c30NewWorld(t, pki, plan, time.Second, h[0].T, h[0].Cfg, 0, true)
		checks := 0
		var sig strings.Builder
		followed := true
		for si := 1; si < len(h) && followed; si++ {
			pre, st := h[si-1], h[si]
			sig.WriteString(st.Last.Act + st.Last.Arg + ";")
			res.Hit(st.Last.Act)
			switch st.Last.Act {
			case "SetIn":
				w.cm.In(w.hi)
			case "SetOut":
				w.cm.Out(w.hi)
			case "Tick":
			case "Pool", "MyCert", "Counter", "Toggle", "Timeout":
				w.apply(st.T, st.Cfg)
			case "Demote":
				w.demote()
			case "Promote":
				w.hm.MakePrimary(w.hi)
			case "Check":
				checks++
				o := w.check(st.Last.Now, pre.T)
				followed = c30Compare(res, "hist", w, pre.T, pre.Cfg, st.Last.Now, st.Last, o)
				res.Hit("hist-fate:" + st.Last.O.Fate)
				if !st.T.Alive {
					si = len(h) // the tunnel is gone; the model only ticks from here on
				}
			default:
				t.Fatalf("history %d: unknown action %q", hi, st.Last.Act)
			}
			if st.Last.Act != "Check" && followed {
				// environment steps must leave exactly the state the model says
				if w.hi.in.Load() != st.T.In || w.hi.out.Load() != st.T.Out || w.hi.pendingDeletion.Load() != st.T.Pd ||
					(w.hm.QueryVpnAddr(c30PeerAddr) == w.hi) != st.T.Primary {
					t.Fatalf("history %d step %d (%s): harness could not establish the model state", hi, si, st.Last.Act)
				}
			}
		}
		if followed {
			res.Hit("history-complete")
		}
		res.Case("h:" + sig.String())
		res.mu.Lock()
		res.Traces++
		res.mu.Unlock()
		if hi%50 == 0 {
			res.Sample(map[string]any{"history": sig.String(), "checks": checks})
		}
	}
}
