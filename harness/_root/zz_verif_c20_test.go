package nebula

// C20 — binding of spec/PacketClass.tla to newPacket (both directions) and iputil.IPv6FindUpperProtocol.
//
// V: every vector of the specification's lattice (abstract header chain + truncation point + expected classification)
//    is concretised into real bytes, the real functions are run on an exact-capacity copy (an over-read panics) and the
//    projected result is compared with the expectation.
// T: seeded random structured packets from the same vocabulary with wider parameters are concretised and run the same
//    way; (abstract packet, projected result) pairs are written to obs.ndjson and judged by TLC (Trace_PacketClass.tla).

import (
	"encoding/binary"
	"encoding/json"
	"fmt"
	"math/rand"
	"net/netip"
	"testing"

	"github.com/slackhq/nebula/firewall"
	"github.com/slackhq/nebula/iputil"
)

type c20Hdr struct {
	P  int  `json:"p"`
	N  int  `json:"n"`
	Fo int  `json:"fo"`
	Mf bool `json:"mf"`
}

type c20Pkt struct {
	Fam   int      `json:"fam"`
	Len   int      `json:"len"`
	Sp    int      `json:"sp"`
	Dp    int      `json:"dp"`
	Id    int      `json:"id"`
	Ihl   int      `json:"ihl"`
	Df    bool     `json:"df"`
	Mf    bool     `json:"mf"`
	Fo    int      `json:"fo"`
	Proto int      `json:"proto"`
	T     int      `json:"t"`
	Chain []c20Hdr `json:"chain"`
}

type c20Cls struct {
	St      string `json:"st"`
	May     bool   `json:"may"`
	Proto   int    `json:"proto"`
	Frag    bool   `json:"frag"`
	FragAny bool   `json:"fragAny"`
	Hl      []int  `json:"hl"`
	Pk      string `json:"pk"`
}

type c20Or struct {
	Laddr string `json:"laddr"`
	Raddr string `json:"raddr"`
	Lport int    `json:"lport"`
	Rport int    `json:"rport"`
}

type c20Vec struct {
	In  c20Pkt `json:"in"`
	Exp struct {
		C    c20Cls `json:"c"`
		In   c20Or  `json:"in"`
		Out  c20Or  `json:"out"`
		Walk c20Cls `json:"walk"`
	} `json:"exp"`
}

// projected result of the real code, in the specification's vocabulary
type c20Got struct {
	St      string `json:"st"`
	Proto   int    `json:"proto"`
	Frag    bool   `json:"frag"`
	FragAny bool   `json:"fragAny"`
	Hl      int    `json:"hl"`
	Laddr   string `json:"laddr"`
	Raddr   string `json:"raddr"`
	Lport   int    `json:"lport"`
	Rport   int    `json:"rport"`
	Err     string `json:"err,omitempty"`
}

type c20Addrs struct{ src4, dst4, src6, dst6 netip.Addr }

var c20Fixed = c20Addrs{
	src4: netip.MustParseAddr("10.1.2.3"), dst4: netip.MustParseAddr("172.16.5.6"),
	src6: netip.MustParseAddr("fd00:1:2:3::a"), dst6: netip.MustParseAddr("fd00:9:8:7::b"),
}

func c20ExtSize(h c20Hdr) int {
	switch h.P {
	case 44:
		return 8
	case 51:
		return (h.N + 2) * 4
	default:
		return (h.N + 1) * 8
	}
}

// filler that looks like next-header values a confused walker would follow
var c20Fill = []byte{60, 0, 43, 0, 6, 17, 44, 1, 58, 51, 0, 59}

func c20Filler(b []byte, salt int) {
	for i := range b {
		b[i] = c20Fill[(i+salt)%len(c20Fill)]
	}
}

// c20Transport writes 64 bytes of upper-layer header + payload.
func c20Transport(p *c20Pkt, fam int) []byte {
	t := make([]byte, 64)
	c20Filler(t, 5)
	icmp := (fam == 4 && p.Proto == 1) || (fam == 6 && p.Proto == 58)
	switch {
	case p.Proto == 6:
		binary.BigEndian.PutUint16(t[0:], uint16(p.Sp))
		binary.BigEndian.PutUint16(t[2:], uint16(p.Dp))
		binary.BigEndian.PutUint32(t[4:], 0x01020304)
		binary.BigEndian.PutUint32(t[8:], 0x0a0b0c0d)
		t[12], t[13] = 5<<4, 0x18
	case p.Proto == 17:
		binary.BigEndian.PutUint16(t[0:], uint16(p.Sp))
		binary.BigEndian.PutUint16(t[2:], uint16(p.Dp))
		binary.BigEndian.PutUint16(t[4:], 64)
	case icmp:
		t[0], t[1] = byte(p.T), 0
		binary.BigEndian.PutUint16(t[4:], uint16(p.Id))
		binary.BigEndian.PutUint16(t[6:], 0x0102)
	}
	return t
}

// c20Bytes concretises an abstract packet: the full structure is laid out, then cut (or padded) to p.Len bytes.
// The returned slice has len == cap.
func c20Bytes(p *c20Pkt, a c20Addrs) []byte {
	var b []byte
	switch p.Fam {
	case 4:
		hl := p.Ihl * 4
		if hl < 20 {
			hl = 20
		}
		b = make([]byte, hl)
		b[0] = 4<<4 | byte(p.Ihl&0x0f)
		binary.BigEndian.PutUint16(b[4:], 0x4242)
		ff := p.Fo & 0x1fff
		if p.Df {
			ff |= 0x4000
		}
		if p.Mf {
			ff |= 0x2000
		}
		binary.BigEndian.PutUint16(b[6:], uint16(ff))
		b[8], b[9] = 64, byte(p.Proto)
		s, d := a.src4.As4(), a.dst4.As4()
		copy(b[12:16], s[:])
		copy(b[16:20], d[:])
		for i := 20; i < hl; i++ {
			b[i] = 1 // NOP options
		}
		b = append(b, c20Transport(p, 4)...)
		binary.BigEndian.PutUint16(b[2:], uint16(len(b)))
	case 6:
		b = make([]byte, 40)
		b[0] = 6 << 4
		b[7] = 64
		s, d := a.src6.As16(), a.dst6.As16()
		copy(b[8:24], s[:])
		copy(b[24:40], d[:])
		next := func(i int) byte {
			if i < len(p.Chain) {
				return byte(p.Chain[i].P)
			}
			return byte(p.Proto)
		}
		b[6] = next(0)
		for i, h := range p.Chain {
			e := make([]byte, c20ExtSize(h))
			c20Filler(e, i)
			e[0] = next(i + 1)
			switch h.P {
			case 44:
				e[1] = 0
				v := (h.Fo & 0x1fff) << 3
				if h.Mf {
					v |= 1
				}
				binary.BigEndian.PutUint16(e[2:], uint16(v))
				binary.BigEndian.PutUint32(e[4:], 0xdecafbad)
			default:
				e[1] = byte(h.N)
			}
			b = append(b, e...)
		}
		b = append(b, c20Transport(p, 6)...)
		binary.BigEndian.PutUint16(b[4:], uint16(len(b)-40))
	default:
		b = make([]byte, 64)
		c20Filler(b, 1)
		b[0] = byte(p.Fam&0x0f)<<4 | 5
	}
	out := make([]byte, p.Len)
	n := copy(out, b)
	if n < len(out) {
		c20Filler(out[n:], 3)
	}
	return out
}

func c20Sym(x netip.Addr, fam int, a c20Addrs) string {
	s, d := a.src4, a.dst4
	if fam == 6 {
		s, d = a.src6, a.dst6
	}
	switch x {
	case s:
		return "src"
	case d:
		return "dst"
	}
	return "other"
}

func c20RunNewPacket(data []byte, inc bool, fam int, a c20Addrs) (g c20Got) {
	defer func() {
		if r := recover(); r != nil {
			g = c20Got{St: "panic", Err: fmt.Sprint(r)}
		}
	}()
	// the ParsedPacket is reused across packets in production: start from stale contents
	fp := &firewall.ParsedPacket{IPHdrLen: 777, FragAny: true}
	fp.LocalPort, fp.RemotePort, fp.Protocol, fp.Fragment = 0xdead, 0xbeef, 99, true
	if err := newPacket(data, inc, fp); err != nil {
		return c20Got{St: "reject", Err: err.Error()}
	}
	return c20Got{St: "ok", Proto: int(fp.Protocol), Frag: fp.Fragment, FragAny: fp.FragAny, Hl: fp.IPHdrLen,
		Laddr: c20Sym(fp.LocalAddr, fam, a), Raddr: c20Sym(fp.RemoteAddr, fam, a), Lport: int(fp.LocalPort), Rport: int(fp.RemotePort)}
}

func c20RunWalk(data []byte) (g c20Got) {
	defer func() {
		if r := recover(); r != nil {
			g = c20Got{St: "panic", Err: fmt.Sprint(r)}
		}
	}()
	proto, off, isFrag, anyFrag, err := iputil.IPv6FindUpperProtocol(data)
	if err != nil {
		return c20Got{St: "reject", Err: err.Error()}
	}
	return c20Got{St: "ok", Proto: int(proto), Frag: isFrag, FragAny: anyFrag, Hl: off}
}

func c20IsExt(p int) bool { return p == 0 || p == 43 || p == 44 || p == 51 || p == 60 }

func c20InInts(x int, s []int) bool {
	for _, v := range s {
		if v == x {
			return true
		}
	}
	return false
}

// c20Verdict is the Go image of Verdict / VerdictWalk of PacketClass.tla ("ok" = conforms).
func c20Verdict(g c20Got, fam int, c c20Cls, o *c20Or) string {
	switch g.St {
	case "panic":
		return "panic"
	case "reject":
		if c.St == "reject" || c.May {
			return "ok"
		}
		return "rejected-wellformed"
	}
	switch {
	case fam == 6 && c20IsExt(g.Proto):
		return "proto-is-ext-header"
	case c.St == "reject":
		return "accepted-unresolvable"
	case g.Proto != c.Proto:
		return "proto"
	case g.Frag != c.Frag:
		return "fragment"
	case g.FragAny != c.FragAny:
		return "fragany"
	case !c20InInts(g.Hl, c.Hl):
		return "hdrlen"
	}
	if o != nil {
		if g.Laddr != o.Laddr || g.Raddr != o.Raddr {
			return "addrs"
		}
		if c.Pk != "any" && (g.Lport != o.Lport || g.Rport != o.Rport) {
			return "ports"
		}
	}
	return "ok"
}

// c20Class names the input class of a packet (first part of a mismatch key).
func c20Class(p *c20Pkt) string {
	switch p.Fam {
	case 4:
		switch {
		case p.Ihl < 5:
			return "v4:ihl-lt5"
		case p.Fo != 0:
			return "v4:later-fragment"
		case p.Mf:
			return "v4:first-fragment"
		case p.Ihl > 5:
			return "v4:options"
		}
		return "v4:plain"
	case 6:
		// extension headers a walker has to traverse until it reaches the upper protocol or a non-first fragment
		cnt, later := 0, false
		for _, h := range p.Chain {
			cnt++
			if h.P == 44 && h.Fo != 0 {
				later = true
				break
			}
		}
		switch {
		case cnt > 8:
			return "v6:ext-gt8"
		case later && cnt < len(p.Chain) && c20IsExt(p.Chain[cnt].P):
			return "v6:later-fragment-of-ext-header"
		case later:
			return "v6:later-fragment"
		case cnt == 8:
			return "v6:ext-eq8"
		}
		return "v6:ext-lt8"
	}
	return "other-version"
}

func TestVerif_C20(t *testing.T) {
	res := vNewResult()
	defer res.Write(t)

	// ---------------------------------------------------------------- V: the specification's vectors
	n := 0
	vReadNDJSON(t, "vectors.ndjson", func(line []byte) {
		var v c20Vec
		if err := json.Unmarshal(line, &v); err != nil {
			t.Fatalf("vector: %v: %s", err, line)
		}
		n++
		p := &v.In
		cls := c20Class(p)
		res.Hit(cls)
		res.Hit("ref:" + v.Exp.C.St)
		if v.Exp.C.May {
			res.Hit("ref:may")
		}
		res.Case(string(line))
		if n%9973 == 1 {
			res.Sample(json.RawMessage(append([]byte(nil), line...)))
		}
		data := c20Bytes(p, c20Fixed)
		for _, inc := range []bool{true, false} {
			o := &v.Exp.Out
			dir := "out"
			if inc {
				o, dir = &v.Exp.In, "in"
			}
			g := c20RunNewPacket(data, inc, p.Fam, c20Fixed)
			if w := c20Verdict(g, p.Fam, v.Exp.C, o); w != "ok" {
				res.Mismatch(cls+":"+w, fmt.Sprintf("newPacket(%s) on %s packet %x: got %+v, specification %+v %+v", dir, cls, data, g, v.Exp.C, *o),
					map[string]any{"vector": json.RawMessage(append([]byte(nil), line...)), "bytes": fmt.Sprintf("%x", data), "dir": dir, "got": g})
			}
		}
		if p.Fam == 6 {
			g := c20RunWalk(data)
			if w := c20Verdict(g, 6, v.Exp.Walk, nil); w != "ok" {
				res.Mismatch(cls+":"+w, fmt.Sprintf("IPv6FindUpperProtocol on %s packet %x: got %+v, specification %+v", cls, data, g, v.Exp.Walk),
					map[string]any{"vector": json.RawMessage(append([]byte(nil), line...)), "bytes": fmt.Sprintf("%x", data), "got": g})
			}
		}
	})
	res.Extra["vectors"] = n

	// ---------------------------------------------------------------- T: seeded random structured packets, judged by TLC
	rnd := vRand()
	tr := vNewTracer(t, "obs.ndjson")
	nobs := 4000
	if !vQuick() {
		nobs = 40000
	}
	for k := 1; k <= nobs; k++ {
		p, a := c20Random(rnd)
		data := c20Bytes(p, a)
		cls := c20Class(p)
		ev := map[string]any{"n": k, "cls": cls, "pkt": p,
			"gin": c20RunNewPacket(data, true, p.Fam, a), "gout": c20RunNewPacket(data, false, p.Fam, a)}
		if p.Fam == 6 {
			ev["gwalk"] = c20RunWalk(data)
		} else {
			ev["gwalk"] = c20Got{St: "reject"}
		}
		if k <= 3 {
			ev["bytes"] = fmt.Sprintf("%x", data)
		}
		tr.Event(ev)
		res.Hit("T:" + cls)
		res.Case(fmt.Sprintf("T%x", data))
	}
	tr.Close()
}

var c20V4Protos = []int{6, 17, 1, 47, 50, 51, 58, 0, 44, 132, 4, 41, 255}
var c20V6Uppers = []int{6, 17, 58, 59, 50, 132, 135, 139, 140, 253, 254, 1, 4, 41, 47, 89}
var c20ICMPTypes = []int{0, 8, 3, 11, 13, 128, 129, 1, 2, 135, 136, 255}
var c20ExtKinds = []int{0, 43, 60, 44, 51}

func c20RandAddrs(rnd *rand.Rand) c20Addrs {
	var s4, d4 [4]byte
	var s6, d6 [16]byte
	for {
		rnd.Read(s4[:])
		rnd.Read(d4[:])
		rnd.Read(s6[:])
		rnd.Read(d6[:])
		if s4 != d4 && s6 != d6 {
			break
		}
	}
	// keep the v6 addresses out of the v4-mapped range so that Addr equality is plain
	s6[0], d6[0] = 0xfd, 0xfd
	return c20Addrs{netip.AddrFrom4(s4), netip.AddrFrom4(d4), netip.AddrFrom16(s6), netip.AddrFrom16(d6)}
}

func c20Random(rnd *rand.Rand) (*c20Pkt, c20Addrs) {
	a := c20RandAddrs(rnd)
	p := &c20Pkt{Sp: rnd.Intn(65536), Dp: rnd.Intn(65536), Id: rnd.Intn(65536), Ihl: 5, Chain: []c20Hdr{}}
	p.T = c20ICMPTypes[rnd.Intn(len(c20ICMPTypes))]
	if rnd.Intn(8) == 0 {
		p.T = rnd.Intn(256)
	}
	full := 0
	switch x := rnd.Intn(100); {
	case x < 42:
		p.Fam = 4
		if rnd.Intn(3) == 0 {
			p.Ihl = rnd.Intn(16)
		}
		p.Df, p.Mf = rnd.Intn(2) == 0, rnd.Intn(4) == 0
		if rnd.Intn(3) == 0 {
			p.Fo = 1 << uint(rnd.Intn(13))
			if rnd.Intn(2) == 0 {
				p.Fo = 1 + rnd.Intn(8191)
			}
		}
		p.Proto = c20V4Protos[rnd.Intn(len(c20V4Protos))]
		if rnd.Intn(6) == 0 {
			p.Proto = rnd.Intn(256)
		}
		full = p.Ihl * 4
		if full < 20 {
			full = 20
		}
	case x < 96:
		p.Fam = 6
		p.Proto = c20V6Uppers[rnd.Intn(len(c20V6Uppers))]
		if rnd.Intn(6) == 0 {
			for {
				p.Proto = rnd.Intn(256)
				if !c20IsExt(p.Proto) {
					break
				}
			}
		}
		nh := 0
		switch y := rnd.Intn(10); {
		case y < 2:
		case y < 6:
			nh = 1 + rnd.Intn(4)
		case y < 8:
			nh = 5 + rnd.Intn(4)
		default:
			nh = 8 + rnd.Intn(7)
		}
		full = 40
		for i := 0; i < nh; i++ {
			h := c20Hdr{P: c20ExtKinds[rnd.Intn(len(c20ExtKinds))]}
			switch h.P {
			case 44:
				h.Mf = rnd.Intn(2) == 0
				if rnd.Intn(5) == 0 {
					h.Fo = 1 << uint(rnd.Intn(13))
				}
			default:
				h.N = rnd.Intn(3)
				if rnd.Intn(40) == 0 {
					h.N = 255
				}
			}
			p.Chain = append(p.Chain, h)
			full += c20ExtSize(h)
		}
	default:
		p.Fam = []int{0, 1, 2, 3, 5, 7, 8, 9, 15}[rnd.Intn(9)]
		full = 20
	}
	switch x := rnd.Intn(10); {
	case x < 4:
		p.Len = full + 20 + rnd.Intn(40)
	case x < 7:
		p.Len = full + rnd.Intn(10) - 1
	case x < 9:
		p.Len = rnd.Intn(full + 9)
	default:
		p.Len = full - rnd.Intn(12)
	}
	if p.Len < 0 {
		p.Len = 0
	}
	return p, a
}
