package nebula

// C16 — binding of spec/Firewall.tla (rule semantics) to Firewall.AddRule / Firewall.Drop (vector mode).
// Every vector is a rule sequence in an environment; the expected sets of (packet shape, peer) pairs that must /
// may be allowed come from the specification's reference layer Allowed(rules, pkt, peer, dir).

import (
	"encoding/json"
	"fmt"
	"sync/atomic"
	"testing"
)

type c16Vec struct {
	In struct {
		Kind  string   `json:"kind"`
		Env   string   `json:"env"`
		Rules []fwRule `json:"rules"`
	} `json:"in"`
	Exp fwVerdicts `json:"exp"`
}

func TestVerif_C16(t *testing.T) {
	res := vNewResult()
	defer res.Write(t)
	var drops atomic.Int64
	n := fwForEachVector(t, res, func(w *fwWorld, idx int, line []byte) {
		var v c16Vec
		if err := json.Unmarshal(line, &v); err != nil {
			t.Errorf("vector: %v: %s", err, line)
			return
		}
		res.Case(string(line))
		if idx%4000 == 1 {
			res.Sample(json.RawMessage(line))
		}
		fw := w.newFirewall(v.In.Env)
		for _, r := range v.In.Rules {
			if err := w.addRule(fw, r); err != nil {
				res.Mismatch("addrule:error", fmt.Sprintf("AddRule(%+v) failed: %v", r, err), v.In)
				return
			}
		}
		multi := len(v.In.Rules) > 1
		if v.In.Kind == "prules" {
			c16PortVector(w, res, fw, &v, &drops)
			return
		}
		if multi {
			res.Hit(fmt.Sprintf("rules-%d", len(v.In.Rules)))
		} else {
			res.Hit("rules-1")
			r := v.In.Rules[0]
			res.Hit("proto-" + r.Proto)
			res.Hit("port-" + fwPortKind(r.Lo, r.Hi))
		}
		key := func(what, dir, want string, id int) string {
			s := w.u.Pkts[id/10-1]
			pk := s.Proto
			if s.Frag {
				pk += "/frag"
			}
			if multi {
				return fmt.Sprintf("%s:multi:%s:pkt=%s", what, want, pk)
			}
			r := v.In.Rules[0]
			return fmt.Sprintf("%s:%s:rule=%s/%s:pkt=%s", what, want, r.Proto, fwPortKind(r.Lo, r.Hi), pk)
		}
		// a direction without rules is evaluated too (nothing may pass there, except tracked flows)
		drops.Add(int64(w.checkVerdicts(res, fw, v.In.Env, v.Exp, []string{"in", "out"}, key, v.In)))
	})
	res.Extra["drops"] = drops.Load()
	res.Extra["vectors"] = n
}

// c16PortVector: a vector of the port dimension (Firewall.tla PortsSys / PortsPair): one or two rules whose port
// specifications are placed systematically in the port space, evaluated on the port pairs (packets whose looked-at
// port lies inside, at the edges, just outside every specification, port 0, fragments; tcp/udp/icmp/other).
func c16PortVector(w *fwWorld, res *vResult, fw *Firewall, v *c16Vec, drops *atomic.Int64) {
	res.Hit(fmt.Sprintf("prules-%d", len(v.In.Rules)))
	classes := ""
	for i, r := range v.In.Rules {
		pc := fwPortClass(r.Lo, r.Hi)
		if r.Proto == "icmp" {
			pc = "icmp-ignored"
		}
		res.Hit("pport:" + pc)
		if i > 0 {
			classes += "+"
		}
		classes += r.Proto + "/" + pc
		// which packet classes this specification is confronted with (same protocol table)
		for _, id := range w.u.PPairs[v.In.Env] {
			s := w.u.PPkts[id/10-1]
			if r.Proto == "any" || r.Proto == s.Proto {
				res.Hit("pcase:" + pc + ":" + fwPktClass(s, r.Dir))
			}
		}
	}
	key := func(what, dir, want string, id int) string {
		return fmt.Sprintf("%s:%s:ports=%s:pkt=%s", what, want, classes, fwPktClass(w.u.PPkts[id/10-1], dir))
	}
	drops.Add(int64(w.checkVerdictsOn(res, fw, w.u.PPairs[v.In.Env], w.ppacket, v.In.Env, v.Exp, []string{"in", "out"}, key, v.In)))
}
