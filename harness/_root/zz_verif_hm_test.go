package nebula

// Shared by C28 and C29 — binding of spec/Hostmap.tla to hostmap.go / handshake_manager.go / relay_manager.go.
//
// hmSys owns a real HostMap + HandshakeManager (+ bare Interface, test lighthouse) and real HostInfo objects.
// Model tunnel id k <-> the k-th HostInfo ever created (never recycled); model address a <-> 10.77.0.a;
// model index i <-> hmIdxReal(i); model remote index r <-> hmRIdxReal(r).  Index draws are imposed through a
// scripted crypto/rand.Reader (4-byte reads), everything else is answered by the saved real reader.
//
//  R: behaviours of TLC (edge tours of a state graph, simulated behaviours) are executed step by step; after
//     every step the real maps are projected onto the spec's variables and compared, and the C28/C29
//     invariants are evaluated directly on the real maps.  Which tunnel an Add evicts is not compared:
//     a different but admissible eviction ends the behaviour without a verdict.
//  T: a seeded random driver (natural draws from a small index space) records one ndjson line per call for
//     validation by Trace_Hostmap.tla.

import (
	crand "crypto/rand"
	"encoding/binary"
	"encoding/json"
	"errors"
	"fmt"
	"hash/fnv"
	"io"
	"log/slog"
	"math/rand"
	"net/netip"
	"slices"
	"sort"
	"sync"
	"testing"

	"github.com/slackhq/nebula/udp"
)

type hmParams struct {
	NT         int `json:"NT"`
	NA         int `json:"NA"`
	NI         int `json:"NI"`
	NR         int `json:"NR"`
	MaxPerAddr int `json:"MaxPerAddr"`
}

type hmState struct {
	Hosts         [][]int `json:"hosts"`
	Indexes       []int   `json:"indexes"`
	RemoteIndexes []int   `json:"remoteIndexes"`
	Relays        []int   `json:"relays"`
	VpnIps        []int   `json:"vpnIps"`
	PIndexes      []int   `json:"pIndexes"`
}

type hmStep struct {
	Act   string   `json:"act"`
	T     int      `json:"t"`
	Sh    []int    `json:"sh"`
	I     int      `json:"i"`
	R     int      `json:"r"`
	Dup   int      `json:"dup"`
	Older bool     `json:"older"`
	Res   string   `json:"res"`
	Post  *hmState `json:"post"`
}

type hmPlan struct {
	Graphs []struct {
		File   string   `json:"file"`
		Params hmParams `json:"params"`
	} `json:"graphs"`
	Sims []struct {
		File   string   `json:"file"`
		Params hmParams `json:"params"`
	} `json:"sims"`
	Trace struct {
		Params hmParams `json:"params"`
		Shapes [][]int  `json:"shapes"`
		Traces int      `json:"traces"`
		Ops    int      `json:"ops"`
	} `json:"trace"`
}

type hmSimFile struct {
	Behaviours [][]hmStep `json:"behaviours"`
}

// ------------------------------------------------------------------ concretisation

func hmIdxReal(i int) uint32 {
	if i == 0 {
		return 0
	}
	return uint32(i)<<24 | uint32(i)<<8 | 0x5a
}
func hmIdxModel(u uint32) (int, bool) {
	i := int(u >> 24)
	if i == 0 || hmIdxReal(i) != u {
		return 0, false
	}
	return i, true
}
func hmRIdxReal(r int) uint32 { return 0xa0000000 | uint32(r) }
func hmRIdxModel(u uint32) (int, bool) {
	if u&0xffff0000 != 0xa0000000 || u&0xffff == 0 {
		return 0, false
	}
	return int(u & 0xffff), true
}
func hmAddr(a int) netip.Addr { return netip.AddrFrom4([4]byte{10, 77, byte(a >> 8), byte(a)}) }
func hmAddrModel(ad netip.Addr) (int, bool) {
	if !ad.Is4() {
		return 0, false
	}
	b := ad.As4()
	if b[0] != 10 || b[1] != 77 {
		return 0, false
	}
	return int(b[2])<<8 | int(b[3]), true
}

// ------------------------------------------------------------------ scripted crypto/rand.Reader

type hmReader struct {
	mu         sync.Mutex
	real       io.Reader
	script     []int // model values still to be handed out
	rnd        *rand.Rand
	rndN       int   // random mode: uniform model values 0..rndN
	drawn      []int // model values handed out since begin()
	unscripted int   // 4-byte reads that the script could not answer
	fill       uint32
}

func (r *hmReader) Read(p []byte) (int, error) {
	if len(p) != 4 {
		return r.real.Read(p)
	}
	r.mu.Lock()
	defer r.mu.Unlock()
	var v uint32
	switch {
	case len(r.script) > 0:
		m := r.script[0]
		r.script = r.script[1:]
		r.drawn = append(r.drawn, m)
		v = hmIdxReal(m)
	case r.rnd != nil:
		m := r.rnd.Intn(r.rndN + 1)
		r.drawn = append(r.drawn, m)
		v = hmIdxReal(m)
	default:
		r.unscripted++
		r.fill++
		v = 0xffff0000 + r.fill
	}
	binary.BigEndian.PutUint32(p, v)
	return 4, nil
}
func (r *hmReader) begin(script []int) {
	r.mu.Lock()
	r.script = append([]int(nil), script...)
	r.drawn = nil
	r.mu.Unlock()
}
func (r *hmReader) end() []int {
	r.mu.Lock()
	defer r.mu.Unlock()
	r.script = nil
	return append([]int{}, r.drawn...)
}

// hmInstallReader swaps crypto/rand.Reader; the returned function restores it.
func hmInstallReader() (*hmReader, func()) {
	old := crand.Reader
	rd := &hmReader{real: old}
	crand.Reader = rd
	return rd, func() { crand.Reader = old }
}

// ------------------------------------------------------------------ the system under test

type hmSys struct {
	p      hmParams
	l      *slog.Logger
	main   *HostMap
	hsm    *HandshakeManager
	f      *Interface
	lh     *LightHouse
	objs   []*HostInfo // objs[k-1] = tunnel object k
	ids    map[*HostInfo]int
	hhs    map[int]*HandshakeHostInfo
	rd     *hmReader
	rnd    *rand.Rand
	peers  int
	pkts   int
	hsTime uint64
}

func hmNewSys(p hmParams, rd *hmReader, rnd *rand.Rand) *hmSys {
	l := slog.New(slog.DiscardHandler)
	main := newHostMap(l)
	pr := []netip.Prefix{}
	main.preferredRanges.Store(&pr)
	lh := newTestLighthouse()
	hsm := NewHandshakeManager(l, main, lh, &udp.NoopConn{}, defaultHandshakeConfig)
	f := &Interface{hostMap: main, handshakeManager: hsm, pki: &PKI{}, l: l, lightHouse: lh}
	hsm.f = f
	return &hmSys{p: p, l: l, main: main, hsm: hsm, f: f, lh: lh, ids: map[*HostInfo]int{},
		hhs: map[int]*HandshakeHostInfo{}, rd: rd, rnd: rnd, hsTime: 1 << 40}
}

func (s *hmSys) register(hi *HostInfo) int {
	if id, ok := s.ids[hi]; ok {
		return id
	}
	s.objs = append(s.objs, hi)
	s.ids[hi] = len(s.objs)
	return len(s.objs)
}
func (s *hmSys) obj(t int) *HostInfo {
	if t < 1 || t > len(s.objs) {
		return nil
	}
	return s.objs[t-1]
}
func (s *hmSys) addrs(sh []int) []netip.Addr {
	out := make([]netip.Addr, len(sh))
	for k, a := range sh {
		out[k] = hmAddr(a)
	}
	return out
}
func (s *hmSys) packet() []byte {
	s.pkts++
	return []byte(fmt.Sprintf("stage0-packet-%06d", s.pkts))
}

// taken local indexes (main or pending) and taken relay indexes, as model values
func (s *hmSys) takenLocal() []int {
	m := map[int]struct{}{}
	for k := range s.main.Indexes {
		if i, ok := hmIdxModel(k); ok {
			m[i] = struct{}{}
		}
	}
	for k := range s.hsm.indexes {
		if i, ok := hmIdxModel(k); ok {
			m[i] = struct{}{}
		}
	}
	return vSortedInts(m)
}
func (s *hmSys) takenRelay() []int {
	m := map[int]struct{}{}
	for k := range s.main.Relays {
		if i, ok := hmIdxModel(k); ok {
			m[i] = struct{}{}
		}
	}
	return vSortedInts(m)
}

// script that ends on want (0 = never ends: 32 colliding draws), preceded by zero and colliding draws
func (s *hmSys) drawScript(taken []int, want int) []int {
	var sc []int
	if want == 0 {
		for k := 0; k < 32; k++ {
			if s.rnd.Intn(6) == 0 {
				sc = append(sc, 0)
			}
			sc = append(sc, taken[s.rnd.Intn(len(taken))])
		}
		return sc
	}
	n := 0
	if len(taken) > 0 {
		switch s.rnd.Intn(8) {
		case 0:
			n = 31 // the last permitted attempt succeeds
		case 1, 2, 3:
			n = 1 + s.rnd.Intn(3)
		}
	}
	for k := 0; k < n; k++ {
		if s.rnd.Intn(5) == 0 {
			sc = append(sc, 0)
		}
		sc = append(sc, taken[s.rnd.Intn(len(taken))])
	}
	if s.rnd.Intn(3) == 0 {
		sc = append(sc, 0)
	}
	return append(sc, want)
}

type hmObs struct {
	T     int    `json:"t"`
	Res   string `json:"res"`
	I     int    `json:"i"`
	Draws []int  `json:"draws,omitempty"`
	Stale bool   `json:"stale"`
	Note  string `json:"note,omitempty"`
}

func (s *hmSys) isLiveMain(hi *HostInfo) bool { return s.main.Indexes[hi.localIndexId] == hi }
func (s *hmSys) isPending(hi *HostInfo) bool {
	if len(hi.vpnAddrs) == 0 {
		return false
	}
	hh, ok := s.hsm.vpnIps[hi.vpnAddrs[0]]
	return ok && hh.hostinfo == hi
}

// apply performs one model action on the real objects.  script == nil: the draws are derived from the
// step (R); otherwise the reader is already in random mode (T) and st.I is ignored.
func (s *hmSys) apply(st *hmStep, natural bool) (obs hmObs, err error) {
	defer func() {
		if r := recover(); r != nil {
			err = fmt.Errorf("panic in %s: %v", st.Act, r)
		}
	}()
	switch st.Act {
	case "StartHandshake":
		hi := s.hsm.StartHandshake(hmAddr(st.Sh[0]), nil)
		for drained := false; !drained; {
			select {
			case <-s.lh.queryChan:
			default:
				drained = true
			}
		}
		if hi == nil {
			return obs, errors.New("StartHandshake returned nil")
		}
		obs.T = s.register(hi)
		if hh := s.hsm.vpnIps[hmAddr(st.Sh[0])]; hh != nil && hh.hostinfo == hi {
			s.hhs[obs.T] = hh
		}
	case "AllocateIndex", "AllocateIndexFail":
		hh := s.hhs[st.T]
		if hh == nil {
			return obs, fmt.Errorf("no pending handshake object for tunnel %d", st.T)
		}
		obs.T = st.T
		if !natural {
			want := st.I
			if st.Act == "AllocateIndexFail" {
				want = 0
			}
			s.rd.begin(s.drawScript(s.takenLocal(), want))
		} else {
			s.rd.begin(nil)
		}
		idx, e := s.hsm.allocateIndex(hh)
		obs.Draws = s.rd.end()
		if e != nil {
			obs.Res = "exhausted"
			if hh.hostinfo.localIndexId != 0 {
				obs.Note = "allocateIndex failed but left a local index on the tunnel"
			}
		} else {
			obs.Res = "ok"
			obs.I, _ = hmIdxModel(idx)
			if idx == 0 {
				obs.Note = "allocateIndex returned the zero index"
			} else if hh.hostinfo.localIndexId != idx {
				obs.Note = "allocateIndex result differs from the tunnel's local index"
			}
		}
	case "CheckAndComplete":
		if !natural {
			sc := []int{st.I}
			if s.rnd.Intn(3) == 0 {
				sc = []int{0, st.I}
			}
			s.rd.begin(sc)
		} else {
			s.rd.begin(nil)
		}
		idx, e := generateIndex(s.l)
		obs.Draws = s.rd.end()
		if e != nil {
			return obs, fmt.Errorf("generateIndex: %v", e)
		}
		obs.I, _ = hmIdxModel(idx)
		if idx == 0 {
			obs.Note = "generateIndex returned the zero index"
		}
		hi := &HostInfo{
			ConnectionState: &ConnectionState{initiator: false},
			localIndexId:    idx,
			remoteIndexId:   hmRIdxReal(st.R),
			vpnAddrs:        s.addrs(st.Sh),
			HandshakePacket: map[uint8][]byte{},
			relayState:      RelayState{relayForByAddr: map[netip.Addr]*Relay{}, relayForByIdx: map[uint32]*Relay{}},
		}
		if d := s.obj(st.Dup); d != nil {
			hi.HandshakePacket[handshakePacketStage0] = slices.Clone(d.HandshakePacket[handshakePacketStage0])
		} else {
			hi.HandshakePacket[handshakePacketStage0] = s.packet()
		}
		s.hsTime += 4
		hi.lastHandshakeTime = s.hsTime
		if ex := s.main.Hosts[hi.vpnAddrs[0]]; ex != nil {
			if st.Older {
				hi.lastHandshakeTime = ex.lastHandshakeTime - uint64(s.rnd.Intn(2))
			} else {
				hi.lastHandshakeTime = ex.lastHandshakeTime + 1
				if hi.lastHandshakeTime > s.hsTime {
					s.hsTime = hi.lastHandshakeTime
				}
			}
		}
		_, e = s.hsm.CheckAndComplete(hi, handshakePacketStage0, s.f)
		switch {
		case e == nil:
			obs.Res = "ok"
			obs.T = s.register(hi)
		case errors.Is(e, ErrAlreadySeen):
			obs.Res = "seen"
		case errors.Is(e, ErrExistingHostInfo):
			obs.Res = "old"
		case errors.Is(e, ErrLocalIndexCollision):
			obs.Res = "collision"
		default:
			obs.Res = "error:" + e.Error()
		}
		if obs.T == 0 {
			obs.T = len(s.objs) + 1
		}
	case "Complete":
		hi := s.obj(st.T)
		if hi == nil {
			return obs, fmt.Errorf("unknown tunnel %d", st.T)
		}
		obs.T = st.T
		hi.vpnAddrs = s.addrs(st.Sh)
		hi.remoteIndexId = hmRIdxReal(st.R)
		hi.ConnectionState = &ConnectionState{initiator: true}
		s.hsTime += 4
		hi.lastHandshakeTime = s.hsTime
		hi.HandshakePacket[handshakePacketStage0] = s.packet()
		s.hsm.Complete(hi, s.f)
	case "Delete":
		hi := s.obj(st.T)
		if hi == nil {
			return obs, fmt.Errorf("unknown tunnel %d", st.T)
		}
		obs.T = st.T
		obs.Stale = !s.isLiveMain(hi)
		if s.main.DeleteHostInfo(hi) {
			obs.Res = "final"
		} else {
			obs.Res = "more"
		}
	case "MakePrimary":
		hi := s.obj(st.T)
		if hi == nil {
			return obs, fmt.Errorf("unknown tunnel %d", st.T)
		}
		obs.T = st.T
		obs.Stale = !s.isLiveMain(hi)
		s.main.MakePrimary(hi)
	case "AddRelay", "AddRelayFail":
		hi := s.obj(st.T)
		if hi == nil {
			return obs, fmt.Errorf("unknown tunnel %d", st.T)
		}
		obs.T = st.T
		obs.Stale = !s.isLiveMain(hi)
		if !natural {
			want := st.I
			if st.Act == "AddRelayFail" {
				want = 0
			}
			s.rd.begin(s.drawScript(s.takenRelay(), want))
		} else {
			s.rd.begin(nil)
		}
		s.peers++
		idx, e := AddRelay(s.l, hi, s.main, netip.AddrFrom4([4]byte{10, 99, byte(s.peers >> 8), byte(s.peers)}), nil, TerminalType, Requested)
		obs.Draws = s.rd.end()
		if e != nil {
			obs.Res = "error"
		} else {
			obs.Res = "ok"
			obs.I, _ = hmIdxModel(idx)
			if idx == 0 {
				obs.Note = "AddRelay returned the zero index"
			}
		}
	case "DeletePending":
		hi := s.obj(st.T)
		if hi == nil {
			return obs, fmt.Errorf("unknown tunnel %d", st.T)
		}
		obs.T = st.T
		obs.Stale = !s.isPending(hi)
		s.hsm.DeleteHostInfo(hi)
	default:
		return obs, fmt.Errorf("unknown action %s", st.Act)
	}
	return obs, nil
}

// ------------------------------------------------------------------ projection and invariants on the real maps

// project maps the real state onto the spec's variables; problems = things that have no image
func (s *hmSys) project() (hmState, []string) {
	p := s.p
	var probs []string
	st := hmState{Hosts: make([][]int, p.NA), Indexes: make([]int, p.NI), RemoteIndexes: make([]int, p.NR),
		Relays: make([]int, p.NI), VpnIps: make([]int, p.NA), PIndexes: make([]int, p.NI)}
	id := func(hi *HostInfo, where string) int {
		if k, ok := s.ids[hi]; ok {
			return k
		}
		probs = append(probs, "unknown-object:"+where)
		return -1
	}
	addrKeys := map[netip.Addr]struct{}{}
	for a := range s.main.Hosts {
		addrKeys[a] = struct{}{}
	}
	for a := range s.main.moreHosts {
		addrKeys[a] = struct{}{}
	}
	for a := range addrKeys {
		k, ok := hmAddrModel(a)
		if !ok || k < 1 || k > p.NA {
			probs = append(probs, "address-outside-domain:hosts")
			continue
		}
		list := s.main.unlockedGetHostList(a)
		out := make([]int, 0, len(list))
		for _, h := range list {
			if h == nil {
				probs = append(probs, "nil-object:hosts")
				continue
			}
			out = append(out, id(h, "hosts"))
		}
		st.Hosts[k-1] = out
	}
	for k := range st.Hosts {
		if st.Hosts[k] == nil {
			st.Hosts[k] = []int{}
		}
	}
	local := func(m map[uint32]*HostInfo, into []int, name string) {
		for k, h := range m {
			if k == 0 {
				probs = append(probs, "zero-index:"+name)
				continue
			}
			i, ok := hmIdxModel(k)
			if !ok || i > len(into) {
				probs = append(probs, "index-outside-domain:"+name)
				continue
			}
			if h == nil {
				probs = append(probs, "nil-object:"+name)
				continue
			}
			into[i-1] = id(h, name)
		}
	}
	local(s.main.Indexes, st.Indexes, "indexes")
	local(s.main.Relays, st.Relays, "relays")
	for k, h := range s.main.RemoteIndexes {
		r, ok := hmRIdxModel(k)
		if !ok || r > p.NR {
			probs = append(probs, "index-outside-domain:remoteIndexes")
			continue
		}
		if h == nil {
			probs = append(probs, "nil-object:remoteIndexes")
			continue
		}
		st.RemoteIndexes[r-1] = id(h, "remoteIndexes")
	}
	for a, hh := range s.hsm.vpnIps {
		k, ok := hmAddrModel(a)
		if !ok || k < 1 || k > p.NA || hh == nil || hh.hostinfo == nil {
			probs = append(probs, "address-outside-domain:vpnIps")
			continue
		}
		st.VpnIps[k-1] = id(hh.hostinfo, "vpnIps")
	}
	for k, hh := range s.hsm.indexes {
		if k == 0 {
			probs = append(probs, "zero-index:pIndexes")
			continue
		}
		i, ok := hmIdxModel(k)
		if !ok || i > p.NI || hh == nil || hh.hostinfo == nil {
			probs = append(probs, "index-outside-domain:pIndexes")
			continue
		}
		st.PIndexes[i-1] = id(hh.hostinfo, "pIndexes")
	}
	sort.Strings(probs)
	return st, slices.Compact(probs)
}

// checkReal evaluates the C28 / C29 state invariants directly on the real maps (no model involved).
func (s *hmSys) checkReal() []string {
	var bad []string
	add := func(c string) { bad = append(bad, c) }
	hm := s.main
	live := func(h *HostInfo) bool { return h != nil && hm.Indexes[h.localIndexId] == h }
	for a, l := range hm.moreHosts {
		if _, ok := hm.Hosts[a]; !ok || len(l) == 0 || hm.Hosts[a] != l[0] {
			add("hosts:primary-not-head")
		}
	}
	for a := range hm.Hosts {
		l := hm.unlockedGetHostList(a)
		if len(l) == 0 || l[0] != hm.Hosts[a] {
			add("hosts:primary-not-head")
		}
		if len(l) > MaxHostInfosPerVpnIp {
			add("hosts:over-limit")
		}
		seen := map[*HostInfo]bool{}
		for _, h := range l {
			if seen[h] {
				add("hosts:duplicate")
			}
			seen[h] = true
			if !live(h) {
				add("hosts:member-not-live")
			} else if !slices.Contains(h.vpnAddrs, a) {
				add("hosts:member-not-owner")
			}
		}
	}
	for k, h := range hm.Indexes {
		if k == 0 {
			add("index:zero")
		}
		if h == nil || h.localIndexId != k {
			add("index:key-mismatch")
			continue
		}
		for _, a := range h.vpnAddrs {
			if !slices.Contains(hm.unlockedGetHostList(a), h) {
				add("live:not-listed")
			}
		}
		if _, ok := s.hsm.indexes[k]; ok {
			add("index:main-and-pending")
		}
	}
	for k, h := range hm.RemoteIndexes {
		if !live(h) {
			add("dangling:remoteIndexes")
		} else if h.remoteIndexId != k {
			add("index:remote-key-mismatch")
		}
	}
	for k, h := range hm.Relays {
		if k == 0 {
			add("index:zero-relay")
		}
		if !live(h) {
			add("dangling:relays")
		} else if _, ok := h.relayState.QueryRelayForByIdx(k); !ok {
			add("relay:not-owned")
		}
	}
	// every relay index a live tunnel believes it owns resolves to it (unique in the relay namespace)
	for _, h := range hm.Indexes {
		if h == nil {
			continue
		}
		for _, k := range h.relayState.CopyRelayForIdxs() {
			if hm.Relays[k] != h {
				add("relay:lost-or-shared")
			}
		}
	}
	for k, hh := range s.hsm.indexes {
		if k == 0 {
			add("index:zero-pending")
		}
		if hh == nil || hh.hostinfo == nil || hh.hostinfo.localIndexId != k {
			add("pending:key-mismatch")
			continue
		}
		if !s.isPending(hh.hostinfo) {
			add("pending:index-without-handshake")
		}
	}
	for _, hh := range s.hsm.vpnIps {
		// a pending handshake that was given an index still holds it
		if hh != nil && hh.hostinfo != nil && hh.hostinfo.localIndexId != 0 && s.hsm.indexes[hh.hostinfo.localIndexId] != hh {
			add("pending:index-lost")
		}
	}
	sort.Strings(bad)
	return slices.Compact(bad)
}

func hmDiff(want, got *hmState) string {
	wb, _ := json.Marshal(want.Hosts)
	gb, _ := json.Marshal(got.Hosts)
	if string(wb) != string(gb) {
		return "hosts"
	}
	for _, c := range []struct {
		n    string
		w, g []int
	}{{"indexes", want.Indexes, got.Indexes}, {"remoteIndexes", want.RemoteIndexes, got.RemoteIndexes},
		{"relays", want.Relays, got.Relays}, {"vpnIps", want.VpnIps, got.VpnIps}, {"pIndexes", want.PIndexes, got.PIndexes}} {
		if !slices.Equal(c.w, c.g) {
			return c.n
		}
	}
	return ""
}

// hmAdmissibleAdd: got is pre + tunnel t (addresses sh, indexes lidx/ridx) with some admissible eviction set
// (spec: AddAny).  Only called when got differs from the expected successor.
func hmAdmissibleAdd(p hmParams, pre, got *hmState, t int, sh []int, lidx, ridx int, addrsOf func(int) []int) bool {
	liveSet := func(ix []int) map[int]bool {
		m := map[int]bool{}
		for _, v := range ix {
			if v != 0 {
				m[v] = true
			}
		}
		return m
	}
	del := func(l []int, drop map[int]bool) []int {
		out := []int{}
		for _, v := range l {
			if !drop[v] {
				out = append(out, v)
			}
		}
		return out
	}
	before, after := liveSet(pre.Indexes), liveSet(got.Indexes)
	ev := map[int]bool{}
	for v := range before {
		if !after[v] {
			ev[v] = true
		}
	}
	over := 0
	cand := map[int]bool{}
	for _, a := range sh {
		if len(del(pre.Hosts[a-1], map[int]bool{t: true})) >= p.MaxPerAddr {
			over++
			for _, v := range pre.Hosts[a-1] {
				if v != t {
					cand[v] = true
				}
			}
		}
	}
	if len(ev) > over {
		return false
	}
	for v := range ev {
		if !cand[v] {
			return false
		}
	}
	drop := map[int]bool{t: true}
	for v := range ev {
		drop[v] = true
	}
	exp := hmState{Hosts: make([][]int, p.NA), VpnIps: got.VpnIps, PIndexes: got.PIndexes}
	for a := 1; a <= p.NA; a++ {
		l := del(pre.Hosts[a-1], drop)
		if slices.Contains(sh, a) {
			l = append([]int{t}, l...)
		}
		exp.Hosts[a-1] = l
	}
	clear := func(src []int) []int {
		out := slices.Clone(src)
		for k, v := range out {
			if ev[v] {
				out[k] = 0
			}
		}
		return out
	}
	exp.Indexes, exp.RemoteIndexes, exp.Relays = clear(pre.Indexes), clear(pre.RemoteIndexes), clear(pre.Relays)
	exp.Indexes[lidx-1] = t
	exp.RemoteIndexes[ridx-1] = t
	_ = addrsOf
	return hmDiff(&exp, got) == ""
}

// ------------------------------------------------------------------ R: replay of one behaviour

type hmRunner struct {
	t    *testing.T
	res  *vResult
	rd   *hmReader
	rnd  *rand.Rand
	prop string
}

func hmKeyAct(act string, stale bool) string {
	if stale {
		return act + ":stale"
	}
	return act
}

// run executes the steps on a fresh system; returns false when the behaviour was cut short
func (r *hmRunner) run(p hmParams, steps []hmStep, src string, caseID func(k int) string) {
	s := hmNewSys(p, r.rd, r.rnd)
	pre, _ := s.project()
	var history []map[string]any
	for k := range steps {
		st := &steps[k]
		r.res.Hit(st.Act)
		r.res.Case(caseID(k))
		obs, err := s.apply(st, false)
		got, probs := s.project()
		history = append(history, map[string]any{"act": st.Act, "t": max(st.T, obs.T), "sh": st.Sh, "i": st.I, "r": st.R,
			"dup": st.Dup, "older": st.Older, "res": st.Res, "observed": obs})
		detail := func() map[string]any {
			h := history
			if len(h) > 40 {
				h = h[len(h)-40:]
			}
			return map[string]any{"source": src, "step": k, "params": p, "behaviour_tail": h, "expected": st.Post, "real": got,
				"unprojectable": probs}
		}
		ka := hmKeyAct(st.Act, obs.Stale)
		if err != nil {
			r.res.Mismatch("replay:"+ka+":failed", err.Error(), detail())
			return
		}
		if obs.Note != "" {
			r.res.Mismatch("replay:"+ka+":result", obs.Note, detail())
			return
		}
		// results
		wantRes := st.Res
		switch st.Act {
		case "StartHandshake":
			if obs.T != st.T {
				r.res.Mismatch("replay:StartHandshake:result", fmt.Sprintf("StartHandshake returned tunnel %d, specification %d", obs.T, st.T), detail())
				return
			}
		case "AllocateIndex", "AllocateIndexFail":
			if obs.Res != wantRes || (wantRes == "ok" && obs.I != st.I) {
				r.res.Mismatch("replay:"+st.Act+":result", fmt.Sprintf("allocateIndex with draws %v gave %s/%d, specification %s/%d",
					obs.Draws, obs.Res, obs.I, wantRes, st.I), detail())
				return
			}
			if st.Act == "AllocateIndexFail" {
				r.res.Hit("giveup32")
			}
			if len(obs.Draws) > 1 {
				r.res.Hit("collision-retry")
			}
			if slices.Contains(obs.Draws, 0) {
				r.res.Hit("zero-draw")
			}
		case "CheckAndComplete":
			if obs.Res != wantRes {
				r.res.Mismatch("replay:CheckAndComplete:"+wantRes+":result", fmt.Sprintf("CheckAndComplete gave %q, specification %q",
					obs.Res, wantRes), detail())
				return
			}
			r.res.Hit("CheckAndComplete:" + wantRes)
			if slices.Contains(obs.Draws, 0) {
				r.res.Hit("zero-draw")
			}
		case "Delete":
			if obs.Res != wantRes {
				r.res.Mismatch("replay:"+ka+":final", fmt.Sprintf("DeleteHostInfo reported %q, specification %q", obs.Res, wantRes), detail())
				return
			}
			if obs.Stale {
				r.res.Hit("Delete:stale")
			}
		case "MakePrimary":
			if obs.Stale {
				r.res.Hit("MakePrimary:stale")
			}
		case "AddRelay", "AddRelayFail":
			want := "ok"
			if st.Act == "AddRelayFail" || wantRes != "ok" {
				want = "error"
			}
			if obs.Res != want || (want == "ok" && obs.I != st.I) {
				r.res.Mismatch("replay:"+ka+":result", fmt.Sprintf("AddRelay with draws %v gave %s/%d, specification %s/%d",
					obs.Draws, obs.Res, obs.I, want, st.I), detail())
				return
			}
			if st.Act == "AddRelayFail" {
				r.res.Hit("relay-giveup32")
			}
			if obs.Stale {
				r.res.Hit("AddRelay:stale")
			}
		case "DeletePending":
			if obs.Stale {
				r.res.Hit("DeletePending:stale")
			}
		}
		if len(probs) > 0 {
			r.res.Mismatch("replay:"+ka+":"+probs[0], fmt.Sprintf("after %s(t=%d) the real maps hold entries with no image in the specification: %v",
				st.Act, st.T, probs), detail())
			return
		}
		// projected state
		if d := hmDiff(st.Post, &got); d != "" {
			adding := (st.Act == "CheckAndComplete" && st.Res == "ok") || st.Act == "Complete"
			if adding {
				hi := s.obj(obs.T)
				li, _ := hmIdxModel(hi.localIndexId)
				if li > 0 && hmAdmissibleAdd(p, &pre, &got, obs.T, st.Sh, li, st.R, nil) && hmDiffPending(st.Post, &got) {
					r.res.Hit("evict-diverged")
					if bad := s.checkReal(); len(bad) > 0 {
						r.res.Mismatch("inv:after:"+ka, fmt.Sprintf("after %s(t=%d) the real maps violate %v", st.Act, obs.T, bad), detail())
					}
					return
				}
			}
			r.res.Mismatch("replay:"+ka+":"+d, fmt.Sprintf("after %s(t=%d) %s differs from the specification", st.Act, st.T, d), detail())
			return
		}
		// invariants on the real maps (they also cover what the projection hides: Hosts/moreHosts agreement,
		// keys vs. the indexes stored in the objects, relay bookkeeping of the owning tunnel)
		if bad := s.checkReal(); len(bad) > 0 {
			r.res.Mismatch("inv:after:"+ka, fmt.Sprintf("after %s(t=%d) the real maps violate %v", st.Act, obs.T, bad), detail())
			return
		}
		if (st.Act == "CheckAndComplete" && st.Res == "ok") || st.Act == "Complete" {
			if len(hmLive(&got)) <= len(hmLive(&pre)) {
				r.res.Hit("evict")
			}
		}
		pre = got
	}
}

func hmDiffPending(want, got *hmState) bool {
	return slices.Equal(want.VpnIps, got.VpnIps) && slices.Equal(want.PIndexes, got.PIndexes)
}

func hmLive(s *hmState) map[int]bool {
	m := map[int]bool{}
	for _, v := range s.Indexes {
		if v != 0 {
			m[v] = true
		}
	}
	return m
}

func hmParseState(m map[string]json.RawMessage) *hmState {
	var st hmState
	must := func(k string, into any) {
		if err := json.Unmarshal(m[k], into); err != nil {
			panic(fmt.Sprintf("verif: state variable %s: %v (%s)", k, err, m[k]))
		}
	}
	must("hosts", &st.Hosts)
	must("indexes", &st.Indexes)
	must("remoteIndexes", &st.RemoteIndexes)
	must("relays", &st.Relays)
	must("vpnIps", &st.VpnIps)
	must("pIndexes", &st.PIndexes)
	return &st
}

// hmEdgeStep turns an edge of the state graph (action label + successor state) into a step.
// nused = number of tunnel objects before the step (CheckAndComplete creates nused+1).
func hmEdgeStep(e *vEdge, post *hmState) hmStep {
	st := hmStep{Act: e.Act, Post: post}
	ints := func(m json.RawMessage) []int { return vInts(m) }
	switch e.Act {
	case "StartHandshake":
		st.Sh = []int{vInt(e.Args[0])}
		st.T = vInt(e.Args[1])
	case "AllocateIndex":
		st.T, st.I, st.Res = vInt(e.Args[0]), vInt(e.Args[1]), "ok"
	case "AllocateIndexFail":
		st.T, st.Res = vInt(e.Args[0]), "exhausted"
	case "CheckAndComplete":
		st.Sh, st.I, st.R, st.Dup, st.Older, st.Res = ints(e.Args[0]), vInt(e.Args[1]), vInt(e.Args[2]), vInt(e.Args[3]), vBool(e.Args[4]), vStr(e.Args[5])
	case "Complete":
		st.T, st.Sh, st.R = vInt(e.Args[0]), ints(e.Args[1]), vInt(e.Args[2])
	case "Delete":
		st.T = vInt(e.Args[0])
		st.Res = "more"
		if vBool(e.Args[1]) {
			st.Res = "final"
		}
	case "MakePrimary", "AddRelayFail", "DeletePending":
		st.T = vInt(e.Args[0])
	case "AddRelay":
		st.T, st.I, st.Res = vInt(e.Args[0]), vInt(e.Args[1]), vStr(e.Args[2])
	default:
		panic("verif: unknown action label " + e.Act)
	}
	return st
}

func hmHash(v any) string {
	b, _ := json.Marshal(v)
	h := fnv.New64a()
	h.Write(b)
	return fmt.Sprintf("%x", h.Sum64())
}

// hmReplayAll: R over every graph and simulation file of the plan.
func hmReplayAll(t *testing.T, res *vResult, plan *hmPlan, rd *hmReader, rnd *rand.Rand) {
	r := &hmRunner{t: t, res: res, rd: rd, rnd: rnd}
	for _, g := range plan.Graphs {
		var gr vGraph
		vReadJSON(t, g.File, &gr)
		states := make([]*hmState, len(gr.States))
		for k := range gr.States {
			states[k] = hmParseState(gr.States[k])
		}
		for ti, tour := range gr.Tours {
			steps := make([]hmStep, len(tour))
			for k, ei := range tour {
				steps[k] = hmEdgeStep(&gr.Edges[ei], states[gr.Edges[ei].Dst])
			}
			tourCopy := tour
			r.run(g.Params, steps, fmt.Sprintf("%s tour %d", g.File, ti), func(k int) string { return fmt.Sprintf("%s/%d", g.File, tourCopy[k]) })
			res.Traces++
		}
		if len(gr.Tours) > 0 {
			tour := gr.Tours[len(gr.Tours)/2]
			var acts []string
			for _, ei := range tour {
				e := gr.Edges[ei]
				acts = append(acts, fmt.Sprintf("%s%s", e.Act, e.Args))
			}
			res.Sample(map[string]any{"graph": g.File, "tour": acts})
		}
	}
	for _, sf := range plan.Sims {
		var f hmSimFile
		vReadJSON(t, sf.File, &f)
		for bi := range f.Behaviours {
			b := f.Behaviours[bi]
			r.run(sf.Params, b, fmt.Sprintf("%s behaviour %d", sf.File, bi), func(k int) string {
				pre := any(nil)
				if k > 0 {
					pre = b[k-1].Post
				}
				return "sim/" + hmHash([]any{pre, b[k].Act, b[k].T, b[k].Sh, b[k].I, b[k].R, b[k].Dup, b[k].Older})
			})
			res.Traces++
		}
	}
}

// ------------------------------------------------------------------ T: seeded random driver

func hmDrive(t *testing.T, res *vResult, plan *hmPlan, rd *hmReader, rnd *rand.Rand, out string) {
	tr := vNewTracer(t, out)
	defer tr.Close()
	p := plan.Trace.Params
	shapes := plan.Trace.Shapes
	for n := 0; n < plan.Trace.Traces; n++ {
		s := hmNewSys(p, rd, rnd)
		rd.mu.Lock()
		rd.rnd, rd.rndN = rnd, p.NI
		if n%4 == 3 {
			rd.rndN = p.NI / 2 // a crowded index space: exhaustion happens
		}
		rd.mu.Unlock()
		tr.Event(map[string]any{"ev": "reset"})
		var ever []int // objects that are or were in the main maps
		for op := 0; op < plan.Trace.Ops; op++ {
			var st hmStep
			var pend0, pend1 []int // pending without / with an index
			for a := 1; a <= p.NA; a++ {
				if hh := s.hsm.vpnIps[hmAddr(a)]; hh != nil {
					if hh.hostinfo.localIndexId == 0 {
						pend0 = append(pend0, s.ids[hh.hostinfo])
					} else {
						pend1 = append(pend1, s.ids[hh.hostinfo])
					}
				}
			}
			room := len(s.objs) < p.NT-1
			pickEver := func() int {
				// prefer recent objects, but reach back to long removed ones too
				if rnd.Intn(3) == 0 {
					return ever[rnd.Intn(len(ever))]
				}
				k := len(ever) - 1 - rnd.Intn(min(len(ever), 8))
				return ever[k]
			}
			for tries := 0; st.Act == "" && tries < 50; tries++ {
				switch c := rnd.Intn(100); {
				case c < 10 && room:
					st = hmStep{Act: "StartHandshake", Sh: []int{1 + rnd.Intn(p.NA)}}
				case c < 20 && len(pend0) > 0:
					st = hmStep{Act: "AllocateIndex", T: pend0[rnd.Intn(len(pend0))]}
				case c < 30 && len(pend1) > 0:
					tid := pend1[rnd.Intn(len(pend1))]
					a0, _ := hmAddrModel(s.obj(tid).vpnAddrs[0])
					var fit [][]int
					for _, sh := range shapes {
						if slices.Contains(sh, a0) {
							fit = append(fit, sh)
						}
					}
					if len(fit) > 0 {
						st = hmStep{Act: "Complete", T: tid, Sh: fit[rnd.Intn(len(fit))], R: 1 + rnd.Intn(p.NR)}
					}
				case c < 58 && room:
					sh := shapes[rnd.Intn(len(shapes))]
					st = hmStep{Act: "CheckAndComplete", Sh: sh, R: 1 + rnd.Intn(p.NR)}
					if l := s.main.unlockedGetHostList(hmAddr(sh[0])); len(l) > 0 {
						if rnd.Intn(7) == 0 {
							st.Dup = s.ids[l[rnd.Intn(len(l))]]
						}
						st.Older = rnd.Intn(4) == 0
					}
				case c < 74 && len(ever) > 0:
					st = hmStep{Act: "Delete", T: pickEver()}
				case c < 82 && len(ever) > 0:
					st = hmStep{Act: "MakePrimary", T: pickEver()}
				case c < 92 && len(ever) > 0:
					st = hmStep{Act: "AddRelay", T: pickEver()}
				case c < 100:
					var cand []int
					cand = append(cand, pend0...)
					cand = append(cand, pend1...)
					if len(ever) > 0 && (len(cand) == 0 || rnd.Intn(2) == 0) {
						cand = append(cand, pickEver())
					}
					if len(cand) > 0 {
						st = hmStep{Act: "DeletePending", T: cand[rnd.Intn(len(cand))]}
					}
				}
			}
			if st.Act == "" {
				continue
			}
			obs, err := s.apply(&st, true)
			if err != nil {
				res.Mismatch("trace:"+st.Act+":failed", err.Error(), map[string]any{"trace": n, "op": op})
				break
			}
			proj, probs := s.project()
			ev := map[string]any{"ev": st.Act, "t": obs.T, "res": obs.Res, "i": obs.I, "stale": obs.Stale,
				"hosts": proj.Hosts, "indexes": proj.Indexes, "remoteIndexes": proj.RemoteIndexes, "relays": proj.Relays,
				"vpnIps": proj.VpnIps, "pIndexes": proj.PIndexes}
			ka := hmKeyAct(st.Act, obs.Stale)
			switch st.Act {
			case "StartHandshake":
				ev["a"] = st.Sh[0]
			case "AllocateIndex":
				ev["draws"] = obs.Draws
				if obs.Res != "ok" {
					res.Hit("T:giveup32")
				}
			case "CheckAndComplete":
				ev["sh"], ev["r"], ev["dup"], ev["older"] = st.Sh, st.R, st.Dup, st.Older
				if obs.Res == "ok" {
					ever = append(ever, obs.T)
				}
				res.Hit("T:CheckAndComplete:" + obs.Res)
			case "Complete":
				ev["sh"], ev["r"] = st.Sh, st.R
				ever = append(ever, obs.T)
			case "AddRelay":
				ev["draws"] = obs.Draws
				if obs.Res == "error" {
					// all draws taken = exhausted; otherwise the tunnel was gone
					ev["res"] = "gone"
					nz := 0
					all := true
					for _, d := range obs.Draws {
						if d != 0 {
							nz++
							if d > len(proj.Relays) || proj.Relays[d-1] == 0 {
								all = false
							}
						}
					}
					if nz >= 32 && all {
						ev["res"] = "exhausted"
						res.Hit("T:relay-giveup32")
					} else if nz > 0 {
						ev["i"] = obs.Draws[len(obs.Draws)-1]
					}
				}
			}
			if obs.Stale {
				res.Hit("T:" + st.Act + ":stale")
			}
			if len(obs.Draws) > 1 {
				res.Hit("T:collision-or-zero-redraw")
			}
			res.Hit("T:" + st.Act)
			tr.Event(ev)
			// the invariants are evaluated on the real maps here as well: the verdict for a broken state does not
			// depend on TLC accepting the line
			if obs.Note != "" {
				res.Mismatch("trace:"+ka+":result", obs.Note, map[string]any{"trace": n, "op": op, "event": ev})
				break
			}
			if bad := s.checkReal(); len(bad) > 0 {
				res.Mismatch("inv:after:"+ka, fmt.Sprintf("trace %d op %d: after %s(t=%d) the real maps violate %v", n, op, st.Act, obs.T, bad),
					map[string]any{"trace": n, "op": op, "event": ev})
				break
			}
			if len(probs) > 0 {
				res.Mismatch("trace:"+ka+":"+probs[0], fmt.Sprintf("trace %d op %d: entries with no image in the specification: %v", n, op, probs),
					map[string]any{"trace": n, "op": op, "event": ev})
				break
			}
		}
		res.Case(fmt.Sprintf("trace/%d", n))
	}
	rd.mu.Lock()
	rd.rnd = nil
	rd.mu.Unlock()
}

// hmMain is the body of TestVerif_C28 / TestVerif_C29.
func hmMain(t *testing.T, prop string) {
	res := vNewResult()
	defer res.Write(t)
	var plan hmPlan
	vReadJSON(t, prop+"_plan.json", &plan)
	rd, restore := hmInstallReader()
	defer restore()
	rnd := vRand()
	hmReplayAll(t, res, &plan, rd, rnd)
	if plan.Trace.Traces > 0 {
		hmDrive(t, res, &plan, rd, rnd, "trace_hostmap.ndjson")
	}
	res.Extra["unscripted_draws"] = rd.unscripted
}
