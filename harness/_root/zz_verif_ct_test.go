package nebula

// ct — helpers shared by the conntrack checks C18 / C19 (spec/Conntrack.tla).
//
// A ctWorld is a real Interface{pki, firewall} whose Firewall is built by NewFirewallFromConfig from a real
// YAML string and replaced through Interface.reloadFirewall; packets go through Firewall.Drop with real
// HostInfos.  Time is the virtual clock of a testing/synctest bubble (firewall.go calls time.Now()).
// Model flows (positive integers) are concretised as oriented tuples; model rule sets (sets of
// <<flow, incoming>>) as one exact rule per allowed packet (proto, port, cidr = remote/32, local_cidr = local/32).

import (
	"context"
	"encoding/json"
	"fmt"
	"io"
	"log/slog"
	"net/netip"
	"slices"
	"sort"
	"strings"
	"testing"
	"testing/synctest"
	"time"

	"github.com/gaissmai/bart"
	"github.com/slackhq/nebula/cert"
	"github.com/slackhq/nebula/config"
	"github.com/slackhq/nebula/firewall"
	"github.com/slackhq/nebula/logging"
	"github.com/slackhq/nebula/test"
)

type ctTuple struct {
	Local, Remote netip.Addr
	LPort, RPort  uint16
	Proto         uint8
}

func (t ctTuple) String() string {
	return fmt.Sprintf("%d %s:%d<->%s:%d", t.Proto, t.Local, t.LPort, t.Remote, t.RPort)
}

func (t ctTuple) packet() firewall.Packet {
	return firewall.Packet{LocalAddr: t.Local, RemoteAddr: t.Remote, LocalPort: t.LPort, RemotePort: t.RPort, Protocol: t.Proto}
}

// options that change what unchanged rule text means: firewall.default_local_cidr_any and whether the node's
// certificate has an unsafe network (198.51.100.0/24). keyAlways: firewall.default_local_cidr_any is written whatever the
// certificate says, so that the firewall section stays byte-identical when only the certificate changes.
type ctOpts struct{ any, unsafe, keyAlways bool }

var ctUnsafeNet = netip.MustParsePrefix("198.51.100.0/24")
var ctUnsafeLocal = netip.MustParseAddr("198.51.100.5")

// one firewall rule; Port 0 = any; an invalid (zero) Local = a rule without local_cidr
type ctAtom struct {
	Incoming      bool
	Proto         string // tcp udp icmp any
	Port          int
	Remote, Local netip.Prefix
}

// what the documentation says such a rule matches (used only to decide which packets a generated rule set allows)
func (a ctAtom) matches(t ctTuple, incoming bool, o ctOpts) bool {
	if a.Incoming != incoming {
		return false
	}
	if ctUnsafeNet.Contains(t.Local) && !o.unsafe {
		return false // without the unsafe network in the certificate its addresses are not the node's: no rule applies
	}
	switch a.Proto {
	case "tcp":
		if t.Proto != firewall.ProtoTCP {
			return false
		}
	case "udp":
		if t.Proto != firewall.ProtoUDP {
			return false
		}
	case "icmp":
		if t.Proto != firewall.ProtoICMP {
			return false
		}
	}
	if t.Proto != firewall.ProtoICMP && a.Port != 0 {
		p := int(t.RPort)
		if incoming {
			p = int(t.LPort)
		}
		if p != a.Port {
			return false
		}
	}
	if t.Proto == firewall.ProtoICMP && a.Port != 0 {
		return false // a rule with a port never matches ICMP
	}
	if !a.Local.IsValid() {
		// no local_cidr: every local address, unless the certificate has unsafe networks and default_local_cidr_any is off,
		// then only the node's own vpn networks
		own := netip.PrefixFrom(ctLocals[0], 24).Masked().Contains(t.Local) || netip.PrefixFrom(ctLocals[1], 24).Masked().Contains(t.Local)
		return a.Remote.Contains(t.Remote) && (!o.unsafe || o.any || own)
	}
	return a.Remote.Contains(t.Remote) && a.Local.Contains(t.Local)
}

func ctProtoName(p uint8) string {
	switch p {
	case firewall.ProtoTCP:
		return "tcp"
	case firewall.ProtoUDP:
		return "udp"
	case firewall.ProtoICMP:
		return "icmp"
	}
	return "any"
}

func ctProtoNum(name string) uint8 {
	switch name {
	case "tcp":
		return firewall.ProtoTCP
	case "udp":
		return firewall.ProtoUDP
	}
	return firewall.ProtoICMP // "other": default timeout
}

// the exact rule for packet <<t, incoming>>
func ctExactAtom(t ctTuple, incoming bool) ctAtom {
	a := ctAtom{Incoming: incoming, Proto: ctProtoName(t.Proto), Remote: netip.PrefixFrom(t.Remote, 32), Local: netip.PrefixFrom(t.Local, 32)}
	if t.Proto != firewall.ProtoICMP {
		a.Port = int(t.RPort)
		if incoming {
			a.Port = int(t.LPort)
		}
	}
	return a
}

// a model rule set: pairs [flow, incoming]
type ctRuleSet [][2]any

func ctDecodeRules(m json.RawMessage) ctRuleSet {
	var raw [][]json.RawMessage
	if err := json.Unmarshal(m, &raw); err != nil {
		panic(fmt.Sprintf("verif: bad rule set %s", m))
	}
	out := ctRuleSet{}
	for _, p := range raw {
		out = append(out, [2]any{vInt(p[0]), vBool(p[1])})
	}
	return out
}

func (rs ctRuleSet) key() string {
	s := []string{}
	for _, p := range rs {
		s = append(s, fmt.Sprintf("%d:%v", p[0], p[1]))
	}
	sort.Strings(s)
	return strings.Join(s, ",")
}

func (rs ctRuleSet) has(f int, inc bool) bool {
	for _, p := range rs {
		if p[0].(int) == f && p[1].(bool) == inc {
			return true
		}
	}
	return false
}

// atoms for a model rule set under a tuple map (tuples[f-1] is flow f); ok=false when the exact rules would allow a
// packet of another model flow as well (two flows that the rule language cannot tell apart in that direction)
func ctAtomsFor(rs ctRuleSet, tuples []ctTuple) (atoms []ctAtom, ok bool) {
	for _, p := range rs {
		atoms = append(atoms, ctExactAtom(tuples[p[0].(int)-1], p[1].(bool)))
	}
	for f := range tuples {
		for _, inc := range []bool{false, true} {
			m := false
			for _, a := range atoms {
				m = m || a.matches(tuples[f], inc, ctOpts{})
			}
			if m != rs.has(f+1, inc) {
				return nil, false
			}
		}
	}
	return atoms, true
}

type ctWorld struct {
	unit  time.Duration
	to    [3]int // tcp, udp, other in units
	pki   *PKI
	ifc   *Interface
	cfg   *config.C
	hosts map[netip.Addr]*HostInfo
	pool  *cert.CAPool
	nonce int
	yaml  string
	opts  ctOpts
	// the reader routines' routine-local conntrack caches (empty: Drop gets a nil cache), as listenIn / listenOut own them:
	// one real firewall.ConntrackCacheTicker per routine, Get() per packet
	tickers []*firewall.ConntrackCacheTicker
	stop    context.CancelFunc
	l       *slog.Logger
	// whether the installed certificate carries the unsafe network
	certUnsafe bool
}

// ctCacheCfg: routine caches of a world: how many routines, the period in units, the log level of the node
// ("" = test.NewLogger(), else info / debug / trace: a real handler at that level writing to io.Discard)
type ctCacheCfg struct {
	routines int
	period   int
	level    string
}

func ctLogger(level string) *slog.Logger {
	var lv slog.Level
	switch level {
	case "":
		return test.NewLogger()
	case "info":
		lv = slog.LevelInfo
	case "debug":
		lv = slog.LevelDebug
	case "trace":
		lv = logging.LevelTrace
	default:
		panic("verif: unknown log level " + level)
	}
	return slog.New(slog.NewTextHandler(io.Discard, &slog.HandlerOptions{Level: lv}))
}

var ctLocals = []netip.Addr{netip.MustParseAddr("10.0.0.1"), netip.MustParseAddr("10.0.1.1")}
var ctPeers = []netip.Addr{netip.MustParseAddr("10.0.0.2"), netip.MustParseAddr("10.0.0.3")}

func ctYAML(unit time.Duration, to [3]int, atoms []ctAtom, nonce int, o ctOpts) string {
	var b strings.Builder
	fmt.Fprintf(&b, "firewall:\n  verif_generation: %d\n  conntrack:\n    tcp_timeout: %s\n    udp_timeout: %s\n    default_timeout: %s\n",
		nonce, time.Duration(to[0])*unit, time.Duration(to[1])*unit, time.Duration(to[2])*unit)
	if o.unsafe || o.keyAlways {
		fmt.Fprintf(&b, "  default_local_cidr_any: %v\n", o.any)
	}
	for _, inc := range []bool{false, true} {
		name := "outbound"
		if inc {
			name = "inbound"
		}
		n := 0
		for _, a := range atoms {
			if a.Incoming != inc {
				continue
			}
			if n == 0 {
				fmt.Fprintf(&b, "  %s:\n", name)
			}
			n++
			port := "any"
			if a.Port != 0 {
				port = fmt.Sprint(a.Port)
			}
			fmt.Fprintf(&b, "    - port: %s\n      proto: %s\n      cidr: %s\n", port, a.Proto, a.Remote)
			if a.Local.IsValid() {
				fmt.Fprintf(&b, "      local_cidr: %s\n", a.Local)
			}
		}
		if n == 0 {
			fmt.Fprintf(&b, "  %s: []\n", name)
		}
	}
	return b.String()
}

func ctNewWorld(unit time.Duration, to [3]int, atoms []ctAtom, o ctOpts) *ctWorld {
	return ctNewWorldC(unit, to, atoms, o, ctCacheCfg{})
}

// ctNewWorldC: a world whose reader routines own routine-local conntrack caches (inside a synctest bubble; close() it)
func ctNewWorldC(unit time.Duration, to [3]int, atoms []ctAtom, o ctOpts, cc ctCacheCfg) *ctWorld {
	l := ctLogger(cc.level)
	w := &ctWorld{unit: unit, to: to, opts: o, hosts: map[netip.Addr]*HostInfo{}, pool: cert.NewCAPool(), l: l}
	if cc.routines > 0 {
		var ctx context.Context
		ctx, w.stop = context.WithCancel(context.Background())
		for i := 0; i < cc.routines; i++ {
			// as Interface.listenOut / listenIn do with f.conntrackCacheTimeout and the node's logger
			w.tickers = append(w.tickers, firewall.NewConntrackCacheTicker(ctx, l, time.Duration(cc.period)*unit))
		}
	}
	w.pki = &PKI{}
	owner := w.setCert(o.unsafe)
	mine := new(bart.Lite)
	for _, n := range owner.networks {
		mine.Insert(n.Masked())
	}
	for i, a := range ctPeers {
		c := &cert.CachedCertificate{Certificate: &dummyCert{version: cert.Version2, name: fmt.Sprintf("peer%d", i),
			networks: []netip.Prefix{netip.PrefixFrom(a, 24)}}}
		h := &HostInfo{ConnectionState: &ConnectionState{peerCert: c}, vpnAddrs: []netip.Addr{a}}
		h.buildNetworks(mine, c.Certificate)
		w.hosts[a] = h
	}
	w.yaml = ctYAML(unit, to, atoms, w.nonce, o)
	w.cfg = config.NewC(l)
	if err := w.cfg.LoadString(w.yaml); err != nil {
		panic(err)
	}
	fw, err := NewFirewallFromConfig(l, w.pki.getCertState(), w.cfg)
	if err != nil {
		panic(fmt.Sprintf("verif: firewall config rejected: %v\n%s", err, w.yaml))
	}
	w.ifc = &Interface{pki: w.pki, firewall: fw, l: l}
	return w
}

// setCert gives the node a (renewed) certificate with or without the unsafe network, as a pki reload does: a new
// CertState is stored; the firewall notices at its next reload (interface.go reloadFirewall: certUnsafeChanged)
func (w *ctWorld) setCert(unsafe bool) *dummyCert {
	owner := &dummyCert{version: cert.Version2, name: "owner",
		networks: []netip.Prefix{netip.PrefixFrom(ctLocals[0], 24), netip.PrefixFrom(ctLocals[1], 24)}}
	if unsafe {
		owner.unsafeNetworks = []netip.Prefix{ctUnsafeNet}
	}
	w.pki.cs.Store(&CertState{v2Cert: owner, initiatingVersion: cert.Version2})
	w.certUnsafe = unsafe
	return owner
}

// reload installs the rules through Interface.reloadFirewall.  bump=true changes an ignored key of the firewall
// section so that the section differs even when the rules do not; bump=false with unchanged rules is a no-op reload.
func (w *ctWorld) reload(atoms []ctAtom, bump bool) {
	if bump {
		w.nonce++
	}
	if w.opts.unsafe != w.certUnsafe {
		w.setCert(w.opts.unsafe) // the certificate was renewed before this reload
	}
	w.yaml = ctYAML(w.unit, w.to, atoms, w.nonce, w.opts)
	if err := w.cfg.ReloadConfigString(w.yaml); err != nil {
		panic(err)
	}
	w.ifc.reloadFirewall(w.cfg)
}

// shiftVersions moves the rules version counter (and the version of every tracked flow by the same amount) so that
// the next changed reload is the one that wraps the real 16-bit counter: the state is the one an earlier start of
// the counter would have produced (the code only compares versions for equality and the counter with zero)
func (w *ctWorld) shiftVersions() {
	fw := w.ifc.firewall
	shift := uint16(65535) - fw.rulesVersion
	fw.Conntrack.Lock()
	for _, c := range fw.Conntrack.Conns {
		c.rulesVersion += shift
	}
	fw.Conntrack.Unlock()
	fw.rulesVersion += shift
}

func (w *ctWorld) drop(t ctTuple, incoming bool) (pass bool, err error) {
	h := w.hosts[t.Remote]
	err = w.ifc.firewall.Drop(t.packet(), incoming, h, w.pool, nil)
	return err == nil, err
}

// dropR: the packet is handled by reader routine q (1-based), which hands Drop its own cache as outside.go / inside.go do;
// cached = the tuple was in that routine's cache when the packet arrived
func (w *ctWorld) dropR(q int, t ctTuple, incoming bool) (pass, cached bool) {
	h := w.hosts[t.Remote]
	c := w.tickers[q-1].Get()
	_, cached = c[t.packet()]
	err := w.ifc.firewall.Drop(t.packet(), incoming, h, w.pool, w.tickers[q-1].Get())
	return err == nil, cached
}

func (w *ctWorld) sleep(units int) {
	time.Sleep(time.Duration(units) * w.unit)
	if len(w.tickers) > 0 {
		synctest.Wait() // the tickers of the routine caches have seen every tick up to now
	}
}

// close stops the ticker goroutines of the routine caches
func (w *ctWorld) close() {
	if w.stop != nil {
		w.stop()
		synctest.Wait()
		w.stop = nil
	}
}

// ---------------------------------------------------------------------------------------------------------------
// replay of tours of the state graph of Conntrack.tla

type ctGraphPlan struct {
	File   string   `json:"file"`
	Protos []string `json:"protos"`
	TO     [3]int   `json:"to"`
	VerMod int      `json:"verMod"`
	Maps   []string `json:"maps"` // tuple maps to use (empty: all)
	Sem    bool     `json:"sem"`  // reloads name a configuration [any, txt]; flow 2 goes to an unsafe-network address
	// routine-local conntrack caches: number of reader routines (0 = off), period in units, log levels of the node to run under
	Routines    int      `json:"routines"`
	CachePeriod int      `json:"cachePeriod"`
	Logs        []string `json:"logs"`
}

// something a reload can install: rule text, options, and the packets the model says it allows
type ctInstall struct {
	atoms   []ctAtom
	opts    ctOpts
	allowed ctRuleSet
}

type ctModelCfg struct {
	Any bool   `json:"any"`
	Txt string `json:"txt"`
	Un  *bool  `json:"un"` // the node's certificate carries the unsafe network (absent in older graphs: it does)
}

func (c ctModelCfg) un() bool { return c.Un == nil || *c.Un }

func ctDecodeCfg(m json.RawMessage) (c ctModelCfg, key string) {
	if err := json.Unmarshal(m, &c); err != nil {
		return c, "" // graphs whose reloads name the rule set carry a dummy here
	}
	return c, fmt.Sprintf("cfg:%s:%v:%v", c.Txt, c.Any, c.un())
}

// rule texts of the configurations of Conntrack.tla!SemCfgsU for the tuple pair of ctSemMap
func ctSemAtoms(txt string, t ctTuple) []ctAtom {
	in := ctAtom{Incoming: true, Proto: "udp", Port: int(t.LPort), Remote: netip.PrefixFrom(t.Remote, 32)}
	out := ctAtom{Incoming: false, Proto: "udp", Port: int(t.RPort), Remote: netip.PrefixFrom(t.Remote, 32)}
	switch txt {
	case "i":
		return []ctAtom{in}
	case "io":
		return []ctAtom{in, out}
	case "iu":
		in.Local = ctUnsafeNet
		return []ctAtom{in}
	}
	return nil
}

func ctSemMap() ctMap {
	a := ctTuple{Local: ctLocals[0], Remote: ctPeers[0], LPort: 1001, RPort: 2001, Proto: firewall.ProtoUDP}
	b := a
	b.Local = ctUnsafeLocal
	return ctMap{name: "unsafe-local", tuples: []ctTuple{a, b}}
}

type ctMap struct {
	name   string
	tuples []ctTuple
}

// tuple maps for a vector of protocols: one map with pairwise very different tuples, and maps in which two flows
// differ in exactly one component of the key (remote port, local port, remote address = peer, local address, protocol)
func ctMaps(protos []string) []ctMap {
	n := len(protos)
	base := func(i int) ctTuple {
		return ctTuple{Local: ctLocals[0], Remote: ctPeers[0], LPort: 1001, RPort: 2001, Proto: ctProtoNum(protos[i])}
	}
	far := ctMap{name: "distinct"}
	for i := 0; i < n; i++ {
		t := base(i)
		t.LPort += uint16(i)
		t.RPort += uint16(i)
		t.Remote = ctPeers[i%2]
		far.tuples = append(far.tuples, t)
	}
	maps := []ctMap{far}
	one := func(name string, mod func(i int, t *ctTuple)) {
		m := ctMap{name: name}
		for i := 0; i < n; i++ {
			t := base(i)
			mod(i, &t)
			m.tuples = append(m.tuples, t)
		}
		// usable only if the tuples are pairwise different
		seen := map[ctTuple]bool{}
		for _, t := range m.tuples {
			if seen[t] {
				return
			}
			seen[t] = true
		}
		maps = append(maps, m)
	}
	one("rport-only", func(i int, t *ctTuple) { t.RPort += uint16(i) })
	one("lport-only", func(i int, t *ctTuple) { t.LPort += uint16(i) })
	one("peer-only", func(i int, t *ctTuple) { t.Remote = ctPeers[i%2] })
	one("local-only", func(i int, t *ctTuple) { t.Local = ctLocals[i%2] })
	one("proto-only", func(i int, t *ctTuple) {})
	return maps
}

func ctDomain(m json.RawMessage) []int {
	var l []json.RawMessage
	if json.Unmarshal(m, &l) == nil {
		out := []int{}
		for i := range l {
			out = append(out, i+1)
		}
		return out
	}
	var d map[string]json.RawMessage
	if err := json.Unmarshal(m, &d); err != nil {
		panic(fmt.Sprintf("verif: not a function: %s", m))
	}
	out := []int{}
	for k := range d {
		var n int
		fmt.Sscan(k, &n)
		out = append(out, n)
	}
	sort.Ints(out)
	return out
}

// ctRun executes model actions on a real world
type ctRun struct {
	w      *ctWorld
	tuples []ctTuple
	// what the latest reload changed (reloadModel)
	lastReload string
}

// reloadModel performs a reload with a changed firewall section; wraps = the model's small version counter wraps at
// this reload, so the real 16-bit counter is put at 65535 first
func (r *ctRun) reloadModel(in ctInstall, wraps bool) (kind string) {
	if wraps {
		r.w.shiftVersions()
	}
	// what changes: the certificate's unsafe networks, firewall.default_local_cidr_any, the rule text
	certChange := in.opts.unsafe != r.w.opts.unsafe
	sameSection := ctYAML(r.w.unit, r.w.to, in.atoms, r.w.nonce, in.opts) == r.w.yaml
	switch {
	case certChange && sameSection:
		kind = "cert-unsafe-networks-only" // the firewall section stays byte-identical
	case certChange:
		kind = "cert-unsafe-networks+section"
	case in.opts.any != r.w.opts.any:
		kind = "default_local_cidr_any"
	default:
		kind = "rules"
	}
	r.w.opts = in.opts
	r.w.reload(in.atoms, !(certChange && sameSection))
	r.lastReload = kind
	return kind
}

type ctPlan struct {
	Graphs []ctGraphPlan `json:"graphs"`
	Groups []struct {
		File string `json:"file"`
		TO   [3]int `json:"to"`
		// routine caches in the histories of this group: period in units (0 = every history runs with the cache off)
		CachePeriod int `json:"cachePeriod"`
	} `json:"groups"`
	Traces  int  `json:"traces"`
	Events  int  `json:"events"`
	Flows   int  `json:"flows"`
	Reloads bool `json:"reloads"`
}

// ---------------------------------------------------------------------------------------------------------------
// R (shared with C19: twin=true adds the "identical reload never cuts a flow" comparison)

type ctModelState struct {
	res, may bool
	why      string
	ver      int
	rules    ctRuleSet
	conns    []int
	cfgKey   string
}

func ctReplayGraph(t *testing.T, res *vResult, g ctGraphPlan, twin bool) {
	var gr vGraph
	vReadJSON(t, g.File, &gr)
	ms := make([]ctModelState, len(gr.States))
	// everything a reload (or the start) installs in this graph, keyed by rule set or by configuration
	rulesets := map[string]ctRuleSet{}
	cfgs := map[string]ctModelCfg{}
	cfgRules := map[string]ctRuleSet{}
	for i, s := range gr.States {
		ms[i] = ctModelState{res: vBool(s["res"]), may: vBool(s["may"]), why: vStr(s["why"]), ver: vInt(s["ver"]), rules: ctDecodeRules(s["rules"]), conns: ctDomain(s["conns"])}
		if g.Sem {
			c, k := ctDecodeCfg(s["cfg"])
			ms[i].cfgKey = k
			cfgs[k], cfgRules[k] = c, ms[i].rules // rules = EffOf(cfg) in every state
		} else {
			ms[i].cfgKey = ms[i].rules.key()
			rulesets[ms[i].cfgKey] = ms[i].rules
		}
	}
	edgeKey := func(e vEdge) string {
		if e.Act == "ReloadCfg" {
			_, k := ctDecodeCfg(e.Args[0])
			return k
		}
		return ctDecodeRules(e.Args[0]).key()
	}
	for _, e := range gr.Edges {
		if e.Act == "Reload" {
			rs := ctDecodeRules(e.Args[0])
			rulesets[rs.key()] = rs
		}
	}
	units := []time.Duration{time.Second, 40 * time.Millisecond}
	// variants of the world a tour runs in: the time unit and, with routine caches, the node's log level
	type variant struct {
		u     time.Duration
		level string
		first bool
	}
	variants := []variant{{units[0], "", true}, {units[1], "", false}}
	if g.Routines > 0 {
		variants = nil
		for i, lv := range g.Logs {
			variants = append(variants, variant{units[i%2], lv, i == 0})
		}
	}
	twinDone := map[string]bool{}
	maps := ctMaps(g.Protos)
	if g.Sem {
		maps = []ctMap{ctSemMap()}
	}
	for _, m := range maps {
		if len(g.Maps) > 0 && !g.Sem && !slices.Contains(g.Maps, m.name) {
			continue
		}
		// concretise everything installable; skip the map when the rule language cannot express it or when the code's
		// decision on a fresh firewall is not the rule set the model assumes
		inst := map[string]ctInstall{}
		usable := true
		for k, rs := range rulesets {
			a, ok := ctAtomsFor(rs, m.tuples)
			inst[k] = ctInstall{atoms: a, allowed: rs}
			usable = usable && ok
		}
		for k, c := range cfgs {
			inst[k] = ctInstall{atoms: ctSemAtoms(c.Txt, m.tuples[0]), opts: ctOpts{any: c.Any, unsafe: c.un(), keyAlways: true}, allowed: cfgRules[k]}
		}
		for _, in := range inst {
			usable = usable && ctRulesAgree(units[0], g.TO, in.atoms, in.opts, m.tuples, in.allowed.has)
		}
		if !usable {
			res.Hit("R:map-skipped:" + m.name)
			continue
		}
		res.Hit("R:map:" + m.name)
		for vi, va := range variants {
			ui, u := vi, va.u
			if !va.first && m.name != "distinct" && g.Routines == 0 {
				continue
			}
			cached := false // the latest packet found its tuple in its routine's cache
			exec := func(r *ctRun, e vEdge) (pkt bool, pass bool) {
				switch e.Act {
				case "Sleep":
					r.w.sleep(vInt(e.Args[0]))
				case "Pkt":
					pass, _ = r.w.drop(r.tuples[vInt(e.Args[0])-1], vBool(e.Args[1]))
					return true, pass
				case "PktR", "PktCached": // (routine, flow, incoming): both are Drop with that routine's cache
					pass, cached = r.w.dropR(vInt(e.Args[0]), r.tuples[vInt(e.Args[1])-1], vBool(e.Args[2]))
					if cached {
						res.Hit("R:served-from-routine-cache")
					}
					return true, pass
				case "Reload", "ReloadCfg":
					kind := r.reloadModel(inst[edgeKey(e)], (ms[e.Src].ver+1)%g.VerMod == 0)
					if g.Sem {
						res.Hit("R:reload:" + kind)
					}
				default:
					t.Fatalf("unknown action %s", e.Act)
				}
				return false, false
			}
			fresh := func() *ctRun {
				in := inst[ms[gr.Init[0]].cfgKey]
				return &ctRun{w: ctNewWorldC(u, g.TO, in.atoms, in.opts, ctCacheCfg{g.Routines, g.CachePeriod, va.level}), tuples: m.tuples}
			}
			prefix := func(tour []int, n int) *ctRun {
				r := fresh()
				for _, ei := range tour[:n] {
					exec(r, gr.Edges[ei])
				}
				return r
			}
			for ti, tour := range gr.Tours {
				r := fresh()
				passedBefore := map[int]bool{} // only to word a finding
				// only to name a finding: since it last passed, a packet of the flow was refused while the certificate had no
				// unsafe network and the flow's node-side address lies in that network (Drop's local address check)
				refusedUnroutable := map[int]bool{}
			steps:
				for si, ei := range tour {
					e := gr.Edges[ei]
					res.Hit(e.Act)
					res.Case(fmt.Sprintf("%s/%s/%s%s/%d", g.File, m.name, u, va.level, ei))
					det := map[string]any{"graph": g.File, "map": m.name, "unit": u.String(), "tour": ti, "step": si, "tour_edges": tour[:si+1],
						"timeouts_units_tcp_udp_other": g.TO, "tuples": fmt.Sprint(m.tuples), "config": r.w.yaml}
					if g.Routines > 0 {
						det["routines"], det["routine_cache_period_units"], det["log_level"] = g.Routines, g.CachePeriod, va.level
						res.Hit("R:log:" + va.level)
					}
					if twin && (e.Act == "Reload" || e.Act == "ReloadCfg") && ms[e.Dst].rules.key() == ms[e.Src].rules.key() {
						if e.Act == "ReloadCfg" {
							res.Hit("R:twin-option-flip")
						}
						// C19, second sentence: compare the code with itself, just before and just after this reload
						id := fmt.Sprintf("%s/%d", m.name, ei)
						if !twinDone[id] && ui == 0 {
							twinDone[id] = true
							for _, f := range ms[e.Src].conns {
								for _, inc := range []bool{false, true} {
									before := prefix(tour, si)
									pb, _ := before.w.drop(m.tuples[f-1], inc)
									after := prefix(tour, si+1)
									pa, _ := after.w.drop(m.tuples[f-1], inc)
									res.Hit("R:twin")
									res.Case(fmt.Sprintf("twin/%s/%s/%d/%d/%v", g.File, m.name, ei, f, inc))
									if pb && !pa {
										wrap := (ms[e.Src].ver+1)%g.VerMod == 0
										key := "reload:same-rules-cut-flow"
										if wrap {
											key += ":version-wrap"
										}
										det["probe_flow"], det["probe_incoming"], det["version_wrap"] = f, inc, wrap
										res.Mismatch(key, fmt.Sprintf("a packet of flow %s (incoming=%v) passes just before a reload that leaves the rules "+
											"unchanged and is dropped just after it (rules version after the reload: %d)", m.tuples[f-1], inc,
											after.w.ifc.firewall.rulesVersion), det)
									}
								}
							}
						}
					}
					pkt, pass := exec(r, e)
					if !pkt {
						continue
					}
					ai := 0
					if e.Act != "Pkt" {
						ai = 1 // (routine, flow, incoming)
					}
					f, inc := vInt(e.Args[ai]), vBool(e.Args[ai+1])
					want := ms[e.Dst]
					if pass && !want.may {
						var key, what string
						// with routine caches the finding names where the verdict came from and the log level of the node
						via := ""
						if g.Routines > 0 {
							via = ":from-conntrack"
							if cached {
								via = ":from-routine-cache"
							}
							via += ":log=" + va.level
						}
						if g.Sem && r.lastReload != "" {
							via += ":after-reload-of=" + r.lastReload // what the latest reload changed
						}
						switch want.why {
						case "idle":
							key = fmt.Sprintf("replay:expired-flow-honoured:%s%s", g.Protos[f-1], via)
							what = fmt.Sprintf("packet %s incoming=%v passes although no rule allows it and its flow has been idle longer than the %s timeout (%d units)",
								m.tuples[f-1], inc, g.Protos[f-1], g.TO[ctProtoIdx(g.Protos[f-1])])
							if cached {
								what += fmt.Sprintf("; the verdict came from the routine-local conntrack cache of routine %d (period %d units, log level %s)",
									vInt(e.Args[0]), g.CachePeriod, va.level)
							}
						case "rules":
							key = "replay:flow-not-revalidated" + via
							what = fmt.Sprintf("packet %s incoming=%v passes although the current rules allow neither it nor the direction in which its flow was opened",
								m.tuples[f-1], inc)
						default:
							key = fmt.Sprintf("replay:untracked-tuple-honoured:%s%s", m.name, via)
							what = fmt.Sprintf("packet %s incoming=%v passes although no rule allows it and no packet of this tuple ever passed", m.tuples[f-1], inc)
							if passedBefore[f] {
								key = fmt.Sprintf("replay:ended-flow-honoured:%s%s", g.Protos[f-1], via)
								what = fmt.Sprintf("packet %s incoming=%v passes although no rule allows it and its flow had ended (a packet of it was refused since it last passed)", m.tuples[f-1], inc)
							}
							if passedBefore[f] && refusedUnroutable[f] {
								key = "replay:ended-flow-honoured:refused-while-unsafe-network-absent"
								what += "; it was refused while the node's certificate did not carry the unsafe network of the flow's node-side address " +
									"(the local address check of Drop refuses without forgetting the tracked flow), and is honoured again now that the certificate carries it again"
							}
						}
						res.Mismatch(key, what, det)
						break steps
					}
					passedBefore[f] = passedBefore[f] || pass
					refusedUnroutable[f] = !pass && (refusedUnroutable[f] || (!r.w.certUnsafe && ctUnsafeNet.Contains(m.tuples[f-1].Local)))
					if pass != want.res {
						res.Hit("R:left-tour")
						break steps
					}
				}
				r.w.close()
				res.Hit("R:tour")
			}
		}
	}
	if len(gr.Tours) > 0 {
		res.Sample(map[string]any{"graph": g.File, "tour_as_edges": gr.Tours[len(gr.Tours)/2]})
	}
}

func ctProtoIdx(p string) int {
	switch p {
	case "tcp":
		return 0
	case "udp":
		return 1
	}
	return 2
}

// ctRulesAgree: on fresh firewalls (empty conntrack) the code's decision for every packet of the map must be the
// rule set the model assumes; otherwise the concretisation is unusable (rule semantics are C16's subject, not ours)
func ctRulesAgree(u time.Duration, to [3]int, atoms []ctAtom, o ctOpts, tuples []ctTuple, allowed func(f int, inc bool) bool) bool {
	for f := range tuples {
		for _, inc := range []bool{false, true} {
			w := ctNewWorld(u, to, atoms, o)
			pass, _ := w.drop(tuples[f], inc)
			if pass != allowed(f+1, inc) {
				return false
			}
		}
	}
	return true
}

// ---------------------------------------------------------------------------------------------------------------
// T (shared with C19: plan.Reloads adds reloads to the histories)

func ctTraces(t *testing.T, res *vResult, plan ctPlan, prop string) {
	rnd := vRand()
	lports := []uint16{1001, 1002}
	rports := []uint16{2001, 2002}
	for gi, g := range plan.Groups {
		tr := vNewTracer(t, g.File)
		maxTO := max(g.TO[0], g.TO[1], g.TO[2])
		for n := 0; n < plan.Traces; n++ {
			unit := []time.Duration{time.Second, 100 * time.Millisecond, time.Minute}[rnd.Intn(3)]
			// with reloads (C19): the certificate has an unsafe network, some flows go to an address in it, some rules have no
			// local_cidr, and reloads also flip firewall.default_local_cidr_any with the rule text untouched
			opts := ctOpts{}
			if plan.Reloads {
				opts = ctOpts{unsafe: true, any: rnd.Intn(2) == 0, keyAlways: true}
			}
			// flows: pairwise different tuples from small pools, protocol by flow number
			var tuples []ctTuple
			for len(tuples) < plan.Flows {
				f := len(tuples) + 1
				proto := []uint8{firewall.ProtoICMP, firewall.ProtoTCP, firewall.ProtoUDP}[f%3]
				tp := ctTuple{Local: ctLocals[rnd.Intn(2)], Remote: ctPeers[rnd.Intn(2)], LPort: lports[rnd.Intn(2)], RPort: rports[rnd.Intn(2)], Proto: proto}
				if plan.Reloads && rnd.Intn(3) == 0 {
					tp.Local = ctUnsafeLocal
				}
				dup := false
				for _, o := range tuples {
					dup = dup || o == tp
				}
				if !dup {
					tuples = append(tuples, tp)
				}
			}
			genAtoms := func() []ctAtom {
				var atoms []ctAtom
				for k := 1 + rnd.Intn(4); k > 0; k-- {
					a := ctAtom{Incoming: rnd.Intn(3) == 0, Proto: []string{"tcp", "udp", "icmp", "any"}[rnd.Intn(4)]}
					if a.Proto != "icmp" && rnd.Intn(3) > 0 {
						a.Port = int([]uint16{1001, 1002, 2001, 2002}[rnd.Intn(4)])
					}
					a.Remote = netip.MustParsePrefix("10.0.0.0/24")
					if rnd.Intn(2) == 0 {
						a.Remote = netip.PrefixFrom(ctPeers[rnd.Intn(2)], 32)
					}
					a.Local = netip.MustParsePrefix("10.0.0.0/16")
					if rnd.Intn(2) == 0 {
						a.Local = netip.PrefixFrom(ctLocals[rnd.Intn(2)], 32)
					}
					if plan.Reloads {
						switch rnd.Intn(5) {
						case 0, 1:
							a.Local = netip.Prefix{} // no local_cidr
						case 2:
							a.Local = ctUnsafeNet
						}
					}
					atoms = append(atoms, a)
				}
				return atoms
			}
			allowedBy := func(atoms []ctAtom) func(f int, inc bool) bool {
				o := opts
				return func(f int, inc bool) bool {
					for _, a := range atoms {
						if a.matches(tuples[f-1], inc, o) {
							return true
						}
					}
					return false
				}
			}
			rulesOf := func(atoms []ctAtom) [][2]any {
				out := [][2]any{}
				al := allowedBy(atoms)
				for f := 1; f <= len(tuples); f++ {
					for _, inc := range []bool{false, true} {
						if al(f, inc) {
							out = append(out, [2]any{f, inc})
						}
					}
				}
				return out
			}
			atoms := genAtoms()
			for try := 0; !ctRulesAgree(unit, g.TO, atoms, opts, tuples, allowedBy(atoms)); try++ {
				res.Hit("T:rule-reading-differs")
				if try > 20 {
					t.Fatalf("verif: cannot find a rule set on which the code and the harness' reading of the rule language agree")
				}
				atoms = genAtoms()
			}
			// routine caches (C18): two of three histories run with 1-3 reader routines that each own a real
			// ConntrackCacheTicker, under a node log level drawn per history; every packet is handled by one of the routines
			cc := ctCacheCfg{}
			if g.CachePeriod > 0 && rnd.Intn(3) > 0 {
				cc = ctCacheCfg{routines: 1 + rnd.Intn(3), period: g.CachePeriod, level: []string{"info", "debug", "trace", ""}[rnd.Intn(4)]}
				res.Hit("T:routine-cache")
				res.Hit("T:log:" + cc.level)
			}
			w := ctNewWorldC(unit, g.TO, atoms, opts, cc)
			unsafeFlows := []int{} // (only to name a finding) the flows whose node-side address lies in the unsafe network
			for i, tp := range tuples {
				if ctUnsafeNet.Contains(tp.Local) {
					unsafeFlows = append(unsafeFlows, i+1)
				}
			}
			tr.Event(map[string]any{"ev": "reset", "rules": rulesOf(atoms), "unsafe_flows": unsafeFlows, "cert_unsafe": opts.unsafe})
			churn := rnd.Intn(3) // 0: only the focus flow talks, 1: some, 2: much unrelated traffic
			focus := 1 + rnd.Intn(len(tuples))
			for s := 0; s < plan.Events; s++ {
				f := focus
				if churn > 0 && rnd.Intn(4) < churn+1 {
					f = 1 + rnd.Intn(len(tuples))
				}
				to := g.TO[[]int{2, 0, 1}[f%3]]
				var d int
				switch r := rnd.Intn(100); {
				case r < 25:
					d = 0
				case r < 40:
					d = 1
				case r < 50:
					d = to - 1
				case r < 62:
					d = to
				case r < 77:
					d = to + 1
				case r < 85:
					d = rnd.Intn(2*maxTO + 2)
				case r < 93:
					d = 2*maxTO + 1 + rnd.Intn(3*maxTO)
				default:
					d = 3600 // "1 h" when the unit is a second
					res.Hit("T:long-idle")
				}
				if d > 0 {
					w.sleep(d)
					tr.Event(map[string]any{"ev": "Sleep", "d": d})
				}
				if plan.Reloads && rnd.Intn(6) == 0 {
					switch rnd.Intn(8) {
					case 6, 7: // the certificate is renewed without / again with the unsafe network: the whole firewall section is byte-identical
						opts.unsafe = !opts.unsafe
						if ctRulesAgree(unit, g.TO, atoms, opts, tuples, allowedBy(atoms)) {
							w.opts = opts
							w.reload(atoms, false)
							res.Hit("T:Reload-cert-unsafe")
						} else {
							opts.unsafe = !opts.unsafe
						}
					case 4, 5: // only default_local_cidr_any changes, the rule list is byte-identical
						opts.any = !opts.any
						if ctRulesAgree(unit, g.TO, atoms, opts, tuples, allowedBy(atoms)) {
							w.opts = opts
							w.reload(atoms, false)
							res.Hit("T:Reload-option-flip")
						} else {
							opts.any = !opts.any
						}
					case 0: // unchanged section: no-op reload
						w.reload(atoms, false)
						res.Hit("T:Reload-noop")
					case 1: // same rules, changed section
						w.reload(atoms, true)
						res.Hit("T:Reload-same")
					default:
						na := genAtoms()
						if ctRulesAgree(unit, g.TO, na, opts, tuples, allowedBy(na)) {
							cycle := false
							switch rnd.Intn(8) {
							case 0:
								w.shiftVersions()
								res.Hit("T:Reload-wrap")
							case 1, 2:
								// a full turn of the 16-bit version counter: 65536 changed reloads without traffic in between, the
								// last of which installs the new rules.  The counter alone is moved (that is all such a reload
								// does to the state), the reload that wraps and the last one are real.
								cycle = true
								cur := w.ifc.firewall.rulesVersion
								w.ifc.firewall.rulesVersion = 65535
								w.reload(atoms, true)
								tr.Event(map[string]any{"ev": "Reload", "rules": rulesOf(atoms), "cert_unsafe": opts.unsafe})
								w.ifc.firewall.rulesVersion = cur - 1
								res.Hit("T:Reload-full-turn")
							}
							atoms = na
							w.reload(atoms, true)
							res.Hit("T:Reload")
							if cycle {
								if w.ifc.firewall.rulesVersion != 0 {
									res.Hit("T:Reload-full-turn:same-version-again")
								}
								// every flow is tried right away, both directions, under the rules that are in force now
								tr.Event(map[string]any{"ev": "Reload", "rules": rulesOf(atoms), "cert_unsafe": opts.unsafe})
								for ff := range tuples {
									for _, inc := range []bool{false, true} {
										pass, _ := w.drop(tuples[ff], inc)
										tr.Event(map[string]any{"ev": "Pkt", "f": ff + 1, "inc": inc, "pass": pass})
										res.Hit("T:Pkt")
									}
								}
								continue
							}
						}
					}
					tr.Event(map[string]any{"ev": "Reload", "rules": rulesOf(atoms), "cert_unsafe": opts.unsafe})
				}
				inc := rnd.Intn(2) == 0
				var pass bool
				ev := map[string]any{"ev": "Pkt", "f": f, "inc": inc}
				if cc.routines > 0 {
					var cached bool
					pass, cached = w.dropR(1+rnd.Intn(cc.routines), tuples[f-1], inc)
					if cached {
						res.Hit("T:served-from-routine-cache")
						ev["via"] = "routine-cache:log=" + cc.level // (only to name a finding)
					}
				} else {
					pass, _ = w.drop(tuples[f-1], inc)
				}
				ev["pass"] = pass
				tr.Event(ev)
				res.Hit("T:Pkt")
				if pass {
					res.Hit("T:pass")
				} else {
					res.Hit("T:drop")
				}
			}
			w.close()
			res.Traces++
			res.Case(fmt.Sprintf("trace/%s/%d/%d", prop, gi, n))
			if n == 0 {
				b, _ := json.Marshal(tuples)
				res.Sample(map[string]any{"trace_group": g.File, "tuples": string(b), "config": w.yaml})
			}
		}
		tr.Close()
	}
}
