package nebula

// C28 — hostmap indexes stay consistent.  Binding of spec/Hostmap.tla (see zz_verif_hm_test.go):
// R (edge tours + simulated behaviours replayed on a real HostMap / HandshakeManager with real HostInfo
// objects, maps projected as tunnel ids and compared after every step, invariants evaluated on the real maps)
// and T (seeded random operation sequences recorded for Trace_Hostmap.tla).

import "testing"

func TestVerif_C28(t *testing.T) { hmMain(t, "c28") }
