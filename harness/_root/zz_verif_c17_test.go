package nebula

// C17 — overlay source and destination addresses are authentic (spec/Firewall.tla, vector mode).
// Every vector is one packet from / to peer `who` whose remote address is taken from peer `owner` (or is nobody's)
// and whose node-side address may or may not be ours, under rule sets from "nothing" to "allow everything", after
// the same tuple was tracked by a real flow of its rightful owner, injected into conntrack, or put into the
// routine-local cache. Verdict: an allowed packet whose addresses are not authentic (reference layer Authentic).

import (
	"encoding/json"
	"fmt"
	"sync"
	"testing"
	"time"

	"github.com/slackhq/nebula/firewall"
)

type c17Vec struct {
	In struct {
		Kind  string `json:"kind"`
		Env   string `json:"env"`
		Rules string `json:"rules"`
		Who   string `json:"who"`
		Owner string `json:"owner"`
		R     string `json:"r"`
		L     string `json:"l"`
		Dir   string `json:"dir"`
		Proto string `json:"proto"`
		Prior string `json:"prior"`
	} `json:"in"`
	Exp struct {
		Pkt        fwPkt `json:"pkt"`
		PriorAllow bool  `json:"priorAllow"`
		Auth       bool  `json:"auth"`
		AuthRemote bool  `json:"authRemote"`
		AuthLocal  bool  `json:"authLocal"`
		Machine    bool  `json:"machine"`
	} `json:"exp"`
}

func TestVerif_C17(t *testing.T) {
	res := vNewResult()
	defer res.Write(t)
	var mu sync.Mutex
	disagree := 0
	var disagreeSample []any
	n := fwForEachVector(t, res, func(w *fwWorld, idx int, line []byte) {
		var v c17Vec
		if err := json.Unmarshal(line, &v); err != nil {
			t.Errorf("vector: %v: %s", err, line)
			return
		}
		res.Case(string(line))
		if idx%5000 == 1 {
			res.Sample(json.RawMessage(line))
		}
		fw := w.newFirewall(v.In.Env)
		for _, r := range w.u.Rules17[v.In.Rules] {
			if err := w.addRule(fw, r); err != nil {
				t.Errorf("AddRule(%+v): %v", r, err)
				return
			}
		}
		pkt := fwConcretePkt(v.Exp.Pkt)
		var cache firewall.ConntrackCache
		tracked := false
		switch v.In.Prior {
		case "in", "out":
			// a real flow of the rightful owner of the remote address creates the conntrack entry
			ok, _ := fwDrop(fw, pkt, v.In.Prior == "in", w.peers[v.In.Env][v.In.Owner], w.pool, nil)
			if ok != v.Exp.PriorAllow {
				res.Hit("prior-flow-differs") // C16's business; this vector then says nothing about tracked flows
			}
			if ok {
				res.Hit("prior-flow-tracked")
				tracked = true
			}
		case "inject":
			// arbitrary conntrack content
			fw.Conntrack.Lock()
			fw.Conntrack.Conns[pkt] = &conn{Expires: time.Now().Add(time.Hour), incoming: v.In.Dir != "in", rulesVersion: fw.rulesVersion}
			fw.Conntrack.Unlock()
			res.Hit("conntrack-injected")
			tracked = true
		case "cache":
			// arbitrary routine-local cache content
			cache = firewall.ConntrackCache{pkt: struct{}{}}
			res.Hit("cache-injected")
			tracked = true
		}
		if v.In.Prior != "cache" && idx%2 == 0 {
			cache = firewall.ConntrackCache{} // an empty routine-local cache must not matter
		}
		got, reason := fwDrop(fw, pkt, v.In.Dir == "in", w.peers[v.In.Env][v.In.Who], w.pool, cache)
		if len(reason) > 5 && reason[:5] == "panic" {
			res.Mismatch("panic:"+v.In.R+"/"+v.In.L, "Drop panicked: "+reason, v)
			return
		}
		if got && !v.Exp.Auth {
			side := "remote"
			if v.Exp.AuthRemote {
				side = "local"
			}
			how := "rules"
			if tracked {
				how = "tracked:" + v.In.Prior
			}
			res.Mismatch(fmt.Sprintf("unauthentic-%s-allowed:%s/%s:%s", side, v.In.R, v.In.L, how),
				fmt.Sprintf("Drop(%s, %+v) for peer %s (address class %s of %s, node side %s, rules %s, prior %s, env %s) allowed a packet whose %s address is not authentic",
					v.In.Dir, pkt, v.In.Who, v.In.R, v.In.Owner, v.In.L, v.In.Rules, v.In.Prior, v.In.Env, side), v)
			return
		}
		switch {
		case got:
			res.Hit("authentic-allowed")
			if tracked && v.In.Rules == "none" {
				res.Hit("authentic-allowed-by-tracked-flow")
			}
		case !v.Exp.Auth && tracked:
			res.Hit("spoof-refused-despite-tracked-flow")
			if !v.Exp.AuthRemote {
				res.Hit("spoofed-remote-refused")
			}
			if !v.Exp.AuthLocal {
				res.Hit("spoofed-local-refused")
			}
		case !v.Exp.Auth:
			res.Hit("spoof-refused")
		default:
			res.Hit("authentic-refused")
		}
		if got != v.Exp.Machine {
			// not a C17 matter (the property is the implication above); kept as information
			mu.Lock()
			disagree++
			if len(disagreeSample) < 5 {
				disagreeSample = append(disagreeSample, map[string]any{"vector": v, "got": got, "reason": reason})
			}
			mu.Unlock()
		}
	})
	res.Extra["vectors"] = n
	res.Extra["machine_disagreements"] = disagree
	res.Extra["machine_disagreement_samples"] = disagreeSample
}
