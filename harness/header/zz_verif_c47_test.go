package header

// C47 — binding of spec/Header.tla to header.Encode / H.Parse / IsValidSubType (vector mode).

import (
	"bytes"
	"encoding/binary"
	"encoding/json"
	"fmt"
	"testing"
)

type c47Vec struct {
	In struct {
		Kind string `json:"kind"`
		V    int    `json:"v"`
		T    int    `json:"t"`
		St   int    `json:"st"`
		Ri   []int  `json:"ri"`
		C    []int  `json:"c"`
		B    []int  `json:"b"`
	} `json:"in"`
	Exp struct {
		Bytes    []int  `json:"bytes"`
		Valid    bool   `json:"valid"`
		Err      string `json:"err"`
		Version  int    `json:"version"`
		Type     int    `json:"type"`
		Subtype  int    `json:"subtype"`
		Reserved []int  `json:"reserved"`
		Index    []int  `json:"index"`
		Counter  []int  `json:"counter"`
	} `json:"exp"`
}

func c47Bytes(x []int) []byte {
	b := make([]byte, len(x))
	for i, v := range x {
		b[i] = byte(v)
	}
	return b
}

func TestVerif_C47(t *testing.T) {
	res := vNewResult()
	defer res.Write(t)
	n := 0
	vReadNDJSON(t, "vectors.ndjson", func(line []byte) {
		var v c47Vec
		if err := json.Unmarshal(line, &v); err != nil {
			t.Fatalf("vector: %v: %s", err, line)
		}
		n++
		res.Hit(v.In.Kind)
		res.Case(string(line))
		if n%5000 == 1 {
			res.Sample(json.RawMessage(append([]byte(nil), line...)))
		}
		switch v.In.Kind {
		case "valid":
			got := IsValidSubType(MessageType(v.In.T), MessageSubType(v.In.St))
			h := H{Type: MessageType(v.In.T), Subtype: MessageSubType(v.In.St)}
			if got != v.Exp.Valid || h.IsValidSubType() != v.Exp.Valid {
				res.Mismatch(fmt.Sprintf("valid:type%d", v.In.T), fmt.Sprintf("IsValidSubType(%d,%d)=%v, specification %v", v.In.T, v.In.St, got, v.Exp.Valid), v.In)
			}
		case "enc":
			ri := binary.BigEndian.Uint32(c47Bytes(v.In.Ri))
			c := binary.BigEndian.Uint64(c47Bytes(v.In.C))
			// dirty buffer with capacity exactly 16: Encode must overwrite every byte, including the reserved ones
			buf := bytes.Repeat([]byte{0xa5}, Len)
			got := Encode(buf[:0], uint8(v.In.V), MessageType(v.In.T), MessageSubType(v.In.St), ri, c)
			want := c47Bytes(v.Exp.Bytes)
			if !bytes.Equal(got, want) {
				res.Mismatch("encode", fmt.Sprintf("Encode(v=%d,t=%d,st=%d,ri=%#x,c=%#x)=%x, specification %x", v.In.V, v.In.T, v.In.St, ri, c, got, want), v.In)
				return
			}
			h := &H{Version: uint8(v.In.V), Type: MessageType(v.In.T), Subtype: MessageSubType(v.In.St), Reserved: 0xffff, RemoteIndex: ri, MessageCounter: c}
			buf2 := bytes.Repeat([]byte{0x5a}, Len)
			got2, err := h.Encode(buf2[:0])
			if err != nil || !bytes.Equal(got2, want) {
				res.Mismatch("encode:method", fmt.Sprintf("H.Encode=%x err=%v, specification %x", got2, err, want), v.In)
			}
			var back H
			if err := back.Parse(got); err != nil || int(back.Version) != v.In.V || int(back.Type) != v.In.T || int(back.Subtype) != v.In.St ||
				back.Reserved != 0 || back.RemoteIndex != ri || back.MessageCounter != c {
				res.Mismatch("roundtrip", fmt.Sprintf("Parse(Encode(h)) = %+v err=%v for %+v", back, err, v.In), v.In)
			}
		case "parse":
			in := c47Bytes(v.In.B)
			// exact-capacity copy: reading beyond len(in) or beyond 16 bytes of a shorter cap panics
			exact := make([]byte, len(in))
			copy(exact, in)
			var h H
			err := func() (err error) {
				defer func() {
					if r := recover(); r != nil {
						err = fmt.Errorf("panic: %v", r)
					}
				}()
				return h.Parse(exact)
			}()
			// the same input as a prefix of a larger (recycled) buffer: what lies behind len(in) must not matter, the
			// length of the input is len, not cap
			roomy := make([]byte, 64)
			for k := range roomy {
				roomy[k] = byte(0x11 + k) // would parse as a plausible header if it were read
			}
			copy(roomy, in)
			var hr H
			hr.RemoteIndex, hr.MessageCounter = 0xfeedface, 0xfeedfacefeedface
			errRoomy := hr.Parse(roomy[:len(in)])
			res.Hit("parse:roomy-buffer")
			if v.Exp.Err != "" {
				if err != ErrHeaderTooShort {
					res.Mismatch("parse:short", fmt.Sprintf("Parse of %d bytes: err=%v, specification refuses (too short)", len(in), err), v.In)
				}
				if errRoomy != ErrHeaderTooShort {
					res.Mismatch("parse:short:spare-capacity", fmt.Sprintf("Parse of %d bytes that sit in a larger buffer: err=%v, specification refuses (too short); fields now %+v", len(in), errRoomy, hr), v.In)
				} else if hr.RemoteIndex != 0xfeedface || hr.MessageCounter != 0xfeedfacefeedface {
					res.Mismatch("parse:short:fields-touched", fmt.Sprintf("a refused Parse of %d bytes changed the header object: %+v", len(in), hr), v.In)
				}
				return
			}
			if errRoomy != nil || hr != h {
				res.Mismatch("parse:spare-capacity", fmt.Sprintf("Parse(%x) depends on the buffer behind the input: %+v (err=%v) vs %+v", in, hr, errRoomy, h), v.In)
			}
			if err != nil {
				res.Mismatch("parse:error", fmt.Sprintf("Parse of %d bytes failed: %v", len(in), err), v.In)
				return
			}
			wantIdx := binary.BigEndian.Uint32(c47Bytes(v.Exp.Index))
			wantCtr := binary.BigEndian.Uint64(c47Bytes(v.Exp.Counter))
			wantRes := binary.BigEndian.Uint16(c47Bytes(v.Exp.Reserved))
			if int(h.Version) != v.Exp.Version || int(h.Type) != v.Exp.Type || int(h.Subtype) != v.Exp.Subtype ||
				h.Reserved != wantRes || h.RemoteIndex != wantIdx || h.MessageCounter != wantCtr {
				res.Mismatch("parse:fields", fmt.Sprintf("Parse(%x) = %+v, specification %+v", in, h, v.Exp), v.In)
			}
			// bytes after the 16th must not matter
			if len(in) > Len {
				mut := append([]byte(nil), in...)
				for k := Len; k < len(mut); k++ {
					mut[k] ^= 0xff
				}
				var h2 H
				if err := h2.Parse(mut); err != nil || h2 != h {
					res.Mismatch("parse:beyond16", fmt.Sprintf("Parse depends on bytes beyond 16: %+v vs %+v", h, h2), v.In)
				}
			}
		default:
			t.Fatalf("unknown vector kind %q", v.In.Kind)
		}
	})
	// T direction: seeded random concrete headers, round trip at full field width
	rnd := vRand()
	for k := 0; k < 20000; k++ {
		v, ty, st := uint8(rnd.Intn(16)), MessageType(rnd.Intn(16)), MessageSubType(rnd.Intn(256))
		ri, c := rnd.Uint32(), rnd.Uint64()
		b := Encode(make([]byte, Len), v, ty, st, ri, c)
		var h H
		if err := h.Parse(b); err != nil || h.Version != v || h.Type != ty || h.Subtype != st || h.Reserved != 0 || h.RemoteIndex != ri || h.MessageCounter != c {
			res.Mismatch("roundtrip:random", fmt.Sprintf("round trip of v=%d t=%d st=%d ri=%d c=%d gave %+v (%v)", v, ty, st, ri, c, h, err), nil)
		}
		res.Hit("random-roundtrip")
	}
}
