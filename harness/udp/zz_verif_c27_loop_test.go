//go:build linux && !android && !e2e_testing

package udp

// C27 — binding of the receive-LOOP part of spec/RecvSplit.tla (kind "loop") to the real StdConn.ListenOut.
//
// A loop vector is a history of recvmmsg rounds; every round fills batch slot 1 or slots 1..2 with a datagram that is
// coalesced (kernel size S, several segments) or plain (no size).  The history is played through the REAL kernel
// path: a real StdConn (Batch > 1, Offloads on => UDP_GRO) runs its real ListenOut on 127.0.0.1; the sender is a
// plain datagram socket of the harness that sends a plain datagram with send(2) and a coalesced one as one
// UDP_SEGMENT superpacket (loopback hands it to a UDP_GRO socket unsegmented, with the cmsg gso_size).
//
// Rounds are imposed without touching the loop: ListenOut calls flush() after every round; the harness parks the
// loop inside flush(), sends the datagrams of the next round one by one (waiting for the socket's rmem_alloc to
// rise after each, so they are queued), and only then lets the loop return to recvmmsg, which picks all of them up
// into slots 1..k.  A one-byte plain "primer" datagram brings the loop to its first flush() (it leaves the slots
// as they were: zeroed buffer, no size).
//
// Verdict (independent of how the kernel really cut the rounds): the stream of pieces handed to the reader must be,
// datagram by datagram, the pieces RecvSplit.tla gives for THIS datagram's length and THIS round's size.
// Coverage (which slot a datagram really used, what that slot held before) is read off the observed flush windows.

import (
	"bytes"
	"encoding/binary"
	"encoding/json"
	"fmt"
	"log/slog"
	"net/netip"
	"testing"
	"time"
	"unsafe"

	"golang.org/x/sys/unix"
)

type c27lDgram struct {
	Gro int `json:"gro"`
	Len int `json:"len"`
}

type c27lVec struct {
	In struct {
		Kind   string        `json:"kind"`
		Slots  int           `json:"slots"`
		Rounds [][]c27lDgram `json:"rounds"`
	} `json:"in"`
	Exp [][][]int `json:"exp"`
}

type c27lPiece struct {
	win  int
	from netip.AddrPort
	b    []byte
}

type c27lSender struct {
	fd   int
	addr netip.AddrPort
}

func c27lNewSender(t testing.TB) *c27lSender {
	fd, err := unix.Socket(unix.AF_INET, unix.SOCK_DGRAM, 0)
	if err != nil {
		t.Fatalf("verif: socket: %v", err)
	}
	if err := unix.Bind(fd, &unix.SockaddrInet4{Addr: [4]byte{127, 0, 0, 1}}); err != nil {
		t.Fatalf("verif: bind: %v", err)
	}
	sa, err := unix.Getsockname(fd)
	if err != nil {
		t.Fatalf("verif: getsockname: %v", err)
	}
	s4 := sa.(*unix.SockaddrInet4)
	return &c27lSender{fd: fd, addr: netip.AddrPortFrom(netip.AddrFrom4(s4.Addr), uint16(s4.Port))}
}

func c27lSockaddr(a netip.AddrPort) unix.Sockaddr {
	return &unix.SockaddrInet4{Addr: a.Addr().As4(), Port: int(a.Port())}
}

// send one datagram: plain (gro == 0) or as ONE superpacket the kernel cuts / coalesces at gro bytes
func (s *c27lSender) send(to netip.AddrPort, payload []byte, gro int) error {
	if gro <= 0 {
		return unix.Sendto(s.fd, payload, 0, c27lSockaddr(to))
	}
	oob := make([]byte, unix.CmsgSpace(2))
	h := (*unix.Cmsghdr)(unsafe.Pointer(&oob[0]))
	h.Level = unix.SOL_UDP
	h.Type = unix.UDP_SEGMENT
	setCmsgLen(h, unix.CmsgLen(2))
	binary.NativeEndian.PutUint16(oob[unix.CmsgLen(0):], uint16(gro))
	return unix.Sendmsg(s.fd, payload, oob, c27lSockaddr(to), 0)
}

func c27lPayload(d, n int) []byte {
	b := make([]byte, n)
	for j := range b {
		b[j] = byte(j*131 + (j>>8)*29 + 17 + d*59)
	}
	return b
}

func c27lRmem(fd int) (uint32, error) {
	var mi [unix.SK_MEMINFO_VARS]uint32
	vallen := uint32(4 * unix.SK_MEMINFO_VARS)
	_, _, e := unix.Syscall6(unix.SYS_GETSOCKOPT, uintptr(fd), uintptr(unix.SOL_SOCKET), uintptr(unix.SO_MEMINFO),
		uintptr(unsafe.Pointer(&mi[0])), uintptr(unsafe.Pointer(&vallen)), 0)
	if e != 0 {
		return 0, e
	}
	return mi[unix.SK_MEMINFO_RMEM_ALLOC], nil
}

// c27lProbe checks the two facts about the kernel interface the loop model rests on, with a socket of the harness:
// a superpacket arrives whole with a UDP_GRO message, and a following plain datagram comes back with
// msg_controllen 0 while the ancillary buffer still holds the old message.
func c27lProbe(t testing.TB, tx *c27lSender) (groSeen, plainLeavesBuffer bool) {
	fd, err := unix.Socket(unix.AF_INET, unix.SOCK_DGRAM, 0)
	if err != nil {
		t.Fatalf("verif: socket: %v", err)
	}
	defer unix.Close(fd)
	if err := unix.Bind(fd, &unix.SockaddrInet4{Addr: [4]byte{127, 0, 0, 1}}); err != nil {
		t.Fatalf("verif: bind: %v", err)
	}
	if err := unix.SetsockoptInt(fd, unix.IPPROTO_UDP, unix.UDP_GRO, 1); err != nil {
		return false, false
	}
	_ = unix.SetsockoptTimeval(fd, unix.SOL_SOCKET, unix.SO_RCVTIMEO, &unix.Timeval{Sec: 5})
	sa, _ := unix.Getsockname(fd)
	s4 := sa.(*unix.SockaddrInet4)
	to := netip.AddrPortFrom(netip.AddrFrom4(s4.Addr), uint16(s4.Port))
	if err := tx.send(to, c27lPayload(1, 900), 300); err != nil {
		return false, false
	}
	buf := make([]byte, 65535)
	oob := make([]byte, unix.CmsgSpace(udpGROCmsgPayload))
	n, oobn, _, _, err := unix.Recvmsg(fd, buf, oob, 0)
	if err != nil || n != 900 || oobn < unix.CmsgLen(udpGROCmsgPayload) {
		return false, false
	}
	hdr := &msghdr{Control: &oob[0]}
	setMsgControllen(hdr, oobn)
	if parseRecvCmsg(hdr) != 300 {
		return false, false
	}
	groSeen = true
	before := append([]byte(nil), oob...)
	if err := tx.send(to, c27lPayload(2, 1000), 0); err != nil {
		return true, false
	}
	n, oobn, _, _, err = unix.Recvmsg(fd, buf, oob, 0)
	if err != nil || n != 1000 {
		return true, false
	}
	return true, oobn == 0 && bytes.Equal(before, oob)
}

type c27lRun struct {
	pieces     []c27lPiece
	windows    int // flushes seen
	problem    string
	machinery  string
	misaligned bool
}

// c27lPlay plays one history on a fresh StdConn; datagram 0 is the primer.
func c27lPlay(tx *c27lSender, rounds [][]c27lDgram, payloads [][]byte) (run c27lRun) {
	c, err := NewListener(slog.New(slog.DiscardHandler), Settings{Listen: netip.MustParseAddrPort("127.0.0.1:0"), Batch: 4, Offloads: true})
	if err != nil {
		run.machinery = fmt.Sprintf("NewListener: %v", err)
		return
	}
	rx := c.(*StdConn)
	if !rx.groSupported {
		_ = rx.Close()
		run.machinery = "no-gro"
		return
	}
	to, err := rx.LocalAddr()
	if err != nil {
		_ = rx.Close()
		run.machinery = fmt.Sprintf("LocalAddr: %v", err)
		return
	}
	flushed := make(chan struct{}, 1)
	gate := make(chan struct{})
	done := make(chan error, 1)
	var pieces []c27lPiece
	win := 0
	go func() {
		done <- rx.ListenOut(func(from netip.AddrPort, p []byte) {
			pieces = append(pieces, c27lPiece{win: win, from: from, b: append([]byte(nil), p...)})
		}, func() {
			win++
			flushed <- struct{}{}
			<-gate
		})
	}()
	closed := false
	finish := func() {
		if closed {
			return
		}
		closed = true
		_ = rx.Close()
		close(gate)
		select {
		case <-done:
		case <-time.After(20 * time.Second):
			run.machinery = "ListenOut did not return after Close"
		}
	}
	defer finish()
	waitFlush := func() bool {
		select {
		case <-flushed:
			return true
		case <-time.After(20 * time.Second):
			run.machinery = "timed out waiting for the loop to finish a round"
			return false
		}
	}
	sendQueued := func(p []byte, gro int) bool {
		before, err := c27lRmem(rx.sysFd)
		if err != nil {
			run.machinery = fmt.Sprintf("SO_MEMINFO: %v", err)
			return false
		}
		if err := tx.send(to, p, gro); err != nil {
			run.machinery = fmt.Sprintf("send(len=%d, gro=%d): %v", len(p), gro, err)
			return false
		}
		deadline := time.Now().Add(10 * time.Second)
		for spin := 0; ; spin++ {
			now, err := c27lRmem(rx.sysFd)
			if err == nil && now > before {
				return true
			}
			if time.Now().After(deadline) {
				run.machinery = "datagram never showed up in the receive queue"
				return false
			}
			if spin > 50 {
				time.Sleep(50 * time.Microsecond)
			}
		}
	}
	// primer: the loop is parked in recvmmsg; one plain byte brings it to flush()
	if err := tx.send(to, payloads[0], 0); err != nil {
		run.machinery = fmt.Sprintf("send primer: %v", err)
		return
	}
	if !waitFlush() {
		return
	}
	d := 1
	for _, round := range rounds {
		for _, dg := range round {
			if !sendQueued(payloads[d], dg.Gro) {
				return
			}
			d++
		}
		gate <- struct{}{}
		if !waitFlush() {
			return
		}
	}
	finish()
	run.pieces = pieces
	run.windows = win
	return
}

func c27lClassPlain(stale, ln int) string {
	switch {
	case stale == 0:
		return "plain:fresh-slot"
	case stale < ln:
		return "plain:stale-size-below-length"
	default:
		return "plain:stale-size-not-below-length"
	}
}

// c27RunLoop plays every loop vector; called by TestVerif_C27.
func c27RunLoop(t *testing.T, res *vResult, lines [][]byte) {
	if len(lines) == 0 {
		return
	}
	tx := c27lNewSender(t)
	defer unix.Close(tx.fd)
	gro, leaves := c27lProbe(t, tx)
	if !gro {
		res.Hit("loop:no-gro")
		return
	}
	res.Hit("loop:probe:superpacket-arrives-whole-with-size")
	if leaves {
		res.Hit("loop:probe:plain-leaves-ancillary-buffer")
	}
	misaligned, retried := 0, 0
	for _, line := range lines {
		var v c27lVec
		if err := json.Unmarshal(line, &v); err != nil {
			t.Fatalf("loop vector: %v: %s", err, line)
		}
		// datagrams of the history in sending order; 0 = primer
		type dgram struct {
			round, slot int
			c27lDgram
			exp []int
		}
		dgs := []dgram{{round: -1, c27lDgram: c27lDgram{Len: 1}, exp: []int{1}}}
		for r, round := range v.In.Rounds {
			if len(round) > v.In.Slots || len(v.Exp[r]) != len(round) {
				t.Fatalf("verif: malformed loop vector: %s", line)
			}
			for i, dg := range round {
				dgs = append(dgs, dgram{round: r, slot: i, c27lDgram: dg, exp: v.Exp[r][i]})
			}
		}
		payloads := make([][]byte, len(dgs))
		for d := range dgs {
			payloads[d] = c27lPayload(d, dgs[d].Len)
		}
		var run c27lRun
		for attempt := 0; ; attempt++ {
			run = c27lPlay(tx, v.In.Rounds, payloads)
			if run.machinery == "" {
				break
			}
			if run.machinery == "no-gro" {
				res.Hit("loop:no-gro")
				return
			}
			if attempt == 2 {
				t.Fatalf("verif: cannot play history %s: %s", line, run.machinery)
			}
			retried++
		}
		res.Hit("loop")
		res.Case("loop/" + string(line[:min(len(line), 400)]))

		// walk the piece stream datagram by datagram
		gi := 0
		slotStale := map[int]int{}   // actual slot -> size left there by an earlier round
		slotPrev := map[int]string{} // actual slot -> kind of its previous datagram
		winCount := map[int]int{}    // window -> datagrams that started in it
		aligned := true
		for d, dg := range dgs {
			var lens []int
			covered, problem := 0, ""
			win := -1
			for covered < dg.Len && gi < len(run.pieces) {
				p := run.pieces[gi]
				if win < 0 {
					win = p.win
				}
				if p.from != tx.addr && problem == "" {
					problem = fmt.Sprintf("piece delivered with sender %v, sent from %v", p.from, tx.addr)
				}
				if covered+len(p.b) > dg.Len || !bytes.Equal(p.b, payloads[d][covered:covered+len(p.b)]) {
					problem = fmt.Sprintf("piece of %d bytes is not the received bytes at offset %d of the datagram", len(p.b), covered)
					lens = append(lens, len(p.b))
					gi++
					break
				}
				lens = append(lens, len(p.b))
				covered += len(p.b)
				gi++
			}
			slot := winCount[win]
			winCount[win]++
			if dg.round >= 0 && (win != dg.round+1 || slot != dg.slot) {
				aligned = false
			}
			cls := ""
			if dg.Gro > 0 {
				switch slotPrev[slot] {
				case "":
					cls = "coalesced:fresh-slot"
				case "plain":
					cls = "coalesced:after-plain"
				default:
					cls = "coalesced:after-coalesced"
				}
			} else {
				cls = c27lClassPlain(slotStale[slot], dg.Len)
			}
			if dg.round >= 0 {
				res.Hit("loop:" + cls)
				if slot == 1 {
					res.Hit("loop:second-slot:" + cls)
				}
			}
			detail := map[string]any{"rounds": v.In.Rounds, "datagram": d, "round": dg.round + 1, "slot": slot + 1,
				"len": dg.Len, "kernel_size_this_round": dg.Gro, "size_left_in_slot_by_earlier_round": slotStale[slot],
				"delivered": lens, "specification": dg.exp}
			if problem == "" && covered < dg.Len {
				problem = fmt.Sprintf("only %d of %d bytes delivered", covered, dg.Len)
			}
			if !c27Same(lens, dg.exp) && (problem == "" || covered == dg.Len) {
				res.Mismatch("loop:"+cls, fmt.Sprintf("ListenOut delivered a %d-byte datagram (kernel size in this round: %d; size left in the slot by "+
					"an earlier round: %d) as pieces %v, specification %v", dg.Len, dg.Gro, slotStale[slot], lens, dg.exp), detail)
			} else if problem != "" {
				res.Mismatch("loop:bytes:"+cls, fmt.Sprintf("ListenOut, %d-byte datagram (kernel size %d): %s", dg.Len, dg.Gro, problem), detail)
			}
			if problem != "" {
				gi = len(run.pieces) // no way to resynchronise
				break
			}
			if dg.Gro > 0 {
				slotStale[slot] = dg.Gro
				slotPrev[slot] = "coalesced"
			} else {
				slotPrev[slot] = "plain"
			}
		}
		if gi < len(run.pieces) {
			res.Mismatch("loop:extra", fmt.Sprintf("ListenOut delivered %d pieces more than were received", len(run.pieces)-gi),
				map[string]any{"rounds": v.In.Rounds})
		}
		if !aligned {
			misaligned++
		}
	}
	res.mu.Lock()
	res.Extra["loop_histories"] = len(lines)
	res.Extra["loop_histories_whose_rounds_the_kernel_cut_differently"] = misaligned
	res.Extra["loop_histories_replayed_after_a_socket_problem"] = retried
	res.mu.Unlock()
}
