//go:build linux && !android && !e2e_testing

package udp

// C27 — binding of the receive-LOOP part of spec/RecvSplit.tla (kind "loop") to the real StdConn.ListenOut.
//
// A loop vector is a history of recvmmsg rounds; every round fills batch slot 1 or slots 1..2 with a datagram that is
// coalesced (kernel size S, several segments) or plain (no size).  The history is played through the REAL kernel
// path: a real StdConn (Batch > 1, Offloads on => UDP_GRO) runs its real ListenOut on 127.0.0.1; the sender is a
// plain datagram socket of the harness that sends a plain datagram with send(2) and a coalesced one as one
// UDP_SEGMENT superpacket (loopback hands it to a UDP_GRO socket unsegmented, with the cmsg gso_size).
//
// One connection plays a group of histories (see c27lConn).
//
// Rounds are imposed without touching the loop: ListenOut calls flush() after every round; the harness parks the
// loop inside flush(), sends the datagrams of the next round one by one (waiting for the socket's rmem_alloc to
// rise after each, so they are queued), and only then lets the loop return to recvmmsg, which picks all of them up
// into slots 1..k.  A one-byte plain "primer" datagram brings the loop to its first flush() (it leaves the slots
// as they were: zeroed buffer, no size).
//
// Verdict (independent of how the kernel really cut the rounds): the stream of pieces handed to the reader must be,
// datagram by datagram, the pieces RecvSplit.tla gives for THIS datagram's length and THIS round's size.
// Coverage (which slot a datagram really used, what that slot held before) is read off the observed flush windows.

import (
	"bytes"
	"encoding/binary"
	"encoding/json"
	"fmt"
	"log/slog"
	"net/netip"
	"testing"
	"time"
	"unsafe"

	"golang.org/x/sys/unix"
)

type c27lDgram struct {
	Gro int `json:"gro"`
	Len int `json:"len"`
}

type c27lVec struct {
	In struct {
		Kind   string        `json:"kind"`
		Slots  int           `json:"slots"`
		Rounds [][]c27lDgram `json:"rounds"`
	} `json:"in"`
	Exp [][][]int `json:"exp"`
}

type c27lPiece struct {
	win  int
	from netip.AddrPort
	b    []byte
}

type c27lSender struct {
	fd   int
	addr netip.AddrPort
}

func c27lNewSender(t testing.TB) *c27lSender {
	fd, err := unix.Socket(unix.AF_INET, unix.SOCK_DGRAM, 0)
	if err != nil {
		t.Fatalf("verif: socket: %v", err)
	}
	if err := unix.Bind(fd, &unix.SockaddrInet4{Addr: [4]byte{127, 0, 0, 1}}); err != nil {
		t.Fatalf("verif: bind: %v", err)
	}
	sa, err := unix.Getsockname(fd)
	if err != nil {
		t.Fatalf("verif: getsockname: %v", err)
	}
	s4 := sa.(*unix.SockaddrInet4)
	return &c27lSender{fd: fd, addr: netip.AddrPortFrom(netip.AddrFrom4(s4.Addr), uint16(s4.Port))}
}

func c27lSockaddr(a netip.AddrPort) unix.Sockaddr {
	return &unix.SockaddrInet4{Addr: a.Addr().As4(), Port: int(a.Port())}
}

// send one datagram: plain (gro == 0) or as ONE superpacket the kernel cuts / coalesces at gro bytes
func (s *c27lSender) send(to netip.AddrPort, payload []byte, gro int) error {
	if gro <= 0 {
		return unix.Sendto(s.fd, payload, 0, c27lSockaddr(to))
	}
	oob := make([]byte, unix.CmsgSpace(2))
	h := (*unix.Cmsghdr)(unsafe.Pointer(&oob[0]))
	h.Level = unix.SOL_UDP
	h.Type = unix.UDP_SEGMENT
	setCmsgLen(h, unix.CmsgLen(2))
	binary.NativeEndian.PutUint16(oob[unix.CmsgLen(0):], uint16(gro))
	return unix.Sendmsg(s.fd, payload, oob, c27lSockaddr(to), 0)
}

func c27lPayload(d, n int) []byte {
	b := make([]byte, n)
	for j := range b {
		b[j] = byte(j*131 + (j>>8)*29 + 17 + d*59)
	}
	return b
}

func c27lRmem(fd int) (uint32, error) {
	var mi [unix.SK_MEMINFO_VARS]uint32
	vallen := uint32(4 * unix.SK_MEMINFO_VARS)
	_, _, e := unix.Syscall6(unix.SYS_GETSOCKOPT, uintptr(fd), uintptr(unix.SOL_SOCKET), uintptr(unix.SO_MEMINFO),
		uintptr(unsafe.Pointer(&mi[0])), uintptr(unsafe.Pointer(&vallen)), 0)
	if e != 0 {
		return 0, e
	}
	return mi[unix.SK_MEMINFO_RMEM_ALLOC], nil
}

// c27lProbe checks the two facts about the kernel interface the loop model rests on, with a socket of the harness:
// a superpacket arrives whole with a UDP_GRO message, and a following plain datagram comes back with
// msg_controllen 0 while the ancillary buffer still holds the old message.
func c27lProbe(t testing.TB, tx *c27lSender) (groSeen, plainLeavesBuffer bool) {
	fd, err := unix.Socket(unix.AF_INET, unix.SOCK_DGRAM, 0)
	if err != nil {
		t.Fatalf("verif: socket: %v", err)
	}
	defer unix.Close(fd)
	if err := unix.Bind(fd, &unix.SockaddrInet4{Addr: [4]byte{127, 0, 0, 1}}); err != nil {
		t.Fatalf("verif: bind: %v", err)
	}
	if err := unix.SetsockoptInt(fd, unix.IPPROTO_UDP, unix.UDP_GRO, 1); err != nil {
		return false, false
	}
	_ = unix.SetsockoptTimeval(fd, unix.SOL_SOCKET, unix.SO_RCVTIMEO, &unix.Timeval{Sec: 5})
	sa, _ := unix.Getsockname(fd)
	s4 := sa.(*unix.SockaddrInet4)
	to := netip.AddrPortFrom(netip.AddrFrom4(s4.Addr), uint16(s4.Port))
	if err := tx.send(to, c27lPayload(1, 900), 300); err != nil {
		return false, false
	}
	buf := make([]byte, 65535)
	oob := make([]byte, unix.CmsgSpace(udpGROCmsgPayload))
	n, oobn, _, _, err := unix.Recvmsg(fd, buf, oob, 0)
	if err != nil || n != 900 || oobn < unix.CmsgLen(udpGROCmsgPayload) {
		return false, false
	}
	hdr := &msghdr{Control: &oob[0]}
	setMsgControllen(hdr, oobn)
	if parseRecvCmsg(hdr) != 300 {
		return false, false
	}
	groSeen = true
	before := append([]byte(nil), oob...)
	if err := tx.send(to, c27lPayload(2, 1000), 0); err != nil {
		return true, false
	}
	n, oobn, _, _, err = unix.Recvmsg(fd, buf, oob, 0)
	if err != nil || n != 1000 {
		return true, false
	}
	return true, oobn == 0 && bytes.Equal(before, oob)
}

// c27lConn is one real StdConn whose real ListenOut runs in a goroutine, parked inside flush() between rounds.
// Opening and closing a UDP_GRO socket costs milliseconds in the kernel, so one connection plays a GROUP of
// histories one after the other: the batch slots then start a history with whatever the previous history left in
// them.  That is sound for the verdict (the specification of a datagram does not depend on the slot's past -- that is
// the property) and the harness keeps the real per-slot past across histories for the coverage classes.
type c27lConn struct {
	rx      *StdConn
	to      netip.AddrPort
	flushed chan struct{}
	gate    chan struct{}
	done    chan error
	pieces  []c27lPiece // written by the loop goroutine only while the harness waits for flushed
	win     int
	closed  bool
	// what the harness knows about the real slots (by observed flush windows)
	slotStale map[int]int
	slotPrev  map[int]string
	taken     int // pieces already attributed
}

func c27lOpen(tx *c27lSender) (*c27lConn, string) {
	c, err := NewListener(slog.New(slog.DiscardHandler), Settings{Listen: netip.MustParseAddrPort("127.0.0.1:0"), Batch: 4, Offloads: true})
	if err != nil {
		return nil, fmt.Sprintf("NewListener: %v", err)
	}
	rx := c.(*StdConn)
	if !rx.groSupported {
		_ = rx.Close()
		return nil, "no-gro"
	}
	to, err := rx.LocalAddr()
	if err != nil {
		_ = rx.Close()
		return nil, fmt.Sprintf("LocalAddr: %v", err)
	}
	cn := &c27lConn{rx: rx, to: to, flushed: make(chan struct{}, 1), gate: make(chan struct{}), done: make(chan error, 1),
		slotStale: map[int]int{}, slotPrev: map[int]string{}}
	go func() {
		cn.done <- rx.ListenOut(func(from netip.AddrPort, p []byte) {
			cn.pieces = append(cn.pieces, c27lPiece{win: cn.win, from: from, b: append([]byte(nil), p...)})
		}, func() {
			cn.win++
			cn.flushed <- struct{}{}
			<-cn.gate
		})
	}()
	// primer: the loop is parked in recvmmsg; one plain byte brings it to flush()
	if err := tx.send(to, []byte{0x5a}, 0); err != nil {
		cn.close()
		return nil, fmt.Sprintf("send primer: %v", err)
	}
	if m := cn.waitFlush(); m != "" {
		cn.close()
		return nil, m
	}
	if len(cn.pieces) != 1 || len(cn.pieces[0].b) != 1 {
		cn.close()
		return nil, "primer datagram not delivered as one piece"
	}
	cn.taken = 1
	cn.slotPrev[0] = "plain"
	return cn, ""
}

func (cn *c27lConn) close() string {
	if cn.closed {
		return ""
	}
	cn.closed = true
	_ = cn.rx.Close()
	close(cn.gate)
	select {
	case <-cn.done:
		return ""
	case <-time.After(20 * time.Second):
		return "ListenOut did not return after Close"
	}
}

func (cn *c27lConn) waitFlush() string {
	select {
	case <-cn.flushed:
		return ""
	case <-time.After(20 * time.Second):
		return "timed out waiting for the loop to finish a round"
	}
}

func (cn *c27lConn) sendQueued(tx *c27lSender, p []byte, gro int) string {
	before, err := c27lRmem(cn.rx.sysFd)
	if err != nil {
		return fmt.Sprintf("SO_MEMINFO: %v", err)
	}
	if err := tx.send(cn.to, p, gro); err != nil {
		return fmt.Sprintf("send(len=%d, gro=%d): %v", len(p), gro, err)
	}
	deadline := time.Now().Add(10 * time.Second)
	for spin := 0; ; spin++ {
		now, err := c27lRmem(cn.rx.sysFd)
		if err == nil && now > before {
			return ""
		}
		if time.Now().After(deadline) {
			return "datagram never showed up in the receive queue"
		}
		if spin > 50 {
			time.Sleep(50 * time.Microsecond)
		}
	}
}

// play sends the rounds of one history (payloads in sending order) and returns the pieces delivered for them and the
// number of the flush window before the first round.
func (cn *c27lConn) play(tx *c27lSender, rounds [][]c27lDgram, payloads [][]byte) (pieces []c27lPiece, win0 int, machinery string) {
	win0 = cn.win
	d := 0
	for _, round := range rounds {
		for _, dg := range round {
			if m := cn.sendQueued(tx, payloads[d], dg.Gro); m != "" {
				return nil, win0, m
			}
			d++
		}
		cn.gate <- struct{}{}
		if m := cn.waitFlush(); m != "" {
			return nil, win0, m
		}
	}
	pieces = cn.pieces[cn.taken:]
	cn.taken = len(cn.pieces)
	return pieces, win0, ""
}

func c27lClassPlain(stale, ln int) string {
	switch {
	case stale == 0:
		return "plain:fresh-slot"
	case stale < ln:
		return "plain:stale-size-below-length"
	default:
		return "plain:stale-size-not-below-length"
	}
}

const c27lGroup = 40 // histories per connection

// c27RunLoop plays every loop vector; called by TestVerif_C27.
func c27RunLoop(t *testing.T, res *vResult, lines [][]byte) {
	if len(lines) == 0 {
		return
	}
	tx := c27lNewSender(t)
	defer unix.Close(tx.fd)
	gro, leaves := c27lProbe(t, tx)
	if !gro {
		res.Hit("loop:no-gro")
		return
	}
	res.Hit("loop:probe:superpacket-arrives-whole-with-size")
	if leaves {
		res.Hit("loop:probe:plain-leaves-ancillary-buffer")
	}
	misaligned, reopened, conns := 0, 0, 0
	var cn *c27lConn
	defer func() {
		if cn != nil {
			cn.close()
		}
	}()
	inGroup := 0
	for _, line := range lines {
		var v c27lVec
		if err := json.Unmarshal(line, &v); err != nil {
			t.Fatalf("loop vector: %v: %s", err, line)
		}
		// datagrams of the history in sending order
		type dgram struct {
			round, slot int
			c27lDgram
			exp []int
		}
		var dgs []dgram
		for r, round := range v.In.Rounds {
			if len(round) > v.In.Slots || len(v.Exp[r]) != len(round) {
				t.Fatalf("verif: malformed loop vector: %s", line)
			}
			for i, dg := range round {
				dgs = append(dgs, dgram{round: r, slot: i, c27lDgram: dg, exp: v.Exp[r][i]})
			}
		}
		payloads := make([][]byte, len(dgs))
		for d := range dgs {
			payloads[d] = c27lPayload(d+inGroup*7, dgs[d].Len)
		}
		var pieces []c27lPiece
		win0 := 0
		for attempt := 0; ; attempt++ {
			m := ""
			if cn == nil || inGroup >= c27lGroup {
				if cn != nil {
					if m = cn.close(); m != "" {
						t.Fatalf("verif: %s", m)
					}
				}
				inGroup = 0
				cn, m = c27lOpen(tx)
				conns++
			}
			if m == "" {
				pieces, win0, m = cn.play(tx, v.In.Rounds, payloads)
			}
			if m == "" {
				break
			}
			if m == "no-gro" {
				res.Hit("loop:no-gro")
				return
			}
			if cn != nil {
				cn.close()
				cn = nil
			}
			if attempt == 2 {
				t.Fatalf("verif: cannot play history %s: %s", line, m)
			}
			reopened++
		}
		fresh := inGroup == 0
		inGroup++
		res.Hit("loop")
		if fresh {
			res.Hit("loop:history-on-fresh-connection")
		}
		res.Case("loop/" + string(line[:min(len(line), 400)]))

		// walk the piece stream datagram by datagram
		gi := 0
		winCount := map[int]int{} // window -> datagrams that started in it
		aligned := true
		broken := false
		for d, dg := range dgs {
			var lens []int
			covered, problem := 0, ""
			win := -1
			for covered < dg.Len && gi < len(pieces) {
				p := pieces[gi]
				if win < 0 {
					win = p.win
				}
				if p.from != tx.addr && problem == "" {
					problem = fmt.Sprintf("piece delivered with sender %v, sent from %v", p.from, tx.addr)
				}
				if covered+len(p.b) > dg.Len || !bytes.Equal(p.b, payloads[d][covered:covered+len(p.b)]) {
					problem = fmt.Sprintf("piece of %d bytes is not the received bytes at offset %d of the datagram", len(p.b), covered)
					lens = append(lens, len(p.b))
					gi++
					broken = true
					break
				}
				lens = append(lens, len(p.b))
				covered += len(p.b)
				gi++
			}
			slot := dg.slot
			if win >= 0 {
				slot = winCount[win]
				winCount[win]++
				if win != win0+dg.round || slot != dg.slot {
					aligned = false
				}
			}
			cls := ""
			if dg.Gro > 0 {
				switch cn.slotPrev[slot] {
				case "":
					cls = "coalesced:fresh-slot"
				case "plain":
					cls = "coalesced:after-plain"
				default:
					cls = "coalesced:after-coalesced"
				}
			} else {
				cls = c27lClassPlain(cn.slotStale[slot], dg.Len)
			}
			res.Hit("loop:" + cls)
			if slot == 1 {
				res.Hit("loop:second-slot:" + cls)
			}
			detail := map[string]any{"rounds": v.In.Rounds, "datagram": d + 1, "round": dg.round + 1, "slot": slot + 1,
				"len": dg.Len, "kernel_size_this_round": dg.Gro, "size_left_in_slot_by_earlier_round": cn.slotStale[slot],
				"delivered": lens, "specification": dg.exp, "history_on_fresh_connection": fresh}
			if problem == "" && covered < dg.Len {
				problem = fmt.Sprintf("only %d of %d bytes delivered", covered, dg.Len)
				broken = true
			}
			if !c27Same(lens, dg.exp) && !broken {
				res.Mismatch("loop:"+cls, fmt.Sprintf("ListenOut delivered a %d-byte datagram (kernel size in this round: %d; size left in the slot by "+
					"an earlier round: %d) as pieces %v, specification %v", dg.Len, dg.Gro, cn.slotStale[slot], lens, dg.exp), detail)
			} else if problem != "" {
				res.Mismatch("loop:bytes:"+cls, fmt.Sprintf("ListenOut, %d-byte datagram (kernel size %d): %s", dg.Len, dg.Gro, problem), detail)
			}
			if dg.Gro > 0 {
				cn.slotStale[slot] = dg.Gro
				cn.slotPrev[slot] = "coalesced"
			} else {
				cn.slotPrev[slot] = "plain"
			}
			if broken {
				break
			}
		}
		if !broken && gi < len(pieces) {
			res.Mismatch("loop:extra", fmt.Sprintf("ListenOut delivered %d pieces more than were received", len(pieces)-gi),
				map[string]any{"rounds": v.In.Rounds})
			broken = true
		}
		if broken { // what the slots hold is no longer known: start over
			cn.close()
			cn = nil
		}
		if !aligned {
			misaligned++
		}
	}
	res.mu.Lock()
	res.Extra["loop_histories"] = len(lines)
	res.Extra["loop_connections"] = conns
	res.Extra["loop_histories_whose_rounds_the_kernel_cut_differently"] = misaligned
	res.Extra["loop_connections_reopened_after_a_socket_problem"] = reopened
	res.mu.Unlock()
}
