//go:build linux && !android && !e2e_testing

package udp

// C26 — binding of spec/TxBatch.tla to batchWriter.WriteBatch.
//
//  R: every tour through TLC's state graph of TxBatch.tla (edge cover: every kernel answer at every machine state of
//     the explored batches) is replayed on a real batchWriter: the batch is concretised (destinations -> socket
//     addresses, sizes -> bytes, under several maps), the kernel's answers along the tour are imposed through a
//     scripted sendFn.
//  T: seeded random batches (up to 300 datagrams) and random fault scripts on writers with scaled and with the real
//     limits.
//  Both only *record*: one line per sendFn call with what the kernel was shown -- decoded from the mmsghdr array itself
//  (iovec base/len -> which datagram, cmsg -> segment size, sockaddr -> destination), not from the writer's book-keeping
//  -- plus the imposed answer, and WriteBatch's return.  The records are judged by TLC against Trace_TxBatch.tla.

import (
	"encoding/binary"
	"encoding/json"
	"fmt"
	"io"
	"log/slog"
	"math/rand"
	"net"
	"net/netip"
	"testing"
	"unsafe"

	"golang.org/x/sys/unix"
)

type c26Plan struct {
	Graphs []struct {
		File       string `json:"file"`
		MaxEntries int    `json:"me"`
		MaxSegs    int    `json:"ms"`
		Units      []int  `json:"units"` // bytes per model size unit (model MaxBytes * unit = 65000 where the limit binds)
	} `json:"graphs"`
	SmallTraces int `json:"smallTraces"`
	BigTraces   int `json:"bigTraces"`
	BigMax      int `json:"bigMax"`
}

type c26Dg struct{ Dst, Size int }

type c26Ans struct {
	K   int    // entries taken (>= 1), or 0
	Err string // "none", "eio", "other"
}

type c26Entry struct {
	Dst  int   `json:"dst"`
	Seg  int   `json:"seg"`
	Ids  []int `json:"ids"`
	Lens []int `json:"lens"`
}

type c26World struct {
	v4    bool
	addrs map[int]netip.AddrPort // model destination -> address
	back  map[netip.AddrPort]int
}

func c26NewWorld(v4 bool) *c26World {
	return &c26World{v4: v4, addrs: map[int]netip.AddrPort{}, back: map[netip.AddrPort]int{}}
}

func (wd *c26World) set(d int, ap netip.AddrPort) {
	wd.addrs[d] = ap
	wd.back[netip.AddrPortFrom(ap.Addr().Unmap(), ap.Port())] = d
}

// c26Sockaddr decodes the sockaddr the kernel would read for an entry.
func c26Sockaddr(name []byte, namelen int, v4 bool) (netip.AddrPort, bool) {
	if namelen > len(name) {
		return netip.AddrPort{}, false
	}
	fam := binary.NativeEndian.Uint16(name[0:2])
	port := binary.BigEndian.Uint16(name[2:4])
	switch {
	case fam == unix.AF_INET && namelen == unix.SizeofSockaddrInet4 && v4:
		var a [4]byte
		copy(a[:], name[4:8])
		return netip.AddrPortFrom(netip.AddrFrom4(a), port), true
	case fam == unix.AF_INET6 && namelen == unix.SizeofSockaddrInet6 && !v4:
		var a [16]byte
		copy(a[:], name[8:24])
		if binary.NativeEndian.Uint32(name[4:8]) != 0 || binary.NativeEndian.Uint32(name[24:28]) != 0 {
			return netip.AddrPort{}, false
		}
		return netip.AddrPortFrom(netip.AddrFrom16(a).Unmap(), port), true
	}
	return netip.AddrPort{}, false
}

// c26Observe decodes entries [start, start+n) of the prepared mmsghdr array as the kernel would see them.
func c26Observe(w *batchWriter, start, n int, wd *c26World, base uintptr, byOff map[uintptr]int) []c26Entry {
	out := make([]c26Entry, 0, n)
	for e := start; e < start+n; e++ {
		ent := c26Entry{Dst: -1, Ids: []int{}, Lens: []int{}}
		if e < 0 || e >= len(w.msgs) {
			out = append(out, ent)
			continue
		}
		hdr := &w.msgs[e].Hdr
		if hdr.Name != nil {
			name := unsafe.Slice(hdr.Name, unix.SizeofSockaddrInet6)
			if ap, ok := c26Sockaddr(name, int(hdr.Namelen), wd.v4); ok {
				if d, ok := wd.back[ap]; ok {
					ent.Dst = d
				}
			}
		}
		if hdr.Iov != nil && hdr.Iovlen > 0 && hdr.Iovlen <= uint64(len(w.iovs)) {
			for _, v := range unsafe.Slice(hdr.Iov, int(hdr.Iovlen)) {
				id := -1
				switch {
				case v.Base == nil && v.Len == 0:
					id = 0
				case v.Base != nil:
					if k, ok := byOff[uintptr(unsafe.Pointer(v.Base))-base]; ok {
						id = k
					}
				}
				ent.Ids = append(ent.Ids, id)
				ent.Lens = append(ent.Lens, int(v.Len))
			}
		}
		switch {
		case hdr.Control == nil && hdr.Controllen == 0:
			ent.Seg = 0
		case hdr.Control != nil && int(hdr.Controllen) >= unix.CmsgLen(2):
			ch := (*unix.Cmsghdr)(unsafe.Pointer(hdr.Control))
			data := unsafe.Slice((*byte)(unsafe.Add(unsafe.Pointer(hdr.Control), unix.CmsgLen(0))), 2)
			if ch.Level == unix.SOL_UDP && ch.Type == unix.UDP_SEGMENT && int(ch.Len) == unix.CmsgLen(2) {
				ent.Seg = int(binary.NativeEndian.Uint16(data))
			} else {
				ent.Seg = -1
			}
		default:
			ent.Seg = -1
		}
		out = append(out, ent)
	}
	return out
}

var c26Errnos = []unix.Errno{unix.EPERM, unix.ENOBUFS, unix.EINVAL, unix.EMSGSIZE, unix.ENETUNREACH, unix.EAGAIN, unix.EHOSTUNREACH, unix.ECONNREFUSED}

type c26Run struct {
	Calls   int
	Written int
	Err     bool
	Panic   string
	Kinds   map[string]int
}

// c26Execute builds a fresh writer, hands it the batch and answers its sendFn calls from answer().
func c26Execute(wd *c26World, me, ms int, gso bool, batch []c26Dg, unit int, debugLog bool, rnd *rand.Rand,
	answer func(call, n int) c26Ans, tr *vTracer) (run c26Run) {
	run.Kinds = map[string]int{}
	lvl := slog.LevelError
	if debugLog {
		lvl = slog.LevelDebug
	}
	w := &batchWriter{fd: -1, isV4: wd.v4, l: slog.New(slog.NewTextHandler(io.Discard, &slog.HandlerOptions{Level: lvl}))}
	w.gsoSupported = gso
	w.maxGSOSegments = ms
	w.prepareWriteMessages(me, true)
	w.sendFn = nil

	// all datagrams live in one backing array: an iovec base identifies the datagram
	total := 0
	for _, d := range batch {
		total += d.Size*unit + 8
	}
	backing := make([]byte, total+8)
	base := uintptr(unsafe.Pointer(&backing[0]))
	byOff := map[uintptr]int{}
	bufs := make([][]byte, len(batch))
	addrs := make([]netip.AddrPort, len(batch))
	sizes := make([]int, len(batch))
	mb := make([][2]int, len(batch))
	off := 0
	for k, d := range batch {
		sz := d.Size * unit
		sizes[k] = sz
		bufs[k] = backing[off : off+sz : off+sz]
		for j := range bufs[k] {
			bufs[k][j] = byte(k + 1)
		}
		if sz > 0 {
			byOff[uintptr(off)] = k + 1
		}
		off += sz + 8
		addrs[k] = wd.addrs[d.Dst]
		mb[k] = [2]int{d.Dst, sz}
	}
	tr.Event(map[string]any{"ev": "reset", "batch": mb, "gso": gso, "me": me, "ms": ms})

	w.sendFn = func(start, n int) (int, error) {
		ents := c26Observe(w, start, n, wd, base, byOff)
		a := answer(run.Calls, n)
		run.Calls++
		line := map[string]any{"ev": "send", "start": start, "n": n, "ents": ents}
		switch {
		case a.K >= 1:
			k := a.K
			if k > n {
				k = n
			}
			if k < n {
				run.Kinds["partial"]++
			} else {
				run.Kinds["full"]++
			}
			line["k"], line["err"] = k, "none"
			tr.Event(line)
			return k, nil
		case a.Err == "none":
			run.Kinds["noprogress"]++
			line["k"], line["err"] = 0, "none"
			tr.Event(line)
			return 0, nil
		}
		line["k"], line["err"] = 0, a.Err
		tr.Event(line)
		sent := -1 // what the syscall wrapper returns with an errno
		if rnd.Intn(3) == 0 {
			sent = 0
		}
		var err error
		if a.Err == "eio" {
			if n > 0 && len(ents) > 0 && len(ents[0].Ids) >= 2 && w.gsoSupported {
				run.Kinds["eio-offloaded"]++
			} else {
				run.Kinds["eio-plain"]++
			}
			err = &net.OpError{Op: "sendmmsg", Err: unix.EIO}
			if rnd.Intn(4) == 0 {
				err = fmt.Errorf("wrapped: %w", err)
			}
		} else {
			run.Kinds["reject"]++
			if rnd.Intn(8) == 0 {
				err = fmt.Errorf("some other failure")
			} else {
				err = &net.OpError{Op: "sendmmsg", Err: c26Errnos[rnd.Intn(len(c26Errnos))]}
			}
		}
		return sent, err
	}

	func() {
		defer func() {
			if r := recover(); r != nil {
				run.Panic = fmt.Sprint(r)
			}
		}()
		n, err := w.WriteBatch(bufs, addrs)
		run.Written, run.Err = n, err != nil
	}()
	if run.Panic != "" {
		tr.Event(map[string]any{"ev": "ret", "written": -1, "err": true, "panic": run.Panic})
	} else {
		tr.Event(map[string]any{"ev": "ret", "written": run.Written, "err": run.Err})
	}
	return run
}

func c26HasDst(b []c26Dg, d int) bool {
	for _, x := range b {
		if x.Dst == d {
			return true
		}
	}
	return false
}

func TestVerif_C26(t *testing.T) {
	res := vNewResult()
	defer res.Write(t)
	var plan c26Plan
	vReadJSON(t, "c26_plan.json", &plan)
	rnd := vRand()
	tr := vNewTracer(t, "trace.ndjson")
	defer tr.Close()

	// destination maps for the model's destinations 1, 2 (addressable) and 9 (wrong family)
	worldA := c26NewWorld(true) // v4 socket; same address, different ports
	worldA.set(1, netip.MustParseAddrPort("10.0.0.1:4242"))
	worldA.set(2, netip.MustParseAddrPort("10.0.0.1:4243"))
	worldA.set(9, netip.MustParseAddrPort("[2001:db8::9]:4242"))
	worldB := c26NewWorld(true) // v4 socket; destinations swapped, different addresses
	worldB.set(2, netip.MustParseAddrPort("192.0.2.7:1"))
	worldB.set(1, netip.MustParseAddrPort("198.51.100.200:65535"))
	worldB.set(9, netip.MustParseAddrPort("[2001:db8::1]:1"))
	worldC := c26NewWorld(false) // v6 socket: everything is addressable, v4 destinations are mapped
	worldC.set(1, netip.MustParseAddrPort("[fd00::1]:4242"))
	worldC.set(2, netip.MustParseAddrPort("10.0.0.2:4242"))

	report := func(run c26Run, what string, detail map[string]any) {
		for k, v := range run.Kinds {
			res.Actions["answer:"+k] += v
		}
		if run.Panic != "" {
			detail["panic"] = run.Panic
			res.Mismatch("panic:"+what, "WriteBatch panicked: "+run.Panic, detail)
		}
	}

	// ---------------------------------------------------------------- R
	for _, g := range plan.Graphs {
		var gr vGraph
		vReadJSON(t, g.File, &gr)
		for ti, tour := range gr.Tours {
			if len(tour) == 0 {
				continue
			}
			init := gr.States[gr.Edges[tour[0]].Src]
			var mb []struct{ Dst, Size int }
			if err := json.Unmarshal(init["batch"], &mb); err != nil {
				t.Fatalf("tour %d: batch: %v", ti, err)
			}
			batch := make([]c26Dg, len(mb))
			for k, d := range mb {
				batch[k] = c26Dg{d.Dst, d.Size}
			}
			gso := vBool(init["gso"])
			var script []c26Ans
			for _, ei := range tour {
				e := gr.Edges[ei]
				switch e.Act {
				case "SendOk":
					script = append(script, c26Ans{K: vInt(e.Args[0]), Err: "none"})
				case "SendNoProgress":
					script = append(script, c26Ans{Err: "none"})
				case "SendEIOReplan":
					script = append(script, c26Ans{Err: "eio"})
				case "SendReject":
					script = append(script, c26Ans{Err: vStr(e.Args[0])})
				}
				res.Hit(e.Act)
			}
			worlds := []*c26World{worldA, worldB}
			if !c26HasDst(batch, 9) {
				worlds = append(worlds, worldC)
			}
			{
				// one concretisation per tour, rotating over the destination maps and the size units
				wi := ti % len(worlds)
				wd := worlds[wi]
				unit := g.Units[(ti/len(worlds))%len(g.Units)]
				run := c26Execute(wd, g.MaxEntries, g.MaxSegs, gso, batch, unit, ti%2 == 0, rnd, func(call, n int) c26Ans {
					if call < len(script) {
						return script[call]
					}
					return c26Ans{K: n, Err: "none"} // beyond the tour: the kernel takes everything
				}, tr)
				res.Traces++
				res.Case(fmt.Sprintf("R/%s/%d", g.File, ti))
				report(run, "replay", map[string]any{"graph": g.File, "tour": ti, "world": wi, "unit": unit, "batch": batch, "gso": gso, "script": script})
			}
			if ti == len(gr.Tours)/2 {
				res.Sample(map[string]any{"graph": g.File, "batch": batch, "gso": gso, "kernel_answers": script})
			}
		}
	}

	// ---------------------------------------------------------------- T
	// small writers, dense faults
	for n := 0; n < plan.SmallTraces; n++ {
		me, ms := 2+rnd.Intn(3), 2+rnd.Intn(3)
		v4 := rnd.Intn(4) != 0
		wd, batch := c26RandomBatch(rnd, v4, 1+rnd.Intn(14), 3, []int{0, 1, 1, 2, 2, 3, 4, 5})
		run := c26Execute(wd, me, ms, rnd.Intn(5) != 0, batch, 16250, n%2 == 0, rnd, c26RandomKernel(rnd, 35, 25), tr)
		res.Traces++
		res.Hit("T:small")
		res.Case(fmt.Sprintf("T/small/%d", n))
		report(run, "random-small", map[string]any{"n": n, "batch": batch, "me": me, "ms": ms})
	}
	// the real limits, batches up to 300 datagrams
	for n := 0; n < plan.BigTraces; n++ {
		ms := 63
		if rnd.Intn(2) == 0 {
			ms = 127
		}
		v4 := rnd.Intn(4) != 0
		ln := 1 + rnd.Intn(plan.BigMax)
		if rnd.Intn(3) == 0 {
			ln = plan.BigMax - rnd.Intn(20)
		}
		wd, batch := c26RandomBatch(rnd, v4, ln, 1+rnd.Intn(12), nil)
		run := c26Execute(wd, MaxWriteBatch, ms, rnd.Intn(6) != 0, batch, 1, n%2 == 0, rnd, c26RandomKernel(rnd, 55, 20), tr)
		res.Traces++
		res.Hit("T:big")
		res.Case(fmt.Sprintf("T/big/%d", n))
		report(run, "random-big", map[string]any{"n": n, "datagrams": len(batch), "ms": ms})
	}
}

// c26RandomKernel answers every call at random: pFull % everything, pPartial % a proper prefix, the rest faults.
func c26RandomKernel(rnd *rand.Rand, pFull, pPartial int) func(call, n int) c26Ans {
	// a kernel that has started to refuse offloaded sends (EIO) or one destination keeps doing so for a while
	return func(call, n int) c26Ans {
		r := rnd.Intn(100)
		switch {
		case call > 60: // keep traces bounded
			return c26Ans{K: n, Err: "none"}
		case r < pFull:
			return c26Ans{K: n, Err: "none"}
		case r < pFull+pPartial:
			return c26Ans{K: 1 + rnd.Intn(n), Err: "none"}
		case r < pFull+pPartial+2:
			return c26Ans{Err: "none"}
		case r < pFull+pPartial+2+(100-pFull-pPartial-2)/2:
			return c26Ans{Err: "eio"}
		default:
			return c26Ans{Err: "other"}
		}
	}
}

// c26RandomBatch draws a batch made of runs (same destination, equal sizes, sometimes a shorter or an empty or an
// oversized datagram) and the world it lives in.  sizes == nil: realistic byte sizes with unit 1.
func c26RandomBatch(rnd *rand.Rand, v4 bool, n, ndst int, sizes []int) (*c26World, []c26Dg) {
	wd := c26NewWorld(v4)
	// destinations are numbered from 11 (9 is the model's wrong-family destination, 1000.. the random ones)
	for k := 1; k <= ndst; k++ {
		d := 10 + k
		switch {
		case v4 || k%2 == 0:
			wd.set(d, netip.AddrPortFrom(netip.AddrFrom4([4]byte{10, 1, byte(k / 3), byte(1 + k%3)}), uint16(4000+k)))
		default:
			wd.set(d, netip.AddrPortFrom(netip.AddrFrom16([16]byte{0xfd, 0, 15: byte(k)}), uint16(4000+k)))
		}
	}
	nbad := 0
	if v4 {
		nbad = 2
		for d := 1000; d < 1000+nbad; d++ {
			wd.set(d, netip.AddrPortFrom(netip.AddrFrom16([16]byte{0x20, 0x01, 0xd, 0xb8, 15: byte(d - 999)}), 9999))
		}
	}
	pick := func() int {
		if sizes != nil {
			return sizes[rnd.Intn(len(sizes))]
		}
		switch r := rnd.Intn(20); {
		case r < 9:
			return 1100 + rnd.Intn(300)
		case r < 12:
			return 1 + rnd.Intn(1500)
		case r < 14:
			return 8000 + rnd.Intn(1500) // jumbo: the byte limit binds before the segment limit
		case r < 15:
			return 30000 + rnd.Intn(35600)
		case r < 16:
			return 64990 + rnd.Intn(20)
		default:
			return 1 + rnd.Intn(120)
		}
	}
	var batch []c26Dg
	for len(batch) < n {
		dst := 11 + rnd.Intn(ndst)
		if nbad > 0 && rnd.Intn(9) == 0 {
			dst = 1000 + rnd.Intn(nbad)
		}
		size := pick()
		runLen := 1
		switch r := rnd.Intn(10); {
		case r < 3:
			runLen = 1 + rnd.Intn(3)
		case r < 6:
			runLen = 2 + rnd.Intn(8)
		case r < 7 && sizes == nil:
			runLen = 50 + rnd.Intn(100) // longer than any segment limit
		}
		for k := 0; k < runLen && len(batch) < n; k++ {
			s := size
			switch r := rnd.Intn(40); {
			case r == 0:
				s = 0
			case r == 1 && size > 1:
				s = 1 + rnd.Intn(size-1) // short: ends the run
			case r == 2:
				s = size + 1 + rnd.Intn(3) // longer: starts a new run
			}
			batch = append(batch, c26Dg{dst, s})
		}
	}
	return wd, batch
}
