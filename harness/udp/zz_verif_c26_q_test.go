//go:build linux && !android && !e2e_testing

package udp

// C26, queue layer — binding of spec/SendQueue.tla to overlay/batch.SendBatch on a real Linux batchWriter.
//
// A history is a sequence of Reserve+Commit calls and Flush calls on ONE SendBatch; the kernel's answers to the sendmmsg
// calls a Flush makes are imposed through sendFn (everything, a prefix, nothing without error, EIO, other errors; a prefix
// followed by "nothing" makes WriteBatch return a count AND an error).  Every datagram carries its id in its first four
// bytes; what the kernel is shown is decoded from the iovecs (pointer and length -> the bytes -> the id), so a datagram
// that is shown again in a later flush is seen whatever the queue's book-keeping says.  Recorded only; TLC judges the
// records against Trace_SendQueue.tla.

import (
	"encoding/binary"
	"fmt"
	"io"
	"log/slog"
	"net"
	"net/netip"
	"testing"
	"unsafe"

	"github.com/slackhq/nebula/overlay/batch"
	"golang.org/x/sys/unix"
)

type c26qPlan struct {
	Traces int `json:"traces"`
}

// c26qShown decodes the datagram ids behind entries [start, start+n) of the prepared mmsghdr array.
func c26qShown(w *batchWriter, start, n int) (perEntry [][]int) {
	for e := start; e < start+n; e++ {
		ids := []int{}
		if e >= 0 && e < len(w.msgs) {
			hdr := &w.msgs[e].Hdr
			if hdr.Iov != nil && hdr.Iovlen > 0 && hdr.Iovlen <= uint64(len(w.iovs)) {
				for _, v := range unsafe.Slice(hdr.Iov, int(hdr.Iovlen)) {
					if v.Base == nil || v.Len < 4 {
						ids = append(ids, -1)
						continue
					}
					ids = append(ids, int(binary.BigEndian.Uint32(unsafe.Slice(v.Base, 4))))
				}
			}
		}
		perEntry = append(perEntry, ids)
	}
	return
}

func TestVerif_C26Queue(t *testing.T) {
	res := vNewResult()
	defer res.Write(t)
	var plan c26qPlan
	vReadJSON(t, "c26q_plan.json", &plan)
	rnd := vRand()
	tr := vNewTracer(t, "traceq.ndjson")
	defer tr.Close()
	dsts := []netip.AddrPort{netip.MustParseAddrPort("10.0.0.1:4242"), netip.MustParseAddrPort("10.0.0.1:4243"),
		netip.MustParseAddrPort("192.0.2.7:1"), netip.MustParseAddrPort("[2001:db8::9]:4242")} // the last: wrong family on a v4 socket

	for n := 0; n < plan.Traces; n++ {
		lvl := slog.LevelError
		if n%2 == 0 {
			lvl = slog.LevelDebug
		}
		w := &batchWriter{fd: -1, isV4: true, l: slog.New(slog.NewTextHandler(io.Discard, &slog.HandlerOptions{Level: lvl}))}
		w.gsoSupported = rnd.Intn(4) != 0
		small := n%3 != 0
		me, qcap := MaxWriteBatch, batch.SendBatchCap
		w.maxGSOSegments = 63
		if small {
			me, qcap = 2+rnd.Intn(3), 3+rnd.Intn(6)
			w.maxGSOSegments = 2 + rnd.Intn(3)
		}
		w.prepareWriteMessages(me, true)
		sb := batch.NewSendBatch(w, qcap, qcap*1500)
		tr.Event(map[string]any{"ev": "reset"})
		id := 0
		calls := 0
		var shown map[int]bool
		var acc []int
		faultsLeft := 0
		w.sendFn = func(start, k int) (int, error) {
			ents := c26qShown(w, start, k)
			for _, e := range ents {
				for _, x := range e {
					shown[x] = true
				}
			}
			calls++
			r := rnd.Intn(100)
			take := 0
			var err error
			switch {
			case calls > 40 || (faultsLeft == 0 && r < 40):
				take = k
			case r < 60:
				take = 1 + rnd.Intn(k)
			case r < 72:
				res.Hit("answer:noprogress")
				return 0, nil
			case r < 86:
				res.Hit("answer:eio")
				err = &net.OpError{Op: "sendmmsg", Err: unix.EIO}
			default:
				res.Hit("answer:reject")
				err = &net.OpError{Op: "sendmmsg", Err: c26Errnos[rnd.Intn(len(c26Errnos))]}
			}
			if faultsLeft > 0 {
				faultsLeft--
			}
			if err != nil {
				return -1, err
			}
			for _, e := range ents[:take] {
				acc = append(acc, e...)
			}
			if take < k {
				res.Hit("answer:partial")
			}
			return take, nil
		}
		rounds := 2 + rnd.Intn(5)
		for r := 0; r < rounds; r++ {
			commits := 1 + rnd.Intn(qcap)
			if rnd.Intn(8) == 0 {
				commits = 0
			}
			d0 := rnd.Intn(3)
			for c := 0; c < commits && id < 390; c++ {
				id++
				sz := 4 + rnd.Intn(60)
				if !small && rnd.Intn(3) != 0 {
					sz = 1200 // run-shaped traffic: equal sizes to one destination are offloaded together
				}
				if rnd.Intn(5) == 0 {
					d0 = rnd.Intn(len(dsts))
				}
				buf := sb.Reserve(sz)
				for j := range buf {
					buf[j] = byte(id)
				}
				binary.BigEndian.PutUint32(buf, uint32(id))
				sb.Commit(buf, dsts[d0])
				tr.Event(map[string]any{"ev": "commit", "id": id, "qlen": sb.Len()})
			}
			shown, acc, calls = map[int]bool{}, []int{}, 0
			faultsLeft = rnd.Intn(4)
			written, err := sb.Flush()
			sh := []int{}
			for x := range shown {
				sh = append(sh, x)
			}
			if err != nil {
				res.Hit("flush:error")
				if written > 0 {
					res.Hit("flush:count-and-error")
				}
			} else if written < commits {
				res.Hit("flush:short")
			} else {
				res.Hit("flush:all")
			}
			tr.Event(map[string]any{"ev": "flush", "shown": sh, "acc": acc, "written": written, "err": err != nil, "qlen": sb.Len()})
		}
		res.Traces++
		res.Case(fmt.Sprintf("Q/%d", n))
		if n == plan.Traces/2 {
			res.Sample(map[string]any{"trace": n, "datagrams": id, "rounds": rounds})
		}
	}
}
