//go:build linux && !android && !e2e_testing

package udp

// C27 — binding of spec/RecvSplit.tla to deliverSegments / parseRecvCmsg (vector mode).
//
//  split vectors: (len, seg) -> the real deliverSegments on a payload of len position-dependent bytes; the pieces
//                 handed to the reader are projected to their lengths and compared with the specification's
//                 acceptable outcomes; contents must be the consecutive slices of the payload.
//  anc vectors  : abstract ancillary buffers (control messages, cut anywhere) are laid out as real bytes flush
//                 against an inaccessible page (on either side) and parsed by the real parseRecvCmsg: the size it
//                 returns is compared, and any access outside the buffer faults and is reported.
//  loop vectors: histories of recvmmsg rounds over reused batch slots, played through the real StdConn.ListenOut on
//                 loopback sockets (zz_verif_c27_loop_test.go).
//  random       : seeded ancillary buffers with arbitrary contents (never read outside) and seeded (len, seg)
//                 pairs at full width checked against the law of the statement.

import (
	"bytes"
	"encoding/binary"
	"encoding/json"
	"fmt"
	"net/netip"
	"runtime/debug"
	"testing"
	"unsafe"

	"golang.org/x/sys/unix"
)

type c27Item struct {
	Lvl  string `json:"lvl"`
	Typ  string `json:"typ"`
	Dlen int    `json:"dlen"`
	Val  int    `json:"val"`
}

type c27Vec struct {
	In struct {
		Kind  string    `json:"kind"`
		Len   int       `json:"len"`
		Seg   int       `json:"seg"`
		K     int       `json:"k"`
		Items []c27Item `json:"items"`
		Cut   int       `json:"cut"`
	} `json:"in"`
	Exp []int   `json:"exp"`
	Ok  [][]int `json:"ok"`
}

var c27Runaway = fmt.Errorf("c27: runaway split")

func c27Payload(n int) []byte {
	b := make([]byte, n, n+64)
	for i := range b {
		b[i] = byte(i*131 + (i>>8)*29 + 17)
	}
	return b
}

// c27Deliver runs the real deliverSegments and returns the piece lengths; problems with the pieces themselves
// (wrong sender, contents that are not the consecutive slices of the payload) are returned as text.
func c27Deliver(payload []byte, seg int) (lens []int, problem string) {
	from := netip.MustParseAddrPort("192.0.2.1:4242")
	orig := append([]byte(nil), payload...)
	off := 0
	defer func() {
		if r := recover(); r != nil {
			if r != c27Runaway {
				problem = fmt.Sprintf("panicked: %v", r)
				return
			}
			problem = "delivers more pieces than there are bytes (does not terminate)"
		}
	}()
	deliverSegments(func(a netip.AddrPort, p []byte) {
		lens = append(lens, len(p))
		if len(lens) > len(orig)+2 {
			panic(c27Runaway)
		}
		if a != from && problem == "" {
			problem = fmt.Sprintf("piece %d delivered with sender %v, received from %v", len(lens)-1, a, from)
		}
		if off+len(p) > len(orig) || !bytes.Equal(p, orig[off:off+len(p)]) {
			if problem == "" {
				problem = fmt.Sprintf("piece %d (len %d) is not the received bytes at offset %d", len(lens)-1, len(p), off)
			}
		}
		off += len(p)
	}, from, payload, seg)
	if problem == "" && off != len(orig) {
		problem = fmt.Sprintf("pieces cover %d bytes, %d received", off, len(orig))
	}
	if problem == "" && !bytes.Equal(payload, orig) {
		problem = "received bytes were modified"
	}
	return lens, problem
}

func c27Same(a, b []int) bool {
	if len(a) != len(b) {
		return false
	}
	for i := range a {
		if a[i] != b[i] {
			return false
		}
	}
	return true
}

func c27SegClass(ln, seg int) string {
	switch {
	case seg < 0:
		return "negative"
	case seg == 0:
		return "zero"
	case ln == 0:
		return "empty-datagram"
	case seg > ln:
		return "above-length"
	case seg == ln:
		return "equal-length"
	case ln%seg == 0:
		return "exact-multiple"
	default:
		return "short-tail"
	}
}

// guarded memory: [no access][one page][no access]
type c27Guard struct {
	mem  []byte
	page int
}

func c27NewGuard(t testing.TB) *c27Guard {
	pg := unix.Getpagesize()
	mem, err := unix.Mmap(-1, 0, 3*pg, unix.PROT_READ|unix.PROT_WRITE, unix.MAP_ANON|unix.MAP_PRIVATE)
	if err != nil {
		t.Fatalf("verif: mmap: %v", err)
	}
	if err := unix.Mprotect(mem[:pg], unix.PROT_NONE); err != nil {
		t.Fatalf("verif: mprotect: %v", err)
	}
	if err := unix.Mprotect(mem[2*pg:], unix.PROT_NONE); err != nil {
		t.Fatalf("verif: mprotect: %v", err)
	}
	return &c27Guard{mem: mem, page: pg}
}

// place copies b into the accessible page, flush against the following (atEnd) or the preceding guard page.
func (g *c27Guard) place(b []byte, atEnd bool) []byte {
	for i := g.page; i < 2*g.page; i++ {
		g.mem[i] = 0xa5
	}
	var dst []byte
	if atEnd {
		dst = g.mem[2*g.page-len(b) : 2*g.page : 2*g.page]
	} else {
		dst = g.mem[g.page : g.page+len(b) : g.page+len(b)]
	}
	copy(dst, b)
	return dst
}

// c27Parse runs the real parseRecvCmsg over ctrl placed against a guard page; fault != "" when it touched memory
// outside the buffer (or panicked otherwise).
func c27Parse(g *c27Guard, ctrl []byte, atEnd bool) (gso int, fault string) {
	hdr := &msghdr{}
	if len(ctrl) > 0 {
		p := g.place(ctrl, atEnd)
		hdr.Control = &p[0]
	} else {
		// an empty buffer still has an address: the first byte of the guard page (must not be read)
		hdr.Control = (*byte)(unsafe.Pointer(&g.mem[2*g.page-1]))
		hdr.Control = (*byte)(unsafe.Add(unsafe.Pointer(hdr.Control), 1))
	}
	setMsgControllen(hdr, len(ctrl))
	defer func() {
		if r := recover(); r != nil {
			fault = fmt.Sprint(r)
		}
	}()
	return parseRecvCmsg(hdr), ""
}

func c27Layout(items []c27Item) []byte {
	var out []byte
	for _, it := range items {
		sp := unix.CmsgSpace(it.Dlen)
		b := make([]byte, sp)
		h := (*unix.Cmsghdr)(unsafe.Pointer(&b[0]))
		switch it.Lvl {
		case "udp":
			h.Level = unix.SOL_UDP
		default:
			h.Level = unix.SOL_IP
		}
		switch it.Typ {
		case "gro":
			h.Type = unix.UDP_GRO
		case "seg":
			h.Type = unix.UDP_SEGMENT
		default:
			h.Type = unix.IP_TOS
		}
		setCmsgLen(h, unix.CmsgLen(it.Dlen))
		data := b[unix.CmsgLen(0):]
		if it.Dlen >= 4 {
			binary.NativeEndian.PutUint32(data[:4], uint32(int32(it.Val)))
		} else {
			for k := 0; k < it.Dlen; k++ {
				data[k] = byte(it.Val)
			}
		}
		for k := it.Dlen; k < len(data); k++ {
			data[k] = 0xee // padding is not data
		}
		out = append(out, b...)
	}
	return out
}

func TestVerif_C27(t *testing.T) {
	res := vNewResult()
	defer res.Write(t)
	defer debug.SetPanicOnFault(debug.SetPanicOnFault(true))
	if unix.CmsgLen(0) != 16 || unix.CmsgSpace(1) != 24 {
		t.Fatalf("verif: control message geometry of this platform (%d/%d) is not the one in RecvSplit.tla", unix.CmsgLen(0), unix.CmsgSpace(1))
	}
	g := c27NewGuard(t)
	n := 0
	var loopLines [][]byte
	vReadNDJSON(t, "vectors.ndjson", func(line []byte) {
		if bytes.Contains(line, []byte(`"kind":"loop"`)) { // histories of the receive loop: zz_verif_c27_loop_test.go
			loopLines = append(loopLines, append([]byte(nil), line...))
			return
		}
		var v c27Vec
		if err := json.Unmarshal(line, &v); err != nil {
			t.Fatalf("vector: %v: %s", err, line)
		}
		n++
		switch v.In.Kind {
		case "split":
			cls := c27SegClass(v.In.Len, v.In.Seg)
			res.Hit("split")
			res.Hit("split:" + cls)
			res.Case(fmt.Sprintf("split/%d/%d", v.In.Len, v.In.Seg))
			got, problem := c27Deliver(c27Payload(v.In.Len), v.In.Seg)
			okay := false
			for _, p := range v.Ok {
				if c27Same(got, p) {
					okay = true
				}
			}
			detail := map[string]any{"len": v.In.Len, "seg": v.In.Seg, "delivered": got, "specification": v.Ok}
			if len(problem) > 8 && problem[:8] == "panicked" {
				res.Mismatch("split:panic:"+cls, fmt.Sprintf("deliverSegments(len=%d, seg=%d) %s", v.In.Len, v.In.Seg, problem), detail)
			} else if !okay {
				res.Mismatch("split:"+cls, fmt.Sprintf("deliverSegments(len=%d, seg=%d) delivered pieces of lengths %v, specification %v",
					v.In.Len, v.In.Seg, c27Short(got), c27Short(v.Exp)), detail)
			} else if problem != "" {
				res.Mismatch("split:bytes:"+cls, fmt.Sprintf("deliverSegments(len=%d, seg=%d): %s", v.In.Len, v.In.Seg, problem), detail)
			}
			if n%3000 == 1 {
				res.Sample(json.RawMessage(append([]byte(nil), line...)))
			}
		case "anc":
			res.Hit("anc")
			res.Case(string(line))
			full := c27Layout(v.In.Items)
			if v.In.Cut > len(full) {
				t.Fatalf("verif: cut %d beyond layout %d: %s", v.In.Cut, len(full), line)
			}
			ctrl := full[:v.In.Cut]
			for _, atEnd := range []bool{true, false} {
				got, fault := c27Parse(g, ctrl, atEnd)
				detail := map[string]any{"items": v.In.Items, "cut": v.In.Cut, "bytes": fmt.Sprintf("%x", ctrl), "guard_after": atEnd}
				if fault != "" {
					res.Mismatch("anc:outside", fmt.Sprintf("parseRecvCmsg read outside a %d-byte ancillary buffer: %s", len(ctrl), fault), detail)
				} else if got != v.Exp[0] {
					cls := "present"
					if v.Exp[0] == 0 {
						cls = "missing"
					}
					res.Mismatch("anc:size:"+cls, fmt.Sprintf("parseRecvCmsg returned size %d, specification %d", got, v.Exp[0]), detail)
				}
			}
			if v.Exp[0] != 0 {
				res.Hit("anc:present")
			} else {
				res.Hit("anc:missing")
			}
		default:
			t.Fatalf("unknown vector kind %q", v.In.Kind)
		}
	})

	// ---- the receive loop with reused batch slots, on real loopback sockets
	c27RunLoop(t, res, loopLines)

	// ---- seeded: arbitrary ancillary contents never make the parser leave the buffer
	rnd := vRand()
	nr := 20000
	if !vQuick() {
		nr = 200000
	}
	for k := 0; k < nr; k++ {
		ln := rnd.Intn(97)
		buf := make([]byte, ln)
		switch rnd.Intn(3) {
		case 0: // noise
			rnd.Read(buf)
		default: // plausible messages with corrupted lengths / levels / values
			off := 0
			for off+16 <= ln {
				h := (*unix.Cmsghdr)(unsafe.Pointer(&buf[off]))
				d := rnd.Intn(12)
				claim := uint64(16 + d)
				switch rnd.Intn(8) {
				case 0:
					claim = uint64(rnd.Intn(16))
				case 1:
					claim = ^uint64(0) - uint64(rnd.Intn(32))
				case 2:
					claim = uint64(1<<63) - uint64(rnd.Intn(32))
				case 3:
					claim = uint64(ln-off) + uint64(rnd.Intn(3))
				}
				h.Len = claim
				h.Level = []int32{unix.SOL_UDP, unix.SOL_IP, unix.SOL_UDP}[rnd.Intn(3)]
				h.Type = []int32{unix.UDP_GRO, unix.UDP_GRO, unix.IP_TOS}[rnd.Intn(3)]
				for j := off + 16; j < ln && j < off+16+d; j++ {
					buf[j] = byte(rnd.Intn(256))
				}
				off += unix.CmsgSpace(d)
			}
		}
		for _, atEnd := range []bool{true, false} {
			if _, fault := c27Parse(g, buf, atEnd); fault != "" {
				res.Mismatch("anc:outside:random", fmt.Sprintf("parseRecvCmsg read outside a %d-byte ancillary buffer: %s", ln, fault),
					map[string]any{"bytes": fmt.Sprintf("%x", buf), "guard_after": atEnd})
			}
		}
		res.Hit("anc:random")
	}

	// ---- seeded: the law of the statement at full width
	for k := 0; k < nr; k++ {
		ln := rnd.Intn(65536)
		if rnd.Intn(4) == 0 {
			ln = rnd.Intn(4000)
		}
		var seg int
		switch rnd.Intn(6) {
		case 0:
			seg = -rnd.Intn(70000)
		case 1:
			seg = ln - 2 + rnd.Intn(5)
		case 2:
			seg = 1 + rnd.Intn(9000)
			ln = seg * rnd.Intn(1+65535/seg) // exact multiple
		default:
			seg = 1 + rnd.Intn(9000)
		}
		if seg > 0 && ln/seg > 20000 {
			seg = 1 + ln/64
		}
		got, problem := c27Deliver(c27Payload(ln), seg)
		bad := ""
		if seg <= 0 {
			if !c27Same(got, []int{ln}) {
				bad = "nonsensical size must deliver the datagram whole"
			}
		} else {
			sum := 0
			for i, p := range got {
				sum += p
				if i < len(got)-1 && p != seg {
					bad = fmt.Sprintf("piece %d has length %d, size is %d", i, p, seg)
				}
				if i == len(got)-1 && (p > seg || (p == 0 && ln != 0)) {
					bad = fmt.Sprintf("last piece has length %d, size is %d", p, seg)
				}
			}
			if sum != ln || (ln > 0 && len(got) == 0) {
				bad = fmt.Sprintf("pieces cover %d of %d bytes", sum, ln)
			}
		}
		if bad == "" {
			bad = problem
		}
		if bad != "" {
			res.Mismatch("split:random:"+c27SegClass(ln, seg), fmt.Sprintf("deliverSegments(len=%d, seg=%d): %s", ln, seg, bad),
				map[string]any{"len": ln, "seg": seg, "delivered": c27Short(got)})
		}
		res.Hit("split:random")
	}
}

func c27Short(x []int) []int {
	if len(x) > 70 {
		return append(append([]int(nil), x[:70]...), -1)
	}
	return x
}
