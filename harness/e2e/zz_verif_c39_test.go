//go:build e2e_testing

package e2e

// C39 — relays forward only for the pair they were set up for (spec/Relay.tla, trace validation).
//
// Four complete nodes in a synctest bubble: A (initiator), R (am_relay), T (target), M (an authenticated
// peer that is hostile: it sends create-relay requests/responses with arbitrary addresses and indexes,
// duplicates and stale copies). A seeded driver mixes legitimate relay set-up and traffic, M's
// messages, reordering/duplication/replay of datagrams, tunnel closes and time. After every stimulus
// the acting node's relay records, tunnel set and forwarded datagrams are logged; TLC validates the
// trace against the permission specification.

import (
	"encoding/json"
	"fmt"
	"math/rand"
	"net/netip"
	"os"
	"path/filepath"
	"sort"
	"testing"
	"testing/synctest"
	"time"

	"github.com/slackhq/nebula"
	"github.com/slackhq/nebula/cert"
	"github.com/slackhq/nebula/header"
	"go.yaml.in/yaml/v3"
)

type c39World struct {
	*vNet
	A, R, T, M *vNode
	name       map[netip.Addr]string // overlay address -> "a","r","t","m"
	udp        map[netip.AddrPort]string
	idx        map[uint32]int
	lines      []map[string]any
	inflight   []*vDatagram
}

func c39NewWorld(t *testing.T) *c39World {
	n := vNewNet(t)
	w := &c39World{vNet: n, name: map[netip.Addr]string{}, udp: map[netip.AddrPort]string{}, idx: map[uint32]int{}}
	timers := m{"connection_alive_interval": 3600, "pending_deletion_interval": 3600}
	common := func(extra m) m {
		o := m{"timers": timers, "listen": m{"send_recv_error": "never"}, "handshakes": m{"try_interval": "100ms", "retries": 6}}
		for k, v := range extra {
			o[k] = v
		}
		return o
	}
	w.R = n.AddNode(cert.Version2, "R", "10.128.0.128/24", common(m{"relay": m{"am_relay": true}}))
	w.T = n.AddNode(cert.Version2, "T", "10.128.0.2/24", common(m{"relay": m{"use_relays": true}}))
	w.A = n.AddNode(cert.Version2, "A", "10.128.0.1/24", common(m{"relay": m{"use_relays": true}}))
	w.M = n.AddNode(cert.Version2, "M", "10.128.0.3/24", common(m{"relay": m{"use_relays": true}}))
	for _, s := range []*vNode{w.A, w.M} {
		s.Ctrl.InjectLightHouseAddr(w.R.Vpn[0].Addr(), w.R.UDP)
		s.Ctrl.InjectRelays(w.T.Vpn[0].Addr(), []netip.Addr{w.R.Vpn[0].Addr()})
	}
	w.T.Ctrl.InjectLightHouseAddr(w.R.Vpn[0].Addr(), w.R.UDP)
	w.T.Ctrl.InjectRelays(w.A.Vpn[0].Addr(), []netip.Addr{w.R.Vpn[0].Addr()})
	w.R.Ctrl.InjectLightHouseAddr(w.T.Vpn[0].Addr(), w.T.UDP)
	w.R.Ctrl.InjectLightHouseAddr(w.A.Vpn[0].Addr(), w.A.UDP)
	for nd, nm := range map[*vNode]string{w.A: "a", w.R: "r", w.T: "t", w.M: "m"} {
		w.name[nd.Vpn[0].Addr()] = nm
		w.udp[nd.UDP] = nd.Name
	}
	n.Start()
	return w
}

func (w *c39World) addrName(a string) string {
	if ad, err := netip.ParseAddr(a); err == nil {
		if nm, ok := w.name[ad]; ok {
			return nm
		}
	}
	return "x:" + a
}

func (w *c39World) idxName(i uint32) int {
	if i == 0 {
		return 0
	}
	if n, ok := w.idx[i]; ok {
		return n
	}
	w.idx[i] = len(w.idx) + 1
	return w.idx[i]
}

var c39States = map[int]string{nebula.Requested: "requested", nebula.Established: "established", nebula.PeerRequested: "peerrequested", nebula.Disestablished: "disestablished"}
var c39Types = map[int]string{nebula.TerminalType: "terminal", nebula.ForwardingType: "forwarding"}

// project: relay records and tunnel peers of a node
func (w *c39World) project(nd *vNode) (recs []map[string]any, tuns []string, ridx [][]int, live []int) {
	st := nd.Ctrl.VerifProject()
	seen := map[string]bool{}
	var lidxs []uint32
	for i := range st.Tunnels {
		lidxs = append(lidxs, i)
	}
	sort.Slice(lidxs, func(i, j int) bool { return lidxs[i] < lidxs[j] })
	recs = []map[string]any{}
	tuns = []string{}
	for _, i := range lidxs {
		t := st.Tunnels[i]
		if !seen[t.CertName] {
			seen[t.CertName] = true
			tuns = append(tuns, t.CertName)
		}
		for _, r := range t.RelayFor {
			recs = append(recs, map[string]any{"peer": t.CertName, "tun": w.idxName(i), "addr": w.addrName(r.Peer), "type": c39Types[r.Type], "state": c39States[r.State],
				"lidx": w.idxName(r.LocalIndex), "ridx": w.idxName(r.RemoteIndex)})
		}
	}
	sort.Strings(tuns)
	// HostMap.Relays: index -> the tunnel relayed packets carrying it are verified with (0: a tunnel the node no longer holds)
	ridx = [][]int{}
	for i, owner := range st.RelayIndexes {
		tun := 0
		if _, live := st.Tunnels[owner]; live {
			tun = w.idxName(owner)
		}
		ridx = append(ridx, []int{w.idxName(i), tun})
	}
	sort.Slice(ridx, func(i, j int) bool { return ridx[i][0] < ridx[j][0] })
	live = []int{}
	for _, i := range lidxs {
		live = append(live, w.idxName(i))
	}
	sort.Ints(live)
	return
}

// classify a datagram about to be delivered to nd: authenticated sender (by the index it names) and type
func (w *c39World) classify(nd *vNode, d *vDatagram) (s, typ string, ok bool) {
	st := nd.Ctrl.VerifProject()
	h := d.H
	switch {
	case h.Type == header.Message && h.Subtype == header.MessageRelay:
		if li, found := st.RelayIndexes[h.RemoteIndex]; found {
			if t, ok2 := st.Tunnels[li]; ok2 {
				// a relayed packet that ENDS here (terminal record) carries an inner packet of the far endpoint: its header is
				// clear text; when it names a tunnel this node holds, what it does is attributed to that tunnel's peer
				// (authenticated by the endpoints' own key), exactly as for a direct datagram
				terminal := false
				for _, r := range t.RelayFor {
					if r.LocalIndex == h.RemoteIndex && r.Type == nebula.TerminalType {
						terminal = true
					}
				}
				if terminal && len(d.Data) >= 2*header.Len+16 {
					var ih header.H
					if err := ih.Parse(d.Data[header.Len:]); err == nil && ih.Type != header.Handshake && ih.Type != header.RecvError {
						if it, ok3 := st.Tunnels[ih.RemoteIndex]; ok3 {
							switch ih.Type {
							case header.Control:
								return it.CertName, "control", true
							case header.CloseTunnel:
								return "", "", false // a close is a tunnel loss: logged as Local
							default:
								return t.CertName, "relay", true
							}
						}
					}
				}
				return t.CertName, "relay", true
			}
		}
		return "", "", false
	case h.Type == header.Handshake || h.Type == header.RecvError:
		return "", "", false
	default:
		t, found := st.Tunnels[h.RemoteIndex]
		if !found {
			return "", "", false
		}
		typ = "data"
		if h.Type == header.Control {
			typ = "control"
		}
		if h.Type == header.CloseTunnel {
			return "", "", false // a close is a tunnel loss: logged as Local
		}
		return t.CertName, typ, true
	}
}

func (w *c39World) deliver(d *vDatagram) {
	nd := w.byUDP[d.To]
	if nd == nil {
		return
	}
	s, typ, auth := w.classify(nd, d)
	for _, x := range w.sorted() {
		w.inflight = append(w.inflight, x.TakeUDP()...)
	}
	w.Deliver(d)
	out := nd.TakeUDP()
	w.inflight = append(w.inflight, out...)
	recs, tuns, ridx, live := w.project(nd)
	if !auth {
		w.lines = append(w.lines, map[string]any{"ev": "Local", "n": nd.Name, "recs": recs, "tuns": tuns, "ridx": ridx, "live": live, "why": d.H.TypeName()})
		return
	}
	fwd := []string{}
	if typ == "relay" {
		seen := map[string]bool{}
		for _, o := range out {
			// forwarding = the inner packet leaves again bit for bit (a reply through the relay is not a forward)
			if o.H.Type == header.Message && o.H.Subtype == header.MessageRelay && len(o.Data) == len(d.Data) && len(d.Data) > header.Len+16 &&
				string(o.Data[header.Len:len(o.Data)-16]) == string(d.Data[header.Len:len(d.Data)-16]) {
				if to := w.udp[o.To]; to != "" && !seen[to] {
					seen[to] = true
					fwd = append(fwd, to)
				}
			}
		}
	}
	w.lines = append(w.lines, map[string]any{"ev": "Recv", "n": nd.Name, "s": s, "typ": typ, "recs": recs, "tuns": tuns, "ridx": ridx, "live": live, "fwd": fwd})
}

func (w *c39World) local(nd *vNode, why string) {
	w.inflight = append(w.inflight, nd.TakeUDP()...)
	recs, tuns, ridx, live := w.project(nd)
	w.lines = append(w.lines, map[string]any{"ev": "Local", "n": nd.Name, "recs": recs, "tuns": tuns, "ridx": ridx, "live": live, "why": why})
}

func TestVerif_C39(t *testing.T) {
	res := vNewResult()
	defer res.Write(t)
	seed := vSeed()
	traces, steps := 10, 120
	if !vQuick() {
		traces, steps = 60, 200
	}
	f, err := os.Create(filepath.Join(os.Getenv("VERIF_OUT"), "trace_relay.ndjson"))
	if err != nil {
		t.Fatal(err)
	}
	defer f.Close()
	enc := json.NewEncoder(f)
	for tr := 0; tr < traces; tr++ {
		rnd := rand.New(rand.NewSource(seed*7777 + int64(tr)))
		var lines []map[string]any
		vBubble(t, func(t *testing.T) {
			w := c39NewWorld(t)
			defer w.Stop()
			c39Drive(w, rnd, steps, tr, res)
			lines = w.lines
		})
		enc.Encode(map[string]any{"ev": "reset"})
		for _, ln := range lines {
			enc.Encode(ln)
			res.Hit("ev:" + ln["ev"].(string))
			if ln["ev"] == "Recv" {
				res.Hit("typ:" + ln["typ"].(string))
				if fw, ok := ln["fwd"].([]string); ok && len(fw) > 0 {
					res.Hit("forwarded")
				}
			}
		}
		res.Case(fmt.Sprintf("trace/%d/%d", seed, tr))
		if tr == 0 && len(lines) > 6 {
			res.Sample(lines[3:6])
		}
	}
}

func c39Drive(w *c39World, rnd *rand.Rand, steps, tr int, res *vResult) {
	nodes := []*vNode{w.A, w.R, w.T, w.M}
	addrs := []netip.Addr{w.A.Vpn[0].Addr(), w.R.Vpn[0].Addr(), w.T.Vpn[0].Addr(), w.M.Vpn[0].Addr(), netip.MustParseAddr("10.128.0.99")}
	tag := 0
	send := func(from *vNode, to netip.Addr) {
		tag++
		w.TunSend(from, vUDPPacket(from.Vpn[0].Addr(), to, 4000, 5000, []byte(fmt.Sprintf("p%d", tag))))
		w.local(from, "tun")
	}
	knownIdx := func() uint32 {
		if len(w.idx) == 0 || rnd.Intn(4) == 0 {
			return uint32(1000 + rnd.Intn(5))
		}
		// in order of first sight (map iteration order would make the schedule differ from run to run)
		k := 1 + rnd.Intn(len(w.idx))
		for real, name := range w.idx {
			if name == k {
				return real
			}
		}
		return 7
	}
	// get the legitimate relay going early in most traces
	if tr%4 != 3 {
		send(w.A, w.T.Vpn[0].Addr())
	}
	if tr%2 == 0 {
		send(w.M, w.R.Vpn[0].Addr()) // M gets its tunnel with the relay
	}
	if tr%4 == 1 {
		// tunnel churn on the relay: A forgets its tunnel with R without telling it and comes back, so that R holds two
		// tunnels with A, the relay is negotiated again on the new one, and then R closes one of them while the other stays
		pump := func() {
			for round := 0; round < 12; round++ {
				for k := 0; k < 40 && len(w.inflight) > 0; k++ {
					d := w.inflight[0]
					w.inflight = w.inflight[1:]
					w.deliver(d)
				}
				if _, ok := w.A.Ctrl.VerifProject().Hosts[w.T.Vpn[0].Addr().String()]; ok && len(w.inflight) == 0 {
					return
				}
				w.Advance(100 * time.Millisecond)
				for _, nd := range w.sorted() {
					w.local(nd, "tick")
				}
			}
		}
		pump()
		if w.A.Ctrl.CloseTunnel(w.R.Vpn[0].Addr(), true) {
			w.local(w.A, "close")
			w.Advance(time.Second) // a handshake made in the same instant as the tunnel the relay holds would not be newer
			for _, nd := range w.sorted() {
				w.local(nd, "tick")
			}
			w.A.Ctrl.InjectLightHouseAddr(w.R.Vpn[0].Addr(), w.R.UDP) // closing a tunnel forgets what the lighthouse cache said
			send(w.A, w.R.Vpn[0].Addr())                               // a new handshake with the relay, which still holds the old tunnel
			pump()
			if w.A.Ctrl.CloseTunnel(w.T.Vpn[0].Addr(), true) {
				w.local(w.A, "close")
			}
			w.A.Ctrl.InjectRelays(w.T.Vpn[0].Addr(), []netip.Addr{w.R.Vpn[0].Addr()})
			send(w.A, w.T.Vpn[0].Addr()) // the relay is negotiated again, now over the new tunnel
			pump()
			nA := 0
			for _, t := range w.R.Ctrl.VerifProject().Tunnels {
				if t.CertName == "A" {
					nA++
				}
			}
			if os.Getenv("VERIF_DEBUG") != "" {
				b, _ := json.Marshal(w.R.Ctrl.VerifProject())
				res.Extra[fmt.Sprintf("churn-debug-%d", tr)] = string(b)
			}
			if _, _, ri, _ := w.project(w.R); len(ri) > 0 && nA >= 2 {
				res.Hit("churn:relay-indexes-before-close")
			}
			if w.R.Ctrl.CloseTunnel(w.A.Vpn[0].Addr(), true) {
				w.local(w.R, "close")
				if nA >= 2 {
					res.Hit("churn:relay-closes-one-of-two")
				}
			}
		}
	}
	if tr%4 == 3 {
		// the hostile peer answers in the target's place: the relay's leg towards T is still "requested" (its request to T is
		// held back), M - authenticated, but not part of this relay - sends a CreateRelayResponse that names that leg's index
		deliverExceptRtoT := func() {
			for round := 0; round < 24; round++ {
				batch := w.inflight
				w.inflight = nil // what the deliveries provoke is collected here
				var held []*vDatagram
				for _, d := range batch {
					if d.From == w.R.UDP && d.To == w.T.UDP && d.H.Type == header.Control {
						held = append(held, d)
						continue
					}
					w.deliver(d)
				}
				w.inflight = append(held, w.inflight...)
				w.Advance(100 * time.Millisecond) // handshake attempts through a relay are made by the retry timer
				for _, nd := range w.sorted() {
					w.local(nd, "tick")
				}
			}
		}
		send(w.M, w.R.Vpn[0].Addr())
		send(w.A, w.T.Vpn[0].Addr())
		deliverExceptRtoT()
		var leg uint32
		for _, tn := range w.R.Ctrl.VerifProject().Tunnels {
			if tn.CertName == "T" {
				for _, r := range tn.RelayFor {
					if r.State == nebula.Requested {
						leg = r.LocalIndex
					}
				}
			}
		}
		if leg == 0 {
			res.Hit("hostile-response:no-requested-leg")
			if os.Getenv("VERIF_DEBUG") != "" {
				b, _ := json.Marshal(map[string]any{"R": w.R.Ctrl.VerifProject(), "A": w.A.Ctrl.VerifProject(), "inflight": len(w.inflight)})
				res.Extra[fmt.Sprintf("noleg-%d", tr)] = string(b)
			}
		}
		if leg != 0 {
			payload := nebula.VerifControlResp(w.A.Vpn[0].Addr(), w.T.Vpn[0].Addr(), leg, 777)
			if w.M.Ctrl.VerifSendOnTunnel(header.Control, 0, w.R.Vpn[0].Addr(), payload) {
				synctest.Wait()
				w.local(w.M, "hostile-send")
				res.Hit("hostile-response-for-foreign-requested-leg")
				deliverExceptRtoT()
				send(w.A, w.T.Vpn[0].Addr())
				deliverExceptRtoT()
			}
		}
	}
	reloadAt := -1
	if tr%4 == 2 {
		reloadAt = 25 + rnd.Intn(30) // the relay is reconfigured: relay.am_relay false (and back on later)
	}
	setAmRelay := func(v bool) {
		st := map[string]any{}
		for k, val := range w.R.Cfg.Settings {
			st[k] = val
		}
		st["relay"] = map[string]any{"am_relay": v}
		raw, err := yaml.Marshal(st)
		if err != nil {
			panic(err)
		}
		if err := w.R.Cfg.ReloadConfigString(string(raw)); err != nil {
			panic(err)
		}
		synctest.Wait()
		w.inflight = append(w.inflight, w.R.TakeUDP()...)
		w.lines = append(w.lines, map[string]any{"ev": "Reload", "n": "R", "am": v})
		res.Hit(fmt.Sprintf("reload:am_relay-%v", v))
	}
	for s := 0; s < steps; s++ {
		r := rnd.Intn(100)
		if s == reloadAt {
			// make sure the relay between A and T is in use, reconfigure R, then send over the relay negotiated before
			send(w.A, w.T.Vpn[0].Addr())
			for round := 0; round < 12; round++ {
				for k := 0; k < 40 && len(w.inflight) > 0; k++ {
					d := w.inflight[0]
					w.inflight = w.inflight[1:]
					w.deliver(d)
				}
				if _, ok := w.A.Ctrl.VerifProject().Hosts[w.T.Vpn[0].Addr().String()]; ok && len(w.inflight) == 0 {
					break
				}
				w.Advance(100 * time.Millisecond)
				for _, nd := range w.sorted() {
					w.local(nd, "tick")
				}
			}
			setAmRelay(false)
			send(w.A, w.T.Vpn[0].Addr())
			batch := w.inflight
			w.inflight = nil
			var rest []*vDatagram
			for _, d := range batch {
				if d.To == w.R.UDP && d.H.Type == header.Message && d.H.Subtype == header.MessageRelay {
					w.deliver(d)
					res.Hit("relayed-datagram-while-am_relay-off")
				} else {
					rest = append(rest, d)
				}
			}
			w.inflight = append(rest, w.inflight...)
			continue
		}
		if reloadAt >= 0 && s == reloadAt+40 {
			setAmRelay(true)
			continue
		}
		switch {
		case r < 45 && len(w.inflight) > 0:
			k := 0
			if rnd.Intn(3) == 0 {
				k = rnd.Intn(len(w.inflight))
			}
			d := w.inflight[k]
			w.inflight = append(w.inflight[:k], w.inflight[k+1:]...)
			w.deliver(d)
		case r < 55:
			from := []*vNode{w.A, w.M, w.T}[rnd.Intn(3)]
			to := w.T.Vpn[0].Addr()
			if from == w.T {
				to = w.A.Vpn[0].Addr()
			} else if from == w.M && rnd.Intn(2) == 0 {
				to = w.R.Vpn[0].Addr()
			}
			send(from, to)
		case r < 75:
			// the hostile peer: any control message with any addresses and indexes, to the relay or to the target
			from, to := addrs[rnd.Intn(len(addrs))], addrs[rnd.Intn(len(addrs))]
			var payload []byte
			if rnd.Intn(3) != 0 {
				payload = nebula.VerifControlMsg(from, to, knownIdx())
			} else {
				payload = nebula.VerifControlResp(from, to, knownIdx(), knownIdx())
			}
			dst := w.R.Vpn[0].Addr()
			if rnd.Intn(4) == 0 {
				dst = w.T.Vpn[0].Addr()
			}
			if w.M.Ctrl.VerifSendOnTunnel(header.Control, 0, dst, payload) {
				res.Hit("hostile-control")
				w.local(w.M, "hostile-send")
			}
		case r < 80 && len(w.Store) > 0:
			w.deliver(w.Store[rnd.Intn(len(w.Store))]) // replay / stale copy
		case r < 84:
			nd := nodes[rnd.Intn(len(nodes))]
			peer := nodes[rnd.Intn(len(nodes))]
			if nd != peer && nd.Ctrl.CloseTunnel(peer.Vpn[0].Addr(), rnd.Intn(2) == 0) {
				res.Hit("close-tunnel")
				w.local(nd, "close")
			}
		case r < 88 && len(w.inflight) > 0:
			k := rnd.Intn(len(w.inflight))
			w.inflight = append(w.inflight[:k], w.inflight[k+1:]...)
		default:
			w.Advance(100 * time.Millisecond)
			for _, nd := range w.sorted() {
				w.local(nd, "tick")
			}
		}
	}
}
