//go:build e2e_testing

package e2e

// C18 on complete nodes (spec/ConntrackNode.tla = Conntrack.tla restricted to what one node with one pair of reader
// routines can do): tracked flows expire when idle, judged where the reader routines of a real node call the firewall.
//
// World (synctest bubble, virtual time): A = node under test (nebula.Main) with the routine-local conntrack cache on
// (firewall.conntrack.routine_cache_timeout = CachePeriod units), conntrack timeouts TO units, and exactly the rules of the
// model's InitRules (one exact rule per allowed <<flow, direction>>); B = peer with allow-everything rules. The harness is
// the network. Time 0 of the model = the start of A's reader routines (their cache tickers start then); the tunnel is set
// up in zero virtual time and without a data packet reaching A's firewall.
//
// The histories are edge-covering walks of TLC's state graph (tools/props/C18.py). Step -> whole-node action:
//   PktR / PktCached (UnderlayReader, f, TRUE)  B's tun gets a packet of flow f, B's datagram is delivered to A; passed =
//                                               the packet comes out of A's tun
//   PktR / PktCached (TunReader, f, FALSE)      A's tun gets a packet of flow f; passed = A emits a data datagram (which is
//                                               delivered to B and looked for on B's tun)
//   Sleep(d)                                    the virtual clock advances d units
// Verdict rule (soundness): a mismatch only when the node lets a packet through that the reference of the model forbids
// (`may` = FALSE: no rule allows it and its flow is not established / idle longer than its timeout). A packet the node
// refuses although the model's machine passes it ends the walk (drift, counted).

import (
	"bytes"
	"fmt"
	"io"
	"log/slog"
	"net/netip"
	"runtime/debug"
	"sync"
	"testing"
	"time"

	"github.com/google/gopacket"
	"github.com/google/gopacket/layers"
	"github.com/slackhq/nebula"
	"github.com/slackhq/nebula/cert"
	"github.com/slackhq/nebula/cert_test"
	"github.com/slackhq/nebula/config"
	"github.com/slackhq/nebula/header"
	"github.com/slackhq/nebula/logging"
	"go.yaml.in/yaml/v3"
)

type c18Rule struct {
	F   int  `json:"f"`
	Inc bool `json:"inc"`
}

type c18GraphPlan struct {
	Name        string    `json:"name"`
	File        string    `json:"file"`
	Protos      []string  `json:"protos"`
	TO          [3]int    `json:"to"` // tcp, udp, other in units
	CachePeriod int       `json:"cachePeriod"`
	Rules       []c18Rule `json:"rules"`
	// per walk: the time unit and the node's log level
	Units  []string `json:"units"`
	Levels []string `json:"levels"`
}

type c18Plan struct {
	Graphs []c18GraphPlan `json:"graphs"`
}

const (
	c18UnderlayReader = 1
	c18TunReader      = 2
)

var (
	c18AddrA = netip.MustParseAddr("10.128.0.1")
	c18AddrB = netip.MustParseAddr("10.128.0.2")
	c18UdpA  = netip.MustParseAddrPort("10.0.0.1:4242")
	c18UdpB  = netip.MustParseAddrPort("10.0.0.2:4242")
)

func c18Logger(level string) *slog.Logger {
	var lv slog.Level
	switch level {
	case "info":
		lv = slog.LevelInfo
	case "debug":
		lv = slog.LevelDebug
	case "trace":
		lv = logging.LevelTrace
	default:
		return slog.New(slog.DiscardHandler)
	}
	return slog.New(slog.NewTextHandler(io.Discard, &slog.HandlerOptions{Level: lv}))
}

// c18Add builds a complete node from an explicit configuration (the repository's e2e helpers always append an
// allow-everything outbound rule) with its own logger (nebula.Main leaves the logger it is given alone).
func (n *vNet) c18Add(name, ca, crt, key string, vpn netip.Addr, udpAddr netip.AddrPort, peerVpn netip.Addr, peerUdp netip.AddrPort, fw m, level string) (*vNode, string) {
	nets := []netip.Prefix{netip.PrefixFrom(vpn, 24)}
	mc := m{
		"pki":             m{"ca": ca, "cert": crt, "key": key},
		"firewall":        fw,
		"listen":          m{"host": udpAddr.Addr().String(), "port": udpAddr.Port(), "send_recv_error": "never"},
		"static_host_map": m{peerVpn.String(): []string{peerUdp.String()}},
		"punchy":          m{"punch": false, "respond": false},
		"lighthouse":      m{"interval": 0},
		"timers":          m{"connection_alive_interval": 1800, "pending_deletion_interval": 1800},
		"handshakes":      m{"try_interval": "100ms", "retries": 20},
		"tunnels":         m{"drop_inactive": false},
		"logging":         m{"level": level},
	}
	cb, err := yaml.Marshal(mc)
	if err != nil {
		panic(err)
	}
	l := c18Logger(level)
	c := config.NewC(l)
	if err = c.LoadString(string(cb)); err != nil {
		panic(err)
	}
	ctrl, err := nebula.Main(c, false, "verif-c18", l, nil)
	if err != nil {
		panic(fmt.Sprintf("verif: node %s does not start: %v", name, err))
	}
	nd := &vNode{Name: name, Ctrl: ctrl, Vpn: nets, UDP: udpAddr, Cfg: c, stop: make(chan struct{}), kick: make(chan struct{}, 1)}
	n.Nodes[name] = nd
	n.byUDP[udpAddr] = nd
	fwb, _ := yaml.Marshal(m{"firewall": fw})
	return nd, string(fwb)
}

type c18World struct {
	*vNet
	A, B   *vNode
	g      c18GraphPlan
	unit   time.Duration
	level  string
	fwYAML string
	seq    int
	ok     bool
	t0     time.Time
}

func c18ProtoNum(name string) uint8 {
	switch name {
	case "tcp":
		return 6
	case "udp":
		return 17
	}
	panic("verif: protocol " + name + " is not used by the whole-node stage")
}

func (g c18GraphPlan) timeout(f int) int {
	if g.Protos[f-1] == "tcp" {
		return g.TO[0]
	}
	return g.TO[1]
}

func (g c18GraphPlan) allowed(f int, inc bool) bool {
	for _, r := range g.Rules {
		if r.F == f && r.Inc == inc {
			return true
		}
	}
	return false
}

// node-side and peer-side port of model flow f
func c18Ports(f int) (lport, rport uint16) { return uint16(1000 + f), uint16(2000 + f) }

// c18PKI: the certificates shared by all worlds
type c18PKI struct {
	ca          string
	certA, keyA string
	certB, keyB string
}

func c18NewPKI() *c18PKI {
	ca, _, caKey, _ := cert_test.NewTestCaCert(cert.Version2, cert.Curve_CURVE25519, time.Now().Add(-time.Hour), time.Now().Add(1000*time.Hour), nil, nil, []string{})
	caB, err := ca.MarshalPEM()
	if err != nil {
		panic(err)
	}
	p := &c18PKI{ca: string(caB)}
	mk := func(name string, vpn netip.Addr) (string, string) {
		_, _, key, pem := cert_test.NewTestCert(cert.Version2, cert.Curve_CURVE25519, ca, caKey, name,
			time.Now().Add(-time.Minute), time.Now().Add(900*time.Hour), []netip.Prefix{netip.PrefixFrom(vpn, 24)}, nil, []string{})
		return string(pem), string(key)
	}
	p.certA, p.keyA = mk("A", c18AddrA)
	p.certB, p.keyB = mk("B", c18AddrB)
	return p
}

func c18NewWorld(t *testing.T, pki *c18PKI, g c18GraphPlan, unit time.Duration, level string) *c18World {
	// (not vNewNet: no certificate authority of its own, and no shared counter between parallel worlds)
	n := &vNet{t: t, Nodes: map[string]*vNode{}, byUDP: map[netip.AddrPort]*vNode{}}
	w := &c18World{vNet: n, g: g, unit: unit, level: level}
	d := func(units int) string { return (time.Duration(units) * unit).String() }
	fwA := m{
		"conntrack": m{"tcp_timeout": d(g.TO[0]), "udp_timeout": d(g.TO[1]), "default_timeout": d(g.TO[2]),
			"routine_cache_timeout": d(g.CachePeriod)},
		"outbound": []m{}, "inbound": []m{},
	}
	// one exact rule per <<flow, direction>> the model's rules allow: an inbound rule names the node-side port, an
	// outbound rule the peer-side port (the destination port of the packet in both cases)
	for _, r := range g.Rules {
		lp, rp := c18Ports(r.F)
		if r.Inc {
			fwA["inbound"] = append(fwA["inbound"].([]m), m{"proto": g.Protos[r.F-1], "port": int(lp), "host": "any"})
		} else {
			fwA["outbound"] = append(fwA["outbound"].([]m), m{"proto": g.Protos[r.F-1], "port": int(rp), "host": "any"})
		}
	}
	anyRule := []m{{"proto": "any", "port": "any", "host": "any"}}
	w.t0 = time.Now()
	w.A, w.fwYAML = n.c18Add("A", pki.ca, pki.certA, pki.keyA, c18AddrA, c18UdpA, c18AddrB, c18UdpB, fwA, level)
	w.B, _ = n.c18Add("B", pki.ca, pki.certB, pki.keyB, c18AddrB, c18UdpB, c18AddrA, c18UdpA, m{"outbound": anyRule, "inbound": anyRule}, "error")
	n.Start()
	// the tunnel: B starts the handshake with a packet outside the model; only handshake datagrams are delivered, so no
	// data packet reaches A's firewall before the history begins
	n.TunSend(w.B, vUDPPacket(c18AddrB, c18AddrA, 9, 9, []byte("c18-setup")))
	for i := 0; i < 40 && !w.ok; i++ {
		moved := 0
		for _, nd := range []*vNode{w.A, w.B} {
			for _, dg := range nd.TakeUDP() {
				if dg.H.Type == header.Handshake {
					n.Deliver(dg)
					moved++
				}
			}
		}
		_, okA := w.A.Ctrl.VerifProject().Hosts[c18AddrB.String()]
		_, okB := w.B.Ctrl.VerifProject().Hosts[c18AddrA.String()]
		w.ok = okA && okB
		if moved == 0 && !w.ok {
			n.Advance(100 * time.Millisecond)
		}
	}
	for _, nd := range []*vNode{w.A, w.B} {
		nd.TakeUDP()
		nd.TakeTun()
	}
	// time 0 of the history lies on a tick of the routine caches (their tickers started with the reader routines)
	if rem := time.Since(w.t0) % (time.Duration(g.CachePeriod) * unit); rem != 0 {
		n.Advance(time.Duration(g.CachePeriod)*unit - rem)
	}
	return w
}

func c18Packet(proto string, from, to netip.Addr, sport, dport uint16, payload []byte) []byte {
	if proto == "udp" {
		return vUDPPacket(from, to, sport, dport, payload)
	}
	ip := &layers.IPv4{Version: 4, TTL: 64, Protocol: layers.IPProtocolTCP, SrcIP: from.AsSlice(), DstIP: to.AsSlice()}
	tcp := &layers.TCP{SrcPort: layers.TCPPort(sport), DstPort: layers.TCPPort(dport), Seq: 1000, Ack: 2000, ACK: true, PSH: true, Window: 4096}
	if err := tcp.SetNetworkLayerForChecksum(ip); err != nil {
		panic(err)
	}
	buf := gopacket.NewSerializeBuffer()
	if err := gopacket.SerializeLayers(buf, gopacket.SerializeOptions{ComputeChecksums: true, FixLengths: true}, ip, tcp, gopacket.Payload(payload)); err != nil {
		panic(err)
	}
	return buf.Bytes()
}

// packet sends one packet of flow f in the given direction through the real nodes and reports whether A let it through;
// sent=false: the peer did not even emit it (machinery, never a verdict); arrived: an outgoing packet also came out of B's tun
func (w *c18World) packet(f int, inc bool) (pass, sent, arrived bool) {
	w.seq++
	marker := []byte(fmt.Sprintf("c18-%s-%d-%v-%d;", w.g.Name, f, inc, w.seq))
	lp, rp := c18Ports(f)
	proto := w.g.Protos[f-1]
	for _, nd := range []*vNode{w.A, w.B} {
		nd.TakeUDP()
		nd.TakeTun()
	}
	has := func(pkts [][]byte) bool {
		for _, p := range pkts {
			if bytes.Contains(p, marker) {
				return true
			}
		}
		return false
	}
	if inc {
		w.TunSend(w.B, c18Packet(proto, c18AddrB, c18AddrA, rp, lp, marker))
		for _, d := range w.B.TakeUDP() {
			if d.H.Type == header.Message && d.To == w.A.UDP {
				sent = true
				w.Deliver(d)
			}
		}
		return has(w.A.TakeTun()), sent, false
	}
	w.TunSend(w.A, c18Packet(proto, c18AddrA, c18AddrB, lp, rp, marker))
	for _, d := range w.A.TakeUDP() {
		if d.H.Type == header.Message && d.H.Subtype == header.MessageNone {
			pass = true
			w.Deliver(d)
		}
	}
	return pass, true, pass && has(w.B.TakeTun())
}

// expires: the conntrack table entry of flow f at A
func (w *c18World) expires(f int) (time.Time, bool) {
	lp, rp := c18Ports(f)
	e, ok, _ := w.A.Ctrl.VerifC18Conn(c18AddrA, c18AddrB, lp, rp, c18ProtoNum(w.g.Protos[f-1]))
	return e, ok
}

func c18Dir(inc bool) string {
	if inc {
		return "in:underlay-reader"
	}
	return "out:tun-reader"
}

func c18Unit(s string) time.Duration {
	d, err := time.ParseDuration(s)
	if err != nil {
		panic(err)
	}
	return d
}

type c18Model struct {
	res, may bool
	why      string
}

// c18Run: what the parallel shards of the replay share
type c18Run struct {
	res *vResult
	pki *c18PKI
	mu  sync.Mutex // res.Extra, res.Traces
}

func (r *c18Run) extra(k string, v any) {
	r.mu.Lock()
	r.res.Extra[k] = v
	r.mu.Unlock()
}

// walk replays one walk of the state graph on a fresh pair of nodes
func (r *c18Run) walk(t *testing.T, g c18GraphPlan, gr *vGraph, ms []c18Model, wi int) {
	res := r.res
	walk := gr.Tours[wi]
	unit, level := c18Unit(g.Units[wi%len(g.Units)]), g.Levels[wi%len(g.Levels)]
	var mism []vMismatch
	panicked := vBubble(t, func(t *testing.T) {
		w := c18NewWorld(t, r.pki, g, unit, level)
		defer w.Stop()
		if !w.ok {
			res.Hit("e2e:no-tunnel")
			return
		}
		res.Hit("e2e:walk")
		res.Hit("e2e:unit:" + unit.String())
		res.Hit("e2e:log:" + level)
		nf := len(g.Protos)
		now := 0                                  // units since the start of the history
		lastPass := make([]int, nf+1)             // when a packet of the flow last passed
		ended := make([]bool, nf+1)               // a packet of the flow was refused since one last passed
		ever := make([]bool, nf+1)                // a packet of the flow passed at some time
		readerLast := map[int]int{1: -1, 2: -1}   // when the reader routine last handled a packet
		cachedSince := make([]map[int]bool, nf+1) // the flow was admitted from this reader's cache since it was last decided by conntrack
		var hist []string                         // readable history
		for f := range cachedSince {
			cachedSince[f] = map[int]bool{}
		}
		for si, ei := range walk {
			e := gr.Edges[ei]
			res.Hit(e.Act)
			res.Case(fmt.Sprintf("e2e/%s/%s/%s/%d", g.Name, unit, level, ei))
			if e.Act == "Sleep" {
				d := vInt(e.Args[0])
				w.Advance(time.Duration(d) * unit)
				now += d
				hist = append(hist, fmt.Sprintf("t=%d: %d units pass", now, d))
				continue
			}
			if e.Act != "PktR" && e.Act != "PktCached" {
				t.Fatalf("verif: action %s is not part of ConntrackNode.tla", e.Act)
			}
			q, f, inc := vInt(e.Args[0]), vInt(e.Args[1]), vBool(e.Args[2])
			if (q == c18UnderlayReader) != inc {
				t.Fatalf("verif: edge %v: a node's reader routine is fixed by the direction of the packet", e)
			}
			want := ms[e.Dst]
			exp0, had0 := w.expires(f)
			pass, sent, arrived := w.packet(f, inc)
			exp1, had1 := w.expires(f)
			if !sent {
				res.Hit("e2e:peer-did-not-send")
				return
			}
			res.Hit("e2e:" + c18Dir(inc))
			byRule := g.allowed(f, inc)
			verdict := "refused"
			if pass {
				verdict = "passed"
			}
			hist = append(hist, fmt.Sprintf("t=%d: flow %d %s %s (model: %s, statement permits: %v)", now, f, c18Dir(inc), verdict, e.Act, want.may))
			quietReader := readerLast[q] <= lastPass[f] // the reader handled nothing after the instant at which the flow's packet last passed
			if pass && !want.may {
				proto := g.Protos[f-1]
				idle := now - lastPass[f]
				var key, what string
				tuple := fmt.Sprintf("%s %s:%d<->%s:%d", proto, c18AddrA, 1000+f, c18AddrB, 2000+f)
				switch {
				// (which part of the statement forbids it is taken from the history itself: the model's `why` is that of one
				// representative of the state under TLC's VIEW, which does not tell an ended flow from an idle one)
				case ever[f] && !ended[f]:
					key = fmt.Sprintf("e2e:expired-flow-honoured:%s:%s", proto, c18Dir(inc))
					what = fmt.Sprintf("node A let a packet of flow %s through (%s) although no rule allows it and its flow had been idle for %d units, longer than the %s timeout (%d units)",
						tuple, c18Dir(inc), idle, proto, g.timeout(f))
					if quietReader {
						key += ":after-quiet-period"
						what += fmt.Sprintf("; it was the first packet that reader routine handled after a quiet period (it had handled nothing since t=%d, now t=%d)", readerLast[q], now)
					} else {
						key += ":reader-busy"
					}
					if cachedSince[f][q] {
						key += ":was-cached"
						what += "; when the flow's packet last passed there it was admitted from, or put into, that routine's conntrack cache"
					}
				case ever[f]:
					key = fmt.Sprintf("e2e:ended-flow-honoured:%s:%s", proto, c18Dir(inc))
					what = fmt.Sprintf("node A let a packet of flow %s through (%s) although no rule allows it and its flow had ended (a packet of it was refused since it last passed)", tuple, c18Dir(inc))
				default:
					key = fmt.Sprintf("e2e:untracked-tuple-honoured:%s", c18Dir(inc))
					what = fmt.Sprintf("node A let a packet of flow %s through (%s) although no rule allows it and no packet of this tuple ever passed", tuple, c18Dir(inc))
				}
				what += fmt.Sprintf(" [routine cache period %d units, unit %s, log level %s]", g.CachePeriod, unit, level)
				from := max(0, len(hist)-30)
				mism = append(mism, vMismatch{key, what, map[string]any{"graph": g.Name, "walk": wi, "step": si, "unit": unit.String(), "log_level": level,
					"timeouts_units_tcp_udp_other": g.TO, "routine_cache_period_units": g.CachePeriod, "model_why": want.why,
					"node_A_firewall": w.fwYAML, "history_tail": hist[from:], "walk_edges": walk[:si+1], "arrived_at_peer": arrived}})
				return
			}
			// what was reached (vacuity guards)
			switch {
			case pass && !byRule:
				res.Hit("e2e:reply-passed-while-alive")
				if arrived {
					res.Hit("e2e:reply-arrived-at-peer")
				}
				if e.Act == "PktCached" {
					res.Hit("e2e:cache-hit") // the model: admitted from the routine's cache
				}
				// observed on the node: the packet passed, yet the table entry was not refreshed although a look at the
				// table would have moved its expiry: the verdict came from the reader routine's cache
				if had0 && had1 && exp1.Equal(exp0) && !exp0.Equal(time.Now().Add(time.Duration(g.timeout(f))*unit)) {
					res.Hit("e2e:cache-hit-observed")
					if e.Act != "PktCached" {
						res.Hit("e2e:cache-hit-unexpected")
					}
				} else if e.Act == "PktCached" && !exp0.Equal(time.Now().Add(time.Duration(g.timeout(f))*unit)) {
					res.Hit("e2e:cache-hit-not-observed")
				}
			case pass && byRule:
				res.Hit("e2e:allowed-by-rule-passed")
			case !pass && !want.may && ever[f] && !ended[f]:
				res.Hit("e2e:reply-refused-after-idle")
				if quietReader {
					res.Hit("e2e:first-packet-of-reader-after-quiet-period-refused")
					if cachedSince[f][q] {
						res.Hit("e2e:cached-flow-refused-after-quiet-period")
					}
				}
			case !pass && !want.may:
				res.Hit("e2e:untracked-refused")
			case !pass:
				res.Hit("e2e:permitted-but-refused") // idle = timeout and the like: not required to pass
			}
			if pass != want.res {
				// the node refuses what the model's machine passes (or passes, permitted, what it refuses): the rest of the
				// walk is not a history of this node
				res.Hit("e2e:left-walk")
				r.extra(fmt.Sprintf("e2e:left-walk:%s:%d", g.Name, wi), hist[max(0, len(hist)-12):])
				return
			}
			readerLast[q] = now
			if pass {
				lastPass[f], ever[f], ended[f] = now, true, false
				// admitted from the reader's cache, or found alive in the table (which puts it into the reader's cache)
				cachedSince[f][q] = e.Act == "PktCached" || (had0 && exp0.After(time.Now()))
			} else {
				ended[f] = true
				cachedSince[f] = map[int]bool{}
			}
		}
		res.Hit("e2e:walk-completed")
	})
	if panicked != nil {
		res.Hit("e2e:bubble-panic")
		r.extra("e2e:bubble-panic", fmt.Sprint(panicked))
	}
	for _, mm := range mism {
		res.Mismatch(mm.Key, mm.What, mm.Detail)
	}
	r.mu.Lock()
	res.Traces++
	r.mu.Unlock()
	if wi == 0 {
		res.Sample(map[string]any{"e2e_graph": g.Name, "walk_steps": len(walk), "unit": unit.String(), "log_level": level})
	}
}

func TestVerif_C18E2E(t *testing.T) {
	res := vNewResult()
	defer res.Write(t)
	var plan c18Plan
	vReadJSON(t, "c18_e2e_plan.json", &plan)
	// thousands of short-lived nodes, each with megabytes of send arenas: collect less often
	defer debug.SetGCPercent(debug.SetGCPercent(400))
	r := &c18Run{res: res}
	// one certificate authority and one certificate per node for all worlds (every bubble starts at the same virtual instant)
	vBubble(t, func(t *testing.T) { r.pki = c18NewPKI() })
	if r.pki == nil {
		t.Fatalf("verif: no certificates")
	}
	graphs := make([]*vGraph, len(plan.Graphs))
	models := make([][]c18Model, len(plan.Graphs))
	for gi, g := range plan.Graphs {
		gr := &vGraph{}
		vReadJSON(t, g.File, gr)
		ms := make([]c18Model, len(gr.States))
		for i, s := range gr.States {
			ms[i] = c18Model{vBool(s["res"]), vBool(s["may"]), vStr(s["why"])}
		}
		// the harness' reading of the generated rules against the node: on fresh nodes, the first packet of every flow in
		// either direction passes exactly if the model's rules allow it (else the graph is not usable; machinery, not a verdict)
		usable := true
		for f := 1; f <= len(g.Protos) && usable; f++ {
			for _, inc := range []bool{true, false} {
				vBubble(t, func(t *testing.T) {
					w := c18NewWorld(t, r.pki, g, time.Second, "info")
					defer w.Stop()
					if !w.ok {
						res.Hit("e2e:no-tunnel")
						usable = false
						return
					}
					ct, routines := w.A.Ctrl.VerifC18CacheTimeout()
					if ct != time.Duration(g.CachePeriod)*time.Second || routines != 1 {
						res.Hit("e2e:routine-cache-not-configured")
						r.extra("e2e:routine-cache", fmt.Sprintf("period %s routines %d", ct, routines))
						usable = false
						return
					}
					res.Hit("e2e:routine-cache-enabled")
					pass, sent, _ := w.packet(f, inc)
					if !sent || pass != g.allowed(f, inc) {
						res.Hit("e2e:rule-reading-differs")
						r.extra("e2e:rule-reading:"+g.Name, fmt.Sprintf("flow %d incoming=%v: sent=%v passed=%v, model rules say %v\n%s", f, inc, sent, pass, g.allowed(f, inc), w.fwYAML))
						usable = false
					}
				})
			}
		}
		if !usable {
			continue
		}
		res.Hit("e2e:graph:" + g.Name)
		graphs[gi], models[gi] = gr, ms
	}
	// the walks are independent (a fresh pair of nodes in an own bubble each): replay them in parallel shards
	const shards = 4
	t.Run("walks", func(t *testing.T) {
		for gi, g := range plan.Graphs {
			if graphs[gi] == nil {
				continue
			}
			for k := 0; k < shards; k++ {
				t.Run(fmt.Sprintf("%s-%d", g.Name, k), func(t *testing.T) {
					t.Parallel()
					for wi := k; wi < len(graphs[gi].Tours); wi += shards {
						r.walk(t, g, graphs[gi], models[gi], wi)
					}
				})
			}
		}
	})
}
