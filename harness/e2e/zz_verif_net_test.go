//go:build e2e_testing

package e2e

// Whole-node harness shared by the system-level checks: complete nebula nodes (nebula.Main) inside a
// testing/synctest bubble. The harness IS the network: it owns every datagram a node emits and
// decides what is delivered, dropped, duplicated, reordered, mutated or replayed. Time is virtual.
// One stimulus is applied per step and synctest.Wait() gives the quiescent state after it.

import (
	"fmt"
	"net/netip"
	"os"
	"sync"
	"testing"
	"testing/synctest"
	"time"

	"github.com/slackhq/nebula"
	"github.com/slackhq/nebula/cert"
	"github.com/slackhq/nebula/cert_test"
	"github.com/slackhq/nebula/config"
	"github.com/slackhq/nebula/header"
	"github.com/slackhq/nebula/udp"
)

type vDatagram struct {
	ID   int
	From netip.AddrPort
	To   netip.AddrPort
	Data []byte
	H    header.H
	Node string // emitting node
}

type vNode struct {
	Name   string
	Ctrl   *nebula.Control
	Vpn    []netip.Prefix
	UDP    netip.AddrPort
	Cfg    *config.C
	mu     sync.Mutex
	udpOut []*vDatagram
	tunOut [][]byte
	stop   chan struct{}
	held   bool          // the drainer leaves the node's udp transmit queue alone: a sender blocks once it is full
	kick   chan struct{} // wakes the drainer after held changed
}

// vNetFlip alternates debug logging between the worlds a test creates: behaviour must not depend on the log level
var vNetFlip int

type vNet struct {
	Debug bool // nodes of this world log at debug level (into /dev/null)
	t     testing.TB
	Nodes map[string]*vNode
	byUDP map[netip.AddrPort]*vNode
	Store []*vDatagram // every datagram ever emitted, in emission order per node
	mu    sync.Mutex
	CA    cert.Certificate
	CAKey []byte
}

func vNewNet(t testing.TB) *vNet {
	ca, _, caKey, _ := cert_test.NewTestCaCert(cert.Version2, cert.Curve_CURVE25519, time.Now().Add(-time.Hour), time.Now().Add(1000*time.Hour), nil, nil, []string{})
	vNetFlip++
	return &vNet{t: t, Nodes: map[string]*vNode{}, byUDP: map[netip.AddrPort]*vNode{}, CA: ca, CAKey: caKey, Debug: vNetFlip%2 == 0}
}

// AddNode builds and starts a node. overrides are merged over the e2e default config.
func (n *vNet) AddNode(v cert.Version, name, networks string, overrides m) *vNode {
	base := m{
		"punchy":     m{"punch": false, "respond": false},
		"lighthouse": m{"interval": 0},
		"logging":    m{"level": "error"},
	}
	for k, val := range overrides {
		base[k] = val
	}
	restore := n.logSetup()
	ctrl, vpn, udpAddr, cfg := newSimpleServer(v, n.CA, n.CAKey, name, networks, base)
	restore()
	nd := &vNode{Name: name, Ctrl: ctrl, Vpn: vpn, UDP: udpAddr, Cfg: cfg, stop: make(chan struct{}), kick: make(chan struct{}, 1)}
	n.Nodes[name] = nd
	n.byUDP[udpAddr] = nd
	return nd
}

// logSetup makes the repository's e2e helper (NewTestLogger: level from TEST_LOGS, output to os.Stderr at the time of the
// call) build a debug-level logger that writes to /dev/null when this world runs at debug level.
func (n *vNet) logSetup() func() {
	if !n.Debug {
		return func() {}
	}
	oldEnv, had := os.LookupEnv("TEST_LOGS")
	oldErr := os.Stderr
	if f, err := os.OpenFile(os.DevNull, os.O_WRONLY, 0); err == nil {
		os.Stderr = f
	}
	os.Setenv("TEST_LOGS", "2")
	return func() {
		os.Stderr = oldErr
		if had {
			os.Setenv("TEST_LOGS", oldEnv)
		} else {
			os.Unsetenv("TEST_LOGS")
		}
	}
}

func (n *vNet) Start() {
	for _, nd := range n.sorted() {
		nd.Ctrl.Start()
		n.drain(nd)
	}
	synctest.Wait()
}

// drain starts the goroutine that moves what the node emits (udp, tun) into harness queues.
func (n *vNet) drain(nd *vNode) {
	udpc, tunc := nd.Ctrl.GetUDPTxChan(), nd.Ctrl.GetTunTxChan()
	go func() {
		for {
			uc := udpc
			nd.mu.Lock()
			if nd.held {
				uc = nil
			}
			nd.mu.Unlock()
			select {
			case <-nd.stop:
				return
			case <-nd.kick:
				continue
			case p, ok := <-uc:
				if !ok || p == nil {
					udpc = nil
					continue
				}
				d := &vDatagram{From: p.From, To: p.To, Data: append([]byte(nil), p.Data...), Node: nd.Name}
				_ = d.H.Parse(d.Data)
				p.Release()
				n.mu.Lock()
				d.ID = len(n.Store)
				n.Store = append(n.Store, d)
				n.mu.Unlock()
				nd.mu.Lock()
				nd.udpOut = append(nd.udpOut, d)
				nd.mu.Unlock()
			case b, ok := <-tunc:
				if !ok {
					tunc = nil
					continue
				}
				nd.mu.Lock()
				nd.tunOut = append(nd.tunOut, append([]byte(nil), b...))
				nd.mu.Unlock()
			}
		}
	}()
}

// PumpOnce delivers everything currently in flight once (what that provokes stays in flight).
func (n *vNet) PumpOnce() int {
	moved := 0
	var batch []*vDatagram
	for _, nd := range n.sorted() {
		batch = append(batch, nd.TakeUDP()...)
	}
	for _, d := range batch {
		if n.Deliver(d) {
			moved++
		}
	}
	return moved
}

// Stop stops all nodes and the drainers; must be called before the bubble is left.
func (n *vNet) Stop() {
	for _, nd := range n.sorted() {
		nd.Ctrl.Stop()
	}
	synctest.Wait()
	for _, nd := range n.sorted() {
		close(nd.stop)
	}
	synctest.Wait()
}

// Hold stops the harness from taking datagrams out of the node's transmit queue (10 slots in the tester socket), so that
// a goroutine of the node that sends more than that parks in the middle of what it is doing; Release lets everything go.
// Between the two the harness can hand the node other stimuli: the node's own goroutines really interleave.
func (nd *vNode) Hold() {
	if nd.kick == nil {
		panic("verif: vNode without kick channel")
	}
	nd.mu.Lock()
	nd.held = true
	nd.mu.Unlock()
	select {
	case nd.kick <- struct{}{}:
	default:
	}
	synctest.Wait()
}

// ReleaseNoWait lets the drainer go again without waiting for quiescence: what was parked continues only when the caller
// next blocks or waits (used to stop a node whose goroutines are still parked behind a full transmit queue).
func (nd *vNode) ReleaseNoWait() {
	nd.mu.Lock()
	nd.held = false
	nd.mu.Unlock()
	select {
	case nd.kick <- struct{}{}:
	default:
	}
}

func (nd *vNode) Release() {
	if nd.kick == nil {
		panic("verif: vNode without kick channel")
	}
	nd.mu.Lock()
	nd.held = false
	nd.mu.Unlock()
	select {
	case nd.kick <- struct{}{}:
	default:
	}
	synctest.Wait()
}

// TakeUDP returns and clears what the node emitted since the last call.
func (nd *vNode) TakeUDP() []*vDatagram {
	nd.mu.Lock()
	defer nd.mu.Unlock()
	out := nd.udpOut
	nd.udpOut = nil
	return out
}

func (nd *vNode) TakeTun() [][]byte {
	nd.mu.Lock()
	defer nd.mu.Unlock()
	out := nd.tunOut
	nd.tunOut = nil
	return out
}

// Deliver hands a datagram to the node listening on d.To (if any) and waits for quiescence.
func (n *vNet) Deliver(d *vDatagram) bool {
	return n.DeliverTo(d, d.To, d.From)
}

func (n *vNet) DeliverTo(d *vDatagram, to, from netip.AddrPort) bool {
	nd := n.byUDP[to]
	if nd == nil {
		return false
	}
	if n.Debug && len(d.Data) < header.Len {
		// the repository's tester socket parses every injected datagram when debug logging is on and panics on one
		// shorter than a header (punch datagrams); the node itself ignores such datagrams
		synctest.Wait()
		return true
	}
	p := &udp.Packet{To: to, From: from, Data: append([]byte(nil), d.Data...)}
	nd.Ctrl.InjectUDPPacket(p)
	synctest.Wait()
	return true
}

// TunSend injects an IP packet on the node's tun and waits for quiescence.
func (n *vNet) TunSend(nd *vNode, pkt []byte) {
	nd.Ctrl.InjectTunPacket(pkt)
	synctest.Wait()
}

// Advance moves the virtual clock and waits for quiescence.
func (n *vNet) Advance(d time.Duration) {
	time.Sleep(d)
	synctest.Wait()
}

// Pump delivers everything in flight, in emission order, until nothing is emitted any more (or max rounds).
func (n *vNet) Pump(max int) int {
	total := 0
	for r := 0; r < max; r++ {
		moved := 0
		for _, nd := range n.sorted() {
			for _, d := range nd.TakeUDP() {
				if n.Deliver(d) {
					moved++
				}
			}
		}
		total += moved
		if moved == 0 {
			break
		}
	}
	return total
}

func (n *vNet) sorted() []*vNode {
	names := make([]string, 0, len(n.Nodes))
	for k := range n.Nodes {
		names = append(names, k)
	}
	sortStrings(names)
	out := make([]*vNode, len(names))
	for i, k := range names {
		out[i] = n.Nodes[k]
	}
	return out
}

func sortStrings(s []string) {
	for i := 1; i < len(s); i++ {
		for j := i; j > 0 && s[j] < s[j-1]; j-- {
			s[j], s[j-1] = s[j-1], s[j]
		}
	}
}

// vUDPPacket builds an IPv4/UDP overlay packet.
func vUDPPacket(from, to netip.Addr, sport, dport uint16, payload []byte) []byte {
	return BuildTunUDPPacket(to, dport, from, sport, payload)
}

func vDesc(d *vDatagram) string {
	return fmt.Sprintf("#%d %s %s->%s %s/%s idx=%d ctr=%d len=%d", d.ID, d.Node, d.From, d.To, d.H.TypeName(), d.H.SubTypeName(), d.H.RemoteIndex, d.H.MessageCounter, len(d.Data))
}

// vBubble runs f in a synctest bubble. Leaving a bubble in which goroutines are still blocked makes
// synctest panic in the calling goroutine; a harness that has already recorded those goroutines as a
// finding recovers here so that the remaining cases still run. Returns the recovered panic value.
func vBubble(t *testing.T, f func(t *testing.T)) (panicked any) {
	defer func() { panicked = recover() }()
	synctest.Test(t, f)
	return nil
}

func vEnv(k string) string { return os.Getenv(k) }
