//go:build e2e_testing

package e2e

// Trace recorder for spec/HsManager.tla (C09, C10, C31, C32): four complete nodes in a synctest
// bubble, a seeded adversarial network driver, one trace line per stimulus handled to quiescence.
//
//   A  10.128.0.1 (a1), 10.129.0.1 (a2)   honest
//   B  10.128.0.2 (b1), 10.129.0.2 (b2)   honest, two certified addresses
//   M  10.128.0.3 (m1)                    honest identity that A's static host map wrongly lists for b1
//   X  10.128.0.2 (b1)                    certificate for b1 issued by a CA nobody else trusts

import (
	"encoding/json"
	"fmt"
	"math/rand"
	"net/netip"
	"os"
	"path/filepath"
	"sort"
	"strings"
	"testing"
	"testing/synctest"
	"time"

	"github.com/slackhq/nebula"
	"github.com/slackhq/nebula/cert"
	"github.com/slackhq/nebula/cert_test"
	"github.com/slackhq/nebula/header"
	"go.yaml.in/yaml/v3"
)

const hsTick = 100 * time.Millisecond

type hsWorld struct {
	*vNet
	t0       time.Time
	idxName  map[uint32]int
	msgName  map[string]int // content name -> message id (order of first emission)
	addrName map[netip.Addr]string
	udpName  map[netip.AddrPort]string
	inflight []*vDatagram
	byMid    map[int]*vDatagram // a representative datagram per message id
	lines    []map[string]any
	retries  int
	sendNo   int
	gates    map[string]*vLogGateState // per node: parks a goroutine of the node at one of its log calls
}

func hsUDP(last byte) netip.AddrPort {
	return netip.AddrPortFrom(netip.AddrFrom4([4]byte{10, 0, 0, last}), 4242)
}

func hsNewWorld(t testing.TB, retries int) *hsWorld {
	w := &hsWorld{vNet: vNewNet(t), idxName: map[uint32]int{}, msgName: map[string]int{}, byMid: map[int]*vDatagram{}, retries: retries,
		addrName: map[netip.Addr]string{}, udpName: map[netip.AddrPort]string{}}
	for k, v := range map[string]string{"10.128.0.1": "a1", "10.129.0.1": "a2", "10.128.0.2": "b1", "10.129.0.2": "b2", "10.128.0.3": "m1",
		"10.128.0.5": "p1", "fd00::5": "p2", "10.128.0.6": "s1"} {
		w.addrName[netip.MustParseAddr(k)] = v
	}
	shm := func(mm map[string][]string) m {
		out := m{}
		for k, v := range mm {
			out[k] = v
		}
		return out
	}
	common := func(static m) m {
		return m{
			"static_host_map": static,
			"handshakes":      m{"try_interval": "100ms", "retries": retries},
			"timers":          m{"connection_alive_interval": 3600, "pending_deletion_interval": 3600},
			"listen":          m{"send_recv_error": "never"},
			"tunnels":         m{"drop_inactive": false},
		}
	}
	ua, ub, um, ux := hsUDP(1).String(), hsUDP(2).String(), hsUDP(3).String(), hsUDP(9).String()
	up, us := hsUDP(5).String(), hsUDP(6).String()
	_ = ux
	add := func(name, nets string, udp netip.AddrPort, ca cert.Certificate, caKey []byte, static m) {
		base := common(static)
		base["punchy"] = m{"punch": false, "respond": false}
		base["lighthouse"] = m{"interval": 0}
		base["logging"] = m{"level": "error"}
		restore := w.logSetup()
		ctrl, vpn, udpAddr, cfg := newSimpleServerWithUdp(cert.Version2, ca, caKey, name, nets, udp, base)
		restore()
		nd := &vNode{Name: name, Ctrl: ctrl, Vpn: vpn, UDP: udpAddr, Cfg: cfg, stop: make(chan struct{}), kick: make(chan struct{}, 1)}
		w.Nodes[name] = nd
		w.byUDP[udpAddr] = nd
		w.udpName[udpAddr] = name
	}
	add("A", "10.128.0.1/24, 10.129.0.1/24", hsUDP(1), w.CA, w.CAKey, shm(map[string][]string{"10.128.0.2": {ub, um}, "10.129.0.2": {ub}, "10.128.0.3": {um}}))
	add("B", "10.128.0.2/24, 10.129.0.2/24", hsUDP(2), w.CA, w.CAKey, shm(map[string][]string{"10.128.0.1": {ua}, "10.129.0.1": {ua}, "10.128.0.3": {um}, "10.128.0.5": {up}}))
	add("M", "10.128.0.3/24", hsUDP(3), w.CA, w.CAKey, shm(map[string][]string{"10.128.0.1": {ua}, "10.129.0.1": {ua}, "10.128.0.2": {ub}, "10.129.0.2": {ub}}))
	ca2, _, caKey2, _ := cert_test.NewTestCaCert(cert.Version2, cert.Curve_CURVE25519, time.Now().Add(-time.Hour), time.Now().Add(1000*time.Hour), nil, nil, []string{})
	add("X", "10.128.0.2/24", hsUDP(9), ca2, caKey2, shm(map[string][]string{"10.128.0.1": {ua}, "10.129.0.1": {ua}}))
	// S: certified for s1 and for fd00::5, which is one of P's own addresses
	add("S", "10.128.0.6/24, fd00::5/64", hsUDP(6), w.CA, w.CAKey, shm(map[string][]string{"10.128.0.5": {up}}))
	// P: a v1 certificate (10.128.0.5) it initiates with and a v2 certificate (10.128.0.5, fd00::5) under the same key
	{
		nb, na := time.Now().Add(-time.Hour), time.Now().Add(500*time.Hour)
		p1 := netip.MustParsePrefix("10.128.0.5/24")
		c1, _, keyPEM, _ := cert_test.NewTestCert(cert.Version1, cert.Curve_CURVE25519, w.CA, w.CAKey, "P", nb, na, []netip.Prefix{p1}, nil, []string{})
		tbs := &cert.TBSCertificate{Version: cert.Version2, Curve: c1.Curve(), Name: "P", Networks: []netip.Prefix{p1, netip.MustParsePrefix("fd00::5/64")},
			NotBefore: time.Unix(nb.Unix(), 0), NotAfter: time.Unix(na.Unix(), 0), PublicKey: c1.PublicKey()}
		c2, err := tbs.Sign(w.CA, w.CA.Curve(), w.CAKey)
		if err != nil {
			t.Fatalf("verif: sign P v2: %v", err)
		}
		base := common(shm(map[string][]string{"10.128.0.6": {us}, "10.128.0.2": {ub}}))
		base["punchy"] = m{"punch": false, "respond": false}
		base["lighthouse"] = m{"interval": 0}
		base["logging"] = m{"level": "error"}
		base["pki"] = m{"initiating_version": 1}
		base["listen"] = m{"send_recv_error": "never", "host": hsUDP(5).Addr().String(), "port": 4242}
		restore := w.logSetup()
		ctrl, vpn, _, cfg := newServer([]cert.Certificate{w.CA}, []cert.Certificate{c1, c2}, keyPEM, base)
		restore()
		nd := &vNode{Name: "P", Ctrl: ctrl, Vpn: vpn, UDP: hsUDP(5), Cfg: cfg, stop: make(chan struct{}), kick: make(chan struct{}, 1)}
		w.Nodes["P"], w.byUDP[nd.UDP], w.udpName[nd.UDP] = nd, nd, "P"
	}
	// outbound firewall: only destination port 5000 is allowed (the e2e default rule allows everything and the
	// helper appends to it, so the rule set is replaced through a config reload before the nodes start)
	for _, nd := range w.sorted() {
		st := map[string]any{}
		for k, v := range nd.Cfg.Settings {
			st[k] = v
		}
		st["firewall"] = map[string]any{
			"outbound": []any{map[string]any{"proto": "any", "port": 5000, "host": "any"}},
			"inbound":  []any{map[string]any{"proto": "any", "port": "any", "host": "any"}},
		}
		raw, err := yaml.Marshal(st)
		if err != nil {
			t.Fatalf("verif: yaml: %v", err)
		}
		if err := nd.Cfg.ReloadConfigString(string(raw)); err != nil {
			t.Fatalf("verif: reload: %v", err)
		}
	}
	w.gates = map[string]*vLogGateState{}
	for _, nd := range w.sorted() {
		w.gates[nd.Name] = nd.InstallLogGate()
	}
	return w
}

func (w *hsWorld) idx(i uint32) int {
	if i == 0 {
		return 0
	}
	if n, ok := w.idxName[i]; ok {
		return n
	}
	n := len(w.idxName) + 1
	w.idxName[i] = n
	return n
}

func hsContentName(d *vDatagram) string {
	if d.H.Type == header.Handshake && len(d.Data) > header.Len {
		return "hs:" + nebula.VerifMsgName(d.Data[header.Len:])
	}
	return "raw:" + nebula.VerifMsgName(d.Data)
}

func (w *hsWorld) mid(d *vDatagram) int {
	k := hsContentName(d)
	if n, ok := w.msgName[k]; ok {
		return n
	}
	n := len(w.msgName) + 1
	w.msgName[k] = n
	w.byMid[n] = d
	return n
}

func (w *hsWorld) midByHsName(name string) int {
	if name == "" {
		return 0
	}
	if n, ok := w.msgName["hs:"+name]; ok {
		return n
	}
	return -1 // a handshake message the network never carried
}

func (w *hsWorld) tick(ns uint64) int {
	return int((int64(ns) - w.t0.UnixNano()) / int64(hsTick))
}

// post builds the projection of node nd plus its emissions since the last call.
func (w *hsWorld) post(nd *vNode, ev map[string]any) []*vDatagram {
	emitted := nd.TakeUDP()
	outl := []map[string]any{}
	for _, d := range emitted {
		to := w.udpName[d.To]
		if to == "" {
			to = "?" + d.To.String()
		}
		outl = append(outl, map[string]any{"id": w.mid(d), "to": to})
		// naming indexes in order of first sight on the wire keeps names stable across runs
		w.idx(d.H.RemoteIndex)
	}
	st := nd.Ctrl.VerifProject()
	hosts := []map[string]any{}
	for a, l := range st.Hosts {
		names := []int{}
		for _, i := range l {
			names = append(names, w.idx(i))
		}
		hosts = append(hosts, map[string]any{"a": w.addrName[netip.MustParseAddr(a)], "l": names})
	}
	sort.Slice(hosts, func(i, j int) bool { return hosts[i]["a"].(string) < hosts[j]["a"].(string) })
	tuns := []map[string]any{}
	lidxs := make([]uint32, 0, len(st.Tunnels))
	for i := range st.Tunnels {
		lidxs = append(lidxs, i)
	}
	sort.Slice(lidxs, func(i, j int) bool { return w.idx(lidxs[i]) < w.idx(lidxs[j]) })
	for _, i := range lidxs {
		t := st.Tunnels[i]
		addrs := []string{}
		for _, a := range t.VpnAddrs {
			addrs = append(addrs, w.addrName[a])
		}
		remote := ""
		if t.Remote != "" {
			remote = w.udpName[netip.MustParseAddrPort(t.Remote)]
		}
		tuns = append(tuns, map[string]any{"lidx": w.idx(i), "ridx": w.idx(t.RemoteIndex), "addrs": addrs, "peer": t.CertName, "init": t.Initiator,
			"hsTime": w.tick(t.HsTime), "hs1": w.midByHsName(t.Hs1), "hs2": w.midByHsName(t.Hs2), "remote": remote})
	}
	pend := []map[string]any{}
	for _, p := range st.Pending {
		pend = append(pend, map[string]any{"a": w.addrName[netip.MustParseAddr(p.VpnAddr)], "ready": p.Ready, "idx": w.idx(p.LocalIndex),
			"tries": int(p.Counter), "queued": p.Queued, "hs1": w.midByHsName(p.Hs1)})
	}
	ev["hosts"], ev["tuns"], ev["pend"], ev["out"] = hosts, tuns, pend, outl
	ev["tunout"] = len(nd.TakeTun())
	w.inflight = append(w.inflight, emitted...)
	return emitted
}

func (w *hsWorld) log(ev map[string]any) { w.lines = append(w.lines, ev) }

func (w *hsWorld) others(except *vNode) string {
	for _, nd := range w.sorted() {
		if nd == except {
			continue
		}
		if x := nd.TakeUDP(); len(x) > 0 {
			return fmt.Sprintf("node %s emitted %d datagrams while only %v was stimulated: %s", nd.Name, len(x), except, vDesc(x[0]))
		}
	}
	return ""
}

// tunSend injects an inside packet; every fifth one goes to a port the outbound firewall does not allow
func (w *hsWorld) tunSend(nd *vNode, to netip.Addr, tag string) {
	src := nd.Vpn[0].Addr()
	for _, p := range nd.Vpn {
		if p.Contains(to) {
			src = p.Addr()
		}
	}
	w.sendNo++
	ok := w.sendNo%5 != 3
	port := uint16(5000)
	if !ok {
		port = 6000
	}
	w.TunSend(nd, vUDPPacket(src, to, 4000, port, []byte(tag)))
	ev := map[string]any{"ev": "TunSend", "n": nd.Name, "a": w.addrName[to], "ok": ok}
	w.post(nd, ev)
	w.log(ev)
}

func (w *hsWorld) deliver(d *vDatagram, to *vNode, via netip.AddrPort) {
	w.DeliverTo(d, to.UDP, via)
	ev := map[string]any{"ev": "Deliver", "n": to.Name, "id": w.mid(d), "via": w.udpName[via], "kind": d.H.TypeName()}
	w.post(to, ev)
	w.log(ev)
}

// deliverLate: the datagram is delivered while the node's transmit queue is held, so that the goroutine handling it parks
// as soon as it has sent more than the queue takes (releasing queued packets); `late` more inside packets for `to` are then
// handed to the node's tun -- its inside reader really runs in the middle of continueHandshake -- and everything is let go.
// Logged as one Deliver step that carries the late packets' firewall flags.
func (w *hsWorld) deliverLate(d *vDatagram, nd *vNode, via netip.AddrPort, to netip.Addr, late int) {
	nd.Hold()
	w.DeliverTo(d, nd.UDP, via)
	flags := []bool{}
	for k := 0; k < late; k++ {
		w.sendNo++
		ok := w.sendNo%5 != 3
		port := uint16(5000)
		if !ok {
			port = 6000
		}
		w.TunSend(nd, vUDPPacket(nd.Vpn[0].Addr(), to, 4000, port, []byte(fmt.Sprintf("late-%d", k))))
		flags = append(flags, ok)
	}
	nd.Release()
	ev := map[string]any{"ev": "Deliver", "n": nd.Name, "id": w.mid(d), "via": w.udpName[via], "kind": d.H.TypeName(), "late": flags}
	w.post(nd, ev)
	w.log(ev)
}

// tickOnce advances one try interval; every pending handshake whose attempt counter moved (or that
// vanished without becoming a tunnel) is logged as a Retry of that node/address.
func (w *hsWorld) tickOnce() { w.tickWith(func() { w.Advance(hsTick) }) }

// garbledReplyRacesTick: a copy of stage-2 datagram d whose AEAD tag is altered reaches nd (a recoverable failure: the
// pending handshake stays as it is), and the goroutine that handles it is parked at its log call inside continueHandshake,
// i.e. while it holds the lock of that pending handshake.  The handshake manager's next timer tick then happens while the
// lock is held: its retransmission has to wait for the lock, not to be skipped.  (Parks only in worlds that log at debug
// level; otherwise the copy is simply refused and the tick is an ordinary one.)
func (w *hsWorld) garbledReplyRacesTick(nd *vNode, d *vDatagram, res *vResult) {
	g := w.gates[nd.Name]
	bad := *d
	bad.Data = append([]byte(nil), d.Data...)
	bad.Data[len(bad.Data)-1] ^= 0x01
	// (the node's state is sampled by tickWith before anything is parked: sampling takes the handshake's lock)
	w.tickWith(func() {
		g.Arm("Failed to process handshake packet")
		w.DeliverTo(&bad, nd.UDP, d.From)
		if !g.Parked() {
			g.Disarm()
			ev := map[string]any{"ev": "Garbled", "n": nd.Name}
			w.post(nd, ev)
			w.log(ev)
			w.Advance(hsTick)
			return
		}
		res.Hit("garbled-reply:parked-under-handshake-lock")
		w.log(map[string]any{"ev": "Garbled", "n": nd.Name, "racing": true})
		time.Sleep(hsTick) // the manager's ticker fires at this very instant
		vRealPause(3 * time.Millisecond)
		g.Release()
		synctest.Wait()
	})
}

// retrust: node nd reloads its configuration with pki.blocklist naming the certificates of `blocked` (node names): from
// now on these peers' certificates do not verify at nd, whatever state a handshake with them is in.
func (w *hsWorld) retrust(nd *vNode, blocked []string) {
	st := map[string]any{}
	for k, v := range nd.Cfg.Settings {
		st[k] = v
	}
	pki := map[string]any{}
	if old, ok := st["pki"].(map[string]any); ok {
		for k, v := range old {
			pki[k] = v
		}
	}
	fps := []string{}
	for _, b := range blocked {
		fp, err := w.Nodes[b].Ctrl.GetCertState().GetDefaultCertificate().Fingerprint()
		if err != nil {
			panic(err)
		}
		fps = append(fps, fp)
	}
	pki["blocklist"] = fps
	st["pki"] = pki
	raw, err := yaml.Marshal(st)
	if err != nil {
		panic(err)
	}
	if err := nd.Cfg.ReloadConfigString(string(raw)); err != nil {
		panic(err)
	}
	synctest.Wait()
	trusts := []string{}
	for _, x := range []string{"A", "B", "M", "P", "S"} { // the peers of the common CA (X trusts only itself and is never reloaded)
		if !strings.Contains(","+strings.Join(blocked, ",")+",", ","+x+",") {
			trusts = append(trusts, x)
		}
	}
	ev := map[string]any{"ev": "Retrust", "n": nd.Name, "trusts": trusts}
	w.post(nd, ev)
	w.log(ev)
}

// drain: nothing is delivered any more and nothing new is sent; every handshake that is still pending runs through its
// remaining attempts and is abandoned.  The Quiet line states how many are pending afterwards.
func (w *hsWorld) drain() {
	for k := 0; k < w.retries*(w.retries+1)/2+w.retries+3; k++ {
		w.tickOnce()
	}
	n := 0
	for _, nd := range w.sorted() {
		n += w.pendingCount(nd)
	}
	w.log(map[string]any{"ev": "Quiet", "pending": n})
}

// tickWith: one try interval passes (advance does it); every pending handshake whose attempt counter moved (or that
// vanished without becoming a tunnel) is logged as a Retry of that node/address.
func (w *hsWorld) tickWith(advance func()) {
	type key struct{ n, a string }
	before := map[key]nebula.VerifPending{}
	for _, nd := range w.sorted() {
		for _, p := range nd.Ctrl.VerifProject().Pending {
			before[key{nd.Name, p.VpnAddr}] = p
		}
	}
	advance()
	w.log(map[string]any{"ev": "Tick"})
	for _, nd := range w.sorted() {
		after := map[string]nebula.VerifPending{}
		for _, p := range nd.Ctrl.VerifProject().Pending {
			after[p.VpnAddr] = p
		}
		var fired []string
		firings := map[string]int{}
		for k, b := range before {
			if k.n != nd.Name {
				continue
			}
			a, ok := after[k.a]
			switch {
			case !ok:
				// given up: the firings were the remaining attempts plus the one that deleted the entry
				fired = append(fired, k.a)
				firings[k.a] = w.retries - int(b.Counter) + 1
			case a.Counter != b.Counter:
				fired = append(fired, k.a)
				firings[k.a] = int(a.Counter - b.Counter)
			}
		}
		sort.Strings(fired)
		if len(fired) == 0 {
			if x := nd.TakeUDP(); len(x) > 0 {
				// something else emitted on a timer: not modelled -> recorded so that TLC rejects the trace
				w.log(map[string]any{"ev": "Unmodelled", "n": nd.Name, "what": vDesc(x[0])})
			}
			continue
		}
		if len(fired) > 1 {
			// retries of two addresses of one node in the same tick cannot be told apart from outside; the
			// driver avoids this situation, record it if it happens anyway
			w.log(map[string]any{"ev": "Unmodelled", "n": nd.Name, "what": "retries for two addresses in one tick"})
			nd.TakeUDP()
			continue
		}
		ev := map[string]any{"ev": "Retry", "n": nd.Name, "a": w.addrName[netip.MustParseAddr(fired[0])], "k": firings[fired[0]]}
		w.post(nd, ev)
		w.log(ev)
	}
}

func (w *hsWorld) pendingCount(nd *vNode) int { return len(nd.Ctrl.VerifProject().Pending) }

func TestVerif_HsTrace(t *testing.T) {
	res := vNewResult()
	defer res.Write(t)
	seed := vSeed()
	traces, steps := 12, 60
	if !vQuick() {
		traces, steps = 80, 90
	}
	if s := os.Getenv("VERIF_HS_TRACES"); s != "" {
		fmt.Sscan(s, &traces)
	}
	f, err := os.Create(filepath.Join(os.Getenv("VERIF_OUT"), "trace_hs.ndjson"))
	if err != nil {
		t.Fatal(err)
	}
	defer f.Close()
	enc := json.NewEncoder(f)
	for tr := 0; tr < traces; tr++ {
		rnd := rand.New(rand.NewSource(seed*1000 + int64(tr)))
		var lines []map[string]any
		synctest.Test(t, func(t *testing.T) {
			w := hsNewWorld(t, 4)
			w.t0 = time.Now()
			w.Start()
			hsDrive(w, rnd, steps, tr, res)
			w.drain()
			w.Stop()
			lines = w.lines
		})
		enc.Encode(map[string]any{"ev": "reset"})
		for _, ln := range lines {
			enc.Encode(ln)
			res.Hit("ev:" + ln["ev"].(string))
		}
		res.Case(fmt.Sprintf("trace/%d/%d", seed, tr))
		if tr == 0 && len(lines) > 3 {
			res.Sample(lines[:3])
		}
	}
}

// hsDrive: the adversarial network. Profiles bias the schedule towards the situations the properties talk about.
func hsDrive(w *hsWorld, rnd *rand.Rand, steps, tr int, res *vResult) {
	A, B, M, X := w.Nodes["A"], w.Nodes["B"], w.Nodes["M"], w.Nodes["X"]
	addr := func(s string) netip.Addr { return netip.MustParseAddr(s) }
	targets := map[string][]netip.Addr{
		"A": {addr("10.128.0.2"), addr("10.129.0.2"), addr("10.128.0.3")},
		"B": {addr("10.128.0.1"), addr("10.129.0.1"), addr("10.128.0.3")},
		"M": {addr("10.128.0.1"), addr("10.128.0.2")},
		"X": {addr("10.128.0.1")},
		"P": {addr("10.128.0.6"), addr("10.128.0.2")},
		"S": {addr("10.128.0.5")},
	}
	P, S := w.Nodes["P"], w.Nodes["S"]
	nodes := []*vNode{A, B, M, X, P, S}
	profile := tr % 4 // 0 mixed, 1 replay heavy, 2 lossy (retries, give-up, queue), 3 simultaneous initiators
	tag := 0
	if profile == 1 && (tr/4)%2 == 1 {
		// rotation, then replay (schedule found by TLC as the shortest way to a primary that is OLDER than another tunnel
		// the node still holds): B's first stage 1 is held back until B has given up and started over; A meanwhile gets a
		// tunnel from B's second stage 1 and one as initiator; then the old stage 1 arrives (accepted: the primary is an
		// initiator-side tunnel) and finally the second stage 1 is delivered again -- its tunnel is still held.
		take := func(to *vNode, typ header.MessageType, counter uint64) *vDatagram {
			for k, d := range w.inflight {
				if d.To == to.UDP && d.H.Type == typ && d.H.MessageCounter == counter {
					w.inflight = append(w.inflight[:k], w.inflight[k+1:]...)
					return d
				}
			}
			return nil
		}
		w.tunSend(B, addr("10.128.0.1"), "rot-1")
		old := take(A, header.Handshake, 1)
		for k := 0; k < 30 && w.pendingCount(B) > 0; k++ {
			w.tickOnce()
		}
		for k := len(w.inflight) - 1; k >= 0; k-- { // retransmissions of the old stage 1 are lost
			if w.inflight[k].To == A.UDP {
				w.inflight = append(w.inflight[:k], w.inflight[k+1:]...)
			}
		}
		w.tunSend(B, addr("10.128.0.1"), "rot-2")
		second := take(A, header.Handshake, 1)
		w.tunSend(A, addr("10.128.0.2"), "rot-3")
		if hs1A := take(B, header.Handshake, 1); hs1A != nil && old != nil && second != nil {
			w.deliver(hs1A, B, hs1A.From)
			w.deliver(second, A, second.From)
			if hs2 := take(A, header.Handshake, 2); hs2 != nil {
				w.deliver(hs2, A, hs2.From)
			}
			w.deliver(old, A, old.From)
			w.deliver(second, A, second.From) // the replay
			res.Hit("rotation-replay-prologue")
		}
	} else if profile == 1 {
		// two sessions of one initiator created at the same instant (equal handshake times), delivered in
		// either order: the second one is not newer than the tunnel the responder then holds
		w.tunSend(A, addr("10.128.0.2"), "eq-1")
		w.tunSend(A, addr("10.129.0.2"), "eq-2")
		var toB []*vDatagram
		rest := w.inflight[:0:0]
		for _, d := range w.inflight {
			if d.To == B.UDP {
				toB = append(toB, d)
			} else {
				rest = append(rest, d)
			}
		}
		w.inflight = rest
		if rnd.Intn(2) == 0 && len(toB) == 2 {
			toB[0], toB[1] = toB[1], toB[0]
		}
		for _, d := range toB {
			w.deliver(d, B, d.From)
		}
		// let the answers through so that A has no pending handshake left before time moves
		for len(w.inflight) > 0 {
			d := w.inflight[0]
			w.inflight = w.inflight[1:]
			if to := w.byUDP[d.To]; to != nil && d.H.Type == 0 {
				w.deliver(d, to, d.From)
			}
		}
		res.Hit("equal-time-prologue")
	}
	if (profile == 0 && (tr/4)%2 == 1) || (profile == 2 && (tr/4)%2 == 0) {
		// the queue is released while the inside reader keeps handing over packets for the same peer
		take := func(to *vNode, typ header.MessageType, counter uint64) *vDatagram {
			for k, d := range w.inflight {
				if d.To == to.UDP && d.H.Type == typ && d.H.MessageCounter == counter {
					w.inflight = append(w.inflight[:k], w.inflight[k+1:]...)
					return d
				}
			}
			return nil
		}
		nq := 11 + rnd.Intn(8)
		for k := 0; k <= nq; k++ {
			w.tunSend(A, addr("10.128.0.2"), fmt.Sprintf("fl-%d", k))
		}
		if hs1 := take(B, header.Handshake, 1); hs1 != nil {
			w.deliver(hs1, B, hs1.From)
			if hs2 := take(A, header.Handshake, 2); hs2 != nil {
				w.deliverLate(hs2, A, hs2.From, addr("10.128.0.2"), 1+rnd.Intn(3))
				res.Hit("flush-interleave-prologue")
			}
		}
	}
	if profile == 0 && (tr/4)%2 == 0 {
		// trust is withdrawn while a handshake is pending: A has sent stage 1 to B, B has answered, A reloads with B's
		// certificate on the blocklist, then the answer arrives; later the entry is taken off the list again
		w.tunSend(A, addr("10.128.0.2"), "rt-0")
		var hs1, hs2 *vDatagram
		for k, d := range w.inflight {
			if d.To == B.UDP && d.H.Type == header.Handshake && d.H.MessageCounter == 1 {
				hs1 = d
				w.inflight = append(w.inflight[:k], w.inflight[k+1:]...)
				break
			}
		}
		if hs1 != nil {
			w.deliver(hs1, B, hs1.From)
			for k, d := range w.inflight {
				if d.To == A.UDP && d.H.Type == header.Handshake && d.H.MessageCounter == 2 {
					hs2 = d
					w.inflight = append(w.inflight[:k], w.inflight[k+1:]...)
					break
				}
			}
		}
		if hs2 != nil {
			w.retrust(A, []string{"B"})
			w.deliver(hs2, A, hs2.From)
			res.Hit("retrust-prologue:answer-after-trust-withdrawn")
			if rnd.Intn(2) == 0 {
				w.retrust(A, nil)
			}
		}
	}
	if profile == 3 && (tr/4)%2 == 0 {
		// an unauthentic copy of the answer is being handled when the retransmission timer of the same handshake fires
		w.tunSend(A, addr("10.128.0.2"), "gr-0")
		var hs1, hs2 *vDatagram
		for k, d := range w.inflight {
			if d.To == B.UDP && d.H.Type == header.Handshake && d.H.MessageCounter == 1 {
				hs1 = d
				w.inflight = append(w.inflight[:k], w.inflight[k+1:]...)
				break
			}
		}
		if hs1 != nil {
			w.deliver(hs1, B, hs1.From)
			for k, d := range w.inflight {
				if d.To == A.UDP && d.H.Type == header.Handshake && d.H.MessageCounter == 2 {
					hs2 = d
					w.inflight = append(w.inflight[:k], w.inflight[k+1:]...)
					break
				}
			}
		}
		if hs2 != nil {
			for k := 0; k < 4 && w.pendingCount(A) > 0; k++ {
				w.garbledReplyRacesTick(A, hs2, res)
			}
			res.Hit("garbled-reply-prologue")
			if rnd.Intn(2) == 0 {
				w.deliver(hs2, A, hs2.From) // the genuine answer still completes the handshake
			}
		}
	}
	burstAt := -1
	if profile == 2 {
		burstAt = 5 + rnd.Intn(10)
	}
	for s := 0; s < steps; s++ {
		r := rnd.Intn(100)
		if s == burstAt {
			// queue bound: more than 100 inside packets behind one pending handshake (stage 1 is never delivered before)
			st := A.Ctrl.VerifProject()
			tg := addr("10.129.0.2")
			if len(st.Pending) > 0 {
				tg = netip.MustParseAddr(st.Pending[0].VpnAddr)
			}
			if _, ok := st.Hosts[tg.String()]; !ok {
				for k := 0; k < 104; k++ {
					tag++
					w.tunSend(A, tg, fmt.Sprintf("burst-%d", tag))
				}
				res.Hit("queue-burst")
			}
			continue
		}
		switch {
		case r < 22 || (profile == 3 && r < 40):
			nd := nodes[rnd.Intn(len(nodes))]
			if nd == X && rnd.Intn(3) != 0 {
				nd = A
			}
			// never start a second pending handshake on a node (two retries in one tick cannot be told apart)
			tg := targets[nd.Name][rnd.Intn(len(targets[nd.Name]))]
			if w.pendingCount(nd) > 0 {
				st := nd.Ctrl.VerifProject()
				if _, ok := st.Hosts[tg.String()]; !ok {
					tg = netip.MustParseAddr(st.Pending[0].VpnAddr)
				}
			}
			tag++
			w.tunSend(nd, tg, fmt.Sprintf("pkt-%d", tag))
		case r < 62 && len(w.inflight) > 0 && !(profile == 2 && r < 40):
			// deliver something in flight (not necessarily the oldest: reordering)
			k := 0
			if rnd.Intn(3) == 0 {
				k = rnd.Intn(len(w.inflight))
			}
			d := w.inflight[k]
			w.inflight = append(w.inflight[:k], w.inflight[k+1:]...)
			if to := w.byUDP[d.To]; to != nil {
				w.deliver(d, to, d.From)
			}
		case r < 72 || (profile == 1 && r < 85):
			// replay: any datagram ever emitted, again, to where it was going
			if len(w.Store) == 0 {
				continue
			}
			d := w.Store[rnd.Intn(len(w.Store))]
			if to := w.byUDP[d.To]; to != nil {
				w.deliver(d, to, d.From)
			}
		case r < 76:
			// misdelivery: any datagram ever emitted, to any node (from its true source: a spoofed source makes the
			// receiver learn a new underlay address for the peer, which is the remote-list checks' subject, C36/C37)
			if len(w.Store) == 0 {
				continue
			}
			d := w.Store[rnd.Intn(len(w.Store))]
			to := nodes[rnd.Intn(len(nodes))]
			if to.UDP == d.From {
				continue
			}
			if d.H.Type == header.Handshake && d.H.MessageCounter == 1 && to.UDP != d.To {
				// a stage 1 that reaches a node it was not sent to gets answered from an underlay address the initiator
				// was never told: the initiator then LEARNS that address for the peer (RemoteList.LearnRemote through
				// SetRemote in continueHandshake, also when it refuses the answer) and uses it for later attempts.
				// Learned remotes are the subject of C36/C37; this model has static routes (wrong responders are
				// reached through Route).
				res.Hit("misdelivered-stage1-skipped")
				continue
			}
			w.deliver(d, to, d.From)
		case r < 82 && len(w.inflight) > 0:
			k := rnd.Intn(len(w.inflight)) // loss
			w.inflight = append(w.inflight[:k], w.inflight[k+1:]...)
		case r < 85 && profile != 2:
			// trust withdrawn from / given back to a peer at one of the honest nodes, at any moment
			nd := []*vNode{A, B, M}[rnd.Intn(3)]
			var blocked []string
			if rnd.Intn(3) != 0 {
				for {
					x := []string{"A", "B", "M"}[rnd.Intn(3)]
					if x != nd.Name {
						blocked = []string{x}
						break
					}
				}
			}
			w.retrust(nd, blocked)
			res.Hit("retrust:random")
		default:
			w.tickOnce()
		}
	}
	_ = strings.TrimSpace
}
