//go:build e2e_testing

package e2e

// C15 — relays never see or alter end-to-end traffic (spec/RelayE2E.tla, vector mode on whole nodes).
//
// World (synctest bubble): A and M both reach T only through the relay R. For each vector the sender's
// genuine relayed packet is captured as the relay would forward it; the harness then plays a lying relay
// with R's real hop keys (nebula.VerifRelayWrap): it alters the inner packet and/or forwards it under
// the relay record of the other endpoint, and T's tun output, attribution and state are compared with
// the specification. All bytes entering and leaving R are scanned for the plaintext.

import (
	"bytes"
	"encoding/json"
	"fmt"
	"net/netip"
	"reflect"
	"testing"
	"testing/synctest"
	"time"

	"github.com/slackhq/nebula/cert"
	"github.com/slackhq/nebula/header"
)

type c15Vec struct {
	In struct {
		Sender string `json:"sender"`
		Alter  string `json:"alter"`
		Claim  string `json:"claim"`
		Arg    int    `json:"arg"`
	} `json:"in"`
	Exp struct {
		Deliver bool   `json:"deliver"`
		As      string `json:"as"`
	} `json:"exp"`
}

type c15World struct {
	*vNet
	A, M, T, R, D *vNode
	atR        [][]byte // every datagram that entered or left the relay
}

func c15NewWorld(t *testing.T) *c15World {
	n := vNewNet(t)
	w := &c15World{vNet: n}
	quiet := m{"connection_alive_interval": 3600, "pending_deletion_interval": 3600}
	w.R = n.AddNode(cert.Version2, "R", "10.128.0.128/24", m{"relay": m{"am_relay": true}, "timers": quiet})
	w.T = n.AddNode(cert.Version2, "T", "10.128.0.2/24", m{"relay": m{"use_relays": true}, "timers": quiet})
	w.A = n.AddNode(cert.Version2, "A", "10.128.0.1/24", m{"relay": m{"use_relays": true}, "timers": quiet})
	w.M = n.AddNode(cert.Version2, "M", "10.128.0.3/24", m{"relay": m{"use_relays": true}, "timers": quiet})
	w.D = n.AddNode(cert.Version2, "D", "10.128.0.4/24", m{"timers": quiet}) // a third host with a DIRECT tunnel to T
	w.D.Ctrl.InjectLightHouseAddr(w.T.Vpn[0].Addr(), w.T.UDP)
	w.T.Ctrl.InjectLightHouseAddr(w.D.Vpn[0].Addr(), w.D.UDP)
	for _, s := range []*vNode{w.A, w.M} {
		s.Ctrl.InjectLightHouseAddr(w.R.Vpn[0].Addr(), w.R.UDP)
		s.Ctrl.InjectRelays(w.T.Vpn[0].Addr(), []netip.Addr{w.R.Vpn[0].Addr()})
	}
	w.R.Ctrl.InjectLightHouseAddr(w.T.Vpn[0].Addr(), w.T.UDP)
	n.Start()
	for _, s := range []*vNode{w.A, w.M, w.D} {
		n.TunSend(s, vUDPPacket(s.Vpn[0].Addr(), w.T.Vpn[0].Addr(), 4000, 5000, []byte("hello-"+s.Name)))
	}
	for i := 0; i < 60; i++ {
		if w.pump() == 0 {
			n.Advance(100 * time.Millisecond)
		}
	}
	w.T.TakeTun()
	return w
}

// pump delivers what is in flight once, remembering everything that touches R
func (w *c15World) pump() int {
	moved := 0
	var batch []*vDatagram
	for _, nd := range w.sorted() {
		batch = append(batch, nd.TakeUDP()...)
	}
	for _, d := range batch {
		if d.To == w.R.UDP || d.From == w.R.UDP {
			w.atR = append(w.atR, d.Data)
		}
		if w.Deliver(d) {
			moved++
		}
	}
	return moved
}

// capture: sender emits one data packet for T; returns the datagram as the relay forwards it (undelivered)
// together with the datagram the relay received.
func (w *c15World) capture(s *vNode, marker string) (toRelay, fromRelay *vDatagram) {
	for _, nd := range w.sorted() {
		nd.TakeUDP()
	}
	w.TunSend(s, vUDPPacket(s.Vpn[0].Addr(), w.T.Vpn[0].Addr(), 4000, 5000, []byte(marker)))
	for _, d := range s.TakeUDP() {
		if d.To == w.R.UDP {
			toRelay = d
			w.atR = append(w.atR, d.Data)
			w.Deliver(d)
		}
	}
	for _, d := range w.R.TakeUDP() {
		if d.To == w.T.UDP {
			fromRelay = d
			w.atR = append(w.atR, d.Data)
		}
	}
	return
}

func c15Inner(d *vDatagram) []byte { return append([]byte(nil), d.Data[header.Len:len(d.Data)-16]...) }

func (w *c15World) project() any {
	b, _ := json.Marshal(w.T.Ctrl.VerifProject())
	var v any
	_ = json.Unmarshal(b, &v)
	return v
}

func TestVerif_C15(t *testing.T) {
	res := vNewResult()
	defer res.Write(t)
	var vecs []c15Vec
	vReadNDJSON(t, "vectors.ndjson", func(line []byte) {
		var v c15Vec
		if err := json.Unmarshal(line, &v); err != nil {
			t.Fatalf("vector: %v", err)
		}
		vecs = append(vecs, v)
	})
	rnd := vRand()
	for vi, v := range vecs {
		vBubble(t, func(t *testing.T) {
			w := c15NewWorld(t)
			defer w.Stop()
			s, o := w.A, w.M
			if v.In.Sender == "M" {
				s, o = w.M, w.A
			}
			marker := fmt.Sprintf("PLAINTEXT-MARKER-%s-%d-%d", s.Name, vi, rnd.Intn(1<<30))
			in, g := w.capture(s, marker)
			_, go2 := w.capture(o, "OTHER-"+marker)
			if in == nil || g == nil || go2 == nil {
				res.Hit("uncaptured")
				db, _ := json.Marshal(map[string]any{"S": s.Ctrl.VerifProject(), "R": w.R.Ctrl.VerifProject(), "T": w.T.Ctrl.VerifProject()})
				res.Extra["uncaptured"] = string(db)
				return
			}
			res.Hit("captured")
			// the honest relay forwards the inner packet bit for bit
			if !bytes.Equal(c15Inner(in), c15Inner(g)) {
				res.Mismatch("relay-altered-inner", "the relay node forwarded an inner packet that differs from what it received", map[string]any{"in": fmt.Sprintf("%x", in.Data), "out": fmt.Sprintf("%x", g.Data)})
			}
			inner := c15Inner(g)
			switch v.In.Alter {
			case "flipbit":
				bit := v.In.Arg
				if bit >= header.Len*8 { // ciphertext and tag
					bit = header.Len*8 + (bit-header.Len*8)%((len(inner)-header.Len)*8)
				}
				inner[bit/8] ^= 0x80 >> (bit % 8)
			case "retype":
				// the header is clear text: the relay rewrites type and subtype over the genuine ciphertext
				inner[0] = inner[0]&0xf0 | byte(v.In.Arg/16)
				inner[1] = byte(v.In.Arg % 16)
			case "newcounter":
				inner[8], inner[9] = 0x00, 0x7f // far above anything the sender used
			case "truncate":
				inner = inner[:len(inner)-3]
			case "splice":
				other := c15Inner(go2)
				inner = append(append([]byte(nil), inner[:header.Len]...), other[header.Len:]...)
			case "garbage":
				for k := range inner {
					inner[k] = byte(rnd.Intn(256))
				}
				copy(inner[:header.Len], c15Inner(g)[:header.Len])
			case "recverr_self", "recverr_third":
				// a recv_error names the index the TARGET's peer uses for the tunnel (the target looks it up in its
				// remote-index table): for the sender's relayed tunnel the relay reads it off the traffic it forwards the
				// other way; for the third host's direct tunnel the harness supplies it
				who := s
				if v.In.Alter == "recverr_third" {
					who = w.D
				}
				var idx uint32
				for _, tn := range w.T.Ctrl.VerifProject().Tunnels {
					if tn.CertName == who.Name {
						idx = tn.RemoteIndex
					}
				}
				if idx == 0 {
					res.Hit("no-tunnel-for-recverr")
					return
				}
				inner = header.Encode(make([]byte, header.Len), header.Version, header.RecvError, 0, idx, 0)
			case "replayed":
				w.Deliver(g) // the genuine one first
				if out := w.T.TakeTun(); len(out) != 1 {
					res.Hit("replay-setup-failed")
				}
			}
			claimed := s.Vpn[0].Addr()
			if v.In.Claim == "other" {
				claimed = o.Vpn[0].Addr()
			}
			before := w.project()
			w.R.TakeUDP()
			if !w.R.Ctrl.VerifRelayWrap(w.T.Vpn[0].Addr(), claimed, inner) {
				res.Hit("no-relay-record")
				return
			}
			synctest.Wait()
			var forged *vDatagram
			for _, d := range w.R.TakeUDP() {
				if d.To == w.T.UDP {
					forged = d
				}
			}
			if forged == nil {
				res.Hit("wrap-failed")
				return
			}
			w.atR = append(w.atR, forged.Data)
			w.T.TakeTun()
			w.T.TakeUDP()
			w.Deliver(forged)
			out := w.T.TakeTun()
			reaction := w.T.TakeUDP()
			after := w.project()
			id, _ := json.Marshal(v.In)
			res.Case(string(id))
			res.Hit("alter:" + v.In.Alter)
			if v.In.Alter == "retype" {
				res.Hit(fmt.Sprintf("retype:%d", v.In.Arg))
			}
			if v.In.Alter == "flipbit" && v.In.Arg < header.Len*8 {
				res.Hit("flip:header")
			}
			res.Hit("claim:" + v.In.Claim)
			detail := map[string]any{"vector": v.In, "expected": v.Exp}
			key := fmt.Sprintf("%s:%s:claim-%s", v.In.Sender, v.In.Alter, v.In.Claim)
			if v.In.Alter == "retype" || v.In.Alter == "flipbit" {
				key = fmt.Sprintf("%s:%s-%d:claim-%s", v.In.Sender, v.In.Alter, v.In.Arg, v.In.Claim)
			}
			if v.Exp.Deliver {
				if len(out) != 1 {
					res.Mismatch("not-delivered:"+key, fmt.Sprintf("a genuine relayed packet from %s (relay claims %s) was not delivered exactly once (%d)", s.Name, v.In.Claim, len(out)), detail)
					return
				}
				src := netip.AddrFrom4([4]byte(out[0][12:16]))
				if src != s.Vpn[0].Addr() || !bytes.Contains(out[0], []byte(marker)) {
					res.Mismatch("misattributed:"+key, fmt.Sprintf("the delivered packet carries source %s / other payload; the key that authenticates it is %s's", src, s.Name), detail)
				}
				// attribution inside the node: the window of the tunnel with the sender moved, nobody else's
				bt, at := w.tunnelTops(before), w.tunnelTops(after)
				for name := range at {
					if name == s.Name && at[name] <= bt[name] {
						res.Mismatch("attribution:"+key, fmt.Sprintf("the packet was not accounted to the tunnel with %s", s.Name), detail)
					}
					if name != s.Name && name != "R" && at[name] != bt[name] {
						res.Mismatch("attribution-other:"+key, fmt.Sprintf("the packet was accounted to the tunnel with %s (the relay claimed %s)", name, v.In.Claim), detail)
					}
				}
			} else {
				if len(out) != 0 {
					res.Mismatch("delivered:"+key, fmt.Sprintf("an inner packet altered by the relay (%s) was delivered to the tun device", v.In.Alter), detail)
				}
				bt, at := w.tunnelTops(before), w.tunnelTops(after)
				delete(bt, "R")
				delete(at, "R")
				if v.In.Alter == "recverr_self" && !reflect.DeepEqual(w.hostsOf(before), w.hostsOf(after)) {
					// one key for this class: it is what known_findings.jsonl lists (by design, listen.accept_recv_error)
					res.Mismatch("relayed-recv_error-teardown:relay-only-tunnel", fmt.Sprintf("a recv_error forwarded by the relay (no key authenticates it) closed the target's relayed tunnel with %s", s.Name), detail)
					res.Traces++
					return
				}
				if !reflect.DeepEqual(bt, at) || !reflect.DeepEqual(w.hostsOf(before), w.hostsOf(after)) {
					res.Mismatch("state-changed:"+key, fmt.Sprintf("an inner packet altered by the relay (%s) changed the endpoint's tunnels", v.In.Alter), detail)
				}
				// nothing the endpoint's key did not authenticate may make it answer
				if len(reaction) != 0 {
					detail["reaction"] = fmt.Sprintf("%x", reaction[0].Data)
					res.Mismatch("answered:"+key, fmt.Sprintf("the endpoint answered (%d datagrams) an inner packet altered by the relay (%s)", len(reaction), v.In.Alter), detail)
				}
				// and the tunnel with the genuine sender still works
				if _, g2 := w.capture(s, "AFTER-"+marker); g2 == nil {
					res.Mismatch("tunnel-lost:"+key, "after the altered packet the sender no longer reaches the target through the relay", detail)
				} else {
					w.Deliver(g2)
					if o2 := w.T.TakeTun(); len(o2) != 1 || !bytes.Contains(o2[0], []byte("AFTER-"+marker)) {
						res.Mismatch("tunnel-broken:"+key, fmt.Sprintf("after the altered packet genuine traffic of %s is no longer delivered (%d)", s.Name, len(o2)), detail)
					}
				}
			}
			// the relay never holds the plaintext
			for _, b := range w.atR {
				if bytes.Contains(b, []byte("PLAINTEXT-MARKER")) || bytes.Contains(b, []byte("hello-")) {
					res.Mismatch("plaintext-at-relay", "a datagram entering or leaving the relay contains the plaintext payload", detail)
					break
				}
			}
			res.Traces++
		})
	}
}

func (w *c15World) tunnelTops(p any) map[string]float64 {
	out := map[string]float64{}
	for _, t := range p.(map[string]any)["tunnels"].(map[string]any) {
		tm := t.(map[string]any)
		out[tm["certName"].(string)] += tm["rxMax"].(float64)
	}
	return out
}

func (w *c15World) hostsOf(p any) any { return p.(map[string]any)["hosts"] }
