//go:build e2e_testing

package e2e

// C31 — concurrent handshakes converge to one working tunnel (spec/Converge.tla).
//
// R: every environment history of the handshake phase that TLC finds (who starts, in which order the four
// handshake datagrams are delivered, duplicates, data sent in between) is replayed on two complete nodes
// in a synctest bubble with the connection manager running on virtual time. After the handshake phase
// the real tunnel sets / primaries are compared with the model's; then both nodes keep sending for a
// long quiet period and the oracle of the statement is evaluated on the real nodes: data flows, at most
// one node swapped its primary, both end with one tunnel whose indexes match.

import (
	"encoding/json"
	"fmt"
	"net/netip"
	"testing"
	"testing/synctest"
	"time"

	"github.com/slackhq/nebula"
	"github.com/slackhq/nebula/cert"
	"github.com/slackhq/nebula/header"
)

type c31Case struct {
	Hist    []string `json:"hist"`
	Ta      []string `json:"ta"`
	Tb      []string `json:"tb"`
	Pa      string   `json:"pa"`
	Pb      string   `json:"pb"`
	Dropped bool     `json:"dropped"`
}

type c31World struct {
	*vNet
	A, B *vNode
	hs   map[string]*vDatagram // "hs1x","hs1y","hs2x","hs2y"
	// pair of a tunnel, by the local index at each node
	pairA, pairB map[uint32]string
	passHs       bool // handshake datagrams are handed back by collect (delivered like everything else)
}

func c31NewWorld(t *testing.T) *c31World {
	n := vNewNet(t)
	w := &c31World{vNet: n, hs: map[string]*vDatagram{}, pairA: map[uint32]string{}, pairB: map[uint32]string{}}
	cfg := func(peer string, udp netip.AddrPort) m {
		return m{"static_host_map": m{peer: []string{udp.String()}},
			"timers":     m{"connection_alive_interval": 5, "pending_deletion_interval": 10},
			"handshakes": m{"try_interval": "100ms", "retries": 20},
			"listen":     m{"send_recv_error": "never"},
			"tunnels":    m{"drop_inactive": false}}
	}
	ua, ub := netip.MustParseAddrPort("10.0.0.1:4242"), netip.MustParseAddrPort("10.0.0.2:4242")
	w.A = n.AddNode(cert.Version2, "A", "10.128.0.1/24", cfg("10.128.0.2", ub))
	w.B = n.AddNode(cert.Version2, "B", "10.128.0.2/24", cfg("10.128.0.1", ua))
	n.Start()
	return w
}

// collect sorts what the nodes emitted: handshake datagrams are remembered by role, everything else is returned
func (w *c31World) collect() (rest []*vDatagram) {
	for _, nd := range []*vNode{w.A, w.B} {
		for _, d := range nd.TakeUDP() {
			if d.H.Type == header.Handshake && w.passHs {
				rest = append(rest, d)
				continue
			}
			if d.H.Type == header.Handshake {
				stage := "hs1"
				if d.H.MessageCounter == 2 {
					stage = "hs2"
				}
				// pair x = A's handshake: hs1 from A, hs2 from B
				pair := "x"
				if (stage == "hs1" && nd == w.B) || (stage == "hs2" && nd == w.A) {
					pair = "y"
				}
				if _, ok := w.hs[stage+pair]; !ok {
					w.hs[stage+pair] = d
				}
				continue
			}
			rest = append(rest, d)
		}
	}
	return
}

// state in model terms: which pairs each node holds and which is primary
func (w *c31World) state() (ta, tb []string, pa, pb string, ok bool) {
	sa, sb := w.A.Ctrl.VerifProject(), w.B.Ctrl.VerifProject()
	name := func(init bool, atA bool) string {
		// A's initiator side and B's responder side belong to pair x
		if init == atA {
			return "x"
		}
		return "y"
	}
	ok = true
	seen := map[string]bool{}
	for li, t := range sa.Tunnels {
		p := name(t.Initiator, true)
		if seen["a"+p] {
			ok = false
		}
		seen["a"+p] = true
		w.pairA[li] = p
		ta = append(ta, p)
	}
	for li, t := range sb.Tunnels {
		p := name(t.Initiator, false)
		if seen["b"+p] {
			ok = false
		}
		seen["b"+p] = true
		w.pairB[li] = p
		tb = append(tb, p)
	}
	sortStrings(ta)
	sortStrings(tb)
	pa, pb = "none", "none"
	if l := sa.Hosts["10.128.0.2"]; len(l) > 0 {
		pa = w.pairA[l[0]]
	}
	if l := sb.Hosts["10.128.0.1"]; len(l) > 0 {
		pb = w.pairB[l[0]]
	}
	return
}

func c31Eq(a, b []string) bool {
	if len(a) != len(b) {
		return false
	}
	for i := range a {
		if a[i] != b[i] {
			return false
		}
	}
	return true
}

func TestVerif_C31(t *testing.T) {
	res := vNewResult()
	defer res.Write(t)
	var cases []c31Case
	vReadNDJSON(t, "c31_cases.ndjson", func(line []byte) {
		var c c31Case
		if err := json.Unmarshal(line, &c); err != nil {
			t.Fatalf("case: %v", err)
		}
		cases = append(cases, c)
	})
	for ci, c := range cases {
		var mism []vMismatch
		add := func(key, what string, detail any) { mism = append(mism, vMismatch{key, what, detail}) }
		vBubble(t, func(t *testing.T) {
			w := c31NewWorld(t)
			defer w.Stop()
			tag := 0
			var realDropped bool
			var swappedA, swappedB int
			// data: one inside packet, delivered at once; reports whether it came out of the peer's tun
			data := func(from, to *vNode) bool {
				tag++
				to.TakeTun()
				w.TunSend(from, vUDPPacket(from.Vpn[0].Addr(), to.Vpn[0].Addr(), 4000, 5000, []byte(fmt.Sprintf("d%d", tag))))
				for _, d := range w.collect() {
					w.Deliver(d)
				}
				for _, d := range w.collect() { // answers (test replies ...)
					w.Deliver(d)
				}
				return len(to.TakeTun()) > 0
			}
			primary := func() (string, string) {
				_, _, pa, pb, _ := w.state()
				return pa, pb
			}
			detail := map[string]any{"history": c.Hist, "model": c}
			for si, step := range c.Hist {
				res.Hit(step)
				switch step {
				case "StartA":
					w.TunSend(w.A, vUDPPacket(w.A.Vpn[0].Addr(), w.B.Vpn[0].Addr(), 4000, 5000, []byte("startA")))
					w.collect()
				case "StartB":
					w.TunSend(w.B, vUDPPacket(w.B.Vpn[0].Addr(), w.A.Vpn[0].Addr(), 4000, 5000, []byte("startB")))
					w.collect()
				case "Deliver:hs1x", "Deliver:hs1y", "Deliver:hs2x", "Deliver:hs2y":
					d := w.hs[step[len("Deliver:"):]]
					if d == nil {
						add("replay:missing-datagram", fmt.Sprintf("step %d: the real nodes never emitted %s", si, step), detail)
						return
					}
					w.Deliver(d)
					for _, x := range w.collect() { // queued packets released on completion
						w.Deliver(x)
					}
					w.collect()
				case "DataA", "DataB":
					from, to := w.A, w.B
					if step == "DataB" {
						from, to = w.B, w.A
					}
					ta, tb, _, _, _ := w.state()
					complete := false // some handshake has completed on both sides
					for _, p := range ta {
						for _, q := range tb {
							if p == q {
								complete = true
							}
						}
					}
					got := data(from, to)
					if complete && !got {
						realDropped = true
						pa, pb := primary()
						detail["dropped_at_step"] = si
						detail["primaries_then"] = []string{pa, pb}
					}
				case "Settle", "GiveUp":
				}
			}
			// ---- after the handshake phase: compare with the model
			ta, tb, pa, pb, ok := w.state()
			if !ok || !c31Eq(ta, c.Ta) || !c31Eq(tb, c.Tb) || pa != c.Pa || pb != c.Pb {
				add("replay:hs-phase-state", fmt.Sprintf("after the handshake phase the nodes hold A=%v (primary %s) B=%v (primary %s), specification A=%v (%s) B=%v (%s)", ta, pa, tb, pb, c.Ta, c.Pa, c.Tb, c.Pb), detail)
				return
			}
			if realDropped {
				// "traffic flows as soon as either handshake completes"
				add("dropped-on-fresh-primary", fmt.Sprintf("a handshake had completed on both sides, yet a data packet was not delivered: the sender had already made its responder side of the other, still half-open, handshake its primary (history %v)", c.Hist), detail)
			}
			// ---- the network is quiet from here on (everything is delivered at once). Traffic pattern of the steady phase,
			// one packet each way per second while "on": 0 = 90 s on; 1 = 7 s off, 3 s on, 45 s off; 2 = 12 s off, 40 s on, 25 s off
			giveUp := c.Hist[len(c.Hist)-1] == "GiveUp"
			pattern := []int{0, 2}[ci%2] // pattern 1 (a 3 s burst between silences) is not an oracle: the statement's convergence needs traffic that continues
			if giveUp {
				// the copies of the incomplete handshake(s) are lost, and so are the retransmissions until the initiator
				// has given up (handshake datagrams are not delivered during the first 25 s); 3 = no inside packet at all
				pattern = []int{3, 0}[ci%2]
				res.Hit("give-up")
			}
			on := func(sec int) bool {
				switch pattern {
				case 3:
					return false
				case 1:
					return sec >= 7 && sec < 10
				case 2:
					return sec >= 12 && sec < 52
				}
				return true
			}
			horizon := map[int]int{0: 90, 1: 55, 2: 77, 3: 90}[pattern]
			res.Hit(fmt.Sprintf("pattern:%d", pattern))
			lastPa, lastPb := pa, pb
			lastTa, lastTb := len(ta), len(tb)
			flowOK := 0
			for sec := 0; sec < horizon; sec++ {
				w.passHs = giveUp && sec >= 25
				if on(sec) {
					g1 := data(w.A, w.B)
					g2 := data(w.B, w.A)
					if g1 && g2 {
						flowOK++
					}
				}
				w.Advance(time.Second)
				for k := 0; k < 3; k++ {
					for _, d := range w.collect() {
						w.Deliver(d)
					}
				}
				nta, ntb, npa, npb, _ := w.state()
				if vEnv("VERIF_DEBUG") != "" {
					fmt.Printf("c31 %v sec=%d A=%v(%s) B=%v(%s)\n", c.Hist, sec, nta, npa, ntb, npb)
				}
				// a swap: the primary changes although no tunnel was added or removed at that node
				if npa != lastPa && len(nta) == lastTa && npa != "none" && lastPa != "none" {
					swappedA++
				}
				if npb != lastPb && len(ntb) == lastTb && npb != "none" && lastPb != "none" {
					swappedB++
				}
				lastPa, lastPb, lastTa, lastTb = npa, npb, len(nta), len(ntb)
			}
			fta, ftb, fpa, fpb, _ := w.state()
			detail["final"] = map[string]any{"A": fta, "B": ftb, "pa": fpa, "pb": fpb, "swapsA": swappedA, "swapsB": swappedB, "seconds_with_flow": flowOK, "traffic_pattern": pattern}
			if swappedA > 0 && swappedB > 0 {
				add("both-nodes-swapped", fmt.Sprintf("both nodes swapped their primary tunnel (A %d times, B %d times)", swappedA, swappedB), detail)
			}
			sa, sb := w.A.Ctrl.VerifProject(), w.B.Ctrl.VerifProject()
			conv := len(sa.Tunnels) == 1 && len(sb.Tunnels) == 1
			if conv {
				for la, tA := range sa.Tunnels {
					for lb, tB := range sb.Tunnels {
						conv = tA.RemoteIndex == lb && tB.RemoteIndex == la
					}
				}
			}
			if giveUp && pattern == 3 && len(sa.Tunnels) == 0 && len(sb.Tunnels) == 0 {
				// nothing survived the lost handshake and nobody has anything to send: quiet, and consistent
				conv = true
				res.Hit("give-up:no-tunnel-left")
			}
			if giveUp && conv {
				// ... and the next inside packets get through (a new handshake if need be)
				w.passHs = true
				ok1, ok2 := false, false
				for sec := 0; sec < 8 && !(ok1 && ok2); sec++ {
					ok1 = data(w.A, w.B) || ok1
					ok2 = data(w.B, w.A) || ok2
					w.Advance(time.Second)
					for k := 0; k < 3; k++ {
						for _, d := range w.collect() {
							w.Deliver(d)
						}
					}
				}
				if !ok1 || !ok2 {
					add("quiet-but-no-traffic", fmt.Sprintf("after the quiet period (traffic pattern %d) inside packets do not get through within 8 s (A to B: %v, B to A: %v)", pattern, ok1, ok2), detail)
				}
			}
			if !conv {
				key := "not-converged"
				if giveUp && pattern == 3 {
					key = fmt.Sprintf("not-converged:silence-after-give-up:A=%v:B=%v", fta, ftb)
					// one node holds nothing, the other only the responder side of a handshake (A's responder side is
					// pair y, B's is pair x): the initiator of that handshake let its side go as an idle non-primary
					if (len(fta) == 0 && len(ftb) == 1 && ftb[0] == "x") || (len(ftb) == 0 && len(fta) == 1 && fta[0] == "y") {
						key = "not-converged:silence-after-give-up:idle-responder-side-outlives-initiator-side"
					}
				}
				add(key, fmt.Sprintf("after the quiet period (traffic pattern %d) the nodes hold A=%v B=%v (primaries %s/%s); A swapped %d times, B %d times", pattern, fta, ftb, fpa, fpb, swappedA, swappedB), detail)
			} else if pattern == 0 && !giveUp && (!data(w.A, w.B) || !data(w.B, w.A)) {
				add("converged-but-no-traffic", "one tunnel on each side but data does not pass", detail)
			}
			if swappedA+swappedB > 0 {
				res.Hit("swap-observed")
			}
			if len(c.Ta) == 2 && len(c.Tb) == 2 {
				res.Hit("double-tunnel-case")
			}
			_ = synctest.Wait
			_ = nebula.VerifMsgName
		})
		for _, mm := range mism {
			res.Mismatch(mm.Key, mm.What, mm.Detail)
		}
		res.Case(fmt.Sprintf("%v", c.Hist))
		res.Traces++
		if ci == len(cases)/2 {
			res.Sample(c)
		}
	}
}
