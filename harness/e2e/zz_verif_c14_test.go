//go:build e2e_testing

package e2e

// C14 — unauthenticated packets have no effect (spec/RxPipeline.tla, vector mode on whole nodes).
//
// World (synctest bubble): B is the node under test (also the lighthouse of A); A has a direct tunnel
// to B and produces the genuine packets; C has another live tunnel to B ("otherlive" index); D reaches
// B only through the relay R (relayed packets). For every vector TLC emitted, a genuine datagram of
// that kind is captured before it reaches B, altered as the vector says on its real bytes, and
// injected; B's whole projection (hostmap, tunnels incl. remote/liveness/roam/window, pending
// handshakes, lighthouse cache), its tun output and its emissions are compared before and after.

import (
	"encoding/json"
	"fmt"
	"net/netip"
	"reflect"
	"testing"
	"testing/synctest"
	"time"

	"github.com/slackhq/nebula"
	"github.com/slackhq/nebula/cert"
	"github.com/slackhq/nebula/header"
)

type c14Vec struct {
	In struct {
		Kind string            `json:"kind"`
		M    map[string]string `json:"m"`
	} `json:"in"`
	Exp string `json:"exp"`
}

type c14World struct {
	*vNet
	A, B, C, D, R *vNode
}

func c14NewWorld(t *testing.T, acceptRecvError string) *c14World {
	n := vNewNet(t)
	w := &c14World{vNet: n}
	quiet := m{"connection_alive_interval": 3600, "pending_deletion_interval": 3600}
	w.B = n.AddNode(cert.Version2, "B", "10.128.0.2/24", m{"lighthouse": m{"am_lighthouse": true, "interval": 0}, "timers": quiet,
		"listen": m{"accept_recv_error": acceptRecvError}, "relay": m{"use_relays": true}})
	lhm := func(extra m) m {
		o := m{"lighthouse": m{"hosts": []string{"10.128.0.2"}, "interval": 0}, "timers": quiet,
			"static_host_map": m{"10.128.0.2": []string{w.B.UDP.String()}}}
		for k, v := range extra {
			o[k] = v
		}
		return o
	}
	w.A = n.AddNode(cert.Version2, "A", "10.128.0.1/24", lhm(nil))
	w.C = n.AddNode(cert.Version2, "C", "10.128.0.3/24", lhm(nil))
	w.R = n.AddNode(cert.Version2, "R", "10.128.0.128/24", m{"relay": m{"am_relay": true}, "timers": quiet})
	w.D = n.AddNode(cert.Version2, "D", "10.128.0.4/24", m{"relay": m{"use_relays": true}, "timers": quiet})
	w.D.Ctrl.InjectLightHouseAddr(w.R.Vpn[0].Addr(), w.R.UDP)
	w.D.Ctrl.InjectRelays(w.B.Vpn[0].Addr(), []netip.Addr{w.R.Vpn[0].Addr()})
	w.R.Ctrl.InjectLightHouseAddr(w.B.Vpn[0].Addr(), w.B.UDP)
	n.Start()
	// establish: A-B, C-B direct; D-B through R
	for _, nd := range []*vNode{w.A, w.C, w.D} {
		n.TunSend(nd, vUDPPacket(nd.Vpn[0].Addr(), w.B.Vpn[0].Addr(), 4000, 5000, []byte("hello")))
	}
	for i := 0; i < 40; i++ {
		if n.PumpOnce() == 0 {
			n.Advance(100 * time.Millisecond)
		}
	}
	w.B.TakeTun()
	return w
}

// capture makes `from` produce one genuine packet of the kind for B and returns the datagram addressed to B's
// underlay address without delivering it (relayed: the datagram the relay forwards).
func (w *c14World) capture(kind string, seq int) *vDatagram {
	b := w.B.Vpn[0].Addr()
	for _, nd := range w.sorted() {
		nd.TakeUDP()
	}
	switch kind {
	case "data":
		w.TunSend(w.A, vUDPPacket(w.A.Vpn[0].Addr(), b, 4000, 5000, []byte(fmt.Sprintf("data-%d", seq))))
	case "testreq":
		w.A.Ctrl.VerifSend(header.Test, header.TestRequest, b, []byte(fmt.Sprintf("t%d", seq)))
	case "testreply":
		w.A.Ctrl.VerifSend(header.Test, header.TestReply, b, []byte(fmt.Sprintf("r%d", seq)))
	case "close":
		w.A.Ctrl.VerifSend(header.CloseTunnel, 0, b, []byte{})
	case "lighthouse":
		w.A.Ctrl.VerifSend(header.LightHouse, 0, b, nebula.VerifLighthouseQuery(w.C.Vpn[0].Addr()))
	case "control":
		w.A.Ctrl.VerifSend(header.Control, 0, b, nebula.VerifControlMsg(w.A.Vpn[0].Addr(), w.C.Vpn[0].Addr(), uint32(7000+seq)))
	case "relayed":
		w.TunSend(w.D, vUDPPacket(w.D.Vpn[0].Addr(), b, 4000, 5000, []byte(fmt.Sprintf("relayed-%d", seq))))
		synctest.Wait()
		for _, d := range w.D.TakeUDP() { // D -> R
			w.Deliver(d)
		}
		for _, d := range w.R.TakeUDP() { // R -> B, not delivered
			if d.To == w.B.UDP {
				return d
			}
		}
		return nil
	}
	synctest.Wait()
	for _, d := range w.A.TakeUDP() {
		if d.To == w.B.UDP {
			return d
		}
	}
	return nil
}

func (w *c14World) project() map[string]any {
	st := w.B.Ctrl.VerifProject()
	b, _ := json.Marshal(st)
	var hostmap any
	_ = json.Unmarshal(b, &hostmap)
	lb, _ := json.Marshal(w.B.Ctrl.VerifLighthouse())
	var lh any
	_ = json.Unmarshal(lb, &lh)
	return map[string]any{"hostmap": hostmap, "lighthouse": lh}
}

// alter applies the vector's alterations to a copy of g. ok=false when the alteration does not exist for this packet.
func (w *c14World) alter(g, q *vDatagram, mm map[string]string, from *vNode) (data []byte, src netip.AddrPort, ok bool) {
	data = append([]byte(nil), g.Data...)
	src = g.From
	h := g.H
	tagLen := 16
	bodyLo, bodyHi := header.Len, len(data)-tagLen
	switch mm["body"] {
	case "bitflip":
		if bodyHi <= bodyLo {
			return nil, src, false
		}
		data[bodyLo+(bodyHi-bodyLo)/2] ^= 0x10
	case "headeronly":
		data = data[:header.Len]
	case "short":
		if len(data) <= header.Len+8 {
			data = data[:header.Len+1]
		} else {
			data = data[:header.Len+8]
		}
	case "cut1":
		data = data[:len(data)-1]
	case "extended":
		data = append(data, 0x5a)
	case "otherbody":
		if q == nil {
			return nil, src, false
		}
		data = append(append([]byte(nil), g.Data[:header.Len]...), q.Data[header.Len:]...)
	}
	if mm["tag"] == "flipped" {
		if len(data) <= header.Len {
			return nil, src, false
		}
		data[len(data)-1] ^= 0x01
	}
	ver, typ, sub := uint8(header.Version), h.Type, h.Subtype
	idx, ctr := h.RemoteIndex, h.MessageCounter
	if mm["ver"] == "other" {
		ver = 2
	}
	switch mm["typ"] {
	case "handshake":
		typ, sub = header.Handshake, header.HandshakeIXPSK0
	case "recverror":
		typ, sub = header.RecvError, 0
	case "othertype":
		if typ == header.Message && sub == 0 {
			typ, sub = header.CloseTunnel, 0
		} else {
			typ, sub = header.Message, 0
		}
	case "invalid":
		typ, sub = header.Test, 9
	}
	st := w.B.Ctrl.VerifProject()
	switch mm["idx"] {
	case "otherlive":
		found := false
		for li, t := range st.Tunnels {
			if li != h.RemoteIndex && t.CertName == "C" {
				idx, found = li, true
			}
		}
		if !found {
			return nil, src, false
		}
	case "unknown":
		idx = 0x7fffff01
	case "reverse":
		// the index the peer uses for this tunnel: what a recv_error from that peer would carry
		t, okk := st.Tunnels[h.RemoteIndex]
		if !okk {
			// relayed outer packets carry a relay index: use the relay tunnel's remote index
			found := false
			for _, tt := range st.Tunnels {
				if tt.CertName == from.Name {
					idx, found = tt.RemoteIndex, true
				}
			}
			if !found {
				return nil, src, false
			}
		} else {
			idx = t.RemoteIndex
		}
	}
	switch mm["ctr"] {
	case "fresh":
		ctr += 1000
	case "ceiling":
		ctr = ^uint64(0) - (1 << 40) // the first counter a sender must never use
	case "max":
		ctr = ^uint64(0)
	}
	hb := header.Encode(make([]byte, header.Len), ver, typ, sub, idx, ctr)
	if mm["resv"] == "flipped" {
		hb[2] ^= 0x01
	}
	copy(data[:header.Len], hb)
	switch mm["src"] {
	case "spoofed":
		src = netip.MustParseAddrPort("10.0.0.77:4242")
	case "overlay":
		src = netip.MustParseAddrPort("10.128.0.77:4242")
	}
	return data, src, true
}

func c14Genuine(mm map[string]string) bool {
	for _, f := range []string{"ver", "typ", "resv", "idx", "ctr", "body", "tag"} {
		if mm[f] != "orig" {
			return false
		}
	}
	return true
}

func TestVerif_C14(t *testing.T) {
	res := vNewResult()
	defer res.Write(t)
	accept := "always"
	if v := vEnv("VERIF_C14_ACCEPT_RECV_ERROR"); v != "" {
		accept = v
	}
	byKind := map[string][]c14Vec{}
	var kinds []string
	vReadNDJSON(t, "vectors.ndjson", func(line []byte) {
		var v c14Vec
		if err := json.Unmarshal(line, &v); err != nil {
			t.Fatalf("vector: %v", err)
		}
		if _, ok := byKind[v.In.Kind]; !ok {
			kinds = append(kinds, v.In.Kind)
		}
		byKind[v.In.Kind] = append(byKind[v.In.Kind], v)
	})
	sortStrings(kinds)
	for _, kind := range kinds {
		vecs := byKind[kind]
		// phase 1: everything that must leave the node untouched, in one world; phase 2: vectors that act
		// (genuine deliveries, recv_error teardown), each in its own world; phase 3: "seen" vectors after
		// the genuine packet was accepted.
		var inert, acting, seen []c14Vec
		for _, v := range vecs {
			switch {
			case v.In.M["ctr"] == "seen":
				seen = append(seen, v)
			case v.Exp == "effect" || v.Exp == "recverr-teardown":
				acting = append(acting, v)
			default:
				inert = append(inert, v)
			}
		}
		run := func(batch []c14Vec, deliverGenuineFirst bool, label string) {
			if len(batch) == 0 {
				return
			}
			vBubble(t, func(t *testing.T) {
				w := c14NewWorld(t, accept)
				defer w.Stop()
				from := w.A
				if kind == "relayed" {
					from = w.R
				}
				g := w.capture(kind, 1)
				q := w.capture(kind, 2)
				if g == nil || q == nil {
					res.Hit("uncaptured:" + kind)
					if _, ok := res.Extra["uncaptured:"+kind]; !ok {
						db, _ := json.Marshal(map[string]any{"D": w.D.Ctrl.VerifProject(), "R": w.R.Ctrl.VerifProject(), "B": w.B.Ctrl.VerifProject()})
						res.Extra["uncaptured:"+kind] = string(db)
					}
					return
				}
				res.Hit("captured:" + kind)
				if deliverGenuineFirst {
					w.Deliver(g)
					w.B.TakeTun()
					w.B.TakeUDP()
				}
				for _, v := range batch {
					data, src, ok := w.alter(g, q, v.In.M, from)
					if !ok {
						res.Hit("n/a")
						continue
					}
					// the connection manager samples (reads and clears) the traffic marks when its timer fires; do the same so
					// that a liveness update by the packet under test is visible in the projection
					if w.B.Ctrl.VerifSampleLiveness() > 0 {
						res.Hit("liveness-marks-cleared")
					}
					before := w.project()
					w.B.TakeTun()
					w.B.TakeUDP()
					w.DeliverTo(&vDatagram{Data: data}, w.B.UDP, src)
					after := w.project()
					tun := w.B.TakeTun()
					out := w.B.TakeUDP()
					id, _ := json.Marshal(v.In)
					res.Case(string(id))
					res.Hit("exp:" + v.Exp)
					changed := !reflect.DeepEqual(before, after)
					detail := map[string]any{"vector": v.In, "expected": v.Exp, "genuine": vDesc(g), "injected_from": src.String(), "bytes": fmt.Sprintf("%x", data)}
					key := fmt.Sprintf("%s:%s", kind, c14MutName(v.In.M))
					switch v.Exp {
					case "none", "hs-refused", "recverr-reply":
						if changed {
							detail["before"], detail["after"] = before, after
							res.Mismatch("state-changed:"+key, fmt.Sprintf("an altered %s packet (%s) changed the node's state", kind, c14MutName(v.In.M)), detail)
						}
						if len(tun) > 0 {
							res.Mismatch("delivered:"+key, fmt.Sprintf("an altered %s packet (%s) was delivered to the tun device", kind, c14MutName(v.In.M)), detail)
						}
						for _, d := range out {
							if d.H.Type == header.RecvError && v.Exp == "recverr-reply" {
								continue
							}
							detail["emitted"] = vDesc(d)
							res.Mismatch("answered:"+key, fmt.Sprintf("an altered %s packet (%s) was answered with %s", kind, c14MutName(v.In.M), vDesc(d)), detail)
						}
						if changed || len(tun) > 0 {
							return // the world is no longer the one the remaining vectors assume
						}
					case "recverr-teardown":
						if changed {
							// the named deviation of the model: an unencrypted recv_error naming the peer's index closes the tunnel
							res.Mismatch("recv_error-teardown", fmt.Sprintf("a %s packet rewritten into a recv_error (index = the peer's index, sent from the tunnel's underlay address) tore the tunnel down without authentication", kind), detail)
						} else {
							res.Hit("teardown-did-not-happen")
						}
						return
					case "effect":
						if !changed && len(tun) == 0 && len(out) == 0 {
							res.Hit("genuine-without-visible-effect:" + kind)
						} else {
							res.Hit("genuine-acted:" + kind)
						}
						return
					}
				}
			})
			_ = label
		}
		run(inert, false, "inert")
		for _, v := range acting {
			run([]c14Vec{v}, false, "acting")
		}
		run(seen, true, "seen")
	}
}

func c14MutName(mm map[string]string) string {
	s := ""
	for _, f := range []string{"ver", "typ", "resv", "idx", "ctr", "body", "tag", "src"} {
		if mm[f] != "orig" {
			if s != "" {
				s += "+"
			}
			s += f + "=" + mm[f]
		}
	}
	if s == "" {
		return "unaltered"
	}
	return s
}
