//go:build e2e_testing

package e2e

// C49 — stopping a node at any point releases everything (spec/Lifecycle.tla).
//
// R: every distinct environment history TLC finds for the life-cycle model (scenario stimuli, Start,
// Stop after any phase, a second Stop, Start after Stop) is replayed on three complete nodes
// (lighthouse L, A, B) in a synctest bubble with the chosen node as the one under test. Oracle after
// the history: all nodes and the harness' own helpers are stopped, synctest.Wait() gives quiescence,
// and every goroutine that still belongs to the bubble (runtime.Stack marks them) is a leak; the
// stop call must return without virtual time passing; the tun device refuses writes.

import (
	"encoding/json"
	"fmt"
	"net/netip"
	"regexp"
	"runtime"
	"strings"
	"testing"
	"testing/synctest"
	"time"

	"github.com/slackhq/nebula"
	"github.com/slackhq/nebula/cert"
	"github.com/slackhq/nebula/header"
	"go.yaml.in/yaml/v3"
)

type c49Plan struct {
	Histories [][]string `json:"histories"`
}

var c49Goroutine = regexp.MustCompile(`(?m)^goroutine (\d+) \[([^\]]*)\]:\n((?:.+\n)+)`)

// c49BubbleGoroutines returns the stacks of goroutines of the current bubble other than the caller's.
func c49BubbleGoroutines() []string {
	buf := make([]byte, 1<<22)
	buf = buf[:runtime.Stack(buf, true)]
	var out []string
	for i, m := range c49Goroutine.FindAllStringSubmatch(string(buf), -1) {
		if i == 0 {
			continue // the caller
		}
		if !strings.Contains(m[2], "synctest bubble") {
			continue
		}
		if strings.Contains(m[3], "testing/synctest.testingSynctestTest") || strings.Contains(m[3], "synctest.Run") {
			continue // bubble plumbing
		}
		out = append(out, fmt.Sprintf("[%s] %s", m[2], m[3]))
	}
	return out
}

func TestVerif_C49(t *testing.T) {
	res := vNewResult()
	defer res.Write(t)
	var plan c49Plan
	vReadJSON(t, "c49_plan.json", &plan)
	targets := []string{"A", "B", "L"}
	for hi, hist := range plan.Histories {
		for _, target := range targets {
			if vQuick() && (hi+len(target)+int(target[0]))%3 != 0 {
				continue // quick tier: each history on one of the three roles
			}
			var leaks []string
			var stopTook time.Duration
			tunRefuses := true
			stopped := false
			stopHangs := false
			openSockets := 0
			// every other history: the node under test is configured with two routines; Main then opens two udp sockets
			// and activate() clamps the readers to the single queue the test device has
			routines := 1 + hi%2
			bubblePanic := vBubble(t, func(t *testing.T) {
				n := vNewNet(t)
				punchy := m{"punch": true, "respond": false, "delay": "1s"}
				lh := n.AddNode(cert.Version2, "L", "10.128.0.1/24", m{"lighthouse": m{"am_lighthouse": true, "interval": 1}, "punchy": punchy})
				lhm := m{"lighthouse": m{"hosts": []string{"10.128.0.1"}, "interval": 1}, "punchy": punchy,
					"static_host_map": m{"10.128.0.1": []string{lh.UDP.String()}}}
				a := n.AddNode(cert.Version2, "A", "10.128.0.2/24", lhm)
				b := n.AddNode(cert.Version2, "B", "10.128.0.3/24", lhm)
				a.Ctrl.InjectLightHouseAddr(b.Vpn[0].Addr(), b.UDP)
				b.Ctrl.InjectLightHouseAddr(a.Vpn[0].Addr(), a.UDP)
				tn := n.Nodes[target]
				started := map[string]bool{}
				// half of the histories (in blocks of three): the node under test hands lighthouse queries over on an unbuffered channel
				// (handshakes.query_buffer: 0; default 64)
				qb0 := (hi/3)%2 == 1
				if routines > 1 || qb0 {
					// rebuild the node under test with `routines: 2` (same certificate name, addresses and role)
					over := m{"routines": routines}
					if qb0 {
						over["handshakes"] = m{"query_buffer": 0}
						res.Hit("query_buffer:0")
					}
					for k, v := range map[string]m{"L": {"lighthouse": m{"am_lighthouse": true, "interval": 1}}, "A": lhm, "B": lhm}[target] {
						over[k] = v
					}
					tn.Ctrl.Stop()
					delete(n.byUDP, tn.UDP)
					tn = n.AddNode(cert.Version2, target, tn.Vpn[0].String(), over)
					if target == "A" {
						a = tn
						a.Ctrl.InjectLightHouseAddr(b.Vpn[0].Addr(), b.UDP)
					} else if target == "B" {
						b = tn
						b.Ctrl.InjectLightHouseAddr(a.Vpn[0].Addr(), a.UDP)
					}
					if routines > 1 {
						res.Hit("routines:2")
					}
				}
				sockets := tn.Ctrl.VerifSockets()
				if len(sockets) == routines {
					res.Hit(fmt.Sprintf("sockets:%d", len(sockets)))
				}
				startNode := func(nd *vNode) {
					if err := nd.Ctrl.Start(); err == nil {
						started[nd.Name] = true
						n.drain(nd)
					}
				}
				for _, nd := range n.sorted() {
					if nd != tn {
						startNode(nd)
					}
				}
				synctest.Wait()
				pkt := func() {
					n.TunSend(a, vUDPPacket(a.Vpn[0].Addr(), b.Vpn[0].Addr(), 4000, 5000, []byte("c49")))
				}
				for _, step := range hist {
					res.Hit(step)
					switch step {
					case "configure":
					case "Start":
						startNode(tn)
						synctest.Wait()
					case "Stop":
						t0 := time.Now()
						// the context is cancelled while the node's goroutines are still parked behind the full transmit
						// queue (Stop cancels first); the queue is emptied again only once Stop itself blocks
						tn.ReleaseNoWait()
						done := make(chan struct{})
						go func() {
							tn.Ctrl.Stop()
							close(done)
						}()
						synctest.Wait()
						select {
						case <-done:
						default:
							// Stop waits for something: give it (virtual) time; if it still has not returned it waits for
							// something that never comes
							n.Advance(3 * time.Second)
							select {
							case <-done:
							default:
								stopHangs = true
							}
						}
						if d := time.Since(t0); d > stopTook {
							stopTook = d
						}
						stopped = true
						synctest.Wait()
					case "rebind":
						// the underlay changed (mobile clients, network change watcher): Control.RebindUDPServer
						if started[tn.Name] {
							tn.Ctrl.RebindUDPServer()
							synctest.Wait()
							res.Hit("rebind:on-started-node")
						}
					case "tunsend":
						pkt()
					case "hs1", "hs2":
						n.PumpOnce()
					case "data":
						n.PumpOnce()
						pkt()
						n.PumpOnce()
					case "reload":
						s := map[string]any{}
						for k, v := range tn.Cfg.Settings {
							s[k] = v
						}
						s["logging"] = map[string]any{"level": "warning"}
						s["punchy"] = map[string]any{"punch": true, "respond": true}
						raw, err := yaml.Marshal(s)
						if err != nil {
							t.Fatalf("yaml: %v", err)
						}
						_ = tn.Cfg.ReloadConfigString(string(raw))
						synctest.Wait()
					case "advance":
						n.Advance(5 * time.Second)
						n.PumpOnce()
					case "punchburst":
						// a lighthouse punch notification with more addresses than the punch queue holds, while the node's
						// transmit queue is not emptied: the punch worker falls behind and the timer callbacks wait for room
						if tn == lh || !started[tn.Name] {
							res.Hit("punchburst:n/a")
							continue
						}
						other := a
						if tn == a {
							other = b
						}
						var addrs []netip.AddrPort
						for k := 0; k < 129; k++ {
							addrs = append(addrs, netip.AddrPortFrom(netip.AddrFrom4([4]byte{192, 0, 2, byte(1 + k%250)}), uint16(20000+k)))
						}
						payload := nebula.VerifLighthouseMsg(int32(nebula.NebulaMeta_HostPunchNotification), other.Vpn[0].Addr(), addrs, nil, false)
						tn.Hold()
						if lh.Ctrl.VerifSendOnTunnel(header.LightHouse, 0, tn.Vpn[0].Addr(), payload) {
							synctest.Wait()
							for _, d := range lh.TakeUDP() {
								if d.To == tn.UDP {
									n.Deliver(d)
								}
							}
							n.Advance(2 * time.Second)
							res.Hit("punchburst:sent")
						} else {
							res.Hit("punchburst:no-tunnel")
						}
					case "lighthouse":
						n.Advance(2 * time.Second)
						n.PumpOnce()
						n.Advance(2 * time.Second)
					default:
						t.Fatalf("unknown step %s", step)
					}
				}
				// the oracle needs everything else out of the way
				for _, nd := range n.sorted() {
					if nd != tn {
						nd.Ctrl.Stop()
					}
				}
				synctest.Wait()
				for _, nd := range n.sorted() {
					close(nd.stop)
				}
				synctest.Wait()
				if stopped {
					leaks = c49BubbleGoroutines()
					if _, err := tn.Ctrl.VerifTunWrite(); err == nil {
						tunRefuses = false
					}
					// every socket Main opened is closed now: a reader started on it returns at once (on an open tester socket it
					// would wait for datagrams for ever; such a socket is closed here to unwind)
					for _, sk := range sockets {
						errc := make(chan error, 1)
						go func() { errc <- sk.ListenOut(func(netip.AddrPort, []byte) {}, func() {}) }()
						synctest.Wait()
						select {
						case <-errc:
						default:
							openSockets++
							_ = sk.Close()
							synctest.Wait()
						}
					}
					if len(leaks) > 0 {
						// do not leave the bubble with blocked goroutines (that aborts the process): release what we can
						tn.Ctrl.VerifForceClose()
						synctest.Wait()
					}
				} else {
					tn.Ctrl.Stop()
					synctest.Wait()
				}
			})
			if bubblePanic != nil && len(leaks) == 0 {
				t.Fatalf("verif: bubble ended abnormally without a recorded leak: %v", bubblePanic)
			}
			res.Case(fmt.Sprintf("%v/%s", hist, target))
			res.Traces++
			if !stopped {
				continue
			}
			detail := map[string]any{"history": hist, "node_under_test": target}
			if len(leaks) > 0 {
				detail["goroutines"] = leaks
				first := strings.SplitN(leaks[0], "\n", 3)
				where := ""
				if len(first) > 1 {
					where = strings.TrimSpace(first[1])
				}
				res.Mismatch("leak:"+c49Func(leaks[0]), fmt.Sprintf("after history %v on node %s %d goroutine(s) of the node survive Stop: %s", hist, target, len(leaks), where), detail)
			}
			if stopHangs {
				res.Mismatch("stop:hangs", fmt.Sprintf("Stop did not return within 3 s of virtual time after history %v on node %s (routines %d, query_buffer 0: %v)", hist, target, routines, (hi/3)%2 == 1), detail)
			} else if stopTook > time.Second {
				res.Mismatch("stop:slow", fmt.Sprintf("Stop took %v of virtual time after history %v on node %s", stopTook, hist, target), detail)
			}
			if openSockets > 0 {
				res.Mismatch(fmt.Sprintf("socket:open:routines-%d", routines), fmt.Sprintf("%d of the %d udp socket(s) the node opened still accept writes after Stop (history %v, node %s, routines: %d)", openSockets, routines, hist, target, routines), detail)
			}
			if !tunRefuses {
				res.Mismatch("tun:open", fmt.Sprintf("the tun device still accepts writes after Stop (history %v, node %s)", hist, target), detail)
			}
		}
	}
	b, _ := json.Marshal(plan.Histories[len(plan.Histories)/2])
	res.Sample(json.RawMessage(b))
	_ = netip.Addr{}
}

var c49FuncRe = regexp.MustCompile(`github\.com/slackhq/nebula([\w./]*(?:\(\*\w+\))?[\w.]*)\(`)

// c49Func names the first nebula function on a goroutine's stack (the key of a leak).
func c49Func(stack string) string {
	if m := c49FuncRe.FindStringSubmatch(stack); m != nil {
		return "nebula" + m[1]
	}
	return "unknown"
}
