//go:build e2e_testing

package e2e

// C07, HandshakeManager stage (spec/HsReject.tla): a REJECTED handshake message is a stutter step of the manager state
// of the node that receives it, wherever it comes from; the genuine message delivered afterwards completes the
// handshake exactly as if the rejected message had never arrived.
//
// Complete nodes (nebula.Main) in a synctest bubble, the harness is the network:
//
//	A  10.128.0.1    the initiator of the session under test (and, before it, of a session with C)
//	B  10.128.0.2    the responder
//	Y  10.128.0.128  a relay (am_relay)
//	C  10.128.0.3    the peer of the other session
//	10.66.6.6:6666   an underlay address nobody owns
//
// For every vector (situation S, genuine message direct | through the relay, rejected message R = base message x delivery
// operation x header treatment, source of R) two worlds are run from the same script -- the control world without R
// (one per situation) and the world in which R reaches the reading node just before the genuine message -- and compared:
//
//	after R   : the outcome class must be one the vector allows (same | abandoned); for "same" the projected state of
//	            every node is what it was before R (tunnels, pending handshakes, remote, learned underlay addresses,
//	            lighthouse cache, relays, relay records);
//	after g   : projected state of every node and everything the nodes emit from then on (more traffic both ways,
//	            timers) equal the control world's; the completed tunnel sends where the vector says (peer | relay only).
//
// Indexes and addresses are compared by role (random values differ between worlds), ciphertext is not compared.

import (
	"bytes"
	"encoding/json"
	"fmt"
	"math/rand"
	"net/netip"
	"sort"
	"strings"
	"testing"
	"testing/synctest"
	"time"

	"github.com/slackhq/nebula"
	"github.com/slackhq/nebula/cert"
	"github.com/slackhq/nebula/handshake"
	"github.com/slackhq/nebula/header"
)

type c07Vec struct {
	Sit     string   `json:"sit"`
	Gvia    string   `json:"gvia"`
	Path    string   `json:"path"`
	Base    string   `json:"base"`
	Op      string   `json:"op"`
	Arg     string   `json:"arg"`
	Hdr     string   `json:"hdr"`
	Ctr     int      `json:"ctr"`
	Idx     string   `json:"idx"`
	Sub     bool     `json:"sub"`
	Route   string   `json:"route"`
	Kinds   []string `json:"kinds"`
	Allowed []string `json:"allowed"`
	Remote  string   `json:"remote"`
}

func (v c07Vec) class() string {
	s := v.Base + "-" + c07OpName(v.Op, v.Arg)
	if v.Hdr != "asis" {
		s += "+" + v.Hdr
	}
	return s
}

func (v c07Vec) allows(o string) bool {
	for _, a := range v.Allowed {
		if a == o {
			return true
		}
	}
	return false
}

func c07OpName(op, arg string) string {
	switch op {
	case "id":
		return "unmodified"
	case "short":
		return "shorter-than-header"
	case "hdr":
		return "truncated-header-only"
	case "in_e":
		return "truncated-inside-ephemeral"
	case "after_e":
		return "truncated-after-ephemeral"
	case "in_s":
		return "truncated-inside-static"
	case "after_s":
		return "truncated-after-static"
	case "in_p":
		return "truncated-inside-payload"
	case "bad_e":
		return "ephemeral-" + arg
	case "sub_e":
		return "ephemeral-substituted"
	case "splice_e":
		return "ephemeral-of-" + arg
	case "splice_p":
		return "payload-of-" + arg
	case "flip_s":
		return "static-bit-flip"
	case "flip_p":
		return "payload-bit-flip"
	case "idx":
		return "index-rewritten"
	}
	return op
}

var c07Stray = netip.MustParseAddrPort("10.66.6.6:6666")

type c07World struct {
	*vNet
	A, B, Y, C *vNode
	sit, gvia  string
	reader     *vNode // the node that receives R and the genuine message
	peer       *vNode
	msgs       map[string][]byte // base name -> handshake datagram (header + noise message)
	gDirect    *vDatagram
	gRelay     *vDatagram
	held       []*vDatagram
	logOn      bool
	emis       []string
	idxName    map[uint32]string
	idxCount   map[string]int
	udpName    map[netip.AddrPort]string
	vpnName    map[netip.Addr]string
	t0         time.Time
	problems   []string
}

func c07NewWorld(t testing.TB, sit, gvia string) *c07World {
	n := vNewNet(t)
	w := &c07World{vNet: n, sit: sit, gvia: gvia, msgs: map[string][]byte{}, idxName: map[uint32]string{}, idxCount: map[string]int{},
		udpName: map[netip.AddrPort]string{c07Stray: "stray"}, vpnName: map[netip.Addr]string{}}
	common := func(extra m) m {
		o := m{"timers": m{"connection_alive_interval": 3600, "pending_deletion_interval": 3600}, "listen": m{"send_recv_error": "never"},
			"handshakes": m{"try_interval": "100ms", "retries": 20}, "tunnels": m{"drop_inactive": false}}
		for k, v := range extra {
			o[k] = v
		}
		return o
	}
	w.A = n.AddNode(cert.Version2, "A", "10.128.0.1/24", common(m{"relay": m{"use_relays": true}}))
	w.B = n.AddNode(cert.Version2, "B", "10.128.0.2/24", common(m{"relay": m{"use_relays": true}}))
	w.C = n.AddNode(cert.Version2, "C", "10.128.0.3/24", common(m{"relay": m{"use_relays": true}}))
	w.Y = n.AddNode(cert.Version2, "Y", "10.128.0.128/24", common(m{"relay": m{"am_relay": true}}))
	for _, nd := range []*vNode{w.A, w.B, w.C, w.Y} {
		w.udpName[nd.UDP] = nd.Name
		w.vpnName[nd.Vpn[0].Addr()] = nd.Name
	}
	va, vb, vc, vy := w.A.Vpn[0].Addr(), w.B.Vpn[0].Addr(), w.C.Vpn[0].Addr(), w.Y.Vpn[0].Addr()
	w.A.Ctrl.InjectLightHouseAddr(vc, w.C.UDP)
	direct := sit == "init_direct" || sit == "init_both" || sit == "resp_fresh" || sit == "resp_answered"
	relayed := sit == "init_relay" || sit == "init_both" || sit == "resp_relay"
	if direct {
		w.A.Ctrl.InjectLightHouseAddr(vb, w.B.UDP)
	}
	if relayed {
		w.A.Ctrl.InjectLightHouseAddr(vy, w.Y.UDP)
		w.A.Ctrl.InjectRelays(vb, []netip.Addr{vy})
		w.B.Ctrl.InjectLightHouseAddr(vy, w.Y.UDP)
		w.B.Ctrl.InjectRelays(va, []netip.Addr{vy})
		w.Y.Ctrl.InjectLightHouseAddr(va, w.A.UDP)
		w.Y.Ctrl.InjectLightHouseAddr(vb, w.B.UDP)
	}
	w.reader, w.peer = w.A, w.B
	if strings.HasPrefix(sit, "resp") {
		w.reader, w.peer = w.B, w.A
	}
	return w
}

func (w *c07World) problem(f string, a ...any) { w.problems = append(w.problems, fmt.Sprintf(f, a...)) }

// inner returns the handshake datagram a datagram carries: itself, or what a relay message wraps
func c07Inner(d *vDatagram) ([]byte, header.H, bool) {
	if d.H.Type == header.Handshake {
		return d.Data, d.H, true
	}
	if d.H.Type == header.Message && d.H.Subtype == header.MessageRelay && len(d.Data) > 2*header.Len+16 {
		in := d.Data[header.Len : len(d.Data)-16]
		var h header.H
		if err := h.Parse(in); err == nil && h.Type == header.Handshake {
			return in, h, true
		}
	}
	return nil, header.H{}, false
}

func (w *c07World) name(a netip.AddrPort) string {
	if n, ok := w.udpName[a]; ok {
		return n
	}
	return "?" + a.String()
}

func (w *c07World) idx(i uint32) string {
	if i == 0 {
		return "0"
	}
	if n, ok := w.idxName[i]; ok {
		return n
	}
	return "?"
}

// learn names a local index by role the first time a snapshot sees it
func (w *c07World) learn(i uint32, role string) string {
	if i == 0 {
		return "0"
	}
	if n, ok := w.idxName[i]; ok {
		return n
	}
	w.idxCount[role]++
	w.idxName[i] = fmt.Sprintf("%s#%d", role, w.idxCount[role])
	return w.idxName[i]
}

func (w *c07World) emitted(d *vDatagram) {
	if !w.logOn {
		return
	}
	s := fmt.Sprintf("%s->%s %s/%s idx=%s", d.Node, w.name(d.To), d.H.TypeName(), d.H.SubTypeName(), w.idx(d.H.RemoteIndex))
	if d.H.Type == header.Handshake {
		s += fmt.Sprintf(" stage=%d", d.H.MessageCounter)
	} else if in, h, ok := c07Inner(d); ok {
		s += fmt.Sprintf(" [%s/%s idx=%s stage=%d]", h.TypeName(), h.SubTypeName(), w.idx(h.RemoteIndex), h.MessageCounter)
		_ = in
	} else if d.H.Type == header.Message && d.H.Subtype == header.MessageNone {
		s += fmt.Sprintf(" len=%d", len(d.Data))
	}
	w.emis = append(w.emis, s)
}

// pump delivers what is in flight until nothing moves; datagrams for which hold answers true are set aside
func (w *c07World) pump(hold func(*vDatagram) bool) {
	for r := 0; r < 60; r++ {
		moved := 0
		for _, nd := range w.sorted() {
			for _, d := range nd.TakeUDP() {
				w.emitted(d)
				if hold != nil && hold(d) {
					w.held = append(w.held, d)
					continue
				}
				if w.Deliver(d) {
					moved++
				}
			}
		}
		if moved == 0 {
			return
		}
	}
	w.problem("network did not become quiet")
}

func (w *c07World) tun(from, to *vNode, tag string) {
	w.TunSend(from, vUDPPacket(from.Vpn[0].Addr(), to.Vpn[0].Addr(), 4000, 5000, []byte(tag)))
}

// ---------------------------------------------------------------------------------------------- projection

type c07Host struct {
	Node, Peer, Cert  string
	Pending           bool
	Local, RemoteIdx  string
	Initiator, Keys   bool
	Remote            string
	Learned           []string
	CacheLearn        []string
	CacheReport       []string
	CacheRelay        []string
	Blocked           []string
	Relays            []string
	RelayFor          []string
	Ready             bool
	Queued            int
	Tries             int64
	HsTimeMs          int64
	LastRoam          string
}

func (w *c07World) addrs(in []string) []string {
	out := make([]string, 0, len(in))
	for _, s := range in {
		owner, a, has := strings.Cut(s, "=")
		if !has {
			a, owner = owner, ""
		}
		nm := a
		if ap, err := netip.ParseAddrPort(a); err == nil {
			nm = w.name(ap)
		} else if ad, err := netip.ParseAddr(a); err == nil {
			if n, ok := w.vpnName[ad]; ok {
				nm = "vpn:" + n
			}
		}
		if has {
			if ad, err := netip.ParseAddr(owner); err == nil {
				if n, ok := w.vpnName[ad]; ok {
					owner = n
				}
			}
			nm = owner + "=" + nm
		}
		out = append(out, nm)
	}
	return out
}

// project: the reference-level state of every node
func (w *c07World) project() map[string]any {
	out := map[string]any{}
	for _, nd := range w.sorted() {
		raw := nd.Ctrl.VerifC07Project()
		peerOf := func(h nebula.VerifC07Host) string {
			if len(h.VpnAddrs) == 0 {
				return "?"
			}
			if n, ok := w.vpnName[h.VpnAddrs[0]]; ok {
				return n
			}
			return h.VpnAddrs[0].String()
		}
		sort.Slice(raw, func(i, j int) bool {
			a, b := raw[i], raw[j]
			if pa, pb := peerOf(a), peerOf(b); pa != pb {
				return pa < pb
			}
			if a.Pending != b.Pending {
				return b.Pending
			}
			if a.Initiator != b.Initiator {
				return b.Initiator
			}
			return a.HsTime < b.HsTime
		})
		// name local indexes first (remote indexes and relay indexes refer to them)
		for _, h := range raw {
			w.learn(h.LocalIndex, nd.Name+">"+peerOf(h))
			for _, r := range h.RelayFor {
				w.learn(r.LocalIndex, nd.Name+".relay")
			}
		}
		_ = raw
		out[nd.Name] = raw
	}
	res := map[string]any{}
	for _, nd := range w.sorted() {
		raw := out[nd.Name].([]nebula.VerifC07Host)
		hosts := []c07Host{}
		for _, h := range raw {
			peer := "?"
			if len(h.VpnAddrs) > 0 {
				peer = h.VpnAddrs[0].String()
				if n, ok := w.vpnName[h.VpnAddrs[0]]; ok {
					peer = n
				}
			}
			x := c07Host{Node: nd.Name, Peer: peer, Cert: h.Peer, Pending: h.Pending, Local: w.idx(h.LocalIndex), RemoteIdx: w.idx(h.RemoteIndex),
				Initiator: h.Initiator, Keys: h.HasKeys, Learned: w.addrs(h.Learned), CacheLearn: w.addrs(h.CacheLearn), CacheReport: w.addrs(h.CacheReport),
				CacheRelay: w.addrs(h.CacheRelay), Blocked: w.addrs(h.Blocked), Relays: w.addrs(h.Relays), Ready: h.Ready, Queued: h.Queued, Tries: h.Counter}
			if h.Remote != "" {
				x.Remote = w.name(netip.MustParseAddrPort(h.Remote))
			}
			if h.LastRoam != "" {
				x.LastRoam = w.addrs([]string{h.LastRoam})[0]
			}
			if h.HsTime != 0 {
				x.HsTimeMs = (int64(h.HsTime) - w.t0.UnixNano()) / int64(time.Millisecond)
			}
			for _, r := range h.RelayFor {
				x.RelayFor = append(x.RelayFor, fmt.Sprintf("%s type=%d state=%d l=%s r=%s", w.addrs([]string{r.Peer})[0], r.Type, r.State, w.idx(r.LocalIndex), w.idx(r.RemoteIndex)))
			}
			hosts = append(hosts, x)
		}
		lh := map[string]any{}
		for owner, v := range nd.Ctrl.VerifLighthouse() {
			b, _ := json.Marshal(v)
			s := string(b)
			for ap, nm := range w.udpName {
				s = strings.ReplaceAll(s, `"`+ap.String()+`"`, `"`+nm+`"`)
			}
			lh[w.addrs([]string{owner})[0]] = json.RawMessage(s)
		}
		res[nd.Name] = map[string]any{"hosts": hosts, "lighthouse": lh}
	}
	return res
}

func c07JSON(v any) string { b, _ := json.MarshalIndent(v, "", " "); return string(b) }

// c07Diff: the lines of two projections that differ (bounded)
func c07Diff(a, b string) []string {
	la, lb := strings.Split(a, "\n"), strings.Split(b, "\n")
	count := map[string]int{}
	for _, l := range la {
		count[l]++
	}
	var out []string
	for _, l := range lb {
		if count[l] > 0 {
			count[l]--
		} else {
			out = append(out, "+ "+strings.TrimSpace(l))
		}
	}
	for _, l := range la {
		if count[l] > 0 {
			count[l]--
			out = append(out, "- "+strings.TrimSpace(l))
		}
	}
	if len(out) > 24 {
		out = out[:24]
	}
	return out
}

// what a diff is about, for mismatch keys: the fields of the lines that differ
func c07DiffFields(diff []string) string {
	seen := map[string]bool{}
	var fs []string
	for _, l := range diff {
		l = strings.TrimLeft(l, "+- ")
		if i := strings.Index(l, `":`); i > 0 && strings.HasPrefix(l, `"`) {
			f := l[1:i]
			if !seen[f] {
				seen[f] = true
				fs = append(fs, f)
			}
		}
	}
	sort.Strings(fs)
	if len(fs) > 4 {
		fs = fs[:4]
	}
	if len(fs) == 0 {
		return "state"
	}
	return strings.Join(fs, "+")
}

// ---------------------------------------------------------------------------------------------- the script

// reach drives the world into the situation: the genuine message(s) are held, everything else has been delivered
func (w *c07World) reach() bool {
	A, B, C := w.A, w.B, w.C
	// the other session: A -> C, completed
	w.tun(A, C, "other-1")
	for k := 0; k < 5; k++ {
		w.pump(func(d *vDatagram) bool {
			if d.H.Type == header.Handshake {
				switch {
				case d.Node == "A" && d.To == C.UDP && d.H.MessageCounter == 1:
					w.msgs["other1"] = d.Data
				case d.Node == "C" && d.To == A.UDP && d.H.MessageCounter == 2:
					w.msgs["other2"] = d.Data
				}
			}
			return false
		})
		if w.msgs["other2"] != nil && A.Ctrl.VerifC07PendingIndex(C.Vpn[0].Addr()) == 0 {
			break
		}
		w.Advance(100 * time.Millisecond) // the first attempt is made by the timer wheel (no static host entry)
	}
	w.tun(C, A, "other-2")
	w.pump(nil)
	A.TakeTun()
	C.TakeTun()
	if w.msgs["other1"] == nil || w.msgs["other2"] == nil {
		w.problem("the other session did not happen")
		return false
	}
	// the session under test
	var pend uint32
	hold := func(d *vDatagram) bool {
		if pend == 0 {
			pend = A.Ctrl.VerifC07PendingIndex(B.Vpn[0].Addr())
		}
		in, h, ok := c07Inner(d)
		if !ok {
			if w.sit == "resp_answered" && d.Node == "A" && d.To == B.UDP && d.H.Type == header.Message && d.H.Subtype == header.MessageNone {
				if w.gDirect == nil {
					w.gDirect = d
				}
				return true
			}
			return false
		}
		relayed := d.H.Type != header.Handshake
		switch {
		case h.MessageCounter == 1 && h.RemoteIndex == 0 && (d.Node == "A" && !relayed && d.To == B.UDP || relayed && (d.Node == "A" || d.To == B.UDP)):
			// A's stage 1 for B (direct, or inside a relay message on either leg)
			if !relayed || d.Node == "A" {
				w.msgs["own"] = append([]byte(nil), in...)
			}
			if w.reader == B && w.sit != "resp_answered" && d.To == B.UDP {
				if relayed && w.gRelay == nil {
					w.gRelay = d
				} else if !relayed && w.gDirect == nil {
					w.gDirect = d
				}
				return true
			}
		case h.MessageCounter == 2 && pend != 0 && h.RemoteIndex == pend && (d.Node == "B" || relayed):
			// B's stage 2 for A's pending handshake
			if w.reader == B {
				w.msgs["own"] = append([]byte(nil), in...)
				return false
			}
			if d.To != A.UDP {
				return false // the leg B -> relay
			}
			if relayed && w.gRelay == nil {
				w.gRelay = d
			} else if !relayed && w.gDirect == nil {
				w.gDirect = d
			}
			return true
		}
		return false
	}
	w.tun(A, B, "first")
	want := func() bool {
		switch w.sit {
		case "init_both":
			return w.gDirect != nil && w.gRelay != nil
		case "init_relay", "resp_relay":
			return w.gRelay != nil
		}
		return w.gDirect != nil
	}
	for k := 0; k < 80; k++ {
		w.pump(hold)
		if want() {
			break
		}
		w.Advance(100 * time.Millisecond)
	}
	w.pump(hold)
	if !want() {
		for _, d := range w.Store {
			w.problem("%s\n", vDesc(d))
		}
		w.problem("situation %s not reached (direct=%v relay=%v)", w.sit, w.gDirect != nil, w.gRelay != nil)
		return false
	}
	g := w.genuine()
	if w.sit != "resp_answered" {
		in, _, _ := c07Inner(g)
		w.msgs["genuine"] = append([]byte(nil), in...)
	} else {
		w.msgs["genuine"] = w.msgs["own"] // the stage 1 the responder has answered
		w.msgs["own"] = nil
		for _, d := range w.Store {
			if d.Node == "B" && d.H.Type == header.Handshake && d.H.MessageCounter == 2 && d.H.RemoteIndex == pend {
				w.msgs["own"] = d.Data
			}
		}
	}
	return true
}

func (w *c07World) genuine() *vDatagram {
	if w.gvia == "relay" {
		return w.gRelay
	}
	return w.gDirect
}

// ---------------------------------------------------------------------------------------------- the rejected message

var c07LowOrder = []byte{0xe0, 0xeb, 0x7a, 0x7c, 0x3b, 0x41, 0xb8, 0xae, 0x16, 0x56, 0xe3, 0xfa, 0xf1, 0x9f, 0xc4, 0x6a,
	0xda, 0x09, 0x8d, 0xeb, 0x9c, 0x32, 0xb1, 0xfd, 0x86, 0x62, 0x05, 0x16, 0x5f, 0x49, 0xb8, 0x00}

func c07Within(rnd *rand.Rand, lo, hi int) int {
	f := rnd.Float64()
	if hi <= lo {
		return lo
	}
	switch {
	case f < 0.25:
		return lo
	case f < 0.5:
		return hi - 1
	}
	return lo + int((f-0.5)*2*float64(hi-lo))
}

// slot names of the specification -> base messages of this world
func (w *c07World) slotMsg(slot string) []byte {
	init := w.reader == w.A
	switch slot {
	case "I1":
		if init {
			return w.msgs["own"]
		}
		return w.msgs["genuine"]
	case "R1":
		if init {
			return w.msgs["genuine"]
		}
		return w.msgs["own"]
	case "I2":
		return w.msgs["other1"]
	case "R2":
		return w.msgs["other2"]
	}
	return nil
}

// build makes the bytes of R. ok=false: this world has no such message (e.g. a splice from a message not yet sent).
func (w *c07World) build(v c07Vec, rnd *rand.Rand) ([]byte, bool) {
	const dh = 32
	expect := 2
	if w.reader == w.B {
		expect = 1
	}
	var src []byte
	st := expect
	if v.Base == "garbage" {
		ref := w.msgs["genuine"]
		src = append([]byte(nil), ref...)
		rnd.Read(src[header.Len:])
		if w.sit == "resp_answered" {
			st = 1
		}
	} else {
		src = w.msgs[v.Base]
		if src == nil {
			return nil, false
		}
		var h header.H
		_ = h.Parse(src)
		st = int(h.MessageCounter)
	}
	pkt := append([]byte(nil), src...)
	e0 := header.Len
	s0 := e0 + dh
	p0 := s0 + dh
	if st == 2 {
		p0 += 16
	}
	flip := func(lo, hi int) bool {
		if hi > len(pkt) {
			hi = len(pkt)
		}
		if hi <= lo {
			return false
		}
		pkt[c07Within(rnd, lo, hi)] ^= 1 << uint(rnd.Intn(8))
		return true
	}
	switch v.Op {
	case "id":
	case "short":
		pkt = pkt[:[]int{1, 2, 8, 15}[rnd.Intn(4)]]
	case "hdr":
		pkt = pkt[:e0]
	case "in_e":
		pkt = pkt[:c07Within(rnd, e0+1, s0)]
	case "after_e":
		pkt = pkt[:s0]
	case "in_s":
		pkt = pkt[:c07Within(rnd, s0+1, p0)]
	case "after_s":
		pkt = pkt[:p0]
	case "in_p":
		if len(pkt) < p0+2 {
			return nil, false
		}
		pkt = pkt[:c07Within(rnd, p0+1, len(pkt))]
	case "flip_s":
		flip(s0, p0)
	case "flip_p":
		if st == 2 {
			if !flip(p0, len(pkt)) {
				return nil, false
			}
		} else {
			p, err := handshake.UnmarshalPayload(pkt[p0:])
			if err != nil || len(p.Cert) < 8 {
				return nil, false
			}
			at := bytes.Index(pkt[p0:], p.Cert)
			if at < 0 {
				return nil, false
			}
			end := p0 + at + len(p.Cert)
			flip(end-4, end)
		}
	case "sub_e":
		rnd.Read(pkt[e0:s0])
		pkt[s0-1] &= 0x7f
	case "bad_e":
		z := make([]byte, dh)
		switch v.Arg {
		case "low":
			copy(z, c07LowOrder)
		case "off":
			z[0] = 1
		}
		copy(pkt[e0:s0], z)
	case "splice_e":
		o := w.slotMsg(v.Arg)
		if len(o) < s0 {
			return nil, false
		}
		copy(pkt[e0:s0], o[e0:s0])
	case "splice_p":
		o := w.slotMsg(v.Arg)
		if o == nil {
			return nil, false
		}
		var oh header.H
		_ = oh.Parse(o)
		op0 := s0 + dh
		if oh.MessageCounter == 2 {
			op0 += 16
		}
		if int(oh.MessageCounter) != st || len(o) < op0 {
			return nil, false
		}
		pkt = append(pkt[:p0], o[op0:]...)
	default:
		return nil, false
	}
	if len(pkt) < header.Len {
		return pkt, true
	}
	// header treatment: counter, index, subtype
	var h header.H
	_ = h.Parse(src)
	idx := h.RemoteIndex
	switch v.Idx {
	case "zero":
		idx = 0
	case "pending":
		idx = w.A.Ctrl.VerifC07PendingIndex(w.B.Vpn[0].Addr())
		if idx == 0 {
			return nil, false
		}
	case "stale":
		if v.Hdr == "wrongidx" || idx == 0 || idx == w.A.Ctrl.VerifC07PendingIndex(w.B.Vpn[0].Addr()) {
			for {
				idx = rnd.Uint32()
				if _, used := w.idxName[idx]; !used && idx != 0 {
					break
				}
			}
		}
	}
	sub := header.HandshakeIXPSK0
	if v.Sub {
		sub = header.HandshakeXXPSK0
	}
	header.Encode(pkt[:header.Len], header.Version, header.Handshake, sub, idx, uint64(v.Ctr))
	return pkt, true
}

// send hands R to the reading node from the vector's source
func (w *c07World) send(v c07Vec, pkt []byte) bool {
	d := &vDatagram{Data: pkt}
	switch v.Path {
	case "peer":
		return w.DeliverTo(d, w.reader.UDP, w.peer.UDP)
	case "foreign":
		return w.DeliverTo(d, w.reader.UDP, c07Stray)
	case "relay":
		if !w.Y.Ctrl.VerifRelayWrap(w.reader.Vpn[0].Addr(), w.peer.Vpn[0].Addr(), pkt) {
			return false
		}
		synctest.Wait()
		out := w.Y.TakeUDP()
		if len(out) != 1 || out[0].To != w.reader.UDP {
			w.problem("the relay did not forward exactly one datagram to the reader (%d)", len(out))
			return false
		}
		return w.Deliver(out[0])
	}
	return false
}

// ---------------------------------------------------------------------------------------------- one run

type c07Run struct {
	Reached   bool
	Built     bool
	Before    string // projection before R
	AfterR    string
	Outcome   string // same | abandoned | completed
	Final     string
	Emissions []string
	Tun       map[string]int
	Remote    string // where the reader's tunnel with the peer sends once the genuine message is handled: peer | none | <name>; "" = no tunnel
	Problems  []string
}

func (w *c07World) readerHost(pending bool) *nebula.VerifC07Host {
	for _, h := range w.reader.Ctrl.VerifC07Project() {
		if h.Pending == pending && len(h.VpnAddrs) > 0 && h.VpnAddrs[0] == w.peer.Vpn[0].Addr() {
			hh := h
			return &hh
		}
	}
	return nil
}

// c07Play runs one world: the script up to the situation, R (unless v == nil: the control world), the genuine message,
// then more traffic and time.
func c07Play(t *testing.T, sit, gvia string, v *c07Vec, seed int64) (run c07Run) {
	synctest.Test(t, func(t *testing.T) {
		w := c07NewWorld(t, sit, gvia)
		w.t0 = time.Now()
		w.Start()
		defer func() {
			run.Problems = w.problems
			w.Stop()
		}()
		if run.Reached = w.reach(); !run.Reached {
			return
		}
		init := w.reader == w.A
		hadPending := w.readerHost(true) != nil
		run.Before = c07JSON(w.project())
		run.Built = true
		if v != nil {
			rnd := rand.New(rand.NewSource(seed))
			pkt, ok := w.build(*v, rnd)
			if ok {
				ok = w.send(*v, pkt)
			}
			if !ok {
				run.Built = false
				return
			}
		}
		run.AfterR = c07JSON(w.project())
		switch {
		case init && w.readerHost(false) != nil:
			run.Outcome = "completed"
		case init && hadPending && w.readerHost(true) == nil:
			run.Outcome = "abandoned"
		default:
			run.Outcome = "same"
		}
		// the genuine message, then traffic both ways and time
		w.logOn = true
		w.reader.TakeTun()
		w.peer.TakeTun()
		g := w.genuine()
		w.Deliver(g)
		// where the tunnel sends at the moment the genuine message has been handled (later traffic may make it roam)
		if h := w.readerHost(false); h != nil {
			run.Remote = "none"
			if h.Remote != "" {
				run.Remote = w.name(netip.MustParseAddrPort(h.Remote))
				if run.Remote == w.peer.Name {
					run.Remote = "peer"
				}
			}
		}
		w.pump(nil)
		w.tun(w.A, w.B, "after-1")
		w.pump(nil)
		w.tun(w.B, w.A, "after-2")
		w.pump(nil)
		for k := 0; k < 3; k++ {
			w.Advance(100 * time.Millisecond)
			w.pump(nil)
		}
		w.tun(w.A, w.B, "after-3")
		w.pump(nil)
		run.Final = c07JSON(w.project())
		run.Emissions = w.emis
		run.Tun = map[string]int{}
		for _, nd := range w.sorted() {
			run.Tun[nd.Name] = len(nd.TakeTun())
		}
	})
	return
}

func TestVerif_C07Mgr(t *testing.T) {
	res := vNewResult()
	defer res.Write(t)
	var vecs []c07Vec
	vReadNDJSON(t, "c07_vectors.ndjson", func(line []byte) {
		var v c07Vec
		if err := json.Unmarshal(line, &v); err != nil {
			t.Fatalf("verif: vector: %v", err)
		}
		vecs = append(vecs, v)
	})
	control := map[string]c07Run{}
	stats := map[string]int{}
	for n, v := range vecs {
		ck := v.Sit + "/" + v.Gvia
		ctl, ok := control[ck]
		if !ok {
			ctl = c07Play(t, v.Sit, v.Gvia, nil, 0)
			control[ck] = ctl
			if !ctl.Reached || len(ctl.Problems) > 0 {
				t.Fatalf("verif: control world %s: reached=%v problems=%v", ck, ctl.Reached, ctl.Problems)
			}
			res.Hit("control:" + ck)
			if ctl.Remote != v.Remote {
				res.Mismatch("mgr:undisturbed-tunnel-remote:"+ck, fmt.Sprintf("%s, genuine message %s, nothing rejected: the reader's tunnel sends to %q, specification %q", v.Sit, v.Gvia, ctl.Remote, v.Remote),
					map[string]any{"situation": v.Sit, "final": json.RawMessage(ctl.Final)})
			}
			if ctl.Before != ctl.AfterR {
				t.Fatalf("verif: control world %s is not stable between two snapshots: %v", ck, c07Diff(ctl.Before, ctl.AfterR))
			}
		}
		run := c07Play(t, v.Sit, v.Gvia, &v, vSeed()*1000003+int64(n))
		if !run.Reached || len(run.Problems) > 0 {
			t.Fatalf("verif: world %s: reached=%v problems=%v", ck, run.Reached, run.Problems)
		}
		if !run.Built {
			stats["unrealisable"]++
			res.Hit("unrealisable")
			continue
		}
		cls := v.class()
		res.Case(fmt.Sprintf("%s/%s/%s/%s", v.Sit, v.Gvia, v.Path, cls))
		res.Hit("sit:" + v.Sit)
		res.Hit("from:" + v.Path)
		res.Hit("route:" + v.Route)
		res.Hit("base:" + v.Base)
		res.Hit("op:" + v.Op)
		res.Hit("outcome:" + run.Outcome)
		res.Hit(fmt.Sprintf("%s:g-%s:from-%s", v.Sit, v.Gvia, v.Path))
		stats[run.Outcome]++
		key := func(what string) string {
			return fmt.Sprintf("mgr:%s:%s:from-%s:%s", what, v.Sit, v.Path, map[string]string{"pending": "reached-pending-machine", "fresh": "read-by-fresh-machine", "drop": "dropped-by-manager"}[v.Route])
		}
		detail := func(extra map[string]any) map[string]any {
			d := map[string]any{"vector": v, "class": cls, "outcome_after_rejected": run.Outcome}
			for k, x := range extra {
				d[k] = x
			}
			return d
		}
		if n == 3 {
			res.Sample(map[string]any{"vector": v, "outcome": run.Outcome, "emissions_after_genuine": run.Emissions})
		}
		if !v.allows(run.Outcome) {
			res.Mismatch(key("outcome-"+run.Outcome), fmt.Sprintf("%s: after %s from %s (routed to %s) the reader's handshake is %q, the specification allows %v",
				v.Sit, cls, v.Path, v.Route, run.Outcome, v.Allowed), detail(map[string]any{"diff_after_rejected": c07Diff(run.Before, run.AfterR)}))
			continue
		}
		if run.Outcome == "abandoned" {
			// once a handshake reports itself failed every later input is refused: the genuine message completes nothing
			if run.Remote != "" {
				res.Mismatch(key("abandoned-handshake-completes"), fmt.Sprintf("%s: %s from %s made the pending handshake fail, yet the genuine message afterwards completed a tunnel", v.Sit, cls, v.Path),
					detail(map[string]any{"final": json.RawMessage(run.Final)}))
			}
			continue
		}
		if run.AfterR != run.Before {
			diff := c07Diff(run.Before, run.AfterR)
			res.Mismatch(key("rejected-message-changed-state"), fmt.Sprintf("%s: %s from %s was rejected (handshake still usable) but is not a stutter step of the manager state: %v",
				v.Sit, cls, v.Path, diff), detail(map[string]any{"diff": diff, "fields": c07DiffFields(diff)}))
			continue // what follows is a consequence
		}
		if run.Remote != v.Remote {
			res.Mismatch(key("tunnel-remote-"+run.Remote), fmt.Sprintf("%s: after the rejected %s from %s the genuine message (%s) completes a tunnel that sends to %q, specification %q",
				v.Sit, cls, v.Path, v.Gvia, run.Remote, v.Remote), detail(nil))
			continue
		}
		if run.Final != ctl.Final {
			diff := c07Diff(ctl.Final, run.Final)
			res.Mismatch(key("genuine-completes-differently"), fmt.Sprintf("%s: after the rejected %s from %s the genuine message (%s) leaves a state that differs from the undisturbed run: %v",
				v.Sit, cls, v.Path, v.Gvia, diff), detail(map[string]any{"diff": diff, "fields": c07DiffFields(diff)}))
			continue
		}
		if strings.Join(run.Emissions, "\n") != strings.Join(ctl.Emissions, "\n") || fmt.Sprint(run.Tun) != fmt.Sprint(ctl.Tun) {
			diff := c07Diff(strings.Join(ctl.Emissions, "\n"), strings.Join(run.Emissions, "\n"))
			res.Mismatch(key("emissions-differ"), fmt.Sprintf("%s: after the rejected %s from %s the nodes emit differently from the undisturbed run once the genuine message has arrived: %v (tun %v vs %v)",
				v.Sit, cls, v.Path, diff, run.Tun, ctl.Tun), detail(map[string]any{"diff": diff}))
		}
	}
	res.Extra["mgr"] = stats
	res.Traces = len(vecs) + len(control)
}
