//go:build e2e_testing
// +build e2e_testing

package e2e

// C09, wrong responder by certificate networks — HsManager.tla's RecvHs2 treats an answer whose certificate does not
// contain the address that was asked for as a wrong host, whatever else the certificate says.  Here the dimension the
// recorder's world does not have: the wrong host (trusted CA, valid certificate) is certified for networks that OVERLAP
// the initiator's / for networks DISJOINT from them, with one or two addresses.  The initiator's static host map points
// the asked address at the wrong host's underlay address.  After the answer was handled the initiator holds no tunnel
// with the wrong host, under no address.

import (
	"fmt"
	"net/netip"
	"testing"

	"github.com/slackhq/nebula/cert"
	"github.com/slackhq/nebula/header"
)

func TestVerif_C09Wrong(t *testing.T) {
	res := vNewResult()
	defer res.Write(t)
	cases := []struct{ name, nets string }{
		{"overlapping", "10.128.0.77/24"},
		{"disjoint", "10.77.0.9/24"},
		{"disjoint-two-addresses", "10.77.0.9/24, 10.78.0.9/24"},
		{"one-overlapping-one-disjoint", "10.77.0.9/24, 10.128.0.78/24"},
	}
	for ci, c := range cases {
		for rep := 0; rep < 2; rep++ { // info / debug world
			vBubble(t, func(t *testing.T) {
				n := vNewNet(t)
				asked := netip.MustParseAddr("10.128.0.2")
				z := n.AddNode(cert.Version2, "Z", c.nets, m{})
				a := n.AddNode(cert.Version2, "A", "10.128.0.1/24", m{"static_host_map": m{asked.String(): []string{z.UDP.String()}}})
				n.Start()
				defer n.Stop()
				res.Case(fmt.Sprintf("wrong/%d/%d", ci, rep))
				n.TunSend(a, vUDPPacket(a.Vpn[0].Addr(), asked, 4000, 5000, []byte("to-the-asked-address")))
				answered := false
				for round := 0; round < 6; round++ {
					for _, nd := range []*vNode{a, z} {
						for _, d := range nd.TakeUDP() {
							if nd == z && d.H.Type == header.Handshake {
								answered = true
							}
							n.Deliver(d)
						}
					}
				}
				if !answered {
					res.Hit("wrong-responder:no-answer:" + c.name)
					return
				}
				res.Hit("wrong-responder:answered:" + c.name)
				p := a.Ctrl.VerifProject()
				for li, tn := range p.Tunnels {
					if tn.CertName == "Z" {
						res.Mismatch("tunnel-with-wrong-responder:"+c.name,
							fmt.Sprintf("A asked for %s, the host at that underlay address answered with a valid certificate for %v (%s A's networks): A holds tunnel %d with it (addresses %v, remote %s)",
								asked, tn.VpnAddrs, c.name, li, tn.VpnAddrs, tn.Remote), map[string]any{"case": c, "projection": p, "debug_world": n.Debug})
						return
					}
				}
				if len(p.Hosts) > 0 {
					res.Mismatch("hostmap-entry-after-wrong-responder:"+c.name, fmt.Sprintf("A's hostmap lists %v after only a wrong host answered", p.Hosts), map[string]any{"case": c, "projection": p})
					return
				}
				res.Hit("wrong-responder:nothing-installed")
			})
		}
	}
}
