//go:build e2e_testing

package e2e

// C17 at the call sites (spec/AddrE2E.tla, vector mode on whole nodes): what a complete node delivers to its tun
// device and what it encrypts for a peer carries authentic overlay addresses.
//
// World (synctest bubble): T (under test: 10.128.0.2/24, unsafe network 192.168.77.0/24, allow-everything firewall,
// unsafe route 172.16.9.0/24 via M), M (10.128.0.3/24 + unsafe 172.16.9.0/24), D (10.128.0.4/24 and 10.99.0.4/24),
// A (10.128.0.1/24). dir=in: the peer sends the inner packet inside its own tunnel with T (its own outbound
// firewall is bypassed: nebula.VerifSendOnTunnel), T's tun output is observed. dir=out: T's tun hands the packet to T,
// the data datagrams T emits (and to whom) are observed.

import (
	"encoding/binary"
	"bytes"
	"encoding/json"
	"fmt"
	"net/netip"
	"testing"
	"testing/synctest"
	"time"

	"github.com/slackhq/nebula/cert"
	"github.com/slackhq/nebula/header"
)

type c17Vec struct {
	In struct {
		Dir   string `json:"dir"`
		Who   string `json:"who"`
		R     string `json:"r"`
		Ra    []int  `json:"ra"`
		Owner string `json:"owner"`
		L     string `json:"l"`
		La    []int  `json:"la"`
		Prior bool   `json:"prior"`
		Enc   string `json:"enc"`
	} `json:"in"`
	Exp struct {
		Auth bool     `json:"auth"`
		To   []string `json:"to"`
	} `json:"exp"`
}

// c17Mapped6 builds an IPv6/UDP packet whose addresses are the IPv4-mapped forms (::ffff:a.b.c.d) of from and to.
func c17Mapped6(from, to netip.Addr, sport, dport uint16, payload []byte) []byte {
	p := make([]byte, 40+8+len(payload))
	p[0] = 0x60
	binary.BigEndian.PutUint16(p[4:], uint16(8+len(payload)))
	p[6], p[7] = 17, 64
	m := func(a netip.Addr) []byte { x := netip.AddrFrom16(a.As16()).As16(); return x[:] } // As16 of an IPv4 address is its mapped form
	copy(p[8:24], m(from))
	copy(p[24:40], m(to))
	u := p[40:]
	binary.BigEndian.PutUint16(u[0:], sport)
	binary.BigEndian.PutUint16(u[2:], dport)
	binary.BigEndian.PutUint16(u[4:], uint16(8+len(payload)))
	copy(u[8:], payload)
	var sum uint32
	add := func(b []byte) {
		for i := 0; i+1 < len(b); i += 2 {
			sum += uint32(b[i])<<8 | uint32(b[i+1])
		}
		if len(b)%2 == 1 {
			sum += uint32(b[len(b)-1]) << 8
		}
	}
	add(p[8:40])
	add([]byte{0, 0, byte(len(u) >> 8), byte(len(u)), 0, 0, 0, 17})
	add(u)
	for sum>>16 != 0 {
		sum = sum&0xffff + sum>>16
	}
	c := ^uint16(sum)
	if c == 0 {
		c = 0xffff
	}
	binary.BigEndian.PutUint16(u[6:], c)
	return p
}

func c17Addr(b []int) netip.Addr {
	raw := make([]byte, len(b))
	for i, v := range b {
		raw[i] = byte(v)
	}
	a, _ := netip.AddrFromSlice(raw)
	return a
}

type c17World struct {
	*vNet
	T, M, D, A *vNode
}

func (n *vNet) c17Add(name, networks, unsafe string, last byte, overrides m) *vNode {
	base := m{
		"punchy":     m{"punch": false, "respond": false},
		"lighthouse": m{"interval": 0},
		"logging":    m{"level": "error"},
		"timers":     m{"connection_alive_interval": 3600, "pending_deletion_interval": 3600},
	}
	for k, val := range overrides {
		base[k] = val
	}
	udpAddr := netip.AddrPortFrom(netip.AddrFrom4([4]byte{10, 0, 0, last}), 4242)
	restore := n.logSetup()
	defer restore()
	ctrl, vpn, _, cfg := newSimpleServerWithUdpAndUnsafeNetworks(cert.Version2, n.CA, n.CAKey, name, networks, udpAddr, unsafe, base)
	nd := &vNode{Name: name, Ctrl: ctrl, Vpn: vpn, UDP: udpAddr, Cfg: cfg, stop: make(chan struct{}), kick: make(chan struct{}, 1)}
	n.Nodes[name] = nd
	n.byUDP[udpAddr] = nd
	return nd
}

func c17NewWorld(t *testing.T) *c17World {
	n := vNewNet(t)
	w := &c17World{vNet: n}
	w.T = n.c17Add("T", "10.128.0.2/24", "192.168.77.0/24", 2, m{"tun": m{"unsafe_routes": []m{{"route": "172.16.9.0/24", "via": "10.128.0.3"}}}})
	w.M = n.c17Add("M", "10.128.0.3/24", "172.16.9.0/24", 3, nil)
	w.D = n.c17Add("D", "10.128.0.4/24,10.99.0.4/24", "", 4, nil)
	w.A = n.c17Add("A", "10.128.0.1/24", "", 1, nil)
	for _, p := range []*vNode{w.M, w.D, w.A} {
		w.T.Ctrl.InjectLightHouseAddr(p.Vpn[0].Addr(), p.UDP)
		p.Ctrl.InjectLightHouseAddr(w.T.Vpn[0].Addr(), w.T.UDP)
	}
	n.Start()
	// tunnels between T and every peer
	for _, p := range []*vNode{w.M, w.D, w.A} {
		n.TunSend(p, vUDPPacket(p.Vpn[0].Addr(), w.T.Vpn[0].Addr(), 4000, 5000, []byte("hello-"+p.Name)))
	}
	for i := 0; i < 40; i++ {
		if n.PumpOnce() == 0 {
			n.Advance(100 * time.Millisecond) // the first handshake attempt is made by the timer
		}
	}
	for _, nd := range n.sorted() {
		nd.TakeTun()
		nd.TakeUDP()
	}
	return w
}

func TestVerif_C17E2E(t *testing.T) {
	res := vNewResult()
	defer res.Write(t)
	var vecs []c17Vec
	vReadNDJSON(t, "vectors_e2e.ndjson", func(line []byte) {
		var v c17Vec
		if err := json.Unmarshal(line, &v); err != nil {
			t.Fatalf("vector: %v", err)
		}
		vecs = append(vecs, v)
	})
	const chunk = 60
	for start := 0; start < len(vecs); start += chunk {
		end := min(start+chunk, len(vecs))
		vBubble(t, func(t *testing.T) {
			w := c17NewWorld(t)
			defer w.Stop()
			peers := map[string]*vNode{"M": w.M, "D": w.D, "A": w.A}
			byUDP := map[netip.AddrPort]string{w.M.UDP: "M", w.D.UDP: "D", w.A.UDP: "A"}
			for _, p := range peers {
				if _, ok := p.Ctrl.VerifProject().Hosts[w.T.Vpn[0].Addr().String()]; !ok {
					res.Hit("no-tunnel:" + p.Name)
					b, _ := json.Marshal(map[string]any{"peer": p.Ctrl.VerifProject(), "T": w.T.Ctrl.VerifProject()})
					res.Extra["no-tunnel"] = string(b)
					return
				}
			}
			for vi := start; vi < end; vi++ {
				v := vecs[vi]
				ra, la := c17Addr(v.In.Ra), c17Addr(v.In.La)
				sport := uint16(10000 + vi)
				marker := []byte(fmt.Sprintf("C17-%d-%s-%s-%s", vi, v.In.Dir, v.In.R, v.In.L))
				id, _ := json.Marshal(v.In)
				res.Case(string(id))
				res.Hit("dir:" + v.In.Dir)
				res.Hit("r:" + v.In.R)
				res.Hit("l:" + v.In.L)
				detail := map[string]any{"vector": v.In, "expected": v.Exp}
				key := fmt.Sprintf("%s:%s:r-%s:l-%s", v.In.Dir, v.In.Who, v.In.R, v.In.L)
				pkt := vUDPPacket
				if v.In.Enc == "mapped" {
					pkt = c17Mapped6
					key += ":ipv4-mapped-in-ipv6"
					res.Hit("enc:mapped")
				}
				if v.In.Prior {
					key += ":after-owner-flow"
				}
				for _, nd := range w.sorted() {
					nd.TakeTun()
					nd.TakeUDP()
				}
				if v.In.Dir == "in" {
					if v.In.Prior {
						// the owner of the remote address uses the tuple first (conntrack then knows it)
						owner := peers[v.In.Owner]
						if owner.Ctrl.VerifSendOnTunnel(header.Message, 0, w.T.Vpn[0].Addr(), vUDPPacket(ra, la, sport, 5000, []byte("owner"))) {
							synctest.Wait()
							w.Pump(4)
							if len(w.T.TakeTun()) > 0 {
								res.Hit("prior-flow-delivered")
							}
						}
					}
					who := peers[v.In.Who]
					if !who.Ctrl.VerifSendOnTunnel(header.Message, 0, w.T.Vpn[0].Addr(), pkt(ra, la, sport, 5000, marker)) {
						res.Hit("send-failed")
						continue
					}
					synctest.Wait()
					// deliver what the peer emitted to T only (T's reactions stay undelivered)
					for _, d := range who.TakeUDP() {
						if d.To == w.T.UDP {
							w.Deliver(d)
						}
					}
					delivered := false
					for _, p := range w.T.TakeTun() {
						if bytes.Contains(p, marker) {
							delivered = true
						}
					}
					if delivered {
						res.Hit("in:delivered")
					}
					if delivered && !v.Exp.Auth {
						res.Mismatch("unauthentic-delivered:"+key, fmt.Sprintf("T delivered to its tun a packet %s -> %s that arrived in the tunnel of %s: the addresses are not authentic for that peer", ra, la, v.In.Who), detail)
					}
					if !delivered && v.Exp.Auth {
						res.Hit("drift:authentic-not-delivered")
						res.Extra["drift:"+key] = "authentic packet was not delivered"
					}
					if !delivered && !v.Exp.Auth {
						res.Hit("in:spoof-refused")
						if v.In.Prior {
							res.Hit("in:spoof-refused-after-owner-flow")
						}
					}
				} else {
					w.TunSend(w.T, pkt(la, ra, sport, 5000, marker))
					to := map[string]bool{}
					for _, d := range w.T.TakeUDP() {
						if d.H.Type == header.Message && d.H.Subtype == header.MessageNone {
							to[byUDP[d.To]] = true
						}
					}
					allowed := map[string]bool{}
					for _, p := range v.Exp.To {
						allowed[p] = true
					}
					for p := range to {
						res.Hit("out:sent")
						if !allowed[p] {
							res.Mismatch("unauthentic-sent:"+key, fmt.Sprintf("T encrypted a packet %s -> %s from its tun for peer %q: the addresses are not authentic for that peer", la, ra, p), detail)
						}
					}
					if len(to) == 0 && len(v.Exp.To) > 0 {
						res.Hit("drift:authentic-not-sent")
						res.Extra["drift:"+key] = "authentic packet was not sent"
					}
					if len(to) == 0 && len(v.Exp.To) == 0 {
						res.Hit("out:spoof-refused")
					}
				}
				res.Traces++
			}
		})
	}
}
