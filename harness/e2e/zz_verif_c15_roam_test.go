//go:build e2e_testing
// +build e2e_testing

package e2e

// C15, address attribution — "relays ... cannot change it undetected" read on the endpoint's bookkeeping: the target holds
// a DIRECT underlay address for a peer (one end-to-end frame of the peer reached it directly) and then gets the peer's
// frames through the relay again.  The relay is not the peer: the address the peer's tunnel is attributed to must not
// become the relay's, however many relayed frames arrive (in either world: info and debug log level).

import (
	"fmt"
	"testing"
)

func TestVerif_C15Roam(t *testing.T) {
	res := vNewResult()
	defer res.Write(t)
	for round := 0; round < 4; round++ {
		vBubble(t, func(t *testing.T) {
			w := c15NewWorld(t)
			defer w.Stop()
			sender := []*vNode{w.A, w.M}[round%2]
			remoteOf := func() string {
				for _, tn := range w.T.Ctrl.VerifProject().Tunnels {
					if tn.CertName == sender.Name {
						return tn.Remote
					}
				}
				return "?"
			}
			res.Case(fmt.Sprintf("roam/%d/%s", round, sender.Name))
			before := remoteOf()
			_, fromRelay := w.capture(sender, fmt.Sprintf("roam-direct-%d", round))
			if fromRelay == nil {
				res.Hit("roam:no-relayed-frame")
				return
			}
			// the end-to-end frame inside the relay packet reaches T directly from the sender's own underlay address
			inner := &vDatagram{Data: c15Inner(fromRelay)}
			w.DeliverTo(inner, w.T.UDP, sender.UDP)
			w.pump()
			direct := remoteOf()
			if direct != sender.UDP.String() {
				res.Hit("roam:direct-address-not-learned")
				res.Extra[fmt.Sprintf("roam-%d", round)] = map[string]any{"before": before, "after_direct_frame": direct}
				return
			}
			res.Hit("roam:direct-address-learned")
			for k := 0; k < 3; k++ {
				_, fr := w.capture(sender, fmt.Sprintf("roam-relayed-%d-%d", round, k))
				if fr == nil {
					continue
				}
				w.Deliver(fr)
				w.pump()
				res.Hit("roam:relayed-frame-after-direct")
				if got := remoteOf(); got == w.R.UDP.String() {
					res.Mismatch("relayed-frame-moves-endpoint-address-to-relay",
						fmt.Sprintf("T held the direct address %s for %s; after a frame of %s that came through the relay the tunnel is attributed to the relay's address %s", direct, sender.Name, sender.Name, got),
						map[string]any{"sender": sender.Name, "direct": direct, "relay": w.R.UDP.String(), "debug_world": w.Debug})
					return
				}
			}
			res.Hit("roam:address-kept")
		})
	}
}
