//go:build e2e_testing
// +build e2e_testing

package e2e

// Log gate for whole nodes: a slog.Handler in front of the node's own handler that parks the calling goroutine at the
// first record whose message contains an armed text -- in the middle of whatever that goroutine is doing, holding whatever
// it holds.  Records pass only if the node's own handler is enabled for them, so a debug line is a parking place only in
// worlds that log at debug level.  No hook in the repository is needed.

import (
	"context"
	"log/slog"
	"strings"
	"sync"
	"testing/synctest"
	"time"
)

type vLogGateState struct {
	mu      sync.Mutex
	arm     string
	parked  chan struct{}
	release chan struct{}
	isPark  bool
}

type vLogGate struct {
	st    *vLogGateState
	inner slog.Handler
}

func (g *vLogGate) Enabled(ctx context.Context, l slog.Level) bool { return g.inner.Enabled(ctx, l) }
func (g *vLogGate) WithAttrs(a []slog.Attr) slog.Handler {
	return &vLogGate{st: g.st, inner: g.inner.WithAttrs(a)}
}
func (g *vLogGate) WithGroup(n string) slog.Handler {
	return &vLogGate{st: g.st, inner: g.inner.WithGroup(n)}
}
func (g *vLogGate) Handle(ctx context.Context, r slog.Record) error {
	g.st.mu.Lock()
	if g.st.arm != "" && strings.Contains(r.Message, g.st.arm) {
		g.st.arm = ""
		g.st.isPark = true
		p, rel := g.st.parked, g.st.release
		g.st.mu.Unlock()
		close(p)
		<-rel
	} else {
		g.st.mu.Unlock()
	}
	return g.inner.Handle(ctx, r)
}

// InstallLogGate puts the gate in front of the node's log handler (before Start).
func (nd *vNode) InstallLogGate() *vLogGateState {
	st := &vLogGateState{}
	nd.Ctrl.VerifWrapLogHandler(func(h slog.Handler) slog.Handler { return &vLogGate{st: st, inner: h} })
	return st
}

// Arm: the next record whose message contains text parks its goroutine (call inside the bubble: the channels belong to it).
func (st *vLogGateState) Arm(text string) {
	st.mu.Lock()
	st.arm, st.isPark = text, false
	st.parked, st.release = make(chan struct{}), make(chan struct{})
	st.mu.Unlock()
}

// Parked reports (after the node went quiet) whether a goroutine sits in the gate; Disarm forgets an unused arming.
func (st *vLogGateState) Parked() bool {
	synctest.Wait()
	st.mu.Lock()
	defer st.mu.Unlock()
	return st.isPark
}

func (st *vLogGateState) Disarm() {
	st.mu.Lock()
	st.arm = ""
	st.mu.Unlock()
}

// Release lets the parked goroutine go on (no waiting: the caller decides when the node is quiet again).
func (st *vLogGateState) Release() {
	st.mu.Lock()
	rel := st.release
	st.isPark = false
	st.mu.Unlock()
	close(rel)
}

// vRealPause blocks the calling (bubbled) goroutine for a short REAL time: goroutines of the bubble that are runnable or
// wait for a mutex (not durably blocked) get the time to run into, or past, that mutex.  Virtual time does not move.
var vPauseReq, vPauseAck = make(chan time.Duration), make(chan struct{})

func init() {
	go func() { // outside every bubble
		for d := range vPauseReq {
			time.Sleep(d)
			vPauseAck <- struct{}{}
		}
	}()
}

func vRealPause(d time.Duration) {
	vPauseReq <- d
	<-vPauseAck
}
