//go:build e2e_testing

package e2e

// Discovery — lighthouse discovery at system level (spec/Discovery.tla, trace validation; additional binding for C35/C36).
//
// Complete nodes in a synctest bubble: ordinary A, B, C (no static entries for each other: they must discover each other
// through the lighthouse), one or two lighthouses L (, L2), and H, an authenticated but hostile ordinary peer. The harness
// is the network. A seeded driver mixes inside traffic, lighthouse.interval updates, roaming (datagrams delivered from a
// different source address), forged lighthouse messages of every type sent by H over its own valid tunnels to ordinary
// nodes and to the lighthouse, answers of a lying lighthouse, loss, duplication, reordering, tunnel closes and time.
// After every stimulus one line is logged: the acting node, the stimulus (for an encrypted datagram: the tunnel that
// authenticated it, the lighthouse message type and the decoded claimed addresses), the node's address table with
// provenance, its tunnels and pending handshakes, and everything it emitted, decoded. TLC validates every line against
// the permission rules R1..R6 of Discovery.tla.

import (
	"encoding/json"
	"fmt"
	"math/rand"
	"net/netip"
	"os"
	"path/filepath"
	"sort"
	"testing"
	"testing/synctest"
	"time"

	"github.com/slackhq/nebula"
	"github.com/slackhq/nebula/cert"
	"github.com/slackhq/nebula/header"
	"github.com/slackhq/nebula/udp"
)

// ---- the world's address plan -------------------------------------------------------------------------------------

var discOverlay = map[string]string{"L": "10.128.0.1", "A": "10.128.0.2", "B": "10.128.0.3", "C": "10.128.0.4", "L2": "10.128.0.5", "H": "10.128.0.6", "G": "10.128.0.99"}

type discU struct {
	name  string
	addr  string
	route string // node that receives datagrams sent there ("" = nobody)
}

// underlay pool: sockets, second addresses only the lighthouse learns, roaming addresses, addresses H invents, and
// addresses that are unusable for some nodes
var discUnder = []discU{
	{"uL", "10.0.0.1:4242", "L"}, {"uA", "10.0.0.2:4242", "A"}, {"uB", "10.0.0.3:4242", "B"}, {"uC", "10.0.0.4:4242", "C"},
	{"uL2", "10.0.0.5:4242", "L2"}, {"uH", "10.0.0.6:4242", "H"},
	{"uB2", "10.0.1.3:4242", "B"}, {"uC6", "[fd00::4]:4242", "C"},
	{"rA", "10.0.2.2:5555", "A"}, {"rB", "10.0.2.3:5555", "B"}, {"rC6", "[fd00::44]:5555", "C"},
	{"e1", "10.0.9.1:4242", "H"}, {"e2", "[fd00::e2]:4242", ""},
	{"own", "10.128.0.77:4242", ""}, // inside every node's overlay network
	{"dA", "10.0.66.1:4242", ""},    // denied by the remote_allow_list of the ordinary nodes
	{"d6", "[fd66::1]:4242", ""},    // denied by the remote_allow_list of the ordinary nodes (IPv6)
	{"dL", "10.0.99.1:4242", ""},    // denied by the remote_allow_list of the lighthouses
	{"dAB", "10.0.77.1:4242", ""},   // denied at A for peer B only (remote_allow_ranges)
	{"dS", "10.0.66.9:4242", ""},    // a denied address in A's static_host_map
}

var discOrdinaryDeny = []string{"10.0.66.0/24", "fd66::/16"}
var discLighthouseDeny = []string{"10.0.99.0/24"}

type discWorld struct {
	*vNet
	res         *vResult
	rnd         *rand.Rand
	names       []string
	ovName      map[netip.Addr]string
	unName      map[netip.AddrPort]string
	unAddr      map[string]netip.AddrPort
	route       map[netip.AddrPort]string
	lhs         []string
	lines       []map[string]any
	inflight    []*discFlight
	store       []*discFlight
	beforeKnown map[string][][]string
	before      map[string]nebula.VerifState
	keys        map[string]*nebula.VerifKeyring // tunnels each node held after its previous step
	forged      map[int]bool                    // datagrams whose lighthouse payload H forged
	hk          int
	curForged   bool
	hseq        [][3]int
}

type discFlight struct {
	d    *vDatagram
	from netip.AddrPort
}

func discAP(s string) netip.AddrPort { return netip.MustParseAddrPort(s) }

func discNewWorld(t *testing.T, res *vResult, rnd *rand.Rand, variant int) *discWorld {
	n := vNewNet(t)
	w := &discWorld{vNet: n, res: res, rnd: rnd, ovName: map[netip.Addr]string{}, unName: map[netip.AddrPort]string{}, unAddr: map[string]netip.AddrPort{},
		route: map[netip.AddrPort]string{}, beforeKnown: map[string][][]string{}, before: map[string]nebula.VerifState{}, forged: map[int]bool{}, keys: map[string]*nebula.VerifKeyring{}}
	for k, v := range discOverlay {
		w.ovName[netip.MustParseAddr(v)] = k
	}
	for _, u := range discUnder {
		ap := discAP(u.addr)
		w.unName[ap] = u.name
		w.unAddr[u.name] = ap
		if u.route != "" {
			w.route[ap] = u.route
		}
	}
	w.lhs = []string{"L"}
	if variant%4 == 1 {
		w.lhs = []string{"L", "L2"}
	}
	// variant 2 runs the connection manager on a 4 s check: its 500 ms ticker is phase-aligned with the second-grained update
	// ticker (both start in Control.Start) and the two goroutines would race for the tunnel's traffic flags at the same
	// virtual instant, so that variant sends updates only after handshakes with the lighthouse
	interval := []int{3, 600, 600, 2}[variant%4]
	timers := m{"connection_alive_interval": 3600, "pending_deletion_interval": 3600}
	punchy := m{"punch": true, "respond": false, "delay": "1s"}
	counters := m{}
	if variant%4 == 2 {
		timers = m{"connection_alive_interval": 4, "pending_deletion_interval": 4, "requery_wait_duration": "1s"}
		punchy = m{"punch": true, "respond": true, "delay": "500ms", "respond_delay": "2s", "target_all_remotes": variant%8 == 6}
		counters = m{"try_promote": 3, "requery_every_packets": 4}
	}
	hs := m{"try_interval": "130ms", "retries": 6} // not a divisor of the second-grained timers: ticks of two timers of a node never coincide
	deny := func(l []string) m {
		o := m{}
		for _, p := range l {
			o[p] = false
		}
		return o
	}
	lhHosts, static := []any{}, m{}
	for _, l := range w.lhs {
		lhHosts = append(lhHosts, discOverlay[l])
		static[discOverlay[l]] = []any{w.unAddr["u"+l].String()}
	}
	for _, l := range w.lhs {
		ov := m{"lighthouse": m{"am_lighthouse": true, "remote_allow_list": deny(discLighthouseDeny)},
			"timers": timers, "punchy": punchy, "handshakes": hs}
		if discStaleStatic(variant) && l == "L" {
			// strict reading only: the lighthouse has a stale static entry for B that points at an address where H answers
			ov["static_host_map"] = m{discOverlay["B"]: []any{w.unAddr["e1"].String()}}
		}
		n.AddNode(cert.Version2, l, discOverlay[l]+"/24", ov)
	}
	for _, name := range []string{"A", "B", "C", "H"} {
		lh := m{"hosts": lhHosts, "interval": interval, "remote_allow_list": deny(discOrdinaryDeny)}
		st := m{}
		for k, v := range static {
			st[k] = v
		}
		if name == "A" {
			lh["remote_allow_ranges"] = m{discOverlay["B"] + "/32": m{"10.0.77.0/24": false}}
			st[discOverlay["L"]] = []any{w.unAddr["uL"].String(), w.unAddr["dS"].String()}
		}
		ov := m{"lighthouse": lh, "static_host_map": st, "timers": timers, "punchy": punchy, "handshakes": hs}
		if len(counters) > 0 {
			ov["counters"] = counters
		}
		n.AddNode(cert.Version2, name, discOverlay[name]+"/24", ov)
	}
	// what each node finds on its interfaces (SendUpdate): second addresses, and addresses somebody must filter
	local := map[string][]string{"A": {"10.0.0.2"}, "B": {"10.0.0.3", "10.0.1.3", "10.0.99.1", "10.128.0.77"}, "C": {"10.0.0.4", "fd00::4", "10.0.66.1"}, "H": {"10.0.0.6"}}
	for name, l := range local {
		var as []netip.Addr
		for _, s := range l {
			as = append(as, netip.MustParseAddr(s))
		}
		n.Nodes[name].Ctrl.SetLocalAddrsFn(func(*nebula.LocalAllowList) []netip.Addr { return as })
	}
	for k := range n.Nodes {
		w.names = append(w.names, k)
	}
	sort.Strings(w.names)
	w.reset(variant)
	n.Start()
	for _, nm := range w.names {
		w.logStep(n.Nodes[nm], w.stim("tick", "", "", "", "", nil))
	}
	return w
}

// the reset line carries the configuration the rules are evaluated against; the deny tables are computed here from the
// prefix lists the nodes were configured with (not by nebula's code)
func (w *discWorld) reset(variant int) {
	amlh, lhs, deny, denyPeer, static, adv, respond := []string{}, [][]string{}, [][]string{}, [][]string{}, [][]string{}, [][]string{}, []string{}
	own := netip.MustParsePrefix("10.128.0.0/24")
	for _, nm := range w.names {
		isLh := false
		for _, l := range w.lhs {
			if l == nm {
				isLh = true
			}
		}
		pl := discOrdinaryDeny
		if isLh {
			amlh = append(amlh, nm)
			pl = discLighthouseDeny
		} else {
			for _, l := range w.lhs {
				lhs = append(lhs, []string{nm, l})
				static = append(static, []string{nm, l, "u" + l})
			}
			if variant%4 == 2 {
				respond = append(respond, nm)
			}
		}
		for _, u := range discUnder {
			a := discAP(u.addr).Addr()
			bad := own.Contains(a)
			for _, p := range pl {
				if netip.MustParsePrefix(p).Contains(a) {
					bad = true
				}
			}
			if bad {
				deny = append(deny, []string{nm, u.name})
			}
		}
	}
	denyPeer = append(denyPeer, []string{"A", "B", "dAB"})
	if discStaleStatic(variant) {
		static = append(static, []string{"L", "B", "e1"})
	}
	static = append(static, []string{"A", "L", "dS"})
	adv = [][]string{{"A", "uA"}, {"B", "uB"}, {"B", "uB2"}, {"B", "dL"}, {"C", "uC"}, {"C", "uC6"}, {"C", "dA"}, {"H", "uH"}}
	hostile := []string{"H"}
	w.lines = append(w.lines, map[string]any{"ev": "reset", "amlh": amlh, "lhs": lhs, "hostile": hostile, "deny": deny, "denyPeer": denyPeer,
		"static": static, "adv": adv, "respond": respond, "strict": discStrict()})
}

func discStrict() bool { return os.Getenv("VERIF_DISC_LENIENT") != "1" } // strict is the default reading

// discStaleStatic: traces in which (strict reading only) the lighthouse itself handshakes towards a wrong host
func discStaleStatic(variant int) bool { return discStrict() && variant%4 == 3 }

// ---- naming ----------------------------------------------------------------------------------------------------------

func (w *discWorld) ov(a netip.Addr) string {
	if !a.IsValid() {
		return ""
	}
	if nm, ok := w.ovName[a.Unmap()]; ok {
		return nm
	}
	return "?" + a.String()
}

func (w *discWorld) ovs(s string) string {
	if s == "" {
		return ""
	}
	a, err := netip.ParseAddr(s)
	if err != nil {
		return "?" + s
	}
	return w.ov(a)
}

func (w *discWorld) un(a netip.AddrPort) string {
	a = netip.AddrPortFrom(a.Addr().Unmap(), a.Port())
	if nm, ok := w.unName[a]; ok {
		return nm
	}
	return "?" + a.String()
}

func (w *discWorld) uns(as []netip.AddrPort) []string {
	out := []string{}
	for _, a := range as {
		out = append(out, w.un(a))
	}
	return out
}

func (w *discWorld) stim(k, from, src, mt, x string, addrs []string) map[string]any {
	if addrs == nil {
		addrs = []string{}
	}
	return map[string]any{"k": k, "from": from, "src": src, "mt": mt, "x": x, "addrs": addrs, "fresh": false}
}

func discKind(t header.MessageType) string {
	switch t {
	case header.Message:
		return "data"
	case header.Test:
		return "test"
	case header.CloseTunnel:
		return "close"
	case header.Control:
		return "control"
	}
	return "other"
}

// ---- classification -------------------------------------------------------------------------------------------------

// classify a datagram about to be handled by nd (source address from)
func (w *discWorld) classify(nd *vNode, d *vDatagram, from netip.AddrPort) map[string]any {
	src := w.un(from)
	if len(d.Data) <= 1 {
		return w.stim("plain", "", src, "punch", "", nil)
	}
	var h header.H
	if err := h.Parse(d.Data); err != nil {
		return w.stim("plain", "", src, "noise", "", nil)
	}
	switch h.Type {
	case header.Handshake:
		if h.MessageCounter == 1 {
			st := w.stim("hs1", d.Node, src, "", "", nil)
			st["hsname"] = nebula.VerifMsgName(d.Data[header.Len:])
			return st
		}
		return w.stim("hs2", d.Node, src, "", w.ovs(nd.Ctrl.VerifPendingOf(h.RemoteIndex)), nil)
	case header.RecvError:
		return w.stim("plain", "", src, "recverr", "", nil)
	}
	o, ok := nd.Ctrl.VerifOpenRecv(d.Data)
	if !ok {
		return w.stim("plain", "", src, "unauth", "", nil)
	}
	if o.Type != header.LightHouse {
		return w.stim("enc", o.Peer, src, discKind(o.Type), "", nil)
	}
	mt, ok := nebula.VerifDecodeMeta(o.Plain)
	if !ok {
		return w.stim("enc", o.Peer, src, "undecodable", "", nil)
	}
	x := ""
	if mt.HasVpn {
		x = w.ov(mt.Vpn)
	}
	return w.stim("enc", o.Peer, src, mt.Type, x, w.uns(mt.Addrs))
}

// describe a datagram nd emitted; before = the node's handshake projection before the step
func (w *discWorld) emitted(nd *vNode, d *vDatagram, st, before nebula.VerifState) map[string]any {
	out := map[string]any{"k": "other", "to": w.un(d.To), "peer": "", "mt": "", "x": "", "addrs": []string{}}
	if len(d.Data) == 1 {
		out["k"] = "punch" + fmt.Sprint(int(d.Data[0]))
		if d.Data[0] > 1 {
			out["k"] = "other"
		}
		return out
	}
	var h header.H
	if err := h.Parse(d.Data); err != nil {
		return out
	}
	switch h.Type {
	case header.Handshake:
		if h.MessageCounter != 1 {
			out["k"] = "hs2"
			return out
		}
		out["k"] = "hs1"
		name := nebula.VerifMsgName(d.Data[header.Len:])
		for _, s := range []nebula.VerifState{st, before} {
			for _, p := range s.Pending {
				if p.Hs1 == name && out["peer"] == "" {
					out["peer"] = w.ovs(p.VpnAddr)
				}
			}
			for _, t := range s.Tunnels {
				if t.Initiator && t.Hs1 == name && out["peer"] == "" {
					out["peer"] = t.CertName
				}
			}
		}
		return out
	case header.RecvError:
		out["k"] = "recverr"
		return out
	}
	out["k"] = "enc"
	o, ok := nd.Ctrl.VerifOpenSent(d.Data)
	if !ok {
		o, ok = w.keys[nd.Name].OpenSent(d.Data) // a tunnel the node deleted in this very step
		if ok {
			out["peer"] = o.Peer
		}
	}
	if !ok {
		// the tunnel is already gone at the sender: ask the other nodes (the peer is whoever can open it)
		for _, nm := range w.names {
			if nm == nd.Name {
				continue
			}
			if o2, ok2 := w.Nodes[nm].Ctrl.VerifOpenRecv(d.Data); ok2 && o2.Peer == nd.Name {
				o, ok = o2, true
				out["peer"] = nm
				break
			}
		}
		if !ok {
			// nobody can open it any more (a close message of a tunnel the peer does not hold): the tunnel it was sent on is
			// the one that carried this remote index before the step
			for _, t := range before.Tunnels {
				if t.RemoteIndex == h.RemoteIndex && out["peer"] == "" {
					out["peer"] = t.CertName
				}
			}
			out["mt"] = discKind(h.Type)
			if h.Type == header.LightHouse {
				out["mt"] = "undecodable"
			}
			return out
		}
	} else {
		out["peer"] = o.Peer
	}
	if o.Type != header.LightHouse {
		out["mt"] = discKind(o.Type)
		return out
	}
	mt, ok := nebula.VerifDecodeMeta(o.Plain)
	if !ok {
		out["mt"] = "undecodable"
		return out
	}
	out["mt"] = mt.Type
	if mt.HasVpn {
		out["x"] = w.ov(mt.Vpn)
	}
	out["addrs"] = w.uns(mt.Addrs)
	return out
}

// ---- projection and logging -----------------------------------------------------------------------------------------

func (w *discWorld) logStep(nd *vNode, stim map[string]any) {
	st := nd.Ctrl.VerifProject()
	if name, ok := stim["hsname"].(string); ok {
		// a stage 1 is fresh when it made a tunnel that was not there before the step
		delete(stim, "hsname")
		had := false
		for _, t := range w.before[nd.Name].Tunnels {
			if !t.Initiator && t.Hs1 == name {
				had = true
			}
		}
		for _, t := range st.Tunnels {
			if !t.Initiator && t.Hs1 == name && !had {
				stim["fresh"] = true
			}
		}
	}
	tset, pset := map[string]bool{}, map[string]bool{}
	for _, t := range st.Tunnels {
		tset[t.CertName] = true
	}
	for _, p := range st.Pending {
		pset[w.ovs(p.VpnAddr)] = true
	}
	tuns, pend := []string{}, []string{}
	for k := range tset {
		tuns = append(tuns, k)
	}
	for k := range pset {
		pend = append(pend, k)
	}
	sort.Strings(tuns)
	sort.Strings(pend)
	known := [][]string{}
	for _, e := range nd.Ctrl.VerifRemotes() {
		known = append(known, []string{w.ovs(e.Vpn), w.ovs(e.Owner), e.Kind, w.un(e.Addr)})
		if e.Kind == "rem" && (w.un(e.Addr) == "rA" || w.un(e.Addr) == "rB" || w.un(e.Addr) == "rC6") {
			w.res.Hit("roaming-seen")
		}
	}
	sort.Slice(known, func(i, j int) bool { return fmt.Sprint(known[i]) < fmt.Sprint(known[j]) })
	if stim["k"] == "hs1" && stim["fresh"] == false {
		for _, e := range known {
			if e[0] == stim["from"] && e[1] == stim["from"] && e[2] == "lrn" && e[3] == stim["src"] {
				was := false
				for _, p := range w.beforeKnown[nd.Name] {
					if p[0] == e[0] && p[1] == e[1] && p[2] == e[2] && p[3] == e[3] {
						was = true
					}
				}
				if !was {
					w.res.Hit("observed:learned-from-refused-stage1")
				}
			}
		}
	}
	w.beforeKnown[nd.Name] = known
	out := []map[string]any{}
	// what a node emits in one step is put into a canonical order: goroutines of the node run in an order the harness does
	// not control, the schedule that follows must not depend on it
	type emitted struct {
		o   map[string]any
		d   *vDatagram
		key string
	}
	var ems []emitted
	for _, d := range nd.TakeUDP() {
		o := w.emitted(nd, d, st, w.before[nd.Name])
		ems = append(ems, emitted{o, d, fmt.Sprint(o["to"], "|", o["k"], "|", o["peer"], "|", o["mt"], "|", o["x"], "|", o["addrs"], "|", len(d.Data), "|", d.H.MessageCounter)})
	}
	sort.SliceStable(ems, func(i, j int) bool { return ems[i].key < ems[j].key })
	for _, em := range ems {
		o, d := em.o, em.d
		out = append(out, o)
		w.inflight = append(w.inflight, &discFlight{d: d, from: d.From})
		if o["k"] == "punch0" {
			w.res.Hit("punch-sent")
		}
		if o["k"] == "enc" {
			w.res.Hit("sent:" + o["mt"].(string))
			if o["mt"] == "undecodable" {
				w.res.Hit("undecodable-sent")
			}
		}
	}
	nd.TakeTun()
	w.before[nd.Name] = st
	w.keys[nd.Name] = nd.Ctrl.VerifKeyring()
	w.lines = append(w.lines, map[string]any{"ev": "Step", "n": nd.Name, "stim": stim, "tuns": tuns, "pend": pend, "known": known, "out": out})
	if stim["k"] == "enc" {
		mt := stim["mt"].(string)
		w.res.Hit("mt:" + mt)
		if stim["from"] == "H" && nd.Name != "H" && w.curForged {
			to := "node"
			if nd.Name == "L" || nd.Name == "L2" {
				to = "lh"
			}
			w.res.Hit("hostile:" + mt + ":" + to)
		}
	}
	// a discovery that completed through the lighthouse: two ordinary nodes (never static for each other) hold a tunnel
	if nd.Name == "A" || nd.Name == "B" || nd.Name == "C" {
		for _, p := range tuns {
			if p != nd.Name && (p == "A" || p == "B" || p == "C") {
				w.res.Hit("discovered")
				w.res.Hit("discovered:" + nd.Name + "-" + p)
			}
		}
	}
}

// others: nodes that emitted although they were not the one stimulated get a line of their own
func (w *discWorld) others(except *vNode) {
	for _, nm := range w.names {
		nd := w.Nodes[nm]
		if nd == except {
			continue
		}
		nd.mu.Lock()
		has := len(nd.udpOut) > 0
		nd.mu.Unlock()
		if has {
			w.res.Hit("spontaneous")
			w.logStep(nd, w.stim("tick", "", "", "", "", nil))
		}
	}
}

func (w *discWorld) deliver(f *discFlight) {
	target, ok := w.route[netip.AddrPortFrom(f.d.To.Addr().Unmap(), f.d.To.Port())]
	if !ok {
		w.res.Hit("to-nowhere")
		return
	}
	nd := w.Nodes[target]
	if nd == nil {
		return
	}
	stim := w.classify(nd, f.d, f.from)
	w.curForged = w.forged[f.d.ID]
	if !(w.Debug && len(f.d.Data) < header.Len) { // the tester socket panics on sub-header datagrams at debug level; nodes ignore them
		nd.Ctrl.InjectUDPPacket(&udp.Packet{To: f.d.To, From: f.from, Data: append([]byte(nil), f.d.Data...)})
	}
	discWait()
	w.store = append(w.store, f)
	w.logStep(nd, stim)
	w.curForged = false
	w.others(nd)
}

func discWait() { synctest.Wait() }

func (w *discWorld) tick(d time.Duration) {
	w.Advance(d)
	for _, nm := range w.names {
		w.logStep(w.Nodes[nm], w.stim("tick", "", "", "", "", nil))
	}
}

func (w *discWorld) tunSend(from *vNode, to string, tag int) {
	dst := netip.MustParseAddr(discOverlay[to])
	w.TunSend(from, vUDPPacket(from.Vpn[0].Addr(), dst, 4000, 5000, []byte(fmt.Sprintf("p%d", tag))))
	w.logStep(from, w.stim("tun", "", "", "", to, nil))
	w.others(from)
}

func (w *discWorld) pump(rounds int) {
	for r := 0; r < rounds; r++ {
		for k := 0; k < 60 && len(w.inflight) > 0; k++ {
			f := w.inflight[0]
			w.inflight = w.inflight[1:]
			w.deliver(f)
		}
		if len(w.inflight) == 0 {
			return
		}
	}
}

// ---- the driver -------------------------------------------------------------------------------------------------------

var discLhTypes = []int32{1, 2, 3, 10, 5, 4} // HostQuery, HostQueryReply, HostUpdateNotification, ...Ack, HostPunchNotification, HostMovedNotification

func (w *discWorld) pickAddrs(pool []string, max int) []netip.AddrPort {
	var out []netip.AddrPort
	for i := w.rnd.Intn(max + 1); i > 0; i-- {
		out = append(out, w.unAddr[pool[w.rnd.Intn(len(pool))]])
	}
	return out
}

func discDrive(w *discWorld, steps, tr int) {
	rnd := w.rnd
	ordinary := []string{"A", "B", "C"}
	tag := 0
	send := func(from, to string) {
		if from == to {
			return
		}
		tag++
		w.tunSend(w.Nodes[from], to, tag)
	}
	if discStaleStatic(tr) {
		// before anybody has registered: the lighthouse's own handshake for B goes to the stale address, H answers it
		w.inflight = nil
		send("L", "B")
		w.pump(4)
		send("A", "B") // and A asks the lighthouse about B
		w.pump(4)
	}
	// prologue: let the nodes register with the lighthouse (most traces), then two of them want each other
	if tr%4 != 3 {
		w.pump(6)
		w.tick(200 * time.Millisecond)
		w.pump(6)
	}
	if tr%3 != 2 {
		send("A", "B")
		w.pump(4)
		w.tick(time.Second) // the punch delay
		w.pump(4)
	}
	send("H", "L")
	send("H", ordinary[tr%3])
	w.pump(4)
	hostilePool := []string{"uA", "uB", "uC", "uH", "e1", "e2", "own", "dA", "d6", "dL", "uB2", "rB", "uL"}
	lyingPool := []string{"uB", "uB2", "uC", "uC6", "e1", "e2", "own", "dA", "d6", "dAB", "dL", "uH"}
	subjects := []string{"A", "B", "C", "H", "L", "G", ""}
	for s := 0; s < steps; s++ {
		r := rnd.Intn(100)
		switch {
		case r < 40 && len(w.inflight) > 0:
			k := 0
			if rnd.Intn(3) == 0 {
				k = rnd.Intn(len(w.inflight)) // reordering
			}
			f := w.inflight[k]
			w.inflight = append(w.inflight[:k], w.inflight[k+1:]...)
			w.deliver(f)
		case r < 50:
			from := ordinary[rnd.Intn(3)]
			to := append(ordinary, "L", "G", "H")[rnd.Intn(6)]
			if rnd.Intn(3) != 0 {
				to = ordinary[rnd.Intn(3)]
			}
			send(from, to)
		case r < 66:
			// the hostile peer: every lighthouse message type, any claimed address, any addresses, to nodes and lighthouses
			// (type x kind of target in a shuffled round robin so that every combination occurs)
			if len(w.hseq) == 0 {
				for ty := range discLhTypes {
					for enc := 0; enc < 2; enc++ {
						w.hseq = append(w.hseq, [3]int{ty, 0, enc}, [3]int{ty, 1, enc})
					}
				}
				rnd.Shuffle(len(w.hseq), func(i, j int) { w.hseq[i], w.hseq[j] = w.hseq[j], w.hseq[i] })
			}
			combo := w.hseq[w.hk%len(w.hseq)]
			tg := ordinary[rnd.Intn(3)]
			if combo[1] == 1 {
				tg = w.lhs[rnd.Intn(len(w.lhs))]
			}
			typ := discLhTypes[combo[0]]
			x := ordinary[rnd.Intn(3)] // mostly: claims about an honest node
			if rnd.Intn(5) < 2 {
				x = subjects[rnd.Intn(len(subjects))]
			}
			var about netip.Addr
			if x != "" {
				about = netip.MustParseAddr(discOverlay[x])
			}
			addrs := w.pickAddrs(hostilePool, 3)
			if len(addrs) == 0 && rnd.Intn(3) != 0 {
				addrs = w.pickAddrs(hostilePool[:6], 1)
			}
			payload := nebula.VerifLighthouseMsg(typ, about, addrs, nil, combo[2] == 1)
			h := w.Nodes["H"]
			if h.Ctrl.VerifSendOnTunnel(header.LightHouse, 0, netip.MustParseAddr(discOverlay[tg]), payload) {
				discWait()
				w.hk++
				w.res.Hit("hostile-sent")
				h.mu.Lock()
				for _, d := range h.udpOut {
					w.forged[d.ID] = true
				}
				h.mu.Unlock()
				w.logStep(h, w.stim("forge", "", "", "", tg, nil))
			} else {
				send("H", tg) // no tunnel yet: get one
			}
		case r < 71:
			// a lying (but configured) lighthouse: answers and punch notifications with addresses the receiver must filter
			l := w.Nodes[w.lhs[rnd.Intn(len(w.lhs))]]
			tg := ordinary[rnd.Intn(3)]
			x := ordinary[rnd.Intn(3)]
			typ := int32(2)
			if rnd.Intn(3) == 0 {
				typ = 5
			}
			payload := nebula.VerifLighthouseMsg(typ, netip.MustParseAddr(discOverlay[x]), w.pickAddrs(lyingPool, 3), nil, rnd.Intn(5) == 0)
			if l.Ctrl.VerifSendOnTunnel(header.LightHouse, 0, netip.MustParseAddr(discOverlay[tg]), payload) {
				discWait()
				w.res.Hit("lying-lighthouse-sent")
				w.logStep(l, w.stim("forge", "", "", "", tg, nil))
			}
		case r < 75 && len(w.store) > 0:
			f := w.store[rnd.Intn(len(w.store))] // duplicate / stale copy
			w.deliver(&discFlight{d: f.d, from: f.from})
		case r < 80 && len(w.inflight) > 0:
			// roaming: an ordinary node's datagram arrives from another address of that node
			k := rnd.Intn(len(w.inflight))
			f := w.inflight[k]
			if ra, ok := map[string]string{"A": "rA", "B": "rB", "C": "rC6"}[f.d.Node]; ok {
				w.inflight = append(w.inflight[:k], w.inflight[k+1:]...)
				w.res.Hit("roam-delivered")
				w.deliver(&discFlight{d: f.d, from: w.unAddr[ra]})
			}
		case r < 84 && len(w.inflight) > 0:
			k := rnd.Intn(len(w.inflight)) // loss
			w.inflight = append(w.inflight[:k], w.inflight[k+1:]...)
		case r < 88:
			nd := w.Nodes[w.names[rnd.Intn(len(w.names))]]
			peer := w.names[rnd.Intn(len(w.names))]
			if nd.Name != peer && nd.Ctrl.CloseTunnel(netip.MustParseAddr(discOverlay[peer]), rnd.Intn(2) == 0) {
				discWait()
				w.res.Hit("close-tunnel")
				w.logStep(nd, w.stim("close", "", "", "", peer, nil))
				w.others(nd)
			}
		default:
			w.tick(time.Duration(100+rnd.Intn(1100)) * time.Millisecond)
		}
	}
	// epilogue: let things settle so that late punches and answers are seen
	w.pump(3)
	w.tick(1100 * time.Millisecond)
	w.pump(3)
}

func TestVerif_Disc(t *testing.T) {
	res := vNewResult()
	defer res.Write(t)
	seed := vSeed()
	traces, steps := 30, 200
	if !vQuick() {
		traces, steps = 480, 280
	}
	if s := os.Getenv("VERIF_DISC_TRACES"); s != "" {
		fmt.Sscan(s, &traces)
	}
	f, err := os.Create(filepath.Join(os.Getenv("VERIF_OUT"), "trace_disc.ndjson"))
	if err != nil {
		t.Fatal(err)
	}
	defer f.Close()
	enc := json.NewEncoder(f)
	for tr := 0; tr < traces; tr++ {
		rnd := rand.New(rand.NewSource(seed*9973 + int64(tr)))
		var lines []map[string]any
		if p := vBubble(t, func(t *testing.T) {
			w := discNewWorld(t, res, rnd, tr)
			defer w.Stop()
			discDrive(w, steps, tr)
			lines = w.lines
		}); p != nil {
			t.Fatalf("verif: bubble of trace %d panicked: %v", tr, p)
		}
		for _, ln := range lines {
			if err := enc.Encode(ln); err != nil {
				t.Fatal(err)
			}
		}
		res.Case(fmt.Sprintf("trace/%d/%d", seed, tr))
		res.Extra[fmt.Sprintf("lines-%d", tr)] = len(lines)
		if tr == 0 && len(lines) > 40 {
			res.Sample(lines[30:33])
		}
	}
}
