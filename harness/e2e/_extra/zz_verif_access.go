//go:build e2e_testing

package nebula

// Added to package nebula by the /verif overlay (never part of the repository): read-only
// projection of a running node onto plain data for the whole-node conformance harnesses.

import (
	"crypto/sha256"
	"encoding/hex"
	"net/netip"
	"sort"

	"github.com/slackhq/nebula/header"
	"github.com/slackhq/nebula/overlay"
	"github.com/slackhq/nebula/udp"
)

// VerifMsgName names a handshake message by its noise bytes (the datagram without the nebula header).
func VerifMsgName(noise []byte) string {
	if len(noise) == 0 {
		return ""
	}
	h := sha256.Sum256(noise)
	return hex.EncodeToString(h[:8])
}

func verifStage(h *HostInfo, stage uint8, initiatorSide bool) string {
	b := h.HandshakePacket[stage]
	if len(b) == 0 {
		return ""
	}
	// messages this node built itself carry the nebula header, the received stage 1 is stored without it
	if initiatorSide || stage == handshakePacketStage2 {
		if len(b) <= header.Len {
			return ""
		}
		b = b[header.Len:]
	}
	return VerifMsgName(b)
}

type VerifTunnel struct {
	LocalIndex  uint32       `json:"lidx"`
	RemoteIndex uint32       `json:"ridx"`
	VpnAddrs    []netip.Addr `json:"addrs"`
	Remote      string       `json:"remote"`
	Initiator   bool         `json:"initiator"`
	HsTime      uint64       `json:"hsTime"`
	CertName    string       `json:"certName"`
	CertNets    []string     `json:"certNets"`
	Counter     uint64       `json:"counter"`
	Relays      []string     `json:"relays"`
	RelayFor    []VerifRelay `json:"relayFor"`
	PendingDel  bool         `json:"pendingDeletion"`
	Hs1         string       `json:"hs1"` // stage-1 noise message this tunnel was created from (hex of a hash)
	Hs2         string       `json:"hs2"` // cached stage-2 reply (responder side), "" otherwise
	In          bool         `json:"in"`
	Out         bool         `json:"out"`
	LastRoam    string       `json:"lastRoam"`
	RxMax       uint64       `json:"rxMax"`
}

type VerifRelay struct {
	Peer        string `json:"peer"`
	Type        int    `json:"type"`
	State       int    `json:"state"`
	LocalIndex  uint32 `json:"lidx"`
	RemoteIndex uint32 `json:"ridx"`
}

type VerifPending struct {
	VpnAddr    string `json:"addr"`
	LocalIndex uint32 `json:"lidx"`
	Counter    int64  `json:"counter"`
	Ready      bool   `json:"ready"`
	Queued     int    `json:"queued"`
	Hs1        string `json:"hs1"`
}

type VerifState struct {
	Hosts         map[string][]uint32    `json:"hosts"`   // vpn addr -> local indexes, primary first
	Tunnels       map[uint32]VerifTunnel `json:"tunnels"` // by local index (Indexes map)
	RemoteIndexes map[uint32]uint32      `json:"remoteIndexes"`
	RelayIndexes  map[uint32]uint32      `json:"relayIndexes"` // relay idx -> local index of the owning tunnel
	Pending       []VerifPending         `json:"pending"`
	PendingIdx    []uint32               `json:"pendingIdx"`
}

func verifTunnel(h *HostInfo) VerifTunnel {
	t := VerifTunnel{LocalIndex: h.localIndexId, RemoteIndex: h.remoteIndexId, VpnAddrs: append([]netip.Addr(nil), h.vpnAddrs...),
		HsTime: h.lastHandshakeTime, PendingDel: h.pendingDeletion.Load()}
	if r := h.GetRemote(); r.IsValid() {
		t.Remote = r.String()
	}
	t.In, t.Out = h.in.Load(), h.out.Load()
	if !h.lastRoam.IsZero() {
		t.LastRoam = h.lastRoamRemote.String()
	}
	if cs := h.ConnectionState; cs != nil {
		t.Hs1 = verifStage(h, handshakePacketStage0, cs.initiator)
		if !cs.initiator {
			t.Hs2 = verifStage(h, handshakePacketStage2, false)
		}
		t.Initiator = cs.initiator
		t.Counter = cs.messageCounter.Load()
		cs.decryptLock.Lock()
		t.RxMax = cs.window.current
		cs.decryptLock.Unlock()
		if cs.peerCert != nil {
			t.CertName = cs.peerCert.Certificate.Name()
			for _, n := range cs.peerCert.Certificate.Networks() {
				t.CertNets = append(t.CertNets, n.String())
			}
		}
	}
	for _, r := range h.relayState.CopyRelayIps() {
		t.Relays = append(t.Relays, r.String())
	}
	h.relayState.RLock()
	for a, r := range h.relayState.relayForByAddr {
		t.RelayFor = append(t.RelayFor, VerifRelay{Peer: a.String(), Type: r.Type, State: r.State, LocalIndex: r.LocalIndex, RemoteIndex: r.RemoteIndex})
	}
	h.relayState.RUnlock()
	sort.Slice(t.RelayFor, func(i, j int) bool { return t.RelayFor[i].Peer < t.RelayFor[j].Peer })
	return t
}

// VerifProject returns the hostmap and pending-handshake state of the node.
func (c *Control) VerifProject() VerifState {
	s := VerifState{Hosts: map[string][]uint32{}, Tunnels: map[uint32]VerifTunnel{}, RemoteIndexes: map[uint32]uint32{}, RelayIndexes: map[uint32]uint32{}}
	hm := c.f.hostMap
	hm.RLock()
	for a := range hm.Hosts {
		for _, h := range hm.unlockedGetHostList(a) {
			s.Hosts[a.String()] = append(s.Hosts[a.String()], h.localIndexId)
		}
	}
	for idx, h := range hm.Indexes {
		t := verifTunnel(h)
		t.LocalIndex = idx
		s.Tunnels[idx] = t
	}
	for idx, h := range hm.RemoteIndexes {
		s.RemoteIndexes[idx] = h.localIndexId
	}
	for idx, h := range hm.Relays {
		s.RelayIndexes[idx] = h.localIndexId
	}
	hm.RUnlock()
	hsm := c.f.handshakeManager
	hsm.RLock()
	for a, hh := range hsm.vpnIps {
		hh.Lock()
		s.Pending = append(s.Pending, VerifPending{VpnAddr: a.String(), LocalIndex: hh.hostinfo.localIndexId, Counter: hh.counter, Ready: hh.ready, Queued: len(hh.packetStore),
			Hs1: verifStage(hh.hostinfo, handshakePacketStage0, true)})
		hh.Unlock()
	}
	for idx := range hsm.indexes {
		s.PendingIdx = append(s.PendingIdx, idx)
	}
	hsm.RUnlock()
	sort.Slice(s.Pending, func(i, j int) bool { return s.Pending[i].VpnAddr < s.Pending[j].VpnAddr })
	sort.Slice(s.PendingIdx, func(i, j int) bool { return s.PendingIdx[i] < s.PendingIdx[j] })
	return s
}

// VerifTunWrite writes one packet to the node's tun device (refused once the device is closed).
func (c *Control) VerifTunWrite() (int, error) {
	return c.f.inside.(*overlay.TestTun).Write([]byte{0x45, 0, 0, 20, 0, 0, 0, 0, 64, 17, 0, 0, 10, 0, 0, 1, 10, 0, 0, 2})
}

// VerifForceClose closes socket and device directly (used only to unwind after a leak was recorded).
func (c *Control) VerifForceClose() {
	c.cancel()
	_ = c.f.Close()
}

// VerifLighthouse returns a digest of the lighthouse cache (every owner's cached addresses and relays).
func (c *Control) VerifLighthouse() map[string]any {
	lh := c.f.lightHouse
	out := map[string]any{}
	lh.RLock()
	lists := map[netip.Addr]*RemoteList{}
	for a, rl := range lh.addrMap {
		lists[a] = rl
	}
	lh.RUnlock()
	for a, rl := range lists {
		out[a.String()] = map[string]any{"cache": rl.CopyCache(), "blocked": rl.CopyBlockedRemotes()}
	}
	return out
}

// VerifSend has this node send one encrypted message of the given type to the overlay address.
func (c *Control) VerifSend(t header.MessageType, st header.MessageSubType, to netip.Addr, payload []byte) {
	c.f.SendMessageToVpnAddr(t, st, to, payload, make([]byte, 12, 12), make([]byte, mtu))
}

// VerifLighthouseQuery / VerifControlMsg build real inner messages for the lighthouse and control types.
func VerifLighthouseQuery(about netip.Addr) []byte {
	msg := &NebulaMeta{Type: NebulaMeta_HostQuery, Details: &NebulaMetaDetails{}}
	if about.Is4() {
		b := about.As4()
		msg.Details.OldVpnAddr = uint32(b[0])<<24 | uint32(b[1])<<16 | uint32(b[2])<<8 | uint32(b[3])
	} else {
		msg.Details.VpnAddr = netAddrToProtoAddr(about)
	}
	b, _ := msg.Marshal()
	return b
}

func VerifControlMsg(from, to netip.Addr, idx uint32) []byte {
	req := NebulaControl{Type: NebulaControl_CreateRelayRequest, InitiatorRelayIndex: idx,
		RelayFromAddr: netAddrToProtoAddr(from), RelayToAddr: netAddrToProtoAddr(to)}
	b, _ := req.Marshal()
	return b
}

// VerifRelayWrap makes this (relay) node forward `inner` to target over its tunnel to target, using the relay
// record it holds there for claimedPeer -- what a relay does for relayed traffic, with the inner bytes and the
// record chosen by the harness (a relay that lies). Returns false if tunnel or record do not exist.
func (c *Control) VerifRelayWrap(target, claimedPeer netip.Addr, inner []byte) bool {
	hi := c.f.hostMap.QueryVpnAddr(target)
	if hi == nil {
		return false
	}
	relay, ok := hi.relayState.QueryRelayForByIp(claimedPeer)
	if !ok {
		return false
	}
	c.f.SendVia(hi, relay, inner, make([]byte, 12), make([]byte, mtu)[:0], false, 0)
	return true
}

// VerifControlResp builds a CreateRelayResponse control message.
func VerifControlResp(from, to netip.Addr, initIdx, respIdx uint32) []byte {
	resp := NebulaControl{Type: NebulaControl_CreateRelayResponse, InitiatorRelayIndex: initIdx, ResponderRelayIndex: respIdx,
		RelayFromAddr: netAddrToProtoAddr(from), RelayToAddr: netAddrToProtoAddr(to)}
	b, _ := resp.Marshal()
	return b
}

// VerifSendOnTunnel sends one encrypted message on the primary tunnel with `to`, if there is one (never starts a handshake).
func (c *Control) VerifSendOnTunnel(t header.MessageType, st header.MessageSubType, to netip.Addr, payload []byte) bool {
	hi := c.f.hostMap.QueryVpnAddr(to)
	if hi == nil || hi.ConnectionState == nil {
		return false
	}
	c.f.SendMessageToHostInfo(t, st, hi, payload, make([]byte, 12, 12), make([]byte, mtu))
	return true
}

// ---------------------------------------------------------------------------------------------------------------
// Additions for spec/Discovery.tla (system-level lighthouse discovery). Add-only; nothing above is changed.

// VerifOpened is an encrypted datagram opened with a tunnel key (read-only: neither the replay window nor any
// counter is touched, the datagram bytes are not modified).
type VerifOpened struct {
	Peer     string // certificate name of the peer of the tunnel
	PeerAddr netip.Addr
	Local    uint32 // local index of the tunnel on the node that opened it
	Type     header.MessageType
	Sub      header.MessageSubType
	Plain    []byte
}

func verifOpenWith(hi *HostInfo, key interface {
	DecryptDanger(out, ad, ciphertext []byte, n uint64, nb []byte) ([]byte, error)
	Overhead() int
}, h *header.H, data []byte) (*VerifOpened, bool) {
	if hi == nil || hi.ConnectionState == nil || key == nil || len(data) < header.Len+key.Overhead() {
		return nil, false
	}
	cp := append([]byte(nil), data...)
	// same nonce layout as ConnectionState.Decrypt: the cipher builds the nonce from the message counter in nb
	plain, err := key.DecryptDanger(nil, cp[:header.Len], cp[header.Len:], h.MessageCounter, make([]byte, 12, 12))
	if err != nil {
		return nil, false
	}
	o := &VerifOpened{Local: hi.localIndexId, Type: h.Type, Sub: h.Subtype, Plain: plain}
	if len(hi.vpnAddrs) > 0 {
		o.PeerAddr = hi.vpnAddrs[0]
	}
	if pc := hi.ConnectionState.peerCert; pc != nil {
		o.Peer = pc.Certificate.Name()
	}
	return o, true
}

// VerifOpenRecv opens a datagram addressed to this node: the tunnel is found by the header's remote index (= a local
// index of this node) and the AEAD is opened with that tunnel's receive key. ok=false: no such tunnel or not authentic.
func (c *Control) VerifOpenRecv(data []byte) (*VerifOpened, bool) {
	h := &header.H{}
	if err := h.Parse(data); err != nil || h.Type == header.Handshake || h.Type == header.RecvError {
		return nil, false
	}
	if h.Type == header.Message && h.Subtype == header.MessageRelay {
		return nil, false
	}
	hi := c.f.hostMap.QueryIndex(h.RemoteIndex)
	if hi == nil || hi.ConnectionState == nil {
		return nil, false
	}
	return verifOpenWith(hi, hi.ConnectionState.dKey, h, data)
}

// VerifOpenSent opens a datagram this node emitted: the tunnel is one whose remote index is the header's index, the
// AEAD is opened with that tunnel's send key (same key and nonce the peer would use).
func (c *Control) VerifOpenSent(data []byte) (*VerifOpened, bool) {
	h := &header.H{}
	if err := h.Parse(data); err != nil || h.Type == header.Handshake || h.Type == header.RecvError {
		return nil, false
	}
	if h.Type == header.Message && h.Subtype == header.MessageRelay {
		return nil, false
	}
	hm := c.f.hostMap
	hm.RLock()
	var cands []*HostInfo
	for _, hi := range hm.Indexes {
		if hi.remoteIndexId == h.RemoteIndex && hi.ConnectionState != nil {
			cands = append(cands, hi)
		}
	}
	hm.RUnlock()
	for _, hi := range cands {
		if o, ok := verifOpenWith(hi, hi.ConnectionState.eKey, h, data); ok {
			return o, true
		}
	}
	return nil, false
}

// VerifMeta is a decoded lighthouse payload.
type VerifMeta struct {
	Type   string           // NebulaMeta_MessageType name ("HostQuery", ...), "T<n>" for unknown numbers
	V1     bool             // the overlay address was carried in the v1 field
	HasVpn bool             // an overlay address was present
	Vpn    netip.Addr       // claimed / queried overlay address
	Addrs  []netip.AddrPort // V4AddrPorts then V6AddrPorts
	Relays []netip.Addr
}

func VerifDecodeMeta(p []byte) (VerifMeta, bool) {
	n := &NebulaMeta{}
	if err := n.Unmarshal(p); err != nil {
		return VerifMeta{}, false
	}
	out := VerifMeta{Type: NebulaMeta_MessageType_name[int32(n.Type)]}
	if out.Type == "" {
		out.Type = "T" + itoaVerif(int(n.Type))
	}
	if n.Details == nil {
		return out, true
	}
	if a, v, err := n.Details.GetVpnAddrAndVersion(); err == nil {
		out.HasVpn, out.Vpn, out.V1 = true, a, v == 1
	}
	for _, a := range n.Details.V4AddrPorts {
		if a != nil {
			out.Addrs = append(out.Addrs, protoV4AddrPortToNetAddrPort(a))
		}
	}
	for _, a := range n.Details.V6AddrPorts {
		if a != nil {
			out.Addrs = append(out.Addrs, protoV6AddrPortToNetAddrPort(a))
		}
	}
	out.Relays = n.Details.GetRelays()
	return out, true
}

func itoaVerif(i int) string {
	if i == 0 {
		return "0"
	}
	neg := i < 0
	if neg {
		i = -i
	}
	var b []byte
	for i > 0 {
		b = append([]byte{byte('0' + i%10)}, b...)
		i /= 10
	}
	if neg {
		b = append([]byte{'-'}, b...)
	}
	return string(b)
}

// VerifLighthouseMsg builds a lighthouse payload of any type with arbitrary claimed overlay address (invalid Addr = the
// field is left blank), underlay addresses and relays. v1 = carry the overlay address in the v1 field (IPv4 only).
func VerifLighthouseMsg(typ int32, about netip.Addr, addrs []netip.AddrPort, relays []netip.Addr, v1 bool) []byte {
	msg := &NebulaMeta{Type: NebulaMeta_MessageType(typ), Details: &NebulaMetaDetails{}}
	if about.IsValid() {
		if v1 && about.Is4() {
			b := about.As4()
			msg.Details.OldVpnAddr = uint32(b[0])<<24 | uint32(b[1])<<16 | uint32(b[2])<<8 | uint32(b[3])
		} else {
			msg.Details.VpnAddr = netAddrToProtoAddr(about)
		}
	}
	for _, a := range addrs {
		if a.Addr().Is4() {
			msg.Details.V4AddrPorts = append(msg.Details.V4AddrPorts, netAddrToProtoV4AddrPort(a.Addr(), a.Port()))
		} else {
			msg.Details.V6AddrPorts = append(msg.Details.V6AddrPorts, netAddrToProtoV6AddrPort(a.Addr(), a.Port()))
		}
	}
	for _, r := range relays {
		if v1 && r.Is4() {
			b := r.As4()
			msg.Details.OldRelayVpnAddrs = append(msg.Details.OldRelayVpnAddrs, uint32(b[0])<<24|uint32(b[1])<<16|uint32(b[2])<<8|uint32(b[3]))
		} else {
			msg.Details.RelayVpnAddrs = append(msg.Details.RelayVpnAddrs, netAddrToProtoAddr(r))
		}
	}
	b, _ := msg.Marshal()
	return b
}

// VerifRemoteEntry is one underlay address a node holds for an overlay address, with its provenance:
// Owner = who told (RemoteList.cache key), Kind = "rep" (reported list of that owner), "lrn" (learned slot of that owner),
// "rem" (current remote of a tunnel with Vpn), "blk" (blocked in one of the lists).
type VerifRemoteEntry struct {
	Vpn, Owner, Kind string
	Addr             netip.AddrPort
}

func verifListEntries(x netip.Addr, rl *RemoteList, blocked bool, out map[VerifRemoteEntry]struct{}) {
	if rl == nil {
		return
	}
	rl.RLock()
	defer rl.RUnlock()
	for owner, mc := range rl.cache {
		if mc == nil {
			continue
		}
		if mc.v4 != nil {
			if mc.v4.learned != nil {
				out[VerifRemoteEntry{x.String(), owner.String(), "lrn", protoV4AddrPortToNetAddrPort(mc.v4.learned)}] = struct{}{}
			}
			for _, a := range mc.v4.reported {
				if a != nil {
					out[VerifRemoteEntry{x.String(), owner.String(), "rep", protoV4AddrPortToNetAddrPort(a)}] = struct{}{}
				}
			}
		}
		if mc.v6 != nil {
			if mc.v6.learned != nil {
				out[VerifRemoteEntry{x.String(), owner.String(), "lrn", protoV6AddrPortToNetAddrPort(mc.v6.learned)}] = struct{}{}
			}
			for _, a := range mc.v6.reported {
				if a != nil {
					out[VerifRemoteEntry{x.String(), owner.String(), "rep", protoV6AddrPortToNetAddrPort(a)}] = struct{}{}
				}
			}
		}
	}
	if blocked {
		for _, a := range rl.badRemotes {
			out[VerifRemoteEntry{x.String(), x.String(), "blk", a}] = struct{}{}
		}
	}
}

// VerifRemotes projects every address list the node can use for a peer: the lighthouse cache (addrMap), the list of each
// pending handshake and the list and current remote of each tunnel (lists that are no longer in addrMap included).
func (c *Control) VerifRemotes() []VerifRemoteEntry {
	set := map[VerifRemoteEntry]struct{}{}
	lh := c.f.lightHouse
	lh.RLock()
	lists := map[netip.Addr]*RemoteList{}
	for a, rl := range lh.addrMap {
		lists[a] = rl
	}
	lh.RUnlock()
	for a, rl := range lists {
		verifListEntries(a, rl, true, set)
	}
	hsm := c.f.handshakeManager
	hsm.RLock()
	pend := map[netip.Addr]*HandshakeHostInfo{}
	for a, hh := range hsm.vpnIps {
		pend[a] = hh
	}
	hsm.RUnlock()
	for a, hh := range pend {
		hh.Lock()
		rl := hh.hostinfo.remotes
		hh.Unlock()
		verifListEntries(a, rl, true, set)
	}
	hm := c.f.hostMap
	hm.RLock()
	var tuns []*HostInfo
	for _, hi := range hm.Indexes {
		tuns = append(tuns, hi)
	}
	hm.RUnlock()
	for _, hi := range tuns {
		if len(hi.vpnAddrs) == 0 {
			continue
		}
		x := hi.vpnAddrs[0]
		verifListEntries(x, hi.remotes, true, set)
		if r := hi.GetRemote(); r.IsValid() {
			set[VerifRemoteEntry{x.String(), x.String(), "rem", r}] = struct{}{}
		}
	}
	out := make([]VerifRemoteEntry, 0, len(set))
	for e := range set {
		out = append(out, e)
	}
	sort.Slice(out, func(i, j int) bool {
		a, b := out[i], out[j]
		if a.Vpn != b.Vpn {
			return a.Vpn < b.Vpn
		}
		if a.Owner != b.Owner {
			return a.Owner < b.Owner
		}
		if a.Kind != b.Kind {
			return a.Kind < b.Kind
		}
		return a.Addr.String() < b.Addr.String()
	})
	return out
}

// VerifPendingOf names the overlay address whose pending handshake owns this local index ("" if none).
func (c *Control) VerifPendingOf(localIndex uint32) string {
	hsm := c.f.handshakeManager
	hsm.RLock()
	defer hsm.RUnlock()
	if hh, ok := hsm.indexes[localIndex]; ok && hh.hostinfo != nil && len(hh.hostinfo.vpnAddrs) > 0 {
		return hh.hostinfo.vpnAddrs[0].String()
	}
	return ""
}

// VerifSockets returns the udp sockets the node holds right now (one per configured routine after Main).
func (c *Control) VerifSockets() []udp.Conn {
	return append([]udp.Conn(nil), c.f.writers...)
}

// VerifKeyring remembers the tunnels a node holds at one moment, so that a datagram the node sends on a tunnel it deletes
// a moment later (close messages, the last message before the connection manager drops a tunnel) can still be opened.
type VerifKeyring struct{ byRemote map[uint32][]*HostInfo }

func (c *Control) VerifKeyring() *VerifKeyring {
	k := &VerifKeyring{byRemote: map[uint32][]*HostInfo{}}
	hm := c.f.hostMap
	hm.RLock()
	for _, hi := range hm.Indexes {
		if hi.ConnectionState != nil {
			k.byRemote[hi.remoteIndexId] = append(k.byRemote[hi.remoteIndexId], hi)
		}
	}
	hm.RUnlock()
	return k
}

// OpenSent opens a datagram the node emitted on one of the remembered tunnels (read-only, like VerifOpenSent).
func (k *VerifKeyring) OpenSent(data []byte) (*VerifOpened, bool) {
	if k == nil {
		return nil, false
	}
	h := &header.H{}
	if err := h.Parse(data); err != nil || h.Type == header.Handshake || h.Type == header.RecvError {
		return nil, false
	}
	if h.Type == header.Message && h.Subtype == header.MessageRelay {
		return nil, false
	}
	for _, hi := range k.byRemote[h.RemoteIndex] {
		if o, ok := verifOpenWith(hi, hi.ConnectionState.eKey, h, data); ok {
			return o, true
		}
	}
	return nil, false
}

// VerifSampleLiveness reads and clears the traffic marks of every tunnel the way the connection manager does when its
// traffic timer fires (hostinfo.in / hostinfo.out are swapped to false); returns how many inbound marks were set.
func (c *Control) VerifSampleLiveness() int {
	n := 0
	c.f.hostMap.RLock()
	defer c.f.hostMap.RUnlock()
	for _, h := range c.f.hostMap.Indexes {
		if h.in.Swap(false) {
			n++
		}
		h.out.Swap(false)
	}
	return n
}
