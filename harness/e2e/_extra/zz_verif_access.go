//go:build e2e_testing

package nebula

// Added to package nebula by the /verif overlay (never part of the repository): read-only
// projection of a running node onto plain data for the whole-node conformance harnesses.

import (
	"crypto/sha256"
	"encoding/hex"
	"net/netip"
	"sort"

	"github.com/slackhq/nebula/header"
	"github.com/slackhq/nebula/overlay"
)

// VerifMsgName names a handshake message by its noise bytes (the datagram without the nebula header).
func VerifMsgName(noise []byte) string {
	if len(noise) == 0 {
		return ""
	}
	h := sha256.Sum256(noise)
	return hex.EncodeToString(h[:8])
}

func verifStage(h *HostInfo, stage uint8, initiatorSide bool) string {
	b := h.HandshakePacket[stage]
	if len(b) == 0 {
		return ""
	}
	// messages this node built itself carry the nebula header, the received stage 1 is stored without it
	if initiatorSide || stage == handshakePacketStage2 {
		if len(b) <= header.Len {
			return ""
		}
		b = b[header.Len:]
	}
	return VerifMsgName(b)
}

type VerifTunnel struct {
	LocalIndex  uint32       `json:"lidx"`
	RemoteIndex uint32       `json:"ridx"`
	VpnAddrs    []netip.Addr `json:"addrs"`
	Remote      string       `json:"remote"`
	Initiator   bool         `json:"initiator"`
	HsTime      uint64       `json:"hsTime"`
	CertName    string       `json:"certName"`
	CertNets    []string     `json:"certNets"`
	Counter     uint64       `json:"counter"`
	Relays      []string     `json:"relays"`
	RelayFor    []VerifRelay `json:"relayFor"`
	PendingDel  bool         `json:"pendingDeletion"`
	Hs1         string       `json:"hs1"` // stage-1 noise message this tunnel was created from (hex of a hash)
	Hs2         string       `json:"hs2"` // cached stage-2 reply (responder side), "" otherwise
	In          bool         `json:"in"`
	Out         bool         `json:"out"`
	LastRoam    string       `json:"lastRoam"`
	RxMax       uint64       `json:"rxMax"`
}

type VerifRelay struct {
	Peer        string `json:"peer"`
	Type        int    `json:"type"`
	State       int    `json:"state"`
	LocalIndex  uint32 `json:"lidx"`
	RemoteIndex uint32 `json:"ridx"`
}

type VerifPending struct {
	VpnAddr    string `json:"addr"`
	LocalIndex uint32 `json:"lidx"`
	Counter    int64  `json:"counter"`
	Ready      bool   `json:"ready"`
	Queued     int    `json:"queued"`
	Hs1        string `json:"hs1"`
}

type VerifState struct {
	Hosts         map[string][]uint32    `json:"hosts"`   // vpn addr -> local indexes, primary first
	Tunnels       map[uint32]VerifTunnel `json:"tunnels"` // by local index (Indexes map)
	RemoteIndexes map[uint32]uint32      `json:"remoteIndexes"`
	RelayIndexes  map[uint32]uint32      `json:"relayIndexes"` // relay idx -> local index of the owning tunnel
	Pending       []VerifPending         `json:"pending"`
	PendingIdx    []uint32               `json:"pendingIdx"`
}

func verifTunnel(h *HostInfo) VerifTunnel {
	t := VerifTunnel{LocalIndex: h.localIndexId, RemoteIndex: h.remoteIndexId, VpnAddrs: append([]netip.Addr(nil), h.vpnAddrs...),
		HsTime: h.lastHandshakeTime, PendingDel: h.pendingDeletion.Load()}
	if r := h.GetRemote(); r.IsValid() {
		t.Remote = r.String()
	}
	t.In, t.Out = h.in.Load(), h.out.Load()
	if !h.lastRoam.IsZero() {
		t.LastRoam = h.lastRoamRemote.String()
	}
	if cs := h.ConnectionState; cs != nil {
		t.Hs1 = verifStage(h, handshakePacketStage0, cs.initiator)
		if !cs.initiator {
			t.Hs2 = verifStage(h, handshakePacketStage2, false)
		}
		t.Initiator = cs.initiator
		t.Counter = cs.messageCounter.Load()
		cs.decryptLock.Lock()
		t.RxMax = cs.window.current
		cs.decryptLock.Unlock()
		if cs.peerCert != nil {
			t.CertName = cs.peerCert.Certificate.Name()
			for _, n := range cs.peerCert.Certificate.Networks() {
				t.CertNets = append(t.CertNets, n.String())
			}
		}
	}
	for _, r := range h.relayState.CopyRelayIps() {
		t.Relays = append(t.Relays, r.String())
	}
	h.relayState.RLock()
	for a, r := range h.relayState.relayForByAddr {
		t.RelayFor = append(t.RelayFor, VerifRelay{Peer: a.String(), Type: r.Type, State: r.State, LocalIndex: r.LocalIndex, RemoteIndex: r.RemoteIndex})
	}
	h.relayState.RUnlock()
	sort.Slice(t.RelayFor, func(i, j int) bool { return t.RelayFor[i].Peer < t.RelayFor[j].Peer })
	return t
}

// VerifProject returns the hostmap and pending-handshake state of the node.
func (c *Control) VerifProject() VerifState {
	s := VerifState{Hosts: map[string][]uint32{}, Tunnels: map[uint32]VerifTunnel{}, RemoteIndexes: map[uint32]uint32{}, RelayIndexes: map[uint32]uint32{}}
	hm := c.f.hostMap
	hm.RLock()
	for a := range hm.Hosts {
		for _, h := range hm.unlockedGetHostList(a) {
			s.Hosts[a.String()] = append(s.Hosts[a.String()], h.localIndexId)
		}
	}
	for idx, h := range hm.Indexes {
		t := verifTunnel(h)
		t.LocalIndex = idx
		s.Tunnels[idx] = t
	}
	for idx, h := range hm.RemoteIndexes {
		s.RemoteIndexes[idx] = h.localIndexId
	}
	for idx, h := range hm.Relays {
		s.RelayIndexes[idx] = h.localIndexId
	}
	hm.RUnlock()
	hsm := c.f.handshakeManager
	hsm.RLock()
	for a, hh := range hsm.vpnIps {
		hh.Lock()
		s.Pending = append(s.Pending, VerifPending{VpnAddr: a.String(), LocalIndex: hh.hostinfo.localIndexId, Counter: hh.counter, Ready: hh.ready, Queued: len(hh.packetStore),
			Hs1: verifStage(hh.hostinfo, handshakePacketStage0, true)})
		hh.Unlock()
	}
	for idx := range hsm.indexes {
		s.PendingIdx = append(s.PendingIdx, idx)
	}
	hsm.RUnlock()
	sort.Slice(s.Pending, func(i, j int) bool { return s.Pending[i].VpnAddr < s.Pending[j].VpnAddr })
	sort.Slice(s.PendingIdx, func(i, j int) bool { return s.PendingIdx[i] < s.PendingIdx[j] })
	return s
}

// VerifTunWrite writes one packet to the node's tun device (refused once the device is closed).
func (c *Control) VerifTunWrite() (int, error) {
	return c.f.inside.(*overlay.TestTun).Write([]byte{0x45, 0, 0, 20, 0, 0, 0, 0, 64, 17, 0, 0, 10, 0, 0, 1, 10, 0, 0, 2})
}

// VerifForceClose closes socket and device directly (used only to unwind after a leak was recorded).
func (c *Control) VerifForceClose() {
	c.cancel()
	_ = c.f.Close()
}

// VerifLighthouse returns a digest of the lighthouse cache (every owner's cached addresses and relays).
func (c *Control) VerifLighthouse() map[string]any {
	lh := c.f.lightHouse
	out := map[string]any{}
	lh.RLock()
	lists := map[netip.Addr]*RemoteList{}
	for a, rl := range lh.addrMap {
		lists[a] = rl
	}
	lh.RUnlock()
	for a, rl := range lists {
		out[a.String()] = map[string]any{"cache": rl.CopyCache(), "blocked": rl.CopyBlockedRemotes()}
	}
	return out
}

// VerifSend has this node send one encrypted message of the given type to the overlay address.
func (c *Control) VerifSend(t header.MessageType, st header.MessageSubType, to netip.Addr, payload []byte) {
	c.f.SendMessageToVpnAddr(t, st, to, payload, make([]byte, 12, 12), make([]byte, mtu))
}

// VerifLighthouseQuery / VerifControlMsg build real inner messages for the lighthouse and control types.
func VerifLighthouseQuery(about netip.Addr) []byte {
	msg := &NebulaMeta{Type: NebulaMeta_HostQuery, Details: &NebulaMetaDetails{}}
	if about.Is4() {
		b := about.As4()
		msg.Details.OldVpnAddr = uint32(b[0])<<24 | uint32(b[1])<<16 | uint32(b[2])<<8 | uint32(b[3])
	} else {
		msg.Details.VpnAddr = netAddrToProtoAddr(about)
	}
	b, _ := msg.Marshal()
	return b
}

func VerifControlMsg(from, to netip.Addr, idx uint32) []byte {
	req := NebulaControl{Type: NebulaControl_CreateRelayRequest, InitiatorRelayIndex: idx,
		RelayFromAddr: netAddrToProtoAddr(from), RelayToAddr: netAddrToProtoAddr(to)}
	b, _ := req.Marshal()
	return b
}

// VerifRelayWrap makes this (relay) node forward `inner` to target over its tunnel to target, using the relay
// record it holds there for claimedPeer -- what a relay does for relayed traffic, with the inner bytes and the
// record chosen by the harness (a relay that lies). Returns false if tunnel or record do not exist.
func (c *Control) VerifRelayWrap(target, claimedPeer netip.Addr, inner []byte) bool {
	hi := c.f.hostMap.QueryVpnAddr(target)
	if hi == nil {
		return false
	}
	relay, ok := hi.relayState.QueryRelayForByIp(claimedPeer)
	if !ok {
		return false
	}
	c.f.SendVia(hi, relay, inner, make([]byte, 12), make([]byte, mtu)[:0], false, 0)
	return true
}

// VerifControlResp builds a CreateRelayResponse control message.
func VerifControlResp(from, to netip.Addr, initIdx, respIdx uint32) []byte {
	resp := NebulaControl{Type: NebulaControl_CreateRelayResponse, InitiatorRelayIndex: initIdx, ResponderRelayIndex: respIdx,
		RelayFromAddr: netAddrToProtoAddr(from), RelayToAddr: netAddrToProtoAddr(to)}
	b, _ := resp.Marshal()
	return b
}

// VerifSendOnTunnel sends one encrypted message on the primary tunnel with `to`, if there is one (never starts a handshake).
func (c *Control) VerifSendOnTunnel(t header.MessageType, st header.MessageSubType, to netip.Addr, payload []byte) bool {
	hi := c.f.hostMap.QueryVpnAddr(to)
	if hi == nil || hi.ConnectionState == nil {
		return false
	}
	c.f.SendMessageToHostInfo(t, st, hi, payload, make([]byte, 12, 12), make([]byte, mtu))
	return true
}
