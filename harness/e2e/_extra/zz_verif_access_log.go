//go:build e2e_testing

package nebula

// Added to package nebula by the /verif overlay (never part of the repository): lets a whole-node harness put a
// slog.Handler of its own in front of the node's handler (to park a goroutine at one of its log calls).

import "log/slog"

// VerifWrapLogHandler replaces the handler of the logger that Main was given (every component holds the same *slog.Logger).
// To be called before Start.
func (c *Control) VerifWrapLogHandler(wrap func(slog.Handler) slog.Handler) {
	*c.l = *slog.New(wrap(c.l.Handler()))
}
