//go:build e2e_testing

package nebula

// Added to package nebula by the /verif overlay (never part of the repository): read-only projection used by the
// manager-level stage of C07 (spec/HsReject.tla): for every tunnel record a node holds -- pending handshakes included --
// where it would send (current remote), which underlay addresses it has learned for the peer, which relays it would use
// and which relay records it carries. Add-only; nothing else in the overlay depends on it.

import (
	"net/netip"
	"sort"
)

type VerifC07Relay struct {
	Peer        string
	Type        int
	State       int
	LocalIndex  uint32
	RemoteIndex uint32
}

type VerifC07Host struct {
	Pending     bool
	VpnAddrs    []netip.Addr
	Peer        string // certificate name (completed tunnels)
	LocalIndex  uint32
	RemoteIndex uint32
	Initiator   bool
	HasKeys     bool
	Remote      string   // current underlay remote, "" = none
	Learned     []string // deduplicated underlay address list of the tunnel (RemoteList.CopyAddrs), in order
	CacheLearn  []string // owner -> learned slot, "owner=addr"
	CacheReport []string // owner -> reported addresses
	CacheRelay  []string // owner -> relays
	Blocked     []string
	Relays      []string // relays this tunnel would be reached through (RelayState.relays)
	RelayFor    []VerifC07Relay
	Ready       bool // pending: stage 1 built
	Queued      int  // pending: cached inside packets
	Counter     int64
	HsTime      uint64
	LastRoam    string
}

func verifC07Host(c *Control, h *HostInfo) VerifC07Host {
	o := VerifC07Host{VpnAddrs: append([]netip.Addr(nil), h.vpnAddrs...), LocalIndex: h.localIndexId, RemoteIndex: h.remoteIndexId, HsTime: h.lastHandshakeTime}
	if r := h.GetRemote(); r.IsValid() {
		o.Remote = r.String()
	}
	if !h.lastRoam.IsZero() {
		o.LastRoam = h.lastRoamRemote.String()
	}
	if cs := h.ConnectionState; cs != nil {
		o.HasKeys = true
		o.Initiator = cs.initiator
		if cs.peerCert != nil {
			o.Peer = cs.peerCert.Certificate.Name()
		}
	}
	if rl := h.remotes; rl != nil {
		for _, a := range rl.CopyAddrs(c.f.hostMap.GetPreferredRanges()) {
			o.Learned = append(o.Learned, a.String())
		}
		if cm := rl.CopyCache(); cm != nil {
			for owner, cc := range *cm {
				for _, a := range cc.Learned {
					o.CacheLearn = append(o.CacheLearn, owner+"="+a.String())
				}
				for _, a := range cc.Reported {
					o.CacheReport = append(o.CacheReport, owner+"="+a.String())
				}
				for _, a := range cc.Relay {
					o.CacheRelay = append(o.CacheRelay, owner+"="+a.String())
				}
			}
		}
		sort.Strings(o.CacheLearn)
		sort.Strings(o.CacheReport)
		sort.Strings(o.CacheRelay)
		for _, a := range rl.CopyBlockedRemotes() {
			o.Blocked = append(o.Blocked, a.String())
		}
		sort.Strings(o.Blocked)
	}
	for _, r := range h.relayState.CopyRelayIps() {
		o.Relays = append(o.Relays, r.String())
	}
	h.relayState.RLock()
	for a, r := range h.relayState.relayForByAddr {
		o.RelayFor = append(o.RelayFor, VerifC07Relay{Peer: a.String(), Type: r.Type, State: r.State, LocalIndex: r.LocalIndex, RemoteIndex: r.RemoteIndex})
	}
	h.relayState.RUnlock()
	sort.Slice(o.RelayFor, func(i, j int) bool { return o.RelayFor[i].Peer < o.RelayFor[j].Peer })
	return o
}

// VerifC07Project lists the pending handshakes and the tunnels of the node.
func (c *Control) VerifC07Project() []VerifC07Host {
	var out []VerifC07Host
	hsm := c.f.handshakeManager
	hsm.RLock()
	var pend []*HandshakeHostInfo
	for _, hh := range hsm.indexes {
		pend = append(pend, hh)
	}
	hsm.RUnlock()
	for _, hh := range pend {
		hh.Lock()
		o := verifC07Host(c, hh.hostinfo)
		o.Pending, o.Ready, o.Queued, o.Counter = true, hh.ready, len(hh.packetStore), hh.counter
		hh.Unlock()
		out = append(out, o)
	}
	hm := c.f.hostMap
	hm.RLock()
	var his []*HostInfo
	for _, h := range hm.Indexes {
		his = append(his, h)
	}
	hm.RUnlock()
	for _, h := range his {
		out = append(out, verifC07Host(c, h))
	}
	return out
}

// VerifC07PendingIndex returns the local index of the pending handshake for the overlay address (0: none).
func (c *Control) VerifC07PendingIndex(to netip.Addr) uint32 {
	hsm := c.f.handshakeManager
	hsm.RLock()
	defer hsm.RUnlock()
	if hh, ok := hsm.vpnIps[to]; ok {
		return hh.hostinfo.localIndexId
	}
	return 0
}
