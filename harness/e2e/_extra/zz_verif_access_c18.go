//go:build e2e_testing

package nebula

// Added to package nebula by the /verif overlay (never part of the repository): read-only view used by the whole-node
// stage of C18 (spec/ConntrackNode.tla). Add-only; nothing else in the overlay depends on it.

import (
	"net/netip"
	"time"

	"github.com/slackhq/nebula/firewall"
)

// VerifC18CacheTimeout: the period of the routine-local conntrack caches of this node's reader routines (0 = off) and
// the number of reader routine pairs the node runs.
func (c *Control) VerifC18CacheTimeout() (time.Duration, int) {
	return c.f.conntrackCacheTimeout, c.f.routines
}

// VerifC18Conn: when the conntrack table entry of the tuple expires (ok=false: no entry) and how many entries the table has.
func (c *Control) VerifC18Conn(local, remote netip.Addr, lport, rport uint16, proto uint8) (expires time.Time, ok bool, entries int) {
	fw := c.f.firewall
	ct := fw.Conntrack
	ct.Lock()
	defer ct.Unlock()
	e, ok := ct.Conns[firewall.Packet{LocalAddr: local, RemoteAddr: remote, LocalPort: lport, RemotePort: rport, Protocol: proto}]
	if ok {
		expires = e.Expires
	}
	return expires, ok, len(ct.Conns)
}
