//go:build e2e_testing

package e2e

// C34 workload driver. Runs, against the package nebula instrumented by /verif/tools/lockinst:
//   (a) the repository's own multi-node tests (the table c34Tests is generated at check time from the test functions the
//       current tree declares: zz_verif_c34_gen_test.go), and
//   (b) c34Stress: five complete nodes (lighthouse+relay L, peers A B C D; A<->C only through the relay) under genuinely
//       concurrent load: traffic between all pairs, tunnel teardown, re-handshakes, roaming, hostmap / lighthouse queries
//       and configuration reloads, each from its own goroutine, on real time. The scripted tests are request/response
//       sequences with little concurrency inside one node; the stress part is what lets the gate find real goroutines
//       simultaneously inside a predicted cycle.
// Every lock operation, goroutine creation and guarded-map access is recorded by the runtime package zzvlk into
// $VERIF_OUT/locks.ndjson; the verdicts are TLC's (spec/LockOrder.tla, spec/LockDiscipline.tla).
//
// A failing repository test is not a verdict of this property: it is reported in the result (extra.failed) and judged by
// tools/props/C34.py.

import (
	"fmt"
	"math/rand"
	"net/netip"
	"os"
	"regexp"
	"runtime"
	"strconv"
	"sync"
	"sync/atomic"
	"testing"
	"time"

	"github.com/slackhq/nebula"
	"github.com/slackhq/nebula/cert"
	"github.com/slackhq/nebula/cert_test"
	"github.com/slackhq/nebula/config"
	"github.com/slackhq/nebula/zzvlk"
	"go.yaml.in/yaml/v3"
)

const c34StressName = "VerifC34Stress"

func TestVerif_C34(t *testing.T) {
	res := vNewResult()
	defer res.Write(t)
	var sel *regexp.Regexp
	if s := os.Getenv("VLK_TESTS"); s != "" {
		sel = regexp.MustCompile(s)
	}
	ran, failed := []string{}, []string{}
	running := map[string]bool{}
	var mu sync.Mutex
	finish := func(hung []string) {
		for _, n := range ran {
			res.Case(n)
			res.Hit("test")
		}
		res.mu.Lock()
		res.Extra["ran"] = ran
		res.Extra["failed"] = failed
		res.Extra["hung"] = hung
		res.Extra["gate"] = zzvlk.GateStats()
		res.Traces = len(ran) - len(hung)
		res.mu.Unlock()
	}
	// A workload that does not terminate must not take the check with it: at the deadline a lock cycle that really
	// happened is recorded as such (exit status 97); otherwise the log and the result are written, the tests still
	// running are reported as hung, and the process ends with status 98. (time.AfterFunc: no goroutine exists until it
	// fires, so the repository's goroutine-leak test is not disturbed.)
	dl := 240
	if s := os.Getenv("VLK_DEADLINE_S"); s != "" {
		if n, err := strconv.Atoi(s); err == nil {
			dl = n
		}
	}
	alarm := time.AfterFunc(time.Duration(dl)*time.Second, func() {
		zzvlk.CheckStuck()
		mu.Lock()
		var hung []string
		for n, r := range running {
			if r {
				hung = append(hung, n)
			}
		}
		finish(hung)
		mu.Unlock()
		zzvlk.Mark("end", "deadline")
		zzvlk.Flush()
		res.Write(t)
		fmt.Fprintf(os.Stderr, "c34: workload deadline (%ds) reached, still running: %v\n", dl, hung)
		os.Exit(98)
	})
	defer alarm.Stop()
	runOne := func(t *testing.T, name string, fn func(*testing.T)) {
		ran = append(ran, name)
		t.Run(name, func(t *testing.T) {
			// the mark carries the goroutine of the test: the objects it creates identify its part of the log
			zzvlk.Mark("test", name)
			mu.Lock()
			running[name] = true
			mu.Unlock()
			defer func() {
				mu.Lock()
				running[name] = false
				if t.Failed() {
					failed = append(failed, name)
				}
				mu.Unlock()
			}()
			fn(t)
		})
	}
	// the group returns when every (parallel) test of it has finished
	t.Run("e2e", func(t *testing.T) {
		for _, tc := range c34Tests {
			if sel != nil && !sel.MatchString(tc.name) {
				continue
			}
			runOne(t, tc.name, tc.fn)
		}
	})
	// the stress workload last: its nodes are left running (see c34Stress) and must not fill the log while other tests run
	if sel == nil || sel.MatchString(c34StressName) {
		runOne(t, c34StressName, func(t *testing.T) { c34Stress(t, res) })
	}
	alarm.Stop()
	zzvlk.Mark("end", "")
	zzvlk.Flush()
	mu.Lock()
	finish(nil)
	mu.Unlock()
}

func c34WaitTimeout(wg *sync.WaitGroup, d time.Duration) bool {
	done := make(chan struct{})
	go func() { wg.Wait(); close(done) }()
	select {
	case <-done:
		return true
	case <-time.After(d):
		return false
	}
}

type c34Node struct {
	name     string
	ctrl     *nebula.Control
	vpn      netip.Addr
	udp      netip.AddrPort
	cfg      *config.C
	inflight chan struct{} // datagrams on their way into this node
}

// c34Stress: concurrent load, churn and reloads on five complete nodes. Nothing is asserted about the traffic; the run
// must simply terminate (a hang is reported by the go test timeout).
func c34Stress(t *testing.T, res *vResult) {
	dur := 2500 * time.Millisecond
	if s := os.Getenv("VLK_STRESS_MS"); s != "" {
		if n, err := strconv.Atoi(s); err == nil {
			dur = time.Duration(n) * time.Millisecond
		}
	}
	seed := vSeed()
	ca, _, caKey, _ := cert_test.NewTestCaCert(cert.Version1, cert.Curve_CURVE25519, time.Now().Add(-time.Minute), time.Now().Add(time.Hour), nil, nil, []string{})
	fast := m{"try_interval": "30ms", "retries": 8}
	lhO := m{"lighthouse": m{"am_lighthouse": true}, "relay": m{"am_relay": true}, "handshakes": fast}
	lc, lvpn, ludp, lcfg := newSimpleServer(cert.Version1, ca, caKey, "c34-lh", "10.128.0.1/24", lhO)
	peerO := func() m {
		return m{
			"static_host_map": m{lvpn[0].Addr().String(): []string{ludp.String()}},
			"lighthouse": m{"hosts": []string{lvpn[0].Addr().String()}, "interval": 1,
				"local_allow_list": m{"10.0.0.0/24": true, "::/0": false}},
			"relay":      m{"use_relays": true, "relays": []string{lvpn[0].Addr().String()}},
			"handshakes": fast,
			"timers":     m{"connection_alive_interval": 1, "pending_deletion_interval": 1},
		}
	}
	nodes := []*c34Node{{name: "L", ctrl: lc, vpn: lvpn[0].Addr(), udp: ludp, cfg: lcfg, inflight: make(chan struct{}, 32)}}
	for i, n := range []string{"A", "B", "C", "D"} {
		c, vpn, udp, cfg := newSimpleServer(cert.Version1, ca, caKey, "c34-"+n, fmt.Sprintf("10.128.0.%d/24", i+2), peerO())
		nodes = append(nodes, &c34Node{name: n, ctrl: c, vpn: vpn[0].Addr(), udp: udp, cfg: cfg, inflight: make(chan struct{}, 32)})
	}
	byUDP := map[netip.AddrPort]*c34Node{}
	for _, n := range nodes {
		byUDP[n.udp] = n
		udp := n.udp
		n.ctrl.SetLocalAddrsFn(func(*nebula.LocalAllowList) []netip.Addr { return []netip.Addr{udp.Addr()} })
	}
	for _, n := range nodes {
		if err := n.ctrl.Start(); err != nil {
			t.Fatalf("start %s: %v", n.name, err)
		}
	}
	stop := make(chan struct{})    // stops the actors
	netStop := make(chan struct{}) // stops the network (after the actors and the nodes)
	var wg, netWg sync.WaitGroup
	var pumped, dropped, sent, acts atomic.Int64
	var quiesced atomic.Bool
	blocked := func(a, b *c34Node) bool { // A and C never reach each other directly: relay through L
		return (a.name == "A" && b.name == "C") || (a.name == "C" && b.name == "A")
	}
	// the network: one pump per node, one tun drain per node
	for _, n := range nodes {
		n := n
		udpc, tunc := n.ctrl.GetUDPTxChan(), n.ctrl.GetTunTxChan()
		netWg.Add(2)
		go func() {
			defer netWg.Done()
			for {
				select {
				case <-netStop:
					return
				case p, ok := <-udpc:
					if !ok || p == nil {
						return
					}
					// a network never blocks its senders: a datagram whose receiver is not keeping up is dropped
					dst := byUDP[p.To]
					if dst == nil || blocked(n, dst) || quiesced.Load() {
						p.Release()
						continue
					}
					select {
					case dst.inflight <- struct{}{}:
						go func() {
							dst.ctrl.InjectUDPPacket(p) // copies p, then queues the copy (returns at once when the node is closed)
							p.Release()
							pumped.Add(1)
							<-dst.inflight
						}()
					default:
						dropped.Add(1)
						p.Release()
					}
				}
			}
		}()
		go func() {
			defer netWg.Done()
			for {
				select {
				case <-netStop:
					return
				case _, ok := <-tunc:
					if !ok {
						return
					}
				}
			}
		}()
	}
	spawn := func(id int64, every time.Duration, f func(r *rand.Rand)) {
		wg.Add(1)
		go func() {
			defer wg.Done()
			r := rand.New(rand.NewSource(seed*1000003 + id))
			for {
				select {
				case <-stop:
					return
				case <-time.After(every/2 + time.Duration(r.Int63n(int64(every)))):
				}
				f(r)
				acts.Add(1)
			}
		}()
	}
	peers := nodes[1:]
	// traffic between every ordered pair of peers and to the lighthouse
	id := int64(0)
	for _, a := range nodes {
		for _, b := range nodes {
			if a == b {
				continue
			}
			a, b := a, b
			id++
			spawn(id, 12*time.Millisecond, func(r *rand.Rand) {
				pkt := BuildTunUDPPacket(b.vpn, 80, a.vpn, uint16(1000+r.Intn(4)), []byte("c34 stress payload"))
				done := make(chan struct{})
				go func() { a.ctrl.InjectTunPacket(pkt); close(done) }()
				select {
				case <-done:
					sent.Add(1)
				case <-stop:
				}
			})
		}
	}
	// tunnel teardown, re-handshake, pending-tunnel kill, roaming
	for w := 0; w < 2; w++ {
		id++
		spawn(id, 25*time.Millisecond, func(r *rand.Rand) {
			n := nodes[r.Intn(len(nodes))]
			p := nodes[r.Intn(len(nodes))]
			if n == p {
				return
			}
			switch r.Intn(8) {
			case 0:
				n.ctrl.CloseTunnel(p.vpn, r.Intn(2) == 0)
			case 1:
				n.ctrl.ReHandshake(p.vpn)
			case 2:
				n.ctrl.KillPendingTunnel(p.vpn)
			case 3:
				n.ctrl.SetRemoteForTunnel(p.vpn, p.udp)
			case 4:
				n.ctrl.CreateTunnel(p.vpn)
			case 5:
				if r.Intn(6) == 0 {
					n.ctrl.CloseAllTunnels(r.Intn(2) == 0)
				}
			case 6:
				n.ctrl.InjectLightHouseAddr(p.vpn, p.udp)
			case 7:
				if n.name != "L" && r.Intn(4) == 0 {
					n.ctrl.RebindUDPServer()
				}
			}
		})
	}
	// hostmap / lighthouse queries (the control API used by ssh, the mobile apps and the service package)
	for w := 0; w < 2; w++ {
		id++
		spawn(id, 8*time.Millisecond, func(r *rand.Rand) {
			n := nodes[r.Intn(len(nodes))]
			p := nodes[r.Intn(len(nodes))]
			switch r.Intn(6) {
			case 0:
				n.ctrl.ListHostmapHosts(r.Intn(2) == 0)
			case 1:
				n.ctrl.ListHostmapIndexes(r.Intn(2) == 0)
			case 2:
				n.ctrl.GetHostInfoByVpnAddr(p.vpn, r.Intn(2) == 0)
			case 3:
				n.ctrl.QueryLighthouse(p.vpn)
			case 4:
				n.ctrl.PrintTunnel(p.vpn)
			case 5:
				n.ctrl.GetCertByVpnIp(p.vpn)
			}
		})
	}
	// configuration reloads: firewall rules, preferred ranges, lighthouse settings of the peers
	id++
	spawn(id, 120*time.Millisecond, func(r *rand.Rand) {
		n := peers[r.Intn(len(peers))]
		ns := make(m)
		for k, v := range n.cfg.Settings {
			ns[k] = v
		}
		switch r.Intn(4) {
		case 0:
			ns["firewall"] = m{
				"outbound": []m{{"proto": "any", "port": "any", "host": "any"}},
				"inbound":  []m{{"proto": "any", "port": "any", "host": "any"}, {"proto": "udp", "port": 1000 + r.Intn(50), "host": "any"}},
			}
		case 1:
			ns["preferred_ranges"] = []string{fmt.Sprintf("10.0.%d.0/24", r.Intn(3))}
		case 2:
			ns["lighthouse"] = m{"hosts": []string{lvpn[0].Addr().String()}, "interval": 1 + r.Intn(2),
				"local_allow_list": m{"10.0.0.0/24": true, "::/0": false}}
		case 3:
			ns["punchy"] = m{"punch": r.Intn(2) == 0, "respond": r.Intn(2) == 0}
		}
		b, err := yaml.Marshal(ns)
		if err == nil {
			_ = n.cfg.ReloadConfigString(string(b))
		}
	})

	time.Sleep(dur)
	// the actors first (the network still delivers, so nothing they call can block on a full queue), then the nodes,
	// then the network
	close(stop)
	if !c34WaitTimeout(&wg, 20*time.Second) {
		zzvlk.CheckStuck() // a lock cycle that really happened is recorded as such (and ends the process)
		buf := make([]byte, 1<<20)
		buf = buf[:runtime.Stack(buf, true)]
		t.Errorf("c34 stress: the actors did not finish within 20s of the stop signal (a goroutine is blocked inside nebula):\n%s", buf)
	}
	// The nodes are NOT stopped: the tester tun panics ("send on closed channel") when a node is closed while a datagram
	// it has already taken off its queue is still on its way to the tun, and the harness cannot know when that is over.
	// The network is cut instead (every datagram is dropped from now on, the tun side is still drained), which leaves
	// five idle nodes behind until the test binary ends. Control.Stop under load is exercised by the scripted tests.
	quiesced.Store(true)
	_ = netStop
	_ = &netWg
	res.mu.Lock()
	res.Extra["stress"] = map[string]int64{"pumped": pumped.Load(), "dropped": dropped.Load(), "tun_sent": sent.Load(), "actions": acts.Load(), "ms": dur.Milliseconds()}
	res.mu.Unlock()
	if pumped.Load() == 0 {
		t.Errorf("c34 stress: no datagram was exchanged")
	}
}
