package handshake

// C06 — completed handshakes agree on keys and indexes.
//
//  R: TLC's state graph of spec/Handshake.tla with two honest initiators and two honest responders under all five
//     certificate-version configurations (v1, v2, negotiation up/down, no common version), replays and rewritten indexes,
//     walked on real Machines for both curves and both ciphers. After every completion the cross-decrypt matrix of the
//     real keys (wrapped by noiseutil.NewCipherState exactly as newConnectionStateFromResult does, header as associated
//     data) must equal the specification's, and every pair that completed the same session must cross-match indexes,
//     report the same message count and non-zero local indexes.
//  V: curve x cipher x version configuration x boundary index allocators: one honest session each, all keys of the run
//     tried against each other.
//  T: seeded random schedules judged by the same predicates.

import (
	"fmt"
	mrand "math/rand"
	"testing"
)

func TestVerif_C06(t *testing.T) {
	res := vNewResult()
	defer res.Write(t)
	var plan hsPlan
	vReadJSON(t, "c06_plan.json", &plan)
	combos := hsCombos()
	stats := map[string]hsCoverStats{}
	for _, file := range plan.Graphs {
		g := hsLoadGraph(t, file)
		hsParallel(combos, func(c *hsCombo) {
			matrix := hsMatrix(res, g, c)
			st := hsCover(t, res, g, c, "C06", plan.Limit, func(w *hsWorld, e hsEdge, o hsOut, dst *hsState) {
				if !o.Done {
					return
				}
				matrix(w, e, o, dst)
				n := w.judgePairs(res, "C06")
				if n > 0 {
					res.Hit("pair")
				}
				if n != len(dst.Obs.Pairs) {
					// the specification's notion of "same session" (equal transcripts) and the harness' (each consumed the
					// other's bytes) must coincide, otherwise the comparison above judged the wrong pairs
					res.Mismatch("pairing", fmt.Sprintf("%s: %d pairs completed the same session, specification %v", c.name, n, dst.Obs.Pairs),
						map[string]any{"behaviour": w.log, "vc": w.vc})
				}
			})
			res.mu.Lock()
			stats[file+"/"+c.name] = st
			res.mu.Unlock()
		})
	}
	res.Extra["cover"] = stats

	// V: index allocators at the boundaries, every version configuration
	idxs := [][2]uint32{{1, 1}, {1, 2}, {0xffffffff, 1}, {0x80000000, 0x7fffffff}, {0xffffffff, 0xffffffff}, {256, 65536}}
	hsParallel(combos, func(c *hsCombo) {
		rnd := mrand.New(mrand.NewSource(vSeed()*77 + int64(c.dh)))
		for vc := 1; vc <= 5; vc++ {
			w := hsNewWorld(c, vc, "M", rnd)
			n := 0
			for _, ix := range append(idxs, [2]uint32{1 + rnd.Uint32()>>1, 1 + rnd.Uint32()>>1}) {
				n++
				i, r := fmt.Sprintf("I%d", 10+n), fmt.Sprintf("R%d", 10+n)
				w.idx[w.modelIdx(i)], w.idx[w.modelIdx(r)] = ix[0], ix[1]
				w.log = append(w.log, fmt.Sprintf("session %s-%s indexes %d/%d", i, r, ix[0], ix[1]))
				w.initiate(i)
				or := w.process(r, w.slot(i).msg)
				oi := w.process(i, w.slot(r).msg)
				res.Hit("V:session")
				res.Case(fmt.Sprintf("V/%s/%d/%d", c.name, vc, n))
				if !or.Done || !oi.Done {
					res.Hit("V:incomplete") // not C06's subject (C06 speaks about handshakes that completed)
					continue
				}
				if oi.Lidx != ix[0] || or.Lidx != ix[1] {
					res.Mismatch("local-index-not-the-allocated-one", fmt.Sprintf("%s vc=%d: allocated %d/%d, results report %d/%d", c.name, vc, ix[0], ix[1], oi.Lidx, or.Lidx),
						map[string]any{"behaviour": w.log})
				}
			}
			if w.judgePairs(res, "C06") != n {
				res.Hit("V:unpaired")
			}
		}
	})
	hsParallel(combos, func(c *hsCombo) { hsRandom(t, res, c, "C06", plan.Random, plan.Length) })
	n := 0
	for _, st := range stats {
		n += st.Walks
	}
	res.Traces = n + plan.Random*len(combos) + 5*len(combos)
}
