package handshake

// C08 — binding of spec/PayloadWire.tla to MarshalPayload / UnmarshalPayload (vector mode + random driver).
//
// Every vector is a sequence of protobuf wire tokens named by the specification's alphabet (alphabet.ndjson gives
// name -> (level, field, wire type, value symbol, truncation)). A sequence is serialised with protowire under several
// concretisations (nested Details grouped / one per token / random split, minimal and padded varints) and decoded by
//   - the hand-written UnmarshalPayload (the code under test),
//   - google.golang.org/protobuf (dynamicpb) driven by the schema parsed out of handshake/handshake.proto,
//   - github.com/gogo/protobuf (the library older nebula versions link) driven by the struct tags of the generated
//     NebulaHandshake / NebulaHandshakeDetails of those versions.
// The specification says what UnmarshalPayload must return; for well-formed schema messages the schema decoders must
// return the same fields. Every payload of the lattice is encoded by MarshalPayload and by both schema encoders and
// cross-decoded by all three decoders.

import (
	"bytes"
	"encoding/json"
	"fmt"
	"hash/fnv"
	"math"
	"math/rand"
	"os"
	"regexp"
	"strconv"
	"strings"
	"testing"

	gogoproto "github.com/gogo/protobuf/proto"
	"google.golang.org/protobuf/encoding/protowire"
	"google.golang.org/protobuf/proto"
	"google.golang.org/protobuf/reflect/protodesc"
	"google.golang.org/protobuf/reflect/protoreflect"
	"google.golang.org/protobuf/types/descriptorpb"
	"google.golang.org/protobuf/types/dynamicpb"
)

// ---------------------------------------------------------------------------------------------------------------
// tokens

type c08Tok struct {
	ID  string `json:"id,omitempty"`
	Lvl string `json:"lvl"` // "o" envelope, "d" Details
	F   int    `json:"f"`
	Wt  string `json:"wt"` // varint bytes fixed32 fixed64 group
	V   string `json:"v"`  // value symbol
	Tr  string `json:"tr"` // "" | "tag" | "val"
	// concrete value (random driver: full width); filled from the symbol otherwise
	num uint64
	bs  []byte
}

var c08BytesB = func() []byte {
	b := make([]byte, 300) // two-byte length; content looks like tags and continuation bytes
	for i := range b {
		b[i] = []byte{0x0a, 0x80, 0x10, 0xff, 0x2b, 0x00}[i%6] + byte(i/64)
	}
	return b
}()

func c08Num(sym string) uint64 {
	switch sym {
	case "0":
		return 0
	case "1":
		return 1
	case "M32":
		return math.MaxUint32
	case "P32":
		return math.MaxUint32 + 1
	case "M64":
		return math.MaxUint64
	}
	panic("c08: unknown number symbol " + sym)
}

func c08Bytes(sym string) []byte {
	switch sym {
	case "empty":
		return []byte{}
	case "A":
		return []byte{0xde, 0xad, 0x01}
	case "B":
		return c08BytesB
	}
	panic("c08: unknown bytes symbol " + sym)
}

// fill sets the concrete value of a token that comes from the specification's alphabet.
func (k *c08Tok) fill() {
	switch k.Wt {
	case "varint":
		k.num = c08Num(k.V)
	case "bytes":
		k.bs = c08Bytes(k.V)
	}
}

func c08WireType(wt string) protowire.Type {
	switch wt {
	case "varint":
		return protowire.VarintType
	case "bytes":
		return protowire.BytesType
	case "fixed32":
		return protowire.Fixed32Type
	case "fixed64":
		return protowire.Fixed64Type
	case "group":
		return protowire.StartGroupType
	}
	panic("c08: unknown wire type " + wt)
}

// c08Varint appends v; padded = a legal non-minimal encoding (one extra 0x00 group) when there is room.
func c08Varint(b []byte, v uint64, padded bool) []byte {
	n := len(b)
	b = protowire.AppendVarint(b, v)
	if padded && len(b)-n < 10 {
		b[len(b)-1] |= 0x80
		b = append(b, 0x00)
	}
	return b
}

// c08AppendTok serialises one token. A truncated token is the end of its enclosing message.
func c08AppendTok(b []byte, k *c08Tok, padded bool) []byte {
	num := protowire.Number(k.F)
	tag := protowire.AppendTag(nil, num, c08WireType(k.Wt))
	if k.Tr == "tag" {
		return append(b, tag[0]|0x80) // continuation bit set, nothing follows
	}
	b = append(b, tag...)
	switch k.Wt {
	case "varint":
		if k.Tr == "val" {
			v := protowire.AppendVarint(nil, k.num)
			return append(b, v[0]|0x80)
		}
		b = c08Varint(b, k.num, padded)
	case "bytes":
		if k.Tr == "val" {
			b = protowire.AppendVarint(b, uint64(len(k.bs)+5)) // length beyond the end
			return append(b, k.bs...)
		}
		b = c08Varint(b, uint64(len(k.bs)), padded)
		b = append(b, k.bs...)
	case "fixed32":
		if k.Tr == "val" {
			return append(b, 0x11, 0x22)
		}
		b = protowire.AppendFixed32(b, 0x44332211)
	case "fixed64":
		if k.Tr == "val" {
			return append(b, 0x11, 0x22, 0x33)
		}
		b = protowire.AppendFixed64(b, 0x8877665544332211)
	case "group":
		// content: a field that carries a known number; it belongs to the group and must not be interpreted
		b = protowire.AppendTag(b, 2, protowire.VarintType)
		b = protowire.AppendVarint(b, 7)
		if k.Tr == "val" {
			return b // never closed
		}
		b = protowire.AppendTag(b, num, protowire.EndGroupType)
	}
	return b
}

// c08Serialise builds the message. grouping: "one" = maximal runs of Details tokens share one nested message,
// "each" = one nested message per Details token, "rand" = runs are split at random places.
func c08Serialise(toks []*c08Tok, grouping string, padded bool, rnd *rand.Rand) []byte {
	var out, det []byte
	open := false
	flush := func() {
		if open {
			out = protowire.AppendTag(out, 1, protowire.BytesType)
			out = c08Varint(out, uint64(len(det)), padded)
			out = append(out, det...)
			det, open = nil, false
		}
	}
	for _, k := range toks {
		if k.Lvl == "d" {
			if open && (grouping == "each" || (grouping == "rand" && rnd.Intn(2) == 0)) {
				flush()
			}
			open = true
			det = c08AppendTok(det, k, padded)
			if k.Tr != "" {
				flush() // the nested message ends inside this token
			}
			continue
		}
		flush()
		out = c08AppendTok(out, k, padded)
	}
	flush()
	return out
}

// ---------------------------------------------------------------------------------------------------------------
// the three decoders / encoders, projected on the five fields of the statement

type c08P struct {
	Cert []byte
	Init uint32
	Resp uint32
	Time uint64
	Ver  uint32
}

func (p c08P) String() string {
	c := fmt.Sprintf("%x", p.Cert)
	if len(c) > 24 {
		c = fmt.Sprintf("%s..(%d bytes)", c[:24], len(p.Cert))
	}
	return fmt.Sprintf("{Cert:%s Init:%d Resp:%d Time:%d Ver:%d}", c, p.Init, p.Resp, p.Time, p.Ver)
}

// c08Diff names the first field that differs ("" = equal). nil and empty certificates are the same value.
func c08Diff(a, b c08P) string {
	switch {
	case !bytes.Equal(a.Cert, b.Cert):
		return "Cert"
	case a.Init != b.Init:
		return "InitiatorIndex"
	case a.Resp != b.Resp:
		return "ResponderIndex"
	case a.Time != b.Time:
		return "Time"
	case a.Ver != b.Ver:
		return "CertVersion"
	}
	return ""
}

type c08Codec struct {
	name string
	dec  func(b []byte) (c08P, error)
	enc  func(p c08P) ([]byte, error)
}

func c08Guard(f func(b []byte) (c08P, error), b []byte) (p c08P, err error, panicked any) {
	defer func() {
		if r := recover(); r != nil {
			panicked = r
		}
	}()
	p, err = f(b)
	return
}

var c08Hand = c08Codec{
	name: "handwritten",
	dec: func(b []byte) (c08P, error) {
		in := make([]byte, len(b)) // exact capacity
		copy(in, b)
		p, err := UnmarshalPayload(in)
		return c08P{p.Cert, p.InitiatorIndex, p.ResponderIndex, p.Time, p.CertVersion}, err
	},
	enc: func(p c08P) ([]byte, error) {
		return MarshalPayload(nil, Payload{Cert: p.Cert, InitiatorIndex: p.Init, ResponderIndex: p.Resp, Time: p.Time, CertVersion: p.Ver}), nil
	},
}

// --- google.golang.org/protobuf, schema read from handshake.proto (the test runs in the package directory)

var c08ProtoMsg = regexp.MustCompile(`(?s)message\s+(\w+)\s*\{(.*?)\}`)
var c08ProtoField = regexp.MustCompile(`(?m)^\s*(\w+)\s+(\w+)\s*=\s*(\d+)\s*(\[[^\]]*\])?\s*;`)

func c08Schema(t *testing.T) c08Codec {
	src, err := os.ReadFile("handshake.proto")
	if err != nil {
		t.Fatalf("c08: the schema file of the handshake package is gone: %v", err)
	}
	text := regexp.MustCompile(`//[^\n]*`).ReplaceAllString(string(src), "")
	pkg := "nebula.handshake"
	if m := regexp.MustCompile(`(?m)^\s*package\s+([\w.]+)\s*;`).FindStringSubmatch(text); m != nil {
		pkg = m[1]
	}
	fdp := &descriptorpb.FileDescriptorProto{Name: proto.String("handshake.proto"), Package: proto.String(pkg), Syntax: proto.String("proto3")}
	for _, m := range c08ProtoMsg.FindAllStringSubmatch(text, -1) {
		md := &descriptorpb.DescriptorProto{Name: proto.String(m[1])}
		for _, f := range c08ProtoField.FindAllStringSubmatch(m[2], -1) {
			if f[1] == "reserved" || f[1] == "option" {
				continue
			}
			n, _ := strconv.Atoi(f[3])
			fd := &descriptorpb.FieldDescriptorProto{Name: proto.String(f[2]), Number: proto.Int32(int32(n)),
				Label: descriptorpb.FieldDescriptorProto_LABEL_OPTIONAL.Enum()}
			switch f[1] {
			case "bytes":
				fd.Type = descriptorpb.FieldDescriptorProto_TYPE_BYTES.Enum()
			case "uint32":
				fd.Type = descriptorpb.FieldDescriptorProto_TYPE_UINT32.Enum()
			case "uint64":
				fd.Type = descriptorpb.FieldDescriptorProto_TYPE_UINT64.Enum()
			case "string":
				fd.Type = descriptorpb.FieldDescriptorProto_TYPE_STRING.Enum()
			case "bool":
				fd.Type = descriptorpb.FieldDescriptorProto_TYPE_BOOL.Enum()
			case "int32":
				fd.Type = descriptorpb.FieldDescriptorProto_TYPE_INT32.Enum()
			case "int64":
				fd.Type = descriptorpb.FieldDescriptorProto_TYPE_INT64.Enum()
			case "fixed32":
				fd.Type = descriptorpb.FieldDescriptorProto_TYPE_FIXED32.Enum()
			case "fixed64":
				fd.Type = descriptorpb.FieldDescriptorProto_TYPE_FIXED64.Enum()
			default:
				fd.Type = descriptorpb.FieldDescriptorProto_TYPE_MESSAGE.Enum()
				fd.TypeName = proto.String("." + pkg + "." + f[1])
			}
			md.Field = append(md.Field, fd)
		}
		fdp.MessageType = append(fdp.MessageType, md)
	}
	file, err := protodesc.NewFile(fdp, nil)
	if err != nil {
		t.Fatalf("c08: handshake.proto does not yield a descriptor: %v", err)
	}
	outer := file.Messages().ByName("NebulaHandshake")
	if outer == nil || outer.Fields().ByName("Details") == nil || outer.Fields().ByName("Details").Message() == nil {
		t.Fatalf("c08: handshake.proto has no NebulaHandshake.Details message field")
	}
	fDet := outer.Fields().ByName("Details")
	det := fDet.Message()
	fld := map[string]protoreflect.FieldDescriptor{}
	for name, kind := range map[string]protoreflect.Kind{"Cert": protoreflect.BytesKind, "InitiatorIndex": protoreflect.Uint32Kind,
		"ResponderIndex": protoreflect.Uint32Kind, "Time": protoreflect.Uint64Kind, "CertVersion": protoreflect.Uint32Kind} {
		f := det.Fields().ByName(protoreflect.Name(name))
		if f == nil || f.Kind() != kind {
			t.Fatalf("c08: handshake.proto: NebulaHandshakeDetails.%s missing or not %v", name, kind)
		}
		fld[name] = f
	}
	return c08Codec{
		name: "schema(google.golang.org/protobuf)",
		dec: func(b []byte) (c08P, error) {
			m := dynamicpb.NewMessage(outer)
			if err := proto.Unmarshal(b, m); err != nil {
				return c08P{}, err
			}
			d := m.Get(fDet).Message()
			return c08P{d.Get(fld["Cert"]).Bytes(), uint32(d.Get(fld["InitiatorIndex"]).Uint()), uint32(d.Get(fld["ResponderIndex"]).Uint()),
				d.Get(fld["Time"]).Uint(), uint32(d.Get(fld["CertVersion"]).Uint())}, nil
		},
		enc: func(p c08P) ([]byte, error) {
			m := dynamicpb.NewMessage(outer)
			d := m.Mutable(fDet).Message()
			if len(p.Cert) > 0 {
				d.Set(fld["Cert"], protoreflect.ValueOfBytes(p.Cert))
			}
			if p.Init != 0 {
				d.Set(fld["InitiatorIndex"], protoreflect.ValueOfUint32(p.Init))
			}
			if p.Resp != 0 {
				d.Set(fld["ResponderIndex"], protoreflect.ValueOfUint32(p.Resp))
			}
			if p.Time != 0 {
				d.Set(fld["Time"], protoreflect.ValueOfUint64(p.Time))
			}
			if p.Ver != 0 {
				d.Set(fld["CertVersion"], protoreflect.ValueOfUint32(p.Ver))
			}
			return proto.MarshalOptions{Deterministic: true}.Marshal(m)
		},
	}
}

// --- github.com/gogo/protobuf with the message structs as protoc-gen-gogo generated them for the nebula versions that
// carried NebulaHandshake in nebula.proto (struct tags = the schema; the library's table-driven codec does the rest)

type c08GogoHandshake struct {
	Details *c08GogoDetails `protobuf:"bytes,1,opt,name=Details,proto3" json:"Details,omitempty"`
	Hmac    []byte          `protobuf:"bytes,2,opt,name=Hmac,proto3" json:"Hmac,omitempty"`
}

func (m *c08GogoHandshake) Reset()         { *m = c08GogoHandshake{} }
func (m *c08GogoHandshake) String() string { return gogoproto.CompactTextString(m) }
func (*c08GogoHandshake) ProtoMessage()    {}

type c08GogoDetails struct {
	Cert           []byte `protobuf:"bytes,1,opt,name=Cert,proto3" json:"Cert,omitempty"`
	InitiatorIndex uint32 `protobuf:"varint,2,opt,name=InitiatorIndex,proto3" json:"InitiatorIndex,omitempty"`
	ResponderIndex uint32 `protobuf:"varint,3,opt,name=ResponderIndex,proto3" json:"ResponderIndex,omitempty"`
	Cookie         uint64 `protobuf:"varint,4,opt,name=Cookie,proto3" json:"Cookie,omitempty"`
	Time           uint64 `protobuf:"varint,5,opt,name=Time,proto3" json:"Time,omitempty"`
	CertVersion    uint32 `protobuf:"varint,8,opt,name=CertVersion,proto3" json:"CertVersion,omitempty"`
}

func (m *c08GogoDetails) Reset()         { *m = c08GogoDetails{} }
func (m *c08GogoDetails) String() string { return gogoproto.CompactTextString(m) }
func (*c08GogoDetails) ProtoMessage()    {}

var c08Gogo = c08Codec{
	name: "schema(gogo/protobuf)",
	dec: func(b []byte) (c08P, error) {
		var m c08GogoHandshake
		if err := gogoproto.Unmarshal(b, &m); err != nil {
			return c08P{}, err
		}
		d := m.Details
		if d == nil {
			d = &c08GogoDetails{}
		}
		return c08P{d.Cert, d.InitiatorIndex, d.ResponderIndex, d.Time, d.CertVersion}, nil
	},
	enc: func(p c08P) ([]byte, error) {
		return gogoproto.Marshal(&c08GogoHandshake{Details: &c08GogoDetails{Cert: p.Cert, InitiatorIndex: p.Init,
			ResponderIndex: p.Resp, Time: p.Time, CertVersion: p.Ver}})
	},
}

// ---------------------------------------------------------------------------------------------------------------

type c08Vec struct {
	In struct {
		Kind string   `json:"kind"`
		Ids  []string `json:"ids"`
	} `json:"in"`
	Exp struct {
		R struct {
			Ok bool     `json:"ok"`
			V  []string `json:"v"`
		} `json:"r"`
		Wf  bool   `json:"wf"`
		Why string `json:"why"`
	} `json:"exp"`
}

func c08Payload(sym []string) c08P {
	return c08P{c08Bytes(sym[0]), uint32(c08Num(sym[1])), uint32(c08Num(sym[2])), c08Num(sym[3]), uint32(c08Num(sym[4]))}
}

type c08Run struct {
	t      *testing.T
	res    *vResult
	schema []c08Codec // the schema-driven codecs
	// disagreement between the specification and the protobuf libraries on a well-formed message: not a verdict
	// about nebula, reported as machinery trouble by C08.py
	specVsLib []string
}

func (r *c08Run) libTrouble(format string, a ...any) {
	if len(r.specVsLib) < 5 {
		r.specVsLib = append(r.specVsLib, fmt.Sprintf(format, a...))
	}
}

// checkDecode runs the three decoders on one concrete message and compares with the specification's verdict.
// Returns what the hand-written decoder said.
func (r *c08Run) checkDecode(label string, msg []byte, expOk bool, exp c08P, wf bool, why string, detail any) (c08P, bool) {
	got, err, pan := c08Guard(c08Hand.dec, msg)
	if pan != nil {
		r.res.Mismatch("panic", fmt.Sprintf("UnmarshalPayload(%x) panicked: %v [%s]", msg, pan, label), detail)
		return got, false
	}
	ok := err == nil
	switch {
	case expOk && !ok:
		cls := "valid"
		if wf {
			cls = "well-formed-schema-message"
		}
		r.res.Mismatch("decode:refused:"+cls, fmt.Sprintf("UnmarshalPayload(%x) = %v; the specification accepts it as %v [%s]", msg, err, exp, label), detail)
	case !expOk && ok:
		r.res.Mismatch("decode:accepted:"+why, fmt.Sprintf("UnmarshalPayload(%x) = %v without error; the specification refuses it (%s) [%s]", msg, got, why, label), detail)
	case expOk:
		if f := c08Diff(got, exp); f != "" {
			r.res.Mismatch("decode:field:"+f, fmt.Sprintf("UnmarshalPayload(%x) = %v, specification %v [%s]", msg, got, exp, label), detail)
		}
	}
	if wf {
		for _, c := range r.schema {
			sg, serr, span := c08Guard(c.dec, msg)
			if span != nil || serr != nil {
				r.libTrouble("%s refuses the well-formed message %x: %v %v [%s]", c.name, msg, serr, span, label)
				continue
			}
			if f := c08Diff(sg, exp); f != "" {
				r.libTrouble("%s reads %x as %v, specification %v [%s]", c.name, msg, sg, exp, label)
				continue
			}
			if ok {
				if f := c08Diff(got, sg); f != "" {
					r.res.Mismatch("differential:"+f, fmt.Sprintf("%x: UnmarshalPayload = %v, %s = %v [%s]", msg, got, c.name, sg, label), detail)
				}
			}
		}
		r.res.Hit("differential")
	}
	return got, ok
}

// checkEncode: p encoded by every encoder, each encoding decoded by every decoder, must give p back.
func (r *c08Run) checkEncode(label string, p c08P, detail any) {
	all := append([]c08Codec{c08Hand}, r.schema...)
	for _, e := range all {
		var msg []byte
		var err error
		func() {
			defer func() {
				if x := recover(); x != nil {
					err = fmt.Errorf("panic: %v", x)
				}
			}()
			msg, err = e.enc(p)
		}()
		if err != nil {
			if e.name == c08Hand.name {
				r.res.Mismatch("encode:panic", fmt.Sprintf("MarshalPayload(%v): %v [%s]", p, err, label), detail)
			} else {
				r.libTrouble("%s cannot encode %v: %v", e.name, p, err)
			}
			continue
		}
		for _, d := range all {
			if e.name != c08Hand.name && d.name != c08Hand.name {
				if got, err, pan := c08Guard(d.dec, msg); err != nil || pan != nil || c08Diff(got, p) != "" {
					r.libTrouble("%s does not read %s's encoding of %v: %v %v %v", d.name, e.name, p, got, err, pan)
				}
				continue
			}
			got, err, pan := c08Guard(d.dec, msg)
			var key string
			switch {
			case e.name == c08Hand.name && d.name == c08Hand.name:
				key = "roundtrip"
			case e.name == c08Hand.name:
				key = "encode:read-by-schema"
			default:
				key = "decode:schema-encoded"
			}
			switch {
			case pan != nil:
				r.res.Mismatch(key+":panic", fmt.Sprintf("%s of %s(%v) = %x panicked: %v [%s]", d.name, e.name, p, msg, pan, label), detail)
			case err != nil:
				r.res.Mismatch(key+":refused", fmt.Sprintf("%s refuses %s(%v) = %x: %v [%s]", d.name, e.name, p, msg, err, label), detail)
			default:
				if f := c08Diff(got, p); f != "" {
					r.res.Mismatch(key+":"+f, fmt.Sprintf("%s reads %s(%v) = %x as %v [%s]", d.name, e.name, p, msg, got, label), detail)
				}
			}
		}
	}
}

func TestVerif_C08(t *testing.T) {
	res := vNewResult()
	defer res.Write(t)
	run := &c08Run{t: t, res: res, schema: []c08Codec{c08Schema(t), c08Gogo}}
	defer func() { res.Extra["spec_vs_protobuf_libraries"] = run.specVsLib }()

	alphabet := map[string]*c08Tok{}
	vReadNDJSON(t, "alphabet.ndjson", func(line []byte) {
		var a struct {
			Exp c08Tok `json:"exp"`
		}
		if err := json.Unmarshal(line, &a); err != nil || a.Exp.ID == "" {
			t.Fatalf("alphabet: %v: %s", err, line)
		}
		k := a.Exp
		k.fill()
		alphabet[k.ID] = &k
	})
	if len(alphabet) < 20 {
		t.Fatalf("alphabet has only %d token kinds", len(alphabet))
	}

	n := 0
	files := []string{"vectors.ndjson"}
	for k := 2; ; k++ {
		name := fmt.Sprintf("vectors_%d.ndjson", k)
		if _, err := os.Stat(vIn(name)); err != nil {
			break
		}
		files = append(files, name)
	}
	one := func(line []byte) {
		var v c08Vec
		if err := json.Unmarshal(line, &v); err != nil {
			t.Fatalf("vector: %v: %s", err, line)
		}
		n++
		res.Case(string(line))
		if n%7001 == 1 {
			res.Sample(json.RawMessage(append([]byte(nil), line...)))
		}
		switch v.In.Kind {
		case "enc":
			res.Hit("enc")
			run.checkEncode("lattice", c08Payload(v.In.Ids), v.In)
		case "dec":
			toks := make([]*c08Tok, len(v.In.Ids))
			for i, id := range v.In.Ids {
				if toks[i] = alphabet[id]; toks[i] == nil {
					t.Fatalf("vector names unknown token kind %q", id)
				}
			}
			var exp c08P
			if v.Exp.R.Ok {
				exp = c08Payload(v.Exp.R.V)
				res.Hit("dec:accept")
			} else {
				res.Hit("dec:refuse:" + strings.SplitN(v.Exp.Why, ":", 2)[0])
			}
			h := fnv.New64a()
			h.Write(line)
			rnd := rand.New(rand.NewSource(int64(h.Sum64()) ^ vSeed()))
			seen := map[string]bool{}
			for _, c := range []struct {
				grouping string
				padded   bool
			}{{"one", false}, {"each", false}, {"rand", true}, {"one", true}} {
				msg := c08Serialise(toks, c.grouping, c.padded, rnd)
				if seen[string(msg)] {
					continue
				}
				seen[string(msg)] = true
				run.checkDecode(fmt.Sprintf("%s/padded=%v", c.grouping, c.padded), msg, v.Exp.R.Ok, exp, v.Exp.Wf, v.Exp.Why, v.In)
				res.Hit("concretisation")
			}
		default:
			t.Fatalf("unknown vector kind %q", v.In.Kind)
		}
	}
	for _, name := range files {
		vReadNDJSON(t, name, one)
	}

	c08Random(t, run)
}

// ---------------------------------------------------------------------------------------------------------------
// T direction: seeded random payloads and token sequences at full field width. Payloads are judged by identity;
// token sequences are written to obs.ndjson with their values abstracted to the specification's symbols and judged by
// TLC (Trace_PayloadWire.tla).

func c08RandNum(rnd *rand.Rand) (uint64, string) {
	switch rnd.Intn(9) {
	case 0:
		return 0, "0"
	case 1:
		return 1, "1"
	case 2:
		return math.MaxUint32, "M32"
	case 3:
		return math.MaxUint32 + 1, "P32"
	case 4:
		return math.MaxUint64, "M64"
	case 5, 6:
		// 2 .. 2^32-2, all varint lengths
		return 2 + rnd.Uint64()>>(32+uint(rnd.Intn(31)))%(math.MaxUint32-3), "R32"
	default:
		// 2^32+1 .. 2^64-2
		v := rnd.Uint64() >> uint(rnd.Intn(31))
		if v <= math.MaxUint32+1 {
			v += math.MaxUint32 + 2
		}
		if v == math.MaxUint64 {
			v--
		}
		return v, "R64"
	}
}

func c08RandBytes(rnd *rand.Rand) ([]byte, string) {
	var n int
	switch rnd.Intn(8) {
	case 0:
		return []byte{}, "empty"
	case 1:
		n = 1
	case 2:
		n = 127 + rnd.Intn(3) // around the one/two byte length boundary
	case 3:
		n = 16383 + rnd.Intn(3)
	default:
		n = 1 + rnd.Intn(1500)
	}
	b := make([]byte, n)
	rnd.Read(b)
	return b, "R"
}

func c08RandPayload(rnd *rand.Rand) c08P {
	var p c08P
	p.Cert, _ = c08RandBytes(rnd)
	pick32 := func() uint32 {
		for {
			v, cls := c08RandNum(rnd)
			if cls == "R64" || cls == "P32" || cls == "M64" {
				continue
			}
			return uint32(v)
		}
	}
	p.Init, p.Resp, p.Ver = pick32(), pick32(), pick32()
	p.Time, _ = c08RandNum(rnd)
	return p
}

func c08RandTok(rnd *rand.Rand) *c08Tok {
	k := &c08Tok{Lvl: "d"}
	if rnd.Intn(4) == 0 {
		k.Lvl = "o"
	}
	// field number: mostly the schema's, else anything up to 2^29-1
	if k.Lvl == "d" {
		k.F = []int{1, 2, 3, 5, 8, 1, 2, 3, 5, 8, 4, 6, 7, 9}[rnd.Intn(14)]
	} else {
		k.F = []int{1, 1, 2, 3}[rnd.Intn(4)]
	}
	if rnd.Intn(8) == 0 {
		k.F = 1 + rnd.Intn(1<<uint(1+rnd.Intn(29))-1)
	}
	schemaType := "varint"
	if k.Lvl == "o" || k.F == 1 {
		schemaType = "bytes"
	}
	k.Wt = schemaType
	if rnd.Intn(10) == 0 {
		k.Wt = []string{"varint", "bytes", "fixed32", "fixed64", "group"}[rnd.Intn(5)]
	}
	switch k.Wt {
	case "varint":
		k.num, k.V = c08RandNum(rnd)
	case "bytes":
		k.bs, k.V = c08RandBytes(rnd)
		if k.Lvl == "o" && k.F == 1 {
			k.bs, k.V = []byte{}, "empty" // a Details occurrence without content (content = the "d" tokens)
		}
	case "group":
		k.V = "G"
	default:
		k.V = "X"
	}
	if rnd.Intn(40) == 0 {
		k.Tr = []string{"tag", "val"}[rnd.Intn(2)]
	}
	return k
}

func c08Random(t *testing.T, run *c08Run) {
	rnd := vRand()
	res := run.res
	nPay, nSeq := 4000, 3000
	if !vQuick() {
		nPay, nSeq = 40000, 20000
	}
	for i := 0; i < nPay; i++ {
		p := c08RandPayload(rnd)
		run.checkEncode("random", p, nil)
		res.Hit("T:payload")
		res.Case("")
	}

	tr := vNewTracer(t, "obs.ndjson")
	defer tr.Close()
	for i := 1; i <= nSeq; i++ {
		var toks []*c08Tok
		for n := 1 + rnd.Intn(12); len(toks) < n; {
			k := c08RandTok(rnd)
			toks = append(toks, k)
			if k.Lvl == "o" && k.Tr != "" {
				break // a truncated envelope token is the end of the message
			}
		}
		msg := c08Serialise(toks, "rand", rnd.Intn(2) == 0, rnd)
		got, err, pan := c08Guard(c08Hand.dec, msg)
		if pan != nil {
			res.Mismatch("panic", fmt.Sprintf("UnmarshalPayload(%x) panicked: %v [random]", msg, pan), nil)
			continue
		}
		// which token does each reported value come from (searching from the end)? 0 = none and default, -1 = none
		idx := func(f int, isDefault bool, eq func(k *c08Tok) bool) int {
			for j := len(toks) - 1; j >= 0; j-- {
				if k := toks[j]; k.Lvl == "d" && k.F == f && k.Tr == "" && eq(k) {
					return j + 1
				}
			}
			if isDefault {
				return 0
			}
			return -1
		}
		num := func(f int, v uint64) int {
			return idx(f, v == 0, func(k *c08Tok) bool { return k.Wt == "varint" && k.num == v })
		}
		ev := map[string]any{"k": i, "toks": toks, "ok": err == nil, "idx": []int{0, 0, 0, 0, 0}, "sok": true, "sagree": true}
		if err == nil {
			ev["idx"] = []int{
				idx(1, len(got.Cert) == 0, func(k *c08Tok) bool { return k.Wt == "bytes" && bytes.Equal(k.bs, got.Cert) }),
				num(2, uint64(got.Init)), num(3, uint64(got.Resp)), num(5, got.Time), num(8, uint64(got.Ver))}
		}
		// the schema decoders (compared by TLC only where the message is a well-formed schema message)
		var sdetail []string
		for _, c := range run.schema {
			sg, serr, span := c08Guard(c.dec, msg)
			if serr != nil || span != nil {
				ev["sok"] = false
				sdetail = append(sdetail, fmt.Sprintf("%s: %v %v", c.name, serr, span))
			} else if f := c08Diff(sg, got); f != "" && err == nil {
				ev["sagree"] = false
				sdetail = append(sdetail, fmt.Sprintf("%s reads %s = %v", c.name, f, sg))
			}
		}
		// (for the report: the message, capped, and the concrete values behind the symbols)
		if len(msg) <= 300 {
			ev["msg"] = fmt.Sprintf("%x", msg)
		} else {
			ev["msg"] = fmt.Sprintf("%x...(%d bytes)", msg[:300], len(msg))
		}
		vals := make([]string, len(toks))
		for j, k := range toks {
			switch {
			case k.Wt == "varint":
				vals[j] = strconv.FormatUint(k.num, 10)
			case k.Wt == "bytes" && len(k.bs) > 8:
				vals[j] = fmt.Sprintf("%x..(%d bytes)", k.bs[:8], len(k.bs))
			case k.Wt == "bytes":
				vals[j] = fmt.Sprintf("%x", k.bs)
			}
		}
		ev["vals"] = vals
		ev["got"] = got.String()
		ev["schema"] = sdetail
		tr.Event(ev)
		res.Hit("T:sequence")
		res.Case("")
	}
}
