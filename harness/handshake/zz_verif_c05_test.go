package handshake

// C05 — a handshake completes only with an authenticated peer.
//
//  R: TLC's state graph of spec/Handshake.tla (honest initiator and responder, the adversary's own initiator and
//     responder under every identity class, replay/reorder/duplicate/truncate/flip/splice deliveries) walked on real
//     Machines for both curves and both ciphers; every completion the real code makes must be one the specification
//     allows (accepted certificate, whose key is the Noise static, of the message that completed it; indexes), and the
//     cross-decrypt matrix must be the specification's (the adversary's derived keys open nothing of a session whose
//     reported certificate it does not hold the key of).
//  T: seeded adversarial schedules (hsRandom) judged by the reference predicates.

import "testing"

func TestVerif_C05(t *testing.T) {
	res := vNewResult()
	defer res.Write(t)
	var plan hsPlan
	vReadJSON(t, "c05_plan.json", &plan)
	combos := hsCombos()
	var stats = map[string]hsCoverStats{}
	for _, file := range plan.Graphs {
		g := hsLoadGraph(t, file)
		hsParallel(combos, func(c *hsCombo) {
			st := hsCover(t, res, g, c, "C05", plan.Limit, hsMatrix(res, g, c))
			res.mu.Lock()
			stats[file+"/"+c.name] = st
			res.mu.Unlock()
		})
	}
	res.Extra["cover"] = stats
	hsParallel(combos, func(c *hsCombo) { hsRandom(t, res, c, "C05", plan.Random, plan.Length) })
	n := 0
	for _, st := range stats {
		n += st.Walks
	}
	res.Traces = n + plan.Random*len(combos)
}
