package handshake

// C05 — a handshake completes only with an authenticated peer.
//
//  R: TLC's state graph of spec/Handshake.tla (honest initiator and responder, the adversary's own initiator and
//     responder under every identity class, replay/reorder/duplicate/truncate/flip/splice deliveries) walked on real
//     Machines for both curves and both ciphers; every completion the real code makes must be one the specification
//     allows (accepted certificate, whose key is the Noise static, of the message that completed it; indexes), and the
//     cross-decrypt matrix must be the specification's (the adversary's derived keys open nothing of a session whose
//     reported certificate it does not hold the key of).
//  T: seeded adversarial schedules (hsRandom) judged by the reference predicates.

import (
	"fmt"
	"testing"

	"github.com/flynn/noise"
	"github.com/slackhq/nebula/header"
)

// c05PatternTable: the completion guard must not depend on the per-subtype content table. A (hypothetical) table entry
// whose messages carry no certificate, or nothing at all, must not let a handshake complete: requireComplete is the
// mechanism the property names. The entries are registered for the duration of this function only.
func c05PatternTable(res *vResult, combos []*hsCombo) {
	tables := map[string][]msgFlags{
		"nothing":      {{}, {}},
		"payload-only": {{expectsPayload: true}, {expectsPayload: true}},
		"cert-first":   {{expectsPayload: true, expectsCert: true}, {expectsPayload: true}},
	}
	sub := header.MessageSubType(0xF5)
	defer delete(subtypeInfos, sub)
	for name, flags := range tables {
		subtypeInfos[sub] = subtypeInfo{pattern: noise.HandshakeIX, msgs: flags}
		for _, c := range combos {
			mk := func(id string, initiator bool, idx uint32) *Machine {
				m, err := NewMachine(hsVDef(1, id), c.getCred(1, id), c.verifier(), func() (uint32, error) { return idx, nil }, initiator, sub)
				if err != nil {
					panic(err)
				}
				return m
			}
			i, r := mk("A", true, 7), mk("B", false, 9)
			res.Hit("table:" + name)
			res.Case("table/" + name + "/" + c.name)
			msg1, err := i.Initiate(nil)
			if err != nil {
				continue
			}
			msg2, rr, _ := r.ProcessPacket(nil, msg1)
			var ri *Result
			if msg2 != nil {
				_, ri, _ = i.ProcessPacket(nil, msg2)
			}
			for side, x := range map[string]*Result{"responder": rr, "initiator": ri} {
				if x != nil && (x.RemoteCert == nil || x.RemoteCert.Certificate == nil) {
					res.Mismatch("completion-without-RemoteCert:content-table-"+name,
						fmt.Sprintf("%s: with a content table whose messages carry %s the %s completed without any peer certificate", c.name, name, side),
						map[string]any{"combo": c.name, "table": name, "side": side})
				}
			}
		}
	}
}

func TestVerif_C05(t *testing.T) {
	res := vNewResult()
	defer res.Write(t)
	var plan hsPlan
	vReadJSON(t, "c05_plan.json", &plan)
	combos := hsCombos()
	c05PatternTable(res, combos)
	var stats = map[string]hsCoverStats{}
	for _, file := range plan.Graphs {
		g := hsLoadGraph(t, file)
		hsParallel(combos, func(c *hsCombo) {
			st := hsCover(t, res, g, c, "C05", plan.Limit, hsMatrix(res, g, c))
			res.mu.Lock()
			stats[file+"/"+c.name] = st
			res.mu.Unlock()
		})
	}
	res.Extra["cover"] = stats
	hsParallel(combos, func(c *hsCombo) { hsRandom(t, res, c, "C05", plan.Random, plan.Length) })
	n := 0
	for _, st := range stats {
		n += st.Walks
	}
	res.Traces = n + plan.Random*len(combos)
}
