package handshake

// C07 — a rejected handshake message never wedges the handshake.
//
//  R: for the states of TLC's graph of spec/Handshake.tla, every junk delivery J the specification rejects at that state
//     (every truncation point at and inside the token boundaries, token flips and substitutions, all-zero / low-order /
//     off-curve ephemerals, an invalid static sent by the adversary's responder, cross-stage and cross-session replays)
//     and every genuine message g that completes from there:  path, g  (undisturbed)  against  path, J, g:
//       J rejected with Failed()==false  =>  g yields the undisturbed result (completion, peer, indexes, and for a
//                                            responder: the initiator completes with its answer);
//       Failed()==true                   =>  every later input (all stored messages, Initiate) is refused.
//  T: seeded random schedules with byte-level random junk; afterwards every still-usable machine must complete with a
//     fresh honest peer and every failed machine must refuse everything.

import "testing"

func TestVerif_C07(t *testing.T) {
	res := vNewResult()
	defer res.Write(t)
	var plan hsPlan
	vReadJSON(t, "c07_plan.json", &plan)
	combos := hsCombos()
	stats := map[string]hsScenarioStats{}
	for _, file := range plan.Graphs {
		g := hsLoadGraph(t, file)
		hsParallel(combos, func(c *hsCombo) {
			st := hsScenarios(t, res, g, c, plan.Limit)
			res.mu.Lock()
			stats[file+"/"+c.name] = st
			res.mu.Unlock()
		})
	}
	res.Extra["scenarios"] = stats
	hsParallel(combos, func(c *hsCombo) { hsRandom(t, res, c, "C07", plan.Random, plan.Length) })
	n := 0
	for _, st := range stats {
		n += st.Scenarios
	}
	res.Traces = n + plan.Random*len(combos)
}
