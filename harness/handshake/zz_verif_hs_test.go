package handshake

// Shared binding of spec/Handshake.tla to handshake.Machine (properties C05, C06, C07).
//
//   hsCombo   real credentials for one curve x cipher: honest identities A and B (v1 and v2 certificates over the same
//             key), the adversary's identities M (insider under the trusted CAs), U (untrusted CA), X (expired),
//             L (blocklisted), K (the honest peer's certificate bytes under its own static key), the CA pool and the verifier.
//   hsWorld   one behaviour: the specification's machine slots as real objects (honest slots = handshake.Machine,
//             adversary slots = raw flynn/noise states that may send any payload / any static key), the stored
//             datagrams, and the adversary's delivery operations implemented on the real bytes at the token offsets.
//   hsGraph   TLC's state graph (states projected on the variable obs), walked by hsCover / hsScenarios.
//   hsRandom  seeded adversarial schedules beyond the model-checking bounds, judged by the reference predicates.

import (
	"bytes"
	"crypto/rand"
	"encoding/json"
	"fmt"
	mrand "math/rand"
	"net/netip"
	"sort"
	"strings"
	"sync"
	"testing"
	"time"

	"github.com/flynn/noise"
	"github.com/slackhq/nebula/cert"
	ct "github.com/slackhq/nebula/cert_test"
	"github.com/slackhq/nebula/header"
	"github.com/slackhq/nebula/noiseutil"
)

// ------------------------------------------------------------------------------------------------ credentials

type hsIdent struct {
	name      string
	pub, priv []byte
	cert      map[cert.Version]cert.Certificate
	raw       map[cert.Version][]byte // MarshalForHandshakes
}

type hsCombo struct {
	name   string
	curve  cert.Curve
	cipher noise.CipherFunc
	suite  noise.CipherSuite
	dh     int
	ids    map[string]*hsIdent
	pool   *cert.CAPool
	now    time.Time
}

func hsCombos() []*hsCombo {
	return []*hsCombo{
		hsNewCombo("x25519-chacha", cert.Curve_CURVE25519, noise.CipherChaChaPoly),
		hsNewCombo("x25519-aes", cert.Curve_CURVE25519, noiseutil.CipherAESGCM),
		hsNewCombo("p256-aes", cert.Curve_P256, noiseutil.CipherAESGCM),
		hsNewCombo("p256-chacha", cert.Curve_P256, noise.CipherChaChaPoly),
	}
}

func hsNewCombo(name string, curve cert.Curve, cipher noise.CipherFunc) *hsCombo {
	c := &hsCombo{name: name, curve: curve, cipher: cipher, ids: map[string]*hsIdent{}}
	var dhf noise.DHFunc = noise.DH25519
	if curve == cert.Curve_P256 {
		dhf = noiseutil.DHP256
	}
	c.suite = noise.NewCipherSuite(dhf, cipher, noise.HashSHA256)
	c.dh = c.suite.DHLen()
	c.now = time.Now().Round(time.Second)
	caB, caA := c.now.Add(-3*time.Hour), c.now.Add(3*time.Hour)
	ca1, _, k1, _ := ct.NewTestCaCert(cert.Version1, curve, caB, caA, nil, nil, nil)
	ca2, _, k2, _ := ct.NewTestCaCert(cert.Version2, curve, caB, caA, nil, nil, nil)
	cu1, _, ku1, _ := ct.NewTestCaCert(cert.Version1, curve, caB, caA, nil, nil, nil)
	cu2, _, ku2, _ := ct.NewTestCaCert(cert.Version2, curve, caB, caA, nil, nil, nil)
	c.pool = ct.NewTestCAPool(ca1, ca2)
	mk := func(name, ip string, trusted bool, nb, na time.Time) *hsIdent {
		s1, sk1, s2, sk2 := ca1, k1, ca2, k2
		if !trusted {
			s1, sk1, s2, sk2 = cu1, ku1, cu2, ku2
		}
		c1, pub, privPEM, _ := ct.NewTestCert(cert.Version1, curve, s1, sk1, name, nb, na,
			[]netip.Prefix{netip.MustParsePrefix(ip)}, nil, nil)
		priv, _, _, err := cert.UnmarshalPrivateKeyFromPEM(privPEM)
		if err != nil {
			panic(err)
		}
		c2, _ := ct.NewTestCertDifferentVersion(c1, cert.Version2, s2, sk2)
		id := &hsIdent{name: name, pub: pub, priv: priv, cert: map[cert.Version]cert.Certificate{1: c1, 2: c2},
			raw: map[cert.Version][]byte{}}
		for v, cc := range id.cert {
			b, err := cc.MarshalForHandshakes()
			if err != nil {
				panic(err)
			}
			id.raw[v] = b
		}
		c.ids[name] = id
		return id
	}
	okB, okA := c.now.Add(-time.Hour), c.now.Add(time.Hour)
	mk("A", "10.9.0.1/24", true, okB, okA)
	b := mk("B", "10.9.0.2/24", true, okB, okA)
	mk("M", "10.9.0.3/24", true, okB, okA)
	mk("U", "10.9.0.4/24", false, okB, okA)
	mk("X", "10.9.0.5/24", true, c.now.Add(-2*time.Hour), c.now.Add(-time.Hour))
	l := mk("L", "10.9.0.6/24", true, okB, okA)
	for _, cc := range l.cert {
		fp, err := cc.Fingerprint()
		if err != nil {
			panic(err)
		}
		c.pool.BlocklistFingerprint(fp)
	}
	// K: a static key pair of its own; it presents A's or B's certificate bytes (hsWorld.advPayload)
	k := &hsIdent{name: "K", cert: b.cert, raw: b.raw}
	k.pub, k.priv = c.keypair()
	c.ids["K"] = k
	return c
}

func (c *hsCombo) keypair() (pub, priv []byte) {
	if c.curve == cert.Curve_P256 {
		return ct.P256Keypair()
	}
	return ct.X25519Keypair()
}

func (c *hsCombo) verifier() CertVerifier {
	return func(cc cert.Certificate) (*cert.CachedCertificate, error) { return c.pool.VerifyCertificate(c.now, cc) }
}

// hsAccepts mirrors Accept of the specification: the identities the verifier accepts.
func hsAccepts(name string) bool { return name == "A" || name == "B" || name == "M" }

// version configurations (VSet/VDef of the specification)
func hsVSet(vc int, id string) []cert.Version {
	switch vc {
	case 1:
		return []cert.Version{2}
	case 2:
		return []cert.Version{1}
	case 3:
		if id == "A" {
			return []cert.Version{2}
		}
		return []cert.Version{1, 2}
	case 4:
		if id == "A" {
			return []cert.Version{1}
		}
		return []cert.Version{1, 2}
	case 5:
		if id == "A" {
			return []cert.Version{1, 2}
		}
		return []cert.Version{2}
	}
	panic("vc")
}
func hsVDef(vc int, id string) cert.Version {
	switch vc {
	case 1:
		return 2
	case 2:
		return 1
	case 3:
		if id == "A" {
			return 2
		}
		return 1
	case 4, 5:
		if id == "A" {
			return 1
		}
		return 2
	}
	panic("vc")
}

func hsOwner(slot string) string {
	if slot[0] == 'I' || slot == "RA" {
		return "A"
	}
	return "B"
}

// getCred: a fresh set of Credential objects (callers that model one node keep it: hsWorld.credsOf)
func (c *hsCombo) getCred(vc int, id string) GetCredentialFunc {
	ident := c.ids[id]
	creds := map[cert.Version]*Credential{}
	for _, v := range hsVSet(vc, id) {
		creds[v] = NewCredential(ident.cert[v], ident.raw[v], ident.priv, c.suite)
	}
	return func(v cert.Version) *Credential { return creds[v] }
}

// credsOf: as on a real node (the CertState's credentials serve every handshake), all machines of one identity share
// ONE Credential object per version for the whole behaviour, so anything a Credential remembers crosses sessions.
func (w *hsWorld) credsOf(id string) GetCredentialFunc {
	if w.creds == nil {
		w.creds = map[string]GetCredentialFunc{}
	}
	if f, ok := w.creds[id]; ok {
		return f
	}
	w.creds[id] = w.c.getCred(w.vc, id)
	return w.creds[id]
}

// ------------------------------------------------------------------------------------------------ world

type hsSlot struct {
	name      string
	honest    bool
	m         *Machine
	msg       []byte // the datagram this slot emitted
	st        int    // its stage (1 or 2), 0 = none
	pk, sk    string // adversary slots: payload kind / static kind used
	res       *Result
	enc, dec  noiseutil.CipherState
	hasKeys   bool
	consumed  []byte // noise part of the datagram that completed this machine
	peerName  string
	rejects   []string // classes of messages rejected without failing, in order
	hChanged  []string // of those, the ones after which ChannelBinding() differed (diagnostic only)
	completed bool
}

type hsWorld struct {
	c     *hsCombo
	vc    int
	adv   string
	slots map[string]*hsSlot
	idx   map[int]uint32
	rnd   *mrand.Rand
	log   []string
	extra int
	dyn   map[string]int
	creds map[string]GetCredentialFunc
}

func (w *hsWorld) modelIdx(name string) int {
	if v, ok := hsModelIdx[name]; ok {
		return v
	}
	if w.dyn == nil {
		w.dyn = map[string]int{}
	}
	if v, ok := w.dyn[name]; ok {
		return v
	}
	w.dyn[name] = 100 + len(w.dyn)
	return w.dyn[name]
}

func hsNewWorld(c *hsCombo, vc int, adv string, rnd *mrand.Rand) *hsWorld {
	return &hsWorld{c: c, vc: vc, adv: adv, slots: map[string]*hsSlot{}, idx: map[int]uint32{}, rnd: rnd}
}

// index allocators of the specification are arbitrary non-zero values: model index -> real index, injective
func (w *hsWorld) index(model int) uint32 {
	if model == 0 {
		return 0
	}
	if v, ok := w.idx[model]; ok {
		return v
	}
	for {
		var v uint32
		switch w.rnd.Intn(6) {
		case 0:
			v = 1 + uint32(w.rnd.Intn(3))
		case 1:
			v = 0xffffffff - uint32(w.rnd.Intn(3))
		case 2:
			v = 0x80000000 + uint32(w.rnd.Intn(2))
		default:
			v = w.rnd.Uint32()
		}
		dup := v == 0
		for _, o := range w.idx {
			if o == v {
				dup = true
			}
		}
		if !dup {
			w.idx[model] = v
			return v
		}
	}
}

var hsModelIdx = map[string]int{"I1": 11, "I2": 12, "I3": 13, "R1": 21, "R2": 22, "R3": 23, "RA": 24, "XI": 31, "XR": 32}

func (w *hsWorld) slot(name string) *hsSlot {
	if s, ok := w.slots[name]; ok {
		return s
	}
	s := &hsSlot{name: name, honest: name[0] != 'X'}
	if _, ok := hsModelIdx[name]; !ok {
		w.extra++
	}
	if s.honest {
		own := hsOwner(name)
		mi := w.modelIdx(name)
		m, err := NewMachine(hsVDef(w.vc, own), w.credsOf(own), w.c.verifier(),
			func() (uint32, error) { return w.index(mi), nil }, name[0] == 'I', header.HandshakeIXPSK0)
		if err != nil {
			panic(err)
		}
		s.m = m
	}
	w.slots[name] = s
	return s
}

func (w *hsWorld) advVer() cert.Version { return hsVDef(w.vc, "A") }

func (w *hsWorld) advPayload(initiator bool, pk string, ii, ri uint32) []byte {
	id := w.c.ids[w.adv]
	if w.adv == "K" { // CertOfI / CertOfR of the specification: A's certificate towards responders, B's towards initiators
		id = w.c.ids[map[bool]string{true: "A", false: "B"}[initiator]]
	}
	v := w.advVer()
	now := uint64(w.c.now.UnixNano())
	switch pk {
	case "full":
		return MarshalPayload(nil, Payload{Cert: id.raw[v], CertVersion: uint32(v), InitiatorIndex: ii, ResponderIndex: ri, Time: now})
	case "keep": // the complete certificate as issued: its own public key embedded (v1 Details.PublicKey, v2 element [2])
		return MarshalPayload(nil, Payload{Cert: w.c.certForm(v, id.raw[v], id.cert[v].PublicKey()), CertVersion: uint32(v), InitiatorIndex: ii, ResponderIndex: ri, Time: now})
	case "swap": // the same details and signature around the adversary's static key, as a complete certificate
		return MarshalPayload(nil, Payload{Cert: w.c.certForm(v, id.raw[v], w.c.ids[w.adv].pub), CertVersion: uint32(v), InitiatorIndex: ii, ResponderIndex: ri, Time: now})
	case "empty":
		return nil
	case "junk":
		return []byte{0xff, 0xff, 0xff, 0xff, 0xff, 0xff, 0xff, 0xff, 0xff, 0xff, 0xff}
	case "nocert":
		return MarshalPayload(nil, Payload{InitiatorIndex: ii, ResponderIndex: ri, Time: now})
	case "noidx":
		return MarshalPayload(nil, Payload{Cert: id.raw[v], CertVersion: uint32(v)})
	case "zeroidx":
		return MarshalPayload(nil, Payload{Cert: id.raw[v], CertVersion: uint32(v), Time: now})
	}
	panic("payload kind " + pk)
}

func (w *hsWorld) advNoise(initiator bool, badStatic bool) *noise.HandshakeState {
	id := w.c.ids[w.adv]
	key := noise.DHKey{Private: id.priv, Public: id.pub}
	if badStatic {
		_, priv := w.c.keypair()
		key = noise.DHKey{Private: priv, Public: w.c.badPoint("low")}
	}
	hs, err := noise.NewHandshakeState(noise.Config{CipherSuite: w.c.suite, Random: rand.Reader, Pattern: noise.HandshakeIX,
		Initiator: initiator, StaticKeypair: key, PresharedKey: []byte{}, PresharedKeyPlacement: 0})
	if err != nil {
		panic(err)
	}
	return hs
}

func hsHeader(remote uint32, counter uint64) []byte {
	b := make([]byte, header.Len, 512)
	header.Encode(b, header.Version, header.Handshake, header.HandshakeIXPSK0, remote, counter)
	return b
}

func (w *hsWorld) advInit(pk string) { w.advInitAs("XI", pk) }

func (w *hsWorld) advInitAs(name, pk string) {
	s := w.slot(name)
	hs := w.advNoise(true, false)
	out, _, _, err := hs.WriteMessage(hsHeader(0, 1), w.advPayload(true, pk, w.index(w.modelIdx(s.name)), 0))
	if err != nil {
		panic(err)
	}
	s.msg, s.st, s.pk = out, 1, pk
}

func (w *hsWorld) advResp(src, pk, sk string) error { return w.advRespAs("XR", src, pk, sk) }

func (w *hsWorld) advRespAs(name, src, pk, sk string) error {
	s := w.slot(name)
	in := w.slot(src)
	hs := w.advNoise(false, sk == "bad")
	pl, _, _, err := hs.ReadMessage(nil, in.msg[header.Len:])
	if err != nil {
		return err
	}
	p, err := UnmarshalPayload(pl)
	if err != nil {
		return err
	}
	out, cs1, cs2, err := hs.WriteMessage(hsHeader(p.InitiatorIndex, 2), w.advPayload(false, pk, p.InitiatorIndex, w.index(w.modelIdx(s.name))))
	if err != nil {
		return err
	}
	s.msg, s.st, s.pk, s.sk = out, 2, pk, sk
	s.dec = noiseutil.NewCipherState(cs1, w.c.cipher) // cs1: initiator -> responder
	s.enc = noiseutil.NewCipherState(cs2, w.c.cipher)
	s.hasKeys = true
	return nil
}

// ------------------------------------------------------------------------------------------------ bytes

func (c *hsCombo) badPoint(kind string) []byte {
	if c.curve == cert.Curve_P256 {
		b := make([]byte, 65)
		switch kind {
		case "zero": // not even an uncompressed-point encoding
		case "low": // P-256 has prime order: the nearest thing is (0,0), not on the curve
			b[0] = 4
		default: // off the curve: a genuine point with y changed
			pub, _ := c.keypair()
			copy(b, pub)
			b[64] ^= 1
		}
		return b
	}
	b := make([]byte, 32)
	switch kind {
	case "zero":
	case "low": // a point of order 8
		copy(b, []byte{0xe0, 0xeb, 0x7a, 0x7c, 0x3b, 0x41, 0xb8, 0xae, 0x16, 0x56, 0xe3, 0xfa, 0xf1, 0x9f, 0xc4, 0x6a,
			0xda, 0x09, 0x8d, 0xeb, 0x9c, 0x32, 0xb1, 0xfd, 0x86, 0x62, 0x05, 0x16, 0x5f, 0x49, 0xb8, 0x00})
	default: // every 32-byte string is a Curve25519 u-coordinate; u = 1 has order 4
		b[0] = 1
	}
	return b
}

// certForm re-encodes handshake certificate bytes in another FORM (the dimension `ck` of the specification), for both
// certificate versions: key == nil -> stripped (what MarshalForHandshakes produces), otherwise a complete certificate
// with that public key embedded. raw may be in either form. The signature bytes are carried over untouched.
func (c *hsCombo) certForm(v cert.Version, raw, key []byte) []byte {
	cc, err := cert.Recombine(v, raw, []byte{}, c.curve) // empty, non-nil key: the bytes are decoded as they are (complete form)
	if err != nil || len(cc.PublicKey()) == 0 {
		var k []byte
		if key != nil {
			k = key
		} else {
			k, _ = c.keypair()
		}
		if cc, err = cert.Recombine(v, raw, k, c.curve); err != nil { // stripped form: any key makes it decodable
			panic("certForm: " + err.Error())
		}
	} else if key != nil && !bytes.Equal(cc.PublicKey(), key) {
		stripped, err := cc.MarshalForHandshakes()
		if err != nil {
			panic(err)
		}
		if cc, err = cert.Recombine(v, stripped, key, c.curve); err != nil {
			panic("certForm: " + err.Error())
		}
	}
	var out []byte
	if key == nil {
		out, err = cc.MarshalForHandshakes()
	} else {
		out, err = cc.Marshal()
	}
	if err != nil {
		panic(err)
	}
	return out
}

// certComplete: do these certificate bytes carry a public key of their own
func (c *hsCombo) certComplete(v cert.Version, raw []byte) bool {
	cc, err := cert.Recombine(v, raw, []byte{}, c.curve)
	return err == nil && len(cc.PublicKey()) > 0
}

// token boundaries of a handshake datagram (Appendix C of the design)
func (c *hsCombo) bounds(st int, n int) (e0, s0, p0 int) {
	e0 = header.Len
	s0 = e0 + c.dh
	p0 = s0 + c.dh
	if st == 2 {
		p0 += 16
	}
	return
}

// a position in [lo, hi), boundaries preferred. Exactly one draw whatever the length (certificate sizes vary from run to
// run with the DER length of ECDSA signatures; the schedule must not).
func (w *hsWorld) within(lo, hi int) int {
	f := w.rnd.Float64()
	if hi <= lo {
		return lo
	}
	switch {
	case f < 0.25:
		return lo
	case f < 0.5:
		return hi - 1
	}
	return lo + int((f-0.5)*2*float64(hi-lo))
}

// mutate applies a delivery operation of the specification to a stored datagram. The result is a fresh slice.
func (w *hsWorld) mutate(src *hsSlot, op, arg string) []byte {
	pkt := append([]byte(nil), src.msg...)
	c := w.c
	e0, s0, p0 := c.bounds(src.st, len(pkt))
	flip := func(lo, hi int) {
		if hi > len(pkt) {
			hi = len(pkt)
		}
		i := w.within(lo, hi)
		pkt[i] ^= 1 << uint(w.rnd.Intn(8))
	}
	switch op {
	case "id":
	case "hdrflip":
		i := []int{0, 2, 3, 4, 5, 6, 7, 8, 9, 10, 11, 12, 13, 14, 15}[w.rnd.Intn(15)]
		pkt[i] ^= 1 << uint(w.rnd.Intn(8))
	case "short":
		pkt = pkt[:[]int{0, 1, 8, 15}[w.rnd.Intn(4)]]
	case "subtype":
		pkt[1] ^= byte(1 + w.rnd.Intn(255))
	case "hdr":
		pkt = pkt[:e0]
	case "in_e":
		pkt = pkt[:w.within(e0+1, s0)]
	case "after_e":
		pkt = pkt[:s0]
	case "in_s":
		pkt = pkt[:w.within(s0+1, p0)]
	case "after_s":
		pkt = pkt[:p0]
	case "in_p":
		if len(pkt) < p0+2 {
			panic("in_p on a datagram without payload bytes")
		}
		pkt = pkt[:w.within(p0+1, len(pkt))]
	case "flip_s":
		flip(s0, p0)
	case "flip_p":
		if src.st == 2 {
			flip(p0, len(pkt))
		} else { // clear payload: hit the tail of the certificate (its signature), anything else may be unsigned
			p, err := UnmarshalPayload(pkt[p0:])
			if err != nil || len(p.Cert) < 8 {
				panic("flip_p on a payload without certificate")
			}
			at := bytes.Index(pkt[p0:], p.Cert)
			if at < 0 {
				panic("certificate not found in payload")
			}
			end := p0 + at + len(p.Cert)
			flip(end-4, end)
		}
	case "idx":
		p, err := UnmarshalPayload(pkt[p0:])
		if err != nil {
			panic(err)
		}
		p.InitiatorIndex = w.index(9)
		pkt = MarshalPayload(pkt[:p0], p)
	case "cert_keep", "cert_swap", "cert_strip": // the certificate bytes of a clear payload in another form
		p, err := UnmarshalPayload(pkt[p0:])
		if err != nil || len(p.Cert) == 0 {
			panic("certificate surgery on a payload without certificate")
		}
		var key []byte
		switch {
		case op == "cert_keep": // the key of this message's own static token
			key = append([]byte(nil), pkt[s0:p0]...)
		case op == "cert_swap" && arg == "adv":
			key = c.ids[w.adv].pub
		case op == "cert_swap":
			key, _ = c.keypair()
		}
		p.Cert = c.certForm(cert.Version(p.CertVersion), p.Cert, key)
		pkt = MarshalPayload(pkt[:p0], p)
	case "sub_e":
		pub, _ := c.keypair()
		copy(pkt[e0:s0], pub)
	case "bad_e":
		copy(pkt[e0:s0], c.badPoint(arg))
	case "splice_e":
		copy(pkt[e0:s0], w.slot(arg).msg[e0:s0])
	case "splice_p":
		o := w.slot(arg)
		_, _, op0 := c.bounds(o.st, len(o.msg))
		pkt = append(pkt[:p0], o.msg[op0:]...)
	default:
		panic("unknown op " + op)
	}
	return pkt
}

// ------------------------------------------------------------------------------------------------ actions

type hsOut struct {
	Slot     string `json:"slot"`
	Err      string `json:"err"`
	Failed   bool   `json:"failed"`
	Done     bool   `json:"completed"` // this call returned a Result
	Out      bool   `json:"out"`       // this call returned a datagram
	Peer     string `json:"peer,omitempty"`
	Pver     int    `json:"pver,omitempty"`
	Mcv      int    `json:"mcv,omitempty"`
	Lidx     uint32 `json:"lidx,omitempty"`
	Ridx     uint32 `json:"ridx,omitempty"`
	Mi       int    `json:"mi,omitempty"`
	HChanged bool   `json:"h_changed,omitempty"` // ChannelBinding() differs from before the call (diagnostic)
	Nil      string `json:"nil,omitempty"`
}

func (o hsOut) isErr() bool { return o.Err != "" }

func (w *hsWorld) complete(s *hsSlot, res *Result, o *hsOut, consumed []byte) {
	s.res, s.completed = res, true
	o.Done = true
	if res.RemoteCert == nil || res.RemoteCert.Certificate == nil {
		o.Nil = "RemoteCert"
	} else {
		o.Peer = res.RemoteCert.Certificate.Name()
		o.Pver = int(res.RemoteCert.Certificate.Version())
	}
	s.peerName = o.Peer
	if res.MyCert != nil {
		o.Mcv = int(res.MyCert.Version())
	}
	o.Lidx, o.Ridx, o.Mi = res.LocalIndex, res.RemoteIndex, int(res.MessageIndex)
	if res.EKey == nil || res.DKey == nil {
		o.Nil += " keys"
		return
	}
	// exactly what newConnectionStateFromResult (connection_state.go) does with the result
	s.enc = noiseutil.NewCipherState(res.EKey, res.Cipher)
	s.dec = noiseutil.NewCipherState(res.DKey, res.Cipher)
	s.hasKeys = true
	s.consumed = append([]byte(nil), consumed...)
}

// hsCallerBuf alternates between the two documented ways of calling Initiate / ProcessPacket: out == nil (the Machine
// allocates) and a caller-owned buffer handed over as buf[:0] (sometimes too small, so that it has to grow).
var hsBufCalls int

func hsCallerBuf() []byte {
	hsBufCalls++
	switch hsBufCalls % 3 {
	case 1:
		return make([]byte, 0, 4096)
	case 2:
		return make([]byte, 0, 8)
	}
	return nil
}

func (w *hsWorld) initiate(name string) hsOut {
	s := w.slot(name)
	o := hsOut{Slot: name}
	out, err := s.m.Initiate(hsCallerBuf())
	if err != nil {
		o.Err = err.Error()
	} else if s.st == 0 {
		s.msg, s.st = out, 1
		o.Out = true
	}
	o.Failed = s.m.Failed()
	return o
}

func (w *hsWorld) process(name string, pkt []byte) hsOut {
	s := w.slot(name)
	o := hsOut{Slot: name}
	before := append([]byte(nil), s.m.hs.ChannelBinding()...)
	out, res, err := s.m.ProcessPacket(hsCallerBuf(), pkt)
	if err != nil {
		o.Err = err.Error()
	}
	o.Failed = s.m.Failed()
	o.HChanged = !bytes.Equal(before, s.m.hs.ChannelBinding())
	if out != nil {
		o.Out = true
		if s.st == 0 {
			s.msg, s.st = out, 2
		}
	}
	if res != nil {
		var noisePart []byte
		if len(pkt) >= header.Len {
			noisePart = pkt[header.Len:]
		}
		w.complete(s, res, &o, noisePart)
	}
	return o
}

func (w *hsWorld) deliver(name, src, op, arg string) hsOut {
	return w.process(name, w.mutate(w.slot(src), op, arg))
}

// opens: does a datagram sealed with a's sending key open with b's receiving key (header as associated data,
// the way the data plane uses the keys)?
func hsOpens(a, b *hsSlot, counter uint64) bool {
	hdr := hsHeader(77, counter)[:header.Len]
	nb := make([]byte, 12)
	pt := []byte("verif cross-decrypt probe")
	ctx, err := a.enc.EncryptDanger(append([]byte(nil), hdr...), hdr, pt, counter, nb)
	if err != nil {
		return false
	}
	out, err := b.dec.DecryptDanger(nil, ctx[:header.Len], ctx[header.Len:], counter, nb)
	return err == nil && bytes.Equal(out, pt)
}

// keyMatrix returns the ordered pairs (a,b) such that a's sending key opens with b's receiving key.
func (w *hsWorld) keyMatrix() [][2]string {
	var names []string
	for n, s := range w.slots {
		if s.hasKeys {
			names = append(names, n)
		}
	}
	sort.Strings(names)
	var m [][2]string
	for _, a := range names {
		for _, b := range names {
			if a != b && hsOpens(w.slots[a], w.slots[b], uint64(3+w.rnd.Intn(1000))) {
				m = append(m, [2]string{a, b})
			}
		}
	}
	return m
}

// validPoint: does the DH function accept these bytes as a public key
func (c *hsCombo) validPoint(b []byte) bool {
	_, priv := c.keypair()
	_, err := c.suite.DH(priv, b)
	return err == nil
}

// readerClass names a datagram by what the machine that reads it meets (mismatch keys of C07 are root-cause classes:
// the same bytes are the same class whichever operation produced them). what = name of the operation, for the rest.
func (w *hsWorld) readerClass(dst, src *hsSlot, pkt []byte, what string) string {
	xs, d := 1, w.c.dh
	slen := d
	if dst.name[0] == 'I' {
		xs, slen = 2, d+16
	}
	n := len(pkt) - header.Len
	switch {
	case n >= d && n < d+slen:
		return fmt.Sprintf("stage%d-truncated-after-ephemeral", xs)
	case xs == 2 && n >= d && !w.c.validPoint(pkt[header.Len:header.Len+d]):
		return "stage2-invalid-ephemeral"
	case xs == 2 && src.st == 2 && src.sk == "bad" && n >= d+slen && bytes.Equal(pkt[header.Len:header.Len+d+slen], src.msg[header.Len:header.Len+d+slen]):
		return "stage2-invalid-static"
	}
	return fmt.Sprintf("stage%d-%s", xs, what)
}

// class of a delivered datagram by origin and operation (C05 keys, details)
func (w *hsWorld) class(src, op, arg string) string {
	s := w.slot(src)
	origin := ""
	if !s.honest {
		origin = "adv-" + w.adv + "-" + hsPkName(s.pk)
		if s.sk == "bad" {
			origin += "-invalid-static"
		}
		origin += ":"
	}
	return fmt.Sprintf("stage%d-%s%s", s.st, origin, hsOpName(op, arg))
}

// hsPkName: payload kinds in mismatch keys
func hsPkName(pk string) string {
	switch pk {
	case "keep":
		return "complete-cert"
	case "swap":
		return "complete-cert-own-key"
	}
	return pk
}

func hsOpName(op, arg string) string {
	switch op {
	case "id":
		return "genuine"
	case "hdr":
		return "truncated-header-only"
	case "in_e":
		return "truncated-inside-ephemeral"
	case "after_e":
		return "truncated-after-ephemeral"
	case "in_s":
		return "truncated-inside-static"
	case "after_s":
		return "truncated-after-static"
	case "in_p":
		return "truncated-inside-payload"
	case "bad_e":
		return map[string]string{"zero": "ephemeral-all-zero", "low": "ephemeral-low-order", "off": "ephemeral-off-curve"}[arg]
	case "sub_e":
		return "ephemeral-substituted"
	case "splice_e":
		return "ephemeral-spliced"
	case "splice_p":
		return "payload-spliced"
	case "flip_s":
		return "static-bit-flip"
	case "flip_p":
		return "payload-bit-flip"
	case "idx":
		return "index-rewritten"
	case "cert_keep":
		return "certificate-key-embedded"
	case "cert_swap":
		return "certificate-key-replaced-" + arg
	case "cert_strip":
		return "certificate-key-stripped"
	case "hdrflip":
		return "header-bit-flip"
	case "short":
		return "shorter-than-header"
	case "subtype":
		return "wrong-subtype"
	}
	return op
}

// ------------------------------------------------------------------------------------------------ graph

type hsMObs struct {
	Failed bool   `json:"failed"`
	Done   bool   `json:"done"`
	Peer   string `json:"peer"`
	Pver   int    `json:"pver"`
	Mcv    int    `json:"mcv"`
	Lidx   int    `json:"lidx"`
	Ridx   int    `json:"ridx"`
	Mi     int    `json:"mi"`
}
type hsState struct {
	Adv string `json:"adv"`
	Vc  int    `json:"vc"`
	Obs struct {
		M     map[string]hsMObs `json:"m"`
		Sent  []string          `json:"sent"`
		Keq   [][2]string       `json:"keq"`
		Pairs [][2]string       `json:"pairs"`
	} `json:"obs"`
}
type hsEdge struct {
	Src  int      `json:"s"`
	Dst  int      `json:"d"`
	Act  string   `json:"a"`
	Args []string `json:"g"`
}
type hsGraph struct {
	States []hsState `json:"states"`
	Init   []int     `json:"init"`
	Edges  []hsEdge  `json:"edges"`
	Name   string    `json:"name"`
	// derived
	groups  [][]int // group id -> edge ids (same source, same label)
	gOf     []int   // edge id -> group id
	gAt     [][]int // state -> group ids
	outEdge [][]int // state -> edge ids
}

func (e hsEdge) label() string { return e.Act + "(" + strings.Join(e.Args, ",") + ")" }

func hsLoadGraph(t testing.TB, file string) *hsGraph {
	g := &hsGraph{}
	vReadJSON(t, file, g)
	g.gOf = make([]int, len(g.Edges))
	g.gAt = make([][]int, len(g.States))
	g.outEdge = make([][]int, len(g.States))
	ids := map[string]int{}
	for i, e := range g.Edges {
		k := fmt.Sprintf("%d|%s", e.Src, e.label())
		gid, ok := ids[k]
		if !ok {
			gid = len(g.groups)
			ids[k] = gid
			g.groups = append(g.groups, nil)
			g.gAt[e.Src] = append(g.gAt[e.Src], gid)
		}
		g.groups[gid] = append(g.groups[gid], i)
		g.gOf[i] = gid
		g.outEdge[e.Src] = append(g.outEdge[e.Src], i)
	}
	return g
}

func (s *hsState) sent(name string) bool {
	for _, x := range s.Obs.Sent {
		if x == name {
			return true
		}
	}
	return false
}

// parents computes a BFS tree over the edges not marked bad; parent[v] = edge id, -1 for roots, -2 unreachable
func (g *hsGraph) parents(bad map[int]bool) []int {
	par := make([]int, len(g.States))
	for i := range par {
		par[i] = -2
	}
	q := append([]int(nil), g.Init...)
	for _, s := range g.Init {
		par[s] = -1
	}
	for len(q) > 0 {
		u := q[0]
		q = q[1:]
		for _, ei := range g.outEdge[u] {
			if bad[ei] {
				continue
			}
			v := g.Edges[ei].Dst
			if par[v] == -2 {
				par[v] = ei
				q = append(q, v)
			}
		}
	}
	return par
}

func (g *hsGraph) pathTo(par []int, s int) (root int, path []int, ok bool) {
	if par[s] == -2 {
		return 0, nil, false
	}
	for par[s] >= 0 {
		path = append(path, par[s])
		s = g.Edges[par[s]].Src
	}
	for i, j := 0, len(path)-1; i < j; i, j = i+1, j-1 {
		path[i], path[j] = path[j], path[i]
	}
	return s, path, true
}

// apply performs the action of an edge label on the world
func (w *hsWorld) apply(e hsEdge) (hsOut, bool) {
	w.log = append(w.log, e.label())
	switch e.Act {
	case "Initiate", "MisInit":
		return w.initiate(e.Args[0]), true
	case "Deliver":
		return w.deliver(e.Args[0], e.Args[1], e.Args[2], e.Args[3]), true
	case "AdvInit":
		w.advInit(e.Args[0])
		return hsOut{}, false
	case "AdvResp":
		if err := w.advResp(e.Args[0], e.Args[1], e.Args[2]); err != nil {
			panic("adversary could not answer: " + err.Error())
		}
		return hsOut{}, false
	}
	panic("unknown action " + e.Act)
}

// expectation of one edge for the machine it acts on
type hsExpect struct {
	Err, Failed, Done, Out bool
	M                      hsMObs
}

func (g *hsGraph) expect(e hsEdge) hsExpect {
	name := e.Args[0]
	a, b := g.States[e.Src].Obs.M[name], g.States[e.Dst].Obs.M[name]
	x := hsExpect{Failed: b.Failed, M: b}
	switch e.Act {
	case "Deliver":
		x.Done = b.Done && !a.Done
		x.Err = !x.Done
		x.Out = x.Done && name[0] == 'R'
	default: // Initiate / MisInit
		x.Out = g.States[e.Dst].sent(name) && !g.States[e.Src].sent(name)
		x.Err = !x.Out
	}
	return x
}

// agrees: does the observed outcome equal the specification's for this edge (reference-level fields only)?
func (w *hsWorld) agrees(o hsOut, x hsExpect) string {
	switch {
	case o.isErr() != x.Err:
		return fmt.Sprintf("error=%v (%s), specification error=%v", o.isErr(), o.Err, x.Err)
	case o.Failed != x.Failed:
		return fmt.Sprintf("Failed()=%v, specification %v", o.Failed, x.Failed)
	case o.Done != x.Done:
		return fmt.Sprintf("completed=%v, specification %v", o.Done, x.Done)
	case o.Out != x.Out:
		return fmt.Sprintf("response produced=%v, specification %v", o.Out, x.Out)
	}
	if !x.Done {
		return ""
	}
	switch {
	case o.Nil != "":
		return "completed with nil " + o.Nil
	case o.Peer != x.M.Peer || o.Pver != x.M.Pver:
		return fmt.Sprintf("RemoteCert is %s v%d, specification %s v%d", o.Peer, o.Pver, x.M.Peer, x.M.Pver)
	case o.Mcv != x.M.Mcv:
		return fmt.Sprintf("MyCert version %d, specification %d", o.Mcv, x.M.Mcv)
	case o.Lidx != w.index(x.M.Lidx) || o.Ridx != w.index(x.M.Ridx):
		return fmt.Sprintf("indexes local=%d remote=%d, specification local=%d remote=%d", o.Lidx, o.Ridx, w.index(x.M.Lidx), w.index(x.M.Ridx))
	case o.Mi != x.M.Mi:
		return fmt.Sprintf("MessageIndex %d, specification %d", o.Mi, x.M.Mi)
	}
	return ""
}

func hsPairsEqual(a, b [][2]string) bool {
	if len(a) != len(b) {
		return false
	}
	m := map[[2]string]bool{}
	for _, p := range a {
		m[p] = true
	}
	for _, p := range b {
		if !m[p] {
			return false
		}
	}
	return true
}

// ------------------------------------------------------------------------------------------------ cover walk (C05, C06)

type hsCoverStats struct {
	Groups, Covered, Steps, Walks, Diverged, Completions int
}

// hsCover walks TLC's graph on real objects until every (state, label) group has been executed (or is not realisable
// on this code).  One-directional verdicts: what the real code *does* must be allowed by the specification whenever it
// is a completion (who with, which indexes, which keys); a refusal where the specification allows progress only ends the
// walk (that is C07's subject).  onStep lets the property add its own comparisons.
func hsCover(t testing.TB, res *vResult, g *hsGraph, c *hsCombo, prop string, limit int,
	onStep func(w *hsWorld, e hsEdge, o hsOut, dst *hsState)) hsCoverStats {
	rnd := mrand.New(mrand.NewSource(vSeed()*1000003 + int64(len(c.name))*7 + int64(c.dh)))
	st := hsCoverStats{Groups: len(g.groups)}
	covered := make([]bool, len(g.groups))
	bad := map[int]bool{}
	order := rnd.Perm(len(g.groups))
	par := g.parents(bad)
	dirty := false
	budget := limit
	for pass := 0; pass < 3; pass++ {
		for _, gid := range order {
			if covered[gid] || budget <= 0 {
				continue
			}
			if dirty {
				par, dirty = g.parents(bad), false
			}
			root, path, ok := g.pathTo(par, g.Edges[g.groups[gid][0]].Src)
			if !ok {
				continue
			}
			st.Walks++
			w := hsNewWorld(c, g.States[root].Vc, g.States[root].Adv, mrand.New(mrand.NewSource(rnd.Int63())))
			cur := root
			alive := true
			step := func(gid int, planned int) bool { // returns false when the walk has to stop
				edges := g.groups[gid]
				e := g.Edges[edges[0]]
				covered[gid] = true
				budget--
				st.Steps++
				res.Hit(e.Act)
				switch e.Act { // vacuity accounting per payload kind / delivery operation
				case "AdvInit", "AdvResp":
					pk := e.Args[len(e.Args)-2+map[string]int{"AdvInit": 1, "AdvResp": 0}[e.Act]]
					res.Hit("pk:" + pk)
					if pk == "keep" || pk == "swap" {
						res.Hit(fmt.Sprintf("complete-cert:v%d", w.advVer()))
					}
				case "Deliver":
					res.Hit("op:" + e.Args[2])
					if src := w.slot(e.Args[1]); !src.honest && e.Args[2] == "id" && !w.slot(e.Args[0]).m.Failed() && !w.slot(e.Args[0]).completed {
						res.Hit(fmt.Sprintf("form:%s->stage%d-reader", src.pk, src.st))
					}
				}
				o, judged := w.apply(e)
				res.Case(fmt.Sprintf("%s/%s/%d", g.Name, c.name, gid))
				if !judged {
					cur = e.Dst
					if onStep != nil {
						onStep(w, e, o, &g.States[cur])
					}
					return true
				}
				why := ""
				for _, ei := range edges {
					if why = w.agrees(o, g.expect(g.Edges[ei])); why == "" {
						if planned >= 0 && ei != planned {
							bad[planned], dirty = true, true
							cur = g.Edges[ei].Dst
							return false
						}
						cur = g.Edges[ei].Dst
						if o.Done {
							st.Completions++
							res.Hit("complete")
							if st.Completions == 3 {
								res.Sample(map[string]any{"replayed_behaviour": append([]string(nil), w.log...), "graph": g.Name, "combo": c.name,
									"vc": w.vc, "adversary": w.adv, "last_step_observed": o})
							}
						}
						if onStep != nil {
							onStep(w, g.Edges[ei], o, &g.States[cur])
						}
						return true
					}
				}
				if planned >= 0 {
					bad[planned], dirty = true, true
				}
				if o.Done { // the code completed a handshake the specification does not allow (or not like this)
					cls := e.Act
					if e.Act == "Deliver" {
						cls = w.class(e.Args[1], e.Args[2], e.Args[3])
					}
					res.Mismatch(fmt.Sprintf("completion:%s->%s", cls, map[bool]string{true: "initiator", false: "responder"}[e.Args[0][0] == 'I']),
						fmt.Sprintf("%s on %s: %s", e.label(), c.name, why),
						map[string]any{"graph": g.Name, "combo": c.name, "vc": w.vc, "adversary": w.adv, "behaviour": w.log, "observed": o})
				} else {
					st.Diverged++
					res.Hit("diverged")
				}
				return false
			}
			for _, ei := range path {
				if alive = step(g.gOf[ei], ei); !alive {
					break
				}
			}
			if !alive {
				continue
			}
			next := gid
			for n := 0; n < 60 && next >= 0 && budget > 0; n++ {
				if !step(next, -1) {
					break
				}
				next = -1
				cands := g.gAt[cur]
				off := rnd.Intn(len(cands) + 1)
				for k := range cands {
					if x := cands[(k+off)%len(cands)]; !covered[x] {
						next = x
						break
					}
				}
			}
		}
	}
	for _, b := range covered {
		if b {
			st.Covered++
		}
	}
	return st
}

// ------------------------------------------------------------------------------------------------ run helpers

func hsParallel(combos []*hsCombo, fn func(c *hsCombo)) {
	var wg sync.WaitGroup
	for _, c := range combos {
		wg.Add(1)
		go func(c *hsCombo) { defer wg.Done(); fn(c) }(c)
	}
	wg.Wait()
}

type hsPlan struct {
	Graphs  []string `json:"graphs"`
	Limit   int      `json:"limit"`   // steps per graph and combo
	Random  int      `json:"random"`  // random schedules per combo
	Length  int      `json:"length"`  // steps per random schedule
	Details bool     `json:"details"` // keep behaviours in samples
}

func hsJSON(v any) string { b, _ := json.Marshal(v); return string(b) }

// ------------------------------------------------------------------------------------------------ reference predicates

// hsJudgeCompletion: C05 on one completion of an honest machine (reference predicates evaluated on the real objects)
func (w *hsWorld) judgeCompletion(res *vResult, prop string, s *hsSlot, o hsOut, cls string) {
	bad := func(key, what string) {
		res.Mismatch(key, fmt.Sprintf("%s completed on %s (%s, adversary %s): %s", s.name, cls, w.c.name, w.adv, what),
			map[string]any{"combo": w.c.name, "vc": w.vc, "adversary": w.adv, "behaviour": w.log, "observed": o})
	}
	if o.Nil != "" {
		bad("completion-without-"+strings.TrimSpace(o.Nil), "result lacks "+o.Nil)
		return
	}
	rc := s.res.RemoteCert.Certificate
	if _, err := w.c.pool.VerifyCertificate(w.c.now, rc); err != nil || !hsAccepts(rc.Name()) {
		bad("completion-with-unaccepted-certificate-"+rc.Name(), fmt.Sprintf("the trust check refuses the reported certificate: %v", err))
	}
	if !bytes.Equal(rc.PublicKey(), s.m.hs.PeerStatic()) {
		bad("completion-key-differs-from-static", "reported certificate key differs from the Noise static key")
	}
	id := w.c.ids[rc.Name()]
	if id == nil || !bytes.Equal(id.pub, s.m.hs.PeerStatic()) || id.name == "K" {
		bad("completion-with-foreign-key-"+rc.Name(), "the Noise static key is not the key the reported identity holds")
	}
	if o.Lidx == 0 || o.Ridx == 0 {
		bad("completion-with-zero-index", fmt.Sprintf("local index %d remote index %d", o.Lidx, o.Ridx))
	}
	// secrecy: keys of a session whose certificate the adversary does not hold must not be derivable by it
	if rc.Name() != w.adv {
		for n, x := range w.slots {
			if !x.honest && x.hasKeys && (hsOpens(x, s, 5) || hsOpens(s, x, 6)) {
				bad("keys-open-for-adversary-"+w.adv, "session keys are shared with the adversary's machine "+n)
			}
		}
	}
}

// hsJudgePairs: C06 over all honest machines that completed so far. Same session = each consumed exactly the
// Noise message the other emitted.
func (w *hsWorld) judgePairs(res *vResult, prop string) int {
	var done []*hsSlot
	for _, s := range w.slots {
		if s.honest && s.completed && s.hasKeys {
			done = append(done, s)
		}
	}
	sort.Slice(done, func(i, j int) bool { return done[i].name < done[j].name })
	pairs := 0
	for _, a := range done {
		for _, b := range done {
			if a == b {
				continue
			}
			paired := false
			if a.name[0] == 'I' && b.name[0] == 'R' {
				paired = a.st == 1 && b.st == 2 && bytes.Equal(a.consumed, b.msg[header.Len:]) && bytes.Equal(b.consumed, a.msg[header.Len:])
			} else if a.name[0] == 'R' && b.name[0] == 'I' {
				paired = b.st == 1 && a.st == 2 && bytes.Equal(b.consumed, a.msg[header.Len:]) && bytes.Equal(a.consumed, b.msg[header.Len:])
			}
			opens := hsOpens(a, b, uint64(2+w.rnd.Intn(5000)))
			detail := map[string]any{"combo": w.c.name, "vc": w.vc, "a": a.name, "b": b.name, "behaviour": w.log}
			if paired && !opens {
				res.Mismatch("paired-keys-do-not-open", fmt.Sprintf("%s: %s's sending key does not open with %s's receiving key although both completed the same session", w.c.name, a.name, b.name), detail)
			}
			if !paired && opens {
				res.Mismatch("keys-open-outside-session", fmt.Sprintf("%s: %s's sending key opens with %s's receiving key although they did not complete the same session", w.c.name, a.name, b.name), detail)
			}
			if paired && a.name[0] == 'I' {
				pairs++
				ra, rb := a.res, b.res
				switch {
				case ra.RemoteIndex != rb.LocalIndex || rb.RemoteIndex != ra.LocalIndex:
					res.Mismatch("indexes-do-not-cross-match", fmt.Sprintf("%s: initiator local=%d remote=%d, responder local=%d remote=%d", w.c.name, ra.LocalIndex, ra.RemoteIndex, rb.LocalIndex, rb.RemoteIndex), detail)
				case ra.LocalIndex == 0 || rb.LocalIndex == 0:
					res.Mismatch("zero-local-index", "a completed side reports local index 0", detail)
				case ra.MessageIndex != rb.MessageIndex:
					res.Mismatch("message-counts-differ", fmt.Sprintf("%s: initiator %d, responder %d", w.c.name, ra.MessageIndex, rb.MessageIndex), detail)
				}
			}
		}
	}
	return pairs
}

// ------------------------------------------------------------------------------------------------ C07 scenarios

// outcome of a genuine delivery, reference level
type hsGenuine struct {
	Err, Failed, Done, Out bool
	Peer                   string
	Pver, Mcv, Mi          int
	LidxOK, RidxOK         bool
	PeerCompletes          string // for a responder: does the initiator it answered complete with its response
}

func (w *hsWorld) genuineOutcome(o hsOut) hsGenuine {
	return hsGenuine{Err: o.isErr(), Failed: o.Failed, Done: o.Done, Out: o.Out, Peer: o.Peer, Pver: o.Pver, Mcv: o.Mcv, Mi: o.Mi,
		LidxOK: o.Lidx != 0, RidxOK: o.Ridx != 0}
}

// settle: the peer side of a genuine delivery. If dst is a responder that produced a response to initiator src,
// hand the response to a copy of the story's initiator: that is what "completes the handshake" means for message 1.
func (w *hsWorld) answerAccepted(dst, src string) string {
	d, s := w.slot(dst), w.slot(src)
	if d.name[0] != 'R' || !d.completed || !s.honest || s.m == nil || s.completed || s.m.Failed() {
		return "n/a"
	}
	o := w.process(src, d.msg)
	if o.Done && o.Peer == hsOwner(dst) && hsOpens(d, s, 9) && hsOpens(s, d, 10) {
		return "yes"
	}
	return "no: " + o.Err
}

type hsScenarioStats struct{ Scenarios, Rejected, MarkedFailed, Accepted, Unrealisable, Refusals int }

// hsScenarios: for states s of the graph, junk deliveries J at s and genuine deliveries g at s to the same machine:
//
//	run path(s), g                 -> the undisturbed outcome
//	run path(s), J, g              -> if J was rejected with Failed()==false the outcome of g must be the undisturbed one;
//	                                  if the machine reports failed every later input must be refused.
func hsScenarios(t testing.TB, res *vResult, g *hsGraph, c *hsCombo, limit int) hsScenarioStats {
	rnd := mrand.New(mrand.NewSource(vSeed()*2000003 + int64(len(c.name))*11 + int64(c.dh)))
	var st hsScenarioStats
	par := g.parents(nil)
	type scen struct{ s, j, g, depth int }
	var all []scen
	seenClass := map[string]bool{}
	var first, rest []scen
	depth := make([]int, len(g.States))
	for s := range g.States {
		_, p, ok := g.pathTo(par, s)
		if !ok {
			depth[s] = -1
			continue
		}
		depth[s] = len(p)
	}
	order := make([]int, 0, len(g.States))
	for s := range g.States {
		if depth[s] >= 0 {
			order = append(order, s)
		}
	}
	sort.SliceStable(order, func(i, j int) bool { return depth[order[i]] < depth[order[j]] })
	for _, s := range order {
		for _, jg := range g.gAt[s] {
			je := g.Edges[g.groups[jg][0]]
			if je.Act != "Deliver" {
				continue
			}
			// junk: every outcome the specification allows for it is a rejection or a failure
			junk := true
			for _, ei := range g.groups[jg] {
				if x := g.expect(g.Edges[ei]); !x.Err {
					junk = false
				}
			}
			if !junk {
				continue
			}
			for _, gg := range g.gAt[s] {
				ge := g.Edges[g.groups[gg][0]]
				if ge.Act != "Deliver" || ge.Args[0] != je.Args[0] || ge.Args[2] != "id" || gg == jg {
					continue
				}
				// genuine: the specification lets it complete from here
				completes := false
				for _, ei := range g.groups[gg] {
					if x := g.expect(g.Edges[ei]); x.Done {
						completes = true
					}
				}
				if !completes {
					continue
				}
				sc := scen{s, jg, gg, depth[s]}
				k := strings.Join(je.Args, ",") + "|" + strings.Join(ge.Args, ",") + fmt.Sprint(g.States[s].Vc, g.States[s].Adv)
				if !seenClass[k] {
					seenClass[k] = true
					first = append(first, sc)
				} else {
					rest = append(rest, sc)
				}
			}
		}
	}
	rnd.Shuffle(len(rest), func(i, j int) { rest[i], rest[j] = rest[j], rest[i] })
	all = append(first, rest...)
	if len(all) > limit {
		all = all[:limit]
	}
	run := func(s int, labels ...hsEdge) (*hsWorld, []hsOut, bool) {
		root, path, _ := g.pathTo(par, s)
		w := hsNewWorld(c, g.States[root].Vc, g.States[root].Adv, mrand.New(mrand.NewSource(rnd.Int63())))
		for _, ei := range path {
			e := g.Edges[ei]
			o, judged := w.apply(e)
			if judged && w.agrees(o, g.expect(e)) != "" {
				return w, nil, false // this code does not realise the path (e.g. it marks failed where the path needs otherwise)
			}
		}
		var outs []hsOut
		for _, e := range labels {
			o, _ := w.apply(e)
			outs = append(outs, o)
		}
		return w, outs, true
	}
	for _, sc := range all {
		je, ge := g.Edges[g.groups[sc.j][0]], g.Edges[g.groups[sc.g][0]]
		dst := je.Args[0]
		// undisturbed
		w0, o0, ok := run(sc.s, ge)
		if !ok {
			st.Unrealisable++
			continue
		}
		want := w0.genuineOutcome(o0[0])
		want.PeerCompletes = w0.answerAccepted(dst, ge.Args[1])
		if !want.Done {
			st.Unrealisable++ // the undisturbed genuine message does not complete on this code: not C07's subject
			res.Hit("undisturbed-does-not-complete")
			continue
		}
		// disturbed
		w1, _, _ := run(sc.s)
		jpkt := w1.mutate(w1.slot(je.Args[1]), je.Args[2], je.Args[3])
		cls := w1.readerClass(w1.slot(dst), w1.slot(je.Args[1]), jpkt, hsOpName(je.Args[2], je.Args[3]))
		w1.log = append(w1.log, je.label())
		oj := w1.process(dst, jpkt)
		st.Scenarios++
		res.Hit("scenario")
		if st.Scenarios == 7 {
			res.Sample(map[string]any{"scenario": append([]string(nil), w1.log...), "then_genuine": ge.label(), "combo": c.name,
				"junk_outcome": oj, "undisturbed": want})
		}
		res.Hit("junk:" + hsOpName(je.Args[2], je.Args[3]))
		res.Case(fmt.Sprintf("%s/%s/%d/%d/%d", g.Name, c.name, sc.s, sc.j, sc.g))
		detail := func(extra map[string]any) map[string]any {
			m := map[string]any{"graph": g.Name, "combo": c.name, "vc": w1.vc, "adversary": w1.adv, "behaviour": append([]string(nil), w1.log...),
				"junk": je.label(), "junk_bytes": len(jpkt), "junk_as": w1.class(je.Args[1], je.Args[2], je.Args[3]), "junk_outcome": oj, "genuine": ge.label(), "undisturbed": want}
			for k, v := range extra {
				m[k] = v
			}
			return m
		}
		switch {
		case !oj.isErr():
			st.Accepted++ // the junk was accepted: C05's subject, not C07's
			res.Hit("junk-accepted")
		case oj.Failed:
			st.MarkedFailed++
			res.Hit("junk-marks-failed")
			// once failed, every later input is refused
			for _, n := range g.States[sc.s].Obs.Sent {
				o := w1.deliver(dst, n, "id", "")
				st.Refusals++
				if !o.isErr() || o.Done || o.Out || !o.Failed {
					res.Mismatch("failed-machine-accepts-input:"+cls,
						fmt.Sprintf("%s: after %s the machine reports failed, yet the message of %s was not refused (err=%q completed=%v)", c.name, cls, n, o.Err, o.Done),
						detail(map[string]any{"later": o}))
				}
			}
			if dst[0] == 'I' {
				if o := w1.initiate(dst); !o.isErr() || o.Out {
					res.Mismatch("failed-machine-accepts-input:"+cls, c.name+": Initiate succeeded on a failed machine", detail(nil))
				}
			}
		default:
			st.Rejected++
			res.Hit("junk-rejected-usable")
			og, _ := w1.apply(ge)
			got := w1.genuineOutcome(og)
			got.PeerCompletes = w1.answerAccepted(dst, ge.Args[1])
			if got != want {
				res.Mismatch(cls,
					fmt.Sprintf("%s: %s was rejected with Failed()==false (state touched: %v); the genuine message then yields %s (%s), undisturbed it yields %s",
						c.name, cls, oj.HChanged, hsJSON(got), og.Err, hsJSON(want)),
					detail(map[string]any{"disturbed": got, "genuine_outcome": og}))
			}
		}
	}
	return st
}

// ------------------------------------------------------------------------------------------------ random schedules (T)

var hsModelOps = []string{"id", "id", "id", "hdrflip", "short", "subtype", "hdr", "in_e", "after_e", "in_s", "after_s", "in_p",
	"flip_s", "flip_p", "idx", "sub_e", "bad_e", "splice_e", "splice_p", "rawtrunc", "rawflip", "cert_keep", "cert_swap", "cert_strip"}

// hsRandom drives seeded adversarial schedules with more sessions and longer histories than the model-checking bounds
// and judges them with the reference predicates of prop.
func hsRandom(t testing.TB, res *vResult, c *hsCombo, prop string, n, length int) {
	advs := []string{"M", "U", "X", "L", "K"}
	pks := []string{"full", "full", "full", "empty", "junk", "nocert", "noidx", "zeroidx", "keep", "keep", "swap"}
	for trial := 0; trial < n; trial++ {
		rnd := mrand.New(mrand.NewSource(vSeed()*3000017 + int64(trial)*131 + int64(len(c.name))*13 + int64(c.dh)))
		w := hsNewWorld(c, 1+rnd.Intn(5), advs[rnd.Intn(len(advs))], rnd)
		inits := []string{"I1", "I2", "I3"}[:1+rnd.Intn(3)]
		resps := []string{"R1", "R2", "R3", "RA"}[:1+rnd.Intn(4)]
		honest := append(append([]string(nil), inits...), resps...)
		nx := 0
		withMsg := func() []string {
			var l []string
			for n, s := range w.slots {
				if s.st != 0 {
					l = append(l, n)
				}
			}
			sort.Strings(l)
			return l
		}
		for step := 0; step < length; step++ {
			switch r := rnd.Intn(100); {
			case r < 12:
				name := inits[rnd.Intn(len(inits))]
				if w.slot(name).st == 0 && !w.slot(name).m.Failed() {
					w.log = append(w.log, "Initiate("+name+")")
					w.initiate(name)
					res.Hit("T:Initiate")
				}
			case r < 18 && nx < 4:
				nx++
				name := fmt.Sprintf("XI%d", nx)
				pk := pks[rnd.Intn(len(pks))]
				w.log = append(w.log, "AdvInit("+name+","+pk+")")
				w.advInitAs(name, pk)
				res.Hit("T:AdvInit")
			case r < 28 && nx < 4:
				var srcs []string
				for _, i := range inits {
					if w.slot(i).st == 1 {
						srcs = append(srcs, i)
					}
				}
				if len(srcs) == 0 {
					continue
				}
				nx++
				name := fmt.Sprintf("XR%d", nx)
				pk, sk := pks[rnd.Intn(len(pks))], []string{"own", "own", "bad"}[rnd.Intn(3)]
				src := srcs[rnd.Intn(len(srcs))]
				w.log = append(w.log, fmt.Sprintf("AdvResp(%s,%s,%s,%s)", name, src, pk, sk))
				if err := w.advRespAs(name, src, pk, sk); err != nil {
					panic(err)
				}
				res.Hit("T:AdvResp")
			default:
				msgs := withMsg()
				if len(msgs) == 0 {
					continue
				}
				dst := honest[rnd.Intn(len(honest))]
				src := msgs[rnd.Intn(len(msgs))]
				d, s := w.slot(dst), w.slot(src)
				op := hsModelOps[rnd.Intn(len(hsModelOps))]
				arg := ""
				pkt, cls, ok := w.randomPacket(s, op, &arg, msgs)
				if !ok {
					continue
				}
				w.log = append(w.log, fmt.Sprintf("Deliver(%s,%s,%s,%s)", dst, src, op, arg))
				wasDone, wasFailed := d.completed, d.m.Failed()
				o := w.process(dst, pkt)
				res.Hit("T:Deliver")
				if o.Done {
					res.Hit("T:complete")
					if prop == "C05" {
						w.judgeCompletion(res, prop, d, o, cls)
					}
				}
				if wasFailed && prop == "C07" && (!o.isErr() || o.Done || o.Out || !o.Failed) {
					res.Mismatch("failed-machine-accepts-input:"+w.readerClass(d, s, pkt, hsOpOf(cls)), fmt.Sprintf("%s: a failed machine did not refuse %s", c.name, cls),
						map[string]any{"combo": c.name, "behaviour": w.log, "observed": o})
				}
				rcls := w.readerClass(d, s, pkt, hsOpOf(cls))
				if o.isErr() && !o.Failed && !wasDone && !wasFailed {
					d.rejects = append(d.rejects, rcls)
					if o.HChanged {
						d.hChanged = append(d.hChanged, rcls)
					}
				}
			}
		}
		if prop == "C06" {
			if w.judgePairs(res, prop) > 0 {
				res.Hit("T:pair")
			}
		}
		if prop == "C07" {
			w.settle(res, inits, resps)
		}
		res.Case(fmt.Sprintf("T/%s/%d", c.name, trial))
		if trial == 0 {
			res.Sample(map[string]any{"random_schedule": w.log, "combo": c.name, "vc": w.vc, "adversary": w.adv})
		}
	}
}

// randomPacket: a random concrete instance of a delivery operation; raw operations are classified by what they hit so
// that mismatch keys name the same input classes as the replayed graph
func (w *hsWorld) randomPacket(s *hsSlot, op string, arg *string, msgs []string) ([]byte, string, bool) {
	c := w.c
	e0, s0, p0 := c.bounds(s.st, len(s.msg))
	full := func(kind string) bool {
		if s.st != 1 {
			return kind == "flip_p"
		}
		p, err := UnmarshalPayload(s.msg[p0:])
		return err == nil && len(p.Cert) >= 8
	}
	switch op {
	case "in_p":
		if len(s.msg) < p0+2 {
			return nil, "", false
		}
	case "bad_e":
		*arg = []string{"zero", "low", "off"}[w.rnd.Intn(3)]
	case "splice_e":
		*arg = msgs[w.rnd.Intn(len(msgs))]
		if len(w.slot(*arg).msg) < s0 {
			return nil, "", false
		}
	case "splice_p":
		*arg = msgs[w.rnd.Intn(len(msgs))]
		if w.slot(*arg).st != s.st {
			return nil, "", false
		}
	case "idx":
		if s.st != 1 || !full(op) {
			return nil, "", false
		}
	case "cert_keep", "cert_swap", "cert_strip":
		if s.st != 1 || !full(op) {
			return nil, "", false
		}
		p, _ := UnmarshalPayload(s.msg[p0:])
		if c.certComplete(cert.Version(p.CertVersion), p.Cert) != (op == "cert_strip") {
			return nil, "", false
		}
		if op == "cert_swap" {
			*arg = []string{"unk", "adv"}[w.rnd.Intn(2)]
		}
	case "flip_p":
		if !full(op) {
			return nil, "", false
		}
	case "rawtrunc": // any length: the region first, then a position in it
		as := []string{"short", "hdr", "in_e", "after_e", "in_s", "after_s", "in_p", "in_p"}[w.rnd.Intn(8)]
		if as == "in_p" && len(s.msg) < p0+2 {
			as = "after_s"
		}
		return w.mutate(s, as, ""), fmt.Sprintf("stage%d-%s%s", s.st, w.origin(s), hsOpName(as, "")), true
	case "rawflip": // one bit anywhere behind the header
		lo, hi, as := p0, len(s.msg), "payload-bit-flip"
		switch w.rnd.Intn(4) {
		case 0:
			lo, hi, as = e0, s0, "ephemeral-bit-flip"
		case 1:
			lo, hi, as = s0, p0, "static-bit-flip"
		}
		if hi <= lo {
			return nil, "", false
		}
		pkt := append([]byte(nil), s.msg...)
		pkt[w.within(lo, hi)] ^= 1 << uint(w.rnd.Intn(8))
		return pkt, fmt.Sprintf("stage%d-%s%s", s.st, w.origin(s), as), true
	}
	return w.mutate(s, op, *arg), w.class(s.name, op, *arg), true
}

// hsOpOf strips stage and origin from a class name built by class()/randomPacket
func hsOpOf(cls string) string {
	if i := strings.LastIndex(cls, ":"); i >= 0 {
		return cls[i+1:]
	}
	if strings.HasPrefix(cls, "stage") && len(cls) > 7 {
		return cls[7:]
	}
	return cls
}

func (w *hsWorld) origin(s *hsSlot) string {
	if s.honest {
		return ""
	}
	o := "adv-" + w.adv + "-" + hsPkName(s.pk)
	if s.sk == "bad" {
		o += "-invalid-static"
	}
	return o + ":"
}

// settle (C07): every honest machine that is still usable must complete with the genuine message of a fresh honest
// peer, whatever it rejected before; every failed machine must refuse everything.
func (w *hsWorld) settle(res *vResult, inits, resps []string) {
	blame := func(s *hsSlot) string {
		if len(s.hChanged) > 0 {
			return s.hChanged[0]
		}
		return s.rejects[0]
	}
	k := 0
	for _, name := range inits {
		s := w.slot(name)
		if s.m.Failed() || s.completed || s.st != 1 || len(s.rejects) == 0 {
			continue
		}
		k++
		r := fmt.Sprintf("R9%d", k)
		w.log = append(w.log, fmt.Sprintf("settle: %s answers %s", r, name))
		or := w.process(r, s.msg)
		if !or.Done || !or.Out {
			continue // the genuine responder itself did not complete: not the subject
		}
		o := w.process(name, w.slot(r).msg)
		res.Hit("T:settle")
		if !(o.Done && o.Peer == "B" && hsOpens(s, w.slot(r), 4) && hsOpens(w.slot(r), s, 5)) {
			res.Mismatch(blame(s), fmt.Sprintf("%s: %s rejected %v with Failed()==false; the genuine answer of a fresh responder then yields err=%q completed=%v failed=%v",
				w.c.name, name, s.rejects, o.Err, o.Done, o.Failed),
				map[string]any{"combo": w.c.name, "vc": w.vc, "adversary": w.adv, "behaviour": w.log, "rejected": s.rejects, "state_touched_by": s.hChanged})
		}
	}
	for _, name := range resps {
		s := w.slot(name)
		if s.m.Failed() || s.completed || len(s.rejects) == 0 || name == "RA" {
			continue
		}
		k++
		i := fmt.Sprintf("I9%d", k)
		w.log = append(w.log, fmt.Sprintf("settle: %s initiates to %s", i, name))
		w.initiate(i)
		o := w.process(name, w.slot(i).msg)
		res.Hit("T:settle")
		ok := o.Done && o.Out && o.Peer == "A"
		if ok {
			oi := w.process(i, s.msg)
			ok = oi.Done && oi.Peer == "B" && hsOpens(s, w.slot(i), 4) && hsOpens(w.slot(i), s, 5)
		}
		if !ok {
			res.Mismatch(blame(s), fmt.Sprintf("%s: %s rejected %v with Failed()==false; the handshake with a fresh initiator then does not complete on both sides (err=%q)",
				w.c.name, name, s.rejects, o.Err),
				map[string]any{"combo": w.c.name, "vc": w.vc, "adversary": w.adv, "behaviour": w.log, "rejected": s.rejects, "state_touched_by": s.hChanged})
		}
	}
	for _, name := range append(append([]string(nil), inits...), resps...) {
		s := w.slot(name)
		if !s.m.Failed() {
			continue
		}
		for _, x := range w.slots {
			if x.st == 0 {
				continue
			}
			o := w.process(name, x.msg)
			res.Hit("T:refuse")
			if !o.isErr() || o.Done || o.Out || !o.Failed {
				res.Mismatch("failed-machine-accepts-input:genuine", w.c.name+": a failed machine did not refuse the message of "+x.name,
					map[string]any{"combo": w.c.name, "behaviour": w.log, "observed": o})
			}
		}
	}
}

// hsMatrix: after every completion (and every answer of the adversary) the cross-decrypt matrix of the real keys must be
// the specification's: a's sending key opens with b's receiving key exactly for the pairs the model lists.
func hsMatrix(res *vResult, g *hsGraph, c *hsCombo) func(w *hsWorld, e hsEdge, o hsOut, dst *hsState) {
	return func(w *hsWorld, e hsEdge, o hsOut, dst *hsState) {
		if !(o.Done || e.Act == "AdvResp") {
			return
		}
		got := w.keyMatrix()
		res.Hit("matrix")
		if hsPairsEqual(got, dst.Obs.Keq) {
			return
		}
		cls := e.Act
		if e.Act == "Deliver" {
			cls = w.class(e.Args[1], e.Args[2], e.Args[3])
		}
		key := "key-matrix:" + cls
		for _, p := range got {
			if p[0] == "XR" || p[1] == "XR" {
				key = "keys-open-for-adversary-" + w.adv + ":" + cls
			}
		}
		res.Mismatch(key,
			fmt.Sprintf("after %s on %s: sending keys open with receiving keys of %v, specification %v", e.label(), c.name, got, dst.Obs.Keq),
			map[string]any{"graph": g.Name, "combo": c.name, "vc": w.vc, "adversary": w.adv, "behaviour": w.log})
	}
}
