package cert

// C03 — every issued certificate decodes back to itself.  Binding of spec/CertCodec.tla
// (structural rule Shape, guard of Sign and of Decode) to TBSCertificate.Sign, Marshal, MarshalPEM,
// MarshalForHandshakes, UnmarshalCertificateFromPEM and Recombine.
//
//  V: every abstract TBS shape enumerated by TLC is concretised and handed to the real Sign; if it
//     signs, the standard, PEM and handshake encodings are decoded by the real decoders and compared
//     field by field and by fingerprint (Signed => decodes back).  The same content is also
//     HAND-ENCODED (own DER / protobuf writer, no Sign involved) and given to the decoders: whatever
//     a decoder accepts the signer must accept (Decoded => Shape).
//     The size rule is swept byte by byte: for every exact length around MaxCertificateSize a certificate with a
//     tuned filler group (fixed-length signatures) must be refused by Sign or decode back; Shape says which.
//  T: seeded random TBS certificates (long names, dozens of networks and groups, odd validity) go
//     through the same two checks; each is projected onto the abstract shape and logged, and TLC
//     validates the log against Rel3 / Shape (Trace_CertCodec.tla).
//  Signer and decoder agreeing with each other but not with Shape is reported as drift of the
//  specification (no verdict), never as a violation.

import (
	"bytes"
	"crypto/ecdsa"
	"crypto/elliptic"
	crand "crypto/rand"
	"crypto/sha256"
	"encoding/json"
	"fmt"
	"math/rand"
	"net/netip"
	"runtime"
	"slices"
	"strings"
	"sync"
	"testing"
	"testing/cryptotest"
	"time"
	"unicode/utf8"

	"github.com/slackhq/nebula/cert/p256"
	"google.golang.org/protobuf/encoding/protowire"
)

type c03Str struct {
	Len int  `json:"len"`
	Utf bool `json:"utf"`
}
type c03Tok struct {
	Fam  int  `json:"fam"`
	Zero bool `json:"zero"`
	Id   int  `json:"id"`
}
type c03Shape struct {
	Ver    int      `json:"ver"`
	Curve  string   `json:"curve"`
	Ca     bool     `json:"ca"`
	Key    bool     `json:"key"`
	Name   c03Str   `json:"name"`
	Groups []c03Str `json:"groups"`
	Nets   []c03Tok `json:"nets"`
	Unsafe []c03Tok `json:"unsafe"`
	Size   int      `json:"size,omitempty"` // boundary vectors only: exact length of the standard encoding
}
type c03Vec struct {
	In  c03Shape `json:"in"`
	Exp struct {
		Ok  bool   `json:"ok"`
		Why string `json:"why"`
	} `json:"exp"`
}

// concrete content of one TBS certificate
type c03Net struct {
	p   netip.Prefix
	bad bool // not a prefix at all
}
type c03Conc struct {
	ver          Version
	curve        Curve
	ca           bool
	key          []byte
	name         []byte
	groups       [][]byte
	nets, unsafe []c03Net
	nb, na       time.Time
	label        string // class of the input, for mismatch keys only
	sigLen       int    // boundary vectors: every signature has exactly this many bytes, so sizes are exact (0: whatever Sign makes)
}

// the lattice tokens of CertCodec.tla (id = rank in (address, bits) order)
var c03Table = map[int]c03Net{
	0: {p: netip.MustParsePrefix("0.0.0.0/8")}, 1: {p: netip.MustParsePrefix("10.1.1.1/16")}, 2: {p: netip.MustParsePrefix("10.1.1.1/24")},
	3: {p: netip.MustParsePrefix("10.2.0.0/16")}, 4: {p: netip.MustParsePrefix("::/64")}, 5: {p: netip.MustParsePrefix("::ffff:10.9.9.9/120")},
	6: {p: netip.MustParsePrefix("fd00::1/64")}, 7: {p: netip.MustParsePrefix("fd00:1::/48")}, 8: {bad: true},
}

func c03Project(n c03Net, id int) c03Tok {
	switch a := n.p.Addr(); {
	case n.bad || !n.p.IsValid():
		return c03Tok{Fam: 0, Id: id}
	case a.Is4():
		return c03Tok{Fam: 4, Zero: a.IsUnspecified(), Id: id}
	case a.Is4In6():
		return c03Tok{Fam: 46, Zero: a.IsUnspecified(), Id: id}
	default:
		return c03Tok{Fam: 6, Zero: a.IsUnspecified(), Id: id}
	}
}

func c03Cmp(a, b netip.Prefix) int {
	if c := a.Addr().Compare(b.Addr()); c != 0 {
		return c
	}
	return a.Bits() - b.Bits()
}

// c03ProjectList: tokens with id = rank among the distinct valid prefixes of the list (invalid: id 0).
func c03ProjectList(ns []c03Net) []c03Tok {
	var ps []netip.Prefix
	for _, n := range ns {
		if !n.bad && n.p.IsValid() {
			ps = append(ps, n.p)
		}
	}
	slices.SortFunc(ps, c03Cmp)
	ps = slices.Compact(ps)
	out := []c03Tok{}
	for _, n := range ns {
		id := 0
		if !n.bad && n.p.IsValid() {
			id, _ = slices.BinarySearchFunc(ps, n.p, c03Cmp)
			id++
		}
		out = append(out, c03Project(n, id))
	}
	return out
}

func c03MkStr(s c03Str, salt int) []byte {
	b := make([]byte, s.Len)
	for i := range b {
		b[i] = byte('a' + (i*7+salt)%26)
	}
	if !s.Utf {
		if s.Len == 0 {
			panic("verif: an empty string is valid UTF-8")
		}
		b[s.Len/2] = 0xff
	}
	return b
}

func c03ProjectStr(b []byte) c03Str { return c03Str{Len: len(b), Utf: utf8.Valid(b)} }

func (c *c03Conc) project() c03Shape {
	s := c03Shape{Ver: int(c.ver), Curve: certcodecCurveName(c.curve), Ca: c.ca, Key: len(c.key) > 0, Name: c03ProjectStr(c.name), Groups: []c03Str{}}
	for _, g := range c.groups {
		s.Groups = append(s.Groups, c03ProjectStr(g))
	}
	s.Nets, s.Unsafe = c03ProjectList(c.nets), c03ProjectList(c.unsafe)
	return s
}

type c03Keys struct {
	ca      map[Version]map[Curve]*certcodecCA
	host    map[Curve][]byte
	caPub   map[Curve][]byte
	caPriv  map[Curve][]byte
	nb, na  int64
	issuerB []byte
}

func c03NewKeys(rnd *rand.Rand) *c03Keys {
	k := &c03Keys{ca: map[Version]map[Curve]*certcodecCA{}, host: map[Curve][]byte{}, caPub: map[Curve][]byte{}, caPriv: map[Curve][]byte{},
		nb: -(1 << 50), na: 1 << 50}
	for _, curve := range []Curve{Curve_CURVE25519, Curve_P256} {
		k.caPub[curve], k.caPriv[curve] = certcodecSignKey(rnd, curve)
		k.host[curve] = certcodecHostKey(rnd, curve)
	}
	for _, ver := range []Version{Version1, Version2} {
		k.ca[ver] = map[Curve]*certcodecCA{}
		for _, curve := range []Curve{Curve_CURVE25519, Curve_P256} {
			// unconstrained and valid for ever: nothing but the structural rules can make Sign refuse
			k.ca[ver][curve] = certcodecNewCA(ver, curve, "verif ca", k.caPub[curve], k.caPriv[curve], k.nb, k.na)
		}
	}
	k.issuerB = bytes.Repeat([]byte{0x5a}, 32)
	return k
}

func (k *c03Keys) concretise(s c03Shape, t testing.TB) *c03Conc {
	c := &c03Conc{ver: Version(s.Ver), curve: certcodecCurve(s.Curve), ca: s.Ca, name: c03MkStr(s.Name, 0),
		nb: time.Unix(certcodecT0-500, 0), na: time.Unix(certcodecT0+500, 0)}
	if s.Key {
		if s.Ca {
			c.key = k.caPub[c.curve]
		} else {
			c.key = k.host[c.curve]
		}
	}
	for _, g := range s.Groups {
		c.groups = append(c.groups, c03MkStr(g, 3))
	}
	conv := func(ts []c03Tok) []c03Net {
		var out []c03Net
		for _, tk := range ts {
			n, ok := c03Table[tk.Id]
			if !ok || c03Project(n, tk.Id) != tk {
				t.Fatalf("verif: lattice token %+v has no concrete prefix", tk)
			}
			out = append(out, n)
		}
		return out
	}
	c.nets, c.unsafe = conv(s.Nets), conv(s.Unsafe)
	return c
}

func c03Prefixes(ns []c03Net) []netip.Prefix {
	var out []netip.Prefix
	for _, n := range ns {
		if n.bad {
			out = append(out, netip.Prefix{})
		} else {
			out = append(out, n.p)
		}
	}
	return out
}

func c03SameBag(a, b []netip.Prefix) bool {
	x, y := slices.Clone(a), slices.Clone(b)
	slices.SortFunc(x, c03Cmp)
	slices.SortFunc(y, c03Cmp)
	return slices.Equal(x, y)
}

// sign hands the content to the real signing API.
func (k *c03Keys) sign(c *c03Conc) (Certificate, error) {
	tbs := &TBSCertificate{Version: c.ver, Curve: c.curve, Name: string(c.name), IsCA: c.ca, NotBefore: c.nb, NotAfter: c.na,
		PublicKey: c.key, Networks: c03Prefixes(c.nets), UnsafeNetworks: c03Prefixes(c.unsafe)}
	for _, g := range c.groups {
		tbs.Groups = append(tbs.Groups, string(g))
	}
	var signer Certificate
	if !c.ca {
		signer = k.ca[c.ver][c.curve].cert
	}
	if c.sigLen != 0 && c.curve == Curve_P256 {
		// the same path as Sign (Sign is SignWith + this lambda), retried until the low-S DER signature has the wanted length
		return tbs.SignWith(signer, c.curve, func(b []byte) ([]byte, error) {
			pk, err := ecdsa.ParseRawPrivateKey(elliptic.P256(), k.caPriv[c.curve])
			if err != nil {
				return nil, err
			}
			h := sha256.Sum256(b)
			for i := 0; i < 10000; i++ {
				sig, err := ecdsa.SignASN1(crand.Reader, pk, h[:])
				if err != nil {
					return nil, err
				}
				if sig, err = p256.Normalize(sig); err == nil && len(sig) == c.sigLen {
					return sig, nil
				}
			}
			return nil, fmt.Errorf("verif: no %d-byte signature found", c.sigLen)
		})
	}
	return tbs.Sign(signer, c.curve, k.caPriv[c.curve])
}

// sizeVector builds an ordinary v2 certificate (one filler group) whose standard encoding is exactly size bytes long.
// nil: no filler length gives that size (DER length headers grow by a byte when the content passes 65535).
func (k *c03Keys) sizeVector(s c03Shape) *c03Conc {
	c := &c03Conc{ver: Version2, curve: certcodecCurve(s.Curve), ca: s.Ca, name: []byte("size.verif.example"),
		nb: time.Unix(certcodecT0-500, 0), na: time.Unix(certcodecT0+500, 0), label: "size-boundary", sigLen: 64}
	if c.curve == Curve_P256 {
		c.sigLen = 71
	}
	if s.Ca {
		c.key = k.caPub[c.curve]
	} else {
		c.key = k.host[c.curve]
		c.nets = []c03Net{c03Table[2]}
	}
	L := s.Size - 400
	for try := 0; try < 8; try++ {
		c.groups = [][]byte{[]byte("ops"), bytes.Repeat([]byte("f"), L)}
		n := len(k.handV2(c, false))
		if n == s.Size {
			return c
		}
		L += s.Size - n
	}
	return nil
}

// roundTrip: "" when all three encodings of the signed certificate decode back to it.
func c03RoundTrip(c *c03Conc, sc Certificate) string {
	// the signed object must be the content that was asked for
	var groups []string
	for _, g := range c.groups {
		groups = append(groups, string(g))
	}
	switch {
	case sc.Version() != c.ver:
		return "signed:version"
	case sc.Name() != string(c.name):
		return "signed:name"
	case !certcodecStrsEq(sc.Groups(), groups):
		return "signed:groups"
	case !c03SameBag(sc.Networks(), c03Prefixes(c.nets)):
		return "signed:nets"
	case !c03SameBag(sc.UnsafeNetworks(), c03Prefixes(c.unsafe)):
		return "signed:unsafe"
	case sc.IsCA() != c.ca || sc.Curve() != c.curve || !bytes.Equal(sc.PublicKey(), c.key):
		return "signed:isCA/curve/key"
	case sc.NotBefore().Unix() != c.nb.Unix() || sc.NotAfter().Unix() != c.na.Unix():
		return "signed:validity"
	}
	std, err := sc.Marshal()
	if err != nil {
		return "std:marshal:" + err.Error()
	}
	check := func(enc string, d Certificate, err error) string {
		if err != nil {
			return enc + ":decode:" + err.Error()
		}
		if f := certcodecSameCert(sc, d); f != "" {
			return enc + ":field:" + f
		}
		if b, err := d.Marshal(); err != nil || !bytes.Equal(b, std) {
			return enc + ":re-encode"
		}
		return ""
	}
	d, err := certcodecDecodeStd(certcodecBanner(c.ver), std)
	if w := check("std", d, err); w != "" {
		return w
	}
	p, err := sc.MarshalPEM()
	if err != nil {
		return "pem:marshal:" + err.Error()
	}
	d, rest, err := UnmarshalCertificateFromPEM(p)
	if w := check("pem", d, err); w != "" {
		return w
	}
	if len(rest) != 0 {
		return "pem:rest"
	}
	hs, err := sc.MarshalForHandshakes()
	if err != nil {
		return "hs:marshal:" + err.Error()
	}
	d, err = certcodecDecodeHS(c.ver, hs, sc.PublicKey(), sc.Curve())
	return check("hs", d, err)
}

// ---------------------------------------------------------------------------------------------
// hand-made encodings (no Sign, no validate)

func c03NetOctets(n c03Net) []byte {
	if n.bad {
		return []byte{1, 2, 3}
	}
	b, _ := n.p.MarshalBinary()
	return b
}

func (k *c03Keys) handV2(c *c03Conc, hs bool) []byte {
	var d []byte
	d = append(d, certcodecDER(TagDetailsName, c.name)...)
	list := func(tag byte, ns []c03Net) {
		if len(ns) == 0 {
			return
		}
		var b []byte
		for _, n := range ns {
			b = append(b, certcodecDER(0x04, c03NetOctets(n))...)
		}
		d = append(d, certcodecDER(tag, b)...)
	}
	list(TagDetailsNetworks, c.nets)
	list(TagDetailsUnsafeNetworks, c.unsafe)
	if len(c.groups) > 0 {
		var b []byte
		for _, g := range c.groups {
			b = append(b, certcodecDER(0x0c, g)...)
		}
		d = append(d, certcodecDER(TagDetailsGroups, b)...)
	}
	if c.ca {
		d = append(d, certcodecDER(TagDetailsIsCA, []byte{0xff})...)
	}
	d = append(d, certcodecDER(TagDetailsNotBefore, certcodecDERInt(c.nb.Unix()))...)
	d = append(d, certcodecDER(TagDetailsNotAfter, certcodecDERInt(c.na.Unix()))...)
	if !c.ca {
		d = append(d, certcodecDER(TagDetailsIssuer, k.issuerB)...)
	}
	out := certcodecDER(TagCertDetails, d)
	if !hs {
		if c.curve != Curve_CURVE25519 {
			out = append(out, certcodecDER(TagCertCurve, []byte{byte(c.curve)})...)
		}
		if len(c.key) > 0 {
			out = append(out, certcodecDER(TagCertPublicKey, c.key)...)
		}
	}
	sl := 64
	if c.sigLen != 0 {
		sl = c.sigLen
	}
	out = append(out, certcodecDER(TagCertSignature, bytes.Repeat([]byte{7}, sl))...)
	return certcodecDER(0x30, out)
}

// handV1: ok=false when the content has no v1 encoding at all (IPv6 in a uint32 list).
func (k *c03Keys) handV1(c *c03Conc, hs bool) ([]byte, bool) {
	var d []byte
	if len(c.name) > 0 {
		d = protowire.AppendBytes(protowire.AppendTag(d, 1, protowire.BytesType), c.name)
	}
	list := func(num protowire.Number, ns []c03Net) bool {
		if len(ns) == 0 {
			return true
		}
		var b []byte
		for _, n := range ns {
			if n.bad {
				b = protowire.AppendVarint(b, 7) // a lone value: not an (address, mask) pair
				continue
			}
			if !n.p.Addr().Is4() {
				return false
			}
			a := n.p.Addr().As4()
			b = protowire.AppendVarint(b, uint64(a[0])<<24|uint64(a[1])<<16|uint64(a[2])<<8|uint64(a[3]))
			b = protowire.AppendVarint(b, uint64(0xffffffff)<<(32-n.p.Bits())&0xffffffff)
		}
		d = protowire.AppendBytes(protowire.AppendTag(d, num, protowire.BytesType), b)
		return true
	}
	if !list(2, c.nets) || !list(3, c.unsafe) {
		return nil, false
	}
	for _, g := range c.groups {
		d = protowire.AppendBytes(protowire.AppendTag(d, 4, protowire.BytesType), g)
	}
	d = protowire.AppendVarint(protowire.AppendTag(d, 5, protowire.VarintType), uint64(c.nb.Unix()))
	d = protowire.AppendVarint(protowire.AppendTag(d, 6, protowire.VarintType), uint64(c.na.Unix()))
	if !hs && len(c.key) > 0 {
		d = protowire.AppendBytes(protowire.AppendTag(d, 7, protowire.BytesType), c.key)
	}
	if c.ca {
		d = protowire.AppendVarint(protowire.AppendTag(d, 8, protowire.VarintType), 1)
	} else {
		d = protowire.AppendBytes(protowire.AppendTag(d, 9, protowire.BytesType), k.issuerB)
	}
	if c.curve != Curve_CURVE25519 {
		d = protowire.AppendVarint(protowire.AppendTag(d, 100, protowire.VarintType), uint64(c.curve))
	}
	out := protowire.AppendBytes(protowire.AppendTag(nil, 1, protowire.BytesType), d)
	out = protowire.AppendBytes(protowire.AppendTag(out, 2, protowire.BytesType), bytes.Repeat([]byte{7}, 64))
	return out, true
}

type c03Out struct {
	signOK   bool
	signErr  string
	rt       string // "" = round trip fine (only when signOK)
	hasDec   bool   // a hand-made encoding exists
	decStd   bool
	decHS    bool
	decErr   string
	panicked string
	stdLen   int // length of the standard encoding of the signed certificate
}

func (o *c03Out) dec() bool { return o.decStd || o.decHS }

// run performs both halves of the property on one content.
func (k *c03Keys) run(c *c03Conc) c03Out {
	var o c03Out
	func() {
		defer func() {
			if r := recover(); r != nil {
				o.panicked = fmt.Sprintf("Sign/Marshal panicked: %v", r)
			}
		}()
		sc, err := k.sign(c)
		if err != nil {
			o.signErr = err.Error()
			return
		}
		o.signOK = true
		if b, err := sc.Marshal(); err == nil {
			o.stdLen = len(b)
		}
		o.rt = c03RoundTrip(c, sc)
	}()
	var std, hs []byte
	if c.ver == Version2 {
		std, hs, o.hasDec = k.handV2(c, false), k.handV2(c, true), true
	} else if std, o.hasDec = k.handV1(c, false); o.hasDec {
		hs, _ = k.handV1(c, true)
	}
	if o.hasDec {
		d, err := certcodecDecodeStd(certcodecBanner(c.ver), std)
		o.decStd = err == nil && d != nil
		if err != nil {
			o.decErr = err.Error()
		}
		if certcodecIsPanic(err) {
			o.panicked = err.Error()
		}
		// size vectors: the limit is a rule about the standard encoding; the handshake form of the same content is a
		// shorter byte string and may still be readable a few bytes above it
		if len(c.key) > 0 && c.sigLen == 0 {
			d, err = certcodecDecodeHS(c.ver, hs, c.key, c.curve)
			o.decHS = err == nil && d != nil
			if certcodecIsPanic(err) {
				o.panicked = err.Error()
			}
		}
	}
	return o
}

// ---------------------------------------------------------------------------------------------
// seeded random contents (T)

func c03RandStr(rnd *rand.Rand, n int, mode int) []byte {
	b := make([]byte, 0, n)
	for len(b) < n {
		switch {
		case mode == 1 && n-len(b) >= 3 && rnd.Intn(4) == 0: // multi-byte runes
			b = utf8.AppendRune(b, rune(0x800+rnd.Intn(0x4000)))
		case mode == 2: // arbitrary bytes
			b = append(b, byte(rnd.Intn(256)))
		default:
			b = append(b, byte(0x20+rnd.Intn(0x5f)))
		}
	}
	return b[:n]
}

func c03RandPrefix(rnd *rand.Rand, v6 bool) netip.Prefix {
	if v6 {
		var a [16]byte
		copy(a[:], certcodecBytes(rnd, 16))
		a[0] = 0xfd // never 4in6, never unspecified
		return netip.PrefixFrom(netip.AddrFrom16(a), rnd.Intn(129))
	}
	var a [4]byte
	copy(a[:], certcodecBytes(rnd, 4))
	a[0] = byte(1 + rnd.Intn(223))
	return netip.PrefixFrom(netip.AddrFrom4(a), rnd.Intn(33))
}

func (k *c03Keys) random(rnd *rand.Rand) *c03Conc {
	c := &c03Conc{ver: Version(1 + rnd.Intn(2)), curve: Curve(rnd.Intn(2)), ca: rnd.Intn(4) == 0, label: "ok"}
	v2 := c.ver == Version2
	if c.ca {
		c.key = k.caPub[c.curve]
	} else {
		c.key = k.host[c.curve]
	}
	mode := rnd.Intn(2)
	nameLen := 1 + rnd.Intn(40)
	if rnd.Intn(4) == 0 {
		nameLen = 1 + rnd.Intn(253)
	}
	c.name = c03RandStr(rnd, nameLen, mode)
	for i, n := 0, rnd.Intn(31); i < n && rnd.Intn(5) != 0; i++ {
		c.groups = append(c.groups, c03RandStr(rnd, 1+rnd.Intn(30), mode))
	}
	has4, has6 := false, false
	nn := rnd.Intn(41)
	if !c.ca && nn == 0 {
		nn = 1
	}
	for i := 0; i < nn; i++ {
		v6 := v2 && rnd.Intn(2) == 0
		c.nets = append(c.nets, c03Net{p: c03RandPrefix(rnd, v6)})
		has4, has6 = has4 || !v6, has6 || v6
	}
	for i, n := 0, rnd.Intn(31); i < n && rnd.Intn(3) != 0; i++ {
		v6 := v2 && rnd.Intn(2) == 0
		if !c.ca && ((v6 && !has6) || (!v6 && !has4)) {
			v6 = !v6
		}
		if v6 && !v2 {
			continue
		}
		c.unsafe = append(c.unsafe, c03Net{p: c03RandPrefix(rnd, v6)})
	}
	lim := int64(1) << 45
	c.nb = time.Unix(rnd.Int63n(2*lim)-lim, int64(rnd.Intn(1e9)))
	c.na = time.Unix(rnd.Int63n(2*lim)-lim, int64(rnd.Intn(1e9)))
	// at most one unusual feature per certificate, named like the rule of CertCodec.tla it is about
	switch rnd.Intn(40) {
	case 0:
		c.name, c.label = nil, "name:empty"
	case 1:
		c.name, c.label = c03RandStr(rnd, 254+rnd.Intn(400), mode), "name:long"
	case 2:
		c.groups, c.label = slices.Insert(c.groups, rnd.Intn(len(c.groups)+1), []byte{}), "group:empty"
	case 3:
		if len(c.nets) > 0 {
			c.nets, c.label = append(c.nets, c.nets[rnd.Intn(len(c.nets))]), "nets:dup"
		}
	case 4:
		c.nets, c.label = append(c.nets, c03Net{p: netip.PrefixFrom(netip.IPv4Unspecified(), rnd.Intn(33))}), "nets:zero"
	case 5:
		c.nets, c.label = append(c.nets, c03Table[5]), "nets:4in6"
	case 6:
		c.nets, c.label = append(c.nets, c03Net{bad: true}), "nets:invalid"
	case 7:
		if len(c.unsafe) > 0 {
			c.unsafe, c.label = append(c.unsafe, c.unsafe[0]), "unsafe:dup"
		}
	case 8:
		c.unsafe, c.label = append(c.unsafe, c03Net{bad: true}), "unsafe:invalid"
	case 9:
		if !c.ca && v2 && !has6 {
			c.unsafe, c.label = append(c.unsafe, c03Net{p: c03RandPrefix(rnd, true)}), "unsafe:v6-without-v6"
		} else if !c.ca && v2 && !has4 {
			c.unsafe, c.label = append(c.unsafe, c03Net{p: c03RandPrefix(rnd, false)}), "unsafe:v4-without-v4"
		}
	case 10:
		c.key, c.label = nil, "key:empty"
	case 11:
		c.name, c.label = c03RandStr(rnd, 1+rnd.Intn(60), 2), "name:bytes"
	case 12:
		if !v2 {
			c.nets, c.label = append(c.nets, c03Net{p: c03RandPrefix(rnd, true)}), "nets:v6-in-v1"
		}
	case 13:
		if rnd.Intn(8) == 0 {
			c.groups, c.label = append(c.groups, bytes.Repeat([]byte("g"), 66000)), "size"
		}
	}
	return c
}

// ---------------------------------------------------------------------------------------------

func TestVerif_C03(t *testing.T) {
	res := vNewResult()
	defer res.Write(t)
	cryptotest.SetGlobalRandom(t, uint64(vSeed()))
	rnd := vRand()
	keys := c03NewKeys(rnd)
	tr := vNewTracer(t, "c03_obs.ndjson")
	defer tr.Close()

	var mu sync.Mutex
	drift := []map[string]any{}
	judge := func(c *c03Conc, o c03Out, expOk *bool, detail any) {
		ver := fmt.Sprintf("v%d", c.ver)
		if o.panicked != "" {
			res.Mismatch("panic:"+ver+":"+c.label, o.panicked, detail)
		}
		// Signed(c) => Decode(Encode_e(c)) = c
		if o.signOK && o.rt != "" {
			enc := o.rt[:strings.IndexByte(o.rt+":", ':')]
			res.Mismatch("roundtrip:"+ver+":"+c.label, fmt.Sprintf("Sign accepted the certificate (name %d bytes, %d groups, %d networks, %d unsafe networks, ca=%v) "+
				"but its %s encoding does not decode back to it: %s", len(c.name), len(c.groups), len(c.nets), len(c.unsafe), c.ca, enc, o.rt), detail)
		}
		// Decoded(c) => Shape(c): the rule the signer enforces
		if o.dec() && !o.signOK {
			which := "std"
			if !o.decStd {
				which = "hs"
			}
			res.Mismatch("decoder-accepts-unsignable:"+ver+":"+c.label, fmt.Sprintf("a %s encoding of this content is accepted by the decoder "+
				"but Sign refuses it: %s", which, o.signErr), detail)
		}
		if expOk != nil {
			consistent := (!o.signOK || o.rt == "") && (!o.dec() || o.signOK)
			if consistent && o.signOK != *expOk && (!o.hasDec || o.dec() == o.signOK) {
				mu.Lock()
				if len(drift) < 10 {
					drift = append(drift, map[string]any{"input": detail, "sign": o.signOK, "signErr": o.signErr, "dec": o.dec(), "decErr": o.decErr, "shape": *expOk})
				}
				mu.Unlock()
				res.Hit("drift")
			}
		}
		if o.signOK {
			res.Hit("sign:ok")
		} else {
			res.Hit("sign:refused")
		}
		if o.hasDec {
			if o.dec() {
				res.Hit("hand:decoded")
			} else {
				res.Hit("hand:refused")
			}
		} else {
			res.Hit("hand:unencodable")
		}
	}

	// ------------------------------------------------------------------ V
	var vecs []c03Vec
	vReadNDJSON(t, "c03_vectors.ndjson", func(line []byte) {
		var v c03Vec
		if err := json.Unmarshal(line, &v); err != nil {
			t.Fatalf("vector: %v: %s", err, line)
		}
		vecs = append(vecs, v)
	})
	var wg sync.WaitGroup
	idx := make(chan int, 256)
	for w := 0; w < runtime.NumCPU(); w++ {
		wg.Add(1)
		go func() {
			defer wg.Done()
			for i := range idx {
				v := &vecs[i]
				b, _ := json.Marshal(v.In)
				var c *c03Conc
				if v.In.Size != 0 {
					if c = keys.sizeVector(v.In); c == nil {
						res.Hit("V:size-boundary:unreachable")
						continue
					}
				} else {
					c = keys.concretise(v.In, t)
					c.label = v.Exp.Why
					if c.label == "" {
						c.label = "ok"
					}
				}
				o := keys.run(c)
				res.Case(string(b))
				if v.In.Size != 0 {
					// the vector is about an exact size: what Sign issued must have it
					if o.signOK && o.stdLen != v.In.Size {
						t.Errorf("verif: size vector %s: the signed certificate is %d bytes long", b, o.stdLen)
					}
					if o.signOK {
						res.Hit("V:size-boundary:signed")
					} else {
						res.Hit("V:size-boundary:refused")
					}
				} else {
					res.Hit("V:shape:" + c.label)
				}
				judge(c, o, &v.Exp.Ok, map[string]any{"shape": v.In, "spec": v.Exp, "sign_error": o.signErr, "roundtrip": o.rt, "hand_decoded": o.dec(), "hand_error": o.decErr})
				if i%4000 == 7 {
					res.Sample(map[string]any{"shape": v.In, "spec": v.Exp, "sign": o.signOK, "roundtrip": o.rt, "hand_decoded": o.dec()})
				}
			}
		}()
	}
	for i := range vecs {
		idx <- i
	}
	close(idx)
	wg.Wait()

	// ------------------------------------------------------------------ T
	n := 4000
	if !vQuick() {
		n = 60000
	}
	// contents are drawn sequentially from the seeded source, executed in parallel, logged in order
	concs := make([]*c03Conc, n)
	for i := range concs {
		concs[i] = keys.random(rnd)
	}
	outs := make([]c03Out, n)
	idx = make(chan int, 256)
	for w := 0; w < runtime.NumCPU(); w++ {
		wg.Add(1)
		go func() {
			defer wg.Done()
			for i := range idx {
				outs[i] = keys.run(concs[i])
			}
		}()
	}
	for i := range concs {
		idx <- i
	}
	close(idx)
	wg.Wait()
	tr.Event(map[string]any{"ev": "reset"})
	for i, c := range concs {
		o := outs[i]
		sh := c.project()
		detail := map[string]any{"random": i, "label": c.label, "projection": sh, "name_hex": fmt.Sprintf("%x", c.name), "sign_error": o.signErr,
			"roundtrip": o.rt, "hand_decoded": o.dec(), "hand_error": o.decErr}
		judge(c, o, nil, detail)
		res.Case(fmt.Sprintf("rand%d", i))
		res.Hit("T:" + c.label)
		tr.Event(map[string]any{"ev": "obs3", "i": i, "label": c.label, "t": sh, "sign": o.signOK, "rt": o.signOK && o.rt == "", "dec": o.dec(), "hasdec": o.hasDec})
	}
	res.Traces = n
	res.Extra["drift"] = drift
	res.Extra["random"] = n
}
