package cert

// Shared by C01 and C04: concretisation of the abstract values of spec/CertTrust.tla into real keys,
// real CA certificates, real (v1/v2, Curve25519/P-256) certificates and real CA pools.
//
// Nothing in here decides anything: certificates are built field by field from the abstract record,
// signed with the issuer's real key *without* going through TBSCertificate.SignWith (so certificates
// outside their CA's constraints exist), encoded and decoded again with the real decoders (the object
// handed to the verifier is what a peer would present).  S forms of ECDSA signatures are handled with
// math/big here, not with cert/p256.

import (
	"sync/atomic"
	"crypto/ecdsa"
	"crypto/ed25519"
	"crypto/elliptic"
	crand "crypto/rand"
	"crypto/sha256"
	"encoding/asn1"
	"encoding/hex"
	"errors"
	"fmt"
	"math/big"
	"math/rand"
	"net/netip"
	"sort"
	"sync"
	"time"
)

type ctPrefix struct {
	F int `json:"f"`
	A int `json:"a"`
	B int `json:"b"`
}

type ctCA struct {
	Id     string     `json:"id"`
	Gen    int        `json:"gen"`
	Ver    int        `json:"ver"`
	Curve  string     `json:"curve"`
	Nb     int        `json:"nb"`
	Na     int        `json:"na"`
	Groups []string   `json:"groups"`
	Nets   []ctPrefix `json:"nets"`
	Unsafe []ctPrefix `json:"unsafe"`
}

type ctCert struct {
	Ver    int        `json:"ver"`
	Curve  string     `json:"curve"`
	IsCA   bool       `json:"isCA"`
	Nb     int        `json:"nb"`
	Na     int        `json:"na"`
	Groups []string   `json:"groups"`
	Nets   []ctPrefix `json:"nets"`
	Unsafe []ctPrefix `json:"unsafe"`
	Issuer ctCA       `json:"issuer"`
	Sig    string     `json:"sig"`
	Badf   string     `json:"badf"`
}

type ctEntry struct {
	Key ctCA `json:"key"`
	Ca  ctCA `json:"ca"`
}

func (a ctCA) none() bool  { return a.Id == "none" }
func (a ctCA) key() string { return fmt.Sprintf("%+v", a) }

func ctCurve(s string) Curve {
	switch s {
	case "x25519":
		return Curve_CURVE25519
	case "p256":
		return Curve_P256
	}
	panic("verif: unknown abstract curve " + s)
}

// ---------------------------------------------------------------- signatures in both S forms

type ctECSig struct{ R, S *big.Int }

var ctN = elliptic.P256().Params().N
var ctHalfN = new(big.Int).Rsh(ctN, 1)

func ctSplitSig(sig []byte) (ctECSig, error) {
	var v ctECSig
	rest, err := asn1.Unmarshal(sig, &v)
	if err != nil {
		return v, err
	}
	if len(rest) != 0 || v.R == nil || v.S == nil {
		return v, errors.New("trailing bytes in ECDSA signature")
	}
	return v, nil
}

func ctIsLowS(sig []byte) (bool, error) {
	v, err := ctSplitSig(sig)
	if err != nil {
		return false, err
	}
	return v.S.Cmp(ctHalfN) <= 0, nil
}

// ctForceS returns the signature in low-S (high=false) or high-S (high=true) form.
func ctForceS(sig []byte, high bool) []byte {
	v, err := ctSplitSig(sig)
	if err != nil {
		panic(err)
	}
	if (v.S.Cmp(ctHalfN) > 0) != high {
		v.S = new(big.Int).Sub(ctN, v.S)
	}
	out, err := asn1.Marshal(v)
	if err != nil {
		panic(err)
	}
	return out
}

// ---------------------------------------------------------------- keys

type ctKey struct {
	curve Curve
	pub   []byte // as stored in a CA certificate
	raw   []byte // as TBSCertificate.Sign expects it
	ed    ed25519.PrivateKey
	ec    *ecdsa.PrivateKey
}

func ctNewKey(curve Curve) *ctKey {
	switch curve {
	case Curve_CURVE25519:
		pub, priv, err := ed25519.GenerateKey(crand.Reader)
		if err != nil {
			panic(err)
		}
		return &ctKey{curve: curve, pub: pub, raw: priv, ed: priv}
	case Curve_P256:
		k, err := ecdsa.GenerateKey(elliptic.P256(), crand.Reader)
		if err != nil {
			panic(err)
		}
		ek, err := k.ECDH()
		if err != nil {
			panic(err)
		}
		return &ctKey{curve: curve, pub: ek.PublicKey().Bytes(), raw: ek.Bytes(), ec: k}
	}
	panic("verif: curve")
}

// sign signs with the algorithm of the key (Ed25519, or ECDSA over SHA-256 in low-S form).
func (k *ctKey) sign(msg []byte) []byte {
	if k.ed != nil {
		return ed25519.Sign(k.ed, msg)
	}
	h := sha256.Sum256(msg)
	sig, err := ecdsa.SignASN1(crand.Reader, k.ec, h[:])
	if err != nil {
		panic(err)
	}
	return ctForceS(sig, false)
}

// ---------------------------------------------------------------- embedding of abstract prefixes

type ctEmbed struct {
	ab    int
	l4    []int // real prefix length for abstract length 0..ab (IPv4)
	l6    []int
	base4 [4]byte
	base6 [16]byte
}

var ctEmbeds3 = []ctEmbed{
	{3, []int{8, 16, 24, 32}, []int{8, 32, 64, 128}, [4]byte{10}, [16]byte{0xfd}},
	{3, []int{7, 13, 22, 32}, []int{16, 48, 56, 64}, [4]byte{10}, [16]byte{0xfd, 0x42}},
	{3, []int{16, 20, 28, 31}, []int{7, 10, 100, 127}, [4]byte{172, 16}, [16]byte{0xfc}},
	{3, []int{8, 9, 10, 11}, []int{64, 65, 66, 67}, [4]byte{100}, [16]byte{0x20, 0x01, 0x0d, 0xb8, 0, 0, 0, 1}},
}

// ctEmbedWide: abstract bit i is real bit off+i (contiguous), for the random driver (ab up to 16).
func ctEmbedWide(ab int) ctEmbed {
	e := ctEmbed{ab: ab, base4: [4]byte{10, 77}, base6: [16]byte{0xfd, 0, 0, 0, 0, 0, 0, 0x99}}
	for i := 0; i <= ab; i++ {
		e.l4 = append(e.l4, 16+i)
		e.l6 = append(e.l6, 64+i)
	}
	return e
}

func (e ctEmbed) prefix(p ctPrefix) netip.Prefix {
	if p.B < 0 || p.B > e.ab || p.A < 0 || p.A >= 1<<e.ab {
		panic(fmt.Sprintf("verif: abstract prefix out of range: %+v", p))
	}
	set := func(b []byte, l []int) {
		for i := 1; i <= e.ab; i++ {
			if p.A>>(e.ab-i)&1 == 1 {
				pos := l[i] - 1 // 0-based bit position from the most significant bit
				b[pos/8] |= 0x80 >> (pos % 8)
			}
		}
	}
	switch p.F {
	case 4:
		b := e.base4
		set(b[:], e.l4)
		return netip.PrefixFrom(netip.AddrFrom4(b), e.l4[p.B])
	case 6:
		b := e.base6
		set(b[:], e.l6)
		return netip.PrefixFrom(netip.AddrFrom16(b), e.l6[p.B])
	}
	panic("verif: family")
}

func (e ctEmbed) prefixes(ps []ctPrefix) []netip.Prefix {
	var out []netip.Prefix
	for _, p := range ps {
		out = append(out, e.prefix(p))
	}
	sort.Slice(out, func(i, j int) bool { return comparePrefix(out[i], out[j]) < 0 })
	return out
}

// ---------------------------------------------------------------- the world of one run

type ctRealCA struct {
	abs  ctCA
	cert Certificate
	key  *ctKey
	fp   string
	pem  string
}

type ctWorld struct {
	mu   sync.Mutex
	base int64
	emb  ctEmbed
	keys map[string]*ctKey
	cas  map[string]*ctRealCA
	leaf map[Curve][2][]byte // two public keys per curve for leaf certificates
}

func ctNewWorld(base int64, emb ctEmbed) *ctWorld {
	w := &ctWorld{base: base, emb: emb, keys: map[string]*ctKey{}, cas: map[string]*ctRealCA{}, leaf: map[Curve][2][]byte{}}
	x1, _ := X25519Keypair()
	x2, _ := X25519Keypair()
	p1, _ := P256Keypair()
	p2, _ := P256Keypair()
	w.leaf[Curve_CURVE25519] = [2][]byte{x1, x2}
	w.leaf[Curve_P256] = [2][]byte{p1, p2}
	return w
}

func (w *ctWorld) at(t int) time.Time { return time.Unix(w.base+int64(t), 0) }

// keyOf: the key pair named (id, curve).
func (w *ctWorld) keyOf(id string, curve Curve) *ctKey {
	w.mu.Lock()
	defer w.mu.Unlock()
	n := fmt.Sprintf("%s/%d", id, curve)
	k := w.keys[n]
	if k == nil {
		k = ctNewKey(curve)
		w.keys[n] = k
	}
	return k
}

// ca returns the real CA certificate of an abstract CA (self-signed through the real TBSCertificate.Sign).
func (w *ctWorld) ca(a ctCA) *ctRealCA {
	id := a.key()
	w.mu.Lock()
	r := w.cas[id]
	w.mu.Unlock()
	if r != nil {
		return r
	}
	curve := ctCurve(a.Curve)
	k := w.keyOf(a.Id, curve)
	tbs := &TBSCertificate{
		Version:        Version(a.Ver),
		Name:           fmt.Sprintf("%s-g%d", a.Id, a.Gen),
		Networks:       w.emb.prefixes(a.Nets),
		UnsafeNetworks: w.emb.prefixes(a.Unsafe),
		Groups:         append([]string(nil), a.Groups...),
		IsCA:           true,
		NotBefore:      w.at(a.Nb),
		NotAfter:       w.at(a.Na),
		PublicKey:      k.pub,
		Curve:          curve,
	}
	c, err := tbs.Sign(nil, curve, k.raw)
	if err != nil {
		panic(fmt.Sprintf("verif: cannot build CA %+v: %v", a, err))
	}
	c = ctRecode(c)
	fp, err := c.Fingerprint()
	if err != nil {
		panic(err)
	}
	p, _ := c.MarshalPEM()
	r = &ctRealCA{abs: a, cert: c, key: k, fp: fp, pem: string(p)}
	w.mu.Lock()
	if old := w.cas[id]; old != nil {
		r = old
	} else {
		w.cas[id] = r
	}
	w.mu.Unlock()
	return r
}

// ctRecode encodes and decodes a certificate with the real codec (PEM).
func ctRecode(c Certificate) Certificate {
	p, err := c.MarshalPEM()
	if err != nil {
		panic(fmt.Sprintf("verif: marshal: %v", err))
	}
	d, rest, err := UnmarshalCertificateFromPEM(p)
	if err != nil || len(rest) != 0 {
		panic(fmt.Sprintf("verif: a concretised certificate does not decode: %v\n%s", err, p))
	}
	return d
}

type ctFields struct {
	ver       int
	curve     Curve
	name      string
	nets, uns []netip.Prefix
	groups    []string
	nb, na    time.Time
	pub       []byte
	isCA      bool
	issuer    string
}

// ctRaw builds the unsigned certificate object directly (no SignWith) and returns it with the bytes to be signed.
func ctRaw(f ctFields) (beingSignedCertificate, []byte) {
	var c beingSignedCertificate
	switch f.ver {
	case 1:
		c = &certificateV1{details: detailsV1{name: f.name, networks: f.nets, unsafeNetworks: f.uns, groups: f.groups,
			notBefore: f.nb, notAfter: f.na, publicKey: f.pub, isCA: f.isCA, issuer: f.issuer, curve: f.curve}}
	case 2:
		c = &certificateV2{details: detailsV2{name: f.name, networks: f.nets, unsafeNetworks: f.uns, groups: f.groups,
			notBefore: f.nb, notAfter: f.na, isCA: f.isCA, issuer: f.issuer}, curve: f.curve, publicKey: f.pub}
	default:
		panic("verif: version")
	}
	b, err := c.marshalForSigning()
	if err != nil {
		panic(fmt.Sprintf("verif: marshalForSigning: %v", err))
	}
	return c, b
}

type ctRealCert struct {
	abs   ctCert
	cert  Certificate // as presented
	other Certificate // the same certificate with the signature in the other S form (nil when there is none)
	pem   string
}

// cert concretises an abstract certificate.
func (w *ctWorld) cert(a ctCert, name string) *ctRealCert {
	curve := ctCurve(a.Curve)
	f := ctFields{ver: a.Ver, curve: curve, name: name, nets: w.emb.prefixes(a.Nets), uns: w.emb.prefixes(a.Unsafe),
		groups: append([]string(nil), a.Groups...), nb: w.at(a.Nb), na: w.at(a.Na), pub: w.leaf[curve][0], isCA: a.IsCA}
	var signer *ctKey
	if a.Issuer.none() {
		// no issuer: signed by its own key (a CA certificate presented as a peer certificate)
		signer = w.keyOf("self", curve)
		f.pub = signer.pub
	} else {
		ca := w.ca(a.Issuer)
		f.issuer = ca.fp
		signer = ca.key
	}
	if a.Sig == "wrongkey" {
		signer = w.keyOf("cax", ctCurve(a.Issuer.Curve))
	}
	c, tbs := ctRaw(f)
	if a.Sig == "bad" {
		// the signature is made over the certificate as it was before field badf was altered
		g := f
		switch a.Badf {
		case "name":
			g.name = f.name + "-before"
		case "nb":
			g.nb = f.nb.Add(-time.Second)
		case "na":
			g.na = f.na.Add(time.Second)
		case "groups":
			g.groups = append(append([]string(nil), f.groups...), "g-before")
		case "nets":
			g.nets = append([]netip.Prefix{w.emb.prefix(ctPrefix{4, (1 << w.emb.ab) - 1, w.emb.ab})}, f.nets[1:]...)
		case "unsafe":
			g.uns = append(append([]netip.Prefix(nil), f.uns...), w.emb.prefix(ctPrefix{4, (1 << w.emb.ab) - 1, w.emb.ab}))
		case "isCA":
			g.isCA = !f.isCA
		case "key":
			g.pub = w.leaf[curve][1]
		default:
			panic("verif: unknown altered field " + a.Badf)
		}
		_, tbs = ctRaw(g)
	}
	noncanon := false
	if c2, ok := c.(*certificateV2); ok && a.Sig == "good" && ctNonCanonPick(name) {
		// the issuer signed details that are not the canonical encoding of their content (an element this version does not
		// know after the known ones): the signature covers the bytes as issued, and these are the bytes presented
		c2.rawDetails = ctDetailsWithUnknown(c2.rawDetails)
		tbs = append(append(append([]byte(nil), c2.rawDetails...), byte(c2.curve)), c2.publicKey...)
		noncanon = true
	}
	sig := signer.sign(tbs)
	twin := signer.ec != nil && curve == Curve_P256
	if a.Sig == "twin" {
		if !twin {
			panic("verif: twin signature asked for a non-ECDSA signer")
		}
		sig = ctForceS(sig, true)
	}
	if err := c.setSignature(sig); err != nil {
		panic(err)
	}
	r := &ctRealCert{abs: a, cert: ctRecode(c.(Certificate))}
	p, _ := r.cert.MarshalPEM()
	r.pem = string(p)
	if twin {
		c2, _ := ctRaw(f)
		if noncanon {
			c2.(*certificateV2).rawDetails = append([]byte(nil), c.(*certificateV2).rawDetails...)
		}
		if err := c2.setSignature(ctForceS(sig, a.Sig != "twin")); err != nil {
			panic(err)
		}
		r.other = ctRecode(c2.(Certificate))
	}
	return r
}

// ctNonCanonPick: every third certificate name (by hash) is issued in the non-canonical form
var ctNonCanonCount int64

func ctNonCanonPick(name string) bool {
	h := uint32(2166136261)
	for i := 0; i < len(name); i++ {
		h = (h ^ uint32(name[i])) * 16777619
	}
	if h%3 != 0 {
		return false
	}
	atomic.AddInt64(&ctNonCanonCount, 1)
	return true
}

// ctDetailsWithUnknown appends a context-specific primitive element with an unassigned tag number to the details
// element (tag, DER length, body) and re-encodes the length.
func ctDetailsWithUnknown(raw []byte) []byte {
	if len(raw) < 2 {
		panic("verif: details too short")
	}
	hl, n := 2, int(raw[1])
	if raw[1]&0x80 != 0 {
		k := int(raw[1] & 0x7f)
		hl, n = 2+k, 0
		for _, b := range raw[2 : 2+k] {
			n = n<<8 | int(b)
		}
	}
	if hl+n != len(raw) {
		panic("verif: details length")
	}
	body := append(append([]byte(nil), raw[hl:]...), 0x8f, 0x01, 0x01)
	out := []byte{raw[0]}
	switch {
	case len(body) < 128:
		out = append(out, byte(len(body)))
	case len(body) < 256:
		out = append(out, 0x81, byte(len(body)))
	default:
		out = append(out, 0x82, byte(len(body)>>8), byte(len(body)))
	}
	return append(out, body...)
}

// fingerprint of a symbolic blocklist entry
func (r *ctRealCert) form(f string) (string, bool) {
	switch f {
	case "fp":
		fp, err := r.cert.Fingerprint()
		if err != nil {
			panic(err)
		}
		return fp, true
	case "fp2":
		if r.other == nil {
			return "", false
		}
		fp, err := r.other.Fingerprint()
		if err != nil {
			panic(err)
		}
		return fp, true
	case "foreign":
		s := sha256.Sum256([]byte("a certificate nobody presents"))
		return hex.EncodeToString(s[:]), true
	}
	panic("verif: unknown symbolic fingerprint " + f)
}

// pool builds a real CAPool; entries with Key = Ca go through AddCA, others are put under the key's fingerprint.
func (w *ctWorld) pool(entries []ctEntry) *CAPool {
	p := NewCAPool()
	for _, e := range entries {
		ca := w.ca(e.Ca)
		if e.Key.key() == e.Ca.key() {
			// AddCA reports ErrExpired against the wall clock but keeps the CA
			if err := p.AddCA(ca.cert); err != nil && !errors.Is(err, ErrExpired) {
				panic(fmt.Sprintf("verif: AddCA: %v", err))
			}
			if _, ok := p.CAs[ca.fp]; ok {
				continue
			}
		}
		cc := &CachedCertificate{Certificate: ca.cert, Fingerprint: ca.fp, InvertedGroups: map[string]struct{}{}}
		for _, g := range ca.cert.Groups() {
			cc.InvertedGroups[g] = struct{}{}
		}
		p.CAs[w.ca(e.Key).fp] = cc
	}
	return p
}

func ctHonest(cas []ctCA) []ctEntry {
	var out []ctEntry
	for _, c := range cas {
		out = append(out, ctEntry{c, c})
	}
	return out
}

func (w *ctWorld) setBlocklist(p *CAPool, r *ctRealCert, bl []string) bool {
	p.ResetCertBlocklist()
	for _, f := range bl {
		fp, ok := r.form(f)
		if !ok {
			return false
		}
		p.BlocklistFingerprint(fp)
	}
	return true
}

// ---------------------------------------------------------------- naming of classes (mismatch keys)

func ctErrKind(err error) string {
	switch {
	case err == nil:
		return "nil"
	case errors.Is(err, ErrBlockListed):
		return "blocklisted"
	case errors.Is(err, ErrCaNotFound):
		return "ca-not-found"
	case errors.Is(err, ErrCurveMismatch):
		return "curve-mismatch"
	case errors.Is(err, ErrRootExpired):
		return "root-expired"
	case errors.Is(err, ErrExpired):
		return "expired"
	case errors.Is(err, ErrFingerprintMismatch):
		return "fingerprint-mismatch"
	case errors.Is(err, ErrSignatureMismatch):
		return "signature-mismatch"
	}
	return "other"
}

func ctTimeClass(t, nb, na int) string {
	switch {
	case nb > na:
		return "empty-window"
	case t < nb:
		return "t<nb"
	case t == nb && t == na:
		return "t=nb=na"
	case t == nb:
		return "t=nb"
	case t == na:
		return "t=na"
	case t > na:
		return "t>na"
	}
	return "nb<t<na"
}

// ctClass names the class of a verification case from the specification's reason.
func ctClass(a ctCert, why string, t int) string {
	switch why {
	case "exp":
		return why + ":" + ctTimeClass(t, a.Nb, a.Na)
	case "caexp":
		return why + ":ca:" + ctTimeClass(t, a.Issuer.Nb, a.Issuer.Na)
	case "ok":
		return why + ":" + ctTimeClass(t, a.Nb, a.Na) + ":ca:" + ctTimeClass(t, a.Issuer.Nb, a.Issuer.Na)
	case "sig":
		return why + ":" + a.Sig + a.Badf
	}
	return why
}

func ctDetail(w *ctWorld, r *ctRealCert, cas []ctCA, extra map[string]any) map[string]any {
	d := map[string]any{"abstract": r.abs, "base_unix": w.base, "cert_pem": r.pem, "embedding": fmt.Sprintf("%+v", w.emb)}
	var pems []string
	for _, c := range cas {
		pems = append(pems, w.ca(c).pem)
	}
	d["pool_pem"] = pems
	for k, v := range extra {
		d[k] = v
	}
	return d
}

// JSON images without null (the trace reader wants arrays)
func ctNormCA(a ctCA) ctCA {
	if a.Groups == nil {
		a.Groups = []string{}
	}
	if a.Nets == nil {
		a.Nets = []ctPrefix{}
	}
	if a.Unsafe == nil {
		a.Unsafe = []ctPrefix{}
	}
	return a
}

func ctNormCAs(as []ctCA) []ctCA {
	out := []ctCA{}
	for _, a := range as {
		out = append(out, ctNormCA(a))
	}
	return out
}

func ctNormCert(a ctCert) ctCert {
	if a.Groups == nil {
		a.Groups = []string{}
	}
	if a.Nets == nil {
		a.Nets = []ctPrefix{}
	}
	if a.Unsafe == nil {
		a.Unsafe = []ctPrefix{}
	}
	a.Issuer = ctNormCA(a.Issuer)
	return a
}

// base second and embedding of a run, from VERIF_SEED
func ctBase(prop int64) int64 { return 1_700_000_000 + 86_400*(vSeed()%1000) + 1000*prop }

func ctSeedEmbed(shift int) ctEmbed {
	n := int64(len(ctEmbeds3))
	return ctEmbeds3[((vSeed()+int64(shift))%n+n)%n]
}

// ctRandomCase draws a CA, a certificate derived from it (mostly inside, then perturbed), a pool, a blocklist, a time.
func ctRandomCase(rnd *rand.Rand, ab int, span int) (ctCert, []ctCA, []string, int) {
	pick := func(n int) int { return rnd.Intn(n) }
	groupsAll := make([]string, 40)
	for i := range groupsAll {
		groupsAll[i] = fmt.Sprintf("grp%02d", i)
	}
	subset := func(from []string, n int) []string {
		idx := rnd.Perm(len(from))
		if n > len(from) {
			n = len(from)
		}
		var out []string
		for _, i := range idx[:n] {
			out = append(out, from[i])
		}
		sort.Strings(out)
		return out
	}
	randPrefix := func(f int, minB int) ctPrefix {
		b := minB + pick(ab-minB+1)
		return ctPrefix{f, pick(1 << ab), b}
	}
	// CA prefixes: no two are siblings, so that "inside one entry" and "inside the union" coincide
	caPrefixes := func(f, n int) []ctPrefix {
		var out []ctPrefix
		for len(out) < n {
			p := randPrefix(f, 1)
			ok := true
			for _, q := range out {
				if q.F == p.F && q.B == p.B && p.B > 0 && (q.A>>(ab-q.B))^1 == p.A>>(ab-p.B) {
					ok = false
				}
				if q == p {
					ok = false
				}
			}
			if ok {
				out = append(out, p)
			}
		}
		return out
	}
	inside := func(m ctPrefix) ctPrefix {
		b := m.B + pick(ab-m.B+1)
		keep := m.A >> (ab - m.B) << (ab - m.B)
		return ctPrefix{m.F, keep | pick(1<<(ab-m.B)), b}
	}
	curves := []string{"x25519", "p256"}
	ca := ctCA{Id: "ca1", Ver: 1 + pick(2), Curve: curves[pick(2)]}
	ca.Nb = 10 + pick(span/4)
	ca.Na = ca.Nb + pick(span/2)
	if pick(3) > 0 {
		ca.Groups = subset(groupsAll, 1+pick(30))
	}
	v6 := ca.Ver == 2 && pick(3) == 0
	if pick(3) > 0 {
		ca.Nets = caPrefixes(4, 1+pick(12))
		if v6 {
			ca.Nets = append(ca.Nets, caPrefixes(6, 1+pick(6))...)
		}
	}
	if pick(3) > 0 {
		ca.Unsafe = caPrefixes(4, 1+pick(12))
		if v6 {
			ca.Unsafe = append(ca.Unsafe, caPrefixes(6, 1+pick(6))...)
		}
	}
	c := ctCert{Ver: 1 + pick(2), Curve: ca.Curve, Issuer: ca, Sig: "good"}
	if pick(8) == 0 {
		c.Nb, c.Na = ca.Nb, ca.Na
	} else {
		c.Nb = ca.Nb + pick(ca.Na-ca.Nb+1)
		c.Na = c.Nb + pick(ca.Na-c.Nb+1)
	}
	if len(ca.Groups) > 0 {
		c.Groups = subset(ca.Groups, pick(len(ca.Groups)+1))
	} else {
		c.Groups = subset(groupsAll, pick(25))
	}
	derive := func(from []ctPrefix, n int, fam func(int) bool) []ctPrefix {
		var out []ctPrefix
		seen := map[ctPrefix]bool{}
		for i := 0; i < n; i++ {
			var p ctPrefix
			if len(from) > 0 {
				p = inside(from[pick(len(from))])
			} else {
				p = randPrefix(4, 0)
			}
			if !fam(p.F) || seen[p] {
				continue
			}
			seen[p] = true
			out = append(out, p)
		}
		return out
	}
	okFam := func(f int) bool { return f == 4 || c.Ver == 2 }
	for len(c.Nets) == 0 {
		c.Nets = derive(ca.Nets, 1+pick(24), okFam)
		if len(c.Nets) == 0 && len(ca.Nets) > 0 {
			c.Nets = []ctPrefix{randPrefix(4, 0)}
		}
	}
	has := map[int]bool{}
	for _, n := range c.Nets {
		has[n.F] = true
	}
	c.Unsafe = derive(ca.Unsafe, pick(24), func(f int) bool { return okFam(f) && has[f] })
	// perturbations
	cas := []ctCA{ca}
	var bl []string
	for k := pick(3); k > 0; k-- {
		switch pick(12) {
		case 0:
			c.Nb = ca.Nb - 1
		case 1:
			c.Na = ca.Na + 1
		case 2:
			c.Groups = append(c.Groups, "outsider")
		case 3:
			if len(c.Nets) > 0 {
				i := pick(len(c.Nets))
				if c.Nets[i].B > 0 {
					c.Nets[i].B--
				}
			}
		case 4:
			c.Unsafe = append(c.Unsafe, randPrefix(4, 0))
		case 5:
			c.Nets = append(c.Nets, randPrefix(4, 0))
		case 6:
			c.Sig = []string{"wrongkey", "bad"}[pick(2)]
			if c.Sig == "bad" {
				c.Badf = []string{"name", "nb", "na", "groups", "nets", "unsafe", "isCA", "key"}[pick(8)]
			}
		case 7:
			if c.Curve == "p256" && c.Sig == "good" {
				c.Sig = "twin"
			}
		case 8:
			bl = append(bl, "fp")
		case 9:
			if c.Curve == "p256" {
				bl = append(bl, "fp2")
			} else {
				bl = append(bl, "foreign")
			}
		case 10:
			other := ctCA{Id: "cao", Ver: 2, Curve: ca.Curve, Nb: 0, Na: 4 * span}
			if pick(2) == 0 {
				cas = []ctCA{other}
			} else {
				cas = append(cas, other)
			}
		case 11:
			c.Curve = curves[pick(2)]
		}
	}
	// de-duplicate prefix lists (version 2 refuses duplicates)
	dedupe := func(ps []ctPrefix) []ctPrefix {
		seen := map[ctPrefix]bool{}
		var out []ctPrefix
		for _, p := range ps {
			if !seen[p] {
				seen[p] = true
				out = append(out, p)
			}
		}
		return out
	}
	c.Nets, c.Unsafe = dedupe(c.Nets), dedupe(c.Unsafe)
	// keep the certificate decodable: a version 2 host certificate needs a network of the family of each unsafe network
	fam := map[int]bool{}
	for _, n := range c.Nets {
		fam[n.F] = true
	}
	var uns []ctPrefix
	for _, u := range c.Unsafe {
		if fam[u.F] || c.Ver == 1 {
			uns = append(uns, u)
		}
	}
	c.Unsafe = uns
	both256 := c.Curve == "p256" && ca.Curve == "p256"
	if c.Sig == "twin" && !both256 {
		c.Sig = "good"
	}
	if !both256 {
		for i, f := range bl {
			if f == "fp2" {
				bl[i] = "foreign"
			}
		}
	}
	sort.Strings(c.Groups)
	times := []int{c.Nb - 1, c.Nb, c.Nb + 1, c.Na - 1, c.Na, c.Na + 1, ca.Nb - 1, ca.Nb, ca.Na, ca.Na + 1, ca.Nb + pick(ca.Na-ca.Nb+1)}
	t := times[pick(len(times))]
	lo, hi := max(c.Nb, ca.Nb), min(c.Na, ca.Na)
	if pick(2) == 0 && lo <= hi {
		t = lo + pick(hi-lo+1) // both valid
	}
	if t < 0 {
		t = 0
	}
	return c, cas, bl, t
}

