package cert

// C01 — binding of spec/CertTrust.tla (Accept, cached-check machine) to CAPool.VerifyCertificate /
// VerifyCachedCertificate.
//   V: every vector (certificate, pool) of TLC's lattice x every blocklist row x every time 0..TMax
//   R: edge tours of the cached-check machine (FullCheck/CachedCheck/Blocklist/Unblock/ReplacePool/Tick)
//   T: seeded random concrete cases beyond the lattice, logged for validation by TLC (Trace_CertTrust.tla)

import (
	"sync/atomic"
	"encoding/json"
	"errors"
	"fmt"
	"runtime"
	"sync"
	"testing"
)

type c01Row struct {
	Bl  []string `json:"bl"`
	Acc []string `json:"acc"`
}

type c01Vec struct {
	In struct {
		Kind string `json:"kind"`
		C    ctCert `json:"c"`
		Cas  []ctCA `json:"cas"`
	} `json:"in"`
	Exp struct {
		Rows []c01Row `json:"rows"`
	} `json:"exp"`
}

type c01Plan struct {
	TMax     int      `json:"tmax"`
	Graph    string   `json:"graph"`
	Random   int      `json:"random"`
	RandomAB int      `json:"random_ab"`
}


// one (certificate, pool) vector: all rows x all times on the full check, and the cached re-check of the
// certificate accepted first against every row x time as well
func c01RunVector(w *ctWorld, res *vResult, id string, v *c01Vec) {
	a := v.In.C
	rc := w.cert(a, "c01-"+id)
	pool := w.pool(ctHonest(v.In.Cas))
	var cached *CachedCertificate
	type cell struct {
		bl  []string
		t   int
		why string
	}
	var cells []cell
	for _, row := range v.Exp.Rows {
		if !w.setBlocklist(pool, rc, row.Bl) {
			panic(fmt.Sprintf("verif: vector %s asks for a fingerprint form that does not exist: %v", id, row.Bl))
		}
		for t, why := range row.Acc {
			cells = append(cells, cell{row.Bl, t, why})
			cc, err := pool.VerifyCertificate(w.at(t), rc.cert)
			res.Case(fmt.Sprintf("%s/%v/%d", id, row.Bl, t))
			res.Hit("full:" + why)
			c01Compare(w, res, "full", rc, v.In.Cas, row.Bl, t, why, err)
			if err == nil && cc == nil {
				res.Mismatch("full:nil-result", "VerifyCertificate returned neither a cached certificate nor an error",
					ctDetail(w, rc, v.In.Cas, map[string]any{"t": t, "blocklist": row.Bl}))
			}
			if err == nil && cached == nil && why == "ok" {
				cached = cc
			}
		}
	}
	if cached == nil {
		return
	}
	// "Re-checking a previously accepted certificate ... gives the same verdict as a full check"
	for _, c := range cells {
		w.setBlocklist(pool, rc, c.bl)
		err := pool.VerifyCachedCertificate(w.at(c.t), cached)
		res.Case(fmt.Sprintf("%s/cached/%v/%d", id, c.bl, c.t))
		res.Hit("cached:" + c.why)
		c01Compare(w, res, "cached", rc, v.In.Cas, c.bl, c.t, c.why, err)
	}
}

func c01Compare(w *ctWorld, res *vResult, path string, rc *ctRealCert, cas []ctCA, bl []string, t int, why string, err error) {
	a := rc.abs
	det := func() map[string]any {
		return ctDetail(w, rc, cas, map[string]any{"t": t, "time_unix": w.base + int64(t), "blocklist": bl, "specification": why,
			"got": fmt.Sprint(err), "path": path})
	}
	switch {
	case why == "ok" && err != nil:
		cls := ctTimeClass(t, a.Nb, a.Na)
		if errors.Is(err, ErrRootExpired) {
			cls = "ca:" + ctTimeClass(t, a.Issuer.Nb, a.Issuer.Na)
		}
		res.Mismatch(fmt.Sprintf("%s:rejects:%s:v%d:%s", path, ctErrKind(err), a.Ver, cls),
			fmt.Sprintf("%s check rejects (%v) a certificate the trust rule accepts at t=%d (cert %d..%d, CA %d..%d, v%d %s, sig %s)",
				path, err, t, a.Nb, a.Na, a.Issuer.Nb, a.Issuer.Na, a.Ver, a.Curve, a.Sig), det())
	case why != "ok" && err == nil:
		res.Mismatch(fmt.Sprintf("%s:accepts:%s:v%d", path, ctClass(a, why, t), a.Ver),
			fmt.Sprintf("%s check accepts a certificate the trust rule rejects (%s) at t=%d (cert %d..%d, CA %d..%d, v%d %s, sig %s%s, blocklist %v)",
				path, why, t, a.Nb, a.Na, a.Issuer.Nb, a.Issuer.Na, a.Ver, a.Curve, a.Sig, a.Badf, bl), det())
	case why == "bl!" && !errors.Is(err, ErrBlockListed):
		// the blocklist is the only reason: connection_manager tears the tunnel down on exactly this error
		res.Mismatch(fmt.Sprintf("%s:errkind:blocklist-only:%s", path, ctErrKind(err)),
			fmt.Sprintf("%s check of a certificate that is acceptable except for the blocklist %v returns %v, not ErrBlockListed", path, bl, err), det())
	case errors.Is(err, ErrBlockListed) && why != "bl" && why != "bl!":
		res.Mismatch(fmt.Sprintf("%s:errkind:blocklisted-without-entry", path),
			fmt.Sprintf("%s check returns ErrBlockListed although no form of the certificate is in the blocklist %v", path, bl), det())
	}
}

// ---------------------------------------------------------------- R: the cached-check machine

type c01Mach struct {
	Pool   string   `json:"pool"`
	Bl     []string `json:"bl"`
	Now    int      `json:"now"`
	Cache  ctCA     `json:"cache"`
	Full   string   `json:"full"`
	Cached string   `json:"cached"`
	Strong bool     `json:"strong"`
}

func c01Verdict(err error) string {
	if err == nil {
		return "ok"
	}
	return "rej"
}

func c01ModelVerdict(s string) string {
	if s == "ok" || s == "-" {
		return s
	}
	return "rej" // "blocked" / "rej": the kind of rejection is mechanism here (order of tests)
}

func c01Replay(t *testing.T, w *ctWorld, res *vResult, file string) {
	var gr vGraph
	vReadJSON(t, file, &gr)
	for ti, tour := range gr.Tours {
		if len(tour) == 0 {
			continue
		}
		st0 := gr.States[gr.Edges[tour[0]].Src]
		var a ctCert
		var table map[string][]ctEntry
		var m c01Mach
		if err := json.Unmarshal(st0["in"], &a); err != nil {
			t.Fatalf("machine certificate: %v", err)
		}
		if err := json.Unmarshal(st0["exp"], &table); err != nil {
			t.Fatalf("machine pool table: %v", err)
		}
		if err := json.Unmarshal(st0["m"], &m); err != nil {
			t.Fatalf("machine state: %v", err)
		}
		rc := w.cert(a, fmt.Sprintf("c01-mach-%d", ti))
		pool := w.pool(table[m.Pool])
		w.setBlocklist(pool, rc, m.Bl)
		now := m.Now
		var cached *CachedCertificate
		var hist []string
		for si, ei := range tour {
			e := gr.Edges[ei]
			var post c01Mach
			if err := json.Unmarshal(gr.States[e.Dst]["m"], &post); err != nil {
				t.Fatalf("machine state: %v", err)
			}
			label := e.Act
			if len(e.Args) > 0 {
				label += "(" + vStr(e.Args[0]) + ")"
			}
			hist = append(hist, label)
			res.Hit(e.Act)
			res.Case(fmt.Sprintf("%s/e%d", file, ei))
			diverged := false
			fail := func(key, what string) {
				diverged = true
				res.Mismatch(key, what, ctDetail(w, rc, nil, map[string]any{"tour": ti, "step": si, "history": hist,
					"model_state_after": post, "pool_table": table}))
			}
			switch e.Act {
			case "FullCheck":
				cc, err := pool.VerifyCertificate(w.at(now), rc.cert)
				if got, want := c01Verdict(err), c01ModelVerdict(post.Full); got != want {
					fail(fmt.Sprintf("machine:full:%s-not-%s:pool=%s", got, want, post.Pool),
						fmt.Sprintf("after %v: VerifyCertificate gives %s (%v), specification %s", hist, got, err, want))
				}
				if err == nil {
					cached = cc
				}
			case "CachedCheck":
				if cached == nil {
					fail("machine:no-cache", fmt.Sprintf("after %v the specification holds a cached certificate, the harness does not", hist))
					break
				}
				err := pool.VerifyCachedCertificate(w.at(now), cached)
				_, ferr := pool.VerifyCertificate(w.at(now), rc.cert)
				got, gotFull := c01Verdict(err), c01Verdict(ferr)
				if want := c01ModelVerdict(post.Full); gotFull != want {
					fail(fmt.Sprintf("machine:full:%s-not-%s:pool=%s", gotFull, want, post.Pool),
						fmt.Sprintf("after %v: a fresh VerifyCertificate gives %s (%v), specification %s", hist, gotFull, ferr, want))
				} else if post.Strong {
					// pool keyed by fingerprint, certificate cached from such a pool: the re-check equals the full check
					if want := c01ModelVerdict(post.Cached); got != want {
						fail(fmt.Sprintf("machine:cached:%s-not-%s:pool=%s", got, want, post.Pool),
							fmt.Sprintf("after %v: VerifyCachedCertificate gives %s (%v), specification %s (fresh full check: %v)", hist, got, err, want, ferr))
					}
				} else if got == "ok" && gotFull != "ok" {
					// pools not keyed by fingerprint: only "cached accepts => full check accepts" is demanded
					fail(fmt.Sprintf("machine:cached:accepts-what-full-check-rejects:pool=%s", post.Pool),
						fmt.Sprintf("after %v: VerifyCachedCertificate accepts, a fresh VerifyCertificate says %v", hist, ferr))
				}
			case "Blocklist":
				fp, ok := rc.form(vStr(e.Args[0]))
				if !ok {
					t.Fatalf("machine blocklists a form that does not exist: %s", e.Args[0])
				}
				pool.BlocklistFingerprint(fp)
			case "Unblock":
				pool.ResetCertBlocklist()
			case "ReplacePool":
				// a reload builds a new pool and applies the configured blocklist to it
				pool = w.pool(table[vStr(e.Args[0])])
				w.setBlocklist(pool, rc, post.Bl)
			case "Tick":
				now++
			default:
				t.Fatalf("unknown machine action %q", e.Act)
			}
			if now != post.Now {
				t.Fatalf("harness clock %d, specification %d", now, post.Now)
			}
			if diverged {
				break // real state and specification state may differ from here on
			}
		}
		if ti == len(gr.Tours)/2 {
			res.Sample(map[string]any{"machine_tour": hist})
		}
	}
}

// ---------------------------------------------------------------- T: seeded random concrete cases

func c01Random(t *testing.T, res *vResult, n, ab int) {
	rnd := vRand()
	w := ctNewWorld(ctBase(1)+5_000_000, ctEmbedWide(ab))
	tr := vNewTracer(t, "c01_trace.ndjson")
	defer tr.Close()
	for k := 0; k < n; k++ {
		a, cas, bl, at := ctRandomCase(rnd, ab, 100000)
		rc := w.cert(a, fmt.Sprintf("c01-rnd-%d", k))
		pool := w.pool(ctHonest(cas))
		if !w.setBlocklist(pool, rc, bl) {
			continue
		}
		cc, err := pool.VerifyCertificate(w.at(at), rc.cert)
		ev := map[string]any{"ev": "case", "n": k, "c": ctNormCert(a), "cas": ctNormCAs(cas), "bl": bl, "t": at, "full": err == nil,
			"blocked": errors.Is(err, ErrBlockListed), "cached": "none"}
		if err == nil {
			// re-check of the accepted certificate in the same trust state, then one second later and blocklisted
			ev["cached"] = fmt.Sprint(pool.VerifyCachedCertificate(w.at(at), cc) == nil)
		}
		if bl == nil {
			ev["bl"] = []string{}
		}
		tr.Event(map[string]any{"ev": "reset"})
		tr.Event(ev)
		res.Hit("random")
		if err == nil {
			res.Hit("random:accepted")
		} else {
			res.Hit("random:" + ctErrKind(err))
		}
		res.Case(fmt.Sprintf("rnd/%d", k))
		if k == 0 {
			res.Sample(ev)
		}
	}
}

// ----------------------------------------------------------------

func TestVerif_C01(t *testing.T) {
	res := vNewResult()
	defer res.Write(t)
	defer func() {
		if atomic.LoadInt64(&ctNonCanonCount) > 0 {
			res.Hit("presented:v2-details-not-canonical-as-signed")
		}
	}()
	var plan c01Plan
	vReadJSON(t, "c01_plan.json", &plan)
	w := ctNewWorld(ctBase(1), ctSeedEmbed(0))

	// V
	type job struct {
		id string
		v  *c01Vec
	}
	jobs := make(chan job, 256)
	var wg sync.WaitGroup
	var panicked sync.Map
	for i := 0; i < runtime.GOMAXPROCS(0); i++ {
		wg.Add(1)
		go func() {
			defer wg.Done()
			for j := range jobs {
				func() {
					defer func() {
						if r := recover(); r != nil {
							panicked.Store(j.id, fmt.Sprint(r))
						}
					}()
					c01RunVector(w, res, j.id, j.v)
				}()
			}
		}()
	}
	n := 0
	vReadNDJSON(t, "vectors.ndjson", func(line []byte) {
		v := new(c01Vec)
		if err := json.Unmarshal(line, v); err != nil {
			t.Fatalf("vector: %v: %s", err, line)
		}
		n++
		if n%1500 == 1 {
			res.Sample(json.RawMessage(append([]byte(nil), line...)))
		}
		jobs <- job{fmt.Sprintf("v%d", n), v}
	})
	close(jobs)
	wg.Wait()
	bad := 0
	panicked.Range(func(k, v any) bool {
		bad++
		if bad <= 3 {
			t.Errorf("vector %v: %v", k, v)
		}
		return true
	})
	if bad > 0 {
		// a harness failure, not a verdict
		res.Extra["harness_panics"] = bad
		t.FailNow()
	}
	res.Traces = n

	// R
	if plan.Graph != "" {
		c01Replay(t, w, res, plan.Graph)
	}
	// T
	if plan.Random > 0 {
		c01Random(t, res, plan.Random, plan.RandomAB)
	}
}
