package cert

// C43 — binding of spec/KeyFile.tla to the key-file APIs of package cert (vector mode).
//
// Every vector of KeyFile.tla = (which Marshal API wrote the file, curve, KDF profile, passphrase class, alteration of
// the encoded file, which API opens it, with which passphrase) + Expected (accept exactly this key / refuse / free).
// The harness concretises each vector on several real keys per run (seeded), with the real Argon2id + AES-GCM, applies
// the alteration to the real bytes and compares what the real opener returns with Expected: error or not, exact key
// bytes, curve, remainder.  "walk" classes visit byte / bit positions (thorough: every byte of the decoded protobuf
// message, of the raw key and of the PEM text; quick: all structural boundaries + a seeded sample).
//
// What the bytes of an altered file MEAN is decided by trusted infrastructure, never by the code under test:
// encoding/pem says which block a text carries, proto.Unmarshal says which values a message carries.  The harness
// checks that every constructed alteration is of the class the specification says it is (else: drift, no verdict).

import (
	"bytes"
	"crypto/ecdh"
	"crypto/ed25519"
	crand "crypto/rand"
	"encoding/base64"
	"encoding/json"
	"encoding/pem"
	"fmt"
	"hash/fnv"
	"math/rand"
	"runtime"
	"sort"
	"strings"
	"sync"
	"testing"
	"time"

	"google.golang.org/protobuf/encoding/protowire"
	"google.golang.org/protobuf/proto"
)

type c43In struct {
	M    string `json:"m"`
	C    string `json:"c"`
	Prof string `json:"prof"`
	Penc string `json:"penc"`
	Op   string `json:"op"`
	Arg  string `json:"arg"`
	O    string `json:"o"`
	Prel string `json:"prel"`
}
type c43Term struct {
	Banner string `json:"banner"`
	Enc    bool   `json:"enc"`
	Len    int    `json:"len"`
	Wf     bool   `json:"wf"`
	Alg    string `json:"alg"`
	Ver    int64  `json:"ver"`
	Mem    uint64 `json:"mem"`
	It     uint64 `json:"it"`
	Par    uint64 `json:"par"`
	Salt   struct {
		Id  string `json:"id"`
		Len int    `json:"len"`
	} `json:"salt"`
	Canon bool   `json:"canon"`
	Pem   string `json:"pem"`
	Rest  string `json:"rest"`
}
type c43Exp struct {
	Verdict string `json:"verdict"`
	Key     string `json:"key"`
	Curve   string `json:"curve"`
	Rest    string `json:"rest"`
}
type c43Vec struct {
	In   c43In   `json:"in"`
	Orig c43Term `json:"orig"`
	File c43Term `json:"file"`
	Exp  c43Exp  `json:"exp"`
	Mach struct {
		Ok    bool   `json:"ok"`
		Stage string `json:"stage"`
	} `json:"mach"`
	line string
}

// ---------------------------------------------------------------------------------------------------------------
// deterministic randomness: salts and nonces drawn by the code under test come from the seed too

type c43Reader struct{ r *rand.Rand }

func (d *c43Reader) Read(p []byte) (int, error) {
	for i := range p {
		p[i] = byte(d.r.Intn(256))
	}
	return len(p), nil
}

// ---------------------------------------------------------------------------------------------------------------
// keys

type c43KeySet struct {
	name string
	key  map[string][]byte // "<kind>/<curve>" -> raw key bytes
}

func c43Fill(rnd *rand.Rand, n int) []byte {
	b := make([]byte, n)
	for i := range b {
		b[i] = byte(rnd.Intn(256))
	}
	return b
}

func c43P256(t testing.TB, rnd *rand.Rand) (priv, pub []byte) {
	for {
		b := c43Fill(rnd, 32)
		k, err := ecdh.P256().NewPrivateKey(b)
		if err != nil {
			continue
		}
		return b, k.PublicKey().Bytes()
	}
}

func c43NewKeySet(t testing.TB, rnd *rand.Rand, name string) *c43KeySet {
	ks := &c43KeySet{name: name, key: map[string][]byte{}}
	if name == "zeros" || name == "ones" {
		// the PEM layer carries any byte string of the right length
		fill := byte(0)
		if name == "ones" {
			fill = 0xff
		}
		for _, kc := range [][3]any{{"priv", "25519", 32}, {"priv", "p256", 32}, {"pub", "25519", 32}, {"pub", "p256", 65},
			{"spriv", "25519", 64}, {"spriv", "p256", 32}, {"spub", "25519", 32}, {"spub", "p256", 65}} {
			ks.key[kc[0].(string)+"/"+kc[1].(string)] = bytes.Repeat([]byte{fill}, kc[2].(int))
		}
	} else {
		xp := c43Fill(rnd, 32)
		xk, err := ecdh.X25519().NewPrivateKey(xp)
		if err != nil {
			t.Fatalf("c43: x25519: %v", err)
		}
		ks.key["priv/25519"], ks.key["pub/25519"] = xp, xk.PublicKey().Bytes()
		ks.key["priv/p256"], ks.key["pub/p256"] = c43P256(t, rnd)
		ed := ed25519.NewKeyFromSeed(c43Fill(rnd, 32))
		ks.key["spriv/25519"], ks.key["spub/25519"] = []byte(ed), []byte(ed.Public().(ed25519.PublicKey))
		ks.key["spriv/p256"], ks.key["spub/p256"] = c43P256(t, rnd)
	}
	ks.key["enc/25519"], ks.key["enc/p256"] = ks.key["spriv/25519"], ks.key["spriv/p256"]
	return ks
}

func c43Curve(c string) Curve {
	if c == "p256" {
		return Curve_P256
	}
	return Curve_CURVE25519
}

// ---------------------------------------------------------------------------------------------------------------
// passphrases

func c43PassEnc(rnd *rand.Rand, class string) []byte {
	switch class {
	case "empty":
		return []byte{}
	case "binary":
		b := c43Fill(rnd, 16)
		b[3], b[7], b[11] = 0x00, 0xff, '\n'
		return b
	case "long":
		return c43Fill(rnd, 300)
	default: // ascii
		const al = "abcdefghijklmnopqrstuvwxyzABCDEFGHIJKLMNOPQRSTUVWXYZ0123456789 -_.!"
		n := 8 + rnd.Intn(13)
		b := make([]byte, n)
		for i := range b {
			b[i] = al[rnd.Intn(len(al))]
		}
		b[0] = "abcdefghijklmnopqrstuvwxyz"[rnd.Intn(26)]
		return b
	}
}

func c43PassRel(rnd *rand.Rand, p []byte, rel string) []byte {
	q := append([]byte{}, p...)
	switch rel {
	case "same":
	case "other":
		for {
			q = c43Fill(rnd, len(p)+1)
			if !bytes.Equal(q, p) {
				break
			}
		}
	case "empty":
		q = []byte{}
	case "ext":
		q = append(q, 'x')
	case "ext0":
		q = append(q, 0)
	case "trunc":
		q = q[:len(q)-1]
	case "mid":
		q[len(q)/2] ^= 0x01
	case "tail":
		q[len(q)-1] ^= 0x01
	case "bit":
		q[0] ^= 0x20 // the other case of an ASCII letter
	default:
		panic("c43: passphrase relation " + rel)
	}
	return q
}

// ---------------------------------------------------------------------------------------------------------------
// own protobuf writer (protowire) for RawNebulaEncryptedData and its alterations

type c43F struct {
	num   protowire.Number
	typ   protowire.Type
	v     uint64
	vlen  int // forced length of the varint (0 = minimal)
	b     []byte
	sub   []*c43F
	isMsg bool
	name  string
	off   int // offset of the tag in the parsed original
	poff  int // offset of the payload
	end   int
}

func c43Varint(b []byte, v uint64, vlen int) []byte {
	if vlen == 0 {
		return protowire.AppendVarint(b, v)
	}
	for i := 0; i < vlen-1; i++ {
		b = append(b, byte(v&0x7f)|0x80)
		v >>= 7
	}
	return append(b, byte(v&0x7f))
}

func c43Emit(fs []*c43F) []byte {
	var out []byte
	for _, f := range fs {
		out = protowire.AppendTag(out, f.num, f.typ)
		switch f.typ {
		case protowire.VarintType:
			out = c43Varint(out, f.v, f.vlen)
		case protowire.BytesType:
			p := f.b
			if f.isMsg {
				p = c43Emit(f.sub)
			}
			out = protowire.AppendBytes(out, p)
		default:
			panic("c43: wire type")
		}
	}
	return out
}

// c43Parse reads the canonical message written by the real marshaller (schema known: 1 = metadata{1 = algorithm,
// 2 = argon{1 version, 2 memory, 3 iterations, 4 parallelism, 5 salt}}, 2 = ciphertext).
func c43Parse(b []byte, base int, level string) ([]*c43F, error) {
	var out []*c43F
	p := 0
	for p < len(b) {
		num, typ, n := protowire.ConsumeTag(b[p:])
		if n < 0 {
			return nil, fmt.Errorf("tag at %d", base+p)
		}
		f := &c43F{num: num, typ: typ, off: base + p}
		p += n
		f.poff = base + p
		switch typ {
		case protowire.VarintType:
			v, m := protowire.ConsumeVarint(b[p:])
			if m < 0 {
				return nil, fmt.Errorf("varint at %d", base+p)
			}
			f.v = v
			p += m
		case protowire.BytesType:
			v, m := protowire.ConsumeBytes(b[p:])
			if m < 0 {
				return nil, fmt.Errorf("bytes at %d", base+p)
			}
			f.poff = base + p + (m - len(v))
			f.b = append([]byte{}, v...)
			p += m
		default:
			return nil, fmt.Errorf("wire type %d at %d", typ, base+p)
		}
		f.end = base + p
		switch level {
		case "top":
			f.name = map[protowire.Number]string{1: "meta", 2: "blob"}[num]
		case "meta":
			f.name = map[protowire.Number]string{1: "alg", 2: "argon"}[num]
		case "argon":
			f.name = map[protowire.Number]string{1: "ver", 2: "mem", 3: "it", 4: "par", 5: "salt"}[num]
		}
		if f.name == "" {
			return nil, fmt.Errorf("unexpected field %d in %s", num, level)
		}
		if f.name == "meta" || f.name == "argon" {
			sub, err := c43Parse(f.b, f.poff, f.name)
			if err != nil {
				return nil, err
			}
			f.isMsg, f.sub = true, sub
		}
		out = append(out, f)
	}
	return out, nil
}

func c43Clone(fs []*c43F) []*c43F {
	out := make([]*c43F, len(fs))
	for i, f := range fs {
		g := *f
		g.b = append([]byte{}, f.b...)
		g.sub = c43Clone(f.sub)
		out[i] = &g
	}
	return out
}

// c43Tree gives named access to the fields of one (cloned) message
type c43Tree struct{ top []*c43F }

func c43Idx(fs []*c43F, name string) int {
	for i, f := range fs {
		if f.name == name {
			return i
		}
	}
	panic("c43: no field " + name)
}
func (t *c43Tree) meta() *c43F  { return t.top[c43Idx(t.top, "meta")] }
func (t *c43Tree) blob() *c43F  { return t.top[c43Idx(t.top, "blob")] }
func (t *c43Tree) argon() *c43F { m := t.meta(); return m.sub[c43Idx(m.sub, "argon")] }
func (t *c43Tree) fld(name string) *c43F {
	switch name {
	case "meta":
		return t.meta()
	case "blob":
		return t.blob()
	case "alg":
		m := t.meta()
		return m.sub[c43Idx(m.sub, "alg")]
	case "argon":
		return t.argon()
	}
	a := t.argon()
	return a.sub[c43Idx(a.sub, name)]
}
func c43Del(fs []*c43F, name string) []*c43F {
	i := c43Idx(fs, name)
	return append(append([]*c43F{}, fs[:i]...), fs[i+1:]...)
}
func c43InsAfter(fs []*c43F, name string, g *c43F, before bool) []*c43F {
	i := c43Idx(fs, name)
	if !before {
		i++
	}
	out := append([]*c43F{}, fs[:i]...)
	out = append(out, g)
	return append(out, fs[i:]...)
}

// ---------------------------------------------------------------------------------------------------------------
// what the bytes mean (trusted infrastructure: proto.Unmarshal, encoding/pem)

type c43View struct {
	ok                bool
	hasMeta, hasArgon bool
	alg               string
	ver               int64
	mem, it, par      uint64
	salt, blob        []byte
}

func c43Decode(body []byte) c43View {
	var raw RawNebulaEncryptedData
	if err := proto.Unmarshal(body, &raw); err != nil {
		return c43View{}
	}
	v := c43View{ok: true, blob: raw.Ciphertext}
	if raw.EncryptionMetadata != nil {
		v.hasMeta = true
		v.alg = raw.EncryptionMetadata.EncryptionAlgorithm
		if a := raw.EncryptionMetadata.Argon2Parameters; a != nil {
			v.hasArgon = true
			v.ver, v.mem, v.it, v.par, v.salt = int64(a.Version), uint64(a.Memory), uint64(a.Iterations), uint64(a.Parallelism), a.Salt
		}
	}
	return v
}

func (a c43View) same(b c43View) bool {
	return a.ok && b.ok && a.hasMeta == b.hasMeta && a.hasArgon == b.hasArgon && a.alg == b.alg && a.ver == b.ver && a.mem == b.mem &&
		a.it == b.it && a.par == b.par && bytes.Equal(a.salt, b.salt) && bytes.Equal(a.blob, b.blob)
}

// class of an altered message relative to the original one: "same" | "changed" | "malformed"
func c43Class(orig c43View, body []byte) string {
	v := c43Decode(body)
	if !v.ok {
		return "malformed"
	}
	if v.same(orig) {
		return "same"
	}
	return "changed"
}

// ---------------------------------------------------------------------------------------------------------------
// one original file

type c43Orig struct {
	ks     *c43KeySet
	m, c   string
	key    []byte // the key that was written
	pass   []byte // encryption passphrase
	text   []byte // what the real Marshal API wrote
	banner string
	body   []byte
	tree   []*c43F // enc only
	view   c43View
}

type c43Run struct {
	t      *testing.T
	res    *vResult
	quick  bool
	mu     sync.Mutex
	drift  []string
	notes  map[string]int
	spent  map[string]time.Duration
	calls  map[string]int
	plain  map[string]*c43Orig
	enc    map[string]*c43Orig
	second []byte // a second PEM block for "trail-block"
}

func (r *c43Run) driftf(format string, a ...any) {
	r.mu.Lock()
	if len(r.drift) < 20 {
		r.drift = append(r.drift, fmt.Sprintf(format, a...))
	}
	r.mu.Unlock()
}
func (r *c43Run) note(k string) { r.mu.Lock(); r.notes[k]++; r.mu.Unlock() }

func c43PEM(banner string, body []byte) []byte {
	return pem.EncodeToMemory(&pem.Block{Type: banner, Bytes: body})
}

func c43Profile(t testing.TB, o c43Term) *Argon2Parameters {
	if o.Mem == 0 || o.It == 0 || o.Par == 0 || o.Par > 255 {
		t.Fatalf("c43: KDF profile out of bounds in vector: %+v", o)
	}
	return NewArgon2Parameters(uint32(o.Mem), uint8(o.Par), uint32(o.It))
}

// ---------------------------------------------------------------------------------------------------------------
// calling the real openers

type c43Got struct {
	key, rest []byte
	curve     Curve
	err       error
}

func c43Open(o string, pass, file []byte) (g c43Got) {
	defer func() {
		if p := recover(); p != nil {
			g = c43Got{err: fmt.Errorf("PANIC: %v", p)}
		}
	}()
	in := append([]byte{}, file...)
	switch o {
	case "priv":
		g.key, g.rest, g.curve, g.err = UnmarshalPrivateKeyFromPEM(in)
	case "spriv":
		g.key, g.rest, g.curve, g.err = UnmarshalSigningPrivateKeyFromPEM(in)
	case "pub":
		g.key, g.rest, g.curve, g.err = UnmarshalPublicKeyFromPEM(in)
	case "spub":
		g.key, g.rest, g.curve, g.err = UnmarshalSigningPublicKeyFromPEM(in)
	case "dec":
		g.curve, g.key, g.rest, g.err = DecryptAndUnmarshalSigningPrivateKey(append([]byte{}, pass...), in)
	default:
		panic("c43: opener " + o)
	}
	return g
}

// one comparison of the real opener with Expected.  sub = position class of a walk ("" otherwise).
func (r *c43Run) compare(v *c43Vec, o *c43Orig, pass, file []byte, sub string, detail string) {
	res := r.res
	blk, srest := pem.Decode(file)
	t0 := time.Now()
	g := c43Open(v.In.O, pass, file)
	r.mu.Lock()
	r.spent[v.In.Prof] += time.Since(t0)
	r.calls[v.In.Prof]++
	r.mu.Unlock()
	cls := fmt.Sprintf("%s.%s-%s:%s", v.In.M, v.In.C, v.In.O, v.In.Op)
	if v.In.Op == "banner" {
		cls += ":" + strings.ReplaceAll(strings.ToLower(v.In.Arg), " ", "-")
	} else if v.In.Op != "none" {
		cls += ":" + v.In.Arg
	}
	if v.In.Prel != "same" {
		cls += ":pass-" + v.In.Prel
	}
	if sub != "" {
		cls += ":" + sub
	}
	what := func(s string) string {
		return fmt.Sprintf("%s written by %s/%s (key set %s, KDF %s, passphrase class %s), alteration %s %s%s, opened by %s with passphrase %q: %s; "+
			"specification: %s (machine stage %q)", v.Orig.Banner, v.In.M, v.In.C, o.ks.name, v.In.Prof, v.In.Penc, v.In.Op, v.In.Arg, detail, v.In.O, v.In.Prel, s,
			v.Exp.Verdict, v.Mach.Stage)
	}
	det := map[string]any{"vector": json.RawMessage(v.line), "file": string(file), "passphrase_hex": fmt.Sprintf("%x", pass),
		"original_file": string(o.text), "encryption_passphrase_hex": fmt.Sprintf("%x", o.pass)}
	if g.err != nil && strings.HasPrefix(g.err.Error(), "PANIC") {
		res.Mismatch(cls+":panic", what(g.err.Error()), det)
		return
	}
	var wantKey []byte
	switch v.Exp.Key {
	case "k0":
		wantKey = o.key
	case "body":
		if blk != nil {
			wantKey = blk.Bytes
		}
	}
	checkGiven := func() {
		if blk == nil {
			// a standard PEM reader finds nothing in this text, the opener did: whatever it returns, it must be the original key
			wantKey = o.key
			if v.Exp.Key == "body" {
				wantKey = o.body
			}
		}
		if !bytes.Equal(g.key, wantKey) {
			res.Mismatch(cls+":key", what(fmt.Sprintf("returned key %x, the key is %x", g.key, wantKey)), det)
		}
		if g.curve != c43Curve(v.Exp.Curve) {
			res.Mismatch(cls+":curve", what(fmt.Sprintf("returned curve %v, specification %s", g.curve, v.Exp.Curve)), det)
		}
		if blk != nil && !bytes.Equal(g.rest, srest) {
			res.Mismatch(cls+":rest", what(fmt.Sprintf("returned remainder %q, the text after the first block is %q", g.rest, srest)), det)
		}
	}
	switch v.Exp.Verdict {
	case "accept":
		if g.err != nil {
			res.Mismatch(cls+":refused", what("refused: "+g.err.Error()), det)
			return
		}
		checkGiven()
		res.Hit("accepted:" + v.In.M + "/" + v.In.C)
	case "refuse":
		if g.err == nil {
			res.Mismatch(cls+":accepted", what(fmt.Sprintf("ACCEPTED, returned key %x curve %v", g.key, g.curve)), det)
			return
		}
		res.Hit("refused:" + v.In.Op)
	case "free":
		if g.err == nil {
			checkGiven()
			r.note("free-accepted:" + v.In.Op + ":" + c43ArgClass(v))
		} else {
			r.note("free-refused:" + v.In.Op + ":" + c43ArgClass(v))
		}
		// the code-shaped machine of the specification vs the code, where the statement is silent: information only
		if v.File.Pem == "canon" && v.Mach.Ok != (g.err == nil) {
			r.note("machine-differs:" + v.In.Op + ":" + c43ArgClass(v))
		}
	default:
		panic(fmt.Sprintf("c43: verdict %q", v.Exp.Verdict))
	}
}

func c43Costly(prof string) bool { return prof == "def32" || prof == "def64" }

func c43ArgClass(v *c43Vec) string {
	if v.In.Op == "banner" {
		return "*"
	}
	return v.In.Arg
}

// ---------------------------------------------------------------------------------------------------------------
// positions of a walk

type c43Pos struct {
	at, bit int
	region  string
}

// regions of the canonical encrypted message: name -> [from, to)
func c43Regions(o *c43Orig) [][3]any {
	var out [][3]any
	var rec func(fs []*c43F)
	rec = func(fs []*c43F) {
		for _, f := range fs {
			out = append(out, [3]any{f.name + ".hdr", f.off, f.poff})
			switch {
			case f.isMsg:
				rec(f.sub)
			case f.name == "blob":
				out = append(out, [3]any{"nonce", f.poff, f.poff + 12}, [3]any{"ct", f.poff + 12, f.end - 16}, [3]any{"tag", f.end - 16, f.end})
			default:
				out = append(out, [3]any{f.name, f.poff, f.end})
			}
		}
	}
	rec(o.tree)
	return out
}

// the change applied at a position: one bit, or (bit 8) the whole byte by a position-dependent non-zero mask
func c43Mask(p c43Pos) byte {
	if p.bit < 8 {
		return 1 << p.bit
	}
	return byte(1 + (p.at*131+89)%255)
}

func c43How(p c43Pos) string {
	if p.bit < 8 {
		return fmt.Sprintf("bit %d flipped", p.bit)
	}
	return fmt.Sprintf("xor %#02x", c43Mask(p))
}

// walk positions over [0,n): thorough & full = every byte x bits; else boundaries of every region + a seeded sample
func c43Walk(rnd *rand.Rand, n int, regions [][3]any, full bool, bitsFull []int, sample int) []c43Pos {
	regionOf := func(at int) string {
		for _, rg := range regions {
			if at >= rg[1].(int) && at < rg[2].(int) {
				return rg[0].(string)
			}
		}
		return "text"
	}
	var out []c43Pos
	if full {
		for at := 0; at < n; at++ {
			bits := append([]int{}, bitsFull...)
			if len(bits) < 8 {
				bits = append(bits, 1+rnd.Intn(6))
			}
			for _, b := range bits {
				out = append(out, c43Pos{at, b, regionOf(at)})
			}
			out = append(out, c43Pos{at, 8, regionOf(at)})
		}
		return out
	}
	seen := map[[2]int]bool{}
	add := func(at, bit int) {
		if at < 0 || at >= n || seen[[2]int{at, bit}] {
			return
		}
		seen[[2]int{at, bit}] = true
		out = append(out, c43Pos{at, bit, regionOf(at)})
	}
	for _, rg := range regions {
		from, to := rg[1].(int), rg[2].(int)
		if to <= from {
			continue
		}
		add(from, 0)
		add(from, 7)
		add(to-1, 0)
		add(to-1, 7)
	}
	add(0, 0)
	add(n-1, 7)
	for k := 0; k < sample; k++ {
		add(rnd.Intn(n), rnd.Intn(8))
	}
	return out
}

// ---------------------------------------------------------------------------------------------------------------
// PEM text alterations

func c43PemLines(text []byte) (begin string, b64 []string, end string) {
	lines := strings.Split(strings.TrimRight(string(text), "\n"), "\n")
	return lines[0], lines[1 : len(lines)-1], lines[len(lines)-1]
}

func (r *c43Run) pemAlter(rnd *rand.Rand, o *c43Orig, arg string) (file []byte, ok bool) {
	begin, b64, end := c43PemLines(o.text)
	all := strings.Join(b64, "")
	switch arg {
	case "trail-text":
		return append(append([]byte{}, o.text...), []byte("trailing text, not a block\n# more\n")...), true
	case "trail-block":
		return append(append([]byte{}, o.text...), r.second...), true
	case "lead-text":
		return append([]byte("# a comment before the block\n\n"), o.text...), true
	case "headers":
		return []byte(begin + "\nProc-Type: 4,ENCRYPTED\nComment: c43\n\n" + strings.Join(b64, "\n") + "\n" + end + "\n"), true
	case "crlf":
		return bytes.ReplaceAll(o.text, []byte("\n"), []byte("\r\n")), true
	case "nofinalnl":
		return bytes.TrimRight(o.text, "\n"), true
	case "wrap76", "oneline":
		w := 76
		if arg == "oneline" {
			w = len(all) + 1
		}
		var sb strings.Builder
		sb.WriteString(begin + "\n")
		for len(all) > 0 {
			k := min(w, len(all))
			sb.WriteString(all[:k] + "\n")
			all = all[k:]
		}
		sb.WriteString(end + "\n")
		return []byte(sb.String()), true
	case "spaces":
		return []byte(begin + "\n" + strings.Join(b64, " \t\n") + "  \n" + end + "\n"), true
	case "padbits":
		// non-canonical base64: the unused low bits of the last character before the padding
		if len(o.body)%3 == 0 {
			return nil, false
		}
		const al = "ABCDEFGHIJKLMNOPQRSTUVWXYZabcdefghijklmnopqrstuvwxyz0123456789+/"
		i := strings.IndexByte(all, '=') - 1
		ch := strings.IndexByte(al, all[i])
		alt := all[:i] + string(al[ch^1]) + all[i+1:]
		if dec, err := base64.StdEncoding.DecodeString(alt); err != nil || !bytes.Equal(dec, o.body) {
			return nil, false // this base64 reader is strict: then it is an unreadable text, nothing to learn
		}
		var sb strings.Builder
		sb.WriteString(begin + "\n")
		for len(alt) > 0 {
			k := min(64, len(alt))
			sb.WriteString(alt[:k] + "\n")
			alt = alt[k:]
		}
		sb.WriteString(end + "\n")
		return []byte(sb.String()), true
	case "begin-dash":
		return o.text[1:], true
	case "end-mismatch":
		return []byte(begin + "\n" + strings.Join(b64, "\n") + "\n" + strings.Replace(end, "NEBULA", "NEBULB", 1) + "\n"), true
	case "b64-char":
		if len(b64) == 0 {
			return nil, false
		}
		l := []byte(b64[0])
		l[rnd.Intn(len(l))] = '*'
		return []byte(begin + "\n" + string(l) + "\n" + strings.Join(b64[1:], "\n") + "\n" + end + "\n"), true
	}
	panic(fmt.Sprintf("c43: pem alteration %q", arg))
	return nil, false
}

// ---------------------------------------------------------------------------------------------------------------
// alterations of the encrypted message: returns the altered bodies with a position class each

type c43Alt struct {
	body   []byte
	sub    string
	detail string
}

func (r *c43Run) encAlter(rnd *rand.Rand, v *c43Vec, o *c43Orig, full bool) []c43Alt {
	tr := &c43Tree{top: c43Clone(o.tree)}
	one := func() []c43Alt { return []c43Alt{{body: c43Emit(tr.top)}} }
	flipIn := func(name string, from, to int, what string) []c43Alt {
		// every byte (thorough) / boundaries + sample (quick) of one bytes field
		var out []c43Alt
		n := to - from
		for _, p := range c43Walk(rnd, n, [][3]any{{what, 0, n}}, full, []int{0, 7}, 3) {
			t2 := &c43Tree{top: c43Clone(o.tree)}
			t2.fld(name).b[from+p.at] ^= c43Mask(p)
			out = append(out, c43Alt{body: c43Emit(t2.top), sub: "", detail: fmt.Sprintf(" (byte %d of the %s, %s)", p.at, what, c43How(p))})
		}
		return out
	}
	op, arg := v.In.Op, v.In.Arg
	switch op + "/" + arg {
	// ---- decoded values change
	case "field/alg:alt":
		tr.fld("alg").b = []byte("AES-128-GCM")
	case "field/alg:case":
		tr.fld("alg").b = []byte("aes-256-gcm")
	case "field/alg:absent":
		tr.meta().sub = c43Del(tr.meta().sub, "alg")
	case "field/ver:+":
		tr.fld("ver").v++
	case "field/ver:-":
		tr.fld("ver").v--
	case "field/ver:absent":
		tr.argon().sub = c43Del(tr.argon().sub, "ver")
	case "field/mem:+", "field/it:+", "field/par:+":
		tr.fld(strings.SplitN(arg, ":", 2)[0]).v++
	case "field/mem:-", "field/it:-", "field/par:-":
		tr.fld(strings.SplitN(arg, ":", 2)[0]).v-- // 1 -> an explicit 0
	case "field/mem:x2":
		tr.fld("mem").v *= 2
	case "field/par:+256":
		tr.fld("par").v += 256
	case "field/mem:absent", "field/it:absent", "field/par:absent":
		tr.argon().sub = c43Del(tr.argon().sub, strings.SplitN(arg, ":", 2)[0])
	case "field/salt:flip":
		return flipIn("salt", 0, len(tr.fld("salt").b), "salt")
	case "field/salt:trunc":
		s := tr.fld("salt")
		s.b = s.b[:len(s.b)-1]
	case "field/salt:ext":
		s := tr.fld("salt")
		s.b = append(s.b, byte(rnd.Intn(2))*0xff)
	case "field/salt:short":
		s := tr.fld("salt")
		s.b = s.b[:15]
	case "field/salt:empty":
		tr.fld("salt").b = []byte{}
	case "field/salt:absent":
		tr.argon().sub = c43Del(tr.argon().sub, "salt")
	case "field/nonce:flip":
		return flipIn("blob", 0, 12, "nonce")
	case "field/ct:flip":
		return flipIn("blob", 12, len(tr.blob().b)-16, "ciphertext")
	case "field/tag:flip":
		n := len(tr.blob().b)
		return flipIn("blob", n-16, n, "tag")
	case "field/blob:trunc1":
		b := tr.blob()
		b.b = b.b[:len(b.b)-1]
	case "field/blob:trunc16":
		b := tr.blob()
		b.b = b.b[:len(b.b)-16]
	case "field/blob:ext1":
		b := tr.blob()
		b.b = append(b.b, byte(rnd.Intn(256)))
	case "field/blob:pre1":
		b := tr.blob()
		b.b = append([]byte{byte(rnd.Intn(256))}, b.b...)
	case "field/blob:nonceonly":
		b := tr.blob()
		b.b = b.b[:12]
	case "field/blob:empty":
		tr.blob().b = []byte{}
	case "field/blob:absent":
		tr.top = c43Del(tr.top, "blob")
	case "field/meta:absent":
		tr.top = c43Del(tr.top, "meta")
	case "field/argon:absent":
		tr.meta().sub = c43Del(tr.meta().sub, "argon")
	case "field/dup-last:mem":
		g := *tr.fld("mem")
		g.v++
		tr.argon().sub = c43InsAfter(tr.argon().sub, "mem", &g, false)
	case "field/dup-last:salt":
		g := *tr.fld("salt")
		g.b = append([]byte{}, g.b...)
		g.b[rnd.Intn(len(g.b))] ^= 1 << rnd.Intn(8)
		tr.argon().sub = append(tr.argon().sub, &g)
	case "field/dup-last:blob":
		g := *tr.blob()
		g.b = append([]byte{}, g.b...)
		g.b[rnd.Intn(len(g.b))] ^= 1 << rnd.Intn(8)
		tr.top = append(tr.top, &g)
	// ---- the same decoded values in other bytes
	case "reenc/unknown:top":
		u := &c43F{num: 15, typ: protowire.VarintType, v: 5, name: "unknown"}
		if rnd.Intn(2) == 0 {
			tr.top = append(tr.top, u)
		} else {
			tr.top = append([]*c43F{u}, tr.top...)
		}
	case "reenc/unknown:top-bytes":
		tr.top = append(tr.top, &c43F{num: 2047, typ: protowire.BytesType, b: []byte("hello"), name: "unknown"})
	case "reenc/unknown:meta":
		tr.meta().sub = append(tr.meta().sub, &c43F{num: 7, typ: protowire.VarintType, v: 1, name: "unknown"})
	case "reenc/unknown:argon":
		tr.argon().sub = append(tr.argon().sub, &c43F{num: 9, typ: protowire.BytesType, b: []byte("x"), name: "unknown"})
	case "reenc/dup-same:salt":
		g := *tr.fld("salt")
		tr.argon().sub = append(tr.argon().sub, &g)
	case "reenc/dup-same:blob":
		g := *tr.blob()
		tr.top = append(tr.top, &g)
	case "reenc/dup-same:meta":
		g := *tr.meta()
		g.sub = c43Clone(g.sub)
		tr.top = c43InsAfter(tr.top, "meta", &g, false)
	case "reenc/dup-first:mem":
		g := *tr.fld("mem")
		g.v++
		tr.argon().sub = c43InsAfter(tr.argon().sub, "mem", &g, true)
	case "reenc/overlong:mem":
		f := tr.fld("mem")
		f.vlen = protowire.SizeVarint(f.v) + 1 + rnd.Intn(2)
	case "reenc/hibits:mem":
		tr.fld("mem").v |= 1 << (32 + uint(rnd.Intn(31)))
	case "reenc/hibits:par":
		tr.fld("par").v |= 1 << (32 + uint(rnd.Intn(31)))
	case "reenc/reorder:top":
		tr.top = []*c43F{tr.blob(), tr.meta()}
	case "reenc/reorder:argon":
		a := tr.argon()
		for i, j := 0, len(a.sub)-1; i < j; i, j = i+1, j-1 {
			a.sub[i], a.sub[j] = a.sub[j], a.sub[i]
		}
	case "reenc/split:meta":
		m := tr.meta()
		m2 := *m
		m.sub = []*c43F{m.sub[c43Idx(m.sub, "alg")]}
		m2.sub = []*c43F{m2.sub[c43Idx(m2.sub, "argon")]}
		if rnd.Intn(2) == 0 {
			tr.top = []*c43F{m, tr.blob(), &m2} // the two halves around the ciphertext
		} else {
			tr.top = []*c43F{m, &m2, tr.blob()}
		}
	// ---- the message as a byte string
	case "wire/trunc:boundary":
		return []c43Alt{{body: append([]byte{}, o.body[:tr.meta().end]...)}}
	case "wire/trunc:empty":
		return []c43Alt{{body: []byte{}}}
	case "wire/trunc:mid":
		var out []c43Alt
		cut := map[int]bool{0: true, tr.meta().end: true}
		for _, p := range c43Walk(rnd, len(o.body), c43Regions(o), full, []int{0}, 6) {
			if cut[p.at] {
				continue
			}
			cut[p.at] = true
			out = append(out, c43Alt{body: append([]byte{}, o.body[:p.at]...), sub: "", detail: fmt.Sprintf(" (first %d of %d bytes; cut in %s)", p.at, len(o.body), p.region)})
		}
		return out
	case "wire/append:ff":
		return []c43Alt{{body: append(append([]byte{}, o.body...), 0xff)}}
	case "wire/append:00":
		return []c43Alt{{body: append(append([]byte{}, o.body...), 0x00)}}
	case "wire/append:half":
		b := protowire.AppendTag(append([]byte{}, o.body...), 15, protowire.BytesType)
		return []c43Alt{{body: append(b, 5, 'a')}}
	case "wire/flip:changed", "wire/flip:malformed", "reenc/flip:same":
		want := strings.SplitN(arg, ":", 2)[1]
		var out []c43Alt
		bits := []int{0, 7}
		if full && strings.HasPrefix(o.ks.name, "k") {
			bits = []int{0, 1, 2, 3, 4, 5, 6, 7}
		}
		for _, p := range c43Walk(rnd, len(o.body), c43Regions(o), full, bits, 24) {
			b := append([]byte{}, o.body...)
			b[p.at] ^= c43Mask(p)
			if c43Class(o.view, b) != want {
				continue
			}
			out = append(out, c43Alt{body: b, sub: p.region, detail: fmt.Sprintf(" (byte %d of the message, %s, in %s)", p.at, c43How(p), p.region)})
		}
		return out
	default:
		panic(fmt.Sprintf("c43: alteration %s/%s not implemented", op, arg))
	}
	return one()
}

// ---------------------------------------------------------------------------------------------------------------

func (r *c43Run) runVector(v *c43Vec, sets []*c43KeySet) {
	res := r.res
	in := v.In
	h := fnv.New64a()
	h.Write([]byte(v.line))
	for ki, ks := range sets {
		rnd := rand.New(rand.NewSource(int64(h.Sum64()>>1) ^ vSeed()*1000003 ^ int64(ki)*7919))
		var o *c43Orig
		if in.M == "enc" {
			if (in.Prof == "def32" || in.Prof == "def64" || in.Prof == "par255") && ki > 0 {
				continue // the expensive profiles: one key set
			}
			o = r.enc[fmt.Sprintf("%s/%s/%s/%d", in.C, in.Prof, in.Penc, ki)]
		} else {
			o = r.plain[fmt.Sprintf("%s/%s/%d", in.M, in.C, ki)]
		}
		if o == nil {
			panic(fmt.Sprintf("c43: no original file for %+v key set %d", in, ki))
		}
		pass := []byte("c43 irrelevant passphrase")
		if in.M == "enc" {
			pass = c43PassRel(rnd, o.pass, in.Prel)
			if bytes.Equal(pass, o.pass) != (in.Prel == "same") {
				panic(fmt.Sprintf("c43: passphrase relation %s not realised", in.Prel))
			}
		}
		full := !r.quick && in.Prof != "par255" && (in.Penc == "ascii" || in.Penc == "-")
		hit := func() {
			res.Hit("alt:" + in.Op + ":" + c43ArgClass(v))
			res.Hit("opener:" + in.O)
			res.Hit("written:" + in.M + "/" + in.C)
		}
		res.Case(v.line + "#" + ks.name)
		switch in.Op {
		case "none":
			hit()
			r.compare(v, o, pass, o.text, "", "")
			if in.Prel != "same" {
				res.Hit("pass:" + in.Prel)
			}
		case "banner":
			hit()
			r.compare(v, o, pass, c43PEM(in.Arg, o.body), "", "")
		case "pem":
			if strings.HasPrefix(in.Arg, "flip:") {
				r.pemWalk(rnd, v, o, pass, full, hit)
				continue
			}
			file, ok := r.pemAlter(rnd, o, in.Arg)
			if !ok {
				r.note("skip:pem:" + in.Arg)
				continue
			}
			blk, srest := pem.Decode(file)
			broken := v.File.Pem == "broken"
			if broken && blk != nil {
				r.driftf("pem %s: a standard PEM reader still finds a block", in.Arg)
				continue
			}
			if !broken {
				if blk == nil || blk.Type != o.banner || !bytes.Equal(blk.Bytes, o.body) {
					r.note("pem-variant-unreadable-for-encoding/pem:" + in.Arg)
				} else {
					switch v.File.Rest {
					case "none":
						if len(srest) != 0 {
							r.driftf("pem %s: remainder %q", in.Arg, srest)
						}
					case "text":
						if !bytes.HasPrefix(srest, []byte("trailing text")) {
							r.driftf("pem %s: remainder %q", in.Arg, srest)
						}
					case "block":
						if !bytes.Equal(srest, r.second) {
							r.driftf("pem %s: remainder %q", in.Arg, srest)
						}
					}
				}
			}
			hit()
			r.compare(v, o, pass, file, "", "")
		case "body":
			// raw key bytes of a plain file
			var alts []c43Alt
			switch in.Arg {
			case "flip":
				for _, p := range c43Walk(rnd, len(o.body), [][3]any{{"key", 0, len(o.body)}}, full, []int{0, 7}, 6) {
					b := append([]byte{}, o.body...)
					b[p.at] ^= c43Mask(p)
					alts = append(alts, c43Alt{body: b, detail: fmt.Sprintf(" (byte %d, %s)", p.at, c43How(p))})
				}
			case "trunc1":
				alts = []c43Alt{{body: o.body[:len(o.body)-1]}}
			case "ext1":
				alts = []c43Alt{{body: append(append([]byte{}, o.body...), byte(rnd.Intn(256)))}}
			case "empty":
				alts = []c43Alt{{body: []byte{}}}
			}
			for _, a := range alts {
				if len(a.body) != v.File.Len {
					r.driftf("body %s: length %d, specification %d", in.Arg, len(a.body), v.File.Len)
					continue
				}
				hit()
				r.compare(v, o, pass, c43PEM(o.banner, a.body), "", a.detail)
			}
		case "field", "wire", "reenc":
			for _, a := range r.encAlter(rnd, v, o, full) {
				// the alteration must be of the class the specification says
				cl := c43Class(o.view, a.body)
				want := map[string]string{"field": "changed", "reenc": "same"}[in.Op]
				if in.Op == "wire" {
					want = "malformed"
					if in.Arg == "trunc:boundary" || in.Arg == "flip:changed" {
						want = "changed"
					}
					if in.Arg == "trunc:mid" && cl == "changed" {
						want = "changed" // a cut right after a complete field: one field less; refused either way
					}
					if in.Arg == "trunc:empty" {
						want = cl
					}
				}
				if cl != want || (in.Op == "reenc" && bytes.Equal(a.body, o.body)) {
					r.driftf("%s %s%s: the altered message is %q for proto.Unmarshal, the specification's class is %q", in.Op, in.Arg, a.detail, cl, want)
					continue
				}
				if in.Op == "field" || in.Op == "reenc" {
					if d := c43Decode(a.body); d.ok && v.File.Wf && in.Arg != "flip:same" &&
						(d.alg != v.File.Alg && d.hasMeta || d.ver != v.File.Ver || d.mem != v.File.Mem || d.it != v.File.It || d.par != v.File.Par || len(d.salt) != v.File.Salt.Len) {
						r.driftf("%s %s: decoded values %+v differ from the specification's term %+v", in.Op, in.Arg, d, v.File)
						continue
					}
				}
				hit()
				if a.sub != "" {
					res.Hit("walk:" + a.sub)
				}
				r.compare(v, o, pass, c43PEM(o.banner, a.body), a.sub, a.detail)
			}
		default:
			panic(fmt.Sprintf("c43: op %q", in.Op))
		}
	}
}

// walk over the characters of the PEM text: "flip:same" = the text still carries the same block for a standard PEM
// reader, "flip:noblock" = it carries none.  (Flips that change the body bytes are the business of wire / body flips.)
func (r *c43Run) pemWalk(rnd *rand.Rand, v *c43Vec, o *c43Orig, pass []byte, full bool, hit func()) {
	want := strings.SplitN(v.In.Arg, ":", 2)[1]
	for _, p := range c43Walk(rnd, len(o.text), c43PemRegions(o.text), full && strings.HasPrefix(o.ks.name, "k"), []int{0, 2, 5}, 40) {
		f := append([]byte{}, o.text...)
		f[p.at] ^= c43Mask(p)
		blk, _ := pem.Decode(f)
		var cl string
		switch {
		case blk == nil:
			cl = "noblock"
		case blk.Type == o.banner && bytes.Equal(blk.Bytes, o.body):
			cl = "same"
		default:
			cl = "other"
		}
		if cl != want {
			continue
		}
		hit()
		r.compare(v, o, pass, f, "", fmt.Sprintf(" (character %d of the PEM text, %s)", p.at, c43How(p)))
	}
}

// regions of a canonical PEM text: BEGIN line, every base64 line, the padding, END line (line ends included)
func c43PemRegions(text []byte) [][3]any {
	var out [][3]any
	at := 0
	lines := bytes.SplitAfter(text, []byte("\n"))
	for i, ln := range lines {
		if len(ln) == 0 {
			continue
		}
		name := "b64"
		switch {
		case i == 0:
			name = "begin"
		case bytes.HasPrefix(ln, []byte("-----END")):
			name = "end"
		}
		if k := bytes.IndexByte(ln, '='); name == "b64" && k >= 0 {
			out = append(out, [3]any{"b64", at, at + k}, [3]any{"pad", at + k, at + len(ln)})
		} else {
			out = append(out, [3]any{name, at, at + len(ln)})
		}
		at += len(ln)
	}
	return out
}

func TestVerif_C43(t *testing.T) {
	res := vNewResult()
	defer res.Write(t)
	run := &c43Run{t: t, res: res, quick: vQuick(), notes: map[string]int{}, spent: map[string]time.Duration{}, calls: map[string]int{}, plain: map[string]*c43Orig{}, enc: map[string]*c43Orig{}}

	var vecs []*c43Vec
	vReadNDJSON(t, "c43_vectors.ndjson", func(line []byte) {
		v := &c43Vec{line: string(line)}
		if err := json.Unmarshal(line, v); err != nil {
			t.Fatalf("c43: vector: %v: %s", err, line)
		}
		vecs = append(vecs, v)
	})
	// TLC dumps in a run-dependent order
	sort.Slice(vecs, func(i, j int) bool { return vecs[i].line < vecs[j].line })

	// everything random comes from the seed, the salts and nonces drawn by the code under test included
	rnd := vRand()
	saved := crand.Reader
	crand.Reader = &c43Reader{r: rand.New(rand.NewSource(vSeed()*104729 + 43))}
	defer func() { crand.Reader = saved }()

	nk := 10
	if run.quick {
		nk = 2
	}
	var sets []*c43KeySet
	for i := 0; i < nk; i++ {
		sets = append(sets, c43NewKeySet(t, rnd, fmt.Sprintf("k%d", i)))
	}
	sets = append(sets, c43NewKeySet(t, rnd, []string{"zeros", "ones"}[int(vSeed()&1)]))
	if !run.quick {
		sets = append(sets, c43NewKeySet(t, rnd, []string{"ones", "zeros"}[int(vSeed()&1)]))
	}

	// the original files, written by the real Marshal APIs, in a fixed order
	banner0 := map[string]string{}
	type encKey struct {
		c, prof, penc string
		term          c43Term
	}
	encWanted := map[string]encKey{}
	for _, v := range vecs {
		banner0[v.In.M+"/"+v.In.C] = v.Orig.Banner
		if v.In.M == "enc" {
			encWanted[v.In.C+"/"+v.In.Prof+"/"+v.In.Penc] = encKey{v.In.C, v.In.Prof, v.In.Penc, v.Orig}
		}
	}
	check := func(o *c43Orig, specBanner string) {
		blk, rest := pem.Decode(o.text)
		if blk == nil || len(rest) != 0 || !bytes.Equal(c43PEM(blk.Type, blk.Bytes), o.text) {
			res.Mismatch(fmt.Sprintf("marshal.%s.%s:not-one-pem-block", o.m, o.c), fmt.Sprintf("the file written for %s/%s is not exactly one canonical PEM block: %q", o.m, o.c, o.text), nil)
			t.Fatalf("c43: cannot go on without a file")
		}
		o.banner, o.body = blk.Type, blk.Bytes
		if blk.Type != specBanner {
			res.Mismatch(fmt.Sprintf("marshal.%s.%s:banner", o.m, o.c), fmt.Sprintf("the file written for %s/%s carries the banner %q, the format says %q", o.m, o.c, blk.Type, specBanner), nil)
		}
	}
	for ki, ks := range sets {
		for _, m := range []string{"priv", "spriv", "pub", "spub"} {
			for _, c := range []string{"25519", "p256"} {
				spec, ok := banner0[m+"/"+c]
				if !ok {
					continue
				}
				o := &c43Orig{ks: ks, m: m, c: c, key: ks.key[m+"/"+c]}
				switch m {
				case "priv":
					o.text = MarshalPrivateKeyToPEM(c43Curve(c), o.key)
				case "spriv":
					o.text = MarshalSigningPrivateKeyToPEM(c43Curve(c), o.key)
				case "pub":
					o.text = MarshalPublicKeyToPEM(c43Curve(c), o.key)
				case "spub":
					o.text = MarshalSigningPublicKeyToPEM(c43Curve(c), o.key)
				}
				check(o, spec)
				if !bytes.Equal(o.body, o.key) {
					res.Mismatch(fmt.Sprintf("marshal.%s.%s:body", m, c), fmt.Sprintf("the block written for %s/%s does not carry the key bytes", m, c), nil)
				}
				run.plain[fmt.Sprintf("%s/%s/%d", m, c, ki)] = o
			}
		}
	}
	var encNames []string
	for k := range encWanted {
		encNames = append(encNames, k)
	}
	sort.Strings(encNames)
	for _, name := range encNames {
		w := encWanted[name]
		for ki, ks := range sets {
			if (w.prof == "def32" || w.prof == "def64" || w.prof == "par255") && ki > 0 {
				continue
			}
			o := &c43Orig{ks: ks, m: "enc", c: w.c, key: ks.key["enc/"+w.c], pass: c43PassEnc(rnd, w.penc)}
			if c43Costly(w.prof) {
				runtime.GC() // see below
			}
			text, err := EncryptAndMarshalSigningPrivateKey(c43Curve(w.c), append([]byte{}, o.key...), append([]byte{}, o.pass...), c43Profile(t, w.term))
			if err != nil {
				res.Mismatch(fmt.Sprintf("marshal.enc.%s:error", w.c), fmt.Sprintf("EncryptAndMarshalSigningPrivateKey(%s, KDF %s, passphrase class %s) failed: %v", w.c, w.prof, w.penc, err), nil)
				t.Fatalf("c43: cannot go on without a file")
			}
			o.text = text
			check(o, banner0["enc/"+w.c])
			tree, err := c43Parse(o.body, 0, "top")
			if err != nil || !bytes.Equal(c43Emit(tree), o.body) {
				t.Fatalf("c43: the harness' protobuf writer does not reproduce the message written by the code (%v): %x", err, o.body)
			}
			o.tree, o.view = tree, c43Decode(o.body)
			tm := w.term
			if !o.view.ok || !o.view.hasArgon || o.view.alg != tm.Alg || o.view.ver != tm.Ver || o.view.mem != tm.Mem || o.view.it != tm.It || o.view.par != tm.Par ||
				len(o.view.salt) != tm.Salt.Len || len(o.view.blob) != 12+tm.Len+16 {
				res.Mismatch(fmt.Sprintf("marshal.enc.%s:content", w.c), fmt.Sprintf("the encrypted message written with KDF %s carries %+v, the format says %+v with a %d-byte nonce||ciphertext||tag", w.prof, o.view, tm, 12+tm.Len+16), nil)
				t.Fatalf("c43: cannot go on without a well-formed file")
			}
			run.enc[fmt.Sprintf("%s/%d", name, ki)] = o
		}
	}
	run.second = run.plain["spub/25519/0"].text

	// The vectors with the big KDF profiles first, one at a time, the biggest first, a collection before each: Argon2
	// allocates its memory per call, and first-touch page faults of fresh memory are what these vectors cost (tens of
	// seconds per GiB in a VM); after a collection the next call reuses the pages of the previous one.
	var costly, cheap []*c43Vec
	for _, v := range vecs {
		if c43Costly(v.In.Prof) {
			costly = append(costly, v)
		} else {
			cheap = append(cheap, v)
		}
	}
	sort.SliceStable(costly, func(i, j int) bool { return costly[i].In.Prof > costly[j].In.Prof })
	for _, v := range costly {
		runtime.GC()
		run.runVector(v, sets)
	}
	vecs = cheap

	// the other vectors in parallel (every vector has its own seeded generator)
	var wg sync.WaitGroup
	ch := make(chan *c43Vec, 64)
	for w := 0; w < runtime.GOMAXPROCS(0); w++ {
		wg.Add(1)
		go func() {
			defer wg.Done()
			for v := range ch {
				run.runVector(v, sets)
			}
		}()
	}
	for i, v := range vecs {
		if i%400 == 0 {
			res.Sample(json.RawMessage(v.line))
		}
		ch <- v
	}
	close(ch)
	wg.Wait()

	res.Extra["drift"] = run.drift
	for k, d := range run.spent {
		t.Logf("c43: KDF profile %-7s %6d opener calls, %v in total", k, run.calls[k], d)
	}
	res.Extra["opener_calls"] = run.calls
	res.Extra["notes"] = run.notes
	res.Extra["vectors"] = len(vecs)
	res.Extra["key_sets"] = len(sets)
}
