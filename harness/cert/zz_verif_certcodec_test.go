package cert

// Helpers shared by the C02 and C03 harnesses (spec/CertCodec.tla): deterministic keys and CAs,
// projection of certificates onto the specification's vocabulary, decoders wrapped against panics,
// and minimal protobuf / DER element editors used to tamper with and to hand-make encodings.

import (
	"bytes"
	"crypto/ecdh"
	"crypto/ed25519"
	"encoding/pem"
	"errors"
	"fmt"
	"math/rand"
	"net/netip"
	"slices"
	"time"

	"github.com/slackhq/nebula/cert/p256"
	"golang.org/x/crypto/curve25519"
	"google.golang.org/protobuf/encoding/protowire"
)

// all certificates of the harness live around this instant (2030-01-01T00:00:00Z); never the wall clock
const certcodecT0 = int64(1893456000)

func certcodecBytes(rnd *rand.Rand, n int) []byte {
	b := make([]byte, n)
	for i := range b {
		b[i] = byte(rnd.Intn(256))
	}
	return b
}

func certcodecCurveName(c Curve) string {
	if c == Curve_P256 {
		return "p256"
	}
	return "x25519"
}

func certcodecCurve(s string) Curve {
	if s == "p256" {
		return Curve_P256
	}
	return Curve_CURVE25519
}

// certcodecSignKey returns a signing key pair in the raw forms TBSCertificate.Sign / CheckSignature expect.
func certcodecSignKey(rnd *rand.Rand, curve Curve) (pub, priv []byte) {
	if curve == Curve_P256 {
		for {
			b := certcodecBytes(rnd, 32)
			k, err := ecdh.P256().NewPrivateKey(b)
			if err != nil {
				continue
			}
			return k.PublicKey().Bytes(), b
		}
	}
	k := ed25519.NewKeyFromSeed(certcodecBytes(rnd, 32))
	return []byte(k.Public().(ed25519.PublicKey)), []byte(k)
}

// certcodecHostKey returns a key-agreement public key as found in host certificates.
func certcodecHostKey(rnd *rand.Rand, curve Curve) []byte {
	if curve == Curve_P256 {
		pub, _ := certcodecSignKey(rnd, curve)
		return pub
	}
	pub, err := curve25519.X25519(certcodecBytes(rnd, 32), curve25519.Basepoint)
	if err != nil {
		panic(err)
	}
	return pub
}

type certcodecCA struct {
	cert      Certificate
	pub, priv []byte
	fp        string
}

func certcodecNewCA(ver Version, curve Curve, name string, pub, priv []byte, nb, na int64) *certcodecCA {
	tbs := &TBSCertificate{Version: ver, Curve: curve, Name: name, IsCA: true, PublicKey: pub,
		NotBefore: time.Unix(nb, 0), NotAfter: time.Unix(na, 0)}
	c, err := tbs.Sign(nil, curve, priv)
	if err != nil {
		panic(fmt.Sprintf("verif: cannot make CA: %v", err))
	}
	fp, err := c.Fingerprint()
	if err != nil {
		panic(err)
	}
	return &certcodecCA{cert: c, pub: pub, priv: priv, fp: fp}
}

// certcodecPool builds a pool without consulting the wall clock (AddCA reports expiry relative to
// time.Now() but adds the CA first).
func certcodecPool(block []string, cas ...*certcodecCA) *CAPool {
	p := NewCAPool()
	for _, ca := range cas {
		if err := p.AddCA(ca.cert); err != nil && !errors.Is(err, ErrExpired) {
			panic(fmt.Sprintf("verif: AddCA: %v", err))
		}
	}
	for _, f := range block {
		p.BlocklistFingerprint(f)
	}
	return p
}

func certcodecBanner(ver Version) string {
	if ver == Version2 {
		return CertificateV2Banner
	}
	return CertificateBanner
}

// decoders, wrapped so that a panic is an observation and not the end of the run
func certcodecDecodeStd(banner string, raw []byte) (c Certificate, err error) {
	defer func() {
		if r := recover(); r != nil {
			c, err = nil, fmt.Errorf("PANIC: %v", r)
		}
	}()
	c, _, err = UnmarshalCertificateFromPEM(pem.EncodeToMemory(&pem.Block{Type: banner, Bytes: raw}))
	return c, err
}

func certcodecDecodeHS(ver Version, raw, pk []byte, curve Curve) (c Certificate, err error) {
	defer func() {
		if r := recover(); r != nil {
			c, err = nil, fmt.Errorf("PANIC: %v", r)
		}
	}()
	return Recombine(ver, raw, pk, curve)
}

func certcodecIsPanic(err error) bool {
	return err != nil && len(err.Error()) >= 6 && err.Error()[:6] == "PANIC:"
}

func certcodecStrsEq(a, b []string) bool { return (len(a) == 0 && len(b) == 0) || slices.Equal(a, b) }
func certcodecNetsEq(a, b []netip.Prefix) bool {
	return (len(a) == 0 && len(b) == 0) || slices.Equal(a, b)
}

// certcodecIdentityDiff projects a decoded certificate onto the identity-diff set of CertCodec.tla
// (the ten identity fields of the statement; lists compared in order, validity in whole seconds).
func certcodecIdentityDiff(a, b Certificate) []string {
	d := []string{}
	if a.Name() != b.Name() {
		d = append(d, "name")
	}
	if !certcodecNetsEq(a.Networks(), b.Networks()) {
		d = append(d, "nets")
	}
	if !certcodecNetsEq(a.UnsafeNetworks(), b.UnsafeNetworks()) {
		d = append(d, "unsafe")
	}
	if !certcodecStrsEq(a.Groups(), b.Groups()) {
		d = append(d, "groups")
	}
	if a.IsCA() != b.IsCA() {
		d = append(d, "isCA")
	}
	if a.NotBefore().Unix() != b.NotBefore().Unix() {
		d = append(d, "nb")
	}
	if a.NotAfter().Unix() != b.NotAfter().Unix() {
		d = append(d, "na")
	}
	if a.Issuer() != b.Issuer() {
		d = append(d, "issuer")
	}
	if a.Curve() != b.Curve() {
		d = append(d, "curve")
	}
	if !bytes.Equal(a.PublicKey(), b.PublicKey()) {
		d = append(d, "key")
	}
	return d
}

// certcodecSameCert: "" when b is field-for-field (and fingerprint-for-fingerprint) the certificate a.
func certcodecSameCert(a, b Certificate) string {
	if a.Version() != b.Version() {
		return "version"
	}
	if d := certcodecIdentityDiff(a, b); len(d) > 0 {
		return d[0]
	}
	if !bytes.Equal(a.Signature(), b.Signature()) {
		return "signature"
	}
	fa, ea := a.Fingerprint()
	fb, eb := b.Fingerprint()
	if ea != nil || eb != nil || fa != fb {
		return "fingerprint"
	}
	return ""
}

func certcodecSetSig(c Certificate, sig []byte) Certificate {
	nc := c.Copy()
	var err error
	switch v := nc.(type) {
	case *certificateV1:
		err = v.setSignature(sig)
	case *certificateV2:
		err = v.setSignature(sig)
	default:
		panic("verif: unknown certificate type")
	}
	if err != nil {
		panic(err)
	}
	return nc
}

// certcodecStripped = the standard encoding with the signature replaced by one fixed byte: two
// certificates have equal stripped encodings iff their signed content is byte-identical.
func certcodecStripped(c Certificate) []byte {
	b, err := certcodecSetSig(c, []byte{0}).Marshal()
	if err != nil {
		return nil
	}
	return b
}

func certcodecSigRel(orig, got []byte, curve Curve) string {
	if bytes.Equal(orig, got) {
		return "orig"
	}
	if curve == Curve_P256 {
		if tw, err := p256.Swap(orig); err == nil && bytes.Equal(tw, got) {
			return "twin"
		}
	}
	return "other"
}

// ---------------------------------------------------------------------------------------------
// protobuf wire elements (v1)

type certcodecPB struct {
	num protowire.Number
	typ protowire.Type
	raw []byte // the whole field, tag included
	val []byte // payload of a length-delimited field
	u   uint64 // value of a varint field
}

func certcodecPBParse(b []byte) ([]certcodecPB, bool) {
	var out []certcodecPB
	for len(b) > 0 {
		num, typ, n := protowire.ConsumeTag(b)
		if n < 0 {
			return nil, false
		}
		m := protowire.ConsumeFieldValue(num, typ, b[n:])
		if m < 0 {
			return nil, false
		}
		f := certcodecPB{num: num, typ: typ, raw: b[:n+m]}
		switch typ {
		case protowire.BytesType:
			f.val, _ = protowire.ConsumeBytes(b[n:])
		case protowire.VarintType:
			f.u, _ = protowire.ConsumeVarint(b[n:])
		}
		out = append(out, f)
		b = b[n+m:]
	}
	return out, true
}

func certcodecPBJoin(fs []certcodecPB) []byte {
	var b []byte
	for _, f := range fs {
		b = append(b, f.raw...)
	}
	return b
}

func certcodecPBBytes(num protowire.Number, v []byte) certcodecPB {
	raw := protowire.AppendBytes(protowire.AppendTag(nil, num, protowire.BytesType), v)
	return certcodecPB{num: num, typ: protowire.BytesType, raw: raw, val: v}
}

func certcodecPBVarint(num protowire.Number, v uint64) certcodecPB {
	raw := protowire.AppendVarint(protowire.AppendTag(nil, num, protowire.VarintType), v)
	return certcodecPB{num: num, typ: protowire.VarintType, raw: raw, u: v}
}

// ---------------------------------------------------------------------------------------------
// DER elements (v2); every tag of the format fits one byte

type certcodecEl struct {
	tag  byte
	body []byte
	raw  []byte
}

func certcodecDERParse(b []byte) ([]certcodecEl, bool) {
	var out []certcodecEl
	for len(b) > 0 {
		if len(b) < 2 || b[0]&0x1f == 0x1f {
			return nil, false
		}
		l, hdr := int(b[1]), 2
		if b[1]&0x80 != 0 {
			nb := int(b[1] & 0x7f)
			if nb == 0 || nb > 3 || len(b) < 2+nb {
				return nil, false
			}
			l = 0
			for _, x := range b[2 : 2+nb] {
				l = l<<8 | int(x)
			}
			hdr = 2 + nb
		}
		if len(b) < hdr+l {
			return nil, false
		}
		out = append(out, certcodecEl{tag: b[0], body: b[hdr : hdr+l], raw: b[:hdr+l]})
		b = b[hdr+l:]
	}
	return out, true
}

// certcodecDER encodes one element with the minimal (DER) length form.
func certcodecDER(tag byte, body []byte) []byte {
	out := []byte{tag}
	switch l := len(body); {
	case l < 0x80:
		out = append(out, byte(l))
	case l < 0x100:
		out = append(out, 0x81, byte(l))
	case l < 0x10000:
		out = append(out, 0x82, byte(l>>8), byte(l))
	default:
		out = append(out, 0x83, byte(l>>16), byte(l>>8), byte(l))
	}
	return append(out, body...)
}

func certcodecDERJoin(els []certcodecEl) []byte {
	var b []byte
	for _, e := range els {
		b = append(b, e.raw...)
	}
	return b
}

// certcodecDERInt is the content of a minimal two's-complement INTEGER.
func certcodecDERInt(v int64) []byte {
	b := make([]byte, 8)
	for i := 0; i < 8; i++ {
		b[i] = byte(v >> (56 - 8*i))
	}
	for len(b) > 1 && ((b[0] == 0 && b[1]&0x80 == 0) || (b[0] == 0xff && b[1]&0x80 != 0)) {
		b = b[1:]
	}
	return b
}
