package cert

// C04 — binding of spec/CertTrust.tla (SignOK, Within, Accept) to TBSCertificate.Sign / SignWith.
//   V: every (TBS certificate, signing CA | self-signing) vector of TLC's lattice is handed to the real Sign with the
//      CA's own key; success is allowed only where SignOK holds; whatever is issued is decoded and verified against a
//      pool holding the signer at every second 0..TMax and compared with Accept; every P-256 signature must be low-S,
//      also when the SignerLambda hands back a high-S signature.
//   T: seeded random TBS certificates (dozens of networks and groups) against SignOK evaluated by TLC (trace).
//   H: histories on long-lived TBS objects (the same object signed again under other CAs, after refusals, after edits):
//      zz_verif_c04_hist_test.go, spec/CertIssue.tla.

import (
	"net/netip"
	"crypto/ecdsa"
	"crypto/rand"
	"crypto/sha256"
	"encoding/json"
	"errors"
	"fmt"
	"runtime"
	"sync"
	"testing"

	"github.com/slackhq/nebula/cert/p256"
)

type c04Vec struct {
	In struct {
		Kind string `json:"kind"`
		C    ctCert `json:"c"`
		Cas  []ctCA `json:"cas"`
	} `json:"in"`
	Exp struct {
		Ok  bool     `json:"ok"`
		Why string   `json:"why"`
		Acc []string `json:"acc"`
	} `json:"exp"`
}

type c04Plan struct {
	Random   int `json:"random"`
	RandomAB int `json:"random_ab"`
}

// c04TBS builds the real TBS certificate of an abstract certificate and returns the signer arguments of Sign.
func c04TBS(w *ctWorld, a ctCert, name string) (*TBSCertificate, Certificate, *ctKey) {
	curve := ctCurve(a.Curve)
	tbs := &TBSCertificate{
		Version:        Version(a.Ver),
		Name:           name,
		Networks:       w.emb.prefixes(a.Nets),
		UnsafeNetworks: w.emb.prefixes(a.Unsafe),
		Groups:         append([]string(nil), a.Groups...),
		IsCA:           a.IsCA,
		NotBefore:      w.at(a.Nb),
		NotAfter:       w.at(a.Na),
		PublicKey:      w.leaf[curve][0],
		Curve:          curve,
	}
	if a.Issuer.none() {
		// self-signing: the caller's own key, of the certificate's curve
		k := w.keyOf("self", curve)
		tbs.PublicKey = k.pub
		return tbs, nil, k
	}
	ca := w.ca(a.Issuer)
	return tbs, ca.cert, ca.key
}

func c04SigLow(c Certificate) (bool, error) {
	low, err := ctIsLowS(c.Signature())
	if err != nil {
		return false, err
	}
	low2, err := p256.IsNormalized(c.Signature())
	if err != nil {
		return false, err
	}
	return low && low2, nil
}

// c04Issued checks an issued certificate: low-S, and verification against a pool holding its signer at every second.
func c04Issued(w *ctWorld, res *vResult, how string, a ctCert, c Certificate, acc []string) {
	pemb, _ := c.MarshalPEM()
	det := func(extra map[string]any) map[string]any {
		d := map[string]any{"abstract": a, "base_unix": w.base, "issued_pem": string(pemb), "how": how}
		if !a.Issuer.none() {
			d["ca_pem"] = w.ca(a.Issuer).pem
		}
		for k, v := range extra {
			d[k] = v
		}
		return d
	}
	if c.Curve() == Curve_P256 {
		low, err := c04SigLow(c)
		res.Hit("lowS:" + how)
		if err != nil || !low {
			res.Mismatch("issued:high-S:"+how, fmt.Sprintf("a P-256 signature produced by %s is not in low-S form (%v)", how, err), det(nil))
		}
	}
	d := ctRecode(c)
	if a.Issuer.none() {
		// a self-signed CA is verified by adding it to a pool (AddCA checks the self-signature; ErrExpired is the wall clock)
		p := NewCAPool()
		err := p.AddCA(d)
		fp, _ := d.Fingerprint()
		if (err != nil && !errors.Is(err, ErrExpired)) || p.CAs[fp] == nil || !d.CheckSignature(d.PublicKey()) {
			res.Mismatch("issued:self-signed-not-usable", fmt.Sprintf("a self-signed CA certificate is refused by AddCA: %v", err), det(nil))
		}
		res.Hit("issued:self")
		return
	}
	pool := w.pool(ctHonest([]ctCA{a.Issuer}))
	for t, why := range acc {
		_, err := pool.VerifyCertificate(w.at(t), d)
		res.Hit("issued:" + why)
		res.Case("")
		if (err == nil) != (why == "ok") {
			res.Mismatch(fmt.Sprintf("issued:%s:%s:v%d", map[bool]string{true: "accepted", false: "rejected-" + ctErrKind(err)}[err == nil], ctClass(a, why, t), a.Ver),
				fmt.Sprintf("certificate issued by %s: VerifyCertificate at t=%d gives %v, the trust rule says %s (cert %d..%d, CA %d..%d)",
					how, t, err, why, a.Nb, a.Na, a.Issuer.Nb, a.Issuer.Na), det(map[string]any{"t": t}))
		}
	}
}

func c04RunVector(w *ctWorld, res *vResult, id string, v *c04Vec) {
	a := v.In.C
	tbs, signer, key := c04TBS(w, a, "c04-"+id)
	c, err := tbs.Sign(signer, key.curve, key.raw)
	res.Case(id)
	res.Hit("class:" + v.Exp.Why)
	det := func() map[string]any {
		d := map[string]any{"abstract": a, "base_unix": w.base, "specification": v.Exp.Why, "error": fmt.Sprint(err)}
		if signer != nil {
			d["ca_pem"] = w.ca(a.Issuer).pem
		}
		if c != nil {
			p, _ := c.MarshalPEM()
			d["issued_pem"] = string(p)
		}
		return d
	}
	switch {
	case err == nil && !v.Exp.Ok:
		res.Hit("sign:exceeds")
		res.Mismatch(fmt.Sprintf("sign:succeeds:%s:v%d", v.Exp.Why, a.Ver),
			fmt.Sprintf("Sign succeeds although the certificate violates its signer (%s): cert v%d %s isCA=%v %d..%d groups %v nets %v unsafe %v; CA %+v",
				v.Exp.Why, a.Ver, a.Curve, a.IsCA, a.Nb, a.Na, a.Groups, a.Nets, a.Unsafe, a.Issuer), det())
		return
	case err != nil && v.Exp.Ok:
		// "succeeds only when": a refusal is not a violation; it is counted (expected 0 on well-formed inputs)
		res.Hit("sign:refused-within")
		res.mu.Lock()
		n, _ := res.Extra["refused_within_constraints"].(int)
		res.Extra["refused_within_constraints"] = n + 1
		if n < 3 {
			res.Extra[fmt.Sprintf("refused_within_%d", n)] = det()
		}
		res.mu.Unlock()
		return
	case err != nil:
		res.Hit("sign:refused:" + v.Exp.Why)
		return
	}
	res.Hit("sign:ok")
	c04Issued(w, res, "Sign", a, c, v.Exp.Acc)
	c04Mapped(w, res, id, v)
	// SignWith with a signer that returns high-S (and one that returns low-S) signatures
	if key.ec != nil {
		for _, high := range []bool{true, false} {
			tbs2, signer2, _ := c04TBS(w, a, "c04-"+id)
			c2, err := tbs2.SignWith(signer2, key.curve, func(b []byte) ([]byte, error) {
				h := sha256.Sum256(b)
				sig, err := ecdsa.SignASN1(rand.Reader, key.ec, h[:])
				if err != nil {
					return nil, err
				}
				return ctForceS(sig, high), nil
			})
			how := map[bool]string{true: "SignWith(high-S lambda)", false: "SignWith(low-S lambda)"}[high]
			if err != nil {
				res.Hit("sign:refused-within")
				continue
			}
			c04Issued(w, res, how, a, c2, v.Exp.Acc)
		}
	}
}

// c04Mapped: the same (issuable) v2 certificate once more with its IPv4 unsafe networks written as IPv4-mapped IPv6
// prefixes (::ffff:a.b.c.d/(96+n)) and an IPv6 address assignment next to them.  A mapped prefix is an IPv6 prefix: it
// lies in none of the signer's IPv4 ranges (nor in its IPv6 ranges here), so a signer with an unsafe-network constraint
// must refuse it.
func c04Mapped(w *ctWorld, res *vResult, id string, v *c04Vec) {
	a := v.In.C
	if a.Ver != 2 || a.Issuer.none() || len(a.Issuer.Unsafe) == 0 {
		return
	}
	tbs, signer, key := c04TBS(w, a, "c04m-"+id)
	mapped := 0
	for i, p := range tbs.UnsafeNetworks {
		if p.Addr().Is4() {
			tbs.UnsafeNetworks[i] = netip.PrefixFrom(netip.AddrFrom16(p.Addr().As16()), p.Bits()+96)
			mapped++
		}
	}
	if mapped == 0 {
		return
	}
	has6 := false
	for _, p := range tbs.Networks {
		has6 = has6 || p.Addr().Is6()
	}
	if !has6 {
		// an IPv6 assignment the signer allows: unconstrained signer -> any; otherwise one of its own IPv6 entries
		var n6 netip.Prefix
		if len(a.Issuer.Nets) == 0 {
			n6 = netip.MustParsePrefix("fd00:77::1/64")
		} else {
			for _, p := range signer.Networks() {
				if p.Addr().Is6() && !p.Addr().Is4In6() {
					n6 = p
					break
				}
			}
		}
		if !n6.IsValid() {
			res.Hit("mapped-unsafe:no-ipv6-assignment-possible")
			return
		}
		tbs.Networks = append(tbs.Networks, n6)
	}
	c, err := tbs.Sign(signer, key.curve, key.raw)
	res.Hit("mapped-unsafe:tried")
	if err != nil {
		res.Hit("mapped-unsafe:refused")
		return
	}
	pm, _ := c.MarshalPEM()
	res.Mismatch("sign:succeeds:unsafe-outside-as-ipv4-mapped:v2",
		fmt.Sprintf("Sign succeeds for unsafe networks %v, IPv4-mapped IPv6 prefixes that lie in none of the signer's unsafe ranges %v", tbs.UnsafeNetworks, signer.UnsafeNetworks()),
		map[string]any{"abstract": a, "issued_pem": string(pm), "ca_pem": w.ca(a.Issuer).pem})
}

func TestVerif_C04(t *testing.T) {
	res := vNewResult()
	defer res.Write(t)
	var plan c04Plan
	vReadJSON(t, "c04_plan.json", &plan)
	w := ctNewWorld(ctBase(4), ctSeedEmbed(1))

	type job struct {
		id string
		v  *c04Vec
	}
	jobs := make(chan job, 256)
	var wg sync.WaitGroup
	var panicked sync.Map
	for i := 0; i < runtime.GOMAXPROCS(0); i++ {
		wg.Add(1)
		go func() {
			defer wg.Done()
			for j := range jobs {
				func() {
					defer func() {
						if r := recover(); r != nil {
							panicked.Store(j.id, fmt.Sprint(r))
						}
					}()
					c04RunVector(w, res, j.id, j.v)
				}()
			}
		}()
	}
	n := 0
	vReadNDJSON(t, "vectors.ndjson", func(line []byte) {
		v := new(c04Vec)
		if err := json.Unmarshal(line, v); err != nil {
			t.Fatalf("vector: %v: %s", err, line)
		}
		n++
		if n%1500 == 1 {
			res.Sample(json.RawMessage(append([]byte(nil), line...)))
		}
		jobs <- job{fmt.Sprintf("v%d", n), v}
	})
	close(jobs)
	wg.Wait()
	bad := 0
	panicked.Range(func(k, v any) bool {
		bad++
		if bad <= 3 {
			t.Errorf("vector %v: %v", k, v)
		}
		return true
	})
	if bad > 0 {
		res.Extra["harness_panics"] = bad
		t.FailNow()
	}
	res.Traces = n

	// H: histories of operations on long-lived TBS objects (spec/CertIssue.tla, zz_verif_c04_hist_test.go)
	c04RunHistories(t, res)

	// T: random TBS certificates; the logged outcome of Sign is validated by TLC against SignOK
	if plan.Random > 0 {
		rnd := vRand()
		wr := ctNewWorld(ctBase(4)+7_000_000, ctEmbedWide(plan.RandomAB))
		tr := vNewTracer(t, "c04_trace.ndjson")
		defer tr.Close()
		for k := 0; k < plan.Random; k++ {
			a, _, _, _ := ctRandomCase(rnd, plan.RandomAB, 100000)
			a.Sig, a.Badf = "good", ""
			if rnd.Intn(12) == 0 {
				a.IsCA = true
			}
			if rnd.Intn(15) == 0 {
				a.Issuer = ctCA{Id: "none", Curve: "none"}
			}
			tbs, signer, key := c04TBS(wr, a, fmt.Sprintf("c04-rnd-%d", k))
			c, err := tbs.Sign(signer, key.curve, key.raw)
			ev := map[string]any{"ev": "sign", "n": k, "c": ctNormCert(a), "signed": err == nil, "low": true, "verifies": "none"}
			if err == nil {
				res.Hit("random:signed")
				if c.Curve() == Curve_P256 {
					low, lerr := c04SigLow(c)
					ev["low"] = low && lerr == nil
				}
				if signer != nil && a.Nb <= a.Na {
					// valid at its own NotBefore and NotAfter (inside the CA's window when SignOK holds)
					pool := wr.pool(ctHonest([]ctCA{a.Issuer}))
					d := ctRecode(c)
					_, e1 := pool.VerifyCertificate(wr.at(a.Nb), d)
					_, e2 := pool.VerifyCertificate(wr.at(a.Na), d)
					ev["verifies"] = fmt.Sprint(e1 == nil && e2 == nil)
				}
			} else {
				res.Hit("random:refused")
			}
			tr.Event(map[string]any{"ev": "reset"})
			tr.Event(ev)
			res.Case(fmt.Sprintf("rnd/%d", k))
			if k == 0 {
				res.Sample(ev)
			}
		}
	}
}
