package cert

// C02 — tampered certificates are rejected.  Binding of spec/CertCodec.tla (reference relation Rel,
// tamper classes, blocklist algebra) to the real decoders and CAPool.VerifyCertificate.
//
//  V: every (version, curve, encoding, tamper class, field) vector enumerated by TLC is carried out
//     on the real protobuf / DER bytes of a trusted certificate, decoded by the real decoder and
//     verified by the real pool; the demanded verdict of the vector is compared here.
//  T: every single-bit flip, byte deletion, byte insertion, truncation and short extension of the
//     8 (version x curve x encoding) exemplars is decoded and verified; each result is PROJECTED to
//     (decodes, identity-diff set, signature relation, ...) and logged; TLC validates every logged
//     observation against Rel (Trace_CertCodec.tla).  Identical projections of one (exemplar,
//     operation) are logged once with a count and the first mutant.

import (
	"bytes"
	"crypto/ecdsa"
	"crypto/ed25519"
	"crypto/elliptic"
	"crypto/rand"
	"crypto/sha256"
	"encoding/hex"
	"encoding/json"
	"fmt"
	"net/netip"
	"runtime"
	"slices"
	"sort"
	"sync"
	"testing"
	"testing/cryptotest"
	"time"

	"github.com/slackhq/nebula/cert/p256"
	"google.golang.org/protobuf/encoding/protowire"
)

type c02Vec struct {
	In struct {
		Ver   int    `json:"ver"`
		Curve string `json:"curve"`
		Enc   string `json:"enc"`
		Op    string `json:"op"`
		F     string `json:"f"`
	} `json:"in"`
	Exp struct {
		Verdict string `json:"verdict"`
	} `json:"exp"`
}

// the observation record of CertCodec.tla
type c02Obs struct {
	Dec          bool     `json:"dec"`
	Diff         []string `json:"diff"`
	Sig          string   `json:"sig"`
	Canon        bool     `json:"canon"`
	Acc          bool     `json:"acc"`
	Chk          bool     `json:"chk"`
	Curve        string   `json:"curve"`
	AccBlOrig    bool     `json:"accBlOrig"`
	OrigAccBlMut bool     `json:"origAccBlMut"`
	panicked     string
}

type c02Env struct {
	ver          Version
	curve        Curve
	ca, caB, caF *certcodecCA // caB: same key as ca, other name; caF: same name, foreign key
	pool         *CAPool
	now          time.Time
}

type c02Ex struct {
	env        *c02Env
	enc, id    string
	cert       Certificate
	pk, altPk  []byte
	raw        []byte // the trusted encoding in this exemplar's form
	stripped   []byte
	poolBlOrig *CAPool
}

func c02P(s string) netip.Prefix { return netip.MustParsePrefix(s) }

func c02NewEnv(ver Version, curve Curve, mk func(Curve) ([]byte, []byte)) *c02Env {
	pubA, privA := mk(curve)
	pubF, privF := mk(curve)
	e := &c02Env{ver: ver, curve: curve, now: time.Unix(certcodecT0, 0)}
	e.ca = certcodecNewCA(ver, curve, "verif ca A", pubA, privA, certcodecT0-1000, certcodecT0+1000)
	e.caB = certcodecNewCA(ver, curve, "verif ca B", pubA, privA, certcodecT0-1000, certcodecT0+1000)
	e.caF = certcodecNewCA(ver, curve, "verif ca A", pubF, privF, certcodecT0-1000, certcodecT0+1000)
	e.pool = certcodecPool(nil, e.ca, e.caB)
	return e
}

// variant 0 is the exemplar of the V vectors; variants 1 and 2 (thorough, byte level only) differ in shape:
// 1 = minimal host (one network, nothing optional), 2 = many groups and networks, long name
func c02NewEx(t *testing.T, env *c02Env, enc string, pk, altPk []byte, variant int) *c02Ex {
	tbs := &TBSCertificate{Version: env.ver, Curve: env.curve, Name: "host.verif.example", Groups: []string{"alpha", "beta"},
		NotBefore: time.Unix(certcodecT0-500, 0), NotAfter: time.Unix(certcodecT0+500, 0), PublicKey: pk}
	if env.ver == Version1 {
		tbs.Networks = []netip.Prefix{c02P("10.1.1.1/24"), c02P("10.1.2.1/24")}
		tbs.UnsafeNetworks = []netip.Prefix{c02P("172.16.0.0/12"), c02P("192.168.0.0/16")}
	} else {
		tbs.Networks = []netip.Prefix{c02P("10.1.1.1/24"), c02P("fd00::1/64")}
		tbs.UnsafeNetworks = []netip.Prefix{c02P("172.16.0.0/12"), c02P("fd01::/48")}
	}
	switch variant {
	case 1:
		tbs.Name, tbs.Groups, tbs.Networks, tbs.UnsafeNetworks = "h", nil, tbs.Networks[:1], nil
	case 2:
		tbs.Name = "a-rather-long-host-name.with.several.labels.verif.example.org"
		tbs.Groups = []string{"alpha", "beta", "gamma", "delta", "ops", "x"}
		tbs.Networks = append(tbs.Networks, c02P("10.200.0.9/16"), c02P("100.64.3.3/10"))
		tbs.UnsafeNetworks = append(tbs.UnsafeNetworks, c02P("0.0.0.0/0"), c02P("198.51.100.0/24"))
	}
	c, err := tbs.Sign(env.ca.cert, env.curve, env.ca.priv)
	if err != nil {
		t.Fatalf("verif: cannot sign exemplar: %v", err)
	}
	ex := &c02Ex{env: env, enc: enc, cert: c, pk: pk, altPk: altPk,
		id: fmt.Sprintf("v%d/%s/%s", env.ver, certcodecCurveName(env.curve), enc)}
	if variant > 0 {
		ex.id += fmt.Sprintf("#%d", variant)
	}
	if enc == "hs" {
		ex.raw, err = c.MarshalForHandshakes()
	} else {
		ex.raw, err = c.Marshal()
	}
	if err != nil {
		t.Fatalf("verif: marshal exemplar: %v", err)
	}
	ex.stripped = certcodecStripped(c)
	fp, _ := c.Fingerprint()
	ex.poolBlOrig = certcodecPool([]string{fp}, env.ca, env.caB)
	return ex
}

func (ex *c02Ex) decode(raw, pk []byte, curve Curve, otherBanner bool) (Certificate, error) {
	if ex.enc == "hs" {
		return certcodecDecodeHS(ex.env.ver, raw, pk, curve)
	}
	ver := ex.env.ver
	if otherBanner {
		ver = Version1 + Version2 - ver
	}
	return certcodecDecodeStd(certcodecBanner(ver), raw)
}

func c02Verify(p *CAPool, now time.Time, c Certificate) (ok bool, pan string) {
	defer func() {
		if r := recover(); r != nil {
			ok, pan = false, fmt.Sprint(r)
		}
	}()
	_, err := p.VerifyCertificate(now, c)
	return err == nil, ""
}

// observe projects the outcome of decoding + verifying one altered encoding.
func (ex *c02Ex) observe(c Certificate, err error) c02Obs {
	o := c02Obs{Curve: certcodecCurveName(ex.env.curve), Diff: []string{}, Sig: "other"}
	if err != nil {
		if certcodecIsPanic(err) {
			o.panicked = err.Error()
		}
		return o
	}
	o.Dec = true
	o.Diff = certcodecIdentityDiff(ex.cert, c)
	o.Sig = certcodecSigRel(ex.cert.Signature(), c.Signature(), ex.env.curve)
	o.Canon = bytes.Equal(certcodecStripped(c), ex.stripped)
	var pan string
	o.Acc, pan = c02Verify(ex.env.pool, ex.env.now, c)
	if pan != "" {
		o.panicked = "PANIC in VerifyCertificate: " + pan
	}
	o.Chk = c.CheckSignature(ex.env.ca.pub)
	if o.Acc {
		o.AccBlOrig, _ = c02Verify(ex.poolBlOrig, ex.env.now, c)
		if fpm, err := c.Fingerprint(); err == nil {
			o.OrigAccBlMut, _ = c02Verify(certcodecPool([]string{fpm}, ex.env.ca, ex.env.caB), ex.env.now, ex.cert)
		} else {
			o.OrigAccBlMut = true
		}
	}
	return o
}

// ---------------------------------------------------------------------------------------------
// element editors

func c02El(tag byte, body []byte) certcodecEl {
	return certcodecEl{tag: tag, body: body, raw: certcodecDER(tag, body)}
}

func c02V2Edit(raw []byte, outer, details func([]certcodecEl) []certcodecEl) ([]byte, bool) {
	top, ok := certcodecDERParse(raw)
	if !ok || len(top) != 1 || top[0].tag != 0x30 {
		return nil, false
	}
	kids, ok := certcodecDERParse(top[0].body)
	if !ok {
		return nil, false
	}
	if details != nil {
		i := slices.IndexFunc(kids, func(e certcodecEl) bool { return e.tag == TagCertDetails })
		if i < 0 {
			return nil, false
		}
		d, ok := certcodecDERParse(kids[i].body)
		if !ok {
			return nil, false
		}
		kids[i] = c02El(TagCertDetails, certcodecDERJoin(details(d)))
	}
	if outer != nil {
		kids = outer(kids)
	}
	return certcodecDER(0x30, certcodecDERJoin(kids)), true
}

func c02V1Edit(raw []byte, outer, details func([]certcodecPB) []certcodecPB) ([]byte, bool) {
	fs, ok := certcodecPBParse(raw)
	if !ok {
		return nil, false
	}
	if details != nil {
		i := slices.IndexFunc(fs, func(f certcodecPB) bool { return f.num == 1 })
		if i < 0 {
			return nil, false
		}
		d, ok := certcodecPBParse(fs[i].val)
		if !ok {
			return nil, false
		}
		fs[i] = certcodecPBBytes(1, certcodecPBJoin(details(d)))
	}
	if outer != nil {
		fs = outer(fs)
	}
	return certcodecPBJoin(fs), true
}

var c02V1Num = map[string]protowire.Number{"name": 1, "nets": 2, "unsafe": 3, "groups": 4, "nb": 5, "na": 6, "key": 7, "isCA": 8, "issuer": 9, "curve": 100}
var c02V2Tag = map[string]byte{"name": TagDetailsName, "nets": TagDetailsNetworks, "unsafe": TagDetailsUnsafeNetworks, "groups": TagDetailsGroups,
	"isCA": TagDetailsIsCA, "nb": TagDetailsNotBefore, "na": TagDetailsNotAfter, "issuer": TagDetailsIssuer, "curve": TagCertCurve, "key": TagCertPublicKey}

// editField applies fn to the list of elements that holds field f (v1: all in the details message;
// v2: details, except curve and key which sit in the outer sequence).
func (ex *c02Ex) editField(f string, pb func([]certcodecPB, protowire.Number) []certcodecPB, el func([]certcodecEl, byte) []certcodecEl) ([]byte, bool) {
	if ex.env.ver == Version1 {
		return c02V1Edit(ex.raw, nil, func(d []certcodecPB) []certcodecPB { return pb(d, c02V1Num[f]) })
	}
	fn := func(d []certcodecEl) []certcodecEl { return el(d, c02V2Tag[f]) }
	if f == "curve" || f == "key" {
		return c02V2Edit(ex.raw, fn, nil)
	}
	return c02V2Edit(ex.raw, nil, fn)
}

// structEdit re-marshals an altered copy of the trusted certificate keeping the trusted signature.
func (ex *c02Ex) structEdit(f func(v1 *certificateV1, v2 *certificateV2)) ([]byte, bool) {
	nc := ex.cert.Copy()
	switch v := nc.(type) {
	case *certificateV1:
		f(v, nil)
	case *certificateV2:
		f(nil, v)
		rd, err := v.details.Marshal()
		if err != nil {
			return nil, false
		}
		v.rawDetails = rd
	}
	var b []byte
	var err error
	if ex.enc == "hs" {
		b, err = nc.MarshalForHandshakes()
	} else {
		b, err = nc.Marshal()
	}
	return b, err == nil
}

func (ex *c02Ex) withSig(sig []byte) ([]byte, bool) {
	nc := certcodecSetSig(ex.cert, sig)
	var b []byte
	var err error
	if ex.enc == "hs" {
		b, err = nc.MarshalForHandshakes()
	} else {
		b, err = nc.Marshal()
	}
	return b, err == nil
}

func c02Swap[T any](s []T) {
	if len(s) >= 2 {
		s[0], s[1] = s[1], s[0]
	}
}

func c02BumpPrefix(p netip.Prefix) netip.Prefix {
	b := p.Addr().AsSlice()
	b[len(b)-1] ^= 3
	a, _ := netip.AddrFromSlice(b)
	return netip.PrefixFrom(a, p.Bits())
}

// tamper carries out one vector of CertCodec.tla on the real bytes.  ok=false: the class has no
// counterpart for this exemplar.
func (ex *c02Ex) tamper(op, f string) (raw, pk []byte, curve Curve, otherBanner, ok bool) {
	env := ex.env
	raw, pk, curve, ok = ex.raw, ex.pk, env.curve, true
	other := Curve_P256
	if env.curve == Curve_P256 {
		other = Curve_CURVE25519
	}
	v1 := env.ver == Version1
	switch op {
	case "id":
	case "alter":
		switch {
		case f == "key" && ex.enc == "hs": // the static key travels outside the certificate bytes
			pk = ex.altPk
		case f == "curve" && ex.enc == "hs" && !v1: // the receiver fixes the curve; the bytes may still claim another
			raw, ok = c02V2Edit(ex.raw, func(k []certcodecEl) []certcodecEl {
				return slices.Insert(k, 1, c02El(TagCertCurve, []byte{byte(other)}))
			}, nil)
		default:
			raw, ok = ex.structEdit(func(a *certificateV1, b *certificateV2) {
				switch f {
				case "name":
					if v1 {
						a.details.name = "hosu.verif.example"
					} else {
						b.details.name = "hosu.verif.example"
					}
				case "nets":
					if v1 {
						a.details.networks[0] = c02BumpPrefix(a.details.networks[0])
					} else {
						b.details.networks[0] = c02BumpPrefix(b.details.networks[0])
					}
				case "unsafe":
					if v1 {
						a.details.unsafeNetworks[1] = c02P("192.169.0.0/16")
					} else {
						b.details.unsafeNetworks[0] = c02P("172.32.0.0/12")
					}
				case "groups":
					if v1 {
						a.details.groups[1] = "bet4"
					} else {
						b.details.groups[1] = "bet4"
					}
				case "isCA":
					if v1 {
						a.details.isCA = true
					} else {
						b.details.isCA = true
					}
				case "nb":
					if v1 {
						a.details.notBefore = time.Unix(certcodecT0-499, 0)
					} else {
						b.details.notBefore = time.Unix(certcodecT0-499, 0)
					}
				case "na":
					if v1 {
						a.details.notAfter = time.Unix(certcodecT0+600, 0)
					} else {
						b.details.notAfter = time.Unix(certcodecT0+600, 0)
					}
				case "issuer":
					if v1 {
						a.details.issuer = env.caB.fp
					} else {
						b.details.issuer = env.caB.fp
					}
				case "curve":
					if v1 {
						a.details.curve = other
					} else {
						b.curve = other
					}
				case "key":
					if v1 {
						a.details.publicKey = ex.altPk
					} else {
						b.publicKey = ex.altPk
					}
				}
			})
		}
	case "drop":
		raw, ok = ex.editField(f,
			func(d []certcodecPB, n protowire.Number) []certcodecPB {
				return slices.DeleteFunc(d, func(x certcodecPB) bool { return x.num == n })
			},
			func(d []certcodecEl, tg byte) []certcodecEl {
				return slices.DeleteFunc(d, func(x certcodecEl) bool { return x.tag == tg })
			})
	case "dup":
		raw, ok = ex.editField(f,
			func(d []certcodecPB, n protowire.Number) []certcodecPB {
				if i := slices.IndexFunc(d, func(x certcodecPB) bool { return x.num == n }); i >= 0 {
					return slices.Insert(d, i, d[i])
				}
				return d
			},
			func(d []certcodecEl, tg byte) []certcodecEl {
				if i := slices.IndexFunc(d, func(x certcodecEl) bool { return x.tag == tg }); i >= 0 {
					return slices.Insert(d, i, d[i])
				}
				return d
			})
	case "unknown":
		switch {
		case v1 && f == "details":
			raw, ok = c02V1Edit(ex.raw, nil, func(d []certcodecPB) []certcodecPB { return append(d, certcodecPBVarint(77, 5)) })
		case v1:
			raw, ok = c02V1Edit(ex.raw, func(d []certcodecPB) []certcodecPB { return append(d, certcodecPBBytes(33, []byte("x"))) }, nil)
		case f == "details":
			raw, ok = c02V2Edit(ex.raw, nil, func(d []certcodecEl) []certcodecEl { return append(d, c02El(0x8f, []byte{1})) })
		default:
			raw, ok = c02V2Edit(ex.raw, func(d []certcodecEl) []certcodecEl { return append(d, c02El(0x89, []byte{1})) }, nil)
		}
	case "reorder":
		if f == "fields" {
			if v1 {
				raw, ok = c02V1Edit(ex.raw, nil, func(d []certcodecPB) []certcodecPB { c02Swap(d); return d })
			} else {
				raw, ok = c02V2Edit(ex.raw, nil, func(d []certcodecEl) []certcodecEl { c02Swap(d); return d })
			}
			break
		}
		raw, ok = ex.structEdit(func(a *certificateV1, b *certificateV2) {
			switch {
			case f == "nets" && v1:
				c02Swap(a.details.networks)
			case f == "nets":
				c02Swap(b.details.networks)
			case f == "unsafe" && v1:
				c02Swap(a.details.unsafeNetworks)
			case f == "unsafe":
				c02Swap(b.details.unsafeNetworks)
			case v1:
				c02Swap(a.details.groups)
			default:
				c02Swap(b.details.groups)
			}
		})
	case "reencode":
		switch {
		case v1 && f == "packing": // repeated uint32 Ips, packed -> one varint field per value
			raw, ok = c02V1Edit(ex.raw, nil, func(d []certcodecPB) []certcodecPB {
				var out []certcodecPB
				for _, x := range d {
					if x.num != 2 || x.typ != protowire.BytesType {
						out = append(out, x)
						continue
					}
					for b := x.val; len(b) > 0; {
						v, n := protowire.ConsumeVarint(b)
						out = append(out, certcodecPBVarint(2, v))
						b = b[n:]
					}
				}
				return out
			})
		case v1: // over-long varint for the length of the name
			raw, ok = c02V1Edit(ex.raw, nil, func(d []certcodecPB) []certcodecPB {
				for i, x := range d {
					if x.num == 1 {
						r := protowire.AppendTag(nil, 1, protowire.BytesType)
						r = append(r, byte(len(x.val))|0x80, 0x00)
						d[i].raw = append(r, x.val...)
					}
				}
				return d
			})
		case f == "packing": // INTEGER with a redundant leading zero octet
			raw, ok = c02V2Edit(ex.raw, nil, func(d []certcodecEl) []certcodecEl {
				for i, x := range d {
					if x.tag == TagDetailsNotBefore {
						d[i] = c02El(x.tag, append([]byte{0}, x.body...))
					}
				}
				return d
			})
		default: // long-form length where the short form is required
			raw, ok = c02V2Edit(ex.raw, nil, func(d []certcodecEl) []certcodecEl {
				for i, x := range d {
					if x.tag == TagDetailsName {
						d[i].raw = append([]byte{x.tag, 0x81, byte(len(x.body))}, x.body...)
					}
				}
				return d
			})
		}
	case "truncate":
		switch f {
		case "last":
			raw = ex.raw[:len(ex.raw)-1]
		case "half":
			raw = ex.raw[:len(ex.raw)/2]
		default: // cut exactly in front of the signature element (it is the last one in both formats)
			if v1 {
				fs, _ := certcodecPBParse(ex.raw)
				raw = ex.raw[:len(ex.raw)-len(fs[len(fs)-1].raw)]
			} else {
				top, _ := certcodecDERParse(ex.raw)
				kids, _ := certcodecDERParse(top[0].body)
				raw = ex.raw[:len(ex.raw)-len(kids[len(kids)-1].raw)]
			}
		}
	case "extend":
		switch f {
		case "zero":
			raw = append(slices.Clone(ex.raw), 0)
		case "junk":
			raw = append(slices.Clone(ex.raw), 0x7f, 0x00, 0x01)
		default:
			raw = append(slices.Clone(ex.raw), ex.raw...)
		}
	case "banner":
		otherBanner = true
	case "sigTwin":
		tw, err := p256.Swap(ex.cert.Signature())
		if err != nil {
			return nil, nil, 0, false, false
		}
		raw, ok = ex.withSig(tw)
	case "sigFlip":
		s := slices.Clone(ex.cert.Signature())
		s[len(s)/2] ^= 0x01
		raw, ok = ex.withSig(s)
	case "sigPad": // the trusted signature followed by one more byte (element lengths adjusted)
		raw, ok = ex.withSig(append(slices.Clone(ex.cert.Signature()), 0))
	case "sigForeign":
		tbs, err := ex.cert.Copy().(beingSignedCertificate).marshalForSigning()
		if err != nil {
			return nil, nil, 0, false, false
		}
		var sig []byte
		if env.curve == Curve_P256 {
			k, err := ecdsa.ParseRawPrivateKey(elliptic.P256(), env.caF.priv)
			if err != nil {
				return nil, nil, 0, false, false
			}
			h := sha256.Sum256(tbs)
			sig, _ = ecdsa.SignASN1(rand.Reader, k, h[:])
			sig, _ = p256.Normalize(sig)
		} else {
			sig = ed25519.Sign(ed25519.PrivateKey(env.caF.priv), tbs)
		}
		raw, ok = ex.withSig(sig)
	case "sigDrop":
		if v1 {
			raw, ok = c02V1Edit(ex.raw, func(d []certcodecPB) []certcodecPB {
				return slices.DeleteFunc(d, func(x certcodecPB) bool { return x.num == 2 })
			}, nil)
		} else {
			raw, ok = c02V2Edit(ex.raw, func(d []certcodecEl) []certcodecEl {
				return slices.DeleteFunc(d, func(x certcodecEl) bool { return x.tag == TagCertSignature })
			}, nil)
		}
	default:
		ok = false
	}
	return raw, pk, curve, otherBanner, ok
}

// ---------------------------------------------------------------------------------------------

type c02Agg struct {
	x, op string
	o     c02Obs
	n     int
	pos   int
	arg   int
	hex   string
}

type c02Mut struct {
	op       string
	pos, arg int
	raw      []byte
}

// c02ByteMutants enumerates the byte-level alterations of raw at positions [lo, hi), hi <= len(raw)+1
// (position len(raw) = insertion at the end and the short extensions).
func c02ByteMutants(raw []byte, lo, hi int, insVals []int, thorough bool, emit func(m c02Mut)) {
	L := len(raw)
	for p := lo; p < hi; p++ {
		if p < L {
			for bit := 0; bit < 8; bit++ {
				m := slices.Clone(raw)
				m[p] ^= 1 << bit
				emit(c02Mut{"flip", p, bit, m})
			}
			emit(c02Mut{"del", p, 0, slices.Delete(slices.Clone(raw), p, p+1)})
			emit(c02Mut{"trunc", p, 0, slices.Clone(raw[:p])})
			emit(c02Mut{"ins", p, -1, slices.Insert(slices.Clone(raw), p, raw[p])})
			if thorough {
				for v := 0; v < 256; v++ {
					if byte(v) != raw[p] {
						m := slices.Clone(raw)
						m[p] = byte(v)
						emit(c02Mut{"set", p, v, m})
					}
				}
				if p+1 < L && raw[p] != raw[p+1] {
					m := slices.Clone(raw)
					m[p], m[p+1] = m[p+1], m[p]
					emit(c02Mut{"swap", p, 0, m})
				}
			}
		}
		for _, v := range insVals {
			emit(c02Mut{"ins", p, v, slices.Insert(slices.Clone(raw), p, byte(v))})
		}
		if p == L {
			for i, tail := range [][]byte{{0}, {0xff}, {0x30}, {0x0a}, {0, 0}, {0x1a, 0x00}, {0x12, 0x01, 0x41}, raw[:4], {0x83, 0x01, 0x01}} {
				emit(c02Mut{"ext", L, i, append(slices.Clone(raw), tail...)})
			}
		}
	}
}

func TestVerif_C02(t *testing.T) {
	res := vNewResult()
	defer res.Write(t)
	cryptotest.SetGlobalRandom(t, uint64(vSeed()))
	rnd := vRand()
	tr := vNewTracer(t, "c02_obs.ndjson")
	defer tr.Close()

	exs := map[string]*c02Ex{}
	var order []string
	for _, ver := range []Version{Version1, Version2} {
		for _, curve := range []Curve{Curve_CURVE25519, Curve_P256} {
			env := c02NewEnv(ver, curve, func(c Curve) ([]byte, []byte) { return certcodecSignKey(rnd, c) })
			pk, alt := certcodecHostKey(rnd, curve), certcodecHostKey(rnd, curve)
			for variant := 0; variant < 3 && (variant == 0 || !vQuick()); variant++ {
				for _, enc := range []string{"std", "hs"} {
					ex := c02NewEx(t, env, enc, pk, alt, variant)
					exs[ex.id] = ex
					order = append(order, ex.id)
				}
			}
		}
	}

	var mu sync.Mutex
	panics := 0
	notePanic := func(ex *c02Ex, what string, o c02Obs, raw []byte) {
		mu.Lock()
		panics++
		mu.Unlock()
		res.Mismatch("panic:"+ex.id, fmt.Sprintf("%s: %s", what, o.panicked), map[string]any{"exemplar": ex.id, "bytes": hex.EncodeToString(raw)})
	}

	// ------------------------------------------------------------------ V
	lastX := ""
	vReadNDJSON(t, "c02_vectors.ndjson", func(line []byte) {
		var v c02Vec
		if err := json.Unmarshal(line, &v); err != nil {
			t.Fatalf("vector: %v: %s", err, line)
		}
		id := fmt.Sprintf("v%d/%s/%s", v.In.Ver, v.In.Curve, v.In.Enc)
		ex := exs[id]
		if ex == nil {
			t.Fatalf("no exemplar %s", id)
		}
		cse := fmt.Sprintf("%s:%s:v%d:%s:%s", v.In.Op, v.In.F, v.In.Ver, v.In.Curve, v.In.Enc)
		raw, pk, curve, otherBanner, ok := ex.tamper(v.In.Op, v.In.F)
		if !ok {
			t.Fatalf("verif: tamper class %s cannot be carried out on exemplar %s", cse, id)
		}
		if v.In.Op != "id" && v.In.Op != "banner" && bytes.Equal(raw, ex.raw) && bytes.Equal(pk, ex.pk) && curve == ex.env.curve {
			t.Fatalf("verif: tamper class %s left the encoding unchanged", cse)
		}
		c, err := ex.decode(raw, pk, curve, otherBanner)
		o := ex.observe(c, err)
		res.Case(cse)
		res.Hit("V:" + v.In.Op)
		res.Hit("V:verdict:" + v.Exp.Verdict)
		if o.Dec {
			res.Hit("V:decodes")
		}
		if o.panicked != "" {
			notePanic(ex, cse, o, raw)
		}
		// the harness' own tamper must do what the class says (otherwise the vector proves nothing)
		if (v.In.Op == "alter" || v.In.Op == "drop") && o.Dec && !slices.Contains(o.Diff, v.In.F) {
			t.Fatalf("verif: %s decoded without changing field %s (diff %v)", cse, v.In.F, o.Diff)
		}
		if v.In.Op == "sigTwin" && (o.Sig != "twin" || len(o.Diff) != 0) {
			t.Fatalf("verif: %s: projection %+v", cse, o)
		}
		switch v.Exp.Verdict {
		case "reject":
			if o.Acc || o.Chk {
				res.Mismatch(cse, fmt.Sprintf("altered certificate accepted (VerifyCertificate=%v CheckSignature=%v), decoded identity differs in %v, signature %s",
					o.Acc, o.Chk, o.Diff, o.Sig), map[string]any{"vector": v.In, "obs": o, "bytes": hex.EncodeToString(raw), "trusted": hex.EncodeToString(ex.raw)})
			}
		case "accept":
			if !o.Dec || !o.Acc || !o.Chk {
				res.Mismatch(cse, fmt.Sprintf("certificate with untouched content rejected (decodes=%v VerifyCertificate=%v CheckSignature=%v err=%v)", o.Dec, o.Acc, o.Chk, err),
					map[string]any{"vector": v.In, "obs": o, "bytes": hex.EncodeToString(raw)})
			}
			if o.AccBlOrig || o.OrigAccBlMut {
				res.Mismatch("blocklist:"+cse, fmt.Sprintf("blocklisting one form does not reject the other (accepted with trusted fingerprint blocked=%v, trusted accepted with this fingerprint blocked=%v)",
					o.AccBlOrig, o.OrigAccBlMut), map[string]any{"vector": v.In, "obs": o})
			}
		}
		if id != lastX {
			tr.Event(map[string]any{"ev": "reset", "x": id, "op": "V"})
			lastX = id
		}
		tr.Event(map[string]any{"ev": "obs", "x": id, "op": "V", "case": cse, "exp": v.Exp.Verdict, "o": o, "n": 1})
		if v.In.Op == "alter" && v.In.F == "key" {
			res.Sample(map[string]any{"case": cse, "obs": o})
		}
	})

	// ------------------------------------------------------------------ T (byte level)
	insVals := []int{0x00, 0xff, 0x01, 0x80}
	thorough := !vQuick()
	if thorough {
		insVals = make([]int, 256)
		for i := range insVals {
			insVals[i] = i
		}
	}
	type job struct {
		ex     *c02Ex
		lo, hi int
	}
	jobs := make(chan job, 1024)
	agg := map[string]*c02Agg{}
	total := 0
	var wg sync.WaitGroup
	for w := 0; w < runtime.NumCPU(); w++ {
		wg.Add(1)
		go func() {
			defer wg.Done()
			for j := range jobs {
				local := map[string]*c02Agg{}
				n := 0
				c02ByteMutants(j.ex.raw, j.lo, j.hi, insVals, thorough, func(m c02Mut) {
					c, err := j.ex.decode(m.raw, j.ex.pk, j.ex.env.curve, false)
					o := j.ex.observe(c, err)
					n++
					if o.panicked != "" {
						notePanic(j.ex, fmt.Sprintf("%s at %d (%d)", m.op, m.pos, m.arg), o, m.raw)
					}
					ob, _ := json.Marshal(o)
					k := j.ex.id + "|" + m.op + "|" + string(ob)
					a := local[k]
					if a == nil {
						local[k] = &c02Agg{x: j.ex.id, op: m.op, o: o, n: 1, pos: m.pos, arg: m.arg, hex: hex.EncodeToString(m.raw)}
					} else {
						a.n++
					}
				})
				mu.Lock()
				total += n
				for k, a := range local {
					if g := agg[k]; g == nil {
						agg[k] = a
					} else {
						g.n += a.n
						if a.pos < g.pos || (a.pos == g.pos && a.arg < g.arg) {
							g.pos, g.arg, g.hex = a.pos, a.arg, a.hex
						}
					}
				}
				mu.Unlock()
			}
		}()
	}
	for _, id := range order {
		ex := exs[id]
		const chunk = 8
		for lo := 0; lo <= len(ex.raw); lo += chunk {
			jobs <- job{ex, lo, min(lo+chunk, len(ex.raw)+1)}
		}
	}
	close(jobs)
	wg.Wait()

	keys := make([]string, 0, len(agg))
	for k := range agg {
		keys = append(keys, k)
	}
	sort.Strings(keys)
	last := ""
	for _, k := range keys {
		a := agg[k]
		if g := a.x + "|" + a.op; g != last {
			tr.Event(map[string]any{"ev": "reset", "x": a.x, "op": a.op})
			last = g
		}
		tr.Event(map[string]any{"ev": "obs", "x": a.x, "op": a.op, "o": a.o, "n": a.n, "first": map[string]int{"pos": a.pos, "arg": a.arg}, "hex": a.hex})
		res.Case(k)
		res.Hit("T:" + a.op)
		if a.o.Dec {
			res.Hit("T:decodes")
		}
		if a.o.Dec && a.o.Acc {
			res.Hit("T:accepted")
		}
	}
	res.Traces = total
	res.Extra["byte_mutants"] = total
	res.Extra["byte_projections"] = len(agg)
	res.Extra["panics"] = panics
	sizes := map[string]int{}
	for id, ex := range exs {
		sizes[id] = len(ex.raw)
	}
	res.Extra["exemplar_bytes"] = sizes
}
