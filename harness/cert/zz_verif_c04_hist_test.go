package cert

// C04, histories — binding of spec/CertIssue.tla to long-lived TBSCertificate objects.
//
// TLC emits every history of HLen operations on a small pool of TBS objects of a world (Sign / SignWith with an
// external signer under the world's CAs or self-signing, edits of the validity window) together with the reference
// outcome of every call: a function of the object's current fields and of the signer of THAT call only.  Each history
// is replayed on real *TBSCertificate values (created once per history, so they carry their past from call to call)
// with real CA certificates and keys:
//   - a call may succeed only where SignOK holds;
//   - every certificate a call returns is decoded again and verified at every second against the pool holding exactly
//     the signer of that call and against the pool holding all CAs of the world, and compared with the trust rule;
//   - every P-256 signature is low-S (also when the external signer hands back high-S);
//   - a call inside the constraints that is refused on an object with a past, while the same call on a fresh copy of
//     the object succeeds, is a violation (a refusal or an earlier issuance must not make the object unusable).

import (
	"crypto/ecdsa"
	"crypto/ed25519"
	"crypto/rand"
	"crypto/sha256"
	"encoding/json"
	"errors"
	"fmt"
	"runtime"
	"strings"
	"sync"
	"testing"
)

type c04hOut struct {
	Why string   `json:"why"`
	Acc []string `json:"acc"`
	Any []string `json:"any"`
}

type c04hTable struct {
	Cu   string        `json:"cu"`
	Cas  []ctCA        `json:"cas"`
	Objs [][]ctCert    `json:"objs"` // [object][variant]
	Out  [][][]c04hOut `json:"out"`  // [object][variant][signer, 0 = self-signing]
}

// one operation of a history: <<object, signer, op, class, why, variant>>
type c04hStep struct {
	T, C, K      int
	Op, Cls, Why string
}

func (s *c04hStep) UnmarshalJSON(b []byte) error {
	var raw []json.RawMessage
	if err := json.Unmarshal(b, &raw); err != nil {
		return err
	}
	if len(raw) != 6 {
		return fmt.Errorf("verif: history step with %d fields: %s", len(raw), b)
	}
	s.T, s.C, s.Op, s.Cls, s.Why, s.K = vInt(raw[0]), vInt(raw[1]), vStr(raw[2]), vStr(raw[3]), vStr(raw[4]), vInt(raw[5])
	return nil
}

func (s c04hStep) String() string {
	if s.Op == "edit" {
		return fmt.Sprintf("edit(T%d: window %d)", s.T, s.K)
	}
	return fmt.Sprintf("%s(T%d/window %d, signer %d)=%s [%s]", s.Op, s.T, s.K, s.C, s.Why, s.Cls)
}

type c04hHist struct {
	W int        `json:"w"`
	H []c04hStep `json:"h"`
}

type c04hWorld struct {
	n    int
	w    *ctWorld
	tbl  *c04hTable
	solo []*CAPool // solo[c]: the pool holding exactly CA c (1-based)
	all  *CAPool   // every CA of the world
}

func c04hNewWorld(n int, tbl *c04hTable) *c04hWorld {
	hw := &c04hWorld{n: n, tbl: tbl, w: ctNewWorld(ctBase(4)+3_000_000+int64(n)*10_000, ctSeedEmbed(1+n))}
	hw.solo = make([]*CAPool, len(tbl.Cas)+1)
	for i, a := range tbl.Cas {
		hw.solo[i+1] = hw.w.pool(ctHonest([]ctCA{a}))
	}
	hw.all = hw.w.pool(ctHonest(tbl.Cas))
	for t := range tbl.Objs {
		if len(tbl.Objs[t]) != 2 || len(tbl.Out[t]) != 2 || len(tbl.Out[t][0]) != len(tbl.Cas)+1 {
			panic("verif: malformed history table")
		}
	}
	return hw
}

// c04hNewTBS: a new real TBS object with the fields of the abstract one.
func c04hNewTBS(w *ctWorld, a ctCert, name string) *TBSCertificate {
	curve := ctCurve(a.Curve)
	tbs := &TBSCertificate{
		Version:        Version(a.Ver),
		Name:           name,
		Networks:       w.emb.prefixes(a.Nets),
		UnsafeNetworks: w.emb.prefixes(a.Unsafe),
		Groups:         append([]string(nil), a.Groups...),
		IsCA:           a.IsCA,
		NotBefore:      w.at(a.Nb),
		NotAfter:       w.at(a.Na),
		PublicKey:      w.leaf[curve][0],
		Curve:          curve,
	}
	if a.IsCA {
		// meant to be self-signed: the caller's own key, of the certificate's curve
		tbs.PublicKey = w.keyOf("self", curve).pub
	}
	return tbs
}

// c04hCall makes one signing call on a real object.
func c04hCall(hw *c04hWorld, tbs *TBSCertificate, c int, op string) (Certificate, error) {
	var signer Certificate
	var key *ctKey
	if c == 0 {
		key = hw.w.keyOf("self", tbs.Curve)
	} else {
		ca := hw.w.ca(hw.tbl.Cas[c-1])
		signer, key = ca.cert, ca.key
	}
	switch op {
	case "sign":
		return tbs.Sign(signer, key.curve, key.raw)
	case "ext", "extlow":
		// an external signer (HSM, remote service): for ECDSA it hands back high-S ("ext") or low-S ("extlow") signatures
		return tbs.SignWith(signer, key.curve, func(b []byte) ([]byte, error) {
			if key.ed != nil {
				return ed25519.Sign(key.ed, b), nil
			}
			h := sha256.Sum256(b)
			sig, err := ecdsa.SignASN1(rand.Reader, key.ec, h[:])
			if err != nil {
				return nil, err
			}
			return ctForceS(sig, op == "ext"), nil
		})
	}
	panic("verif: unknown history operation " + op)
}

func c04hOpName(op string) string {
	switch op {
	case "sign":
		return "Sign"
	case "ext":
		return "SignWith-external"
	}
	return "SignWith-external-lowS"
}

func c04hReplay(hw *c04hWorld, res *vResult, id string, h *c04hHist) {
	tbl := hw.tbl
	objs := make([]*TBSCertificate, len(tbl.Objs))
	vars := make([]int, len(tbl.Objs))
	for t := range objs {
		objs[t] = c04hNewTBS(hw.w, tbl.Objs[t][0], fmt.Sprintf("c04h-%s-T%d", id, t+1))
	}
	var told []string
	for i, st := range h.H {
		t := st.T - 1
		told = append(told, st.String())
		if st.Op == "edit" {
			// the caller sets another validity window on the object (renewal)
			a := tbl.Objs[t][st.K]
			objs[t].NotBefore, objs[t].NotAfter = hw.w.at(a.Nb), hw.w.at(a.Na)
			vars[t] = st.K
			res.Hit("hist:edit")
			continue
		}
		if vars[t] != st.K {
			panic(fmt.Sprintf("verif: history %s step %d: variant %d, the object holds %d", id, i, st.K, vars[t]))
		}
		a := tbl.Objs[t][st.K]
		out := tbl.Out[t][st.K][st.C]
		if out.Why != st.Why {
			panic(fmt.Sprintf("verif: history %s step %d: table says %s, step says %s", id, i, out.Why, st.Why))
		}
		if st.C > 0 {
			a.Issuer = tbl.Cas[st.C-1]
		}
		// mismatch keys name the call site and what was issued from the object before; the full class is in the text
		prior, last, _ := strings.Cut(st.Cls, "/")
		tail := c04hOpName(st.Op) + ":" + prior
		c, err := c04hCall(hw, objs[t], st.C, st.Op)
		res.Case(fmt.Sprintf("%s/%d", id, i))
		det := func(extra map[string]any) map[string]any {
			d := map[string]any{"world": hw.n, "history": append([]string(nil), told...), "step": i, "abstract": a,
				"base_unix": hw.w.base, "specification": st.Why, "error": fmt.Sprint(err), "embedding": fmt.Sprintf("%+v", hw.w.emb)}
			var pems []string
			for _, x := range tbl.Cas {
				pems = append(pems, hw.w.ca(x).pem)
			}
			d["world_ca_pems"] = pems
			if st.C > 0 {
				d["signer_pem"] = hw.w.ca(tbl.Cas[st.C-1]).pem
				d["signer_fingerprint"] = hw.w.ca(tbl.Cas[st.C-1]).fp
			}
			if c != nil {
				p, _ := c.MarshalPEM()
				d["issued_pem"] = string(p)
				d["issued_names_issuer"] = c.Issuer()
				for k, x := range tbl.Cas {
					if hw.w.ca(x).fp == c.Issuer() {
						d["issued_names_ca"] = k + 1
					}
				}
			}
			for k, v := range extra {
				d[k] = v
			}
			return d
		}
		switch {
		case err == nil && st.Why != "ok":
			res.Mismatch("hist:succeeds:"+st.Why+":"+tail,
				fmt.Sprintf("step %d of history %v: the call succeeds although the certificate violates its signer (%s)", i, told, st.Why), det(nil))
			continue
		case err != nil && st.Why == "ok":
			// "succeeds only when": a refusal is a violation only if the object's past is its reason
			fresh := c04hNewTBS(hw.w, a, fmt.Sprintf("c04h-%s-T%d-fresh", id, t+1))
			_, ferr := c04hCall(hw, fresh, st.C, st.Op)
			if ferr == nil && prior+"/"+last != "fresh/new" {
				res.Mismatch("hist:refused-by-its-past:"+tail+"/"+last,
					fmt.Sprintf("step %d of history %v: the call is refused (%v) although the certificate is inside its signer's constraints and the same call on a fresh copy of the object succeeds", i, told, err), det(nil))
				continue
			}
			res.Hit("hist:refused-within")
			res.mu.Lock()
			n, _ := res.Extra["refused_within_constraints"].(int)
			res.Extra["refused_within_constraints"] = n + 1
			if n < 3 {
				res.Extra[fmt.Sprintf("refused_within_%d", n)] = det(nil)
			}
			res.mu.Unlock()
			continue
		case err != nil:
			res.Hit("hist:refused:" + st.Why)
			continue
		}
		res.Hit("hist:ok")
		res.Hit("hist:ok:prior=" + prior)
		res.Hit("hist:ok:last=" + last)
		res.Hit("hist:ok:op=" + st.Op)
		if st.C > 0 && tbl.Cas[st.C-1].Gen > 0 {
			res.Hit("hist:ok:renewed-ca")
		}
		// the returned certificate
		if c.Curve() == Curve_P256 {
			low, lerr := c04SigLow(c)
			res.Hit("hist:lowS:" + st.Op)
			if lerr != nil || !low {
				res.Mismatch("hist:issued:high-S:"+tail, fmt.Sprintf("step %d of history %v: the P-256 signature of the returned certificate is not in low-S form (%v)", i, told, lerr), det(nil))
			}
		}
		d := ctRecode(c)
		if st.C == 0 {
			p := NewCAPool()
			aerr := p.AddCA(d)
			fp, _ := d.Fingerprint()
			if (aerr != nil && !errors.Is(aerr, ErrExpired)) || p.CAs[fp] == nil || !d.CheckSignature(d.PublicKey()) {
				res.Mismatch("hist:issued:self-signed-not-usable:"+tail, fmt.Sprintf("step %d of history %v: the self-signed CA certificate is refused by AddCA: %v", i, told, aerr), det(nil))
			}
			res.Hit("hist:ok:self")
			continue
		}
		for pi, pool := range []*CAPool{hw.solo[st.C], hw.all} {
			pname, acc := "signer-only", out.Acc
			if pi == 1 {
				pname, acc = "all-cas", out.Any
			}
			bad := false
			for sec, why := range acc {
				_, verr := pool.VerifyCertificate(hw.w.at(sec), d)
				res.Hit("hist:issued:" + why)
				res.Case("")
				if (verr == nil) == (why == "ok") {
					continue
				}
				bad = true
				var key string
				if verr == nil {
					key = "hist:issued:accepted:" + ctClass(a, why, sec) + ":pool=" + pname + ":" + tail
				} else {
					key = "hist:issued:rejected-" + ctErrKind(verr) + ":pool=" + pname + ":" + tail
				}
				res.Mismatch(key, fmt.Sprintf("step %d of history %v: the returned certificate (window %d..%d, signer CA %d valid %d..%d) at t=%d against the pool %s: VerifyCertificate gives %v, the trust rule says %s",
					i, told, a.Nb, a.Na, st.C, a.Issuer.Nb, a.Issuer.Na, sec, pname, verr, why), det(map[string]any{"t": sec, "pool": pname}))
			}
			if bad {
				break // the wider pool adds nothing to a certificate that fails against its signer alone
			}
		}
	}
}

func c04RunHistories(t *testing.T, res *vResult) {
	var tables map[string]*c04hTable
	vReadJSON(t, "c04_hist_tables.json", &tables)
	worlds := map[int]*c04hWorld{}
	for k, tbl := range tables {
		var n int
		if _, err := fmt.Sscanf(k, "%d", &n); err != nil {
			t.Fatalf("history table %q: %v", k, err)
		}
		worlds[n] = c04hNewWorld(n, tbl)
	}
	type job struct {
		id string
		h  *c04hHist
	}
	jobs := make(chan job, 256)
	var wg sync.WaitGroup
	var panicked sync.Map
	for i := 0; i < runtime.GOMAXPROCS(0); i++ {
		wg.Add(1)
		go func() {
			defer wg.Done()
			for j := range jobs {
				func() {
					defer func() {
						if r := recover(); r != nil {
							panicked.Store(j.id, fmt.Sprint(r))
						}
					}()
					c04hReplay(worlds[j.h.W], res, j.id, j.h)
				}()
			}
		}()
	}
	n := 0
	vReadNDJSON(t, "c04_hist.ndjson", func(line []byte) {
		h := new(c04hHist)
		if err := json.Unmarshal(line, h); err != nil {
			t.Fatalf("history: %v: %s", err, line)
		}
		if worlds[h.W] == nil {
			t.Fatalf("history of unknown world %d", h.W)
		}
		n++
		if n%20000 == 1 {
			res.Sample(json.RawMessage(append([]byte(nil), line...)))
		}
		jobs <- job{fmt.Sprintf("h%d", n), h}
	})
	close(jobs)
	wg.Wait()
	bad := 0
	panicked.Range(func(k, v any) bool {
		bad++
		if bad <= 3 {
			t.Errorf("history %v: %v", k, v)
		}
		return true
	})
	if bad > 0 {
		res.Extra["harness_panics_hist"] = bad
		t.FailNow()
	}
	res.mu.Lock()
	res.Traces += n
	res.Extra["histories_replayed"] = n
	res.mu.Unlock()
}
