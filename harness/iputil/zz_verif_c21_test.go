package iputil

// C21 — binding of spec/Reject.tla to CreateRejectPacket.
//
// V: every vector (abstract offending packet + output buffer capacity + allowed reply) is concretised into real bytes,
//    CreateRejectPacket is run, and the reply is *projected*: decoded with gopacket and independently re-checked (IP / TCP /
//    ICMP checksums, lengths, swapped addresses and ports, zero unused fields, quoted bytes = prefix of the offender).
//    Only a reply that passes all of that yields an abstract reply (rst / icmp); anything else is "malformed".
// T: seeded random structured packets (random addresses, ports, sequence numbers, sizes, options, extension headers,
//    ICMP types, buffer sizes) run the same way; (abstract packet, projected reply) pairs go to obs.ndjson and are
//    judged by TLC (Trace_Reject.tla).

import (
	"bytes"
	"encoding/binary"
	"encoding/json"
	"fmt"
	"math/rand"
	"testing"

	"github.com/google/gopacket"
	"github.com/google/gopacket/layers"
)

type c21Hdr struct {
	P  int  `json:"p"`
	N  int  `json:"n"`
	Fo int  `json:"fo"`
	Mf bool `json:"mf"`
}

type c21Pkt struct {
	Fam   int      `json:"fam"`
	Ihl   int      `json:"ihl"`
	Df    bool     `json:"df"`
	Mf    bool     `json:"mf"`
	Fo    int      `json:"fo"`
	Ext   []c21Hdr `json:"ext"`
	Proto int      `json:"proto"`
	T     int      `json:"t"`
	Tl    int      `json:"tl"`
	Flags int      `json:"flags"`
	Doff  int      `json:"doff"`
	SeqS  string   `json:"seqS"`
	AckS  string   `json:"ackS"`
	Buf   int      `json:"buf"`

	// concrete values chosen by the harness
	seq, ack uint32
	sp, dp   uint16
	src, dst []byte
}

type c21Exp struct {
	Kind     string `json:"kind"`
	Opt      bool   `json:"opt"`
	Why      string `json:"why"`
	SeqIsAck bool   `json:"seqIsAck"`
	AckAdd   int    `json:"ackAdd"`
	Rflags   int    `json:"rflags"`
	Itype    int    `json:"itype"`
	Icode    int    `json:"icode"`
	Qmin     int    `json:"qmin"`
	Qmax     int    `json:"qmax"`
}

type c21Vec struct {
	In  c21Pkt `json:"in"`
	Exp c21Exp `json:"exp"`
}

type c21Got struct {
	Kind      string `json:"kind"`
	Size      int    `json:"size"`
	SeqIsAck  bool   `json:"seqIsAck"`
	SeqIsZero bool   `json:"seqIsZero"`
	AckIsZero bool   `json:"ackIsZero"`
	AckDelta  int    `json:"ackDelta"`
	Rflags    int    `json:"rflags"`
	Itype     int    `json:"itype"`
	Icode     int    `json:"icode"`
	Qlen      int    `json:"qlen"`
	Why       string `json:"why,omitempty"`
	Detail    string `json:"detail,omitempty"`
}

func c21SymVal(s string, isAck bool) uint32 {
	switch s {
	case "zero":
		return 0
	case "max":
		return 0xffffffff
	case "nearmax":
		return 0xfffffff0
	}
	if isAck {
		return 0x0a0b0c0d
	}
	return 0x01020304
}

func c21ExtSize(h c21Hdr) int {
	switch h.P {
	case 44:
		return 8
	case 51:
		return (h.N + 2) * 4
	}
	return (h.N + 1) * 8
}

// independent Internet checksum (RFC 1071): folded one's complement sum of big-endian 16-bit words
func c21Sum(parts ...[]byte) uint16 {
	var s uint32
	for _, b := range parts {
		if len(b)%2 == 1 {
			b = append(append([]byte(nil), b...), 0)
		}
		for i := 0; i < len(b); i += 2 {
			s += uint32(binary.BigEndian.Uint16(b[i:]))
			s = (s & 0xffff) + (s >> 16)
		}
	}
	return uint16(s)
}

func c21Pseudo(src, dst []byte, proto byte, l int) []byte {
	ph := append(append([]byte(nil), src...), dst...)
	if len(src) == 4 {
		return append(ph, 0, proto, byte(l>>8), byte(l))
	}
	return append(ph, byte(l>>24), byte(l>>16), byte(l>>8), byte(l), 0, 0, 0, proto)
}

func c21Hdrlen(p *c21Pkt) int {
	if p.Fam == 4 {
		return p.Ihl * 4
	}
	n := 40
	for _, h := range p.Ext {
		n += c21ExtSize(h)
	}
	return n
}

// c21Bytes concretises the abstract packet (len == cap == header + tl).
func c21Bytes(p *c21Pkt) []byte {
	n := p.Tl
	if n < 64 {
		n = 64
	}
	tr := make([]byte, n)
	for i := range tr {
		tr[i] = byte(0x30 + i%61)
	}
	icmp := (p.Fam == 4 && p.Proto == 1) || (p.Fam == 6 && p.Proto == 58)
	switch {
	case p.Proto == 6:
		binary.BigEndian.PutUint16(tr[0:], p.sp)
		binary.BigEndian.PutUint16(tr[2:], p.dp)
		binary.BigEndian.PutUint32(tr[4:], p.seq)
		binary.BigEndian.PutUint32(tr[8:], p.ack)
		tr[12], tr[13] = byte(p.Doff<<4), byte(p.Flags)
		binary.BigEndian.PutUint16(tr[14:], 0x2000)
		tr[16], tr[17], tr[18], tr[19] = 0x12, 0x34, 0, 0
		for i := 20; i < p.Doff*4 && i < len(tr); i++ {
			tr[i] = 1
		}
	case p.Proto == 17:
		binary.BigEndian.PutUint16(tr[0:], p.sp)
		binary.BigEndian.PutUint16(tr[2:], p.dp)
		binary.BigEndian.PutUint16(tr[4:], uint16(p.Tl))
	case icmp:
		tr[0], tr[1] = byte(p.T), 0
		binary.BigEndian.PutUint16(tr[4:], p.sp)
	}
	tr = tr[:p.Tl]
	var b []byte
	if p.Fam == 4 {
		b = make([]byte, p.Ihl*4)
		b[0] = 4<<4 | byte(p.Ihl)
		binary.BigEndian.PutUint16(b[2:], uint16(len(b)+len(tr)))
		binary.BigEndian.PutUint16(b[4:], 0x7777)
		ff := p.Fo & 0x1fff
		if p.Df {
			ff |= 0x4000
		}
		if p.Mf {
			ff |= 0x2000
		}
		binary.BigEndian.PutUint16(b[6:], uint16(ff))
		b[8], b[9] = 61, byte(p.Proto)
		copy(b[12:16], p.src)
		copy(b[16:20], p.dst)
		for i := 20; i < len(b); i++ {
			b[i] = 1
		}
		binary.BigEndian.PutUint16(b[10:], ^c21Sum(b))
	} else {
		b = make([]byte, 40)
		b[0], b[1], b[2], b[3] = byte(p.Fam<<4)|0x0a, 0xbc, 0xde, 0xf0 // traffic class and flow label must not be echoed blindly
		b[7] = 59
		copy(b[8:24], p.src)
		copy(b[24:40], p.dst)
		next := func(i int) byte {
			if i < len(p.Ext) {
				return byte(p.Ext[i].P)
			}
			return byte(p.Proto)
		}
		b[6] = next(0)
		for i, h := range p.Ext {
			e := make([]byte, c21ExtSize(h))
			e[0] = next(i + 1)
			if h.P == 44 {
				v := (h.Fo & 0x1fff) << 3
				if h.Mf {
					v |= 1
				}
				binary.BigEndian.PutUint16(e[2:], uint16(v))
				binary.BigEndian.PutUint32(e[4:], 0xfeedc0de)
			} else {
				e[1] = byte(h.N)
				for k := 2; k < len(e); k++ {
					e[k] = 1
				}
			}
			b = append(b, e...)
		}
		binary.BigEndian.PutUint16(b[4:], uint16(len(b)-40+len(tr)))
	}
	out := make([]byte, len(b)+len(tr))
	copy(out, b)
	copy(out[len(b):], tr)
	return out
}

func c21Bad(why, format string, a ...any) c21Got {
	return c21Got{Kind: "malformed", Why: why, Detail: fmt.Sprintf(format, a...)}
}

// c21Project decodes a real reply and yields the abstract reply only when it is a well-formed packet.
func c21Project(reply []byte, p *c21Pkt, orig []byte) c21Got {
	if len(reply) == 0 {
		return c21Got{Kind: "none"}
	}
	g := c21Got{Size: len(reply)}
	first := layers.LayerTypeIPv4
	if p.Fam == 6 {
		first = layers.LayerTypeIPv6
	}
	if int(reply[0]>>4) != p.Fam {
		return c21Bad("ip-version", "version %d for an IPv%d offender", reply[0]>>4, p.Fam)
	}
	pkt := gopacket.NewPacket(reply, first, gopacket.DecodeOptions{NoCopy: true})
	if el := pkt.ErrorLayer(); el != nil {
		return c21Bad("decode", "gopacket: %v", el.Error())
	}
	var proto layers.IPProtocol
	var src, dst, l4 []byte
	if p.Fam == 4 {
		ip, _ := pkt.Layer(layers.LayerTypeIPv4).(*layers.IPv4)
		switch {
		case ip == nil:
			return c21Bad("decode", "no IPv4 layer")
		case ip.IHL != 5:
			return c21Bad("ip-header", "ihl %d", ip.IHL)
		case int(ip.Length) != len(reply):
			return c21Bad("ip-length", "total length %d, reply has %d bytes", ip.Length, len(reply))
		case ip.Flags&layers.IPv4MoreFragments != 0 || ip.FragOffset != 0:
			return c21Bad("ip-header", "reply is a fragment")
		case ip.TTL == 0:
			return c21Bad("ip-header", "ttl 0")
		case c21Sum(reply[:20]) != 0xffff:
			return c21Bad("ip-checksum", "IPv4 header checksum does not verify (header %x)", reply[:20])
		}
		proto, src, dst, l4 = ip.Protocol, []byte(ip.SrcIP.To4()), []byte(ip.DstIP.To4()), reply[20:]
	} else {
		ip, _ := pkt.Layer(layers.LayerTypeIPv6).(*layers.IPv6)
		switch {
		case ip == nil:
			return c21Bad("decode", "no IPv6 layer")
		case int(ip.Length) != len(reply)-40:
			return c21Bad("ip-length", "payload length %d, reply has %d bytes after the header", ip.Length, len(reply)-40)
		case ip.HopLimit == 0:
			return c21Bad("ip-header", "hop limit 0")
		}
		proto, src, dst, l4 = ip.NextHeader, []byte(ip.SrcIP.To16()), []byte(ip.DstIP.To16()), reply[40:]
	}
	if !bytes.Equal(src, p.dst) || !bytes.Equal(dst, p.src) {
		return c21Bad("addresses", "reply %x -> %x, offender %x -> %x", src, dst, p.src, p.dst)
	}
	switch {
	case proto == layers.IPProtocolTCP:
		tcp, _ := pkt.Layer(layers.LayerTypeTCP).(*layers.TCP)
		switch {
		case tcp == nil:
			return c21Bad("decode", "no TCP layer")
		case tcp.DataOffset != 5 || len(l4) != 20 || len(tcp.Payload) != 0:
			return c21Bad("tcp-header", "data offset %d, %d bytes", tcp.DataOffset, len(l4))
		case uint16(tcp.SrcPort) != p.dp || uint16(tcp.DstPort) != p.sp:
			return c21Bad("ports", "reply %d -> %d, offender %d -> %d", tcp.SrcPort, tcp.DstPort, p.sp, p.dp)
		case c21Sum(c21Pseudo(src, dst, 6, len(l4)), l4) != 0xffff:
			return c21Bad("tcp-checksum", "TCP checksum does not verify (%x)", l4)
		}
		g.Kind = "rst"
		g.Rflags = int(l4[13])
		g.SeqIsAck, g.SeqIsZero, g.AckIsZero = tcp.Seq == p.ack, tcp.Seq == 0, tcp.Ack == 0
		g.AckDelta = -2
		if d := tcp.Ack - p.seq; d < 1<<20 {
			g.AckDelta = int(d)
		}
		return g
	case p.Fam == 4 && proto == layers.IPProtocolICMPv4:
		ic, _ := pkt.Layer(layers.LayerTypeICMPv4).(*layers.ICMPv4)
		switch {
		case ic == nil || len(l4) < 8:
			return c21Bad("decode", "no ICMPv4 layer")
		case c21Sum(l4) != 0xffff:
			return c21Bad("icmp-checksum", "ICMP checksum does not verify")
		case !bytes.Equal(l4[4:8], []byte{0, 0, 0, 0}):
			return c21Bad("icmp-unused", "unused field %x", l4[4:8])
		}
		g.Kind, g.Itype, g.Icode = "icmp", int(ic.TypeCode.Type()), int(ic.TypeCode.Code())
	case p.Fam == 6 && proto == layers.IPProtocolICMPv6:
		ic, _ := pkt.Layer(layers.LayerTypeICMPv6).(*layers.ICMPv6)
		switch {
		case ic == nil || len(l4) < 8:
			return c21Bad("decode", "no ICMPv6 layer")
		case c21Sum(c21Pseudo(src, dst, 58, len(l4)), l4) != 0xffff:
			return c21Bad("icmp-checksum", "ICMPv6 checksum does not verify")
		case !bytes.Equal(l4[4:8], []byte{0, 0, 0, 0}):
			return c21Bad("icmp-unused", "unused field %x", l4[4:8])
		}
		g.Kind, g.Itype, g.Icode = "icmp", int(ic.TypeCode.Type()), int(ic.TypeCode.Code())
	default:
		return c21Bad("protocol", "reply protocol %d", proto)
	}
	q := l4[8:]
	if len(q) > len(orig) || !bytes.Equal(q, orig[:len(q)]) {
		return c21Bad("quote", "quoted bytes are not a prefix of the offending packet")
	}
	g.Qlen = len(q)
	return g
}

// c21Run calls the real function with an output buffer of exactly the given capacity.
func c21Run(p *c21Pkt, data []byte, lenIsCap bool) (g c21Got) {
	defer func() {
		if r := recover(); r != nil {
			g = c21Got{Kind: "panic", Detail: fmt.Sprint(r)}
		}
	}()
	backing := bytes.Repeat([]byte{0xa5}, p.Buf+32)
	out := backing[:0:p.Buf]
	if lenIsCap {
		out = backing[:p.Buf:p.Buf]
	}
	orig := append([]byte(nil), data...)
	reply := CreateRejectPacket(data, out)
	for _, x := range backing[p.Buf:] {
		if x != 0xa5 {
			return c21Bad("overrun", "bytes beyond the buffer capacity were written")
		}
	}
	if len(reply) > p.Buf {
		return c21Bad("overrun", "reply of %d bytes from a buffer of capacity %d", len(reply), p.Buf)
	}
	return c21Project(reply, p, orig)
}

func c21MaxSize(p *c21Pkt) int {
	if p.Fam == 4 {
		return 96 // maxIPv4RejectPacketSize, documented in packet.go
	}
	return MaxRejectPacketSize
}

// c21Verdict is the Go image of RVerdict of Reject.tla.
func c21Verdict(r c21Got, a c21Exp, p *c21Pkt) string {
	switch r.Kind {
	case "panic":
		return "panic"
	case "malformed":
		return "malformed:" + r.Why
	case "none":
		if a.Kind == "none" || a.Opt {
			return "ok"
		}
		return "no-reply"
	}
	switch {
	case a.Kind == "none":
		return "replied-to-" + a.Why
	case r.Kind != a.Kind:
		return "wrong-kind"
	case r.Size > c21MaxSize(p) || r.Size > p.Buf:
		return "size"
	}
	if r.Kind == "rst" {
		switch {
		case r.Rflags != a.Rflags:
			return "rst-flags"
		case a.SeqIsAck && !r.SeqIsAck, !a.SeqIsAck && !r.SeqIsZero:
			return "rst-seq"
		case a.AckAdd == -1 && !r.AckIsZero, a.AckAdd != -1 && r.AckDelta != a.AckAdd:
			return "rst-ack"
		}
		return "ok"
	}
	switch {
	case r.Itype != a.Itype || r.Icode != a.Icode:
		return "icmp-type"
	case r.Qlen < a.Qmin || r.Qlen > a.Qmax:
		return "icmp-quote"
	}
	return "ok"
}

func c21Class(p *c21Pkt) string {
	s := fmt.Sprintf("v%d", p.Fam)
	if p.Fam != 4 && p.Fam != 6 {
		return "other-version"
	}
	icmp := (p.Fam == 4 && p.Proto == 1) || (p.Fam == 6 && p.Proto == 58)
	switch {
	case p.Proto == 6:
		s += ":tcp"
	case icmp && p.Tl > 0 && ((p.Fam == 4 && (p.T == 3 || p.T == 4 || p.T == 5 || p.T == 11 || p.T == 12)) || (p.Fam == 6 && p.T >= 1 && p.T <= 4)):
		s += ":icmp-error"
	case icmp:
		s += ":icmp-info"
	default:
		s += ":other"
	}
	later := p.Fam == 4 && p.Fo != 0
	for _, h := range p.Ext {
		if h.P == 44 && h.Fo != 0 {
			later = true
		}
	}
	if later {
		s += ":later-fragment"
	}
	return s
}

func TestVerif_C21(t *testing.T) {
	res := vNewResult()
	defer res.Write(t)

	src4, dst4 := []byte{10, 1, 2, 3}, []byte{172, 16, 5, 6}
	src6 := []byte{0xfd, 0, 0, 1, 0, 2, 0, 3, 0, 0, 0, 0, 0, 0, 0, 0x0a}
	dst6 := []byte{0xfd, 0, 0, 9, 0, 8, 0, 7, 0, 0, 0, 0, 0, 0, 0, 0x0b}
	n := 0
	vReadNDJSON(t, "vectors.ndjson", func(line []byte) {
		var v c21Vec
		if err := json.Unmarshal(line, &v); err != nil {
			t.Fatalf("vector: %v: %s", err, line)
		}
		n++
		p := &v.In
		p.seq, p.ack, p.sp, p.dp = c21SymVal(p.SeqS, false), c21SymVal(p.AckS, true), 0x1234, 0xabcd
		p.src, p.dst = src4, dst4
		if p.Fam == 6 {
			p.src, p.dst = src6, dst6
		}
		cls := c21Class(p)
		res.Hit(cls)
		res.Hit("ref:" + v.Exp.Kind)
		if v.Exp.Kind == "none" {
			res.Hit("ref:none:" + v.Exp.Why)
		}
		res.Case(string(line))
		if n%3001 == 1 {
			res.Sample(json.RawMessage(append([]byte(nil), line...)))
		}
		data := c21Bytes(p)
		g := c21Run(p, data, n%2 == 0)
		if w := c21Verdict(g, v.Exp, p); w != "ok" {
			res.Mismatch(cls+":"+w, fmt.Sprintf("CreateRejectPacket on %s packet %x with a %d byte buffer: projected reply %+v, specification %+v", cls, c21Head(data), p.Buf, g, v.Exp),
				map[string]any{"vector": json.RawMessage(append([]byte(nil), line...)), "bytes": fmt.Sprintf("%x", c21Head(data)), "got": g})
		}
	})
	res.Extra["vectors"] = n

	// ---------------------------------------------------------------- T
	rnd := vRand()
	tr := vNewTracer(t, "obs.ndjson")
	nobs := 4000
	if !vQuick() {
		nobs = 80000
	}
	for k := 1; k <= nobs; k++ {
		p := c21Random(rnd)
		data := c21Bytes(p)
		g := c21Run(p, data, k%2 == 0)
		cls := c21Class(p)
		ev := map[string]any{"n": k, "cls": cls, "p": p, "r": g, "seq": fmt.Sprintf("%#x", p.seq), "ack": fmt.Sprintf("%#x", p.ack)}
		if k <= 3 || g.Kind == "malformed" || g.Kind == "panic" {
			ev["bytes"] = fmt.Sprintf("%x", c21Head(data))
		}
		tr.Event(ev)
		res.Hit("T:" + cls)
		res.Hit("T:got:" + g.Kind)
		res.Case(fmt.Sprintf("T%x/%d", c21Head(data), p.Buf))
	}
	tr.Close()
}

func c21Head(b []byte) []byte {
	if len(b) > 160 {
		return b[:160]
	}
	return b
}

var c21Protos4 = []int{6, 6, 6, 17, 1, 1, 47, 50, 58, 132}
var c21Protos6 = []int{6, 6, 6, 17, 58, 58, 59, 47, 50, 132, 1}
var c21Types = []int{0, 8, 3, 4, 5, 11, 12, 13, 14, 128, 129, 1, 2, 3, 4, 133, 135, 100, 127}

func c21Random(rnd *rand.Rand) *c21Pkt {
	p := &c21Pkt{Ihl: 5, Doff: 5, Ext: []c21Hdr{}, Flags: rnd.Intn(256), sp: uint16(rnd.Intn(65536)), dp: uint16(rnd.Intn(65536))}
	pick32 := func() uint32 {
		switch rnd.Intn(8) {
		case 0:
			return 0
		case 1:
			return 0xffffffff
		case 2:
			return 0xffffffff - uint32(rnd.Intn(2000))
		}
		return rnd.Uint32()
	}
	p.seq, p.ack = pick32(), pick32()
	p.SeqS, p.AckS = "rand", "rand"
	if p.seq == 0 {
		p.SeqS = "zero"
	}
	if p.ack == 0 {
		p.AckS = "zero"
	}
	p.T = c21Types[rnd.Intn(len(c21Types))]
	if rnd.Intn(5) == 0 {
		p.T = rnd.Intn(256)
	}
	if rnd.Intn(2) == 0 {
		p.Fam = 4
		p.src, p.dst = make([]byte, 4), make([]byte, 4)
		if rnd.Intn(3) == 0 {
			p.Ihl = 5 + rnd.Intn(11)
		}
		p.Df, p.Mf = rnd.Intn(2) == 0, rnd.Intn(5) == 0
		if rnd.Intn(6) == 0 {
			p.Fo = 1 << uint(rnd.Intn(13))
			if rnd.Intn(2) == 0 {
				p.Fo = 1 + rnd.Intn(8191)
			}
		}
		p.Proto = c21Protos4[rnd.Intn(len(c21Protos4))]
	} else {
		p.Fam = 6
		p.src, p.dst = make([]byte, 16), make([]byte, 16)
		p.Proto = c21Protos6[rnd.Intn(len(c21Protos6))]
		if rnd.Intn(3) == 0 {
			for i, ne := 0, 1+rnd.Intn(4); i < ne; i++ {
				h := c21Hdr{P: []int{0, 43, 60, 44, 51}[rnd.Intn(5)]}
				if h.P == 44 {
					h.Mf = rnd.Intn(2) == 0
					if rnd.Intn(4) == 0 {
						h.Fo = 1 << uint(rnd.Intn(13))
					}
				} else {
					h.N = rnd.Intn(3)
				}
				p.Ext = append(p.Ext, h)
			}
		}
	}
	for {
		rnd.Read(p.src)
		rnd.Read(p.dst)
		if !bytes.Equal(p.src, p.dst) {
			break
		}
	}
	// bytes after the IP header (chain)
	switch x := rnd.Intn(10); {
	case x < 2:
		p.Tl = rnd.Intn(28)
	case x < 7:
		p.Tl = 20 + rnd.Intn(200)
	case x < 8:
		p.Tl = 1000 - c21Hdrlen(p) + rnd.Intn(5) - 2
	default:
		p.Tl = 200 + rnd.Intn(1300)
	}
	if p.Tl < 0 {
		p.Tl = 0
	}
	if p.Proto == 6 && p.Tl >= 20 {
		max := p.Tl / 4
		if max > 15 {
			max = 15
		}
		if rnd.Intn(3) == 0 {
			p.Doff = 5 + rnd.Intn(max-4)
		}
	}
	// output buffer: around the sizes that matter, or plenty
	hdr, outer := c21Hdrlen(p), 40
	if p.Fam == 4 {
		outer = 20
	}
	switch x := rnd.Intn(10); {
	case x < 5:
		p.Buf = MaxRejectPacketSize + rnd.Intn(2)*1000
	case x < 7:
		p.Buf = outer + 20 + rnd.Intn(5) - 2
	case x < 9:
		q := hdr + p.Tl
		if p.Fam == 4 && q > hdr+8 {
			q = hdr + 8
		}
		if q > 1000 {
			q = 1000
		}
		p.Buf = outer + 8 + q + rnd.Intn(5) - 2
	default:
		p.Buf = rnd.Intn(130)
	}
	return p
}
