//go:build linux && !android

package tio

// C24 — binding of spec/Segment.tla to virtio.SegmentTCP / virtio.SegmentUDP / SegmentSuperpacket.
//
//  V: every abstract superpacket of Segment.tla's lattice is concretised into real bytes (IPv4 with options, IPv6 with an
//     extension header, TCP options, UDP; sequence numbers and IDs next to their wrap) and segmented by the real code,
//     once through virtio.SegmentTCP/SegmentUDP directly and once the way the tun reader does it (virtio.CheckValid ->
//     virtio.CorrectHdrLen -> protoFromGSOType -> SegmentSuperpacket).
//  T: seeded random superpackets at real sizes take the same route.
//  Every yielded segment is projected independently of the code under test: decoded with gopacket (must parse as
//  IP + TCP/UDP with consistent lengths), IP and transport checksums recomputed from scratch, payload located in the
//  original payload, every header byte that segmentation must not touch compared with the superpacket's.  The
//  projections are recorded and judged by TLC against the statement (Trace_Segment.tla).

import (
	"bytes"
	"encoding/binary"
	"encoding/json"
	"fmt"
	"math/rand"
	"testing"

	"github.com/google/gopacket"
	"github.com/google/gopacket/layers"
	"golang.org/x/sys/unix"

	"github.com/slackhq/nebula/overlay/tio/virtio"
)

type c24Sup struct {
	Fam    int      `json:"fam"`
	Proto  string   `json:"proto"`
	IPOpt  int      `json:"ipopt"`
	L4Opt  int      `json:"l4opt"`
	PayLen int      `json:"paylen"`
	GSO    int      `json:"gso"`
	Seq    int      `json:"seq"`
	ID     int      `json:"id"`
	Flags  []string `json:"flags"`
}

type c24Seg struct {
	Len   int      `json:"len"`
	Seq   int      `json:"seq"`
	ID    int      `json:"id"`
	Flags []string `json:"flags"`
	Ok    bool     `json:"ok"`
	Why   string   `json:"why,omitempty"`
}

var c24FlagOrder = []string{"FIN", "SYN", "RST", "PSH", "ACK", "URG", "ECE", "CWR"}

func c24FlagByte(fl []string) byte {
	var b byte
	for _, f := range fl {
		for k, n := range c24FlagOrder {
			if n == f {
				b |= 1 << uint(k)
			}
		}
	}
	return b
}

func c24FlagNames(b byte) []string {
	out := []string{}
	for k, n := range c24FlagOrder {
		if b&(1<<uint(k)) != 0 {
			out = append(out, n)
		}
	}
	return out
}

// c24Sum is the Internet checksum's one's-complement sum (not complemented), written here from RFC 1071.
func c24Sum(b []byte, acc uint32) uint32 {
	for len(b) >= 2 {
		acc += uint32(b[0])<<8 | uint32(b[1])
		b = b[2:]
	}
	if len(b) == 1 {
		acc += uint32(b[0]) << 8
	}
	for acc>>16 != 0 {
		acc = acc&0xffff + acc>>16
	}
	return acc
}

func c24Pseudo(fam int, src, dst []byte, proto byte, l4len int) uint32 {
	acc := c24Sum(src, 0)
	acc = c24Sum(dst, acc)
	if fam == 4 {
		return c24Sum([]byte{0, proto, byte(l4len >> 8), byte(l4len)}, acc)
	}
	return c24Sum([]byte{byte(l4len >> 24), byte(l4len >> 16), byte(l4len >> 8), byte(l4len), 0, 0, 0, proto}, acc)
}

func c24PayByte(p int) byte { return byte(p*7 + (p/251)*13 + 3) }

type c24Built struct {
	pkt       []byte
	hdrLen    int
	csumStart int
	proto     byte
}

// c24Build concretises an abstract superpacket the way the kernel hands it over on a vnet-hdr tun: total length of the
// whole superpacket in the IP header, pseudo-header sum in the transport checksum field.
func c24Build(s c24Sup, rnd *rand.Rand) c24Built {
	var proto byte = unix.IPPROTO_TCP
	l4hdr := 20 + s.L4Opt
	if s.Proto == "udp" {
		proto, l4hdr = unix.IPPROTO_UDP, 8
	}
	var ip []byte
	addr := func(n int) []byte {
		b := make([]byte, n)
		rnd.Read(b)
		b[0] = 10
		return b
	}
	if s.Fam == 4 {
		ihl := 20 + s.IPOpt
		ip = make([]byte, ihl)
		ip[0] = 0x40 | byte(ihl/4)
		ip[1] = byte(rnd.Intn(64))<<2 | 0x02 // DSCP, ECT(0)
		binary.BigEndian.PutUint16(ip[4:], uint16(s.ID))
		ip[6] = 0x40 // DF
		ip[8] = byte(1 + rnd.Intn(255))
		ip[9] = proto
		copy(ip[12:16], addr(4))
		copy(ip[16:20], addr(4))
		for k := 20; k < ihl; k++ {
			ip[k] = 0x01 // NOP
		}
		if s.IPOpt >= 4 {
			copy(ip[ihl-4:], []byte{0x94, 0x04, 0x00, 0x00}) // router alert
		}
	} else {
		ip = make([]byte, 40+s.IPOpt)
		ip[0] = 0x60 | byte(rnd.Intn(16))
		ip[1] = byte(rnd.Intn(256))
		ip[2], ip[3] = byte(rnd.Intn(256)), byte(rnd.Intn(256))
		ip[6] = proto
		ip[7] = byte(1 + rnd.Intn(255))
		copy(ip[8:24], addr(16))
		copy(ip[24:40], addr(16))
		if s.IPOpt == 8 {
			ip[6] = 60 // destination options
			copy(ip[40:], []byte{proto, 0, 0x01, 0x04, 0, 0, 0, 0})
		}
	}
	l4 := make([]byte, l4hdr)
	// ports outside gopacket's port -> application layer table (only IP and transport layers are judged)
	binary.BigEndian.PutUint16(l4[0:], uint16(20000+rnd.Intn(10000)))
	binary.BigEndian.PutUint16(l4[2:], uint16(30000+rnd.Intn(10000)))
	if s.Proto == "tcp" {
		binary.BigEndian.PutUint32(l4[4:], uint32(int64(s.Seq)))
		binary.BigEndian.PutUint32(l4[8:], rnd.Uint32())
		l4[12] = byte(l4hdr/4) << 4
		l4[13] = c24FlagByte(s.Flags)
		binary.BigEndian.PutUint16(l4[14:], uint16(rnd.Intn(65536)))
		binary.BigEndian.PutUint16(l4[18:], uint16(rnd.Intn(65536)))
		for k := 20; k < l4hdr; k++ {
			l4[k] = 0x01
		}
		if s.L4Opt >= 12 {
			o := l4[l4hdr-10:]
			o[0], o[1] = 8, 10 // timestamps
			binary.BigEndian.PutUint32(o[2:], rnd.Uint32())
			binary.BigEndian.PutUint32(o[6:], rnd.Uint32())
		}
	}
	pkt := make([]byte, 0, len(ip)+l4hdr+s.PayLen)
	pkt = append(pkt, ip...)
	pkt = append(pkt, l4...)
	for p := 0; p < s.PayLen; p++ {
		pkt = append(pkt, c24PayByte(p))
	}
	cs := len(ip)
	l4len := l4hdr + s.PayLen
	var src, dst []byte
	if s.Fam == 4 {
		binary.BigEndian.PutUint16(pkt[2:], uint16(len(pkt)))
		binary.BigEndian.PutUint16(pkt[10:], ^uint16(c24Sum(pkt[:cs], 0)))
		src, dst = pkt[12:16], pkt[16:20]
	} else {
		binary.BigEndian.PutUint16(pkt[4:], uint16(len(pkt)-40))
		src, dst = pkt[8:24], pkt[24:40]
	}
	ps := uint16(c24Pseudo(s.Fam, src, dst, proto, l4len))
	if s.Proto == "tcp" {
		binary.BigEndian.PutUint16(pkt[cs+16:], ps)
	} else {
		binary.BigEndian.PutUint16(pkt[cs+4:], uint16(l4len))
		binary.BigEndian.PutUint16(pkt[cs+6:], ps)
	}
	return c24Built{pkt: pkt, hdrLen: cs + l4hdr, csumStart: cs, proto: proto}
}

// c24SteerZero changes one payload word of UDP segment k (0-based) of the built superpacket so that the checksum of that
// segment COMPUTES to 0x0000 -- which has to go out as 0xffff (RFC 768; on IPv6 a zero field is illegal, RFC 8200 8.1).
// Returns false when the segment has no aligned payload word.
func c24SteerZero(s c24Sup, b *c24Built, k int) bool {
	start := k * s.GSO
	n := s.PayLen - start
	if n > s.GSO {
		n = s.GSO
	}
	if s.Proto != "udp" || n < 2 {
		return false
	}
	cs := b.csumStart
	var src, dst []byte
	if s.Fam == 4 {
		src, dst = b.pkt[12:16], b.pkt[16:20]
	} else {
		src, dst = b.pkt[8:24], b.pkt[24:40]
	}
	pay := b.pkt[b.hdrLen+start : b.hdrLen+start+n]
	pay[0], pay[1] = 0, 0
	acc := c24Pseudo(s.Fam, src, dst, unix.IPPROTO_UDP, 8+n)
	acc = c24Sum(b.pkt[cs:cs+4], acc) // ports
	acc = c24Sum([]byte{byte((8 + n) >> 8), byte(8 + n)}, acc)
	acc = c24Sum(pay, acc)
	w := uint16(0xffff - acc) // acc + w = 0xffff: the complement is zero
	binary.BigEndian.PutUint16(pay, w)
	return true
}

// c24Project judges one yielded segment without using anything of the code under test.
func c24Project(s c24Sup, orig c24Built, origPkt []byte, seg []byte, payOff int) c24Seg {
	out := c24Seg{Flags: []string{}}
	bad := func(f string, a ...any) c24Seg {
		if out.Why == "" {
			out.Why = fmt.Sprintf(f, a...)
		}
		out.Ok = false
		return out
	}
	out.Ok = true
	hl := orig.hdrLen
	if len(seg) < hl {
		out.Len = 0
		return bad("segment of %d bytes is shorter than the headers (%d)", len(seg), hl)
	}
	out.Len = len(seg) - hl
	// 1. decodes as a valid packet with consistent lengths
	first := layers.LayerTypeIPv4
	if s.Fam == 6 {
		first = layers.LayerTypeIPv6
	}
	p := gopacket.NewPacket(seg, first, gopacket.Default)
	if el := p.ErrorLayer(); el != nil && (p.NetworkLayer() == nil || p.TransportLayer() == nil) {
		bad("does not decode: %v", el.Error())
	}
	cs := orig.csumStart
	if s.Fam == 4 {
		ip, _ := p.NetworkLayer().(*layers.IPv4)
		if ip == nil {
			bad("no IPv4 layer")
		} else {
			if int(ip.Length) != len(seg) {
				bad("IPv4 total length %d, segment has %d bytes", ip.Length, len(seg))
			}
			if int(ip.IHL)*4 != cs {
				bad("IHL %d", ip.IHL)
			}
			if c24Sum(seg[:cs], 0) != 0xffff {
				bad("IPv4 header checksum %#04x is wrong", ip.Checksum)
			}
			out.ID = s.ID + int(int16(ip.Id-uint16(int64(s.ID))))
		}
	} else {
		ip, _ := p.NetworkLayer().(*layers.IPv6)
		if ip == nil {
			bad("no IPv6 layer")
		} else if int(ip.Length) != len(seg)-40 {
			bad("IPv6 payload length %d, segment has %d bytes after the fixed header", ip.Length, len(seg)-40)
		}
	}
	var src, dst []byte
	if s.Fam == 4 {
		src, dst = seg[12:16], seg[16:20]
	} else {
		src, dst = seg[8:24], seg[24:40]
	}
	l4 := seg[cs:]
	if c24Sum(l4, c24Pseudo(s.Fam, src, dst, orig.proto, len(l4))) != 0xffff {
		bad("%s checksum is wrong", s.Proto)
	}
	if s.Proto == "tcp" {
		tcp, _ := p.TransportLayer().(*layers.TCP)
		if tcp == nil {
			bad("no TCP layer")
		} else {
			if int(tcp.DataOffset)*4 != hl-cs {
				bad("TCP data offset %d", tcp.DataOffset)
			}
			if len(tcp.Payload) != out.Len {
				bad("TCP payload of %d bytes, expected %d", len(tcp.Payload), out.Len)
			}
			out.Seq = s.Seq + int(int32(tcp.Seq-uint32(int64(s.Seq))))
			out.Flags = c24FlagNames(l4[13])
		}
	} else {
		udp, _ := p.TransportLayer().(*layers.UDP)
		if udp == nil {
			bad("no UDP layer")
		} else {
			if int(udp.Length) != len(l4) {
				bad("UDP length %d, datagram has %d bytes", udp.Length, len(l4))
			}
			if udp.Checksum == 0 {
				bad("UDP checksum field is zero (no checksum)")
			}
		}
	}
	// 2. the payload is the next bytes of the original payload
	if payOff+out.Len > s.PayLen || !bytes.Equal(seg[hl:], origPkt[hl+payOff:hl+payOff+out.Len]) {
		bad("payload is not the original payload at offset %d (len %d)", payOff, out.Len)
	}
	// 3. everything segmentation must not touch is the superpacket's
	mask := func(b []byte) []byte {
		m := append([]byte(nil), b[:hl]...)
		zero := func(off, n int) {
			for k := off; k < off+n; k++ {
				m[k] = 0
			}
		}
		if s.Fam == 4 {
			zero(2, 2)  // total length
			zero(4, 2)  // ID
			zero(10, 2) // header checksum
		} else {
			zero(4, 2) // payload length
		}
		if s.Proto == "tcp" {
			zero(cs+4, 4) // sequence number
			m[cs+13] = 0  // flags
			zero(cs+16, 2)
		} else {
			zero(cs+4, 4) // length, checksum
		}
		return m
	}
	if !bytes.Equal(mask(seg), mask(origPkt)) {
		bad("header bytes other than length/ID/sequence/flags/checksums differ from the superpacket's")
	}
	return out
}

type c24Line struct {
	Ev  string   `json:"ev"`
	Via string   `json:"via"`
	Sup c24Sup   `json:"sup"`
	Out []c24Seg `json:"out"`
	Err string   `json:"err,omitempty"`
}

var c24ZeroSeen, c24ZeroSteered int // UDP superpackets in which one segment's checksum computes to zero

func c24Class(s c24Sup) string { return fmt.Sprintf("%s%d", s.Proto, s.Fam) }

// c24Run segments one concretised superpacket through the chosen entry point and projects what is yielded.
func c24Run(s c24Sup, via string, rnd *rand.Rand) c24Line {
	b := c24Build(s, rnd)
	if s.Proto == "udp" && s.GSO > 0 && rnd.Intn(3) == 0 {
		nseg := (s.PayLen + s.GSO - 1) / s.GSO
		if nseg > 0 && c24SteerZero(s, &b, rnd.Intn(nseg)) {
			c24ZeroSteered++
		}
	}
	origPkt := append([]byte(nil), b.pkt...)
	line := c24Line{Ev: "seg", Via: via, Sup: s, Out: []c24Seg{}}
	payOff := 0
	yield := func(seg []byte) error {
		sg := c24Project(s, b, origPkt, seg, payOff)
		payOff += sg.Len
		line.Out = append(line.Out, sg)
		if len(line.Out) > s.PayLen+2 {
			return fmt.Errorf("c24: runaway segmentation")
		}
		return nil
	}
	err := func() (err error) {
		defer func() {
			if r := recover(); r != nil {
				err = fmt.Errorf("panic: %v", r)
			}
		}()
		switch via {
		case "virtio":
			if s.Proto == "tcp" {
				return virtio.SegmentTCP(b.pkt, uint16(b.hdrLen), uint16(b.csumStart), uint16(s.GSO), yield)
			}
			return virtio.SegmentUDP(b.pkt, uint16(b.hdrLen), uint16(b.csumStart), uint16(s.GSO), yield)
		default:
			// what Offload.decodeRead does with a superpacket read from the tun; the kernel's hdr_len is not trusted
			gt := uint8(unix.VIRTIO_NET_HDR_GSO_UDP_L4)
			co := uint16(6)
			if s.Proto == "tcp" {
				co = 16
				gt = unix.VIRTIO_NET_HDR_GSO_TCPV4
				if s.Fam == 6 {
					gt = unix.VIRTIO_NET_HDR_GSO_TCPV6
				}
				if len(s.Flags) > 0 && s.Flags[len(s.Flags)-1] == "CWR" {
					gt |= unix.VIRTIO_NET_HDR_GSO_ECN
				}
			}
			kernelHdrLen := uint16(b.hdrLen)
			if rnd.Intn(2) == 0 {
				kernelHdrLen = uint16(len(b.pkt)) // FORWARD path: length of the whole first packet
				if s.GSO < s.PayLen {
					kernelHdrLen = uint16(b.hdrLen + s.GSO)
				}
			}
			hdr := virtio.NewHeader(unix.VIRTIO_NET_HDR_F_NEEDS_CSUM, gt, kernelHdrLen, uint16(s.GSO), uint16(b.csumStart), co)
			if err := virtio.CheckValid(b.pkt, hdr); err != nil {
				return fmt.Errorf("CheckValid: %w", err)
			}
			if err := virtio.CorrectHdrLen(b.pkt, &hdr); err != nil {
				return fmt.Errorf("CorrectHdrLen: %w", err)
			}
			proto, err := protoFromGSOType(hdr.GSOType())
			if err != nil {
				return err
			}
			pk := Packet{Bytes: b.pkt, GSO: GSOInfo{Size: hdr.GSOSize, HdrLen: hdr.HdrLen, CsumStart: hdr.CsumStart, Proto: proto}}
			return SegmentSuperpacket(pk, yield)
		}
	}()
	if err != nil {
		line.Err = err.Error()
		line.Out = []c24Seg{} // a refused superpacket yields nothing usable
	}
	return line
}

func TestVerif_C24(t *testing.T) {
	res := vNewResult()
	defer res.Write(t)
	rnd := vRand()
	tr := vNewTracer(t, "trace.ndjson")
	defer tr.Close()
	n := 0
	emit := func(line c24Line) {
		if n%40 == 0 {
			tr.Event(map[string]any{"ev": "reset"})
			res.Traces++
		}
		n++
		b, _ := json.Marshal(line)
		var m map[string]any
		_ = json.Unmarshal(b, &m)
		tr.Event(m)
		s := line.Sup
		res.Hit(c24Class(s))
		res.Hit("via:" + line.Via)
		for ; c24ZeroSeen < c24ZeroSteered; c24ZeroSeen++ {
			res.Hit(fmt.Sprintf("udp%d:segment-checksum-computes-to-zero", s.Fam))
		}
		switch {
		case s.PayLen == 0:
			res.Hit("header-only")
		case s.PayLen > s.GSO && s.PayLen%s.GSO != 0:
			res.Hit("short-tail")
		case s.PayLen > s.GSO:
			res.Hit("exact-multiple")
		default:
			res.Hit("single")
		}
		if s.IPOpt > 0 {
			res.Hit(fmt.Sprintf("ipopt%d", s.Fam))
		}
		if s.L4Opt > 0 {
			res.Hit("tcpopt")
		}
		if s.Seq < 0 || s.ID < 0 {
			res.Hit("wrap")
		}
		if line.Err != "" {
			res.Hit("refused")
		}
	}

	// ---------------------------------------------------------------- V
	vReadNDJSON(t, "vectors.ndjson", func(raw []byte) {
		var v struct {
			In c24Sup `json:"in"`
		}
		if err := json.Unmarshal(raw, &v); err != nil {
			t.Fatalf("vector: %v: %s", err, raw)
		}
		if v.In.Flags == nil {
			v.In.Flags = []string{}
		}
		res.Case(string(raw))
		for _, via := range []string{"virtio", "tio"} {
			emit(c24Run(v.In, via, rnd))
		}
		if n%1500 == 2 {
			res.Sample(json.RawMessage(append([]byte(nil), raw...)))
		}
	})

	// ---------------------------------------------------------------- T
	nr := 400
	if !vQuick() {
		nr = 4000
	}
	for k := 0; k < nr; k++ {
		s := c24Sup{Fam: 4, Proto: "tcp", Flags: []string{}}
		if rnd.Intn(2) == 0 {
			s.Fam = 6
		}
		if rnd.Intn(3) == 0 {
			s.Proto = "udp"
		}
		if s.Fam == 4 {
			s.IPOpt = []int{0, 0, 4, 8, 12, 40}[rnd.Intn(6)]
			s.ID = []int{rnd.Intn(65536), -1 - rnd.Intn(40), 0}[rnd.Intn(3)]
		} else {
			s.IPOpt = []int{0, 0, 8}[rnd.Intn(3)]
		}
		if s.Proto == "tcp" {
			s.L4Opt = []int{0, 12, 12, 20, 40}[rnd.Intn(5)]
			s.Seq = []int{rnd.Intn(1 << 30), -1 - rnd.Intn(70000), 1<<30 + rnd.Intn(1<<29)}[rnd.Intn(3)]
			s.Flags = c24FlagNames(byte(rnd.Intn(256)))
		}
		switch rnd.Intn(4) {
		case 0:
			s.GSO = 1 + rnd.Intn(64)
		case 1:
			s.GSO = []int{536, 1220, 1398, 1400, 1448, 1460, 8948}[rnd.Intn(7)]
		default:
			s.GSO = 1 + rnd.Intn(9000)
		}
		maxPay := 65535 - 60 - 60 - 8
		nseg := rnd.Intn(46)
		s.PayLen = nseg * s.GSO
		if rnd.Intn(3) != 0 {
			s.PayLen += rnd.Intn(s.GSO + 1)
		}
		if s.PayLen > maxPay {
			s.PayLen = maxPay - rnd.Intn(3)
		}
		if s.GSO < 16 && s.PayLen > 2000 {
			s.PayLen = rnd.Intn(2000)
		}
		res.Hit("random")
		emit(c24Run(s, []string{"virtio", "tio"}[k%2], rnd))
	}
}
