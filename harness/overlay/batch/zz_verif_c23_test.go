//go:build linux && !android

package batch

// C23 — binding of spec/Coalesce.tla to the real MultiCoalescer.
//
//  V: every abstract batch of Coalesce.tla's lattice is concretised into real packets (payload bytes carry the packet
//     id), committed in the vector's arrival order (or a seeded shuffle) with the ParsedPacket newPacket would give,
//     flushed over a recording tio.GSOWriter.
//  T: seeded random batches (up to 300 packets, 2 sessions, 40 flows, real sizes) take the same route.
//  Every recorded write is projected independently of the code under test: a plain write is matched with the batch
//  packet it is; an offloaded write is checked (lengths / IPv4 header checksum / pseudo-header seed of the superpacket
//  header) and re-segmented by the reference kernel segmentation (cross-checked with virtio.SegmentTCP/SegmentUDP),
//  every segment is identified by its payload tag and compared byte by byte with the original packet up to the fields
//  the kernel rewrites, its checksums recomputed from scratch.  The projections [id, ok] per segment, the geometry of
//  every offloaded write and the abstract batch are written to obs.ndjson and judged by TLC against the statement
//  (Trace_Coalesce.tla: Judge).

import (
	"bytes"
	"encoding/binary"
	"encoding/json"
	"fmt"
	"math/rand"
	"os"
	"sort"
	"testing"

	"github.com/slackhq/nebula/overlay/tio"
	"github.com/slackhq/nebula/overlay/tio/virtio"
	"github.com/slackhq/nebula/test"
)

type c23Rec struct {
	gso    bool
	tcp    bool
	raw    []byte
	ip, l4 []byte
	pays   [][]byte
}

type c23Writer struct{ ws []c23Rec }

func (w *c23Writer) Write(p []byte) (int, error) {
	w.ws = append(w.ws, c23Rec{raw: append([]byte(nil), p...)})
	return len(p), nil
}

func (w *c23Writer) WriteGSO(hdr []byte, transportHdr []byte, pays [][]byte, proto tio.GSOProto) error {
	r := c23Rec{gso: true, tcp: proto == tio.GSOProtoTCP, ip: append([]byte(nil), hdr...), l4: append([]byte(nil), transportHdr...)}
	for _, p := range pays {
		r.pays = append(r.pays, append([]byte(nil), p...))
	}
	w.ws = append(w.ws, r)
	return nil
}

func (w *c23Writer) Capabilities() tio.Capabilities { return tio.Capabilities{TSO: true, USO: true} }

type c23Seg struct {
	ID int  `json:"id"`
	Ok bool `json:"ok"`
}

type c23ObsWrite struct {
	GSO   bool     `json:"gso"`
	Lens  []int    `json:"lens"`
	Hdr   int      `json:"hdr"`
	HdrOk bool     `json:"hdrok"`
	Segs  []c23Seg `json:"segs"`
}

type c23Obs struct {
	N   int           `json:"n"`
	Fam int           `json:"fam"`
	Pk  [][]any       `json:"pk"`
	O   []c23ObsWrite `json:"o"`
}

// what the judge does not need but the report does
type c23Info struct {
	N     int            `json:"n"`
	Src   string         `json:"src"`
	Arr   []int          `json:"arr"`
	Cls   []string       `json:"cls"`
	Why   map[string]string `json:"why,omitempty"`
	Parts [][]int        `json:"parts"`
	Err   string         `json:"err,omitempty"`
}

// c23Compare: is got the packet c up to the fields the kernel rewrites?  plain = a write that was not offloaded.
func c23Compare(got []byte, c *c23Conc, plain bool) (bool, string) {
	if plain {
		if bytes.Equal(got, c.orig) {
			return true, ""
		}
		if c.decl > 0 && len(got) >= c.decl && bytes.Equal(got[:c.decl], c.orig[:c.decl]) {
			return true, "" // only bytes after the IP-declared end differ
		}
		if c.decl == 0 || len(got) < c.decl {
			return false, "bytes"
		}
		return false, c23Diff(got[:c.decl], c.orig[:c.decl], c, false)
	}
	if c.decl == 0 {
		return false, "undeclared-length-coalesced"
	}
	if len(got) != c.decl {
		return false, "length"
	}
	return c23DiffOK(got, c.orig[:c.decl], c)
}

func c23DiffOK(got, want []byte, c *c23Conc) (bool, string) {
	if d := c23Diff(got, want, c, true); d != "" {
		return false, d
	}
	// what the kernel rewrote must be right: lengths and checksums, recomputed from scratch
	p := c.abs
	var src, dst []byte
	if p.Fam == 4 {
		if int(binary.BigEndian.Uint16(got[2:])) != len(got) {
			return false, "ip-length-field"
		}
		if c23Sum(got[:c.l3], 0) != 0xffff {
			return false, "ip-checksum"
		}
		src, dst = got[12:16], got[16:20]
	} else {
		if int(binary.BigEndian.Uint16(got[4:]))+40 != len(got) {
			return false, "ip-length-field"
		}
		src, dst = got[8:24], got[24:40]
	}
	l4 := got[c.l3:]
	if p.Proto == "udp" && int(binary.BigEndian.Uint16(l4[4:])) != len(l4) {
		return false, "udp-length-field"
	}
	if c23Sum(l4, c23Pseudo(p.Fam, src, dst, c.proto, len(l4))) != 0xffff {
		return false, "l4-checksum"
	}
	return true, ""
}

// c23Diff names the first difference outside the fields the kernel rewrites ("" = none). masked: the segment came out of
// the kernel segmentation (lengths, checksums, and an IPv4 ID without meaning may differ).
func c23Diff(got, want []byte, c *c23Conc, masked bool) string {
	if len(got) != len(want) {
		return "length"
	}
	p := c.abs
	g := append([]byte(nil), got...)
	w := append([]byte(nil), want...)
	zero := func(off, n int) {
		for k := off; k < off+n && k < len(g); k++ {
			g[k], w[k] = 0, 0
		}
	}
	if masked {
		if p.Fam == 4 {
			zero(2, 2)
			zero(10, 2)
			if want[6]&0x40 != 0 {
				zero(4, 2) // DF set: the ID carries no meaning
			}
		} else {
			zero(4, 2)
		}
		if p.Proto == "tcp" {
			zero(c.l3+16, 2)
		} else if p.Proto == "udp" {
			zero(c.l3+4, 4)
		}
	}
	if bytes.Equal(g, w) {
		return ""
	}
	at := 0
	for at < len(g) && g[at] == w[at] {
		at++
	}
	switch {
	case at >= c.hdr:
		return "payload"
	case at >= c.l3:
		o := at - c.l3
		switch {
		case o < 4:
			return "ports"
		case p.Proto == "tcp" && o < 8:
			return "tcp-seq"
		case p.Proto == "tcp" && o < 12:
			return "tcp-ack"
		case p.Proto == "tcp" && o == 13:
			return "tcp-flags"
		case p.Proto == "tcp":
			return "tcp-header"
		}
		return "l4-header"
	case p.Fam == 4 && at == 1, p.Fam == 6 && at <= 1:
		return "tos"
	case p.Fam == 4 && (at == 4 || at == 5):
		return "ip-id"
	case p.Fam == 4 && (at == 6 || at == 7):
		return "ip-frag"
	}
	return "ip-header"
}

// c23HdrOK: would the kernel accept the superpacket header (IP length fields, IPv4 header checksum, the pseudo-header
// seed of the L4 checksum, the UDP length)?
func c23HdrOK(r *c23Rec) (bool, string) {
	total := len(r.ip) + len(r.l4)
	for _, p := range r.pays {
		total += len(p)
	}
	if len(r.ip) < 20 || (r.tcp && len(r.l4) < 20) || (!r.tcp && len(r.l4) != 8) {
		return false, "short header"
	}
	l4len := total - len(r.ip)
	var src, dst []byte
	fam := 4
	var proto byte = 17
	if r.tcp {
		proto = 6
	}
	switch r.ip[0] >> 4 {
	case 4:
		if int(r.ip[0]&0x0f)*4 != len(r.ip) || r.ip[9] != proto {
			return false, "ip header shape"
		}
		if int(binary.BigEndian.Uint16(r.ip[2:])) != total {
			return false, "ip total length"
		}
		if c23Sum(r.ip, 0) != 0xffff {
			return false, "ip header checksum"
		}
		src, dst = r.ip[12:16], r.ip[16:20]
	case 6:
		fam = 6
		if len(r.ip) != 40 || r.ip[6] != proto {
			return false, "ip header shape"
		}
		if int(binary.BigEndian.Uint16(r.ip[4:])) != l4len {
			return false, "ip payload length"
		}
		src, dst = r.ip[8:24], r.ip[24:40]
	default:
		return false, "ip version"
	}
	ps := uint16(c23Pseudo(fam, src, dst, proto, l4len))
	if r.tcp {
		if int(r.l4[12]>>4)*4 != len(r.l4) {
			return false, "tcp data offset"
		}
		if f := binary.BigEndian.Uint16(r.l4[16:]); f != ps && !(f == 0 && ps == 0xffff) && !(f == 0xffff && ps == 0) {
			return false, "tcp pseudo-header seed"
		}
	} else {
		if int(binary.BigEndian.Uint16(r.l4[4:])) != l4len {
			return false, "udp length"
		}
		if f := binary.BigEndian.Uint16(r.l4[6:]); f != ps && !(f == 0 && ps == 0xffff) && !(f == 0xffff && ps == 0) {
			return false, "udp pseudo-header seed"
		}
	}
	return true, ""
}

type c23Run struct {
	res      *vResult
	obs, inf *json.Encoder
	n        int
	xdis     int
	agree    int
	differ   int
	crossOK  int
	crossBad int
	// the coalescer of a reader routine lives for many batches: two out of three batches go through the SAME
	// MultiCoalescer as the batch before (whatever a Flush leaves behind meets the next batch), every third through a
	// fresh one
	keepW *c23Writer
	keepM *MultiCoalescer
}

// c23Exec runs one batch (tx order, ids 1..n) through a fresh MultiCoalescer in arrival order arr and records the
// observation. exp (may be nil) is the machine's prediction of Coalesce.tla (informational).
func (rn *c23Run) exec(t *testing.T, src string, fam int, batch []*c23Pkt, arr []int, exp [][]int) {
	rn.n++
	cs := make([]*c23Conc, len(batch)+1)
	obs := c23Obs{N: rn.n, Fam: fam, Pk: [][]any{}, O: []c23ObsWrite{}}
	info := c23Info{N: rn.n, Src: src, Arr: arr, Cls: []string{}, Why: map[string]string{}, Parts: [][]int{}}
	for _, p := range batch {
		cs[p.ID] = c23Build(p)
		obs.Pk = append(obs.Pk, p.tuple())
		info.Cls = append(info.Cls, p.class())
		rn.res.Hit(src + ":" + p.Proto + fmt.Sprint(p.Fam) + ":" + p.Shape)
		if p.Sess == 2 {
			rn.res.Hit(src + ":session2")
		}
	}
	var w *c23Writer
	var m *MultiCoalescer
	if rn.keepM != nil && rn.n%3 != 0 {
		w, m = rn.keepW, rn.keepM
		w.ws = nil
		rn.res.Hit("coalescer:reused")
	} else {
		w = &c23Writer{}
		m = NewMultiCoalescer(w, test.NewLogger())
		rn.res.Hit("coalescer:fresh")
	}
	rn.keepW, rn.keepM = w, m
	if m.tcp == nil || m.udp == nil {
		t.Fatalf("c23: lanes did not come up over a TSO+USO writer")
	}
	err := func() (err error) {
		defer func() {
			if r := recover(); r != nil {
				err = fmt.Errorf("panic: %v", r)
			}
		}()
		for _, id := range arr {
			c := cs[id]
			pp := c.pp
			epoch := uint64(40 + c.abs.Sess)
			ctr := uint64(c.abs.Ctr)
			if c.abs.Sess == 1 {
				ctr += 1 << 33 // the older session's counters are far above the newer one's
			}
			if e := m.Commit(c.buf, SortKey{Epoch: epoch, Counter: ctr}, &pp); e != nil {
				return e
			}
		}
		return m.Flush()
	}()
	if err != nil {
		info.Err = err.Error()
		rn.keepM = nil // a failed batch may leave anything behind: the next batch starts afresh
	}
	// ---- projection
	used := make([]bool, len(batch)+1)
	for k := range w.ws {
		r := &w.ws[k]
		ow := c23ObsWrite{GSO: r.gso, Lens: []int{}, Segs: []c23Seg{}, HdrOk: true}
		part := []int{}
		if !r.gso {
			rn.res.Hit("write")
			id := 0
			for _, p := range batch { // the earliest packet not yet seen that this write is
				if !used[p.ID] {
					if ok, _ := c23Compare(r.raw, cs[p.ID], true); ok {
						id = p.ID
						break
					}
				}
			}
			if id != 0 {
				used[id] = true
				ow.Segs = append(ow.Segs, c23Seg{ID: id, Ok: true})
			} else {
				// altered or alien: identify by the payload tag, else by the headers of an unseen packet
				for _, p := range batch {
					c := cs[p.ID]
					if p.Len >= 2 && len(r.raw) >= c.hdr+2 && c23TagAt(r.raw[c.hdr:]) == p.ID && !used[p.ID] {
						id = p.ID
						break
					}
				}
				why := "not a packet of the batch"
				if id != 0 {
					used[id] = true
					_, why = c23Compare(r.raw, cs[id], true)
				}
				info.Why[fmt.Sprint(id)] = "plain write: " + why
				ow.Segs = append(ow.Segs, c23Seg{ID: id, Ok: false})
			}
			part = append(part, 0, ow.Segs[0].ID)
		} else {
			if r.tcp {
				rn.res.Hit("gso:tcp")
			} else {
				rn.res.Hit("gso:udp")
			}
			part = append(part, 1)
			total := len(r.ip) + len(r.l4)
			ow.Hdr = total
			for _, p := range r.pays {
				ow.Lens = append(ow.Lens, len(p))
				total += len(p)
			}
			if len(r.pays) >= c23MaxSegs {
				rn.res.Hit("gso:64-segments")
			}
			hok, hwhy := c23HdrOK(r)
			ow.HdrOk = hok
			if !hok {
				info.Why["hdr"] = hwhy
			}
			geoOK := len(r.pays) > 0 && total <= 65535
			for i, p := range r.pays {
				if len(p) == 0 || len(p) > len(r.pays[0]) || (i < len(r.pays)-1 && len(p) != len(r.pays[0])) {
					geoOK = false
				}
			}
			if hok && len(r.pays) > 0 && len(r.pays[0]) > 0 {
				segs := c23KernelSeg(r.ip, r.l4, r.pays, r.tcp)
				for _, sg := range segs {
					hl := len(r.ip) + len(r.l4)
					id := c23TagAt(sg[hl:])
					if id < 1 || id > len(batch) {
						ow.Segs = append(ow.Segs, c23Seg{ID: 0, Ok: false})
						info.Why["0"] = "segment without a payload tag of the batch"
						part = append(part, 0)
						continue
					}
					ok, why := c23Compare(sg, cs[id], false)
					if !ok {
						info.Why[fmt.Sprint(id)] = "segment: " + why
					}
					ow.Segs = append(ow.Segs, c23Seg{ID: id, Ok: ok})
					part = append(part, id)
				}
				// cross-check of the reference with the repository's own tun-side segmenter
				if geoOK && len(r.pays) > 1 {
					sup := append(append(append([]byte(nil), r.ip...), r.l4...), bytes.Join(r.pays, nil)...)
					j := 0
					same := true
					yield := func(sg []byte) error {
						if j >= len(segs) || !bytes.Equal(sg, segs[j]) {
							same = false
						}
						j++
						return nil
					}
					var e error
					if r.tcp {
						e = virtio.SegmentTCP(sup, uint16(len(r.ip)+len(r.l4)), uint16(len(r.ip)), uint16(len(r.pays[0])), yield)
					} else {
						e = virtio.SegmentUDP(sup, uint16(len(r.ip)+len(r.l4)), uint16(len(r.ip)), uint16(len(r.pays[0])), yield)
					}
					if e != nil || !same || j != len(segs) {
						rn.crossBad++
					} else {
						rn.crossOK++
					}
				}
			} else {
				// nothing the kernel would segment: the payloads it carries are identified, none is delivered intact
				for _, p := range r.pays {
					ow.Segs = append(ow.Segs, c23Seg{ID: c23TagAt(p), Ok: false})
				}
			}
		}
		obs.O = append(obs.O, ow)
		info.Parts = append(info.Parts, part)
	}
	// informational: does the real partition equal the machine's of Coalesce.tla?
	if exp != nil {
		same := len(exp) == len(info.Parts)
		for k := 0; same && k < len(exp); k++ {
			same = fmt.Sprint(exp[k]) == fmt.Sprint(info.Parts[k])
		}
		if same {
			rn.agree++
		} else {
			rn.differ++
			if rn.differ <= 3 {
				rn.res.Extra[fmt.Sprintf("machine_differs_%d", rn.differ)] = map[string]any{"pk": obs.Pk, "machine": exp, "real": info.Parts}
			}
		}
	}
	// informational: pure ACK overtaken, cross-session order
	pos := map[int]int{}
	q := 0
	for _, ow := range obs.O {
		for _, s := range ow.Segs {
			pos[s.ID] = q
			q++
		}
	}
	for i, a := range batch {
		for _, b := range batch[i+1:] {
			if a.Proto == b.Proto && a.Flow == b.Flow && pos[a.ID] > pos[b.ID] {
				if a.Sess != b.Sess {
					rn.res.Hit("info:cross-session-order-changed")
				} else if a.Proto == "tcp" && a.Len == 0 && b.Len > 0 {
					rn.res.Hit("info:pure-ack-trails")
				}
			}
		}
	}
	if len(info.Why) == 0 {
		info.Why = nil
	}
	if err := rn.obs.Encode(obs); err != nil {
		t.Fatal(err)
	}
	if err := rn.inf.Encode(info); err != nil {
		t.Fatal(err)
	}
}

const c23MaxSegs = 64

type c23Vec struct {
	Fam   int     `json:"fam"`
	Lane  string  `json:"lane"`
	Pk    [][]any `json:"pk"`
	Arr   []int   `json:"arr"`
	Exp   [][]any `json:"exp"`
	Bites []string `json:"bites"`
}

func c23Int(v any) int { return int(v.(float64)) }

func TestVerif_C23(t *testing.T) {
	res := vNewResult()
	defer res.Write(t)
	rnd := vRand()
	fo, err := os.Create(vOut("obs.ndjson"))
	if err != nil {
		t.Fatal(err)
	}
	defer fo.Close()
	fi, err := os.Create(vOut("obsinfo.ndjson"))
	if err != nil {
		t.Fatal(err)
	}
	defer fi.Close()
	rn := &c23Run{res: res, obs: json.NewEncoder(fo), inf: json.NewEncoder(fi)}

	// ---------------------------------------------------------------- V
	nv := 0
	vReadNDJSON(t, "vectors.ndjson", func(raw []byte) {
		var v c23Vec
		if err := json.Unmarshal(raw, &v); err != nil {
			t.Fatalf("vector: %v: %s", err, raw)
		}
		if len(v.Pk) == 0 {
			return
		}
		nv++
		batch := make([]*c23Pkt, 0, len(v.Pk))
		for _, tp := range v.Pk {
			p := &c23Pkt{ID: c23Int(tp[0]), Sess: c23Int(tp[1]), Ctr: c23Int(tp[2]), Proto: tp[3].(string), Fam: v.Fam,
				Flow: c23Int(tp[4]), Shape: tp[5].(string), Seq: c23Int(tp[6]), Len: c23Int(tp[7]), DF: c23Int(tp[9]) == 1,
				IPID: c23Int(tp[10]), Tos: c23Int(tp[11]), Hv: c23Int(tp[12])}
			for _, f := range tp[8].([]any) {
				p.Flags = append(p.Flags, f.(string))
			}
			batch = append(batch, p)
		}
		var exp [][]int
		for _, e := range v.Exp {
			row := []int{c23Int(e[0])}
			for _, id := range e[2].([]any) {
				row = append(row, c23Int(id))
			}
			exp = append(exp, row)
		}
		arr := v.Arr
		if nv%4 == 0 { // any arrival order
			arr = rand.New(rand.NewSource(vSeed()*1000003 + int64(nv))).Perm(len(batch))
			for i := range arr {
				arr[i]++
			}
			res.Hit("V:arrival-shuffled")
		}
		for _, b := range v.Bites {
			res.Hit("model-refuses:" + b)
		}
		res.Hit("V:lane:" + v.Lane)
		res.Hit(fmt.Sprintf("V:len%d", len(batch)))
		res.Case(string(raw))
		rn.exec(t, "V", v.Fam, batch, arr, exp)
		if nv%5000 == 1 {
			res.Sample(json.RawMessage(append([]byte(nil), raw...)))
		}
	})

	// ---------------------------------------------------------------- T
	nb := 80
	if !vQuick() {
		nb = 400
	}
	for k := 0; k < nb; k++ {
		fam, batch, arr := c23Random(rnd, k)
		res.Hit("T:random")
		res.Traces++
		rn.exec(t, "T", fam, batch, arr, nil)
	}
	res.Extra["reference_vs_virtio_segmenter"] = map[string]int{"agree": rn.crossOK, "disagree": rn.crossBad}
	res.Extra["machine_partition"] = map[string]int{"agree": rn.agree, "differs": rn.differ}
	res.Extra["observations"] = rn.n
}

// c23Random: a seeded random batch in transmission order (ids 1..n) and an arrival order.
func c23Random(rnd *rand.Rand, round int) (int, []*c23Pkt, []int) {
	fam := 4 + 2*rnd.Intn(2)
	n := 20 + rnd.Intn(281)
	if round%5 == 0 {
		n = 300
	}
	type flow struct {
		proto        string
		idx          int
		seq, ipid    int
		idm          string
		tos, hv      int
		mss          int
		opt, ece     bool
		nosum        bool
		started      bool
	}
	nf := 1 + rnd.Intn(40)
	if round%3 == 0 {
		nf = 1 + rnd.Intn(3)
	}
	flows := make([]*flow, nf)
	for i := range flows {
		f := &flow{idx: i + 1, proto: []string{"tcp", "tcp", "tcp", "udp", "udp", "other"}[rnd.Intn(6)]}
		f.seq = []int{rnd.Intn(1 << 30), -1 - rnd.Intn(70000), -150}[rnd.Intn(3)]
		f.ipid = []int{rnd.Intn(65536), -1 - rnd.Intn(40)}[rnd.Intn(2)]
		f.idm = []string{"df", "df", "inc", "rand"}[rnd.Intn(4)]
		f.tos = rnd.Intn(6)
		f.mss = []int{100, 100, 536, 1000, 1200, 1400, 1448, 8, 4, 9000}[rnd.Intn(10)]
		f.opt = rnd.Intn(3) == 0
		f.nosum = rnd.Intn(6) == 0
		flows[i] = f
	}
	split := n + 1 // first id of session 2
	if rnd.Intn(3) != 0 {
		split = 1 + rnd.Intn(n)
	}
	var batch []*c23Pkt
	var cur *flow
	switchPct := []int{1, 3, 12, 40}[rnd.Intn(4)] // how often the sender changes flow: long runs reach the segment / byte caps
	devPct := []int{2, 8, 18, 30}[rnd.Intn(4)]    // how often a packet deviates from its flow's steady stream
	c1, c2 := 100000+rnd.Intn(1000), rnd.Intn(50)
	for id := 1; id <= n; id++ {
		if cur == nil || rnd.Intn(100) < switchPct {
			cur = flows[rnd.Intn(nf)]
		}
		f := cur
		p := &c23Pkt{ID: id, Sess: 1, Proto: f.proto, Fam: fam, Flow: f.idx, Shape: "plain", Len: f.mss, Tos: f.tos, Hv: f.hv,
			TCPOpt: f.opt, NoUDPSum: f.nosum}
		if id >= split {
			p.Sess = 2
			c2 += 1 + rnd.Intn(3)
			p.Ctr = c2
		} else {
			c1 += 1 + rnd.Intn(3)
			p.Ctr = c1
		}
		if f.proto == "tcp" {
			p.Flags = []string{"ACK"}
			if f.ece {
				p.Flags = []string{"ACK", "ECE"}
			}
		}
		dev := rnd.Intn(100) < devPct
		seqAdvance := true
		if dev {
			switch d := rnd.Intn(24); d {
			case 0:
				p.Len = 0
			case 1:
				if f.proto == "tcp" {
					p.Flags = append([]string{"PSH"}, p.Flags...)
				}
			case 2:
				if f.proto == "tcp" {
					p.Flags = []string{"FIN", "ACK"}
					p.Len = []int{0, f.mss}[rnd.Intn(2)]
				}
			case 3:
				if f.proto == "tcp" {
					p.Flags = [][]string{{"SYN"}, {"SYN", "ACK"}, {"RST"}, {"RST", "ACK"}, {"ACK", "URG"}, {"ACK", "CWR"}, {"ACK", "ECE", "CWR"}, {}}[rnd.Intn(8)]
					if rnd.Intn(2) == 0 {
						p.Len = 0
					}
				}
			case 4:
				f.ece = !f.ece
			case 5:
				p.Len = 4 + rnd.Intn(f.mss)
			case 6:
				p.Len = f.mss + 1 + rnd.Intn(200)
			case 7:
				f.seq += 1 + rnd.Intn(3000) // hole
			case 8:
				f.seq -= f.mss // retransmission
			case 9:
				f.ipid += 5 + rnd.Intn(100)
			case 10:
				p.Tos = rnd.Intn(6)
			case 11:
				f.tos = rnd.Intn(6)
				p.Tos = f.tos
			case 12:
				p.Hv = 1 + rnd.Intn(3)
			case 13:
				f.hv = rnd.Intn(3)
				p.Hv = f.hv
			case 14:
				p.Shape = "opt"
			case 15:
				p.Shape = "frag"
			case 16:
				p.Shape = "frag2"
				p.Flags = nil
				if p.Len == 0 {
					p.Len = 8
				}
			case 17:
				p.Shape = "trunc"
			case 18:
				p.Shape = "trail"
			case 19:
				if f.proto == "udp" {
					p.Shape = "l4short"
				} else if f.proto == "tcp" {
					p.Shape = "badoff"
				}
			case 20:
				if rnd.Intn(3) == 0 {
					p.Len = 65535 - 40 - 28 - rnd.Intn(3)*20 // oversized: at or over what fits one superpacket
					if fam == 6 && rnd.Intn(2) == 0 {
						p.Len = 65535 - 8
						if f.proto == "tcp" {
							p.Len = 65535 - 20
							if f.opt {
								p.Len = 65535 - 32
							}
						}
					}
				} else {
					p.Len = 20000 + rnd.Intn(12000)
				}
			case 21:
				f.mss = []int{100, 536, 1200, 1448, 16}[rnd.Intn(5)]
				p.Len = f.mss
			case 22:
				p.Window = 1 + rnd.Intn(60000)
			case 23:
				f.idm = []string{"df", "inc", "rand"}[rnd.Intn(3)]
			}
		}
		if p.Shape == "frag2" {
			p.Flags = nil
		}
		if p.Proto != "tcp" {
			p.Flags = nil
		}
		if p.Flags == nil {
			p.Flags = []string{}
		}
		// IPv4 ID and DF
		switch f.idm {
		case "df":
			p.DF = true
			f.ipid = rnd.Intn(65536)
		case "inc":
			f.ipid++
		default:
			f.ipid = rnd.Intn(65536)
		}
		p.IPID = f.ipid
		if fam == 6 {
			p.DF, p.IPID = false, 0
		}
		if p.Proto == "tcp" {
			p.Seq = f.seq
			if seqAdvance && p.Shape != "frag2" {
				f.seq += p.Len
				if p.has("SYN") || p.has("FIN") {
					f.seq++
				}
			}
		}
		batch = append(batch, p)
	}
	// arrival order: the transmission order disturbed inside a window
	win := []int{1, 1, 3, 10, 40, n}[rnd.Intn(6)]
	type key struct{ k, id int }
	ks := make([]key, n)
	for i := range ks {
		ks[i] = key{i + rnd.Intn(win), i + 1}
	}
	sort.SliceStable(ks, func(a, b int) bool { return ks[a].k < ks[b].k })
	arr := make([]int, n)
	for i := range ks {
		arr[i] = ks[i].id
	}
	return fam, batch, arr
}
