//go:build linux && !android

package batch

// C23 — concretisation of the abstract packets of spec/Coalesce.tla into real bytes, the ParsedPacket the call site
// (outside.go: newPacket -> Commit) would hand over, and the reference kernel segmentation of a recorded write.
// Nothing here uses the code under test.

import (
	"encoding/binary"
	"fmt"

	"github.com/slackhq/nebula/firewall"
	"github.com/slackhq/nebula/iputil"
)

// c23Pkt is the abstract packet (tuple layout of Coalesce.tla: id, sess, ctr, proto, flow, shape, seq, len, flags, df,
// ipid, tos, hv) plus concrete-only variations used by the random driver (not judged, only concretised).
type c23Pkt struct {
	ID, Sess, Ctr int
	Proto         string
	Fam, Flow     int
	Shape         string
	Seq, Len      int
	Flags         []string
	DF            bool
	IPID, Tos, Hv int
	// concrete-only
	TCPOpt   bool // 12 bytes of TCP options (timestamps, constant per flow)
	NoUDPSum bool // IPv4 UDP datagram sent without checksum
	Window   int
}

func (p *c23Pkt) tuple() []any {
	df := 0
	if p.DF {
		df = 1
	}
	fl := p.Flags
	if fl == nil {
		fl = []string{}
	}
	return []any{p.ID, p.Sess, p.Ctr, p.Proto, p.Flow, p.Shape, p.Seq, p.Len, fl, df, p.IPID, p.Tos, p.Hv}
}

func (p *c23Pkt) has(f string) bool {
	for _, x := range p.Flags {
		if x == f {
			return true
		}
	}
	return false
}

// class of a packet for hit counting and mismatch keys
func (p *c23Pkt) class() string {
	s := fmt.Sprintf("%s%d:%s", p.Proto, p.Fam, p.Shape)
	if p.Proto == "tcp" && p.Shape != "frag2" {
		fl := ""
		for _, f := range p.Flags {
			fl += f[:1]
		}
		if fl == "" {
			fl = "none"
		}
		s += ":" + fl
	}
	if p.Len == 0 {
		s += ":empty"
	}
	return s
}

var c23FlagOrder = []string{"FIN", "SYN", "RST", "PSH", "ACK", "URG", "ECE", "CWR"}

func c23FlagByte(fl []string) byte {
	var b byte
	for _, f := range fl {
		for k, n := range c23FlagOrder {
			if n == f {
				b |= 1 << uint(k)
			}
		}
	}
	return b
}

// c23Sum: one's-complement sum of RFC 1071 (not complemented)
func c23Sum(b []byte, acc uint32) uint32 {
	for len(b) >= 2 {
		acc += uint32(b[0])<<8 | uint32(b[1])
		b = b[2:]
	}
	if len(b) == 1 {
		acc += uint32(b[0]) << 8
	}
	for acc>>16 != 0 {
		acc = acc&0xffff + acc>>16
	}
	return acc
}

func c23Pseudo(fam int, src, dst []byte, proto byte, l4len int) uint32 {
	acc := c23Sum(src, 0)
	acc = c23Sum(dst, acc)
	if fam == 4 {
		return c23Sum([]byte{0, proto, byte(l4len >> 8), byte(l4len)}, acc)
	}
	return c23Sum([]byte{byte(l4len >> 24), byte(l4len >> 16), byte(l4len >> 8), byte(l4len), 0, 0, 0, proto}, acc)
}

// payload byte i of packet id: every 4-byte word carries the id and the word index
func c23PayByte(id, i int) byte {
	k := i / 4
	switch i % 4 {
	case 0:
		return byte(id >> 8)
	case 1:
		return byte(id)
	case 2:
		return byte(k>>8) ^ 0x5a
	}
	return byte(k)
}

func c23TagAt(b []byte) int {
	if len(b) < 2 {
		return 0
	}
	return int(b[0])<<8 | int(b[1])
}

var c23TosByte = []byte{0x00, 0x01, 0x02, 0x28, 0x03, 0xb8}

func c23ProtoNum(p *c23Pkt) byte {
	switch p.Proto {
	case "tcp":
		return 6
	case "udp":
		return 17
	}
	if p.Fam == 6 {
		return 58
	}
	return 1
}

// c23Conc is a concretised packet.
type c23Conc struct {
	buf   []byte // what is committed (the coalescer may patch it in place)
	orig  []byte // pristine copy
	decl  int    // end of the packet as declared by the IP header (0 = the declaration is unusable)
	l3    int    // offset of the L4 header (after options / extension headers)
	hdr   int    // offset of the payload
	proto byte
	pp    firewall.ParsedPacket
	abs   *c23Pkt
}

// c23Build makes the bytes of p. Flows differ in exactly one component of the 5-tuple.
func c23Build(p *c23Pkt) *c23Conc {
	proto := c23ProtoNum(p)
	f := p.Flow
	sport, dport, sa, da := 20000, 30000, 1, 1
	switch f % 4 {
	case 0:
		sport += f
	case 1:
		dport += f
	case 2:
		sa += f
	case 3:
		da += f
	}
	// ---- L4 header + payload
	var l4 []byte
	pay := make([]byte, p.Len)
	for i := range pay {
		pay[i] = c23PayByte(p.ID, i)
	}
	extra := 0 // bytes inside the IP payload after the L4 datagram (l4short)
	l4hdr := 0
	switch {
	case p.Shape == "frag2":
		l4 = pay // a later fragment has no L4 header
	case p.Proto == "tcp":
		l4hdr = 20
		if p.TCPOpt {
			l4hdr = 32
		}
		l4 = make([]byte, l4hdr, l4hdr+len(pay))
		binary.BigEndian.PutUint16(l4[0:], uint16(sport))
		binary.BigEndian.PutUint16(l4[2:], uint16(dport))
		binary.BigEndian.PutUint32(l4[4:], uint32(int64(p.Seq)))
		ack := uint32(12345)
		if p.Hv != 0 {
			ack += uint32(p.Hv) * 1000
		}
		binary.BigEndian.PutUint32(l4[8:], ack)
		l4[12] = byte(l4hdr/4) << 4
		if p.Shape == "badoff" {
			l4[12] = 4 << 4
		}
		l4[13] = c23FlagByte(p.Flags)
		w := 0xfff0
		if p.Window != 0 {
			w = p.Window
		}
		if p.Len == 0 && p.Sess == 2 {
			// packets without a payload tag are told apart by their bytes: identical ones exist inside a session only
			// (there the earliest match is exact), never across sessions
			w -= 16
		}
		binary.BigEndian.PutUint16(l4[14:], uint16(w))
		if p.TCPOpt {
			copy(l4[20:], []byte{1, 1, 8, 10, 0, 0, 0x11, byte(f), 0, 0, 0x22, byte(f)})
		}
		l4 = append(l4, pay...)
	case p.Proto == "udp":
		l4hdr = 8
		if p.Shape == "l4short" {
			extra = 4
		}
		l4 = make([]byte, 8, 8+len(pay)+extra)
		binary.BigEndian.PutUint16(l4[0:], uint16(sport))
		binary.BigEndian.PutUint16(l4[2:], uint16(dport))
		binary.BigEndian.PutUint16(l4[4:], uint16(8+len(pay)))
		l4 = append(l4, pay...)
		for i := 0; i < extra; i++ {
			l4 = append(l4, 0xdd)
		}
	default: // ICMP / ICMPv6 echo request
		l4hdr = 8
		l4 = make([]byte, 8, 8+len(pay))
		l4[0] = 8
		if p.Fam == 6 {
			l4[0] = 128
		}
		binary.BigEndian.PutUint16(l4[4:], uint16(f))
		binary.BigEndian.PutUint16(l4[6:], uint16(p.ID))
		l4 = append(l4, pay...)
	}
	// ---- IP header
	tos := c23TosByte[p.Tos%len(c23TosByte)]
	ttl := byte(64)
	if p.Proto != "tcp" && p.Hv != 0 {
		ttl -= byte(p.Hv)
	}
	if p.Proto != "tcp" && p.Len == 0 && p.Sess == 2 {
		ttl -= 8 // see the TCP window above
	}
	var ip []byte
	if p.Fam == 4 {
		ihl := 20
		if p.Shape == "opt" {
			ihl = 24
		}
		ip = make([]byte, ihl)
		ip[0] = 0x40 | byte(ihl/4)
		ip[1] = tos
		binary.BigEndian.PutUint16(ip[4:], uint16(int64(p.IPID)))
		var ff uint16
		if p.DF {
			ff |= 0x4000
		}
		switch p.Shape {
		case "frag":
			ff |= 0x2000
		case "frag2":
			ff |= 185
		}
		binary.BigEndian.PutUint16(ip[6:], ff)
		ip[8] = ttl
		ip[9] = proto
		copy(ip[12:], []byte{10, 1, 0, byte(sa)})
		copy(ip[16:], []byte{10, 2, 0, byte(da)})
		if ihl == 24 {
			copy(ip[20:], []byte{1, 1, 1, 0})
		}
	} else {
		ext := 0
		if p.Shape == "opt" || p.Shape == "frag" || p.Shape == "frag2" {
			ext = 8
		}
		ip = make([]byte, 40+ext)
		ip[0] = 0x60 | tos>>4
		ip[1] = tos<<4 | 0x01
		ip[2], ip[3] = 0x23, 0x45
		ip[6] = proto
		ip[7] = ttl
		ip[8], ip[9] = 0xfd, 0x00
		ip[23] = byte(sa)
		ip[24], ip[25] = 0xfd, 0x00
		ip[38], ip[39] = 0x02, byte(da)
		switch p.Shape {
		case "opt":
			ip[6] = 60
			copy(ip[40:], []byte{proto, 0, 1, 4, 0, 0, 0, 0})
		case "frag":
			ip[6] = 44
			copy(ip[40:], []byte{proto, 0, 0, 1, 0x1b, 0xad, byte(p.ID >> 8), byte(p.ID)})
		case "frag2":
			ip[6] = 44
			copy(ip[40:], []byte{proto, 0, 0x05, 0xc8, 0x1b, 0xad, 0, byte(f)}) // offset 185, M=0
		}
	}
	buf := make([]byte, 0, len(ip)+len(l4)+8)
	buf = append(buf, ip...)
	buf = append(buf, l4...)
	l3 := len(ip)
	var src, dst []byte
	if p.Fam == 4 {
		binary.BigEndian.PutUint16(buf[2:], uint16(len(buf)))
		src, dst = buf[12:16], buf[16:20]
	} else {
		binary.BigEndian.PutUint16(buf[4:], uint16(len(buf)-40))
		src, dst = buf[8:24], buf[24:40]
	}
	// ---- L4 checksum (valid, as the sender's stack made it)
	if p.Shape != "frag2" {
		seg := buf[l3 : len(buf)-extra]
		switch p.Proto {
		case "tcp":
			binary.BigEndian.PutUint16(seg[16:], ^uint16(c23Sum(seg, c23Pseudo(p.Fam, src, dst, proto, len(seg)))))
		case "udp":
			if !(p.NoUDPSum && p.Fam == 4) {
				c := ^uint16(c23Sum(seg, c23Pseudo(p.Fam, src, dst, proto, len(seg))))
				if c == 0 {
					c = 0xffff
				}
				binary.BigEndian.PutUint16(seg[6:], c)
			}
		default:
			if p.Fam == 6 {
				binary.BigEndian.PutUint16(seg[2:], ^uint16(c23Sum(seg, c23Pseudo(6, src, dst, proto, len(seg)))))
			} else {
				binary.BigEndian.PutUint16(seg[2:], ^uint16(c23Sum(seg, 0)))
			}
		}
	}
	decl := len(buf)
	switch p.Shape {
	case "trunc": // the IP header declares 8 bytes more than there are
		if p.Fam == 4 {
			binary.BigEndian.PutUint16(buf[2:], uint16(len(buf)+8))
		} else {
			binary.BigEndian.PutUint16(buf[4:], uint16(len(buf)-40+8))
		}
		decl = 0
	case "trail": // bytes after the IP-declared end
		buf = append(buf, 0xee, 0xee, 0xee, 0xee, 0xee, 0xee)
	}
	if p.Fam == 4 {
		binary.BigEndian.PutUint16(buf[10:], ^uint16(c23Sum(buf[:l3], 0)))
	}
	c := &c23Conc{buf: buf, orig: append([]byte(nil), buf...), decl: decl, l3: l3, hdr: l3 + l4hdr, proto: proto, abs: p}
	c.pp = c23Parse(buf)
	return c
}

// c23Parse gives the fields of firewall.ParsedPacket that Commit reads, the way outside.go:newPacket computes them
// (parseV4 transcribed; the IPv6 chain walked by the same iputil function newPacket calls).
func c23Parse(data []byte) firewall.ParsedPacket {
	var pp firewall.ParsedPacket
	if data[0]>>4 == 4 {
		pp.IPHdrLen = int(data[0]&0x0f) << 2
		ff := binary.BigEndian.Uint16(data[6:8])
		pp.Fragment = ff&0x1fff != 0
		pp.FragAny = ff&0x3fff != 0
		pp.Protocol = data[9]
		return pp
	}
	proto, off, isFrag, anyFrag, err := iputil.IPv6FindUpperProtocol(data)
	if err != nil {
		panic(fmt.Sprintf("c23: harness built an IPv6 packet newPacket refuses: %v", err))
	}
	pp.Protocol, pp.IPHdrLen, pp.Fragment, pp.FragAny = proto, off, isFrag, anyFrag
	return pp
}

// ---------------------------------------------------------------------------------------------------------------
// Reference kernel segmentation of one offloaded write (virtio_net_hdr NEEDS_CSUM + GSO_TCPV4/6 / GSO_UDP_L4), written
// from the kernel's algorithm (inet_gso_segment / tcp_gso_segment / __udp_gso_segment / skb_checksum_help): the L4
// checksum field of the superpacket is trusted to hold the pseudo-header sum for the whole superpacket, the UDP length
// field to hold the whole length; they are adjusted per segment, never recomputed from the addresses.

func c23Add16(a uint32, b uint16) uint32 {
	a += uint32(b)
	for a>>16 != 0 {
		a = a&0xffff + a>>16
	}
	return a
}

// c23KernelSeg returns the packets the kernel makes of hdr(ip|l4) + pays with segment size gso.
func c23KernelSeg(ip, l4 []byte, pays [][]byte, isTCP bool) [][]byte {
	var payload []byte
	for _, p := range pays {
		payload = append(payload, p...)
	}
	gso := len(pays[0])
	l3 := len(ip)
	hl := l3 + len(l4)
	fam4 := ip[0]>>4 == 4
	oldL4 := len(l4) + len(payload)
	n := 1
	if len(pays) > 1 && len(payload) > 0 && gso > 0 {
		n = (len(payload) + gso - 1) / gso
	}
	var out [][]byte
	for j := 0; j < n; j++ {
		from, to := j*gso, (j+1)*gso
		if n == 1 {
			from, to = 0, len(payload)
		}
		if to > len(payload) {
			to = len(payload)
		}
		seg := make([]byte, 0, hl+to-from)
		seg = append(seg, ip...)
		seg = append(seg, l4...)
		seg = append(seg, payload[from:to]...)
		newL4 := len(seg) - l3
		if fam4 {
			binary.BigEndian.PutUint16(seg[2:], uint16(len(seg)))
			binary.BigEndian.PutUint16(seg[4:], binary.BigEndian.Uint16(ip[4:])+uint16(j))
			seg[10], seg[11] = 0, 0
			binary.BigEndian.PutUint16(seg[10:], ^uint16(c23Sum(seg[:l3], 0)))
		} else {
			binary.BigEndian.PutUint16(seg[4:], uint16(len(seg)-40))
		}
		t := seg[l3:]
		if isTCP {
			binary.BigEndian.PutUint32(t[4:], binary.BigEndian.Uint32(l4[4:])+uint32(from))
			if j != 0 {
				t[13] &^= 0x80 // CWR on the first segment only
			}
			if j != n-1 {
				t[13] &^= 0x09 // FIN, PSH on the last only
			}
			part := c23Add16(c23Add16(uint32(binary.BigEndian.Uint16(l4[16:])), ^uint16(oldL4)), uint16(newL4))
			t[16], t[17] = 0, 0
			binary.BigEndian.PutUint16(t[16:], ^uint16(c23Sum(t, part)))
		} else {
			oldLenField := binary.BigEndian.Uint16(l4[4:])
			binary.BigEndian.PutUint16(t[4:], uint16(newL4))
			part := c23Add16(c23Add16(uint32(binary.BigEndian.Uint16(l4[6:])), ^oldLenField), uint16(newL4))
			t[6], t[7] = 0, 0
			c := ^uint16(c23Sum(t, part))
			if c == 0 {
				c = 0xffff
			}
			binary.BigEndian.PutUint16(t[6:], c)
		}
		out = append(out, seg)
	}
	return out
}
